/-
  C01 — Replica determinism: same blocks give the same state and results on every node.
  Shell-level theorems for ARBITRARY handler programs: independence of the node-local
  environment (identity, role, clock, map-iteration oracle), and the fact that the input of the
  application hash is exactly the block's surviving writes in first-write order.
-/
import OLP.Shell.LemmasB

namespace OLP.Props.C01
open OLP OLP.KV OLP.Shell

variable {K V C E α T H D : Type} [DecidableEq K] [DecidableEq V] [DecidableEq C] [DecidableEq H]
variable (cfg : Cfg K V) (hs : Handlers K V C E T H D)

/-- a program that never consults the environment behaves the same in every environment -/
theorem run_env_independent (p : Prog K V C E α) (h : p.EnvFree) (s : St K V) (m : Vol C V)
    (e₁ e₂ : E) : p.run cfg s m e₁ = p.run cfg s m e₂ := run_env cfg p h s m e₁ e₂

/-- any sequence of ABCI calls (consensus calls and mempool checks) gives the same node and the
    same outputs in every environment -/
theorem runCalls_env_independent (hf : AllEnvFree hs) (r : Run K V C T H D) (calls : List (Call T))
    (e₁ e₂ : E) : runCalls cfg hs e₁ r calls = runCalls cfg hs e₂ r calls := by
  induction calls generalizing r with
  | nil => rfl
  | cons c cs ih => simp only [runCalls, stepCall_env cfg hs hf r c e₁ e₂, ih]

/-- block histories: same results, same commit write logs (the input of every application hash),
    same final node, whatever the environment -/
theorem execBlocks_env_independent (hf : AllEnvFree hs) (n : Node K V C T H D)
    (blocks : List (List T)) (e₁ e₂ : E) :
    execBlocks cfg hs e₁ n blocks = execBlocks cfg hs e₂ n blocks := by
  induction blocks generalizing n with
  | nil => rfl
  | cons b bs ih => simp only [execBlocks, execBlock_env cfg hs hf n b e₁ e₂, ih]

/-- the write log of a block's commit is the block cache in first-write order followed by one
    `save`: the hash input is a function of the *sequence* of surviving writes only -/
theorem block_log_is_cache_in_first_write_order (e : E) (n : Node K V C T H D) (txs : List T) :
    let pre := endBlock cfg hs e (deliverAll cfg hs e (beginBlock cfg hs e n) txs).1
    (execBlock cfg hs e n txs).2.log = pre.dlv.cache.map (toTreeOp cfg) ++ [.save] := by
  intro pre
  have h1 := beginBlock_frameB cfg hs e n
  have h2 := deliverAll_frame cfg hs e txs (beginBlock cfg hs e n)
  have h3 := endBlock_frameB cfg hs e (deliverAll cfg hs e (beginBlock cfg hs e n) txs).1
  have ht : pre.tree = n.tree := h3.1.trans (h2.1.trans h1.1)
  show ((pre.dlv.toSt pre.tree).commit cfg).tree.log.drop n.tree.log.length = _
  rw [st_commit_log, ← ht]
  exact List.drop_left

/-- sorting makes a traversal independent of the order in which a Go map hands out its keys -/
theorem sortKeys_perm_invariant (lt : K → K → Bool)
    (irrefl : ∀ a, lt a a = false) (trans : ∀ a b c, lt a b = true → lt b c = true → lt a c = true)
    (total : ∀ a b, a ≠ b → lt a b = true ∨ lt b a = true)
    (l₁ l₂ : List K) (hp : l₁.Perm l₂) : sortKeys lt l₁ = sortKeys lt l₂ := by
  refine List.Perm.eq_of_pairwise (le := fun a b => lt b a = false) ?_
    (sortKeys_sorted lt irrefl trans l₁) (sortKeys_sorted lt irrefl trans l₂)
    ((sortKeys_perm lt l₁).trans (hp.trans (sortKeys_perm lt l₂).symm))
  intro a b _ _ hab hba
  apply Classical.byContradiction
  intro hne
  rcases total a b hne with h | h
  · rw [h] at hba; cases hba
  · rw [h] at hab; cases hab

/-! ## Non-vacuity and the shape of a violation -/

def exCfg : Cfg Nat Nat := { tomb := 0, vlen := fun _ => 1, lt := fun a b => decide (a < b) }

/-- a hook that writes the node's own address into the state is not `EnvFree`, and two nodes
    then disagree on the commit log -/
def leakyH : Handlers Nat Nat Nat Nat Nat Nat Nat :=
  { hash := id, validate := fun _ => .ret (), check := fun _ => .ret 0, deliver := fun _ => .ret 0,
    fee := fun _ _ => .ret 0, begin := fun _ => [(true, .env (fun me => .set 1 me (fun _ => .ret ())))],
    endb := fun _ => [], gasLimit := 1000000 }
def exN : Node Nat Nat Nat Nat Nat Nat :=
  { tree := Tree.empty ⟨1, 0, 0⟩, dlv := Ov.fresh 1000000, chk := Ov.fresh 1000000, vol := fun _ => none,
    idx := [], aim := .check, height := 0, closed := false }

theorem env_leak_diverges :
    (execBlock exCfg leakyH 11 exN []).2.log ≠ (execBlock exCfg leakyH 22 exN []).2.log := by
  decide

/-! ### a concrete application that IS `AllEnvFree`, on two nodes with different environments

  The environment type is `Nat` (the node's own address, as for `leakyH`), so the programs COULD
  consult it; none does. Validate burns gas and refuses transaction 0; ProcessCheck reads key 1 and
  writes key 3; ProcessDeliver reads the counter under key 1, adds the transaction, writes key 2 and
  fails for transaction 9 after its writes; the fee step reads the gas counter; a BeginBlock hook
  records the height under key 8 and an EndBlock hook copies key 1 to key 9; the block gas limit
  is 10000. -/

def detH : Handlers Nat Nat Nat Nat Nat Nat Nat :=
  { hash := id,
    validate := fun tx => .burn 5 (if tx = 0 then .fail else .ret ()),
    check := fun tx => .get 1 (fun _ => .set 3 tx (fun _ => .ret tx)),
    deliver := fun tx => .get 1 (fun r => match r with
      | .val v => .set 1 (v.getD 0 + tx) (fun _ => .set 2 tx (fun _ =>
          if tx = 9 then .fail else .ret tx))
      | .errGas => .fail),
    fee := fun _ g0 => .gas (fun g => .ret (g - g0)),
    begin := fun h => [(true, .set 8 h (fun _ => .ret ()))],
    endb := fun _ => [(true, .get 1 (fun r => match r with
      | .val (some v) => .set 9 v (fun _ => .ret ())
      | _ => .ret ()))],
    gasLimit := 10000 }

def detN : Node Nat Nat Nat Nat Nat Nat :=
  { tree := Tree.empty ⟨1, 0, 0⟩, dlv := Ov.fresh 10000, chk := Ov.fresh 10000, vol := fun _ => none,
    idx := [], aim := .check, height := 0, closed := false }

theorem det_envFree : AllEnvFree detH := by
  refine ⟨fun tx => ⟨?_, ?_, ?_, fun g => ?_⟩, fun h => ⟨?_, ?_⟩⟩
  · simp only [detH, Prog.EnvFree]
    split <;> simp [Prog.EnvFree]
  · simp [detH, Prog.EnvFree]
  · simp only [detH, Prog.EnvFree]
    intro r
    split
    · intro _ _
      split <;> simp [Prog.EnvFree]
    · trivial
  · simp [detH, Prog.EnvFree]
  · intro hk hm
    simp only [detH, List.mem_singleton] at hm
    subst hm
    simp [Prog.EnvFree]
  · intro hk hm
    simp only [detH, List.mem_singleton] at hm
    subst hm
    simp only [Prog.EnvFree]
    intro r
    split <;> simp [Prog.EnvFree]

/-- `execBlocks_env_independent` applied: the nodes with addresses 11 and 22 (the two that disagree
    under `leakyH`) run the history `[[5, 9, 0], [7, 5]]` to the same node and the same outputs -/
theorem env_independent_instance :
    execBlocks exCfg detH 11 detN [[5, 9, 0], [7, 5]] = execBlocks exCfg detH 22 detN [[5, 9, 0], [7, 5]] :=
  execBlocks_env_independent exCfg detH det_envFree detN [[5, 9, 0], [7, 5]] 11 22

/-- … and what both compute: block 1 has a success, a failure after partial writes (9) and a
    refusal (0); block 2 has a success and a replay of 5 (recorded response, nothing runs); the two
    commit logs are the same concrete lists on both nodes -/
theorem env_independent_facts :
    (execBlocks exCfg detH 11 detN [[5, 9, 0], [7, 5]]).2.map (fun o => (o.results, o.log)) =
      [([⟨true, some 5, 25⟩, ⟨false, none, 27⟩, ⟨false, none, 0⟩],
        [.set 8 1, .set 1 5, .set 2 5, .set 9 5, .save]),
       ([⟨true, some 7, 25⟩, ⟨true, some 5, 25⟩],
        [.set 8 2, .set 1 12, .set 2 7, .set 9 12, .save])] ∧
    (execBlocks exCfg detH 22 detN [[5, 9, 0], [7, 5]]).2.map (fun o => (o.results, o.log)) =
      [([⟨true, some 5, 25⟩, ⟨false, none, 27⟩, ⟨false, none, 0⟩],
        [.set 8 1, .set 1 5, .set 2 5, .set 9 5, .save]),
       ([⟨true, some 7, 25⟩, ⟨true, some 5, 25⟩],
        [.set 8 2, .set 1 12, .set 2 7, .set 9 12, .save])] := by
  decide +kernel

/-- the same two blocks as ABCI calls with mempool checks in between -/
def detCalls : List (Call Nat) :=
  [.check 4, .begin, .deliver 5, .check 0, .deliver 9, .endb, .commit [5, 9], .check 5,
   .begin, .deliver 7, .endb, .commit [7]]

/-- `runCalls_env_independent` applied -/
theorem env_independent_calls_instance :
    runCalls exCfg detH 11 ⟨detN, []⟩ detCalls = runCalls exCfg detH 22 ⟨detN, []⟩ detCalls :=
  runCalls_env_independent exCfg detH det_envFree ⟨detN, []⟩ detCalls 11 22

theorem env_independent_calls_facts :
    (runCalls exCfg detH 11 ⟨detN, []⟩ detCalls).2 =
      [.checked true, .none, .tx ⟨true, some 5, 25⟩, .checked false, .tx ⟨false, none, 27⟩, .none,
       .committed [.set 8 1, .set 1 5, .set 2 5, .set 9 5, .save], .checked false,
       .none, .tx ⟨true, some 7, 25⟩, .none,
       .committed [.set 8 2, .set 1 12, .set 2 7, .set 9 12, .save]] ∧
    (runCalls exCfg detH 22 ⟨detN, []⟩ detCalls).2 = (runCalls exCfg detH 11 ⟨detN, []⟩ detCalls).2 := by
  decide +kernel

end OLP.Props.C01

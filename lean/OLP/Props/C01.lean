/-
  C01 — Replica determinism: same blocks give the same state and results on every node.
  Shell-level theorems for ARBITRARY handler programs: independence of the node-local
  environment (identity, role, clock, map-iteration oracle), and the fact that the input of the
  application hash is exactly the block's surviving writes in first-write order.
-/
import OLP.Shell.LemmasB

namespace OLP.Props.C01
open OLP OLP.KV OLP.Shell

variable {K V C E α T H D : Type} [DecidableEq K] [DecidableEq V] [DecidableEq C] [DecidableEq H]
variable (cfg : Cfg K V) (hs : Handlers K V C E T H D)

/-- a program that never consults the environment behaves the same in every environment -/
theorem run_env_independent (p : Prog K V C E α) (h : p.EnvFree) (s : St K V) (m : Vol C V)
    (e₁ e₂ : E) : p.run cfg s m e₁ = p.run cfg s m e₂ := run_env cfg p h s m e₁ e₂

/-- any sequence of ABCI calls (consensus calls and mempool checks) gives the same node and the
    same outputs in every environment -/
theorem runCalls_env_independent (hf : AllEnvFree hs) (r : Run K V C T H D) (calls : List (Call T))
    (e₁ e₂ : E) : runCalls cfg hs e₁ r calls = runCalls cfg hs e₂ r calls := by
  induction calls generalizing r with
  | nil => rfl
  | cons c cs ih => simp only [runCalls, stepCall_env cfg hs hf r c e₁ e₂, ih]

/-- block histories: same results, same commit write logs (the input of every application hash),
    same final node, whatever the environment -/
theorem execBlocks_env_independent (hf : AllEnvFree hs) (n : Node K V C T H D)
    (blocks : List (List T)) (e₁ e₂ : E) :
    execBlocks cfg hs e₁ n blocks = execBlocks cfg hs e₂ n blocks := by
  induction blocks generalizing n with
  | nil => rfl
  | cons b bs ih => simp only [execBlocks, execBlock_env cfg hs hf n b e₁ e₂, ih]

/-- the write log of a block's commit is the block cache in first-write order followed by one
    `save`: the hash input is a function of the *sequence* of surviving writes only -/
theorem block_log_is_cache_in_first_write_order (e : E) (n : Node K V C T H D) (txs : List T) :
    let pre := endBlock cfg hs e (deliverAll cfg hs e (beginBlock cfg hs e n) txs).1
    (execBlock cfg hs e n txs).2.log = pre.dlv.cache.map (toTreeOp cfg) ++ [.save] := by
  intro pre
  have h1 := beginBlock_frameB cfg hs e n
  have h2 := deliverAll_frame cfg hs e txs (beginBlock cfg hs e n)
  have h3 := endBlock_frameB cfg hs e (deliverAll cfg hs e (beginBlock cfg hs e n) txs).1
  have ht : pre.tree = n.tree := h3.1.trans (h2.1.trans h1.1)
  show ((pre.dlv.toSt pre.tree).commit cfg).tree.log.drop n.tree.log.length = _
  rw [st_commit_log, ← ht]
  exact List.drop_left

/-- sorting makes a traversal independent of the order in which a Go map hands out its keys -/
theorem sortKeys_perm_invariant (lt : K → K → Bool)
    (irrefl : ∀ a, lt a a = false) (trans : ∀ a b c, lt a b = true → lt b c = true → lt a c = true)
    (total : ∀ a b, a ≠ b → lt a b = true ∨ lt b a = true)
    (l₁ l₂ : List K) (hp : l₁.Perm l₂) : sortKeys lt l₁ = sortKeys lt l₂ := by
  refine List.Perm.eq_of_pairwise (le := fun a b => lt b a = false) ?_
    (sortKeys_sorted lt irrefl trans l₁) (sortKeys_sorted lt irrefl trans l₂)
    ((sortKeys_perm lt l₁).trans (hp.trans (sortKeys_perm lt l₂).symm))
  intro a b _ _ hab hba
  apply Classical.byContradiction
  intro hne
  rcases total a b hne with h | h
  · rw [h] at hba; cases hba
  · rw [h] at hab; cases hab

/-! ## Non-vacuity and the shape of a violation -/

def exCfg : Cfg Nat Nat := { tomb := 0, vlen := fun _ => 1, lt := fun a b => decide (a < b) }

/-- a hook that writes the node's own address into the state is not `EnvFree`, and two nodes
    then disagree on the commit log -/
def leakyH : Handlers Nat Nat Nat Nat Nat Nat Nat :=
  { hash := id, validate := fun _ => .ret (), check := fun _ => .ret 0, deliver := fun _ => .ret 0,
    fee := fun _ _ => .ret 0, begin := fun _ => [(true, .env (fun me => .set 1 me (fun _ => .ret ())))],
    endb := fun _ => [], gasLimit := 1000000 }
def exN : Node Nat Nat Nat Nat Nat Nat :=
  { tree := Tree.empty ⟨1, 0, 0⟩, dlv := Ov.fresh 1000000, chk := Ov.fresh 1000000, vol := fun _ => none,
    idx := [], aim := .check, height := 0, closed := false }

theorem env_leak_diverges :
    (execBlock exCfg leakyH 11 exN []).2.log ≠ (execBlock exCfg leakyH 22 exN []).2.log := by
  decide

end OLP.Props.C01

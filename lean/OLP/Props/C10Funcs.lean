import OLP.Gen.Funcs

/-!
# C10 / C02 — the fee share of a validator at block end, tied to the source by translation (T2b)

`feeShare := total.MultiplyInt64(queued.Priority()).DivideInt64(vs.totalPower)` of
`ValidatorStore.GetEndBlockUpdate` is translated with the two `Coin` methods (whole functions).
The election model (OLP/Elect) leaves fee distribution out; what C02 needs from it is proved here
directly over the GENERATED definition: the shares handed to any set of validators whose powers
sum to at most the total power never exceed the pool, whatever the rounding.
-/

namespace OLP.Props.C10

open OLP.Gen

theorem feeShare_formula (total power totalPower : Int) :
    Funcs.feeShare total power totalPower = total * power / totalPower := by
  simp [Funcs.feeShare, Funcs.coinMultiplyInt64, Funcs.coinDivideInt64]

theorem ediv_add_ediv_le (a b P : Int) (hP : 0 < P) : a / P + b / P ≤ (a + b) / P := by
  apply Int.le_ediv_of_mul_le hP
  have h1 := Int.ediv_mul_le a (Int.ne_of_gt hP)
  have h2 := Int.ediv_mul_le b (Int.ne_of_gt hP)
  rw [Int.add_mul]; omega

theorem sum_ediv_le (T P : Int) (hP : 0 < P) (ps : List Int) :
    (ps.map (fun p => T * p / P)).sum ≤ (T * ps.sum) / P := by
  induction ps with
  | nil => simp
  | cons p ps ih =>
    simp only [List.map_cons, List.sum_cons]
    have := ediv_add_ediv_le (T * p) (T * ps.sum) P hP
    rw [Int.mul_add]
    omega

/-- the fee shares of one block end never exceed the pool they are taken from -/
theorem fee_shares_le_total (T P : Int) (ps : List Int) (hT : 0 ≤ T) (hP : 0 < P)
    (hsum : ps.sum ≤ P) :
    (ps.map (fun p => Funcs.feeShare T p P)).sum ≤ T := by
  have h0 : (ps.map (fun p => Funcs.feeShare T p P)) = ps.map (fun p => T * p / P) := by
    apply List.map_congr_left; intro p _; exact feeShare_formula T p P
  rw [h0]
  have h1 := sum_ediv_le T P hP ps
  have h2 : T * ps.sum ≤ T * P := Int.mul_le_mul_of_nonneg_left hsum hT
  have h3 := Int.ediv_le_ediv hP h2
  rw [Int.mul_ediv_cancel _ (Int.ne_of_gt hP)] at h3
  omega

/-- no share is negative when nothing that enters it is -/
theorem fee_share_nonneg (T p P : Int) (hT : 0 ≤ T) (hp : 0 ≤ p) (hP : 0 < P) : 0 ≤ Funcs.feeShare T p P := by
  rw [feeShare_formula]
  exact Int.ediv_nonneg (Int.mul_nonneg hT hp) (Int.le_of_lt hP)

example : (([3, 3, 4] : List Int).map (fun p => Funcs.feeShare 100 p 10)).sum = 100 := by decide
example : (([1, 1, 1] : List Int).map (fun p => Funcs.feeShare 100 p 3)).sum = 99 := by decide

end OLP.Props.C10

/-
  C07 — Mempool checks are isolated from consensus execution.
  For ARBITRARY handler programs and EVERY interleaving of CheckTx calls with the consensus calls.
-/
import OLP.Shell.LemmasB

namespace OLP.Props.C07
open OLP OLP.KV OLP.Shell

set_option linter.unusedSectionVars false

variable {K V C E T H D : Type} [DecidableEq K] [DecidableEq V] [DecidableEq C] [DecidableEq H]
variable (cfg : Cfg K V) (hs : Handlers K V C E T H D) (e : E)

/-- a mempool check never touches the tree, the deliver overlays, the index or the height -/
theorem checkTx_keeps_store (n : Node K V C T H D) (tx : T) :
    let n' := (checkTx cfg hs e n tx).1
    n'.tree = n.tree ∧ n'.dlv = n.dlv ∧ n'.idx = n.idx ∧ n'.height = n.height := by
  have h := checkTx_frame cfg hs e n tx
  exact ⟨h.1, h.2.1, h.2.2.1, h.2.2.2.1⟩

/-- … and, when mempool-path programs write no volatile cell, nothing consensus depends on -/
theorem checkTx_keeps_consensus (hnv : CheckNoVset hs) (n : Node K V C T H D) (tx : T) :
    (checkTx cfg hs e n tx).1.consensus = n.consensus := checkTx_consensus cfg hs e hnv n tx

/-- THE isolation theorem: if every block hook re-aims its stores at the deliver state and the
    mempool path writes no volatile cell, then for every call sequence, deleting the CheckTx calls
    changes neither the consensus part of the node nor any consensus output -/
theorem checktx_isolation (ha : AllAimed hs) (hnv : CheckNoVset hs) (r : Run K V C T H D)
    (calls : List (Call T)) :
    let a := runCalls cfg hs e r calls
    let b := runCalls cfg hs e r (calls.filter (fun c => !c.isCheck))
    a.1.node.consensus = b.1.node.consensus ∧ a.1.pending = b.1.pending ∧
    a.2.filter (fun o => !o.isChecked) = b.2 :=
  runCalls_isolation cfg hs e ha hnv calls r r rfl rfl

/-- Commit recreates the check state from the committed tree -/
theorem commit_recreates_check (n : Node K V C T H D) :
    (commit cfg hs n).chk = Ov.fresh hs.gasLimit := rfl

/-! ## Both premises are needed: the shapes of S14 and S13 in the model -/

def exCfg : Cfg Nat Nat := { tomb := 0, vlen := fun _ => 1, lt := fun a b => decide (a < b) }
def exN : Node Nat Nat Nat Nat Nat Nat :=
  { tree := Tree.empty ⟨1, 0, 0⟩, dlv := Ov.fresh 1000000, chk := Ov.fresh 1000000, vol := fun _ => none,
    idx := [], aim := .check, height := 0, closed := false }

/-- S14-shaped: a BeginBlock hook reads key 1 through a store that is NOT re-aimed and caches the
    value in a volatile cell which DeliverTx later copies into the state; a CheckTx that wrote key 1
    in the check state changes the block's commit log -/
def unaimedH : Handlers Nat Nat Nat Unit Nat Nat Nat :=
  { hash := id, validate := fun _ => .ret (), check := fun tx => .set 1 tx (fun _ => .ret 0),
    deliver := fun _ => .vget 0 (fun v => .set 2 (v.getD 99) (fun _ => .ret 0)),
    fee := fun _ _ => .ret 0,
    begin := fun _ => [(false, .get 1 (fun r => match r with
      | .val v => .vset 0 v (.ret ())
      | .errGas => .fail))],
    endb := fun _ => [], gasLimit := 1000000 }

theorem unaimed_hook_breaks_isolation :
    let plain := runCalls exCfg unaimedH () ⟨exN, []⟩ [.begin, .deliver 5, .endb, .commit [5]]
    let mixed := runCalls exCfg unaimedH () ⟨exN, []⟩ [.check 7, .begin, .deliver 5, .endb, .commit [5]]
    plain.2 ≠ mixed.2.filter (fun o => !o.isChecked) := by
  dsimp only
  decide

/-- S13-shaped: ProcessCheck writes a volatile cell that the consensus path reads -/
def vsetH : Handlers Nat Nat Nat Unit Nat Nat Nat :=
  { hash := id, validate := fun _ => .ret (), check := fun tx => .vset 0 (some tx) (.ret 0),
    deliver := fun _ => .vget 0 (fun v => .set 2 (v.getD 99) (fun _ => .ret 0)),
    fee := fun _ _ => .ret 0, begin := fun _ => [], endb := fun _ => [], gasLimit := 1000000 }

theorem check_vset_breaks_isolation :
    let plain := runCalls exCfg vsetH () ⟨exN, []⟩ [.begin, .deliver 5, .endb, .commit [5]]
    let mixed := runCalls exCfg vsetH () ⟨exN, []⟩ [.begin, .check 7, .deliver 5, .endb, .commit [5]]
    plain.2 ≠ mixed.2.filter (fun o => !o.isChecked) := by
  dsimp only
  decide

/-! ## Non-vacuity: a concrete application that meets both premises, and the theorem on it

  Validate burns the signature-check gas and refuses transaction 0. ProcessCheck reads key 1 and
  WRITES keys 1 and 2 (in the check state), then — transaction 9 only — fails after its writes.
  ProcessDeliver adds the transaction to the counter under key 1, copies the volatile cell 0 into
  key 2 and fails for transaction 9, after its writes. The fee step reads the gas counter. A
  BeginBlock hook reads key 1 and caches it in the volatile cell 0 — the S14 shape of `unaimedH`,
  but RE-AIMED at the deliver state; an EndBlock hook records the height under key 9. Block gas
  limit 10000. -/

def isoH : Handlers Nat Nat Nat Unit Nat Nat Nat :=
  { hash := id,
    validate := fun tx => .burn 5 (if tx = 0 then .fail else .ret ()),
    check := fun tx => .get 1 (fun _ => .set 1 (tx + 100) (fun _ => .set 2 tx (fun _ =>
      if tx = 9 then .fail else .ret tx))),
    deliver := fun tx => .get 1 (fun r => match r with
      | .val v => .set 1 (v.getD 0 + tx) (fun _ => .vget 0 (fun c => .set 2 (c.getD 99) (fun _ =>
          if tx = 9 then .fail else .ret tx)))
      | .errGas => .fail),
    fee := fun _ g0 => .gas (fun g => .ret (g - g0)),
    begin := fun _ => [(true, .get 1 (fun r => match r with
      | .val v => .vset 0 v (.ret ())
      | .errGas => .fail))],
    endb := fun h => [(true, .set 9 h (fun _ => .ret ()))],
    gasLimit := 10000 }

def isoN : Node Nat Nat Nat Nat Nat Nat :=
  { tree := Tree.empty ⟨1, 0, 0⟩, dlv := Ov.fresh 10000, chk := Ov.fresh 10000, vol := fun _ => none,
    idx := [], aim := .check, height := 0, closed := false }

theorem iso_aimed : AllAimed isoH := by
  intro h
  constructor
  · intro hk hm
    simp only [isoH, List.mem_singleton] at hm
    subst hm
    rfl
  · intro hk hm
    simp only [isoH, List.mem_singleton] at hm
    subst hm
    rfl

theorem iso_noVset : CheckNoVset isoH := by
  intro tx
  refine ⟨?_, ?_, fun g => by simp [isoH, Prog.NoVset]⟩
  · simp only [isoH, Prog.NoVset]
    split <;> simp [Prog.NoVset]
  · simp only [isoH, Prog.NoVset]
    intro _ _ _
    split <;> simp [Prog.NoVset]

deriving instance DecidableEq for Call

/-- two blocks, `[5, 9]` and `[7]`, with eight mempool checks in between the consensus calls: of
    valid transactions (7, 5, 3, 6, 4), of one Validate refuses (0), of one whose ProcessCheck fails
    after its writes (9) and of one that is already in the index (5, the second time) -/
def isoCalls : List (Call Nat) :=
  [.check 7, .begin, .check 0, .deliver 5, .check 9, .deliver 9, .check 5, .endb, .check 3,
   .commit [5, 9], .check 6, .begin, .deliver 7, .check 5, .endb, .commit [7], .check 4]

/-- `checktx_isolation` applied to this run: both premises are proved -/
theorem isolation_instance :
    let a := runCalls exCfg isoH () ⟨isoN, []⟩ isoCalls
    let b := runCalls exCfg isoH () ⟨isoN, []⟩ (isoCalls.filter (fun c => !c.isCheck))
    a.1.node.consensus = b.1.node.consensus ∧ a.1.pending = b.1.pending ∧
    a.2.filter (fun o => !o.isChecked) = b.2 :=
  checktx_isolation exCfg isoH () iso_aimed iso_noVset ⟨isoN, []⟩ isoCalls

/-- … and its conclusion, recomputed on both sides. The checks did run and did write: their answers
    are `true, false, false, true, true, true, false, true`, the check state held `1 ↦ 103` before the
    first Commit and holds `1 ↦ 104` at the end, and `.check 6` wrote `1 ↦ 106` into it right before
    the BeginBlock hook of block 2 read key 1 — which nevertheless saw the committed 5 (it is written
    to key 2 by transaction 7). The consensus outputs are the same nine values with and without -/
theorem isolation_instance_facts :
    let a := runCalls exCfg isoH () ⟨isoN, []⟩ isoCalls
    let b := runCalls exCfg isoH () ⟨isoN, []⟩ (isoCalls.filter (fun c => !c.isCheck))
    isoCalls.filter (fun c => !c.isCheck) =
      [.begin, .deliver 5, .deliver 9, .endb, .commit [5, 9], .begin, .deliver 7, .endb, .commit [7]] ∧
    b.2 = [.none, .tx ⟨true, some 5, 25⟩, .tx ⟨false, none, 27⟩, .none,
           .committed [.set 1 5, .set 2 99, .set 9 1, .save],
           .none, .tx ⟨true, some 7, 25⟩, .none,
           .committed [.set 1 12, .set 2 5, .set 9 2, .save]] ∧
    a.2.filter (fun o => !o.isChecked) = b.2 ∧
    a.2.filter (fun o => o.isChecked) =
      [.checked true, .checked false, .checked false, .checked true, .checked true, .checked true,
       .checked false, .checked true] ∧
    (runCalls exCfg isoH () ⟨isoN, []⟩ (isoCalls.take 9)).1.node.chk.cache = [(1, 103), (2, 3)] ∧
    (runCalls exCfg isoH () ⟨isoN, []⟩ (isoCalls.take 11)).1.node.chk.cache = [(1, 106), (2, 6)] ∧
    a.1.node.chk.cache = [(1, 104), (2, 4)] ∧ b.1.node.chk.cache = [] ∧
    a.1.node.tree.working = b.1.node.tree.working ∧ a.1.node.tree.working = [(1, 12), (2, 5), (9, 2)] := by
  dsimp only
  decide +kernel

end OLP.Props.C07

/-
  C07 — Mempool checks are isolated from consensus execution.
  For ARBITRARY handler programs and EVERY interleaving of CheckTx calls with the consensus calls.
-/
import OLP.Shell.LemmasB

namespace OLP.Props.C07
open OLP OLP.KV OLP.Shell

set_option linter.unusedSectionVars false

variable {K V C E T H D : Type} [DecidableEq K] [DecidableEq V] [DecidableEq C] [DecidableEq H]
variable (cfg : Cfg K V) (hs : Handlers K V C E T H D) (e : E)

/-- a mempool check never touches the tree, the deliver overlays, the index or the height -/
theorem checkTx_keeps_store (n : Node K V C T H D) (tx : T) :
    let n' := (checkTx cfg hs e n tx).1
    n'.tree = n.tree ∧ n'.dlv = n.dlv ∧ n'.idx = n.idx ∧ n'.height = n.height := by
  have h := checkTx_frame cfg hs e n tx
  exact ⟨h.1, h.2.1, h.2.2.1, h.2.2.2.1⟩

/-- … and, when mempool-path programs write no volatile cell, nothing consensus depends on -/
theorem checkTx_keeps_consensus (hnv : CheckNoVset hs) (n : Node K V C T H D) (tx : T) :
    (checkTx cfg hs e n tx).1.consensus = n.consensus := checkTx_consensus cfg hs e hnv n tx

/-- THE isolation theorem: if every block hook re-aims its stores at the deliver state and the
    mempool path writes no volatile cell, then for every call sequence, deleting the CheckTx calls
    changes neither the consensus part of the node nor any consensus output -/
theorem checktx_isolation (ha : AllAimed hs) (hnv : CheckNoVset hs) (r : Run K V C T H D)
    (calls : List (Call T)) :
    let a := runCalls cfg hs e r calls
    let b := runCalls cfg hs e r (calls.filter (fun c => !c.isCheck))
    a.1.node.consensus = b.1.node.consensus ∧ a.1.pending = b.1.pending ∧
    a.2.filter (fun o => !o.isChecked) = b.2 :=
  runCalls_isolation cfg hs e ha hnv calls r r rfl rfl

/-- Commit recreates the check state from the committed tree -/
theorem commit_recreates_check (n : Node K V C T H D) :
    (commit cfg hs n).chk = Ov.fresh hs.gasLimit := rfl

/-! ## Both premises are needed: the shapes of S14 and S13 in the model -/

def exCfg : Cfg Nat Nat := { tomb := 0, vlen := fun _ => 1, lt := fun a b => decide (a < b) }
def exN : Node Nat Nat Nat Nat Nat Nat :=
  { tree := Tree.empty ⟨1, 0, 0⟩, dlv := Ov.fresh 1000000, chk := Ov.fresh 1000000, vol := fun _ => none,
    idx := [], aim := .check, height := 0, closed := false }

/-- S14-shaped: a BeginBlock hook reads key 1 through a store that is NOT re-aimed and caches the
    value in a volatile cell which DeliverTx later copies into the state; a CheckTx that wrote key 1
    in the check state changes the block's commit log -/
def unaimedH : Handlers Nat Nat Nat Unit Nat Nat Nat :=
  { hash := id, validate := fun _ => .ret (), check := fun tx => .set 1 tx (fun _ => .ret 0),
    deliver := fun _ => .vget 0 (fun v => .set 2 (v.getD 99) (fun _ => .ret 0)),
    fee := fun _ _ => .ret 0,
    begin := fun _ => [(false, .get 1 (fun r => match r with
      | .val v => .vset 0 v (.ret ())
      | .errGas => .fail))],
    endb := fun _ => [], gasLimit := 1000000 }

theorem unaimed_hook_breaks_isolation :
    let plain := runCalls exCfg unaimedH () ⟨exN, []⟩ [.begin, .deliver 5, .endb, .commit [5]]
    let mixed := runCalls exCfg unaimedH () ⟨exN, []⟩ [.check 7, .begin, .deliver 5, .endb, .commit [5]]
    plain.2 ≠ mixed.2.filter (fun o => !o.isChecked) := by
  dsimp only
  decide

/-- S13-shaped: ProcessCheck writes a volatile cell that the consensus path reads -/
def vsetH : Handlers Nat Nat Nat Unit Nat Nat Nat :=
  { hash := id, validate := fun _ => .ret (), check := fun tx => .vset 0 (some tx) (.ret 0),
    deliver := fun _ => .vget 0 (fun v => .set 2 (v.getD 99) (fun _ => .ret 0)),
    fee := fun _ _ => .ret 0, begin := fun _ => [], endb := fun _ => [], gasLimit := 1000000 }

theorem check_vset_breaks_isolation :
    let plain := runCalls exCfg vsetH () ⟨exN, []⟩ [.begin, .deliver 5, .endb, .commit [5]]
    let mixed := runCalls exCfg vsetH () ⟨exN, []⟩ [.begin, .check 7, .deliver 5, .endb, .commit [5]]
    plain.2 ≠ mixed.2.filter (fun o => !o.isChecked) := by
  dsimp only
  decide

end OLP.Props.C07

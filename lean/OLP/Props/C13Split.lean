import OLP.Gen.Funcs
import OLP.Props.C10Funcs

/-!
# C13 — the split of a block's reward never hands out more than it was given (over the GENERATED text)

Every statement here is about `OLP.Gen.Funcs.*`, the definitions regenerated from /repo's working
tree: the share of the delegation pool, the commission cut from it, the proposer's part of the
commission, the per-delegator and per-validator shares. With the constants the source has
(25 %, 20 %) each part is at most what it is cut from, and the floor-divided shares of any set of
participants whose weights sum to at most the divisor sum to at most the amount that is split. A
constant above 100, a swapped divisor or a share computed from the wrong base breaks a theorem here.
-/

namespace OLP.Props.C13

open OLP.Gen
open OLP.Props.C10 (sum_ediv_le)

/-- the delegation pool's share of the block reward is between 0 and the reward -/
theorem delegation_share_le_total (T D P : Int) (hT : 0 ≤ T) (hD : 0 ≤ D) (hDP : D ≤ P) (hP : 0 < P) :
    0 ≤ Funcs.delegationRewards T D P ∧ Funcs.delegationRewards T D P ≤ T := by
  unfold Funcs.delegationRewards
  constructor
  · exact Int.ediv_nonneg (Int.mul_nonneg hT hD) (Int.le_of_lt hP)
  · have h2 : T * D ≤ T * P := Int.mul_le_mul_of_nonneg_left hDP hT
    have h3 := Int.ediv_le_ediv hP h2
    rwa [Int.mul_ediv_cancel _ (Int.ne_of_gt hP)] at h3

/-- the commission is a part of the delegation share, the proposer's reward a part of the commission -/
theorem commission_chain (dr : Int) (h : 0 ≤ dr) :
    0 ≤ Funcs.delegationCommission dr ∧ Funcs.delegationCommission dr ≤ dr ∧
    0 ≤ Funcs.proposerReward (Funcs.delegationCommission dr) ∧
    Funcs.proposerReward (Funcs.delegationCommission dr) ≤ Funcs.delegationCommission dr := by
  unfold Funcs.delegationCommission Funcs.proposerReward
  omega

/-- what the delegators are credited together never exceeds what was left for them -/
theorem delegator_credits_le_share (R D : Int) (amounts : List Int) (hR : 0 ≤ R) (hD : 0 < D)
    (hsum : amounts.sum ≤ D) :
    (amounts.map (fun a => Funcs.delegatorReward R a D)).sum ≤ R := by
  have h0 : amounts.map (fun a => Funcs.delegatorReward R a D) = amounts.map (fun a => R * a / D) := by
    apply List.map_congr_left; intro a _; rfl
  rw [h0]
  have h1 := sum_ediv_le R D hD amounts
  have h2 : R * amounts.sum ≤ R * D := Int.mul_le_mul_of_nonneg_left hsum hR
  have h3 := Int.ediv_le_ediv hD h2
  rw [Int.mul_ediv_cancel _ (Int.ne_of_gt hD)] at h3
  omega

/-- what the validators are credited by power together never exceeds the amount that is split -/
theorem validator_shares_le_total (T P : Int) (powers : List Int) (hT : 0 ≤ T) (hP : 0 < P)
    (hsum : powers.sum ≤ P) :
    (powers.map (fun p => Funcs.getRewardForValidator P p T)).sum ≤ T := by
  have h0 : powers.map (fun p => Funcs.getRewardForValidator P p T) = powers.map (fun p => T * p / P) := by
    apply List.map_congr_left; intro p _; rfl
  rw [h0]
  have h1 := sum_ediv_le T P hP powers
  have h2 : T * powers.sum ≤ T * P := Int.mul_le_mul_of_nonneg_left hsum hT
  have h3 := Int.ediv_le_ediv hP h2
  rw [Int.mul_ediv_cancel _ (Int.ne_of_gt hP)] at h3
  omega

/-- the per-block amount of a recalculation times the forecast number of blocks stays within what
    is left of the year -/
theorem per_block_times_blocks_le_left (left n : Int) (hl : 0 ≤ left) (hn : 0 < n) :
    0 ≤ Funcs.rewardPerBlock left n ∧ Funcs.rewardPerBlock left n * n ≤ left := by
  unfold Funcs.rewardPerBlock
  exact ⟨Int.ediv_nonneg hl (Int.le_of_lt hn), Int.ediv_mul_le left (Int.ne_of_gt hn)⟩

example : Funcs.delegationCommission 1000 = 250 ∧ Funcs.proposerReward 250 = 50 := by decide
example : (([7, 7, 7] : List Int).map (fun a => Funcs.delegatorReward 100 a 21)).sum = 99 := by decide

end OLP.Props.C13

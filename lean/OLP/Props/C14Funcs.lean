import OLP.Gen.Funcs
import OLP.Gov.Model

/-!
# C14 — the share of the escrow a recipient class gets, tied to the source by translation (T2b)

`getPercentageCoin`'s amount (`totalFunds.MultiplyInt64(p).DivideInt64(1000000)`) is translated
together with `Coin.MultiplyInt64` / `Coin.DivideInt64` (whole functions): the model's `pct` is that.
-/

namespace OLP.Props.C14

open OLP.Gov
open OLP.Gen

theorem pct_is_source (total p10k : Int) : pct total p10k = Funcs.govPercentageAmount total p10k := by
  simp [pct, Funcs.govPercentageAmount, Funcs.coinMultiplyInt64, Funcs.coinDivideInt64]

/-- a share never exceeds the escrow when the percentage is at most 100 % (1000000 units) -/
theorem source_share_le_total (total p : Int) (ht : 0 ≤ total) (hp0 : 0 ≤ p) (hp : p ≤ 1000000) :
    0 ≤ Funcs.govPercentageAmount total p ∧ Funcs.govPercentageAmount total p ≤ total := by
  rw [← pct_is_source]; unfold pct
  have h1 : 0 ≤ total * p := Int.mul_nonneg ht hp0
  have h2 : total * p ≤ total * 1000000 := Int.mul_le_mul_of_nonneg_left hp ht
  constructor
  · exact Int.ediv_nonneg h1 (by decide)
  · have := Int.ediv_le_ediv (by decide : (0:Int) < 1000000) h2
    rwa [Int.mul_ediv_cancel _ (by decide : (1000000:Int) ≠ 0)] at this

example : Funcs.govPercentageAmount 1000 180000 = 180 := by decide

end OLP.Props.C14

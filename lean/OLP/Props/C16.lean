/-
  C16 — the EVM state adapter is equivalent to go-ethereum's reference state.

  Property theorems only (helper lemmas: OLP/Evm/Lemmas*.lean).  All statements are about the
  executable model OLP/Evm/Model.lean:
    `Impl`  = statement-by-statement port of `vm.CommitStateDB` over its persistent records,
    `Ref`   = the textbook semantics (world + stack of saved worlds), which is what go-ethereum's
              `state.StateDB` computes.
  The `evm` engine compares, on every run, the adapter with `Impl` and go-ethereum with `Ref`
  call by call, and the adapter with go-ethereum directly (the monitor), down to the raw records
  after every `Finalise`.

  FULL STATEMENT (DESIGN §6 C16):

      theorem impl_refines_ref (c : Cfg) (ops : List Op) :
          Impl.run c (Impl.init Store.empty) ops = Ref.run c (Ref.init []) ops
      theorem any_client_same_result (c : Cfg) (cl : Client α) :
          (cl.runImpl c (Impl.init Store.empty)).1 = (cl.runRef c (Ref.init [])).1

  History.  Six mechanisms of the adapter broke it when this slice was written; all were repaired
  in /repo after the monitor replayed them (da864f3 + c90a103 balance record of a removed account,
  f45414e `journal.deleteDirty` re-indexes, d411c44 undoing a balance change does not journal,
  b55dd24 + 078c4d3 a code equal to the store's deletion marker is refused and `Finalise` fails,
  8684164 the storage records of an account are deleted with it and a `created` object does not
  read those of its predecessor: the former S8 / KF-C16-2).  Their former counterexamples are
  regression theorems below (`regress_*`: Impl = Ref).

  What is proved (`impl_refines_ref_partial`, `any_client_same_result_partial`): for EVERY call
  sequence / client, from every sane starting state (`Store.sane`: no empty account in the
  records, the code of every account present — kept by every call, `storeOK_preserved`, and true
  of the empty records), as long as the run stays inside `Impl.safeRun` — a decidable predicate
  on the adapter's own state (`Impl.guard`, Model.lean) — the adapter returns what the reference
  returns, call by call, including arbitrary nesting of Snapshot / RevertToSnapshot and Finalise
  between transactions; in particular the adapter panics exactly where the reference does
  (`panics_are_shared`: SubRefund below zero, an invalid revision, SubBalance beyond the balance)
  — no journal operation, no undo of a journal entry and no dirty-counter update can fail.

  The predicate excludes four things, and the theorems keep the name `_partial` for the first:
    1. `Finalise` returning the store's error: an object is written out whose new code is the
       deletion marker (3 bytes e2 9b bc).  REACHABLE from a transaction (a deployment whose
       runtime code is exactly those bytes); deliberate since 078c4d3: the transaction fails,
       where go-ethereum stores the code (`marker_code_fails_finalise`).  The guard is exact:
       `Impl.finaliseGuard` is "this `Finalise(true)` returns no error".
    2. `Finalise(false)`.  NOT reachable from a transaction: the only call is `Finalise(true)`
       in vm/evm.go `EVMTransaction.Apply`.
    3. `Prepare` with a non-empty journal or open revisions.  NOT reachable: `Prepare` is called
       at the top of DeliverTx (app/controller.go), after the `Finalise` that ends every applied
       transaction and whose deferred function empties journal and revisions even when it fails.
    4. `Reset` with a non-empty journal.  NOT reachable: called in EndBlock only, same argument.
    (2–4 are restrictions of the reference model rather than of the adapter: go-ethereum's own
    `Prepare` is not journaled either.)
  Nothing else.  Not the RIPEMD touch exception (its extra dirty count and the reference's sticky
  touch decide nothing because the records hold no empty account), not storage records under an
  address without an account (a `created` object does not read them).  That every journal entry
  can be undone (`JOK`), that `Finalise` sees every account with a live journal entry as dirty
  (`JCnt`), and that every dirty slot has its original value cached when `commitState` runs
  (`OOK`) are proved invariants (Lemmas.lean); the access list is abstracted to counts.

  At the level of the records, which the interface cannot see: `no_orphan_storage_invariant` —
  no storage record is ever left under an address without an account.

  The driver evaluates the predicate on every correspondence line and reports which part fails
  first (`guard-first-failure:*` in the evidence).
-/
import OLP.Evm.LemmasStart

namespace OLP.Props.C16
open OLP OLP.Evm

/-! ## 1. The starting states correspond -/

/-- the reference starts with the accounts the records describe -/
def SameStart (st : Store) (w0 : List (Addr × RAcct)) : Prop :=
  (akeys w0).Nodup ∧ ∀ a, st.view a = (alookup a w0).map viewR

theorem sameStart_empty : SameStart Store.empty [] := by
  refine ⟨by simp [akeys], ?_⟩
  intro a
  simp [Store.view, Store.getAccount, Store.empty, Store.balOf, alookup]

theorem storeOK_empty : StoreOK Store.empty := by
  refine ⟨?_, ?_⟩
  · intro a o h; simp [Store.getAccount, Store.empty, Store.balOf, alookup] at h
  · intro a n h hh; simp [Store.empty, alookup] at hh

/-- the decidable sanity check of the records (evaluated by the driver on every starting state)
    implies the hypothesis of the theorems -/
theorem sane_storeOK (st : Store) (h : st.sane = true) : StoreOK st := by
  simp only [Store.sane, Bool.and_eq_true, List.all_eq_true] at h
  obtain ⟨h1, h3⟩ := h
  refine ⟨?_, ?_⟩
  · intro a o hg
    unfold Store.getAccount at hg
    cases hl : alookup a st.acct with
    | some nh =>
      obtain ⟨n, hh⟩ := nh
      simp only [hl, Option.some.injEq] at hg
      subst hg
      have := h1 (a, (n, hh)) (alookup_mem _ _ _ hl)
      simp only [Bool.not_eq_true', Bool.and_eq_false_iff, beq_eq_false_iff_ne, ne_eq] at this
      simp only [Obj.empty, Obj.fresh, Bool.and_eq_false_iff, beq_eq_false_iff_ne, ne_eq]
      rcases this with (h0 | h0) | h0
      · exact Or.inl (Or.inl h0)
      · exact Or.inr h0
      · exact Or.inl (Or.inr h0)
    | none =>
      simp only [hl] at hg
      by_cases hb : st.balOf a = 0
      · simp [hb] at hg
      · simp only [hb, if_false, Option.some.injEq] at hg
        subst hg
        simp [Obj.empty, Obj.fresh, hb]
  · intro a n hh hl hz
    have := h3 (a, (n, hh)) (alookup_mem _ _ _ hl)
    simp only [Bool.or_eq_true, beq_iff_eq] at this
    rcases this with h0 | h0
    · exact absurd h0 hz
    · exact h0

theorem sim_init (st : Store) (w0 : List (Addr × RAcct)) (hs : StoreOK st) (h0 : SameStart st w0) :
    Sim (Impl.init st) (Ref.init w0) := by
  have hv : ∀ a, (Impl.init st).view a = st.view a := by intro a; simp [Impl.view, Impl.init, alookup]
  refine ⟨⟨by intro a o ha; simp [Impl.init, alookup] at ha, by simp [Impl.init, akeys], hs⟩,
    by intro e he; simp [Impl.init, Journal.new] at he, ?_, rfl, rfl, by intro a; simp [Ref.init, Impl.init, Journal.new],
    ?_, h0.1, trivial, by intro x hx; simp [Impl.init] at hx, by simp [Impl.init], by simp [Impl.init],
    by simp [Impl.init, Journal.new, JOK], JCnt.new, by simp [Impl.init, Journal.new, OOK]⟩
  · simp only [absI, absR, AW.mk.injEq]
    refine ⟨?_, rfl, ?_, rfl, rfl, rfl⟩
    · funext a; rw [hv a]; exact h0.2 a
    · funext h'; simp [Impl.init, Ref.init, alookup]
  · intro a _
    show (Ref.init w0).cur.view a = st.view a
    exact (h0.2 a).symm

/-! ## 2. Refinement: same outputs for every call sequence inside the guards -/

/-- one call: same result, and the simulation relation is kept (every interface call, including
    nested Snapshot / RevertToSnapshot and Finalise) -/
theorem step_refines (c : Cfg) (s : Impl) (r : Ref) (h : Sim s r) (op : Op) (hsafe : s.safeStep c op = true) :
    (s.step c op).2 = (r.step c op).2 ∧ ((s.step c op).2 ≠ .panic → Sim (s.step c op).1 (r.step c op).1) :=
  sim_step c h op hsafe

/-- the adapter panics exactly where the reference does -/
theorem panics_are_shared (c : Cfg) (s : Impl) (r : Ref) (h : Sim s r) (op : Op) (hsafe : s.safeStep c op = true) :
    (s.step c op).2 = .panic ↔ (r.step c op).2 = .panic := by
  rw [(sim_step c h op hsafe).1]

theorem run_refines (c : Cfg) : ∀ (ops : List Op) (s : Impl) (r : Ref), Sim s r → s.safeRun c ops = true →
    Impl.run c s ops = Ref.run c r ops
  | [], _, _, _, _ => rfl
  | op :: ops, s, r, h, hs => by
    simp only [Impl.safeRun, Bool.and_eq_true, Bool.or_eq_true, beq_iff_eq] at hs
    have hstep := sim_step c h op hs.1
    simp only [Impl.run, Ref.run]
    rw [← hstep.1]
    by_cases hp : (s.step c op).2 = .panic
    · simp [hp]
    · simp only [hp, if_false]
      congr 1
      refine run_refines c ops _ _ (hstep.2 hp) ?_
      rcases hs.2 with h1 | h1
      · exact absurd h1 hp
      · exact h1

/-- the sanity of the records (`StoreOK`, decidably `Store.sane`) is an invariant: kept by every
    call inside the guards (and true of the empty records, `storeOK_empty`) -/
theorem storeOK_preserved (c : Cfg) (s : Impl) (r : Ref) (h : Sim s r) (op : Op) (hsafe : s.safeStep c op = true)
    (hp : (s.step c op).2 ≠ .panic) : StoreOK (s.step c op).1.store :=
  ((sim_step c h op hsafe).2 hp).cinv.store

/-- `impl_refines_ref`, under the guards the code forces.  `_partial` because `safeRun` excludes one
    behaviour a transaction can reach: `Finalise` returning the store's error for a written-out
    code equal to the deletion marker (deliberate since 078c4d3; `marker_code_fails_finalise`).
    The other three exclusions cannot be reached from a transaction: `Finalise(false)` (the only
    call is `Finalise(true)`, vm/evm.go `Apply`), `Prepare` and `Reset` with a non-empty journal
    (app/controller.go calls them at the top of DeliverTx and in EndBlock, after the `Finalise`
    that ends every applied transaction and empties the journal even when it fails). -/
theorem impl_refines_ref_partial (c : Cfg) (st : Store) (w0 : List (Addr × RAcct)) (hs : StoreOK st)
    (h0 : SameStart st w0) (ops : List Op) (hsafe : (Impl.init st).safeRun c ops = true) :
    Impl.run c (Impl.init st) ops = Ref.run c (Ref.init w0) ops :=
  run_refines c ops _ _ (sim_init st w0 hs h0) hsafe

/-- with both hypotheses on the starting state as decidable checks -/
theorem impl_refines_ref_decidable_partial (c : Cfg) (st : Store) (w0 : List (Addr × RAcct)) (hs : st.sane = true)
    (h0 : sameStartb st w0 = true) (ops : List Op) (hsafe : (Impl.init st).safeRun c ops = true) :
    Impl.run c (Impl.init st) ops = Ref.run c (Ref.init w0) ops :=
  impl_refines_ref_partial c st w0 (sane_storeOK st hs) (sameStartb_sound st w0 h0) ops hsafe

/-- from the empty state -/
theorem impl_refines_ref_from_empty_partial (c : Cfg) (ops : List Op)
    (hsafe : (Impl.init Store.empty).safeRun c ops = true) :
    Impl.run c (Impl.init Store.empty) ops = Ref.run c (Ref.init []) ops :=
  impl_refines_ref_partial c Store.empty [] storeOK_empty sameStart_empty ops hsafe

/-! ## 3. Any client: same result for every deterministic client of the interface -/

theorem client_refines (c : Cfg) {α : Type} : ∀ (cl : Client α) (s : Impl) (r : Ref), Sim s r → cl.safe c s = true →
    cl.runImpl c s = cl.runRef c r := by
  intro cl
  induction cl with
  | ret x => intro s r _ _; rfl
  | call op k ih =>
    intro s r h hs
    simp only [Client.safe, Bool.and_eq_true, Bool.or_eq_true, beq_iff_eq] at hs
    have hstep := sim_step c h op hs.1
    simp only [Client.runImpl, Client.runRef]
    rw [← hstep.1]
    by_cases hp : (s.step c op).2 = .panic
    · simp [hp]
    · simp only [hp, if_false]
      have hsafe' : (k (s.step c op).2).safe c (s.step c op).1 = true := by
        rcases hs.2 with h1 | h1
        · exact absurd h1 hp
        · exact h1
      rw [ih (s.step c op).2 (s.step c op).1 (r.step c op).1 (hstep.2 hp) hsafe']

/-- (`_partial`: see `impl_refines_ref_partial` — the one reachable exclusion is the marker code.)
    The step that turns "same interface behaviour" into "same result for every bytecode program":
    the EVM interpreter is a deterministic client of the interface (trusted: go-ethereum's EVM uses
    the state only through `vm.StateDB`) -/
theorem any_client_same_result_partial (c : Cfg) {α : Type} (st : Store) (w0 : List (Addr × RAcct)) (hs : StoreOK st)
    (h0 : SameStart st w0) (cl : Client α) (hsafe : cl.safe c (Impl.init st) = true) :
    cl.runImpl c (Impl.init st) = cl.runRef c (Ref.init w0) :=
  client_refines c cl _ _ (sim_init st w0 hs h0) hsafe

/-! ## 4. The records: the storage of an account ends with the account (8684164, former S8) -/

/-- one call keeps "no storage record under an address without an account": every call but
    `Finalise` leaves the records alone, and `Finalise` deletes the storage records of every
    account it deletes -/
theorem no_orphan_storage_step (c : Cfg) (s : Impl) (r : Ref) (h : Sim s r) (op : Op) (hsafe : s.safeStep c op = true)
    (hcl : NoOrphanStorage s.store) : NoOrphanStorage (s.step c op).1.store := by
  by_cases hop : ∃ b, op = .finalise b
  · obtain ⟨b, rfl⟩ := hop
    have hgd : s.guard c (.finalise b) = true := hsafe
    simp only [Impl.guard, Bool.and_eq_true] at hgd
    have hb : b = true := hgd.1
    subst hb
    have := (sim_finalise c h hgd.2).2.2 hcl
    simpa [Impl.step] using this
  · rw [step_store c s op (fun b e => hop ⟨b, e⟩)]
    exact hcl

theorem no_orphan_storage_run (c : Cfg) : ∀ (ops : List Op) (s : Impl) (r : Ref), Sim s r → s.safeRun c ops = true →
    NoOrphanStorage s.store → NoOrphanStorage (Impl.endState c s ops).store
  | [], _, _, _, _, hcl => hcl
  | op :: ops, s, r, h, hs, hcl => by
    simp only [Impl.safeRun, Bool.and_eq_true, Bool.or_eq_true, beq_iff_eq] at hs
    simp only [Impl.endState]
    by_cases hp : (s.step c op).2 = .panic
    · simp only [hp, if_true]; exact hcl
    · simp only [hp, if_false]
      refine no_orphan_storage_run c ops _ _ ((sim_step c h op hs.1).2 hp) ?_ (no_orphan_storage_step c s r h op hs.1 hcl)
      rcases hs.2 with h1 | h1
      · exact absurd h1 hp
      · exact h1

/-- from the empty records, whatever is called inside the guards: no storage record is ever left
    under an address without an account -/
theorem no_orphan_storage_invariant (c : Cfg) (ops : List Op) (hsafe : (Impl.init Store.empty).safeRun c ops = true) :
    NoOrphanStorage (Impl.endState c (Impl.init Store.empty) ops).store :=
  no_orphan_storage_run c ops _ _ (sim_init Store.empty [] storeOK_empty sameStart_empty) hsafe
    (by intro a _ k; simp [Store.slot, Store.empty, Impl.init, alookup])

/-! ## 5. The reference semantics is the textbook one -/

/-- a revert gives back exactly the world saved by the snapshot, whatever happened in between -/
theorem ref_revert_restores (c : Cfg) (r : Ref) (hstack : r.stack = []) (ops : List Op) (r1 : Ref)
    (h1 : r1.stack = (r.step c .snapshot).1.stack) :
    ((r1.step c (.revertToSnapshot r.nextRev)).1).cur = r.cur ∧ (r1.step c (.revertToSnapshot r.nextRev)).2 = .unit := by
  have _ := ops
  simp only [Ref.step, hstack, List.nil_append] at h1
  simp [Ref.step, h1]

/-- Finalise empties the touched set, the refund and the revisions, and what was current storage
    is committed storage afterwards -/
theorem ref_finalise_promotes (r : Ref) (b : Bool) (a : Addr) (x : RAcct)
    (h : (r.finalise b).cur.get a = some x) : x.cstor = x.stor ∧ (r.finalise b).cur.touched = [] ∧
      (r.finalise b).cur.refund = 0 ∧ (r.finalise b).stack = [] := by
  refine ⟨?_, rfl, rfl, rfl⟩
  simp only [Ref.finalise, RWorld.get] at h
  have hm := alookup_mem _ _ _ h
  simp only [List.mem_map] at hm
  obtain ⟨ar, _, har⟩ := hm
  simp only [Prod.mk.injEq] at har
  rw [← har.2]

/-! ## 6. The one exclusion a transaction can reach, and regressions of what was repaired -/

def cfg : Cfg := { tomb := 99, ripemd := 3 }
def start : Impl := Impl.init Store.empty
def rstart : Ref := Ref.init []

/-- repaired (8684164), former KF-C16-2a: the storage records of a deleted account go with it;
    created again at the address, the account reads empty storage -/
theorem regress_recreated_account_reads_empty_storage :
    let ops := [Op.setNonce 1 1, .setState 1 0 5, .finalise true, .suicide 1, .finalise true, .setNonce 1 1, .getState 1 0,
                .getCommittedState 1 0]
    Impl.run cfg start ops = [.unit, .unit, .unit, .bool true, .unit, .unit, .nat 0, .nat 0] ∧
    Ref.run cfg rstart ops = Impl.run cfg start ops ∧ start.safeRun cfg ops = true := by decide

/-- repaired (8684164), former KF-C16-2b: `CreateAccount` over a live account starts it with empty
    storage; the old records are gone when it is written out, and a revert brings them back -/
theorem regress_createAccount_over_storage :
    let ops := [Op.setNonce 1 1, .setState 1 0 5, .finalise true, .snapshot, .createAccount 1, .getState 1 0,
                .getCommittedState 1 0, .revertToSnapshot 0, .getState 1 0, .createAccount 1, .setNonce 1 1,
                .setState 1 1 7, .finalise true, .getState 1 0, .getState 1 1]
    Impl.run cfg start ops = [.unit, .unit, .unit, .nat 0, .unit, .nat 0, .nat 0, .unit, .nat 5, .unit, .unit, .unit, .unit,
                              .nat 0, .nat 7] ∧
    Ref.run cfg rstart ops = Impl.run cfg start ops ∧ start.safeRun cfg ops = true := by decide

/-- storage records under an address without an account (left by a deletion before 8684164) are
    inside the theorem: the account created there does not read them, and they are deleted when it
    is written out -/
def residueStore : Store := { acct := [], bal := [], code := [], stor := [((1, 0), 5), ((1, 2), 6)] }

theorem regress_historic_residue_not_read :
    let ops := [Op.getState 1 0, .setNonce 1 1, .getState 1 0, .setState 1 1 7, .finalise true, .getState 1 0, .getState 1 1,
                .getCommittedState 1 2]
    residueStore.sane = true ∧ sameStartb residueStore [] = true ∧
    Impl.run cfg (Impl.init residueStore) ops = [.nat 0, .unit, .nat 0, .unit, .unit, .nat 0, .nat 7, .nat 0] ∧
    Ref.run cfg rstart ops = Impl.run cfg (Impl.init residueStore) ops ∧
    (ops.foldl (fun s op => (s.step cfg op).1) (Impl.init residueStore)).store.stor = [((1, 1), 7)] := by decide

/-- the excluded input class: a code equal to the deletion marker makes `Finalise` fail (the
    reference has no such error); nothing is read back differently before that -/
theorem marker_code_fails_finalise :
    let ops := [Op.setCode 1 99, .getCode 1, .finalise true, .getCode 1]
    Impl.run cfg start ops = [.unit, .code 99, .panic] ∧
    Ref.run cfg rstart ops = [.unit, .code 99, .unit, .code 99] ∧
    start.safeRun cfg ops = false := by decide

/-- repaired (da864f3, c90a103): a self-destructed account is gone with its balance record -/
theorem regress_selfdestruct_balance :
    let ops := [Op.addBalance 1 7, .finalise true, .suicide 1, .finalise true, .getBalance 1, .exist 1]
    Impl.run cfg start ops = [.unit, .unit, .bool true, .unit, .nat 0, .bool false] ∧
    Ref.run cfg rstart ops = Impl.run cfg start ops ∧ start.safeRun cfg ops = true := by decide

/-- repaired (c90a103): what is paid to a contract after its self-destruct is burnt with it -/
theorem regress_paid_after_selfdestruct :
    let ops := [Op.addBalance 1 7, .finalise true, .suicide 1, .addBalance 1 5, .getBalance 1, .finalise true, .getBalance 1, .exist 1]
    Impl.run cfg start ops = [.unit, .unit, .bool true, .unit, .nat 5, .unit, .nat 0, .bool false] ∧
    Ref.run cfg rstart ops = Impl.run cfg start ops ∧ start.safeRun cfg ops = true := by decide

/-- repaired (f45414e): the dirty index follows the removal of an entry -/
theorem regress_dirty_index :
    let ops := [Op.snapshot, .setNonce 1 3, .addBalance 2 1000, .revertToSnapshot 0, .setState 2 1 5, .setNonce 2 1,
                .finalise true, .getState 2 1, .exist 1]
    Impl.run cfg start ops = [.nat 0, .unit, .unit, .unit, .unit, .unit, .unit, .nat 5, .bool false] ∧
    Ref.run cfg rstart ops = Impl.run cfg start ops ∧ start.safeRun cfg ops = true := by decide

/-- repaired (d411c44): a reverted balance change does not leave the account dirty (the empty
    stored account is made with `Finalise(false)`, which is outside the guard, yet both agree) -/
theorem regress_reverted_transfer_keeps_empty_account :
    let ops := [Op.createAccount 1, .finalise false, .snapshot, .addBalance 1 5, .revertToSnapshot 0, .finalise true, .exist 1]
    Impl.run cfg start ops = [.unit, .unit, .nat 0, .unit, .unit, .unit, .bool true] ∧
    Ref.run cfg rstart ops = Impl.run cfg start ops := by decide

/-! ## 7. Non-vacuity: the guards are met by non-trivial runs -/

/-- two transactions with nested snapshots, a revert of the inner and of the outer one, storage,
    balance, nonce, code, refund, log, access list and self-destruct of a fresh account -/
def exOps : List Op :=
  [.prepare 1, .addBalance 1 10, .setNonce 1 1, .setCode 2 7, .setState 2 0 5, .snapshot, .setState 2 0 6,
   .addRefund 100, .snapshot, .subBalance 1 4, .addBalance 4 4, .addLog 2 9, .addSlotToAccessList 2 0,
   .revertToSnapshot 1, .getBalance 1, .getState 2 0, .revertToSnapshot 0, .getState 2 0, .getRefund,
   .finalise true, .prepare 2, .getCommittedState 2 0, .setState 2 0 0, .snapshot, .createAccount 5, .setNonce 5 1,
   .suicide 5, .revertToSnapshot 2, .exist 5, .finalise true, .getState 2 0, .getCode 2, .exist 4]

example : start.safeRun cfg exOps = true := by decide

example : Impl.run cfg start exOps = Ref.run cfg rstart exOps :=
  impl_refines_ref_from_empty_partial cfg exOps (by decide)

example : Impl.run cfg start exOps =
    [.unit, .unit, .unit, .unit, .unit, .nat 0, .unit, .unit, .nat 1, .unit, .unit, .unit, .unit, .unit, .nat 10, .nat 6,
     .unit, .nat 5, .nat 0, .unit, .unit, .nat 5, .unit, .nat 2, .unit, .unit, .bool true, .unit, .bool false, .unit,
     .nat 0, .code 7, .bool false] := by decide

/-- the RIPEMD touch exception is inside the theorem: the precompile touched with a zero amount
    inside a reverted call, then read, paid and finalised -/
def exOpsRipemd : List Op :=
  [.prepare 1, .snapshot, .addBalance 3 0, .exist 3, .revertToSnapshot 0, .exist 3, .finalise true, .exist 3,
   .prepare 2, .addBalance 3 0, .snapshot, .addBalance 3 5, .revertToSnapshot 1, .getBalance 3, .finalise true, .exist 3,
   .prepare 3, .addBalance 3 5, .finalise true, .prepare 4, .snapshot, .addBalance 3 0, .revertToSnapshot 2, .finalise true,
   .getBalance 3]

example : start.safeRun cfg exOpsRipemd = true ∧
    Impl.run cfg start exOpsRipemd = Ref.run cfg rstart exOpsRipemd ∧
    Impl.run cfg start exOpsRipemd =
      [.unit, .nat 0, .unit, .bool true, .unit, .bool false, .unit, .bool false,
       .unit, .unit, .nat 1, .unit, .unit, .nat 0, .unit, .bool false,
       .unit, .unit, .unit, .unit, .nat 2, .unit, .unit, .unit, .nat 5] := by decide

/-- the records after a self-destruct: the storage records are gone with the account -/
example :
    (Impl.endState cfg start [.setNonce 1 1, .setState 1 0 5, .setState 1 1 6, .finalise true]).store.stor = [((1, 0), 5), ((1, 1), 6)] ∧
    (Impl.endState cfg start [.setNonce 1 1, .setState 1 0 5, .setState 1 1 6, .finalise true, .suicide 1, .finalise true]).store.stor
      = [] := by decide

/-- a starting state with a contract (code 7, slot 0 = 5), an account that has only a balance
    record, and an externally owned account -/
def exStore : Store :=
  { acct := [(2, (1, 7)), (1, (3, 0))], bal := [(1, 100), (4, 9)], code := [(7, 7)], stor := [((2, 0), 5)] }
def exWorld : List (Addr × RAcct) :=
  [(2, { nonce := 1, bal := 0, code := 7, stor := [(0, 5)], cstor := [(0, 5)], suicided := false }),
   (1, { RAcct.fresh 100 with nonce := 3 }), (4, RAcct.fresh 9)]
def exOps2 : List Op :=
  [.prepare 1, .subBalance 1 30, .addBalance 2 30, .snapshot, .setState 2 0 0, .setState 2 1 8, .getCommittedState 2 0,
   .addRefund 4800, .snapshot, .subBalance 4 9, .addBalance 6 9, .revertToSnapshot 1, .getBalance 4, .finalise true,
   .prepare 2, .getState 2 0, .getState 2 1, .getCommittedState 2 1, .getBalance 2, .getCode 2, .getNonce 1]

example : exStore.sane = true ∧ sameStartb exStore exWorld = true ∧ (Impl.init exStore).safeRun cfg exOps2 = true := by decide

example : Impl.run cfg (Impl.init exStore) exOps2 = Ref.run cfg (Ref.init exWorld) exOps2 :=
  impl_refines_ref_decidable_partial cfg exStore exWorld (by decide) (by decide) exOps2 (by decide)

example : Impl.run cfg (Impl.init exStore) exOps2 =
    [.unit, .unit, .unit, .nat 0, .unit, .unit, .nat 5, .unit, .nat 1, .unit, .unit, .unit, .nat 9, .unit,
     .unit, .nat 0, .nat 8, .nat 8, .nat 30, .code 7, .nat 3] := by decide

/-- a client that branches on what it reads -/
def exClient : Client Nat :=
  .call (.addBalance 1 10) fun _ =>
  .call .snapshot fun _ =>
  .call (.subBalance 1 3) fun _ =>
  .call (.getBalance 1) fun o =>
    match o with
    | .nat 7 => .call (.revertToSnapshot 0) fun _ => .call (.getBalance 1) fun o' =>
        match o' with | .nat n => .ret n | _ => .ret 0
    | _ => .ret 99

example : exClient.safe cfg start = true := by decide
example : (exClient.runImpl cfg start).1 = some 10 := by decide

end OLP.Props.C16

/-
  C16 — the EVM state adapter is equivalent to go-ethereum's reference state.

  Property theorems only (helper lemmas: OLP/Evm/Lemmas*.lean).  All statements are about the
  executable model OLP/Evm/Model.lean:
    `Impl`  = statement-by-statement port of `vm.CommitStateDB` over its persistent records,
    `Ref`   = the textbook semantics (world + stack of saved worlds), which is what go-ethereum's
              `state.StateDB` computes.
  The `evm` engine compares, on every run, the adapter with `Impl` and go-ethereum with `Ref`
  call by call, and the adapter with go-ethereum directly (the monitor).

  FULL STATEMENT (DESIGN §6 C16), which is FALSE of the code as written:

      theorem impl_refines_ref (c : Cfg) (ops : List Op) :
          Impl.run c (Impl.init Store.empty) ops = Ref.run c (Ref.init []) ops
      theorem any_client_same_result (c : Cfg) (cl : Client α) :
          (cl.runImpl c (Impl.init Store.empty)).1 = (cl.runRef c (Ref.init [])).1

  Five mechanisms of the adapter break it; each is replayed on the real code by the monitor of the
  `evm` engine (signatures in parentheses, listed in known_findings.json) and proved below as a
  concrete counterexample from the empty state:
    1. `deleteStateObject` → `RemoveAccount` deletes `keeper_<a>` only: the balance record of a
       self-destructed account survives and `legacyFix` turns it back into an account (S8,
       `deleted-account-keeps-balance`)                                   — `selfdestruct_keeps_balance`
    2. storage records are never deleted and `createObject` does not hide them: an account created
       again at the address reads the old slots (S8, `recreated-account-keeps-storage`)
                                        — `recreated_account_keeps_storage`, `createAccount_keeps_storage`
    3. `journal.deleteDirty` removes a slice element without re-indexing `addressToJournalIndex`:
       later journal operations index out of range (Go panic) or count on the wrong account
       (`journal-dirty-index-stale`)                                      — `stale_dirty_index_panics`
    4. `balanceChange.revert` / `suicideChange.revert` go through the journaled `SetBalance`, so a
       reverted balance change leaves the account dirty and `Finalise(true)` deletes it when empty
       (`reverted-balance-change-deletes-empty-account`)            — `reverted_transfer_deletes_empty_account`
    5. a contract code equal to the store's TOMBSTONE marker cannot be written (KF-C09-1,
       `tombstone-literal-code`)                                          — `tombstone_code_is_lost`

  What IS proved (`impl_refines_ref_partial`, `any_client_same_result_partial`): for EVERY call
  sequence / client, from every sane starting state, as long as the run stays inside `Impl.safeRun`
  — a decidable predicate on the adapter's own state (`Impl.guard`, `Impl.legitPanic`,
  `Impl.finaliseGuard` in Model.lean) — the adapter returns what the reference returns, call by
  call, including arbitrary nesting of Snapshot / RevertToSnapshot and Finalise between transactions.
  The predicate excludes: the five situations above (1: a deleted account with a non-zero balance
  record; 2: a deleted account or a CreateAccount target with non-zero storage records; 3: an account
  with a live journal entry missing from `dirties` at Finalise, or a journal panic; 4:
  `Finalise(false)`, the only way the EVM path could leave an empty account in the records;
  5: writing out a code equal to the marker); two modelling restrictions (the RIPEMD touch
  exception, and Prepare / Reset inside a transaction: both are in the models and compared with
  go-ethereum by the correspondence run); and two well-formedness conditions that hold on every
  state the engines have produced but are checked here rather than proved invariant (every dirty
  slot has its origin cached when `commitState` runs; an access-list slot is never listed without
  its address).  The driver evaluates the predicate on every correspondence line and reports which
  part fails first (`guard-first-failure:*` in the evidence): only the five mechanisms, the RIPEMD
  touch, `Finalise(false)` and non-sane starting records ever do.
-/
import OLP.Evm.LemmasStart

namespace OLP.Props.C16
open OLP OLP.Evm

/-! ## 1. The starting states correspond -/

/-- the reference starts with the accounts the records describe -/
def SameStart (st : Store) (w0 : List (Addr × RAcct)) : Prop :=
  (akeys w0).Nodup ∧ ∀ a, st.view a = (alookup a w0).map viewR

theorem sameStart_empty : SameStart Store.empty [] := by
  refine ⟨by simp [akeys], ?_⟩
  intro a
  simp [Store.view, Store.getAccount, Store.empty, Store.balOf, alookup]

theorem storeOK_empty : StoreOK Store.empty := by
  refine ⟨?_, ?_, ?_⟩
  · intro a o h; simp [Store.getAccount, Store.empty, Store.balOf, alookup] at h
  · intro a _ k; simp [Store.slot, Store.empty, alookup]
  · intro a n h hh; simp [Store.empty, alookup] at hh

/-- the decidable sanity check of the records (evaluated by the driver on every starting state)
    implies the hypothesis of the theorems -/
theorem sane_storeOK (st : Store) (h : st.sane = true) : StoreOK st := by
  simp only [Store.sane, Bool.and_eq_true, List.all_eq_true] at h
  obtain ⟨⟨h1, h2⟩, h3⟩ := h
  refine ⟨?_, ?_, ?_⟩
  · intro a o hg
    unfold Store.getAccount at hg
    cases hl : alookup a st.acct with
    | some nh =>
      obtain ⟨n, hh⟩ := nh
      simp only [hl, Option.some.injEq] at hg
      subst hg
      have := h1 (a, (n, hh)) (alookup_mem _ _ _ hl)
      simp only [Bool.not_eq_true', Bool.and_eq_false_iff, beq_eq_false_iff_ne, ne_eq] at this
      simp only [Obj.empty, Obj.fresh, Bool.and_eq_false_iff, beq_eq_false_iff_ne, ne_eq]
      rcases this with (h0 | h0) | h0
      · exact Or.inl (Or.inl h0)
      · exact Or.inr h0
      · exact Or.inl (Or.inr h0)
    | none =>
      simp only [hl] at hg
      by_cases hb : st.balOf a = 0
      · simp [hb] at hg
      · simp only [hb, if_false, Option.some.injEq] at hg
        subst hg
        simp [Obj.empty, Obj.fresh, hb]
  · intro a hg k
    unfold Store.slot
    cases hl : alookup (a, k) st.stor with
    | none => rfl
    | some v =>
      have := h2 ((a, k), v) (alookup_mem _ _ _ hl)
      simp only [hg, Option.isSome_none, Bool.or_false, beq_iff_eq, Bool.false_eq_true] at this
      simpa using this
  · intro a n hh hl hz
    have := h3 (a, (n, hh)) (alookup_mem _ _ _ hl)
    simp only [Bool.or_eq_true, beq_iff_eq] at this
    rcases this with h0 | h0
    · exact absurd h0 hz
    · exact h0

theorem sim_init (st : Store) (w0 : List (Addr × RAcct)) (hs : StoreOK st) (h0 : SameStart st w0) :
    Sim (Impl.init st) (Ref.init w0) := by
  have hv : ∀ a, (Impl.init st).view a = st.view a := by intro a; simp [Impl.view, Impl.init, alookup]
  refine ⟨⟨by intro a o ha; simp [Impl.init, alookup] at ha, by simp [Impl.init, akeys], hs⟩,
    by intro e he; simp [Impl.init, Journal.new] at he, ?_, rfl, rfl, by intro a; simp [Ref.init, Impl.init, Journal.new],
    ?_, h0.1, trivial, by intro x hx; simp [Impl.init] at hx, by simp [Impl.init], by simp [Impl.init], rfl⟩
  · simp only [absI, absR, AW.mk.injEq]
    refine ⟨?_, rfl, ?_, rfl, rfl, rfl⟩
    · funext a; rw [hv a]; exact h0.2 a
    · funext h'; simp [Impl.init, Ref.init, alookup]
  · intro a _
    show (Ref.init w0).cur.view a = st.view a
    exact (h0.2 a).symm

/-! ## 2. Refinement: same outputs for every call sequence inside the guards -/

/-- one call: same result, and the simulation relation is kept (every interface call, including
    nested Snapshot / RevertToSnapshot and Finalise) -/
theorem step_refines (c : Cfg) (s : Impl) (r : Ref) (h : Sim s r) (op : Op) (hsafe : s.safeStep c op = true) :
    (s.step c op).2 = (r.step c op).2 ∧ ((s.step c op).2 ≠ .panic → Sim (s.step c op).1 (r.step c op).1) :=
  sim_step c h op hsafe

theorem run_refines (c : Cfg) : ∀ (ops : List Op) (s : Impl) (r : Ref), Sim s r → s.safeRun c ops = true →
    Impl.run c s ops = Ref.run c r ops
  | [], _, _, _, _ => rfl
  | op :: ops, s, r, h, hs => by
    simp only [Impl.safeRun, Bool.and_eq_true, Bool.or_eq_true, beq_iff_eq] at hs
    have hstep := sim_step c h op hs.1
    simp only [Impl.run, Ref.run]
    rw [← hstep.1]
    by_cases hp : (s.step c op).2 = .panic
    · simp [hp]
    · simp only [hp, if_false]
      congr 1
      refine run_refines c ops _ _ (hstep.2 hp) ?_
      rcases hs.2 with h1 | h1
      · exact absurd h1 hp
      · exact h1

/-- `impl_refines_ref`, under the guards the code forces -/
theorem impl_refines_ref_partial (c : Cfg) (st : Store) (w0 : List (Addr × RAcct)) (hs : StoreOK st)
    (h0 : SameStart st w0) (ops : List Op) (hsafe : (Impl.init st).safeRun c ops = true) :
    Impl.run c (Impl.init st) ops = Ref.run c (Ref.init w0) ops :=
  run_refines c ops _ _ (sim_init st w0 hs h0) hsafe

/-- with both hypotheses on the starting state as decidable checks -/
theorem impl_refines_ref_decidable_partial (c : Cfg) (st : Store) (w0 : List (Addr × RAcct)) (hs : st.sane = true)
    (h0 : sameStartb st w0 = true) (ops : List Op) (hsafe : (Impl.init st).safeRun c ops = true) :
    Impl.run c (Impl.init st) ops = Ref.run c (Ref.init w0) ops :=
  impl_refines_ref_partial c st w0 (sane_storeOK st hs) (sameStartb_sound st w0 h0) ops hsafe

/-- from the empty state -/
theorem impl_refines_ref_from_empty_partial (c : Cfg) (ops : List Op)
    (hsafe : (Impl.init Store.empty).safeRun c ops = true) :
    Impl.run c (Impl.init Store.empty) ops = Ref.run c (Ref.init []) ops :=
  impl_refines_ref_partial c Store.empty [] storeOK_empty sameStart_empty ops hsafe

/-! ## 3. Any client: same result for every deterministic client of the interface -/

theorem client_refines (c : Cfg) {α : Type} : ∀ (cl : Client α) (s : Impl) (r : Ref), Sim s r → cl.safe c s = true →
    cl.runImpl c s = cl.runRef c r := by
  intro cl
  induction cl with
  | ret x => intro s r _ _; rfl
  | call op k ih =>
    intro s r h hs
    simp only [Client.safe, Bool.and_eq_true, Bool.or_eq_true, beq_iff_eq] at hs
    have hstep := sim_step c h op hs.1
    simp only [Client.runImpl, Client.runRef]
    rw [← hstep.1]
    by_cases hp : (s.step c op).2 = .panic
    · simp [hp]
    · simp only [hp, if_false]
      have hsafe' : (k (s.step c op).2).safe c (s.step c op).1 = true := by
        rcases hs.2 with h1 | h1
        · exact absurd h1 hp
        · exact h1
      rw [ih (s.step c op).2 (s.step c op).1 (r.step c op).1 (hstep.2 hp) hsafe']

/-- the step that turns "same interface behaviour" into "same result for every bytecode program":
    the EVM interpreter is a deterministic client of the interface (trusted: go-ethereum's EVM uses
    the state only through `vm.StateDB`) -/
theorem any_client_same_result_partial (c : Cfg) {α : Type} (st : Store) (w0 : List (Addr × RAcct)) (hs : StoreOK st)
    (h0 : SameStart st w0) (cl : Client α) (hsafe : cl.safe c (Impl.init st) = true) :
    cl.runImpl c (Impl.init st) = cl.runRef c (Ref.init w0) :=
  client_refines c cl _ _ (sim_init st w0 hs h0) hsafe

/-! ## 4. The reference semantics is the textbook one -/

/-- a revert gives back exactly the world saved by the snapshot, whatever happened in between -/
theorem ref_revert_restores (c : Cfg) (r : Ref) (hstack : r.stack = []) (ops : List Op) (r1 : Ref)
    (h1 : r1.stack = (r.step c .snapshot).1.stack) :
    ((r1.step c (.revertToSnapshot r.nextRev)).1).cur = r.cur ∧ (r1.step c (.revertToSnapshot r.nextRev)).2 = .unit := by
  have _ := ops
  simp only [Ref.step, hstack, List.nil_append] at h1
  simp [Ref.step, h1]

/-- Finalise empties the touched set, the refund and the revisions, and what was current storage
    is committed storage afterwards -/
theorem ref_finalise_promotes (r : Ref) (b : Bool) (a : Addr) (x : RAcct)
    (h : (r.finalise b).cur.get a = some x) : x.cstor = x.stor ∧ (r.finalise b).cur.touched = [] ∧
      (r.finalise b).cur.refund = 0 ∧ (r.finalise b).stack = [] := by
  refine ⟨?_, rfl, rfl, rfl⟩
  simp only [Ref.finalise, RWorld.get] at h
  have hm := alookup_mem _ _ _ h
  simp only [List.mem_map] at hm
  obtain ⟨ar, _, har⟩ := hm
  simp only [Prod.mk.injEq] at har
  rw [← har.2]

/-! ## 5. Counterexamples to the full statement (each replayed on the implementation by the monitor) -/

def cfg : Cfg := { tomb := 99, ripemd := 3 }
def start : Impl := Impl.init Store.empty
def rstart : Ref := Ref.init []

/-- 1. the balance record of a self-destructed account survives: after the transaction the account
    is back with its old balance (the beneficiary has been paid the same amount) -/
theorem selfdestruct_keeps_balance :
    let ops := [Op.addBalance 1 7, .finalise true, .suicide 1, .finalise true, .getBalance 1, .exist 1]
    Impl.run cfg start ops = [.unit, .unit, .bool true, .unit, .nat 7, .bool true] ∧
    Ref.run cfg rstart ops = [.unit, .unit, .bool true, .unit, .nat 0, .bool false] ∧
    start.safeRun cfg ops = false := by decide

/-- 2a. storage records survive the deletion of their account: created again, it reads them -/
theorem recreated_account_keeps_storage :
    let ops := [Op.setNonce 1 1, .setState 1 0 5, .finalise true, .suicide 1, .finalise true, .setNonce 1 1, .getState 1 0]
    Impl.run cfg start ops = [.unit, .unit, .unit, .bool true, .unit, .unit, .nat 5] ∧
    Ref.run cfg rstart ops = [.unit, .unit, .unit, .bool true, .unit, .unit, .nat 0] ∧
    start.safeRun cfg ops = false := by decide

/-- 2b. `CreateAccount` over a live account keeps its storage records readable -/
theorem createAccount_keeps_storage :
    let ops := [Op.setNonce 1 1, .setState 1 0 5, .finalise true, .createAccount 1, .getState 1 0, .getCommittedState 1 0]
    Impl.run cfg start ops = [.unit, .unit, .unit, .unit, .nat 5, .nat 5] ∧
    Ref.run cfg rstart ops = [.unit, .unit, .unit, .unit, .nat 0, .nat 0] ∧
    start.safeRun cfg ops = false := by decide

/-- 3. `deleteDirty` leaves stale positions in `addressToJournalIndex`: the next journal entry for
    the account behind the deleted one indexes out of range (a Go panic inside DeliverTx) -/
theorem stale_dirty_index_panics :
    let ops := [Op.snapshot, .setNonce 1 3, .addBalance 2 1000, .revertToSnapshot 0, .setState 2 1 5]
    Impl.run cfg start ops = [.nat 0, .unit, .unit, .unit, .panic] ∧
    Ref.run cfg rstart ops = [.nat 0, .unit, .unit, .unit, .unit] ∧
    start.safeRun cfg ops = false := by decide

/-- 4. a reverted balance change leaves the account dirty: an empty account that is in the records
    (only possible after `Finalise(false)` or from outside the EVM) is deleted by the next Finalise -/
theorem reverted_transfer_deletes_empty_account :
    let ops := [Op.createAccount 1, .finalise false, .snapshot, .addBalance 1 5, .revertToSnapshot 0, .finalise true, .exist 1]
    Impl.run cfg start ops = [.unit, .unit, .nat 0, .unit, .unit, .unit, .bool false] ∧
    Ref.run cfg rstart ops = [.unit, .unit, .nat 0, .unit, .unit, .unit, .bool true] ∧
    start.safeRun cfg ops = false := by decide

/-- 5. a code equal to the TOMBSTONE marker is not stored (KF-C09-1 seen through the adapter) -/
theorem tombstone_code_is_lost :
    let ops := [Op.setCode 1 99, .getCode 1, .finalise true, .getCode 1, .getCodeHash 1]
    Impl.run cfg start ops = [.unit, .code 99, .unit, .code 0, .hash (some 99)] ∧
    Ref.run cfg rstart ops = [.unit, .code 99, .unit, .code 99, .hash (some 99)] ∧
    start.safeRun cfg ops = false := by decide

/-! ## 6. Non-vacuity: the guards are met by non-trivial runs -/

/-- two transactions with nested snapshots, a revert of the inner and of the outer one, storage,
    balance, nonce, code, refund, log, access list and self-destruct of a fresh account -/
def exOps : List Op :=
  [.prepare 1, .addBalance 1 10, .setNonce 1 1, .setCode 2 7, .setState 2 0 5, .snapshot, .setState 2 0 6,
   .addRefund 100, .snapshot, .subBalance 1 4, .addBalance 4 4, .addLog 2 9, .addSlotToAccessList 2 0,
   .revertToSnapshot 1, .getBalance 1, .getState 2 0, .revertToSnapshot 0, .getState 2 0, .getRefund,
   .finalise true, .prepare 2, .getCommittedState 2 0, .setState 2 0 0, .snapshot, .createAccount 5, .setNonce 5 1,
   .suicide 5, .revertToSnapshot 2, .exist 5, .finalise true, .getState 2 0, .getCode 2, .exist 4]

example : start.safeRun cfg exOps = true := by decide

example : Impl.run cfg start exOps = Ref.run cfg rstart exOps :=
  impl_refines_ref_from_empty_partial cfg exOps (by decide)

example : Impl.run cfg start exOps =
    [.unit, .unit, .unit, .unit, .unit, .nat 0, .unit, .unit, .nat 1, .unit, .unit, .unit, .unit, .unit, .nat 10, .nat 6,
     .unit, .nat 5, .nat 0, .unit, .unit, .nat 5, .unit, .nat 2, .unit, .unit, .bool true, .unit, .bool false, .unit,
     .nat 0, .code 7, .bool false] := by decide

/-- a starting state with a contract (code 7, slot 0 = 5), an account that has only a balance
    record, and an externally owned account -/
def exStore : Store :=
  { acct := [(2, (1, 7)), (1, (3, 0))], bal := [(1, 100), (4, 9)], code := [(7, 7)], stor := [((2, 0), 5)] }
def exWorld : List (Addr × RAcct) :=
  [(2, { nonce := 1, bal := 0, code := 7, stor := [(0, 5)], cstor := [(0, 5)], suicided := false }),
   (1, { RAcct.fresh 100 with nonce := 3 }), (4, RAcct.fresh 9)]
def exOps2 : List Op :=
  [.prepare 1, .subBalance 1 30, .addBalance 2 30, .snapshot, .setState 2 0 0, .setState 2 1 8, .getCommittedState 2 0,
   .addRefund 4800, .snapshot, .subBalance 4 9, .addBalance 6 9, .revertToSnapshot 1, .getBalance 4, .finalise true,
   .prepare 2, .getState 2 0, .getState 2 1, .getCommittedState 2 1, .getBalance 2, .getCode 2, .getNonce 1]

example : exStore.sane = true ∧ sameStartb exStore exWorld = true ∧ (Impl.init exStore).safeRun cfg exOps2 = true := by decide

example : Impl.run cfg (Impl.init exStore) exOps2 = Ref.run cfg (Ref.init exWorld) exOps2 :=
  impl_refines_ref_decidable_partial cfg exStore exWorld (by decide) (by decide) exOps2 (by decide)

example : Impl.run cfg (Impl.init exStore) exOps2 =
    [.unit, .unit, .unit, .nat 0, .unit, .unit, .nat 5, .unit, .nat 1, .unit, .unit, .unit, .nat 9, .unit,
     .unit, .nat 0, .nat 8, .nat 8, .nat 30, .code 7, .nat 3] := by decide

/-- a client that branches on what it reads -/
def exClient : Client Nat :=
  .call (.addBalance 1 10) fun _ =>
  .call .snapshot fun _ =>
  .call (.subBalance 1 3) fun _ =>
  .call (.getBalance 1) fun o =>
    match o with
    | .nat 7 => .call (.revertToSnapshot 0) fun _ => .call (.getBalance 1) fun o' =>
        match o' with | .nat n => .ret n | _ => .ret 0
    | _ => .ret 99

example : exClient.safe cfg start = true := by decide
example : (exClient.runImpl cfg start).1 = some 10 := by decide

end OLP.Props.C16

import OLP.Stake.Model

/-!
# C11 — a validator's stake address changes only when the old one is clean

Seed C11-stake-address-clean-half-open shortened the window the handler scans for amounts that
are still maturing: the old stake address then keeps an unstaked amount of the SAME block, stops
being the stake address, and is no longer covered by the frozen-owner guard of WITHDRAW when the
validator is frozen later. What the guard relies on is this step property of STAKE, stated for the
model (tied to `isStakeAddressClean` / `GetMaturedPendingAmount` by the correspondence of the
`stake` engine and to the implementation's behaviour by its monitor
`withdrawn-stake-of-frozen-validator`).
-/

namespace OLP.Props.C11

open OLP.Stake

/-- an accepted STAKE that names another stake address than the record has finds the old address
    clean: nothing locked with this validator, nothing withdrawable, and no amount maturing at any
    height from the current one up to and INCLUDING height + maturity — the height an unstake of
    this very block matures at -/
theorem stake_address_changes_only_when_clean (s s' : St) (v d : Addr) (a : Int) (r : VRec)
    (hr : s.vals v = some r) (hne : r.sa ≠ d) (h : runStake s v d a = (s', .ok)) :
    s.vd v r.sa = 0 ∧ s.bnd r.sa = 0 ∧
    ∀ i : Nat, (i : Int) ≤ s.maturity → ∀ e ∈ s.mat (s.height + (i : Int)), e.1 = r.sa → e.2 = 0 := by
  unfold runStake at h
  by_cases hf : s.frozen v = true
  · simp [hf] at h
  · simp only [hf] at h
    by_cases hu : inUse s v d = true
    · simp [hu] at h
    · have hclean : isClean s v r = true := by
        unfold inUse at hu
        simp only [hr] at hu
        simp [hne] at hu
        exact hu
      unfold isClean at hclean
      simp only [Bool.and_eq_true, decide_eq_true_eq, Bool.not_eq_true'] at hclean
      obtain ⟨⟨h1, h2⟩, h3⟩ := hclean
      refine ⟨h1, h3, ?_⟩
      intro i hi e he hea
      unfold hasPending at h2
      rw [List.any_eq_false] at h2
      have hi' : i ∈ List.range (s.maturity + 1).toNat := by
        rw [List.mem_range]; omega
      have := h2 i hi'
      simp only [Bool.not_eq_true] at this
      rw [List.any_eq_false] at this
      have := this e he
      simp [hea] at this
      exact this

/-- the boundary the seed moved: an unstake of the current block by the old stake address blocks
    the change (its amount waits at height + maturity) -/
theorem same_block_unstake_blocks_change (s : St) (v d : Addr) (a : Int) (r : VRec) (x : Int)
    (hr : s.vals v = some r) (hne : r.sa ≠ d) (hm : 0 ≤ s.maturity) (hx : x ≠ 0)
    (hp : (r.sa, x) ∈ s.mat (s.height + s.maturity)) :
    (runStake s v d a).2 ≠ .ok := by
  intro hok
  have hex : ∃ s', runStake s v d a = (s', .ok) := ⟨(runStake s v d a).1, by rw [← hok]⟩
  obtain ⟨s', h⟩ := hex
  have h3 := (stake_address_changes_only_when_clean s s' v d a r hr hne h).2.2
  have := h3 s.maturity.toNat (by omega) (r.sa, x) (by
    have : ((s.maturity.toNat : Nat) : Int) = s.maturity := by omega
    rw [this]; exact hp) rfl
  exact hx this

end OLP.Props.C11

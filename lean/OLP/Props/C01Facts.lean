/-
  C01 — obligations over the REGENERATED fact tables (tie T3): map iteration order and
  node-local environment uses on the consensus paths are exactly the classified ones.
-/
import OLP.Shell.Expect

namespace OLP.Props.C01.Facts
open OLP.Expect

/-- no `range` over a Go map writes state in iteration order -/
theorem no_unsorted_writing_range : unsortedWritingRanges OLP.Gen.mapRanges = unsortedWriting := by decide

/-- every map range in the consensus packages is one of the classified rows -/
theorem map_ranges_as_classified : OLP.Gen.mapRanges = mapRanges := by decide

/-- every use of clock / randomness / uuid / process environment / node identity / witness flag
    in the consensus packages is one of the classified rows -/
theorem env_uses_as_classified : OLP.Gen.envUses = envUses := by decide

end OLP.Props.C01.Facts

/-
  C02 — No value creation: totals grow only by scheduled rewards and confirmed locks; no stored
  amount is ever negative.

  This file carries the GENERIC accounting theorems every value-moving handler is an instance of
  (debit and credit of the same coin conserve the total for every coin, including hostile ones;
  non-negativity needs the coin to be non-negative, which is exactly the check several handlers
  were missing), the transfer handlers and the fee step. The per-subsystem instances
  (stake, network delegation, proposal funds, rewards, trackers, domains) live with their models
  (OLP/Props/C11, C12, C13, C14, C15, C20: `…_conserves_value` theorems).
-/
import OLP.Ledger.Lemmas

namespace OLP.Props.C02
open OLP OLP.Ledger

/-! ## the primitives of data/balance/balance_store.go -/

theorem minusFrom_total (l l' : L) (a : Acc) (c : Int) (h : minusFrom l a c = .ok l') :
    total l' = total l - c := by
  obtain ⟨_, rfl⟩ := minusFrom_ok l l' a c h
  rw [total_setBal]; omega

theorem addTo_total (l : L) (a : Acc) (c : Int) : total (addTo l a c) = total l + c := by
  unfold addTo
  rw [total_setBal]; omega

/-- debit and credit of THE SAME coin conserve the total — for every coin, whatever its sign or size -/
theorem transfer_conserves (l l' : L) (s d : Acc) (c : Int) (h : transfer l s d c = .ok l') :
    total l' = total l := by
  obtain ⟨l₁, hm, rfl⟩ := transfer_ok l l' s d c h
  rw [addTo_total, minusFrom_total l l₁ s c hm]; omega

/-- a debit never leaves a negative amount behind (the `Minus` check) -/
theorem minusFrom_nonneg (l l' : L) (a : Acc) (c : Int) (hn : NonNeg l)
    (h : minusFrom l a c = .ok l') : NonNeg l' := by
  obtain ⟨h0, rfl⟩ := minusFrom_ok l l' a c h
  exact nonNeg_setBal l a _ hn h0

/-- a credit keeps amounts non-negative when the coin is non-negative -/
theorem addTo_nonneg (l : L) (a : Acc) (c : Int) (hn : NonNeg l) (hc : 0 ≤ c) :
    NonNeg (addTo l a c) := by
  unfold addTo
  have := bal_nonneg l a hn
  exact nonNeg_setBal l a _ hn (by omega)

theorem transfer_nonneg (l l' : L) (s d : Acc) (c : Int) (hn : NonNeg l) (hc : 0 ≤ c)
    (h : transfer l s d c = .ok l') : NonNeg l' := by
  obtain ⟨l₁, hm, rfl⟩ := transfer_ok l l' s d c h
  exact addTo_nonneg l₁ d c (minusFrom_nonneg l l₁ s c hn hm) hc

/-- … and ONLY then: crediting a negative coin drives the receiver below zero (the shape of the
    missing-validation defects S5, S6, S7, S26) -/
theorem negative_credit_breaks_nonneg :
    ∃ l', transfer [("a", 5), ("b", 0)] "a" "b" (-3) = .ok l' ∧ ¬ NonNeg l' := by
  refine ⟨[("a", 8), ("b", -3)], by rfl, ?_⟩
  intro hn
  have := hn ("b", -3) (by simp)
  simp at this

/-! ## SEND and the fee step, at full strength (no hypothesis on the amounts) -/

theorem send_conserves (l l' : L) (s d : Acc) (amt : Int) (h : send l s d amt = .ok l') :
    total l' = total l := by
  exact transfer_conserves l l' s d amt (send_ok l l' s d amt h).2

theorem send_nonneg (l l' : L) (s d : Acc) (amt : Int) (hn : NonNeg l)
    (h : send l s d amt = .ok l') : NonNeg l' := by
  obtain ⟨ha, ht⟩ := send_ok l l' s d amt h
  exact transfer_nonneg l l' s d amt hn ha ht

theorem feeStep_conserves (l l' : L) (s p : Acc) (price used : Int)
    (h : feeStep l s p price used = .ok l') : total l' = total l := by
  exact transfer_conserves l l' s p (price * used) h

theorem txSend_conserves (l l' : L) (s d p : Acc) (amt price used : Int)
    (h : txSend l s d p amt price used = .ok l') : total l' = total l := by
  obtain ⟨l₁, hs, hf⟩ := txSend_ok l l' s d p amt price used h
  rw [feeStep_conserves l₁ l' s p price used hf, send_conserves l l₁ s d amt hs]

/-- full statement for a whole SEND transaction: needs the fee charge to be non-negative, which
    `ValidateFee` (price ≥ minimal fee > 0) and the gas counter (used ≥ 0) provide -/
theorem txSend_nonneg (l l' : L) (s d p : Acc) (amt price used : Int) (hn : NonNeg l)
    (hp : 0 ≤ price) (hu : 0 ≤ used) (h : txSend l s d p amt price used = .ok l') : NonNeg l' := by
  obtain ⟨l₁, hs, hf⟩ := txSend_ok l l' s d p amt price used h
  exact transfer_nonneg l₁ l' s p (price * used) (send_nonneg l l₁ s d amt hn hs)
    (Int.mul_nonneg hp hu) hf

/-- SENDPOOL as written relies on `Validate` for the sign of the amount -/
theorem sendPoolRaw_nonneg_partial (l l' : L) (s p : Acc) (amt : Int) (hn : NonNeg l) (ha : 0 ≤ amt)
    (h : sendPoolRaw l s p amt = .ok l') : NonNeg l' := by
  exact transfer_nonneg l l' s p amt hn ha h

/-! ## the shape of S4: debit one coin, record another -/

/-- debiting `c₁` and crediting `c₂` changes the total by exactly `c₂ − c₁` -/
theorem mismatched_coins_change_total (l l' : L) (s d : Acc) (c₁ c₂ : Int)
    (h : minusFrom l s c₁ = .ok l') : total (addTo l' d c₂) = total l + (c₂ - c₁) := by
  rw [addTo_total, minusFrom_total l l' s c₁ h]; omega

/-- `Int64()` wraps: staking 2^64+1 whole tokens costs one token -/
theorem toCoinWithBase_wraps :
    toCoinWithBase 18446744073709551617 18 = 1000000000000000000 ∧
    toCoinWithBase 18446744073709551617 18 ≠ 18446744073709551617 * 10 ^ 18 := by
  decide

/-- … and is exact precisely on the int64 range -/
theorem wrap64_exact_iff (x : Int) :
    wrap64 x = x ↔ (-9223372036854775808 ≤ x ∧ x < 9223372036854775808) := by
  unfold wrap64
  simp only
  split <;> omega

/-! ## lifting to histories -/

/-- if every step of a history either fails (state unchanged) or does not increase the total and
    keeps amounts non-negative, so does the history; `mint` lists what each step may add
    (block rewards accrued, confirmed locks) -/
theorem history_no_creation {Op : Type} (step : L → Op → L) (mint : Op → Int)
    (hstep : ∀ l op, NonNeg l → total (step l op) ≤ total l + mint op ∧ NonNeg (step l op))
    (l : L) (hn : NonNeg l) (ops : List Op) :
    total (ops.foldl step l) ≤ total l + (ops.map mint).sum ∧ NonNeg (ops.foldl step l) := by
  induction ops generalizing l with
  | nil => simp [hn]
  | cons op t ih =>
    obtain ⟨h1, h2⟩ := hstep l op hn
    obtain ⟨h3, h4⟩ := ih (step l op) h2
    refine ⟨?_, h4⟩
    simp only [List.foldl_cons, List.map_cons, List.sum_cons]
    omega

/-! ## Non-vacuity -/
example : NonNeg [("a", 5), ("b", 0)] ∧ total [("a", 5), ("b", 0)] = 5 ∧
    (∃ l', send [("a", 5), ("b", 0)] "a" "b" 3 = .ok l' ∧ bal l' "b" = 3 ∧ bal l' "a" = 2) := by
  refine ⟨?_, by decide, [("a", 2), ("b", 3)], by rfl, by decide, by decide⟩
  intro p hp
  simp at hp
  rcases hp with rfl | rfl <;> simp

end OLP.Props.C02

import OLP.Gen.Arith
import OLP.Alleg.Model

/-!
# C19 — arithmetic leaves tied to the source by translation (T2)

The required number of votes and the two threshold comparisons of `ExecuteAllegationTracker`, as
regenerated from /repo's working tree (`OLP/Gen/Arith.lean`), are the formulas of the model.
-/

namespace OLP.Props.C19

open OLP.Alleg

theorem required_votes_is_source (active : Int) (o : Opts) :
    requiredVotes active o = OLP.Gen.Arith.allegRequired active o.votePct o.voteDec := rfl

theorem verdict_is_source (env : Env) (vs : List (Addr × VStat)) (ar : Request) :
    verdictOf env vs ar =
      (if OLP.Gen.Arith.allegGuilty (countChoice 1 (activeVotes vs ar)) env.opts.allegDec env.opts.allegPct
            (OLP.Gen.Arith.allegRequired env.active env.opts.votePct env.opts.voteDec) = true then .guilty
       else if OLP.Gen.Arith.allegInnocent (countChoice 2 (activeVotes vs ar)) env.opts.allegDec
            env.opts.allegPct (OLP.Gen.Arith.allegRequired env.active env.opts.votePct env.opts.voteDec) = true
       then .innocent else .none) := by
  simp [verdictOf, requiredVotes, OLP.Gen.Arith.allegGuilty, OLP.Gen.Arith.allegInnocent,
    OLP.Gen.Arith.allegRequired]

end OLP.Props.C19

import OLP.Gen.Arith
import OLP.Gov.Model

/-!
# C14 — arithmetic leaves tied to the source by translation (T2)

The two integer comparisons of `ResultSoFar` (inside `if totalPower > 0`), regenerated from /repo's
working tree, are the model's `passCond` / `failCond` for a positive counted power.
-/

namespace OLP.Props.C14

open OLP.Gov

theorem pass_condition_is_source (yes all giveup pass : Int) (h : all - giveup > 0) :
    passCond yes all giveup pass ↔ OLP.Gen.Arith.govPassed yes pass (all - giveup) = true := by
  unfold passCond OLP.Gen.Arith.govPassed
  rw [if_pos h]; simp [Int.mul_comm]

theorem fail_condition_is_source (no all giveup pass : Int) (h : all - giveup > 0) :
    failCond no all giveup pass ↔ OLP.Gen.Arith.govFailed (all - giveup) no pass = true := by
  unfold failCond OLP.Gen.Arith.govFailed
  rw [if_pos h]; simp

end OLP.Props.C14

/-
  C08 — Crash-restart equivalence: committed state survives and replay converges.
  `crash boot hs n` = the process dies and is restarted from its on-disk data: only the saved
  versions (and Tendermint's own index) survive, overlays are empty, volatile memory is recomputed
  by the start-up code `boot` from the persisted tree.
-/
import OLP.Shell.LemmasB
import OLP.Shell.LemmasEx

namespace OLP.Props.C08
open OLP OLP.KV OLP.Shell

set_option linter.unusedSectionVars false

variable {K V C E T H D : Type} [DecidableEq K] [DecidableEq V] [DecidableEq C] [DecidableEq H]
variable (cfg : Cfg K V) (hs : Handlers K V C E T H D) (e : E) (boot : Tree K V → Vol C V)

/-- after a restart Info reports height and hash input of the last completed commit -/
theorem info_after_crash (n : Node K V C T H D) : info (crash boot hs n) = info n := by
  show (n.tree.reopen.version, n.tree.reopen.log.take (savedPrefixLen n.tree.reopen.log)) =
    (n.tree.version, n.tree.log.take (savedPrefixLen n.tree.log))
  rw [(reopen_fields n.tree).2, reopen_log, savedPrefixLen_take, List.take_take, Nat.min_self]

/-- nothing of a block is on disk before Commit: at every point inside a block (after BeginBlock,
    after the k-th DeliverTx, after EndBlock) a crash leads to the same restarted node as a crash
    before the block began -/
theorem crash_midblock_eq_crash_before (n : Node K V C T H D) (txs : List T) (k : Nat) (ended : Bool) :
    crash boot hs (midBlock cfg hs e n txs k ended) = crash boot hs n := by
  have h := midBlock_frame cfg hs e n txs k ended
  exact crash_eq_of hs boot _ _ h.1 h.2.1 h.2.2.2

/-- mempool checks between the calls do not change that -/
theorem crash_after_check_eq (n : Node K V C T H D) (tx : T) :
    crash boot hs (checkTx cfg hs e n tx).1 = crash boot hs n := by
  have h := checkTx_frame cfg hs e n tx
  exact crash_eq_of hs boot _ _ h.1 h.2.2.1 h.2.2.2.2

/-- Info after a crash anywhere inside a block is Info of the previous commit -/
theorem info_after_midblock_crash (n : Node K V C T H D) (txs : List T) (k : Nat) (ended : Bool) :
    info (crash boot hs (midBlock cfg hs e n txs k ended)) = info n := by
  rw [crash_midblock_eq_crash_before, info_after_crash]

/-- replay converges: at a block boundary whose volatile memory is what start-up would compute,
    and with every hook re-aimed, crashing anywhere inside the block and replaying the whole block
    gives exactly the transcript and the consensus state of the uninterrupted execution -/
theorem replay_converges (ha : AllAimed hs) (n : Node K V C T H D) (hb : n.AtBoundary)
    (hv : n.vol = boot n.tree) (txs : List T) (k : Nat) (ended : Bool) :
    let restarted := crash boot hs (midBlock cfg hs e n txs k ended)
    (execBlock cfg hs e restarted txs).2.results = (execBlock cfg hs e n txs).2.results ∧
    (execBlock cfg hs e restarted txs).2.log = (execBlock cfg hs e n txs).2.log ∧
    (execBlock cfg hs e restarted txs).1.consensus = (execBlock cfg hs e n txs).1.consensus := by
  intro restarted
  have hr : restarted = crash boot hs n := crash_midblock_eq_crash_before cfg hs e boot n txs k ended
  have hc := (crash_boundary hs boot n hb hv).2.1
  rw [← hr] at hc
  have h := execBlock_congr cfg hs e ha restarted n hc txs
  exact ⟨congrArg BlockOut.results h.1, congrArg BlockOut.log h.1, h.2⟩

/-- a crash right after a completed block (Commit done, index fed) loses nothing consensus
    depends on, up to the deliver overlay that the next BeginBlock replaces -/
theorem crash_at_boundary (n : Node K V C T H D) (hb : n.AtBoundary) (hv : n.vol = boot n.tree) :
    let c := crash boot hs n
    c.tree = n.tree ∧ c.vol = n.vol ∧ c.idx = n.idx ∧ c.height = n.height :=
  (crash_boundary hs boot n hb hv).2.1

/-- execBlock keeps nodes at a boundary -/
theorem execBlock_at_boundary (n : Node K V C T H D) (hb : n.AtBoundary) (wf : n.tree.WF)
    (txs : List T) : (execBlock cfg hs e n txs).1.AtBoundary :=
  (execBlock_boundary cfg hs e n hb wf txs).1

/-- repeated crashes, at any points, over a whole history: if the application keeps its volatile
    memory derived from the persisted tree at boundaries, a node that crashes (possibly several
    times, `crashes b` gives for block `b` the list of crash points) and replays produces the same
    transcripts as one that never stopped -/
def execBlockWithCrashes (n : Node K V C T H D) (txs : List T) :
    List (Nat × Bool) → Node K V C T H D × BlockOut K V D
  | [] => execBlock cfg hs e n txs
  | (k, ended) :: more =>
    execBlockWithCrashes (crash boot hs (midBlock cfg hs e n txs k ended)) txs more

def execHistoryWithCrashes :
    Node K V C T H D → List (List T × List (Nat × Bool)) → List (BlockOut K V D)
  | _, [] => []
  | n, (txs, cps) :: rest =>
    let r := execBlockWithCrashes cfg hs e boot n txs cps
    r.2 :: execHistoryWithCrashes r.1 rest

theorem history_with_crashes_converges (ha : AllAimed hs) (hd : VolDerived cfg boot hs)
    (n : Node K V C T H D) (hb : n.AtBoundary) (wf : n.tree.WF) (hv : n.vol = boot n.tree)
    (hist : List (List T × List (Nat × Bool))) :
    (execHistoryWithCrashes cfg hs e boot n hist).map (fun o => (o.results, o.log)) =
    (execBlocks cfg hs e n (hist.map (·.1))).2.map (fun o => (o.results, o.log)) := by
  -- one block with crashes, against any node with the same tree, volatile memory, index, height
  have block : ∀ (cps : List (Nat × Bool)) (txs : List T) (m m' : Node K V C T H D),
      m.AtBoundary → m.tree.WF → m.vol = boot m.tree → CEq m m' →
      (execBlockWithCrashes cfg hs e boot m txs cps).2 = (execBlock cfg hs e m' txs).2 ∧
      CEq (execBlockWithCrashes cfg hs e boot m txs cps).1 (execBlock cfg hs e m' txs).1 ∧
      (execBlockWithCrashes cfg hs e boot m txs cps).1.AtBoundary ∧
      (execBlockWithCrashes cfg hs e boot m txs cps).1.tree.WF ∧
      (execBlockWithCrashes cfg hs e boot m txs cps).1.vol =
        boot (execBlockWithCrashes cfg hs e boot m txs cps).1.tree := by
    intro cps
    induction cps with
    | nil =>
      intro txs m m' hb wf hv hc
      have h := execBlock_congr cfg hs e ha m m' hc txs
      have hb' := execBlock_boundary cfg hs e m hb wf txs
      exact ⟨h.1, CEq.of_consensus h.2, hb'.1, hb'.2, hd e m txs hb hv⟩
    | cons cp more ih =>
      intro txs m m' hb wf hv hc
      obtain ⟨k, ended⟩ := cp
      have hr : crash boot hs (midBlock cfg hs e m txs k ended) = crash boot hs m :=
        crash_midblock_eq_crash_before cfg hs e boot m txs k ended
      have hcb := crash_boundary hs boot m hb hv
      simp only [execBlockWithCrashes]
      rw [hr]
      refine ih txs (crash boot hs m) m' hcb.1 ?_ hcb.2.2 ?_
      · rw [hcb.2.1.1]; exact wf
      · exact ⟨hcb.2.1.1.trans hc.1, hcb.2.1.2.1.trans hc.2.1, hcb.2.1.2.2.1.trans hc.2.2.1,
          hcb.2.1.2.2.2.trans hc.2.2.2⟩
  have main : ∀ (hist : List (List T × List (Nat × Bool))) (m m' : Node K V C T H D),
      m.AtBoundary → m.tree.WF → m.vol = boot m.tree → CEq m m' →
      (execHistoryWithCrashes cfg hs e boot m hist).map (fun o => (o.results, o.log)) =
      (execBlocks cfg hs e m' (hist.map (·.1))).2.map (fun o => (o.results, o.log)) := by
    intro hist
    induction hist with
    | nil => intro m m' _ _ _ _; rfl
    | cons b rest ih =>
      intro m m' hb wf hv hc
      obtain ⟨txs, cps⟩ := b
      have h := block cps txs m m' hb wf hv hc
      simp only [execHistoryWithCrashes, List.map_cons, execBlocks]
      rw [h.1, ih _ _ h.2.2.1 h.2.2.2.1 h.2.2.2.2 h.2.1]
  exact main hist n n hb wf hv ⟨rfl, rfl, rfl, rfl⟩

/-! ## Non-vacuity and the shape of a violation (a cache that start-up does not rebuild) -/

def exCfg : Cfg Nat Nat := { tomb := 0, vlen := fun _ => 1, lt := fun a b => decide (a < b) }
def exN : Node Nat Nat Nat Nat Nat Nat :=
  { tree := Tree.empty ⟨1, 0, 0⟩, dlv := Ov.fresh 1000000, chk := Ov.fresh 1000000, vol := fun _ => none,
    idx := [], aim := .check, height := 0, closed := false }

example : exN.AtBoundary ∧ exN.vol = (fun (_ : Tree Nat Nat) => (fun _ => none : Vol Nat Nat)) exN.tree ∧
    (exN.tree : Tree Nat Nat).WF := by
  refine ⟨⟨rfl, rfl, rfl, rfl, rfl⟩, rfl, ?_⟩
  simp [Tree.WF, exN, Tree.empty]

/-- a volatile counter bumped by every delivered transaction and copied into the state, which
    start-up resets to nothing: not `VolDerived`, and a restart changes the next commit log -/
def cacheH : Handlers Nat Nat Nat Unit Nat Nat Nat :=
  { hash := id, validate := fun _ => .ret (), check := fun _ => .ret 0,
    deliver := fun _ => .vget 0 (fun v => .vset 0 (some (v.getD 0 + 1)) (.set 1 (v.getD 0 + 1) (fun _ => .ret 0))),
    fee := fun _ _ => .ret 0, begin := fun _ => [], endb := fun _ => [], gasLimit := 1000000 }

theorem underived_cache_diverges :
    let n1 := (execBlock exCfg cacheH () exN [1]).1
    (execBlock exCfg cacheH () n1 [2]).2.log ≠
    (execBlock exCfg cacheH () (crash (fun _ => (fun _ => none)) cacheH n1) [2]).2.log := by
  dsimp only
  decide

/-! ## Non-vacuity: an application whose volatile memory is genuinely used and derived

  The volatile cell 0 caches the VALUE STORED UNDER KEY 9 of the tree. `crBoot` recomputes it from
  the persisted tree (`t.get 9`). The EndBlock hook of height `h`, aimed at the deliver state, writes
  `h` under key 9 and, if the write was served — it always is: the hook runs on the unmetered view
  of the deliver state — refreshes the cell with `.vset`. The cell is consensus-relevant: the BeginBlock hook
  copies `cell + 100` into key 8 and every ProcessDeliver copies it into key 2 — a stale cell would
  change the commit log (this is what goes wrong in `underived_cache_diverges`, where start-up does
  not rebuild the cell). Validate burns gas and refuses transaction 0; ProcessDeliver reads the
  counter under key 1, adds the transaction to it and fails for transaction 9 after its writes; the
  fee step reads the gas counter; the block gas limit is 10000.

  `VolDerived` is PROVED for these handlers, for every node and every block (`cr_volDerived`): no
  deliver-path program writes key 9 (`cr_avoids9`), so what Commit writes under key 9 is what the
  hook put there. -/

def crH : Handlers Nat Nat Nat Unit Nat Nat Nat :=
  { hash := id,
    validate := fun tx => .burn 5 (if tx = 0 then .fail else .ret ()),
    check := fun _ => .ret 0,
    deliver := fun tx => .get 1 (fun r => match r with
      | .val v => .set 1 (v.getD 0 + tx) (fun _ => .vget 0 (fun c => .set 2 (c.getD 0 + 100) (fun _ =>
          if tx = 9 then .fail else .ret tx)))
      | .errGas => .fail),
    fee := fun _ g0 => .gas (fun g => .ret (g - g0)),
    begin := fun _ => [(true, .vget 0 (fun c => .set 8 (c.getD 0 + 100) (fun _ => .ret ())))],
    endb := fun h => [(true, .set 9 h (fun ok => if ok then .vset 0 (some h) (.ret ()) else .ret ()))],
    gasLimit := 10000 }

def crBoot (t : Tree Nat Nat) : Vol Nat Nat := fun c => if c = 0 then t.get 9 else none

def crN : Node Nat Nat Nat Nat Nat Nat :=
  { tree := Tree.empty ⟨1, 0, 0⟩, dlv := Ov.fresh 10000, chk := Ov.fresh 10000,
    vol := crBoot (Tree.empty ⟨1, 0, 0⟩), idx := [], aim := .check, height := 0, closed := false }

theorem cr_aimed : AllAimed crH := by
  intro h
  constructor
  · intro hk hm
    simp only [crH, List.mem_singleton] at hm
    subst hm
    rfl
  · intro hk hm
    simp only [crH, List.mem_singleton] at hm
    subst hm
    rfl

theorem cr_noVset : DeliverNoVset crH := by
  intro tx
  refine ⟨?_, ?_, fun g => by simp [crH, Prog.NoVset]⟩
  · simp only [crH, Prog.NoVset]
    split <;> simp [Prog.NoVset]
  · simp only [crH, Prog.NoVset]
    intro r
    split
    · intro _ _ _
      split <;> simp [Prog.NoVset]
    · trivial

theorem cr_avoids9 : DeliverAvoids 9 crH := by
  intro tx
  refine ⟨?_, ?_, fun g => by simp [crH, Prog.Avoids]⟩
  · simp only [crH, Prog.Avoids]
    split <;> simp [Prog.Avoids]
  · simp only [crH, Prog.Avoids]
    intro r
    split
    · refine ⟨by decide, fun _ _ => ⟨by decide, fun _ => ?_⟩⟩
      split <;> simp [Prog.Avoids]
    · trivial

theorem cr_volDerived : VolDerived exCfg crBoot crH := by
  intro e n txs hb hv
  obtain ⟨ht, _, _, _⟩ := execBlock_tree exCfg crH e n txs
  -- the node `m` before EndBlock
  have hb0 := beginBlock_frame exCfg crH e n
  have hbv : (beginBlock exCfg crH e n).vol = n.vol :=
    hooks_vol exCfg e _ (by
      intro hk hm
      simp only [crH, List.mem_singleton] at hm
      subst hm
      simp [Prog.NoVset]) _
  have hbk : 9 ∉ akeys (beginBlock exCfg crH e n).dlv.cache :=
    hooks_keyFree exCfg e 9 _ (by
      intro hk hm
      simp only [crH, List.mem_singleton] at hm
      subst hm
      exact ⟨rfl, by simp [Prog.Avoids]⟩) _ rfl (by simp [Ov.fresh, akeys])
  generalize hm : (deliverAll exCfg crH e (beginBlock exCfg crH e n) txs).1 = m at ht
  have mv : m.vol = n.vol := by
    rw [← hm, deliverAll_vol exCfg crH e cr_noVset, hbv]
  have mh : m.height = n.height := by
    rw [← hm]; exact (deliverAll_frame exCfg crH e txs _).2.2.1.trans hb0.2.2.1
  have ms : m.dlv.sess = none := by
    rw [← hm]; exact deliverAll_sess_none exCfg crH e txs _ hb0.2.2.2
  have mk : 9 ∉ akeys m.dlv.cache := by
    rw [← hm]; exact deliverAll_keyFree exCfg crH e 9 cr_avoids9 txs _ hbk
  -- EndBlock: the hook runs unmetered, its write lands in the block cache and the cell is refreshed
  have hend : (endBlock exCfg crH e m).dlv.cache = upsert m.dlv.cache 9 (m.height + 1) ∧
      (endBlock exCfg crH e m).vol = m.vol.set 0 (some (m.height + 1)) := by
    have hc := set_nosess_unmetered exCfg (m.dlv.unmetered m.tree) ms rfl 9 (m.height + 1)
      (by show m.height + 1 ≠ 0; omega)
    simp only [endBlock, crH, List.foldl_cons, List.foldl_nil, runHook, Bool.true_or, if_true, Prog.run]
    rw [hc]
    exact ⟨rfl, rfl⟩
  have hfv : (execBlock exCfg crH e n txs).1.vol = (endBlock exCfg crH e m).vol := by
    rw [← hm]; rfl
  rw [hfv, ht]
  funext c
  unfold crBoot
  have hg : ∀ t : Tree Nat Nat, t.commit.get 9 = t.get 9 := by
    intro t; unfold Tree.get; rw [(commit_fields t).1]
  rw [hg]
  obtain ⟨h1, h2⟩ := hend
  rw [h1, h2, mv, hv, writeInto_get_upsert_new exCfg _ _ 9 _ mk (by show m.height + 1 ≠ 0; omega)]
  unfold Vol.set crBoot
  by_cases hc : c = 0 <;> simp [hc]

theorem crN_boundary : crN.AtBoundary ∧ crN.tree.WF ∧ crN.vol = crBoot crN.tree := by
  refine ⟨⟨rfl, rfl, rfl, rfl, rfl⟩, ?_, rfl⟩
  simp [Tree.WF, crN, Tree.empty]

/-- two blocks; the first is interrupted after its first transaction and again after EndBlock, the
    second after EndBlock and again right after BeginBlock; every time the node restarts from disk
    and replays the block -/
def crHist : List (List Nat × List (Nat × Bool)) :=
  [([5, 9, 0], [(1, false), (3, true)]), ([7, 3], [(2, true), (0, false)])]

/-- `history_with_crashes_converges` applied: all its hypotheses are proved -/
theorem crash_history_instance :
    (execHistoryWithCrashes exCfg crH () crBoot crN crHist).map (fun o => (o.results, o.log)) =
    (execBlocks exCfg crH () crN (crHist.map (·.1))).2.map (fun o => (o.results, o.log)) :=
  history_with_crashes_converges exCfg crH () crBoot cr_aimed cr_volDerived crN crN_boundary.1
    crN_boundary.2.1 crN_boundary.2.2 crHist

/-- `replay_converges` applied to a crash after the second transaction of block 1 -/
theorem replay_instance :
    let restarted := crash crBoot crH (midBlock exCfg crH () crN [5, 9, 0] 2 false)
    (execBlock exCfg crH () restarted [5, 9, 0]).2.results = (execBlock exCfg crH () crN [5, 9, 0]).2.results ∧
    (execBlock exCfg crH () restarted [5, 9, 0]).2.log = (execBlock exCfg crH () crN [5, 9, 0]).2.log ∧
    (execBlock exCfg crH () restarted [5, 9, 0]).1.consensus = (execBlock exCfg crH () crN [5, 9, 0]).1.consensus :=
  replay_converges exCfg crH () crBoot cr_aimed crN crN_boundary.1 crN_boundary.2.2 [5, 9, 0] 2 false

/-- … and what that looks like, recomputed on both sides: the transcripts of the crashed-and-replayed
    run and of the uninterrupted run are the same two concrete blocks (transaction 9 fails after its
    writes, transaction 0 is refused; keys 8 and 2 carry the cached height + 100) -/
theorem crash_history_facts :
    (execHistoryWithCrashes exCfg crH () crBoot crN crHist).map (fun o => (o.results, o.log)) =
      [([⟨true, some 5, 25⟩, ⟨false, none, 27⟩, ⟨false, none, 0⟩],
        [.set 8 100, .set 1 5, .set 2 100, .set 9 1, .save]),
       ([⟨true, some 7, 25⟩, ⟨true, some 3, 27⟩],
        [.set 8 101, .set 1 15, .set 2 101, .set 9 2, .save])] ∧
    (execBlocks exCfg crH () crN [[5, 9, 0], [7, 3]]).2.map (fun o => (o.results, o.log)) =
      [([⟨true, some 5, 25⟩, ⟨false, none, 27⟩, ⟨false, none, 0⟩],
        [.set 8 100, .set 1 5, .set 2 100, .set 9 1, .save]),
       ([⟨true, some 7, 25⟩, ⟨true, some 3, 27⟩],
        [.set 8 101, .set 1 15, .set 2 101, .set 9 2, .save])] := by
  decide +kernel

/-- the final nodes: same tree contents, same write log, same version, same volatile cell -/
theorem crash_history_final_node :
    let c1 := (execBlockWithCrashes exCfg crH () crBoot crN [5, 9, 0] [(1, false), (3, true)]).1
    let c2 := (execBlockWithCrashes exCfg crH () crBoot c1 [7, 3] [(2, true), (0, false)]).1
    let u2 := (execBlocks exCfg crH () crN [[5, 9, 0], [7, 3]]).1
    c2.tree.working = [(8, 101), (1, 15), (2, 101), (9, 2)] ∧ u2.tree.working = c2.tree.working ∧
    c2.tree.log = [.set 8 100, .set 1 5, .set 2 100, .set 9 1, .save,
                   .set 8 101, .set 1 15, .set 2 101, .set 9 2, .save] ∧ u2.tree.log = c2.tree.log ∧
    c2.tree.version = 2 ∧ u2.tree.version = 2 ∧ c2.vol 0 = some 2 ∧ u2.vol 0 = some 2 ∧
    c2.idx = u2.idx := by
  dsimp only
  decide +kernel

/-- the crashes do destroy something. Mid-block (block 1, two transactions delivered) the block
    cache holds three pending writes and 52 units of gas are consumed (25 + 27 by the two
    transactions; the BeginBlock hook's write is charged to nobody): the restart has an empty
    cache. After EndBlock of block 2 the hook has already moved the volatile cell to 2 while the tree
    is still at version 1: the restart recomputes the cell from the tree (1), and this is what makes
    the replayed BeginBlock hook write 101 again, not 102 -/
theorem crash_points_facts :
    let m1 := midBlock exCfg crH () crN [5, 9, 0] 2 false
    let n1 := (execBlock exCfg crH () crN [5, 9, 0]).1
    let m2 := midBlock exCfg crH () n1 [7, 3] 2 true
    m1.dlv.cache = [(8, 100), (1, 5), (2, 100)] ∧ m1.dlv.gas = ⟨10000, 52⟩ ∧
    (crash crBoot crH m1).dlv.cache = [] ∧ (crash crBoot crH m1).dlv.gas = ⟨10000, 0⟩ ∧
    m2.dlv.cache = [(8, 101), (1, 15), (2, 101), (9, 2)] ∧ m2.vol 0 = some 2 ∧
    m2.tree.working = [(8, 100), (1, 5), (2, 100), (9, 1)] ∧
    (crash crBoot crH m2).dlv.cache = [] ∧ (crash crBoot crH m2).vol 0 = some 1 ∧
    (crash crBoot crH m2).tree.working = [(8, 100), (1, 5), (2, 100), (9, 1)] := by
  dsimp only
  decide +kernel

end OLP.Props.C08

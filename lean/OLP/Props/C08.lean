/-
  C08 — Crash-restart equivalence: committed state survives and replay converges.
  `crash boot hs n` = the process dies and is restarted from its on-disk data: only the saved
  versions (and Tendermint's own index) survive, overlays are empty, volatile memory is recomputed
  by the start-up code `boot` from the persisted tree.
-/
import OLP.Shell.LemmasB

namespace OLP.Props.C08
open OLP OLP.KV OLP.Shell

set_option linter.unusedSectionVars false

variable {K V C E T H D : Type} [DecidableEq K] [DecidableEq V] [DecidableEq C] [DecidableEq H]
variable (cfg : Cfg K V) (hs : Handlers K V C E T H D) (e : E) (boot : Tree K V → Vol C V)

/-- after a restart Info reports height and hash input of the last completed commit -/
theorem info_after_crash (n : Node K V C T H D) : info (crash boot hs n) = info n := by
  show (n.tree.reopen.version, n.tree.reopen.log.take (savedPrefixLen n.tree.reopen.log)) =
    (n.tree.version, n.tree.log.take (savedPrefixLen n.tree.log))
  rw [(reopen_fields n.tree).2, reopen_log, savedPrefixLen_take, List.take_take, Nat.min_self]

/-- nothing of a block is on disk before Commit: at every point inside a block (after BeginBlock,
    after the k-th DeliverTx, after EndBlock) a crash leads to the same restarted node as a crash
    before the block began -/
theorem crash_midblock_eq_crash_before (n : Node K V C T H D) (txs : List T) (k : Nat) (ended : Bool) :
    crash boot hs (midBlock cfg hs e n txs k ended) = crash boot hs n := by
  have h := midBlock_frame cfg hs e n txs k ended
  exact crash_eq_of hs boot _ _ h.1 h.2.1 h.2.2.2

/-- mempool checks between the calls do not change that -/
theorem crash_after_check_eq (n : Node K V C T H D) (tx : T) :
    crash boot hs (checkTx cfg hs e n tx).1 = crash boot hs n := by
  have h := checkTx_frame cfg hs e n tx
  exact crash_eq_of hs boot _ _ h.1 h.2.2.1 h.2.2.2.2

/-- Info after a crash anywhere inside a block is Info of the previous commit -/
theorem info_after_midblock_crash (n : Node K V C T H D) (txs : List T) (k : Nat) (ended : Bool) :
    info (crash boot hs (midBlock cfg hs e n txs k ended)) = info n := by
  rw [crash_midblock_eq_crash_before, info_after_crash]

/-- replay converges: at a block boundary whose volatile memory is what start-up would compute,
    and with every hook re-aimed, crashing anywhere inside the block and replaying the whole block
    gives exactly the transcript and the consensus state of the uninterrupted execution -/
theorem replay_converges (ha : AllAimed hs) (n : Node K V C T H D) (hb : n.AtBoundary)
    (hv : n.vol = boot n.tree) (txs : List T) (k : Nat) (ended : Bool) :
    let restarted := crash boot hs (midBlock cfg hs e n txs k ended)
    (execBlock cfg hs e restarted txs).2.results = (execBlock cfg hs e n txs).2.results ∧
    (execBlock cfg hs e restarted txs).2.log = (execBlock cfg hs e n txs).2.log ∧
    (execBlock cfg hs e restarted txs).1.consensus = (execBlock cfg hs e n txs).1.consensus := by
  intro restarted
  have hr : restarted = crash boot hs n := crash_midblock_eq_crash_before cfg hs e boot n txs k ended
  have hc := (crash_boundary hs boot n hb hv).2.1
  rw [← hr] at hc
  have h := execBlock_congr cfg hs e ha restarted n hc txs
  exact ⟨congrArg BlockOut.results h.1, congrArg BlockOut.log h.1, h.2⟩

/-- a crash right after a completed block (Commit done, index fed) loses nothing consensus
    depends on, up to the deliver overlay that the next BeginBlock replaces -/
theorem crash_at_boundary (n : Node K V C T H D) (hb : n.AtBoundary) (hv : n.vol = boot n.tree) :
    let c := crash boot hs n
    c.tree = n.tree ∧ c.vol = n.vol ∧ c.idx = n.idx ∧ c.height = n.height :=
  (crash_boundary hs boot n hb hv).2.1

/-- execBlock keeps nodes at a boundary -/
theorem execBlock_at_boundary (n : Node K V C T H D) (hb : n.AtBoundary) (wf : n.tree.WF)
    (txs : List T) : (execBlock cfg hs e n txs).1.AtBoundary :=
  (execBlock_boundary cfg hs e n hb wf txs).1

/-- repeated crashes, at any points, over a whole history: if the application keeps its volatile
    memory derived from the persisted tree at boundaries, a node that crashes (possibly several
    times, `crashes b` gives for block `b` the list of crash points) and replays produces the same
    transcripts as one that never stopped -/
def execBlockWithCrashes (n : Node K V C T H D) (txs : List T) :
    List (Nat × Bool) → Node K V C T H D × BlockOut K V D
  | [] => execBlock cfg hs e n txs
  | (k, ended) :: more =>
    execBlockWithCrashes (crash boot hs (midBlock cfg hs e n txs k ended)) txs more

def execHistoryWithCrashes :
    Node K V C T H D → List (List T × List (Nat × Bool)) → List (BlockOut K V D)
  | _, [] => []
  | n, (txs, cps) :: rest =>
    let r := execBlockWithCrashes cfg hs e boot n txs cps
    r.2 :: execHistoryWithCrashes r.1 rest

theorem history_with_crashes_converges (ha : AllAimed hs) (hd : VolDerived cfg boot hs)
    (n : Node K V C T H D) (hb : n.AtBoundary) (wf : n.tree.WF) (hv : n.vol = boot n.tree)
    (hist : List (List T × List (Nat × Bool))) :
    (execHistoryWithCrashes cfg hs e boot n hist).map (fun o => (o.results, o.log)) =
    (execBlocks cfg hs e n (hist.map (·.1))).2.map (fun o => (o.results, o.log)) := by
  -- one block with crashes, against any node with the same tree, volatile memory, index, height
  have block : ∀ (cps : List (Nat × Bool)) (txs : List T) (m m' : Node K V C T H D),
      m.AtBoundary → m.tree.WF → m.vol = boot m.tree → CEq m m' →
      (execBlockWithCrashes cfg hs e boot m txs cps).2 = (execBlock cfg hs e m' txs).2 ∧
      CEq (execBlockWithCrashes cfg hs e boot m txs cps).1 (execBlock cfg hs e m' txs).1 ∧
      (execBlockWithCrashes cfg hs e boot m txs cps).1.AtBoundary ∧
      (execBlockWithCrashes cfg hs e boot m txs cps).1.tree.WF ∧
      (execBlockWithCrashes cfg hs e boot m txs cps).1.vol =
        boot (execBlockWithCrashes cfg hs e boot m txs cps).1.tree := by
    intro cps
    induction cps with
    | nil =>
      intro txs m m' hb wf hv hc
      have h := execBlock_congr cfg hs e ha m m' hc txs
      have hb' := execBlock_boundary cfg hs e m hb wf txs
      exact ⟨h.1, CEq.of_consensus h.2, hb'.1, hb'.2, hd e m txs hb hv⟩
    | cons cp more ih =>
      intro txs m m' hb wf hv hc
      obtain ⟨k, ended⟩ := cp
      have hr : crash boot hs (midBlock cfg hs e m txs k ended) = crash boot hs m :=
        crash_midblock_eq_crash_before cfg hs e boot m txs k ended
      have hcb := crash_boundary hs boot m hb hv
      simp only [execBlockWithCrashes]
      rw [hr]
      refine ih txs (crash boot hs m) m' hcb.1 ?_ hcb.2.2 ?_
      · rw [hcb.2.1.1]; exact wf
      · exact ⟨hcb.2.1.1.trans hc.1, hcb.2.1.2.1.trans hc.2.1, hcb.2.1.2.2.1.trans hc.2.2.1,
          hcb.2.1.2.2.2.trans hc.2.2.2⟩
  have main : ∀ (hist : List (List T × List (Nat × Bool))) (m m' : Node K V C T H D),
      m.AtBoundary → m.tree.WF → m.vol = boot m.tree → CEq m m' →
      (execHistoryWithCrashes cfg hs e boot m hist).map (fun o => (o.results, o.log)) =
      (execBlocks cfg hs e m' (hist.map (·.1))).2.map (fun o => (o.results, o.log)) := by
    intro hist
    induction hist with
    | nil => intro m m' _ _ _ _; rfl
    | cons b rest ih =>
      intro m m' hb wf hv hc
      obtain ⟨txs, cps⟩ := b
      have h := block cps txs m m' hb wf hv hc
      simp only [execHistoryWithCrashes, List.map_cons, execBlocks]
      rw [h.1, ih _ _ h.2.2.1 h.2.2.2.1 h.2.2.2.2 h.2.1]
  exact main hist n n hb wf hv ⟨rfl, rfl, rfl, rfl⟩

/-! ## Non-vacuity and the shape of a violation (a cache that start-up does not rebuild) -/

def exCfg : Cfg Nat Nat := { tomb := 0, vlen := fun _ => 1, lt := fun a b => decide (a < b) }
def exN : Node Nat Nat Nat Nat Nat Nat :=
  { tree := Tree.empty ⟨1, 0, 0⟩, dlv := Ov.fresh 1000000, chk := Ov.fresh 1000000, vol := fun _ => none,
    idx := [], aim := .check, height := 0, closed := false }

example : exN.AtBoundary ∧ exN.vol = (fun (_ : Tree Nat Nat) => (fun _ => none : Vol Nat Nat)) exN.tree ∧
    (exN.tree : Tree Nat Nat).WF := by
  refine ⟨⟨rfl, rfl, rfl, rfl, rfl⟩, rfl, ?_⟩
  simp [Tree.WF, exN, Tree.empty]

/-- a volatile counter bumped by every delivered transaction and copied into the state, which
    start-up resets to nothing: not `VolDerived`, and a restart changes the next commit log -/
def cacheH : Handlers Nat Nat Nat Unit Nat Nat Nat :=
  { hash := id, validate := fun _ => .ret (), check := fun _ => .ret 0,
    deliver := fun _ => .vget 0 (fun v => .vset 0 (some (v.getD 0 + 1)) (.set 1 (v.getD 0 + 1) (fun _ => .ret 0))),
    fee := fun _ _ => .ret 0, begin := fun _ => [], endb := fun _ => [], gasLimit := 1000000 }

theorem underived_cache_diverges :
    let n1 := (execBlock exCfg cacheH () exN [1]).1
    (execBlock exCfg cacheH () n1 [2]).2.log ≠
    (execBlock exCfg cacheH () (crash (fun _ => (fun _ => none)) cacheH n1) [2]).2.log := by
  dsimp only
  decide

end OLP.Props.C08

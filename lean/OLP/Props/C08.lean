/-
  C08 — Crash-restart equivalence: committed state survives and replay converges.
  `crash boot hs n` = the process dies and is restarted from its on-disk data: only the saved
  versions (and Tendermint's own index) survive, overlays are empty, volatile memory is recomputed
  by the start-up code `boot` from the persisted tree.
-/
import OLP.Shell.LemmasB

namespace OLP.Props.C08
open OLP OLP.KV OLP.Shell

variable {K V C E T H D : Type} [DecidableEq K] [DecidableEq V] [DecidableEq C] [DecidableEq H]
variable (cfg : Cfg K V) (hs : Handlers K V C E T H D) (e : E) (boot : Tree K V → Vol C V)

/-- after a restart Info reports height and hash input of the last completed commit -/
theorem info_after_crash (n : Node K V C T H D) : info (crash boot hs n) = info n := sorry

/-- nothing of a block is on disk before Commit: at every point inside a block (after BeginBlock,
    after the k-th DeliverTx, after EndBlock) a crash leads to the same restarted node as a crash
    before the block began -/
theorem crash_midblock_eq_crash_before (n : Node K V C T H D) (txs : List T) (k : Nat) (ended : Bool) :
    crash boot hs (midBlock cfg hs e n txs k ended) = crash boot hs n := sorry

/-- mempool checks between the calls do not change that -/
theorem crash_after_check_eq (n : Node K V C T H D) (tx : T) :
    crash boot hs (checkTx cfg hs e n tx).1 = crash boot hs n := sorry

/-- Info after a crash anywhere inside a block is Info of the previous commit -/
theorem info_after_midblock_crash (n : Node K V C T H D) (txs : List T) (k : Nat) (ended : Bool) :
    info (crash boot hs (midBlock cfg hs e n txs k ended)) = info n := sorry

/-- replay converges: at a block boundary whose volatile memory is what start-up would compute,
    and with every hook re-aimed, crashing anywhere inside the block and replaying the whole block
    gives exactly the transcript and the consensus state of the uninterrupted execution -/
theorem replay_converges (ha : AllAimed hs) (n : Node K V C T H D) (hb : n.AtBoundary)
    (hv : n.vol = boot n.tree) (txs : List T) (k : Nat) (ended : Bool) :
    let restarted := crash boot hs (midBlock cfg hs e n txs k ended)
    (execBlock cfg hs e restarted txs).2.results = (execBlock cfg hs e n txs).2.results ∧
    (execBlock cfg hs e restarted txs).2.log = (execBlock cfg hs e n txs).2.log ∧
    (execBlock cfg hs e restarted txs).1.consensus = (execBlock cfg hs e n txs).1.consensus := sorry

/-- a crash right after a completed block (Commit done, index fed) loses nothing consensus
    depends on, up to the deliver overlay that the next BeginBlock replaces -/
theorem crash_at_boundary (n : Node K V C T H D) (hb : n.AtBoundary) (hv : n.vol = boot n.tree) :
    let c := crash boot hs n
    c.tree = n.tree ∧ c.vol = n.vol ∧ c.idx = n.idx ∧ c.height = n.height := sorry

/-- execBlock keeps nodes at a boundary -/
theorem execBlock_at_boundary (n : Node K V C T H D) (hb : n.AtBoundary) (wf : n.tree.WF)
    (txs : List T) : (execBlock cfg hs e n txs).1.AtBoundary := sorry

/-- repeated crashes, at any points, over a whole history: if the application keeps its volatile
    memory derived from the persisted tree at boundaries, a node that crashes (possibly several
    times, `crashes b` gives for block `b` the list of crash points) and replays produces the same
    transcripts as one that never stopped -/
def execBlockWithCrashes (n : Node K V C T H D) (txs : List T) :
    List (Nat × Bool) → Node K V C T H D × BlockOut K V D
  | [] => execBlock cfg hs e n txs
  | (k, ended) :: more =>
    execBlockWithCrashes (crash boot hs (midBlock cfg hs e n txs k ended)) txs more

def execHistoryWithCrashes :
    Node K V C T H D → List (List T × List (Nat × Bool)) → List (BlockOut K V D)
  | _, [] => []
  | n, (txs, cps) :: rest =>
    let r := execBlockWithCrashes cfg hs e boot n txs cps
    r.2 :: execHistoryWithCrashes r.1 rest

theorem history_with_crashes_converges (ha : AllAimed hs) (hd : VolDerived cfg boot hs)
    (n : Node K V C T H D) (hb : n.AtBoundary) (wf : n.tree.WF) (hv : n.vol = boot n.tree)
    (hist : List (List T × List (Nat × Bool))) :
    (execHistoryWithCrashes cfg hs e boot n hist).map (fun o => (o.results, o.log)) =
    (execBlocks cfg hs e n (hist.map (·.1))).2.map (fun o => (o.results, o.log)) := sorry

/-! ## Non-vacuity and the shape of a violation (a cache that start-up does not rebuild) -/

def exCfg : Cfg Nat Nat := { tomb := 0, vlen := fun _ => 1, lt := fun a b => decide (a < b) }
def exN : Node Nat Nat Nat Nat Nat Nat :=
  { tree := Tree.empty ⟨1, 0, 0⟩, dlv := Ov.fresh 1000000, chk := Ov.fresh 1000000, vol := fun _ => none,
    idx := [], aim := .check, height := 0, closed := false }

example : exN.AtBoundary ∧ exN.vol = (fun (_ : Tree Nat Nat) => (fun _ => none : Vol Nat Nat)) exN.tree ∧
    (exN.tree : Tree Nat Nat).WF := sorry

/-- a volatile counter bumped by every delivered transaction and copied into the state, which
    start-up resets to nothing: not `VolDerived`, and a restart changes the next commit log -/
def cacheH : Handlers Nat Nat Nat Unit Nat Nat Nat :=
  { hash := id, validate := fun _ => .ret (), check := fun _ => .ret 0,
    deliver := fun _ => .vget 0 (fun v => .vset 0 (some (v.getD 0 + 1)) (.set 1 (v.getD 0 + 1) (fun _ => .ret 0))),
    fee := fun _ _ => .ret 0, begin := fun _ => [], endb := fun _ => [], gasLimit := 1000000 }

theorem underived_cache_diverges :
    let n1 := (execBlock exCfg cacheH () exN [1]).1
    (execBlock exCfg cacheH () n1 [2]).2.log ≠
    (execBlock exCfg cacheH () (crash (fun _ => (fun _ => none)) cacheH n1) [2]).2.log := sorry

end OLP.Props.C08

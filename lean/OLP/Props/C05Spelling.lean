import OLP.Props.C05

/-!
# C05 — at-most-once down to the spelling of keys and signatures

`replay_any_encoding_noop_guarded` is generic in the type `P` a received byte string is parsed
into. Read with `P` = the JSON value, `Guarded` is the canonical-encoding guard of round 1. The
defects found later (d4987f9, 9dae7fc, d0ea653) were second spellings INSIDE that value: the same
key as uncompressed point, the same signature with a byte after it or as (r, N−s), the same
signature entry under the other key algorithm that accepts the same key bytes. They are the same
theorem read at a coarser `P`: the AUTHORISATION a byte string carries — the signed content (type,
payload, fee, memo) and the addresses that signed it — with `spell` the one byte string the key
handlers accept for an authorisation. This file states that reading explicitly, so that the
assumption the signature layer has to meet is a named hypothesis (`OneSpelling`) and the
counterexample of a layer that does not meet it is a theorem about the same model.
-/

namespace OLP.Props.C05
open OLP OLP.KV OLP.Shell

variable {K V C E T H D : Type} [DecidableEq K] [DecidableEq V] [DecidableEq C] [DecidableEq H]
variable (cfg : Cfg K V) (hs : Handlers K V C E T H D) (e : E)

/-- every authorisation has ONE accepted spelling: a byte string that is not the spelling `spell`
    of the authorisation `auth` it carries is refused by Validate before anything runs -/
def OneSpelling {A : Type} (auth : T → A) (spell : A → T) (hs : Handlers K V C E T H D) : Prop :=
  Guarded auth spell hs

/-- At-most-once for any other spelling of the same authorisation. `t₁` was executed in the block
    `txs` and is the accepted spelling of its authorisation; `t₂` is ANY byte string that carries
    the same authorisation (same signed content, same signing addresses — whatever the encoding of
    the JSON, of the keys, of the signatures, whatever the algorithm tags). Delivered at any point
    of any later block it changes nothing and is answered with the recorded result (if it is `t₁`
    itself) or, being another byte string, with an index hit of its own or a refusal; the mempool
    check refuses it. -/
theorem replay_any_spelling_noop {A : Type} (auth : T → A) (spell : A → T)
    (h1 : OneSpelling auth spell hs) (n : Node K V C T H D) (txs : List T) (later : List (List T))
    (blk : List T) (k : Nat) (t₁ t₂ : T) (hm : t₁ ∈ txs) (hc : spell (auth t₁) = t₁)
    (hp : auth t₂ = auth t₁) :
    let n' := midBlock cfg hs e (execBlocks cfg hs e (execBlock cfg hs e n txs).1 later).1 blk k false
    let x := deliverTx cfg hs e n' t₂
    (x.1.tree = n'.tree ∧ x.1.dlv.cache = n'.dlv.cache ∧ x.1.dlv.gas = n'.dlv.gas ∧
     x.1.vol = n'.vol ∧ x.1.chk = n'.chk ∧ x.1.idx = n'.idx ∧ x.1.height = n'.height) ∧
    ((t₂ = t₁ ∧ ∃ r, lookupIdx (execBlock cfg hs e n txs).1.idx (hs.hash t₁) = some r ∧ x = (n', r)) ∨
     (t₂ ≠ t₁ ∧ ((∃ r, lookupIdx n'.idx (hs.hash t₂) = some r ∧ x = (n', r)) ∨
                 x.2 = { ok := false, data := none, gasUsed := 0 }))) ∧
    (checkTx cfg hs e n' t₂).2 = false :=
  replay_any_encoding_noop_guarded cfg hs e auth spell h1 n txs later blk k t₁ t₂ hm hc hp

/-! ### a signature layer with two spellings does not meet the hypothesis

Byte strings are pairs (authorisation, spelling tag); a handler set that accepts the tags 0 AND 1
(two key algorithms over the same key bytes, as SECP256K1 / BTCEC before d0ea653) is not
`OneSpelling` for any choice of `spell`, and the existing counterexample
`reencoded_replay_executes_twice` is what happens then. -/

/-- a Validate that accepts two tags -/
def twoTagV (t : Nat × Nat) : Prog Nat Nat Nat Unit Unit :=
  if t.2 = 0 ∨ t.2 = 1 then .ret () else .fail

theorem two_spellings_not_one (hs' : Handlers Nat Nat Nat Unit (Nat × Nat) (Nat × Nat) Nat)
    (hv : hs'.validate = twoTagV) (spell : Nat → Nat × Nat) :
    ¬ OneSpelling (fun t : Nat × Nat => t.1) spell hs' := by
  intro h
  -- whichever spelling of authorisation 5 `spell` picks, one of (5,0), (5,1) is another one
  by_cases h0 : spell 5 = (5, 0)
  · have := h (5, 1) (by simp [h0])
    rw [hv] at this; simp [twoTagV] at this
  · have := h (5, 0) (by simpa using h0)
    rw [hv] at this; simp [twoTagV] at this

example : OneSpelling gdParse gdSer gdH := gdH_guarded

end OLP.Props.C05

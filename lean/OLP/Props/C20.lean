/-
  C20 — Domain names: exclusive ownership, owner-only changes, paid transfers, exact expiry.

  Property theorems only (helper lemmas: OLP/Ons/Lemmas.lean).  All statements are about the
  executable model `OLP.Ons` (OLP/Ons/Model.lean), a port of action/ons/*.go which the `ons`
  correspondence engine compares with the real handlers on every DeliverTx of every generated
  history (decoded pre-state + operation -> result class + post-state).

  Vocabulary (Model.lean): `step env s tx` is one DeliverTx (Validate, handler, fee step; a failure
  anywhere leaves the state untouched); `Env.payer` is the address of the key that signed; `run s evs` folds a history of transactions and block commits;
  `St.recs` is the registry a reader — and, since /repo 487c936, every sub-name iteration
  (`IterateSubDomain` → `State.IterateRangeAll`) — sees; `RegInv` says stored names are valid and
  every sub-name carries its parent's owner and expiry; `Auth env s tx n` lists the four
  entitlements to change record `n`.

  All clauses are at full strength: the three former known findings were repaired in /repo
  (KF-C20-3: f3370a9 `blocksFor`; KF-C20-1/2: 487c936, sub-name iterations visit keys written
  earlier in the same block).  Their former counterexamples are kept as regression examples with
  the repaired outcome; their witnesses are the regression scenarios corpus/C20/reg_*.hist.  What
  remains as a hypothesis is only the chain start: `RegInv` of the genesis registry (an empty
  registry has it; a genesis file listing sub-names with another owner / expiry than their parent
  is trusted input).
-/
import OLP.Ons.Lemmas

namespace OLP.Props.C20
open OLP OLP.Ons

/-! ## fixtures for the non-vacuity examples and counterexamples
    (base price 1000, 10 per block, first-level domain "ol"; the same numbers as corpus/C20/*.hist) -/

def opts : Opts := ⟨1000, 10, ["ol"]⟩

/-- block `h`: header height `h`, state version `h - 1`; fee 3 per gas unit, 2 units used; signed
    (validly) by `payer`; currencies OLT (chain and fee currency) and VT -/
def envAt (h : Int) (payer : Addr) : Env :=
  { height := h, version := h - 1, opts := opts, feePrice := 3, fee := .used 2, payer := payer,
    sigValid := true, minFee := 1, olt := "OLT", currencies := ["OLT", "VT"] }

def genesis : St :=
  { St.empty with bals := [(("aa", "OLT"), 100000), (("bb", "OLT"), 100000), (("cc", "OLT"), 100000), (("bb", "VT"), 500)] }

def foo : Name := ["foo", "ol"]
def xfoo : Name := ["x", "foo", "ol"]

/-- aa registers foo.ol for 50 blocks, puts it on sale for 200, creates x.foo.ol (each in its own block) -/
def setup : List Ev :=
  [ .tx (envAt 1 "aa") (.create "aa" "" foo "" true 1500 "OLT"), .commit,
    .tx (envAt 2 "aa") (.sale "aa" foo 200 "OLT" false), .commit,
    .tx (envAt 3 "aa") (.create "aa" "cc" xfoo "" true 1001 "OLT"), .commit ]

def sOnSale : St := run genesis setup

/-! ## 0. Only validated transactions execute (DeliverTx runs `Validate` first) -/

/-- a transaction that executes was signed, validly, by the key whose address is its signer field,
    offers at least the minimum fee price, pays for the name in the chain currency (create, sell,
    purchase, renew) and — except for send — names a well-formed domain -/
theorem executed_tx_is_validated (env : Env) (s s' : St) (tx : Tx) (h : step env s tx = (.ok, s')) :
    env.payer = tx.signer ∧ env.sigValid = true ∧ env.minFee ≤ env.feePrice ∧
    (∀ c, tx.payCur = some c → c = env.olt) ∧
    ((∀ f a c, tx ≠ .send f tx.name a c) → validName tx.name = true) := by
  obtain ⟨hv, _⟩ := step_ok h
  obtain ⟨h1, h2, h3, hk⟩ := validate_ok hv
  exact ⟨h1, h2, h3, validateKind_ok hk⟩

/-- a forged owner field, a bad signature, a payment in another currency, an ill-formed name -/
example : (step (envAt 4 "bb") sOnSale (.update "aa" "bb" foo true "" true)).1 = .fail .vSigner ∧
    (step { envAt 4 "aa" with sigValid := false } sOnSale (.update "aa" "bb" foo true "" true)).1 = .fail .vSignature ∧
    (step (envAt 5 "bb") sOnSale (.purchase "bb" "bb" foo 350 "VT")).1 = .fail .vBadAmount ∧
    (step (envAt 5 "bb") sOnSale (.create "bb" "" ["no_good", "ol"] "" true 1010 "OLT")).1 = .fail .vBadName := by decide
/-- send may use another registered currency -/
example : (step (envAt 5 "bb") sOnSale (.send "bb" xfoo 70 "VT")).1 = .ok ∧
    bal (step (envAt 5 "bb") sOnSale (.send "bb" xfoo 70 "VT")).2.bals ("cc", "VT") = 70 := by decide

/-- hence every change of a record carries a valid signature of the transaction's signer field -/
theorem changes_need_valid_signature (env : Env) (s : St) (tx : Tx) (n : Name)
    (hch : alookup n (step env s tx).2.recs ≠ alookup n s.recs) : env.payer = tx.signer ∧ env.sigValid = true := by
  by_cases hok : (step env s tx).1 = .ok
  · obtain ⟨hv, _⟩ := step_ok (step_ok_intro hok)
    exact ⟨(validate_ok hv).1, (validate_ok hv).2.1⟩
  · rw [step_fail hok] at hch
    exact absurd rfl hch

/-! ## 1. A name has at most one owner -/

/-- the registry never holds two records for one name, whatever the history -/
theorem at_most_one_owner (s0 : St) (h0 : (akeys s0.recs).Nodup) (evs : List Ev) :
    (akeys (run s0 evs).recs).Nodup := nodup_run evs h0

example : (akeys (run genesis setup).recs).Nodup ∧ (run genesis setup).recs.length = 2 :=
  ⟨at_most_one_owner genesis (by decide) setup, by decide⟩

/-- a successful create found the name absent and touched no other record: an existing name
    (expired or not) is never handed out a second time by create -/
theorem create_needs_absent_name (env : Env) (s s' : St) (o b : Addr) (n : Name) (u : String) (uo : Bool)
    (p : Int) (c : Cur) (h : step env s (.create o b n u uo p c) = (.ok, s')) :
    alookup n s.recs = none ∧ (∃ d, alookup n s'.recs = some d ∧ d.owner = o) ∧
    ∀ k, k ≠ n → alookup k s'.recs = alookup k s.recs := by
  obtain ⟨hv, s1, h1, h2⟩ := step_ok h
  obtain ⟨_, _, _, _, hfr⟩ := feeStep_ok h2
  obtain ⟨_, habs, _, _, _, _, d, hrecs, hown, _⟩ := runCreate_ok h1
  refine ⟨habs, ⟨d, by rw [hfr, hrecs, alookup_upsert_self], hown⟩, fun k hk => ?_⟩
  rw [hfr, hrecs, alookup_upsert_ne _ _ _ _ hk]

/-- (the hypothesis `step env s tx = (.ok, s')` of the theorems below is what a successful DeliverTx gives) -/
example : ∃ s', step (envAt 4 "bb") sOnSale (.create "bb" "" ["bar", "ol"] "" true 1010 "OLT") = (.ok, s') :=
  ⟨_, step_ok_intro (by decide)⟩
example : (step (envAt 4 "bb") sOnSale (.create "bb" "" foo "" true 1010 "OLT")).1 = .fail .exists_ := by decide

/-- the start of every chain satisfies the hypotheses (empty registry, any balances) -/
theorem genesis_inv (s0 : St) (h : s0.recs = []) : RegInv s0 ∧ (akeys s0.recs).Nodup := by
  refine ⟨fun n d hd => ?_, ?_⟩
  · rw [h] at hd; cases hd
  · rw [h]; exact List.nodup_nil

/-- in every reachable state — any history of transactions and block commits, any number of
    transactions per block — a sub-name has the owner and the expiry height of its parent (full
    strength since 487c936: purchase deletes, and renew moves, *every* visible sub-name) -/
theorem subs_follow_parent (s0 : St) (h0 : RegInv s0) (evs : List Ev) : RegInv (run s0 evs) := inv_run evs h0

/-- spelled out from a chain start: a sub-name has a parent record with the same owner and the
    same expiry height (it has one owner, and it expires with its parent) -/
theorem sub_expires_with_parent (s0 : St) (h0 : s0.recs = []) (evs : List Ev)
    (n : Name) (d : Domain) (hn : alookup n (run s0 evs).recs = some d) (h3 : 3 ≤ n.length) :
    ∃ p, alookup (parentOf n) (run s0 evs).recs = some p ∧ p.owner = d.owner ∧ p.expire = d.expire :=
  ((inv_run evs (genesis_inv s0 h0).1) n d hn).2 h3

/-- block boundaries do not matter to the registry any more -/
theorem commits_are_invisible (s : St) : (run s [.commit]).recs = s.recs := rfl

example : invB sOnSale = true ∧ sOnSale.recs.length = 2 := by decide
example : RegInv sOnSale := subs_follow_parent genesis (genesis_inv genesis rfl).1 setup

/-- regression for KF-C20-1 (witness = corpus/C20/reg_sub_created_in_block_of_purchase.hist): aa
    creates x.foo.ol and, in the same block, bb buys foo.ol -/
def kf1 : List Ev :=
  [ .tx (envAt 1 "aa") (.create "aa" "" foo "" true 1500 "OLT"), .commit,
    .tx (envAt 2 "aa") (.sale "aa" foo 200 "OLT" false), .commit,
    .tx (envAt 3 "aa") (.create "aa" "" xfoo "" true 1001 "OLT"),
    .tx (envAt 3 "bb") (.purchase "bb" "bb" foo 300 "OLT"), .commit ]

/-- the purchase deletes the sub-name created earlier in the same block (it used to survive,
    still owned by aa); aa can no longer touch it, and bb may create it afresh -/
theorem pending_sub_deleted_by_purchase :
    (alookup foo (run genesis kf1).recs).map (·.owner) = some "bb" ∧
    alookup xfoo (run genesis kf1).recs = none ∧ invB (run genesis kf1) = true ∧
    (step (envAt 4 "aa") (run genesis kf1) (.update "aa" "aa" xfoo true "" true)).1 = .fail .notFound ∧
    (step (envAt 4 "aa") (run genesis kf1) (.create "aa" "" xfoo "" true 1001 "OLT")).1 = .fail .parentNotOwned ∧
    (step (envAt 4 "bb") (run genesis kf1) (.create "bb" "" xfoo "" true 1001 "OLT")).1 = .ok := by decide

/-- regression for KF-C20-2 (witness = corpus/C20/reg_sub_created_in_block_of_renewal.hist): aa
    creates x.foo.ol and, in the same block, renews foo.ol for 3 blocks -/
def kf2 : List Ev :=
  [ .tx (envAt 1 "aa") (.create "aa" "" foo "" true 1500 "OLT"), .commit,
    .tx (envAt 2 "aa") (.create "aa" "" xfoo "" true 1001 "OLT"),
    .tx (envAt 2 "aa") (.renew "aa" foo 30 "OLT"), .commit ]

/-- parent and sub-name now both expire at 53 (the sub-name used to stay at 50) -/
theorem pending_sub_follows_renewal :
    (alookup foo (run genesis kf2).recs).map (·.expire) = some 53 ∧
    (alookup xfoo (run genesis kf2).recs).map (·.expire) = some 53 := by decide

/-! ## 2. Records change only through the owner, or through a purchase -/

/-- a transaction that is not executed successfully changes nothing (registry, balances, pool) -/
theorem failed_tx_changes_nothing (env : Env) (s : St) (tx : Tx) (h : (step env s tx).1 ≠ .ok) :
    (step env s tx).2 = s := step_fail h

example : (step (envAt 4 "bb") sOnSale (.update "bb" "bb" foo true "" true)).1 = .fail .notOwner := by decide

/-- every record that a transaction creates, modifies or deletes — for every state, environment
    and transaction — is covered by one of the four entitlements of `Auth`: signed by the recorded
    owner of the record, signed by the recorded owner of a name above it, first registration of an
    absent non-sub name, or purchase of the name (or the name above it) that is on sale or expired -/
theorem changes_need_owner_or_purchase (env : Env) (s : St) (tx : Tx) (n : Name)
    (hch : alookup n (step env s tx).2.recs ≠ alookup n s.recs) : Auth env s tx n :=
  auth_of_change hch

example : alookup foo (step (envAt 4 "aa") sOnSale (.update "aa" "cc" foo true "" true)).2.recs ≠ alookup foo sOnSale.recs := by
  decide
/-- the stranger's attempts change nothing at all -/
example : (step (envAt 4 "bb") sOnSale (.deleteSub "bb" foo)).2.recs = sOnSale.recs ∧
    (step (envAt 4 "bb") sOnSale (.renew "bb" foo 30 "OLT")).2.recs = sOnSale.recs ∧
    (step (envAt 4 "bb") sOnSale (.sale "bb" foo 200 "OLT" true)).2.recs = sOnSale.recs ∧
    (step (envAt 4 "bb") sOnSale (.create "bb" "" ["y", "foo", "ol"] "" true 1001 "OLT")).2.recs = sOnSale.recs := by decide

/-- every change of a record is signed by the *current owner of the name* (for a sub-name: of its
    parent), or is a first registration, or a purchase of the (root) name that is on sale or
    expired.  `RegInv s` holds in every reachable state (`subs_follow_parent`). -/
theorem changes_need_root_owner (env : Env) (s : St) (hi : RegInv s) (tx : Tx) (n : Name)
    (hch : alookup n (step env s tx).2.recs ≠ alookup n s.recs) :
    (∃ p, alookup (rootOf n) s.recs = some p ∧ p.owner = tx.signer) ∨
    (alookup n s.recs = none ∧ isSub n = false ∧ ∃ b u uo p c, tx = .create tx.signer b n u uo p c) ∨
    (∃ b a o c d, tx = .purchase b a (rootOf n) o c ∧ alookup (rootOf n) s.recs = some d ∧
      (d.onSale = true ∨ d.expire < env.version)) :=
  rootAuth_of_auth hi (auth_of_change hch)

/-- the same, unconditionally, for every state reached from a chain start by any history -/
theorem changes_need_root_owner_reachable (s0 : St) (h0 : s0.recs = []) (evs : List Ev)
    (env : Env) (tx : Tx) (n : Name)
    (hch : alookup n (step env (run s0 evs) tx).2.recs ≠ alookup n (run s0 evs).recs) :
    (∃ p, alookup (rootOf n) (run s0 evs).recs = some p ∧ p.owner = tx.signer) ∨
    (alookup n (run s0 evs).recs = none ∧ isSub n = false ∧ ∃ b u uo p c, tx = .create tx.signer b n u uo p c) ∨
    (∃ b a o c d, tx = .purchase b a (rootOf n) o c ∧ alookup (rootOf n) (run s0 evs).recs = some d ∧
      (d.onSale = true ∨ d.expire < env.version)) :=
  changes_need_root_owner env _ (inv_run evs (genesis_inv s0 h0).1) tx n hch

example : RegInv sOnSale ∧ alookup xfoo (step (envAt 5 "aa") sOnSale (.deleteSub "aa" foo)).2.recs ≠ alookup xfoo sOnSale.recs :=
  ⟨inv_of_invB (by decide), by decide⟩

/-- regression for the consequence of KF-C20-1 (`stale_sub_changed_by_previous_owner`): after `kf1`
    there is no stale sub-name left for the previous owner to change — every record's owner of
    authority is bb -/
example : (run genesis kf1).recs.map (fun p => (p.1, p.2.owner)) = [(foo, "bb")] := by decide

/-- DOMAIN_SEND is a payment to the name's beneficiary in any registered currency `c`: the registry
    is untouched, the sender (who signed) pays amount (+ fee in the chain currency), the beneficiary
    (not the owner) receives the amount -/
theorem send_pays_beneficiary_keeps_registry (env : Env) (s s' : St) (f : Addr) (n : Name) (amt : Int) (c : Cur)
    (h : step env s (.send f n amt c) = (.ok, s')) :
    s'.recs = s.recs ∧ env.payer = f ∧ ∃ d g, alookup n s.recs = some d ∧ env.fee = .used g ∧ 0 ≤ amt ∧
      d.active = true ∧ env.version < d.expire ∧
      s'.pool = s.pool + env.feePrice * g ∧
      ∀ x : Acct, bal s'.bals x = bal s.bals x - (if x = (f, c) then amt else 0) + (if x = (d.benef, c) then amt else 0)
                             - (if x = (env.payer, env.olt) then env.feePrice * g else 0) := by
  obtain ⟨hv, s1, h1, h2⟩ := step_ok h
  obtain ⟨g, hg, hfd, hfp, hfr⟩ := feeStep_ok h2
  obtain ⟨d, b1, hd, hamt, _, hact, _, hdb, hb, hrecs, hpool⟩ := runSend_ok h1
  refine ⟨by rw [hfr, hrecs], (validate_ok hv).1, d, g, hd, hg, hamt, ?_, ?_, by rw [hfp, hpool], fun x => ?_⟩
  · simp [activeAt] at hact; exact hact.1
  · simp [activeAt] at hact; exact hact.2
  · rw [(bal_debit hfd x).1, hb, bal_credit, (bal_debit hdb x).1]

example : (step (envAt 5 "bb") sOnSale (.send "bb" xfoo 70 "OLT")).1 = .ok ∧ bal (step (envAt 5 "bb") sOnSale (.send "bb" xfoo 70 "OLT")).2.bals ("cc", "OLT") = 100070 ∧
    bal (step (envAt 5 "bb") sOnSale (.send "bb" xfoo 70 "OLT")).2.bals ("aa", "OLT") = bal sOnSale.bals ("aa", "OLT") := by decide

/-! ## 3. A purchase pays the previous owner the asking price, or the base price for an expired name -/

/-- only a name that is on sale or expired can be bought; the buyer becomes the owner, the sale
    flag is cleared, and every sub-name of the bought name is deleted -/
theorem purchase_needs_sale_or_expiry (env : Env) (s s' : St) (b a : Addr) (n : Name) (o : Int) (c : Cur)
    (h : step env s (.purchase b a n o c) = (.ok, s')) :
    ∃ d d', alookup n s.recs = some d ∧ (d.onSale = true ∨ d.expire < env.version) ∧ isSub n = false ∧
      alookup n s'.recs = some d' ∧ d'.owner = b ∧ d'.onSale = false ∧ d'.salePrice = none ∧ d'.benef = a ∧
      ∀ k, isSubOf k n = true → alookup k s'.recs = none := by
  obtain ⟨hv, s1, h1, h2⟩ := step_ok h
  obtain ⟨_, _, _, _, hfr⟩ := feeStep_ok h2
  obtain ⟨d, hd, hsub, hfs, _, hbr⟩ := runPurchase_ok h1
  have hrecs : ∃ x, s1.recs = upsert (eraseSel (visSub n) s.recs) n (resetAfterSale d b a x env.version) := by
    rcases hbr with ⟨_, _, _, _, _, _, _, _, _, _, _, hr⟩ | ⟨_, _, _, _, _, _, hr⟩
    · exact ⟨_, hr⟩
    · exact ⟨_, hr⟩
  obtain ⟨x, hrecs⟩ := hrecs
  refine ⟨d, resetAfterSale d b a x env.version, hd, hfs, hsub, by rw [hfr, hrecs, alookup_upsert_self], rfl, rfl, rfl, rfl,
    fun k hk => ?_⟩
  have hk : visSub n k = true := hk
  have hkn : k ≠ n := by
    intro e; subst e
    have := isSubOf_length (visSub_isSubOf hk)
    omega
  rw [hfr, hrecs, alookup_upsert_ne _ _ _ _ hkn, alookup_eraseSel, if_pos hk]

/-- a name on sale (and not expired): the buyer signed, pays in the chain currency, the offer covers
    the asking price, exactly the asking price goes to the previous owner, the buyer pays the whole
    offer (+ fee), the remainder goes to the fee pool.  Stated for every balance record `x`, so
    aliasing (owner buys own name) is covered; no other balance moves. -/
theorem purchase_pays_owner_at_least_price (env : Env) (s s' : St) (b a : Addr) (n : Name) (o : Int) (c : Cur) (d : Domain)
    (h : step env s (.purchase b a n o c) = (.ok, s')) (hd : alookup n s.recs = some d)
    (hsale : d.onSale = true) (hlive : env.version ≤ d.expire) :
    c = env.olt ∧ env.payer = b ∧ env.sigValid = true ∧
    ∃ price g, d.salePrice = some price ∧ price ≤ o ∧ env.fee = .used g ∧
      s'.pool = s.pool + (o - price) + env.feePrice * g ∧
      ∀ x : Acct, bal s'.bals x = bal s.bals x + (if x = (d.owner, env.olt) then price else 0)
                             - (if x = (b, env.olt) then o else 0) - (if x = (b, env.olt) then env.feePrice * g else 0) := by
  obtain ⟨hv, s1, h1, h2⟩ := step_ok h
  obtain ⟨hpay, hsig, _, hk⟩ := validate_ok hv
  have hc : c = env.olt := (validateKind_ok hk).1 c rfl
  have hpay' : env.payer = b := hpay
  subst hc
  obtain ⟨g, hg, hfd, hfp, _⟩ := feeStep_ok h2
  obtain ⟨d0, hd0, _, _, _, hbr⟩ := runPurchase_ok h1
  rw [hd] at hd0; cases hd0
  rcases hbr with ⟨_, _, price, b0, _, hsp, hle, hdb0, hdb2, hpool, _⟩ | ⟨hn, _⟩
  · refine ⟨rfl, hpay', hsig, price, g, hsp, hle, hg, by rw [hfp, hpool], fun x => ?_⟩
    rw [(bal_debit hfd x).1, (bal_debit hdb2 x).1, bal_credit, (bal_debit hdb0 x).1, hpay']
    by_cases hx : x = (b, env.olt) <;> simp [hx] <;> omega
  · exact absurd ⟨hlive, hsale⟩ hn

example : (step (envAt 5 "bb") sOnSale (.purchase "bb" "bb" foo 350 "OLT")).1 = .ok ∧
    bal (step (envAt 5 "bb") sOnSale (.purchase "bb" "bb" foo 350 "OLT")).2.bals ("aa", "OLT") = bal sOnSale.bals ("aa", "OLT") + 200 ∧ bal (step (envAt 5 "bb") sOnSale (.purchase "bb" "bb" foo 350 "OLT")).2.bals ("bb", "OLT") = 100000 - 350 - 6 := by decide
example : (step (envAt 5 "bb") sOnSale (.purchase "bb" "bb" foo 199 "OLT")).1 = .fail .offerTooLow := by decide

/-- an expired name (on sale or not): the buyer signed, pays in the chain currency, the offer
    covers the base price, the whole offer goes to the fee pool, nobody else is paid -/
theorem expired_purchase_pays_base (env : Env) (s s' : St) (b a : Addr) (n : Name) (o : Int) (c : Cur) (d : Domain)
    (h : step env s (.purchase b a n o c) = (.ok, s')) (hd : alookup n s.recs = some d)
    (hexp : d.expire < env.version) :
    c = env.olt ∧ env.payer = b ∧ env.opts.base ≤ o ∧ ∃ g, env.fee = .used g ∧ s'.pool = s.pool + o + env.feePrice * g ∧
      ∀ x : Acct, bal s'.bals x = bal s.bals x - (if x = (b, env.olt) then o else 0)
                             - (if x = (b, env.olt) then env.feePrice * g else 0) := by
  obtain ⟨hv, s1, h1, h2⟩ := step_ok h
  obtain ⟨hpay, _, _, hk⟩ := validate_ok hv
  have hc : c = env.olt := (validateKind_ok hk).1 c rfl
  have hpay' : env.payer = b := hpay
  subst hc
  obtain ⟨g, hg, hfd, hfp, _⟩ := feeStep_ok h2
  obtain ⟨d0, hd0, _, _, _, hbr⟩ := runPurchase_ok h1
  rw [hd] at hd0; cases hd0
  rcases hbr with ⟨hlive, _⟩ | ⟨_, hbase, _, hdb, hpool, _⟩
  · omega
  · refine ⟨rfl, hpay', hbase, g, hg, by rw [hfp, hpool], fun x => ?_⟩
    rw [(bal_debit hfd x).1, (bal_debit hdb x).1, hpay']

/-- foo.ol (expiry 50) seen from block 60: anybody may take it for at least the base price -/
example : (step (envAt 60 "cc") sOnSale (.purchase "cc" "" foo 1040 "OLT")).1 = .ok ∧
    (alookup foo (step (envAt 60 "cc") sOnSale (.purchase "cc" "" foo 1040 "OLT")).2.recs).map (·.owner) = some "cc" ∧ bal (step (envAt 60 "cc") sOnSale (.purchase "cc" "" foo 1040 "OLT")).2.bals ("aa", "OLT") = bal sOnSale.bals ("aa", "OLT") := by decide
example : (step (envAt 60 "cc") sOnSale (.purchase "cc" "" foo 999 "OLT")).1 = .fail .priceTooLow := by decide
/-- neither on sale nor expired: not for sale at any price -/
example : (step (envAt 2 "bb") (run genesis (setup.take 2)) (.purchase "bb" "" foo 999999 "OLT")).1 = .fail .notForSale := by decide

/-! ## 3b. Sale status: listed only by the owner, cleared by every change of ownership -/

/-- for every state and transaction: if an existing record's sale flag, asking price or owner
    differs afterwards, the transaction was either a sell / cancel of that name whose signer field is
    the recorded owner (owner unchanged), or a purchase of that name — and after a purchase (on-sale
    and expired branch alike) the record is off sale, has no asking price and belongs to the buyer -/
theorem sale_state_changes_need_owner_or_purchase (env : Env) (s : St) (tx : Tx) (n : Name) (d d' : Domain)
    (hd : alookup n s.recs = some d) (hd' : alookup n (step env s tx).2.recs = some d')
    (hne : d'.onSale ≠ d.onSale ∨ d'.salePrice ≠ d.salePrice ∨ d'.owner ≠ d.owner) :
    (∃ p cu c, tx = .sale d.owner n p cu c ∧ d'.owner = d.owner) ∨
    (∃ b a o c, tx = .purchase b a n o c ∧ d'.owner = b ∧ d'.onSale = false ∧ d'.salePrice = none) :=
  sale_fields_of_change hd hd' hne

/-- in particular a listing never survives a change of ownership -/
theorem ownership_change_clears_sale (env : Env) (s : St) (tx : Tx) (n : Name) (d d' : Domain)
    (hd : alookup n s.recs = some d) (hd' : alookup n (step env s tx).2.recs = some d') (ho : d'.owner ≠ d.owner) :
    d'.onSale = false ∧ d'.salePrice = none ∧ ∃ b a o c, tx = .purchase b a n o c ∧ d'.owner = b := by
  rcases sale_fields_of_change hd hd' (Or.inr (Or.inr ho)) with ⟨_, _, _, _, h⟩ | ⟨b, a, o, c, htx, hb, h1, h2⟩
  · exact absurd h ho
  · exact ⟨h1, h2, b, a, o, c, htx, hb⟩

/-- a freshly registered name is off sale and unpriced -/
theorem created_record_is_off_sale (env : Env) (s s' : St) (o b : Addr) (n : Name) (u : String) (uo : Bool) (p : Int)
    (c : Cur) (h : step env s (.create o b n u uo p c) = (.ok, s')) :
    ∃ d, alookup n s'.recs = some d ∧ d.onSale = false ∧ d.salePrice = none := by
  obtain ⟨_, s1, h1, h2⟩ := step_ok h
  obtain ⟨_, _, _, _, hfr⟩ := feeStep_ok h2
  obtain ⟨d, hrecs, h3, h4⟩ := runCreate_offSale h1
  exact ⟨d, by rw [hfr, hrecs, alookup_upsert_self], h3, h4⟩

/-- the scenario of corpus/C20/reg_listing_expires_then_bought.hist: foo.ol (asking 200) expires
    while listed, cc buys it as an expired name, bb then offers the old asking price -/
def listedExpired : St := (step (envAt 60 "cc") sOnSale (.purchase "cc" "" foo 1040 "OLT")).2

example : (alookup foo sOnSale.recs).map (fun d => (d.onSale, d.salePrice, d.owner)) = some (true, some 200, "aa") ∧
    (alookup foo listedExpired.recs).map (fun d => (d.onSale, d.salePrice, d.owner)) = some (false, none, "cc") ∧
    (step (envAt 61 "bb") listedExpired (.purchase "bb" "bb" foo 200 "OLT")).1 = .fail .notForSale := by decide

/-! ## 4. Expiry is set / extended by exactly the blocks the payment buys -/

/-- the value is an int64 -/
def InInt64 (x : Int) : Prop := minInt64 ≤ x ∧ x ≤ maxInt64

/-
  Full strength since /repo f3370a9 (KF-C20-3 repaired): the block count goes through `blocksFor`,
  which refuses ("Buying price too high", no state change) a quotient that — added to the height it
  extends — does not fit an int64.  So a transaction either executes with the exact expiry below,
  or is refused; nothing wraps (`overlong_payment_is_refused`).
-/

/-- create of a non-sub name: expiry = state version + (price − base) / perBlock, exactly -/
theorem expiry_exact_create (env : Env) (s s' : St) (o b : Addr) (n : Name) (u : String) (uo : Bool) (p : Int) (c : Cur)
    (h : step env s (.create o b n u uo p c) = (.ok, s')) (hns : isSub n = false) :
    ∃ d, alookup n s'.recs = some d ∧
      d.expire = env.version + (p - env.opts.base) / env.opts.perBlock ∧ env.opts.base < p ∧ InInt64 d.expire := by
  obtain ⟨hv, s1, h1, h2⟩ := step_ok h
  obtain ⟨_, _, _, _, hfr⟩ := feeStep_ok h2
  obtain ⟨hp, _, _, _, _, _, d, hrecs, _, _, _, hexp⟩ := runCreate_ok h1
  simp only [hns, Bool.false_eq_true, if_false] at hexp
  obtain ⟨_, q, hq, he⟩ := hexp
  obtain ⟨hq1, _, hq3, hq4⟩ := blocksFor_some hq
  refine ⟨d, by rw [hfr, hrecs, alookup_upsert_self], by rw [he, hq1], hp, ?_⟩
  rw [he]; exact ⟨hq4, hq3⟩

example : (step (envAt 7 "bb") genesis (.create "bb" "" foo "" true 1059 "OLT")).1 = .ok ∧
    (alookup foo (step (envAt 7 "bb") genesis (.create "bb" "" foo "" true 1059 "OLT")).2.recs).map (·.expire) = some (6 + 5) := by decide

/-- a sub-name is created with its parent's expiry height, whatever is paid above the base price,
    and only by the parent's owner -/
theorem sub_created_with_parent_expiry (env : Env) (s s' : St) (o b : Addr) (n : Name) (u : String) (uo : Bool) (p : Int) (c : Cur)
    (h : step env s (.create o b n u uo p c) = (.ok, s')) (hsub : isSub n = true) :
    ∃ d par, alookup n s'.recs = some d ∧ alookup (parentOf n) s.recs = some par ∧ par.owner = o ∧
      d.owner = o ∧ d.expire = par.expire := by
  obtain ⟨hv, s1, h1, h2⟩ := step_ok h
  obtain ⟨_, _, _, _, hfr⟩ := feeStep_ok h2
  obtain ⟨_, _, _, _, _, _, d, hrecs, hown, _, _, hexp⟩ := runCreate_ok h1
  simp only [hsub, if_true] at hexp
  obtain ⟨par, hpar, hpo, hpe⟩ := hexp
  exact ⟨d, par, by rw [hfr, hrecs, alookup_upsert_self], hpar, hpo, hown, hpe⟩

example : (alookup xfoo sOnSale.recs).map (·.expire) = some 50 ∧ (alookup foo sOnSale.recs).map (·.expire) = some 50 := by decide

/-- renew: expiry += price / perBlock exactly, only by the owner, only before expiry; every
    sub-name moves with it (also one created earlier in the same block) -/
theorem expiry_exact_renew (env : Env) (s s' : St) (o : Addr) (n : Name) (p : Int) (c : Cur)
    (h : step env s (.renew o n p c) = (.ok, s')) :
    ∃ d d', alookup n s.recs = some d ∧ d.owner = o ∧ env.version ≤ d.expire ∧ alookup n s'.recs = some d' ∧
      d'.owner = o ∧ d'.expire = d.expire + p / env.opts.perBlock ∧ InInt64 d'.expire ∧
      ∀ k dk, isSubOf k n = true → alookup k s'.recs = some dk → dk.expire = d'.expire := by
  obtain ⟨hv, s1, h1, h2⟩ := step_ok h
  obtain ⟨_, _, _, _, hfr⟩ := feeStep_ok h2
  obtain ⟨d, hd, hown, _, _, _, hexp, _, _, q, hq, hrecs⟩ := runRenew_ok h1
  obtain ⟨hq1, _, hq3, hq4⟩ := blocksFor_some hq
  have hnn : visSub n n = false := by simp [visSub, isSubOf_irrefl]
  have hl : alookup n s'.recs = some { d with expire := d.expire + q, lastUpdate := env.height } := by
    rw [hfr, hrecs, alookup_mapSel, alookup_upsert_self]
    simp [hnn]
  refine ⟨d, _, hd, hown, ?_, hl, hown, by simp only [hq1], ⟨hq4, hq3⟩, fun k dk hk hdk => ?_⟩
  · simp [expiredAt] at hexp; exact hexp
  · have hk : visSub n k = true := hk
    rw [hfr, hrecs, alookup_mapSel] at hdk
    cases hu : alookup k (upsert s.recs n { d with expire := d.expire + q, lastUpdate := env.height }) with
    | none => rw [hu] at hdk; cases hdk
    | some x =>
      rw [hu] at hdk
      simp only [Option.map_some, hk, if_true, Option.some.injEq] at hdk
      rw [← hdk]

example : (step (envAt 9 "aa") sOnSale (.renew "aa" foo 45 "OLT")).1 = .ok ∧
    (alookup foo (step (envAt 9 "aa") sOnSale (.renew "aa" foo 45 "OLT")).2.recs).map (·.expire) = some 54 ∧
    (alookup xfoo (step (envAt 9 "aa") sOnSale (.renew "aa" foo 45 "OLT")).2.recs).map (·.expire) = some 54 := by decide
example : (step (envAt 60 "aa") sOnSale (.renew "aa" foo 45 "OLT")).1 = .fail .expired := by decide

/-- purchase of a name on sale: expiry = old expiry + (offer − asking price) / perBlock, exactly -/
theorem expiry_exact_purchase_on_sale (env : Env) (s s' : St) (b a : Addr) (n : Name) (o : Int) (c : Cur) (d : Domain)
    (price : Int) (h : step env s (.purchase b a n o c) = (.ok, s')) (hd : alookup n s.recs = some d)
    (hsale : d.onSale = true) (hlive : env.version ≤ d.expire) (hp : d.salePrice = some price) :
    ∃ d', alookup n s'.recs = some d' ∧ d'.expire = d.expire + (o - price) / env.opts.perBlock ∧ InInt64 d'.expire := by
  obtain ⟨hv, s1, h1, h2⟩ := step_ok h
  obtain ⟨_, _, _, _, hfr⟩ := feeStep_ok h2
  obtain ⟨d0, hd0, _, _, _, hbr⟩ := runPurchase_ok h1
  rw [hd] at hd0; cases hd0
  rcases hbr with ⟨_, _, price', b0, q, hsp, _, _, _, _, hq, hrecs⟩ | ⟨hn, _⟩
  · rw [hp] at hsp; cases hsp
    obtain ⟨hq1, _, hq3, hq4⟩ := blocksFor_some hq
    have hmax : (if env.version < d.expire then d.expire else env.version) = d.expire := by
      split <;> omega
    have he : (resetAfterSale d b a q env.version).expire = d.expire + q := by
      simp only [resetAfterSale, hmax]
    refine ⟨_, by rw [hfr, hrecs, alookup_upsert_self], by rw [he, hq1], ?_⟩
    rw [he]; exact ⟨hq4, hq3⟩
  · exact absurd ⟨hlive, hsale⟩ hn

example : (step (envAt 5 "bb") sOnSale (.purchase "bb" "bb" foo 350 "OLT")).1 = .ok ∧
    (alookup foo (step (envAt 5 "bb") sOnSale (.purchase "bb" "bb" foo 350 "OLT")).2.recs).map (·.expire) = some (50 + 15) := by decide

/-- purchase of an expired name: expiry = version + (offer − base) / perBlock, exactly -/
theorem expiry_exact_purchase_expired (env : Env) (s s' : St) (b a : Addr) (n : Name) (o : Int) (c : Cur) (d : Domain)
    (h : step env s (.purchase b a n o c) = (.ok, s')) (hd : alookup n s.recs = some d)
    (hexp : d.expire < env.version) :
    ∃ d', alookup n s'.recs = some d' ∧ d'.expire = env.version + (o - env.opts.base) / env.opts.perBlock ∧ InInt64 d'.expire := by
  obtain ⟨hv, s1, h1, h2⟩ := step_ok h
  obtain ⟨_, _, _, _, hfr⟩ := feeStep_ok h2
  obtain ⟨d0, hd0, _, _, _, hbr⟩ := runPurchase_ok h1
  rw [hd] at hd0; cases hd0
  rcases hbr with ⟨hlive, _⟩ | ⟨_, _, q, _, _, hq, hrecs⟩
  · omega
  · obtain ⟨hq1, _, hq3, hq4⟩ := blocksFor_some hq
    have hlt : ¬ env.version < d.expire := by omega
    have he : (resetAfterSale d b a q env.version).expire = env.version + q := by
      simp only [resetAfterSale, hlt, if_false]
    refine ⟨_, by rw [hfr, hrecs, alookup_upsert_self], by rw [he, hq1], ?_⟩
    rw [he]; exact ⟨hq4, hq3⟩

example : (step (envAt 60 "cc") sOnSale (.purchase "cc" "" foo 1040 "OLT")).1 = .ok ∧
    (alookup foo (step (envAt 60 "cc") sOnSale (.purchase "cc" "" foo 1040 "OLT")).2.recs).map (·.expire) = some (59 + 4) := by decide

/-- every expiry height the handlers write is an int64 reached without wrapping: in every state
    reached by any transaction, a record whose expiry changed carries an in-range value — shown
    above per kind; conversely a payment that would buy more is refused and changes nothing.
    Regression for KF-C20-3 (witness = corpus/C20/reg_expiry_would_wrap_int64.hist): with
    perBlockFees = 1 a payment of 10^19 above the base price used to be registered with expiry
    −8446744073709551616 -/
theorem overlong_payment_is_refused :
    let env : Env := { envAt 1 "aa" with opts := ⟨1000, 1, ["ol"]⟩ }
    let s : St := { St.empty with bals := [(("aa", "OLT"), 20000000000000000000000)] }
    (step env s (.create "aa" "" foo "" true 10000000000000001000 "OLT")).1 = .fail .priceTooHigh ∧
    (step env s (.create "aa" "" foo "" true 10000000000000001000 "OLT")).2.recs = [] ∧
    bal (step env s (.create "aa" "" foo "" true 10000000000000001000 "OLT")).2.bals ("aa", "OLT") = 20000000000000000000000 ∧
    (step env s (.create "aa" "" foo "" true 9223372036854776806 "OLT")).1 = .ok ∧
    (step env s (.create "aa" "" foo "" true 9223372036854776807 "OLT")).1 = .ok ∧
    (step env s (.create "aa" "" foo "" true 9223372036854776808 "OLT")).1 = .fail .priceTooHigh := by decide

end OLP.Props.C20

/-
  C02 — obligation over the REGENERATED fact tables (tie T3): the coin arithmetic, balance-store,
  fee-step and transfer functions that OLP/Ledger/Model.lean ports are unchanged.
-/
import OLP.Shell.Expect

namespace OLP.Props.C02.Facts
open OLP.Expect

theorem ledger_leaves_source_pinned :
    pinnedOf OLP.Gen.pinned (pinnedLedger.map (fun r => r.fn)) = pinnedLedger := by decide

end OLP.Props.C02.Facts

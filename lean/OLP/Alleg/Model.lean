/-
  Layer D — allegations (C19): requests, votes, the block-end tally, freezing, release, the
  staking guards and the election pass that drops frozen validators.

  A statement-by-statement port of
    action/evidence/allegation.go   runAllegationTransaction
    action/evidence/vote.go         runAllegationVoteTransaction
    action/evidence/release.go      runReleaseTransaction
    data/evidence/store.go          PerformAllegation, Vote, HandleRelease, IsFrozenValidator,
                                    CheckRequestExists (IterateRangeAll: all visible requests)
    data/evidence/allegation.go     CleanTracker
    data/evidence/history.go        IsFrozen, ReleaseReady
    data/evidence/status.go         IsActiveValidator
    identity/validator_set_allegation.go  CheckMaliciousValidators, ExecuteAllegationTracker
    identity/validator_set.go       the election loop of GetEndBlockUpdate (status records,
                                    active count; the heap order is an input — it belongs to C10)
    data/delegation/store.go        AddToAddress, MinusFromAddress (not atomic), Withdraw
    action/staking/{stake,unstake,withdraw}.go   the IsFrozenValidator / CheckRequestExists guards

  The model is written against decoded records (addresses and request ids are the lower-case
  hex strings of their bytes, so `String` order is the byte order Go sorts by).  The thresholds
  of the tally are integer arithmetic (since 1d3139c); the one remaining floating-point
  expression, the `big.Float` penalty, is a PARAMETER (`FloatOps`); `exactOps` is its
  exact-rational reading, and the theorem that needs it says so (`Exact F`).
  Block times are whole seconds UTC, so `AddDate(0,0,d)` is `+ 86400·d`.
  Core-only (linked into the driver).
-/
import OLP.Base.Assoc

namespace OLP.Alleg

abbrev Addr := String
abbrev ReqId := String

/-- `evidence.AllegationVote` (YES = 1, NO = 2) -/
structure Vote where
  addr : Addr
  choice : Int
  deriving DecidableEq, Repr

/-- `evidence.AllegationRequest` without id (the key) and proof text; status VOTING = 1,
    INNOCENT = 2, GUILTY = 3 -/
structure Request where
  reporter : Addr
  accused : Addr
  height : Int
  status : Int
  votes : List Vote
  deriving DecidableEq, Repr

/-- `evidence.LastValidatorHistory`; status MISSED_REQUIRED_VOTES = 1, BYZANTINE_FAULT = 2 -/
structure Susp where
  status : Int
  frozenHeight : Int
  frozenAt : Int
  releaseHeight : Int
  releaseAt : Option Int
  deriving DecidableEq, Repr

/-- `evidence.ValidatorStatus` -/
structure VStat where
  active : Bool
  height : Int
  deriving DecidableEq, Repr

/-- the part of `identity.Validator` the tally reads (record of the PREVIOUS version) -/
structure ValRec where
  stakeAddr : Addr
  power : Int
  deriving DecidableEq, Repr

/-- `evidence.Options` -/
structure Opts where
  minVotesRequired : Int
  blockVotesDiff : Int
  penBasePct : Int
  penBaseDec : Int
  bountyPct : Int
  bountyDec : Int
  releaseDays : Int
  votePct : Int
  voteDec : Int
  allegPct : Int
  allegDec : Int
  deriving DecidableEq, Repr

structure State where
  /-- `es__ark_<id>` -/
  reqs : List (ReqId × Request)
  /-- `es__atark`: keys of the `Requests` map -/
  tracker : List ReqId
  /-- `es__ssvk_<addr>` -/
  susp : List (Addr × Susp)
  /-- `es__vss_<addr>` -/
  vstat : List (Addr × VStat)
  /-- `st__t_<validator>` -/
  total : List (Addr × Int)
  /-- `st__e_<validator>_<delegator>` -/
  vd : List ((Addr × Addr) × Int)
  /-- `st__d_e_<delegator>` -/
  de : List (Addr × Int)
  /-- `st__d_b_<delegator>` (matured, withdrawable) -/
  db : List (Addr × Int)
  /-- balance of the bounty program address, smallest unit -/
  bounty : Int
  /-- `purged_unstake_<height><validator>`: delayed power updates -/
  delayed : List ((Int × Addr) × Int)
  deriving DecidableEq, Repr

def State.empty : State := ⟨[], [], [], [], [], [], [], [], 0, []⟩

/-- stored amounts read as 0 when absent (`DelegationStore.Get`) -/
def getI {K : Type} [DecidableEq K] (l : List (K × Int)) (k : K) : Int := (alookup k l).getD 0

/-! ## frozen / active -/

/-- `LastValidatorHistory.IsFrozen` -/
def isFrozenRec (s : Susp) : Bool :=
  match s.releaseAt with
  | none => true
  | some r => !decide (r > s.frozenAt)

/-- `EvidenceStore.IsFrozenValidator` -/
def isFrozen (st : State) (a : Addr) : Bool :=
  match alookup a st.susp with
  | none => false
  | some s => isFrozenRec s

/-- `EvidenceStore.IsActiveValidator`, on the status records -/
def isActiveIn (vs : List (Addr × VStat)) (a : Addr) : Bool :=
  match alookup a vs with
  | none => false
  | some v => v.active

def isActive (st : State) (a : Addr) : Bool := isActiveIn st.vstat a

/-- `EvidenceStore.CheckRequestExists`: `IterateRequests` goes through `State.IterateRangeAll`
    (d2f2af2) and visits every request `Get` would find, also those opened earlier in the same
    block.  (The other store iterations of this subsystem — suspicious validators, validator
    statuses, validator records — still walk committed keys only.) -/
def requestExists (st : State) (acc : Addr) : Bool :=
  st.reqs.any fun p => p.2.accused == acc

/-! ## sorting (Go: `sort.Strings`, `sort.Slice` by address bytes) -/

def leS (a b : String) : Bool := decide (a ≤ b)
def sortIds (l : List ReqId) : List ReqId := l.mergeSort leS
def sortVotes (l : List Vote) : List Vote := l.mergeSort fun a b => leS a.addr b.addr

/-! ## CleanTracker -/

/-- the loop of `CleanTracker`: ids in sorted order; a missing request is skipped; the second and
    later requests against one address are deleted from the store -/
def cleanLoop : List ReqId → List Addr → List (ReqId × Request) → List (ReqId × Request)
  | [], _, reqs => reqs
  | r :: rs, seen, reqs =>
    match alookup r reqs with
    | none => cleanLoop rs seen reqs
    | some ar =>
      if seen.contains ar.accused then cleanLoop rs seen (aerase reqs r)
      else cleanLoop rs (ar.accused :: seen) reqs

/-- `CleanTracker`: the tracker keys, sorted; `order` is the order the Go map range produced them
    (a permutation of the tracker). The local copy of the tracker is never saved, so the only
    effect is the deletion of requests. -/
def cleanTrackerWith (order : List ReqId) (st : State) : State :=
  { st with reqs := cleanLoop (sortIds order) [] st.reqs }

def cleanTracker (st : State) : State := cleanTrackerWith st.tracker st

/-! ## results -/

inductive Res where
  | ok | rejected
  | invalidHeight | frozen | nonActive | selfAccused | idBusy | exists
  | voteNotFound | badChoice | closed | dupVote
  | suspNotFound | alreadyReleased | tooEarly | notReady | unsupported
  | openRequest | insufficient
  deriving DecidableEq, Repr

/-! ## ALLEGATION -/

/-- `PerformAllegation` -/
def performAllegation (st : State) (rep acc : Addr) (id : ReqId) (bh : Int) : Res × State :=
  if (alookup id st.reqs).isSome then (.idBusy, st)
  else if requestExists st acc then (.exists, st)
  else
    let st1 := { st with reqs := upsert st.reqs id ⟨rep, acc, bh, 1, []⟩ }
    let at' := if st1.tracker.contains id then st1.tracker else st1.tracker ++ [id]
    let st2 := cleanTracker st1
    (.ok, { st2 with tracker := at' })

/-- `runAllegationTransaction` -/
def runAllege (st : State) (h : Int) (rep acc : Addr) (id : ReqId) (bh : Int) : Res × State :=
  if bh > h then (.invalidHeight, st)
  else if isFrozen st acc then (.frozen, st)
  else if !isActive st rep then (.nonActive, st)
  else if rep == acc then (.selfAccused, st)
  else performAllegation st rep acc id bh

/-- a whole transaction: `Validate` (signature; `sig`), handler, fee step (`fee`: the signer has a
    validator record whose stake account can pay); any failure discards the session -/
def withAdmission (st : State) (sig fee : Bool) (r : Res × State) : Res × State :=
  if !sig then (.rejected, st)
  else match r with
    | (.ok, st') => if fee then (.ok, st') else (.rejected, st)
    | (e, _) => (e, st)

def txAllege (st : State) (h : Int) (rep acc : Addr) (id : ReqId) (bh : Int) (sig fee : Bool) : Res × State :=
  withAdmission st sig fee (runAllege st h rep acc id bh)

/-! ## ALLEGATION_VOTE -/

/-- `EvidenceStore.Vote` -/
def castVote (st : State) (id : ReqId) (voter : Addr) (choice : Int) : Res × State :=
  match alookup id st.reqs with
  | none => (.voteNotFound, st)
  | some ar =>
    if choice ≠ 1 ∧ choice ≠ 2 then (.badChoice, st)
    else if ar.status = 3 ∨ ar.status = 2 then (.closed, st)
    else if ar.votes.any (fun v => v.addr == voter) then (.dupVote, st)
    else (.ok, { st with reqs := upsert st.reqs id { ar with votes := sortVotes (ar.votes ++ [⟨voter, choice⟩]) } })

/-- `runAllegationVoteTransaction` -/
def runVote (st : State) (id : ReqId) (voter : Addr) (choice : Int) : Res × State :=
  if isFrozen st voter then (.frozen, st)
  else if !isActive st voter then (.nonActive, st)
  else castVote st id voter choice

def txVote (st : State) (id : ReqId) (voter : Addr) (choice : Int) (sig fee : Bool) : Res × State :=
  withAdmission st sig fee (runVote st id voter choice)

/-! ## RELEASE -/

/-- `LastValidatorHistory.ReleaseReady`: `none` = the "Unsupported status" error -/
def releaseReady (days : Int) (s : Susp) (now : Int) : Res :=
  if s.status = 1 then .ok
  else if s.status = 2 then
    if ¬ now > s.frozenAt + 86400 * days then .tooEarly else .ok
  else .unsupported

/-- `EvidenceStore.HandleRelease` -/
def handleRelease (st : State) (days : Int) (val : Addr) (h now : Int) : Res × State :=
  match alookup val st.susp with
  | none => (.suspNotFound, st)
  | some s =>
    if !isFrozenRec s then (.alreadyReleased, st)
    else match releaseReady days s now with
      | .ok => (.ok, { st with susp := upsert st.susp val { s with releaseHeight := h, releaseAt := some now } })
      | e => (e, st)

def txRelease (st : State) (days : Int) (val : Addr) (h now : Int) (sig fee : Bool) : Res × State :=
  withAdmission st sig fee (handleRelease st days val h now)

/-! ## the staking handlers: guards and the delegation-store part -/

/-- `DelegationStore.AddToAddress` -/
def addToAddress (st : State) (val deleg : Addr) (c : Int) : State :=
  { st with total := upsert st.total val (getI st.total val + c),
            vd := upsert st.vd (val, deleg) (getI st.vd (val, deleg) + c),
            de := upsert st.de deleg (getI st.de deleg + c) }

/-- `DelegationStore.MinusFromAddress` (7abde80): the three amounts are checked (`Amount.Minus`
    fails on a negative result) before the first of them is written; `false` = an error was
    returned and nothing was written -/
def minusFromAddress (st : State) (val deleg : Addr) (c : Int) : State × Bool :=
  let t := getI st.total val
  let e := getI st.vd (val, deleg)
  let d := getI st.de deleg
  if t - c < 0 then (st, false)
  else if e - c < 0 then (st, false)
  else if d - c < 0 then (st, false)
  else ({ st with total := upsert st.total val (t - c),
                  vd := upsert st.vd (val, deleg) (e - c),
                  de := upsert st.de deleg (d - c) }, true)

/-- STAKE: `IsFrozenValidator(ValidatorAddress)` guard, then the delegation record
    (balance debit and validator record: C11) -/
def runStake (st : State) (val stakeAddr : Addr) (amt : Int) : Res × State :=
  if isFrozen st val then (.frozen, st) else (.ok, addToAddress st val stakeAddr amt)

/-- UNSTAKE: frozen guard, open-request guard, then the delegation record (inside a transaction
    session: an error discards the partial writes) -/
def runUnstake (st : State) (val stakeAddr : Addr) (amt : Int) : Res × State :=
  if isFrozen st val then (.frozen, st)
  else if requestExists st val then (.openRequest, st)
  else match minusFromAddress st val stakeAddr amt with
    | (st', true) => (.ok, st')
    | (_, false) => (.insufficient, st)

/-- the second guard of WITHDRAW (df2e1ab, 92417eb): `ctx.Validators.Iterate` walks the validator
    records (keys of the committed tree, CURRENT values: `vals`, they belong to C11) and asks
    `IsFrozenValidator` — which reads through the block cache — for each record whose stake
    address is the one the money would leave -/
def frozenOwner (st : State) (vals : List (Addr × ValRec)) (stakeAddr : Addr) : Bool :=
  vals.any fun p => p.2.stakeAddr == stakeAddr && isFrozen st p.1

/-- WITHDRAW: frozen guard on the `ValidatorAddress` field, frozen guard on the owner of the
    `StakeAddress`, then the amount comes out of the bounded stake of the `StakeAddress` -/
def runWithdraw (st : State) (vals : List (Addr × ValRec)) (val stakeAddr : Addr) (amt : Int) : Res × State :=
  if isFrozen st val then (.frozen, st)
  else if frozenOwner st vals stakeAddr then (.frozen, st)
  else
    let b := getI st.db stakeAddr
    if b - amt < 0 then (.insufficient, st)
    else (.ok, { st with db := upsert st.db stakeAddr (b - amt) })

/-- what the correspondence compares for the three staking kinds: the guards only -/
def stakingGuard (st : State) (vals : List (Addr × ValRec)) (kind : String) (val stakeAddr : Addr) : Res :=
  if isFrozen st val then .frozen
  else if kind == "unstake" && requestExists st val then .openRequest
  else if kind == "withdraw" && frozenOwner st vals stakeAddr then .frozen
  else .ok

/-! ## BeginBlock: CheckMaliciousValidators -/

def frozenSet (susp : List (Addr × Susp)) : List Addr :=
  (susp.filter fun p => isFrozenRec p.2).map (·.1)

/-- one address of the cumulative-vote map; an address that is already frozen (it is in the
    `maliciousValidators` map, loaded first) is not recorded again (73dca0f) -/
def beginStep (o : Opts) (h now : Int) (prev : List (Addr × ValRec)) (st : State) (p : Addr × Int) : State :=
  if p.2 < o.minVotesRequired then
    if isFrozen st p.1 then st
    else
    match alookup p.1 prev with
    | none => st
    | some _ =>
      match alookup p.1 st.vstat with
      | none => st
      | some vs =>
        if vs.active then
          if vs.height + o.blockVotesDiff > h then st
          else { st with susp := upsert st.susp p.1 ⟨1, h, now, 0, none⟩ }
        else st
  else st

/-- `CheckMaliciousValidators` (state part): no missed-votes check while `height ≤ BlockVotesDiff` -/
def beginBlock (o : Opts) (h now : Int) (cv : List (Addr × Int)) (prev : List (Addr × ValRec)) (st : State) : State :=
  if h ≤ o.blockVotesDiff then st
  else (cv.mergeSort fun a b => leS a.1 b.1).foldl (beginStep o h now prev) st

/-- the volatile `maliciousValidators` map the election consults: the frozen records as of the
    end of `CheckMaliciousValidators`, at every height (7eb2406) -/
def malOf (suspAfterBegin : List (Addr × Susp)) : List Addr := frozenSet suspAfterBegin

/-! ## EndBlock, first half: the election loop of GetEndBlockUpdate -/

structure ElectAcc where
  vstat : List (Addr × VStat)
  cnt : Int
  elected : List Addr
  deriving DecidableEq, Repr

/-- one popped validator `(address, power of the previous version)` -/
def electStep (minSelf top h : Int) (mal : List Addr) (a : ElectAcc) (p : Addr × Int) : ElectAcc :=
  let upd := decide (p.2 ≥ minSelf) && decide (a.cnt < top) && !mal.contains p.1
  let vs' := match alookup p.1 a.vstat with
    | none => upsert a.vstat p.1 ⟨upd, h⟩
    | some s => if s.active != upd then upsert a.vstat p.1 ⟨upd, h⟩ else a.vstat
  ⟨vs', if upd then a.cnt + 1 else a.cnt, if upd then a.elected ++ [p.1] else a.elected⟩

def elect (minSelf top h : Int) (mal : List Addr) (pop : List (Addr × Int)) (vstat : List (Addr × VStat)) : ElectAcc :=
  pop.foldl (electStep minSelf top h mal) ⟨vstat, 0, []⟩

/-! ## EndBlock, second half: ExecuteAllegationTracker -/

/-- the one floating-point expression left in the tally -/
structure FloatOps where
  /-- `Int(stake·basePct/baseDec + 0.5)` in `big.Float` -/
  penalty : Int → Opts → Int

/-- the exact-rational reading -/
def exactOps : FloatOps where
  penalty := fun stake o => (2 * stake * o.penBasePct + o.penBaseDec) / (2 * o.penBaseDec)

/-- `requiredVotesCount = (activeCount*votePct + voteDec - 1) / voteDec` (Go integer division
    truncates toward zero) -/
def requiredVotes (active : Int) (o : Opts) : Int := Int.tdiv (active * o.votePct + o.voteDec - 1) o.voteDec

structure Env where
  height : Int
  time : Int
  active : Int
  opts : Opts
  /-- validator records of the previous version (`GetVersioned(lastHeight-1, …)`) -/
  prev : List (Addr × ValRec)
  /-- validator records as they are when the tally runs (`vs.Get`, through the block cache) -/
  cur : List (Addr × ValRec)

def countChoice (c : Int) (vs : List Vote) : Int := ((vs.filter fun v => v.choice == c).length : Nat)

inductive Verdict where
  | guilty | innocent | none
  deriving DecidableEq, Repr

/-- the votes the tally counts: those of addresses whose status record is active NOW, i.e. as
    rewritten by this block's election pass (6709f41) -/
def activeVotes (vs : List (Addr × VStat)) (ar : Request) : List Vote := ar.votes.filter fun v => isActiveIn vs v.addr

/-- the decision of the loop body, in integers (1d3139c): yes test first, `else if` no test;
    `vs` are the status records at the time of the tally -/
def verdictOf (env : Env) (vs : List (Addr × VStat)) (ar : Request) : Verdict :=
  let req := requiredVotes env.active env.opts
  let o := env.opts
  if countChoice 1 (activeVotes vs ar) * o.allegDec > o.allegPct * req then .guilty
  else if countChoice 2 (activeVotes vs ar) * o.allegDec > (o.allegDec - o.allegPct) * req then .innocent
  else .none

def e18 : Int := 1000000000000000000

/-- the stake address a slash charges (ebb3d1d): the one of the validator's CURRENT record when
    there is one, else the one of the previous block's record -/
def slashAddr (env : Env) (accused : Addr) (v : ValRec) : Addr :=
  match alookup accused env.cur with
  | some c => c.stakeAddr
  | none => v.stakeAddr

/-- the body of the `for _, requestID := range requestIDs` loop; the second component collects
    `addrToDelete` -/
def tallyOne (F : FloatOps) (env : Env) (acc : State × List ReqId) (id : ReqId) : State × List ReqId :=
  let (st, del) := acc
  match alookup id st.reqs with
  | none => (st, del)
  | some ar =>
    match verdictOf env st.vstat ar with
    | .guilty =>
      -- CreateSuspiciousValidator overwrites whatever record the address had
      let st1 := { st with susp := upsert st.susp ar.accused ⟨2, env.height, env.time, 0, none⟩ }
      match alookup ar.accused env.prev with
      | none => (st1, del)   -- `continue`: the request is neither rewritten nor deleted
      | some v =>
        let amt := getI st1.total ar.accused
        let p := F.penalty amt env.opts
        let b := p * e18 * env.opts.bountyPct / env.opts.bountyDec
        let (st2, ok) := minusFromAddress st1 ar.accused (slashAddr env ar.accused v) p
        let st3 := if ok then { st2 with bounty := st2.bounty + b } else st2
        -- the power update is postponed to the next block, only when something was taken (ebb3d1d)
        let st4 := if ok then { st3 with delayed := upsert st3.delayed (env.height, ar.accused) p } else st3
        -- SetAllegationRequest (status GUILTY) immediately followed by DeleteAllegationRequest
        ({ st4 with reqs := aerase st4.reqs id }, del ++ [id])
    | .innocent => ({ st with reqs := aerase st.reqs id }, del ++ [id])
    | .none => (st, del)

/-- `ExecuteAllegationTracker`; `ordClean`, `ordTally` are the orders in which the two Go map
    ranges (inside `CleanTracker`, and over `at.Requests`) produced the tracker keys -/
def tallyWith (F : FloatOps) (env : Env) (ordClean ordTally : List ReqId) (st : State) : State :=
  if env.active = 0 then st
  else if env.opts.voteDec ≤ 0 ∨ env.opts.allegDec ≤ 0 then st   -- "Evidence options without decimals"
  else
    let at' := st.tracker
    let st0 := cleanTrackerWith ordClean st
    let r := (sortIds ordTally).foldl (tallyOne F env) (st0, [])
    if r.2.isEmpty then r.1
    else { r.1 with tracker := at'.filter fun i => !r.2.contains i }

def tally (F : FloatOps) (env : Env) (st : State) : State := tallyWith F env st.tracker st.tracker st

/-! ## histories -/

inductive Op where
  | allege (h : Int) (rep acc : Addr) (id : ReqId) (bh : Int) (sig fee : Bool)
  | vote (id : ReqId) (voter : Addr) (choice : Int) (sig fee : Bool)
  | release (days : Int) (val : Addr) (h now : Int) (sig fee : Bool)
  | stake (val stakeAddr : Addr) (amt : Int)
  | unstake (val stakeAddr : Addr) (amt : Int)
  | withdraw (vals : List (Addr × ValRec)) (val stakeAddr : Addr) (amt : Int)
  | beginBlock (o : Opts) (h now : Int) (cv : List (Addr × Int)) (prev : List (Addr × ValRec))
  | elect (minSelf top h : Int) (pop : List (Addr × Int))
  | tally (F : FloatOps) (env : Env)

/-- one step of a history; `elect` computes the malicious set from the current records, which is
    what the code does when no RELEASE ran between BeginBlock and EndBlock (the general case is
    the `elect` function with an arbitrary `mal`) -/
def step (st : State) : Op → State
  | .allege h rep acc id bh sig fee => (txAllege st h rep acc id bh sig fee).2
  | .vote id voter ch sig fee => (txVote st id voter ch sig fee).2
  | .release days val h now sig fee => (txRelease st days val h now sig fee).2
  | .stake v s a => (runStake st v s a).2
  | .unstake v s a => (runUnstake st v s a).2
  | .withdraw vals v s a => (runWithdraw st vals v s a).2
  | .beginBlock o h now cv prev => beginBlock o h now cv prev st
  | .elect minSelf top h pop =>
    { st with vstat := (elect minSelf top h (malOf st.susp) pop st.vstat).vstat }
  | .tally F env => tally F env st

def run (st : State) (ops : List Op) : State := ops.foldl step st

end OLP.Alleg

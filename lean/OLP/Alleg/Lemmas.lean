/-
  Helper lemmas for the allegation model (C19). Property theorems live in OLP/Props/C19.lean.
-/
import OLP.Alleg.Model

namespace OLP.Alleg

/-! ## the order Go sorts by -/

theorem leS_trans (a b c : String) (h₁ : leS a b = true) (h₂ : leS b c = true) : leS a c = true := by
  simp only [leS, decide_eq_true_eq] at *
  exact String.le_trans h₁ h₂

theorem leS_total (a b : String) : (leS a b || leS b a) = true := by
  simp only [leS, Bool.or_eq_true, decide_eq_true_eq]
  exact String.le_total a b

theorem leS_antisymm (a b : String) (h₁ : leS a b = true) (h₂ : leS b a = true) : a = b := by
  simp only [leS, decide_eq_true_eq] at *
  exact String.le_antisymm h₁ h₂

/-- sorting makes the map-iteration order irrelevant -/
theorem sortIds_perm {l₁ l₂ : List ReqId} (h : l₁.Perm l₂) : sortIds l₁ = sortIds l₂ := by
  unfold sortIds
  apply List.Perm.eq_of_pairwise (le := fun a b => leS a b = true)
  · intro a b _ _ h₁ h₂; exact leS_antisymm a b h₁ h₂
  · exact List.pairwise_mergeSort leS_trans leS_total l₁
  · exact List.pairwise_mergeSort leS_trans leS_total l₂
  · exact (List.mergeSort_perm l₁ leS).trans (h.trans (List.mergeSort_perm l₂ leS).symm)

theorem mem_sortIds {a : ReqId} {l : List ReqId} : a ∈ sortIds l ↔ a ∈ l := List.mem_mergeSort

/-! ## association lists: membership -/

section assoc
variable {K V : Type} [DecidableEq K]

theorem alookup_some_mem {l : List (K × V)} {k : K} {v : V} (h : alookup k l = some v) : (k, v) ∈ l := by
  induction l with
  | nil => simp [alookup] at h
  | cons hd t ih =>
    obtain ⟨k', v'⟩ := hd
    by_cases hk : k' = k
    · simp [alookup, hk] at h; subst hk; subst h; simp
    · simp [alookup, hk] at h; exact List.mem_cons_of_mem _ (ih h)

theorem mem_upsert {l : List (K × V)} {k : K} {v : V} {p : K × V} (h : p ∈ upsert l k v) :
    p = (k, v) ∨ p ∈ l := by
  induction l with
  | nil => simp [upsert] at h; exact Or.inl h
  | cons hd t ih =>
    obtain ⟨k', v'⟩ := hd
    by_cases hk : k' = k
    · simp [upsert, hk] at h
      rcases h with h | h
      · exact Or.inl h
      · exact Or.inr (List.mem_cons_of_mem _ h)
    · simp [upsert, hk] at h
      rcases h with h | h
      · exact Or.inr (by simp [h])
      · rcases ih h with h' | h'
        · exact Or.inl h'
        · exact Or.inr (List.mem_cons_of_mem _ h')

theorem mem_aerase {l : List (K × V)} {k : K} {p : K × V} (h : p ∈ aerase l k) : p ∈ l := by
  induction l with
  | nil => simp [aerase] at h
  | cons hd t ih =>
    obtain ⟨k', v'⟩ := hd
    by_cases hk : k' = k
    · simp [aerase, hk] at h; exact List.mem_cons_of_mem _ (ih h)
    · simp [aerase, hk] at h
      rcases h with h | h
      · simp [h]
      · exact List.mem_cons_of_mem _ (ih h)

theorem alookup_aerase_some {l : List (K × V)} {k k' : K} {v : V}
    (h : alookup k' (aerase l k) = some v) : alookup k' l = some v ∧ k' ≠ k := by
  rw [alookup_aerase] at h
  by_cases hk : k' = k
  · simp [hk] at h
  · simp [hk] at h; exact ⟨h, hk⟩

theorem getI_upsert_self (l : List (K × Int)) (k : K) (v : Int) : getI (upsert l k v) k = v := by
  simp [getI]

theorem getI_upsert_ne (l : List (K × Int)) (k k' : K) (v : Int) (h : k' ≠ k) :
    getI (upsert l k v) k' = getI l k' := by
  simp [getI, alookup_upsert_ne l k k' v h]

end assoc

/-! ## CleanTracker only deletes -/

theorem cleanLoop_sub (ids : List ReqId) (seen : List Addr) (reqs : List (ReqId × Request)) :
    (∀ p, p ∈ cleanLoop ids seen reqs → p ∈ reqs) ∧
    (∀ id r, alookup id (cleanLoop ids seen reqs) = some r → alookup id reqs = some r) := by
  induction ids generalizing seen reqs with
  | nil => simp [cleanLoop]
  | cons r rs ih =>
    unfold cleanLoop
    split
    · exact ih seen reqs
    · rename_i ar _
      split
      · obtain ⟨h₁, h₂⟩ := ih seen (aerase reqs r)
        exact ⟨fun p hp => mem_aerase (h₁ p hp), fun id r' h => (alookup_aerase_some (h₂ id r' h)).1⟩
      · exact ih (ar.accused :: seen) reqs

theorem cleanTrackerWith_fields (ord : List ReqId) (st : State) :
    (cleanTrackerWith ord st).susp = st.susp ∧ (cleanTrackerWith ord st).vstat = st.vstat ∧
    (cleanTrackerWith ord st).tracker = st.tracker ∧ (cleanTrackerWith ord st).total = st.total ∧
    (cleanTrackerWith ord st).vd = st.vd ∧ (cleanTrackerWith ord st).de = st.de ∧
    (cleanTrackerWith ord st).db = st.db ∧ (cleanTrackerWith ord st).bounty = st.bounty ∧
    (cleanTrackerWith ord st).delayed = st.delayed := by
  simp [cleanTrackerWith]

/-- with at most one open request per address `CleanTracker` changes nothing -/
theorem cleanLoop_noop (reqs : List (ReqId × Request))
    (hinj : ∀ i j a b, alookup i reqs = some a → alookup j reqs = some b → a.accused = b.accused → i = j)
    (ids : List ReqId) (seen : List Addr)
    (hnd : ids.Nodup)
    (hdis : ∀ a, a ∈ seen → ∀ i, i ∈ ids → ∀ r, alookup i reqs = some r → r.accused ≠ a) :
    cleanLoop ids seen reqs = reqs := by
  induction ids generalizing seen with
  | nil => simp [cleanLoop]
  | cons r rs ih =>
    obtain ⟨hr, hnd'⟩ := List.nodup_cons.mp hnd
    unfold cleanLoop
    split
    · exact ih seen hnd' (fun a ha i hi r' hr' => hdis a ha i (List.mem_cons_of_mem _ hi) r' hr')
    · rename_i ar har
      have hns : seen.contains ar.accused = false := by
        cases hc : seen.contains ar.accused with
        | false => rfl
        | true =>
          have : ar.accused ∈ seen := by simpa using hc
          exact absurd rfl (hdis ar.accused this r (by simp) ar har)
      simp only [hns, Bool.false_eq_true, if_false]
      apply ih (ar.accused :: seen) hnd'
      intro a ha i hi r' hr'
      rcases List.mem_cons.mp ha with rfl | ha
      · intro heq
        have hir : i = r := hinj i r r' ar hr' har heq
        subst hir
        exact hr hi
      · exact hdis a ha i (List.mem_cons_of_mem _ hi) r' hr'

theorem cleanTrackerWith_noop (ord : List ReqId) (st : State)
    (hord : ord.Nodup)
    (hinj : ∀ i j a b, alookup i st.reqs = some a → alookup j st.reqs = some b → a.accused = b.accused → i = j) :
    cleanTrackerWith ord st = st := by
  have : cleanLoop (sortIds ord) [] st.reqs = st.reqs := by
    apply cleanLoop_noop st.reqs hinj
    · exact ((List.mergeSort_perm ord leS).nodup_iff).mpr hord
    · intro a ha; simp at ha
  unfold cleanTrackerWith
  rw [this]

/-! ## admission wrapper, field preservation -/


def VotesNodup (st : State) : Prop := ∀ p, p ∈ st.reqs → (p.2.votes.map (·.addr)).Nodup

theorem withAdmission_state (st : State) (sig fee : Bool) (r : Res × State) :
    (withAdmission st sig fee r).2 = st ∨
      (r.1 = .ok ∧ sig = true ∧ fee = true ∧ withAdmission st sig fee r = (.ok, r.2)) := by
  unfold withAdmission
  obtain ⟨res, st'⟩ := r
  cases sig <;> cases fee <;> cases res <;> simp

theorem withAdmission_ok {st : State} {sig fee : Bool} {r : Res × State} {st' : State}
    (h : withAdmission st sig fee r = (.ok, st')) : r = (.ok, st') ∧ sig = true ∧ fee = true := by
  unfold withAdmission at h
  obtain ⟨res, st''⟩ := r
  cases sig <;> cases fee <;> cases res <;> simp_all

theorem minusFromAddress_fields (st : State) (v d : Addr) (c : Int) :
    (minusFromAddress st v d c).1.reqs = st.reqs ∧ (minusFromAddress st v d c).1.susp = st.susp ∧
    (minusFromAddress st v d c).1.vstat = st.vstat ∧ (minusFromAddress st v d c).1.tracker = st.tracker ∧
    (minusFromAddress st v d c).1.bounty = st.bounty ∧ (minusFromAddress st v d c).1.delayed = st.delayed ∧
    (minusFromAddress st v d c).1.db = st.db := by
  unfold minusFromAddress
  simp only []
  split
  · simp
  · split
    · simp
    · split <;> simp

theorem runAllege_fields (st : State) (h : Int) (rep acc : Addr) (id : ReqId) (bh : Int) :
    (runAllege st h rep acc id bh).2.susp = st.susp ∧ (runAllege st h rep acc id bh).2.vstat = st.vstat := by
  unfold runAllege performAllegation
  repeat' split
  all_goals simp [cleanTracker, cleanTrackerWith]


/-! ## one vote per validator -/



theorem sortVotes_perm (l : List Vote) : (sortVotes l).Perm l := List.mergeSort_perm _ _

theorem any_addr_false {votes : List Vote} {voter : Addr}
    (h : votes.any (fun v => v.addr == voter) = false) : voter ∉ votes.map (·.addr) := by
  intro hm
  obtain ⟨v, hv, rfl⟩ := List.mem_map.mp hm
  have := List.any_eq_false.mp h v hv
  simp at this

theorem nodup_addrs_sortVotes {votes : List Vote} {voter : Addr} {c : Int}
    (hn : (votes.map (·.addr)).Nodup) (hv : voter ∉ votes.map (·.addr)) :
    ((sortVotes (votes ++ [⟨voter, c⟩])).map (·.addr)).Nodup := by
  rw [((sortVotes_perm _).map _).nodup_iff, List.map_append, List.nodup_append]
  refine ⟨hn, by simp, ?_⟩
  intro a ha b hb
  simp at hb
  subst hb
  intro e; subst e; exact hv ha

theorem castVote_votesNodup (st : State) (id : ReqId) (voter : Addr) (c : Int) (h : VotesNodup st) :
    VotesNodup (castVote st id voter c).2 := by
  unfold castVote
  split
  · exact h
  · rename_i ar har
    split
    · exact h
    · split
      · exact h
      · split
        · exact h
        · rename_i hany
          intro p hp
          rcases mem_upsert hp with rfl | hp
          · simp only
            apply nodup_addrs_sortVotes (h _ (alookup_some_mem har))
            apply any_addr_false
            simpa using hany
          · exact h p hp

theorem runVote_votesNodup (st : State) (id : ReqId) (voter : Addr) (c : Int) (h : VotesNodup st) :
    VotesNodup (runVote st id voter c).2 := by
  unfold runVote
  split
  · exact h
  · split
    · exact h
    · exact castVote_votesNodup st id voter c h

theorem runAllege_votesNodup (st : State) (h : Int) (rep acc : Addr) (id : ReqId) (bh : Int)
    (hn : VotesNodup st) : VotesNodup (runAllege st h rep acc id bh).2 := by
  unfold runAllege performAllegation
  repeat' split
  all_goals try exact hn
  intro p hp
  simp only [cleanTracker, cleanTrackerWith] at hp
  rcases mem_upsert ((cleanLoop_sub _ _ _).1 p hp) with rfl | hp'
  · simp
  · exact hn p hp'

theorem withAdmission_inv (P : State → Prop) (st : State) (sig fee : Bool) (r : Res × State)
    (h₀ : P st) (h₁ : P r.2) : P (withAdmission st sig fee r).2 := by
  rcases withAdmission_state st sig fee r with h | ⟨_, _, _, h⟩
  · rw [h]; exact h₀
  · rw [h]; exact h₁


/-! ## the loop body of the tally -/


/-- the record a guilty verdict writes -/
def byzRec (env : Env) : Susp := ⟨2, env.height, env.time, 0, none⟩

/-- everything `tallyOne` can do, by verdict -/
theorem tallyOne_cases (F : FloatOps) (env : Env) (st : State) (del : List ReqId) (id : ReqId) :
    (alookup id st.reqs = none ∧ tallyOne F env (st, del) id = (st, del)) ∨
    (∃ ar, alookup id st.reqs = some ar ∧ verdictOf env st.vstat ar = .none ∧ tallyOne F env (st, del) id = (st, del)) ∨
    (∃ ar, alookup id st.reqs = some ar ∧ verdictOf env st.vstat ar = .innocent ∧
        tallyOne F env (st, del) id = ({ st with reqs := aerase st.reqs id }, del ++ [id])) ∨
    (∃ ar, alookup id st.reqs = some ar ∧ verdictOf env st.vstat ar = .guilty ∧ alookup ar.accused env.prev = none ∧
        tallyOne F env (st, del) id = ({ st with susp := upsert st.susp ar.accused (byzRec env) }, del)) ∨
    (∃ ar v, alookup id st.reqs = some ar ∧ verdictOf env st.vstat ar = .guilty ∧ alookup ar.accused env.prev = some v ∧
        (tallyOne F env (st, del) id).2 = del ++ [id] ∧
        (tallyOne F env (st, del) id).1.reqs = aerase st.reqs id ∧
        (tallyOne F env (st, del) id).1.susp = upsert st.susp ar.accused (byzRec env) ∧
        (tallyOne F env (st, del) id).1.vstat = st.vstat ∧
        (tallyOne F env (st, del) id).1.tracker = st.tracker ∧
        (tallyOne F env (st, del) id).1.db = st.db) := by
  unfold tallyOne
  simp only []
  cases har : alookup id st.reqs with
  | none => left; simp
  | some ar =>
    right
    simp only []
    cases hv : verdictOf env st.vstat ar with
    | none => left; exact ⟨ar, rfl, hv, by simp⟩
    | innocent => right; left; exact ⟨ar, rfl, hv, by simp⟩
    | guilty =>
      right; right
      simp only []
      cases hp : alookup ar.accused env.prev with
      | none => left; exact ⟨ar, rfl, hv, hp, by simp [byzRec]⟩
      | some v =>
        right
        refine ⟨ar, v, rfl, hv, hp, ?_⟩
        simp only []
        obtain ⟨h1, h2, h3, h4, h5, h6, h7⟩ := minusFromAddress_fields
          { st with susp := upsert st.susp ar.accused ⟨2, env.height, env.time, 0, none⟩ } ar.accused (slashAddr env ar.accused v)
          (F.penalty (getI st.total ar.accused) env.opts)
        generalize hm : minusFromAddress _ ar.accused (slashAddr env ar.accused v) _ = m at *
        obtain ⟨m1, m2⟩ := m
        simp only at h1 h2 h3 h4 h5 h6 h7
        cases m2 <;> simp [h1, h2, h3, h4, h7, byzRec]




theorem isFrozenRec_byz (env : Env) : isFrozenRec (byzRec env) = true := rfl

theorem isFrozen_upsert_frozen (st : State) (a b : Addr) (s : Susp) (hs : isFrozenRec s = true)
    (h : isFrozen st a = true) : isFrozen { st with susp := upsert st.susp b s } a = true := by
  unfold isFrozen at *
  simp only
  by_cases hab : a = b
  · subst hab; simp [hs]
  · rw [alookup_upsert_ne _ _ _ _ hab]; exact h

theorem isFrozen_congr {st st' : State} (h : st'.susp = st.susp) (a : Addr) : isFrozen st' a = isFrozen st a := by
  unfold isFrozen; rw [h]

/-- requests: the loop body only erases the request it decides -/
theorem tallyOne_reqs (F : FloatOps) (env : Env) (st : State) (del : List ReqId) (id : ReqId) :
    (tallyOne F env (st, del) id).1.reqs = st.reqs ∨ (tallyOne F env (st, del) id).1.reqs = aerase st.reqs id := by
  rcases tallyOne_cases F env st del id with ⟨_, h⟩ | ⟨_, _, _, h⟩ | ⟨_, _, _, h⟩ | ⟨_, _, _, _, h⟩ | ⟨_, _, _, _, _, _, h, _⟩
  · left; rw [h]
  · left; rw [h]
  · right; rw [h]
  · left; rw [h]
  · right; exact h

theorem tallyOne_reqs_sub (F : FloatOps) (env : Env) (st : State) (del : List ReqId) (id i : ReqId) (r : Request)
    (h : alookup i (tallyOne F env (st, del) id).1.reqs = some r) : alookup i st.reqs = some r := by
  rcases tallyOne_reqs F env st del id with e | e
  · rw [e] at h; exact h
  · rw [e] at h; exact (alookup_aerase_some h).1

theorem tallyOne_reqs_mem (F : FloatOps) (env : Env) (st : State) (del : List ReqId) (id : ReqId) (p : ReqId × Request)
    (h : p ∈ (tallyOne F env (st, del) id).1.reqs) : p ∈ st.reqs := by
  rcases tallyOne_reqs F env st del id with e | e
  · rw [e] at h; exact h
  · rw [e] at h; exact mem_aerase h

theorem tallyOne_reqs_ne (F : FloatOps) (env : Env) (st : State) (del : List ReqId) (id i : ReqId) (hne : i ≠ id) :
    alookup i (tallyOne F env (st, del) id).1.reqs = alookup i st.reqs := by
  rcases tallyOne_reqs F env st del id with e | e
  · rw [e]
  · rw [e]; exact alookup_aerase_ne st.reqs id i hne

/-- suspicious-validator records: unchanged, or the accused of a guilty verdict gets the record -/
theorem tallyOne_susp (F : FloatOps) (env : Env) (st : State) (del : List ReqId) (id : ReqId) :
    (tallyOne F env (st, del) id).1.susp = st.susp ∨
    ∃ ar, alookup id st.reqs = some ar ∧ verdictOf env st.vstat ar = .guilty ∧
      (tallyOne F env (st, del) id).1.susp = upsert st.susp ar.accused (byzRec env) := by
  rcases tallyOne_cases F env st del id with ⟨_, h⟩ | ⟨_, _, _, h⟩ | ⟨_, _, _, h⟩ | ⟨ar, h1, h2, _, h⟩ | ⟨ar, _, h1, h2, _, _, _, h, _⟩
  · left; rw [h]
  · left; rw [h]
  · left; rw [h]
  · right; exact ⟨ar, h1, h2, by rw [h]⟩
  · right; exact ⟨ar, h1, h2, h⟩

theorem tallyOne_frozen_mono (F : FloatOps) (env : Env) (st : State) (del : List ReqId) (id : ReqId) (a : Addr)
    (h : isFrozen st a = true) : isFrozen (tallyOne F env (st, del) id).1 a = true := by
  rcases tallyOne_susp F env st del id with e | ⟨ar, _, _, e⟩
  · rw [isFrozen_congr e]; exact h
  · have := isFrozen_upsert_frozen st a ar.accused (byzRec env) (isFrozenRec_byz env) h
    rw [isFrozen_congr (st := { st with susp := upsert st.susp ar.accused (byzRec env) }) e]
    exact this

theorem tallyOne_guilty_freezes (F : FloatOps) (env : Env) (st : State) (del : List ReqId) (id : ReqId) (ar : Request)
    (har : alookup id st.reqs = some ar) (hv : verdictOf env st.vstat ar = .guilty) :
    alookup ar.accused (tallyOne F env (st, del) id).1.susp = some (byzRec env) := by
  rcases tallyOne_cases F env st del id with ⟨h0, _⟩ | ⟨ar', h1, h2, _⟩ | ⟨ar', h1, h2, _⟩ | ⟨ar', h1, _, _, h⟩ | ⟨ar', _, h1, _, _, _, _, h, _⟩
  · rw [h0] at har; cases har
  · rw [h1] at har; cases har; rw [h2] at hv; cases hv
  · rw [h1] at har; cases har; rw [h2] at hv; cases hv
  · rw [h1] at har; cases har; rw [h]; simp
  · rw [h1] at har; cases har; rw [h]; simp

theorem tallyOne_static (F : FloatOps) (env : Env) (st : State) (del : List ReqId) (id : ReqId) :
    (tallyOne F env (st, del) id).1.vstat = st.vstat ∧ (tallyOne F env (st, del) id).1.tracker = st.tracker ∧
    (tallyOne F env (st, del) id).1.db = st.db := by
  rcases tallyOne_cases F env st del id with ⟨_, h⟩ | ⟨_, _, _, h⟩ | ⟨_, _, _, h⟩ | ⟨_, _, _, _, h⟩ | ⟨_, _, _, _, _, _, _, _, h⟩
  · rw [h]; simp
  · rw [h]; simp
  · rw [h]; simp
  · rw [h]; simp
  · exact h

/-! ## the whole loop -/

theorem tallyFold_inv (F : FloatOps) (env : Env) (P : State → Prop)
    (hstep : ∀ st del id, P st → P (tallyOne F env (st, del) id).1)
    (ids : List ReqId) (acc : State × List ReqId) (h : P acc.1) :
    P (ids.foldl (tallyOne F env) acc).1 := by
  induction ids generalizing acc with
  | nil => exact h
  | cons i rest ih =>
    rw [List.foldl_cons]
    exact ih _ (by obtain ⟨st, del⟩ := acc; exact hstep st del i h)




/-! ## which operations touch the suspicious-validator records -/

theorem castVote_susp (st : State) (id : ReqId) (voter : Addr) (c : Int) :
    (castVote st id voter c).2.susp = st.susp := by
  unfold castVote
  repeat' split
  all_goals rfl

theorem runVote_susp (st : State) (id : ReqId) (voter : Addr) (c : Int) :
    (runVote st id voter c).2.susp = st.susp := by
  unfold runVote
  repeat' split
  all_goals first | rfl | exact castVote_susp st id voter c

theorem addToAddress_susp (st : State) (v d : Addr) (c : Int) : (addToAddress st v d c).susp = st.susp := rfl

theorem runStake_susp (st : State) (v s : Addr) (a : Int) : (runStake st v s a).2.susp = st.susp := by
  unfold runStake; split <;> rfl

theorem runUnstake_susp (st : State) (v s : Addr) (a : Int) : (runUnstake st v s a).2.susp = st.susp := by
  unfold runUnstake
  split
  · rfl
  · split
    · rfl
    · have := (minusFromAddress_fields st v s a).2.1
      generalize minusFromAddress st v s a = m at *
      obtain ⟨m1, m2⟩ := m
      cases m2 <;> simp_all

theorem runWithdraw_susp (st : State) (vals : List (Addr × ValRec)) (v s : Addr) (a : Int) :
    (runWithdraw st vals v s a).2.susp = st.susp := by
  unfold runWithdraw
  simp only []
  repeat' split
  all_goals rfl

/-- RELEASE touches only the record of the named validator -/
theorem handleRelease_other (st : State) (days : Int) (val : Addr) (h now : Int) (a : Addr) (hne : a ≠ val) :
    alookup a (handleRelease st days val h now).2.susp = alookup a st.susp := by
  unfold handleRelease
  split
  · rfl
  · split
    · rfl
    · split
      · simp only; exact alookup_upsert_ne _ _ _ _ hne
      · rfl

theorem beginStep_frozen_mono (o : Opts) (h now : Int) (prev : List (Addr × ValRec)) (st : State) (p : Addr × Int)
    (a : Addr) (hf : isFrozen st a = true) : isFrozen (beginStep o h now prev st p) a = true := by
  unfold beginStep
  repeat' split
  all_goals first | exact hf | exact isFrozen_upsert_frozen st a p.1 _ rfl hf

theorem foldl_inv {α β : Type} (f : β → α → β) (P : β → Prop) (hstep : ∀ b a, P b → P (f b a))
    (l : List α) (b : β) (h : P b) : P (l.foldl f b) := by
  induction l generalizing b with
  | nil => exact h
  | cons x t ih => exact ih _ (hstep b x h)

theorem beginBlock_frozen_mono (o : Opts) (h now : Int) (cv : List (Addr × Int)) (prev : List (Addr × ValRec))
    (st : State) (a : Addr) (hf : isFrozen st a = true) : isFrozen (beginBlock o h now cv prev st) a = true := by
  unfold beginBlock
  split
  · exact hf
  · exact foldl_inv _ (fun s => isFrozen s a = true) (fun s p hs => beginStep_frozen_mono o h now prev s p a hs) _ _ hf

theorem tallyWith_frozen_mono (F : FloatOps) (env : Env) (o₁ o₂ : List ReqId) (st : State) (a : Addr)
    (hf : isFrozen st a = true) : isFrozen (tallyWith F env o₁ o₂ st) a = true := by
  unfold tallyWith
  split
  · exact hf
  split
  · exact hf
  · have h0 : isFrozen (cleanTrackerWith o₁ st) a = true := by
      rw [isFrozen_congr (cleanTrackerWith_fields o₁ st).1]; exact hf
    have := tallyFold_inv F env (fun s => isFrozen s a = true)
      (fun s del id hs => tallyOne_frozen_mono F env s del id a hs) (sortIds o₂) (cleanTrackerWith o₁ st, []) h0
    simp only at this ⊢
    split
    · exact this
    · exact Eq.trans (isFrozen_congr rfl a) this

/-- a step that is not a RELEASE of `a` -/
def NotRelease (a : Addr) : Op → Prop
  | .release _ v _ _ _ _ => v ≠ a
  | _ => True

theorem withAdmission_susp_lookup (st : State) (sig fee : Bool) (r : Res × State) (a : Addr)
    (h : alookup a r.2.susp = alookup a st.susp) :
    alookup a (withAdmission st sig fee r).2.susp = alookup a st.susp := by
  rcases withAdmission_state st sig fee r with e | ⟨_, _, _, e⟩
  · rw [e]
  · rw [e]; exact h

theorem isFrozen_of_lookup {st st' : State} {a : Addr} (h : alookup a st'.susp = alookup a st.susp) :
    isFrozen st' a = isFrozen st a := by
  unfold isFrozen; rw [h]

/-- frozen stays frozen through every step except a RELEASE of that validator -/
theorem step_frozen_mono (st : State) (op : Op) (a : Addr) (hnr : NotRelease a op)
    (hf : isFrozen st a = true) : isFrozen (step st op) a = true := by
  cases op with
  | allege h rep acc id bh sig fee =>
    simp only [step, txAllege]
    rw [isFrozen_of_lookup (withAdmission_susp_lookup st sig fee _ a (by rw [(runAllege_fields st h rep acc id bh).1]))]
    exact hf
  | vote id voter ch sig fee =>
    simp only [step, txVote]
    rw [isFrozen_of_lookup (withAdmission_susp_lookup st sig fee _ a (by rw [runVote_susp]))]
    exact hf
  | release days val h now sig fee =>
    simp only [step, txRelease]
    rw [isFrozen_of_lookup (withAdmission_susp_lookup st sig fee _ a (handleRelease_other st days val h now a (Ne.symm hnr)))]
    exact hf
  | stake v s amt => simp only [step]; rw [isFrozen_congr (runStake_susp st v s amt)]; exact hf
  | unstake v s amt => simp only [step]; rw [isFrozen_congr (runUnstake_susp st v s amt)]; exact hf
  | withdraw vals v s amt => simp only [step]; rw [isFrozen_congr (runWithdraw_susp st vals v s amt)]; exact hf
  | beginBlock o h now cv prev => exact beginBlock_frozen_mono o h now cv prev st a hf
  | elect minSelf top h pop => exact Eq.trans (isFrozen_congr rfl a) hf
  | tally F env => exact tallyWith_frozen_mono F env _ _ st a hf

theorem run_frozen_mono (st : State) (ops : List Op) (a : Addr) (hnr : ∀ op, op ∈ ops → NotRelease a op)
    (hf : isFrozen st a = true) : isFrozen (run st ops) a = true := by
  induction ops generalizing st with
  | nil => exact hf
  | cons op rest ih =>
    simp only [run, List.foldl_cons]
    exact ih (step st op) (fun o ho => hnr o (List.mem_cons_of_mem _ ho))
      (step_frozen_mono st op a (hnr op (by simp)) hf)




/-! ## one vote per validator, over histories -/

theorem tallyWith_reqs_mem (F : FloatOps) (env : Env) (o₁ o₂ : List ReqId) (st : State) (p : ReqId × Request)
    (h : p ∈ (tallyWith F env o₁ o₂ st).reqs) : p ∈ st.reqs := by
  unfold tallyWith at h
  split at h
  · exact h
  split at h
  · exact h
  · have key : ∀ q, q ∈ (List.foldl (tallyOne F env) (cleanTrackerWith o₁ st, []) (sortIds o₂)).1.reqs → q ∈ st.reqs := by
      have := tallyFold_inv F env (fun s => ∀ q, q ∈ s.reqs → q ∈ st.reqs)
        (fun s del id hs q hq => hs q (tallyOne_reqs_mem F env s del id q hq)) (sortIds o₂) (cleanTrackerWith o₁ st, [])
        (fun q hq => (cleanLoop_sub _ _ _).1 q hq)
      exact this
    simp only at h
    split at h
    · exact key p h
    · exact key p h

theorem step_votesNodup (st : State) (op : Op) (h : VotesNodup st) : VotesNodup (step st op) := by
  cases op with
  | allege hh rep acc id bh sig fee =>
    exact withAdmission_inv VotesNodup st sig fee _ h (runAllege_votesNodup st hh rep acc id bh h)
  | vote id voter ch sig fee =>
    exact withAdmission_inv VotesNodup st sig fee _ h (runVote_votesNodup st id voter ch h)
  | release days val hh now sig fee =>
    apply withAdmission_inv VotesNodup st sig fee _ h
    unfold handleRelease
    repeat' split
    all_goals exact h
  | stake v s amt =>
    simp only [step, runStake]; split <;> exact h
  | unstake v s amt =>
    simp only [step, runUnstake]
    split
    · exact h
    · split
      · exact h
      · have := (minusFromAddress_fields st v s amt).1
        generalize minusFromAddress st v s amt = m at *
        obtain ⟨m1, m2⟩ := m
        cases m2
        · exact h
        · intro p hp; simp only at this hp; rw [this] at hp; exact h p hp
  | withdraw vals v s amt =>
    simp only [step, runWithdraw]
    repeat' split
    all_goals exact h
  | beginBlock o hh now cv prev =>
    simp only [step, beginBlock]
    split
    · exact h
    · apply foldl_inv _ VotesNodup _ _ _ h
      intro s p hs
      unfold beginStep
      repeat' split
      all_goals exact hs
  | elect minSelf top hh pop => exact h
  | tally F env =>
    intro p hp
    exact h p (tallyWith_reqs_mem F env _ _ st p hp)

theorem run_votesNodup (st : State) (ops : List Op) (h : VotesNodup st) : VotesNodup (run st ops) := by
  induction ops generalizing st with
  | nil => exact h
  | cons op rest ih => exact ih (step st op) (step_votesNodup st op h)

/-- with distinct voters, the yes and no counts together never exceed the number of voters -/
theorem counts_le_voters (vs : List Vote) : countChoice 1 vs + countChoice 2 vs ≤ (vs.length : Int) := by
  unfold countChoice
  induction vs with
  | nil => simp
  | cons v t ih =>
    simp only [List.filter_cons, List.length_cons]
    by_cases h1 : v.choice = 1
    · have h2 : ¬ v.choice = 2 := by omega
      simp [h1] at ih ⊢; omega
    · by_cases h2 : v.choice = 2
      · simp [h2] at ih ⊢; omega
      · simp [h1, h2] at ih ⊢; omega

/-! ## the election pass -/

def inactiveAt (vs : List (Addr × VStat)) (a : Addr) : Prop := ∃ s, alookup a vs = some s ∧ s.active = false

theorem electStep_mal (minSelf top h : Int) (mal : List Addr) (acc : ElectAcc) (p : Addr × Int)
    (hm : mal.contains p.1 = true) :
    inactiveAt (electStep minSelf top h mal acc p).vstat p.1 ∧
    (electStep minSelf top h mal acc p).elected = acc.elected ∧
    (electStep minSelf top h mal acc p).cnt = acc.cnt := by
  unfold electStep
  simp only [hm, Bool.not_true, Bool.and_false, Bool.false_eq_true, if_false]
  refine ⟨?_, trivial, trivial⟩
  unfold inactiveAt
  cases hl : alookup p.1 acc.vstat with
  | none => exact ⟨⟨false, h⟩, by simp, rfl⟩
  | some s =>
    simp only
    by_cases hs : s.active = false
    · refine ⟨s, ?_, hs⟩
      simp [hs, hl]
    · have : s.active = true := by simpa using hs
      exact ⟨⟨false, h⟩, by simp [this], rfl⟩

theorem electStep_other (minSelf top h : Int) (mal : List Addr) (acc : ElectAcc) (p : Addr × Int) (a : Addr)
    (hne : a ≠ p.1) : alookup a (electStep minSelf top h mal acc p).vstat = alookup a acc.vstat := by
  unfold electStep
  simp only
  split
  · exact alookup_upsert_ne _ _ _ _ hne
  · split
    · exact alookup_upsert_ne _ _ _ _ hne
    · rfl

theorem electStep_elected (minSelf top h : Int) (mal : List Addr) (acc : ElectAcc) (p : Addr × Int) (a : Addr)
    (hm : mal.contains a = true) (hna : a ∉ acc.elected) :
    a ∉ (electStep minSelf top h mal acc p).elected := by
  unfold electStep
  simp only
  split
  · rename_i hupd
    intro hmem
    rcases List.mem_append.mp hmem with h' | h'
    · exact hna h'
    · simp at h'
      subst h'
      simp at hupd
      exact hupd.2 (by simpa using hm)
  · exact hna

/-- a validator in the malicious set is never elected, and once popped its status record says
    inactive -/
theorem elect_mal (minSelf top h : Int) (mal : List Addr) (pop : List (Addr × Int)) (vstat : List (Addr × VStat))
    (a : Addr) (hm : mal.contains a = true) :
    a ∉ (elect minSelf top h mal pop vstat).elected ∧
    (a ∈ pop.map (·.1) → inactiveAt (elect minSelf top h mal pop vstat).vstat a) := by
  unfold elect
  suffices H : ∀ (acc : ElectAcc), a ∉ acc.elected →
      a ∉ (pop.foldl (electStep minSelf top h mal) acc).elected ∧
      ((a ∈ pop.map (·.1) ∨ inactiveAt acc.vstat a) → inactiveAt (pop.foldl (electStep minSelf top h mal) acc).vstat a) by
    obtain ⟨h1, h2⟩ := H ⟨vstat, 0, []⟩ (by simp)
    exact ⟨h1, fun hp => h2 (Or.inl hp)⟩
  induction pop with
  | nil =>
    intro acc hna
    refine ⟨hna, ?_⟩
    intro h'
    rcases h' with h' | h'
    · simp at h'
    · exact h'
  | cons p rest ih =>
    intro acc hna
    rw [List.foldl_cons]
    obtain ⟨i1, i2⟩ := ih (electStep minSelf top h mal acc p) (electStep_elected minSelf top h mal acc p a hm hna)
    refine ⟨i1, ?_⟩
    intro h'
    apply i2
    by_cases hpa : a = p.1
    · right
      subst hpa
      exact (electStep_mal minSelf top h mal acc p hm).1
    · rcases h' with h' | h'
      · left
        simp only [List.map_cons, List.mem_cons] at h'
        rcases h' with h' | h'
        · exact absurd h' hpa
        · exact h'
      · right
        obtain ⟨s, hs1, hs2⟩ := h'
        exact ⟨s, by rw [electStep_other minSelf top h mal acc p a hpa]; exact hs1, hs2⟩

theorem mem_frozenSet {susp : List (Addr × Susp)} {a : Addr} {s : Susp}
    (hl : alookup a susp = some s) (hf : isFrozenRec s = true) : (frozenSet susp).contains a = true := by
  simp only [List.contains_iff_mem]
  unfold frozenSet
  exact List.mem_map.mpr ⟨(a, s), List.mem_filter.mpr ⟨alookup_some_mem hl, hf⟩, rfl⟩





/-! ## the tally as a whole -/

theorem cleanTrackerWith_perm {a₁ a₂ : List ReqId} (h : a₁.Perm a₂) (st : State) :
    cleanTrackerWith a₁ st = cleanTrackerWith a₂ st := by
  unfold cleanTrackerWith
  rw [sortIds_perm h]

theorem tallyWith_perm (F : FloatOps) (env : Env) {a₁ a₂ b₁ b₂ : List ReqId} (ha : a₁.Perm a₂) (hb : b₁.Perm b₂)
    (st : State) : tallyWith F env a₁ b₁ st = tallyWith F env a₂ b₂ st := by
  unfold tallyWith
  rw [cleanTrackerWith_perm ha, sortIds_perm hb]

theorem tallyOne_keeps_byz (F : FloatOps) (env : Env) (st : State) (del : List ReqId) (id : ReqId) (a : Addr)
    (h : alookup a st.susp = some (byzRec env)) :
    alookup a (tallyOne F env (st, del) id).1.susp = some (byzRec env) := by
  rcases tallyOne_susp F env st del id with e | ⟨ar, _, _, e⟩
  · rw [e]; exact h
  · rw [e, alookup_upsert]; split
    · rfl
    · exact h

theorem tallyOne_vstat (F : FloatOps) (env : Env) (st : State) (del : List ReqId) (id : ReqId) :
    (tallyOne F env (st, del) id).1.vstat = st.vstat := (tallyOne_static F env st del id).1

/-- the status records do not change during the loop -/
theorem tallyFold_vstat (F : FloatOps) (env : Env) (ids : List ReqId) (acc : State × List ReqId) :
    (ids.foldl (tallyOne F env) acc).1.vstat = acc.1.vstat :=
  tallyFold_inv F env (fun s => s.vstat = acc.1.vstat)
    (fun s del id hs => by rw [tallyOne_vstat]; exact hs) ids acc rfl

theorem tallyFold_guilty (F : FloatOps) (env : Env) (vs : List (Addr × VStat)) (ids : List ReqId)
    (acc : State × List ReqId) (id : ReqId) (ar : Request) (hvs : acc.1.vstat = vs)
    (hid : id ∈ ids) (har : alookup id acc.1.reqs = some ar) (hv : verdictOf env vs ar = .guilty) :
    alookup ar.accused (ids.foldl (tallyOne F env) acc).1.susp = some (byzRec env) := by
  induction ids generalizing acc with
  | nil => simp at hid
  | cons i rest ih =>
    rw [List.foldl_cons]
    obtain ⟨st, del⟩ := acc
    simp only at hvs har
    by_cases hi : id = i
    · subst hi
      exact tallyFold_inv F env (fun s => alookup ar.accused s.susp = some (byzRec env))
        (fun s d j hs => tallyOne_keeps_byz F env s d j ar.accused hs) rest _
        (tallyOne_guilty_freezes F env st del id ar har (by rw [hvs]; exact hv))
    · have hid' : id ∈ rest := by
        rcases List.mem_cons.mp hid with h | h
        · exact absurd h hi
        · exact h
      apply ih _ _ hid'
      · rw [tallyOne_reqs_ne F env st del i id hi]; exact har
      · rw [tallyOne_vstat]; exact hvs

theorem tallyFold_susp_change (F : FloatOps) (env : Env) (vs : List (Addr × VStat)) (ids : List ReqId)
    (acc : State × List ReqId) (a : Addr) (hvs : acc.1.vstat = vs)
    (h : alookup a (ids.foldl (tallyOne F env) acc).1.susp ≠ alookup a acc.1.susp) :
    ∃ id ar, id ∈ ids ∧ alookup id acc.1.reqs = some ar ∧ ar.accused = a ∧ verdictOf env vs ar = .guilty := by
  induction ids generalizing acc with
  | nil => exact absurd rfl h
  | cons i rest ih =>
    rw [List.foldl_cons] at h
    obtain ⟨st, del⟩ := acc
    simp only at hvs
    by_cases hstep : alookup a (tallyOne F env (st, del) i).1.susp = alookup a st.susp
    · have h' : alookup a (rest.foldl (tallyOne F env) (tallyOne F env (st, del) i)).1.susp ≠
          alookup a (tallyOne F env (st, del) i).1.susp := by rw [hstep]; exact h
      obtain ⟨id, ar, hid, har, hacc, hv⟩ := ih _ (by rw [tallyOne_vstat]; exact hvs) h'
      exact ⟨id, ar, List.mem_cons_of_mem _ hid, tallyOne_reqs_sub F env st del i id ar har, hacc, hv⟩
    · rcases tallyOne_susp F env st del i with e | ⟨ar, har, hv, e⟩
      · rw [e] at hstep; exact absurd rfl hstep
      · refine ⟨i, ar, by simp, har, ?_, by rw [← hvs]; exact hv⟩
        rw [e] at hstep
        by_cases haa : a = ar.accused
        · exact haa.symm
        · rw [alookup_upsert_ne _ _ _ _ haa] at hstep; exact absurd rfl hstep

theorem tallyFold_none_keeps (F : FloatOps) (env : Env) (vs : List (Addr × VStat)) (ids : List ReqId)
    (acc : State × List ReqId) (id : ReqId) (ar : Request) (hvs : acc.1.vstat = vs)
    (har : alookup id acc.1.reqs = some ar) (hv : verdictOf env vs ar = .none) :
    alookup id (ids.foldl (tallyOne F env) acc).1.reqs = some ar := by
  have := tallyFold_inv F env (fun s => s.vstat = vs ∧ alookup id s.reqs = some ar) ?_ ids acc ⟨hvs, har⟩
  · exact this.2
  intro st del i ⟨hs1, hs⟩
  refine ⟨by rw [tallyOne_vstat]; exact hs1, ?_⟩
  rw [← hs1] at hv
  by_cases hi : id = i
  · subst hi
    rcases tallyOne_cases F env st del id with ⟨h0, _⟩ | ⟨_, _, _, h⟩ | ⟨ar', h1, h2, _⟩ | ⟨ar', h1, h2, _⟩ | ⟨ar', _, h1, h2, _⟩
    · rw [h0] at hs; cases hs
    · rw [h]; exact hs
    · rw [h1] at hs; cases hs; rw [h2] at hv; cases hv
    · rw [h1] at hs; cases hs; rw [h2] at hv; cases hv
    · rw [h1] at hs; cases hs; rw [h2] at hv; cases hv
  · rw [tallyOne_reqs_ne F env st del i id hi]; exact hs

theorem tallyFold_decided_erases (F : FloatOps) (env : Env) (vs : List (Addr × VStat)) (ids : List ReqId)
    (acc : State × List ReqId) (id : ReqId) (ar : Request) (hvs : acc.1.vstat = vs)
    (hid : id ∈ ids) (har : alookup id acc.1.reqs = some ar)
    (hv : verdictOf env vs ar = .innocent ∨ (verdictOf env vs ar = .guilty ∧ (alookup ar.accused env.prev).isSome)) :
    alookup id (ids.foldl (tallyOne F env) acc).1.reqs = none := by
  induction ids generalizing acc with
  | nil => simp at hid
  | cons i rest ih =>
    rw [List.foldl_cons]
    obtain ⟨st, del⟩ := acc
    simp only at hvs har
    by_cases hi : id = i
    · subst hi
      rw [← hvs] at hv
      apply tallyFold_inv F env (fun s => alookup id s.reqs = none)
      · intro s d j hs
        cases hl : alookup id (tallyOne F env (s, d) j).1.reqs with
        | none => rfl
        | some r => rw [tallyOne_reqs_sub F env s d j id r hl] at hs; cases hs
      · rcases tallyOne_cases F env st del id with ⟨h0, _⟩ | ⟨ar', h1, h2, _⟩ | ⟨ar', h1, _, h⟩ | ⟨ar', h1, h2, h3, _⟩ | ⟨ar', _, h1, _, _, _, h, _⟩
        · rw [h0] at har; cases har
        · rw [h1] at har; cases har; rcases hv with hv | ⟨hv, _⟩ <;> (rw [h2] at hv; cases hv)
        · rw [h]; simp
        · rw [h1] at har; cases har
          rcases hv with hv | ⟨_, hp⟩
          · rw [h2] at hv; cases hv
          · rw [h3] at hp; cases hp
        · rw [h]; simp
    · have hid' : id ∈ rest := by
        rcases List.mem_cons.mp hid with h | h
        · exact absurd h hi
        · exact h
      apply ih _ _ hid'
      · rw [tallyOne_reqs_ne F env st del i id hi]; exact har
      · rw [tallyOne_vstat]; exact hvs

/-- the tally runs: somebody is active and the two decimals options are positive -/
def TallyRuns (env : Env) : Prop := env.active ≠ 0 ∧ 0 < env.opts.voteDec ∧ 0 < env.opts.allegDec

/-- `tallyWith` = cleanup, loop, tracker rewrite: records other than the tracker are the loop's -/
theorem tallyWith_eq (F : FloatOps) (env : Env) (o₁ o₂ : List ReqId) (st : State) (hrun : TallyRuns env) :
    (tallyWith F env o₁ o₂ st).susp = ((sortIds o₂).foldl (tallyOne F env) (cleanTrackerWith o₁ st, [])).1.susp ∧
    (tallyWith F env o₁ o₂ st).reqs = ((sortIds o₂).foldl (tallyOne F env) (cleanTrackerWith o₁ st, [])).1.reqs ∧
    (tallyWith F env o₁ o₂ st).vstat = st.vstat := by
  obtain ⟨h1, h2, h3⟩ := hrun
  have hd : ¬ (env.opts.voteDec ≤ 0 ∨ env.opts.allegDec ≤ 0) := by omega
  have hv := tallyFold_vstat F env (sortIds o₂) (cleanTrackerWith o₁ st, [])
  simp only [(cleanTrackerWith_fields o₁ st).2.1] at hv
  unfold tallyWith
  simp only [h1, hd, if_false]
  split <;> simp [hv]

theorem tallyWith_skipped (F : FloatOps) (env : Env) (o₁ o₂ : List ReqId) (st : State) (h : ¬ TallyRuns env) :
    tallyWith F env o₁ o₂ st = st := by
  unfold tallyWith
  by_cases h1 : env.active = 0
  · simp [h1]
  · have : env.opts.voteDec ≤ 0 ∨ env.opts.allegDec ≤ 0 := by
      unfold TallyRuns at h; omega
    simp [h1, this]

/-! ## thresholds (integer arithmetic in the code) -/

theorem verdictOf_guilty (env : Env) (vs : List (Addr × VStat)) (ar : Request) :
    verdictOf env vs ar = .guilty ↔
      countChoice 1 (activeVotes vs ar) * env.opts.allegDec > env.opts.allegPct * requiredVotes env.active env.opts := by
  unfold verdictOf
  simp only
  constructor
  · intro h
    split at h
    · assumption
    · split at h <;> cases h
  · intro h; simp [h]

theorem verdictOf_innocent (env : Env) (vs : List (Addr × VStat)) (ar : Request) :
    verdictOf env vs ar = .innocent ↔
      ¬ (countChoice 1 (activeVotes vs ar) * env.opts.allegDec > env.opts.allegPct * requiredVotes env.active env.opts) ∧
      countChoice 2 (activeVotes vs ar) * env.opts.allegDec >
        (env.opts.allegDec - env.opts.allegPct) * requiredVotes env.active env.opts := by
  unfold verdictOf
  simp only
  constructor
  · intro h
    split at h
    · cases h
    · rename_i hg
      split at h
      · rename_i hi; exact ⟨hg, hi⟩
      · cases h
  · intro ⟨h1, h2⟩; simp [h1, h2]

/-- `requiredVotes = ⌈active·votePct / voteDec⌉` when the share is not negative -/
theorem required_is_ceil (active : Int) (o : Opts) (hd : 0 < o.voteDec) (hp : 0 ≤ o.votePct) (ha : 0 < active) :
    let r := requiredVotes active o
    o.voteDec * (r - 1) < active * o.votePct ∧ active * o.votePct ≤ o.voteDec * r := by
  simp only [requiredVotes]
  have hx : 0 ≤ active * o.votePct := Int.mul_nonneg (by omega) hp
  rw [Int.tdiv_eq_ediv_of_nonneg (by omega)]
  have h1 := Int.mul_ediv_self_le (x := active * o.votePct + o.voteDec - 1) (k := o.voteDec) (by omega)
  have h2 := Int.lt_mul_ediv_self_add (x := active * o.votePct + o.voteDec - 1) (k := o.voteDec) hd
  generalize (active * o.votePct + o.voteDec - 1) / o.voteDec = q at *
  generalize active * o.votePct = x at *
  rw [Int.mul_sub, Int.mul_one]
  constructor <;> omega

/-- the verdict looks at the votes of currently active validators only -/
theorem activeVotes_idem (vs : List (Addr × VStat)) (ar : Request) :
    activeVotes vs { ar with votes := activeVotes vs ar } = activeVotes vs ar := by
  unfold activeVotes
  simp only [List.filter_filter, Bool.and_self]

theorem verdictOf_congr_votes (env : Env) (vs : List (Addr × VStat)) (ar ar' : Request)
    (h : activeVotes vs ar = activeVotes vs ar') : verdictOf env vs ar = verdictOf env vs ar' := by
  unfold verdictOf
  simp only [h]

/-- a `FloatOps` whose penalty agrees with the exact reading -/
structure Exact (F : FloatOps) : Prop where
  penalty : ∀ s o, F.penalty s o = exactOps.penalty s o

/-! ## the penalty in exact arithmetic -/

theorem penalty_round (s pct dec : Int) (hd : 0 < dec) :
    let P := (2 * s * pct + dec) / (2 * dec)
    2 * dec * P ≤ 2 * s * pct + dec ∧ 2 * s * pct + dec < 2 * dec * (P + 1) := by
  simp only
  have h1 := Int.mul_ediv_self_le (x := 2 * s * pct + dec) (k := 2 * dec) (by omega)
  have h2 := Int.lt_mul_ediv_self_add (x := 2 * s * pct + dec) (k := 2 * dec) (by omega)
  generalize (2 * s * pct + dec) / (2 * dec) = q at *
  rw [Int.mul_add, Int.mul_one]
  constructor <;> omega

theorem penalty_bounds (s pct dec : Int) (hd : 0 < dec) (hs : 0 ≤ s) (hp0 : 0 ≤ pct) (hp1 : pct ≤ dec) :
    0 ≤ (2 * s * pct + dec) / (2 * dec) ∧ (2 * s * pct + dec) / (2 * dec) ≤ s := by
  have hsp : 0 ≤ s * pct := Int.mul_nonneg hs hp0
  have hsd : s * pct ≤ s * dec := Int.mul_le_mul_of_nonneg_left hp1 hs
  have e1 : 2 * s * pct = 2 * (s * pct) := by rw [Int.mul_assoc]
  rw [e1]
  constructor
  · apply Int.ediv_nonneg <;> omega
  · apply Int.le_of_lt_add_one
    apply Int.ediv_lt_of_lt_mul (by omega)
    have e2 : (s + 1) * (2 * dec) = 2 * (s * dec) + 2 * dec := by
      rw [Int.add_mul, Int.one_mul, Int.mul_left_comm]
    rw [e2]; omega

theorem bounty_bounds (P cp cd : Int) (hd : 0 < cd) (hP : 0 ≤ P) (h0 : 0 ≤ cp) (h1 : cp ≤ cd) :
    0 ≤ P * e18 * cp / cd ∧ P * e18 * cp / cd ≤ P * e18 := by
  have he : 0 ≤ P * e18 := Int.mul_nonneg hP (by decide)
  constructor
  · exact Int.ediv_nonneg (Int.mul_nonneg he h0) (by omega)
  · apply Int.ediv_le_of_le_mul hd
    exact Int.mul_le_mul_of_nonneg_left h1 he

/-! ## release only after the release time -/

/-- `a` carries a byzantine-fault record, still frozen, written at or after `t0` -/
def ByzSince (st : State) (a : Addr) (t0 : Int) : Prop :=
  ∃ s, alookup a st.susp = some s ∧ s.status = 2 ∧ isFrozenRec s = true ∧ t0 ≤ s.frozenAt

/-- block times from `t0` on -/
def TimeFrom (t0 : Int) : Op → Prop
  | .tally _ env => t0 ≤ env.time
  | _ => True

theorem byzSince_of_lookup {st st' : State} {a : Addr} {t0 : Int} (h : alookup a st'.susp = alookup a st.susp)
    (hb : ByzSince st a t0) : ByzSince st' a t0 := by
  obtain ⟨s, h1, h2⟩ := hb
  exact ⟨s, by rw [h]; exact h1, h2⟩

theorem foldl_inv_mem {α β : Type} (f : β → α → β) (P : β → Prop) (l : List α)
    (hstep : ∀ b a, a ∈ l → P b → P (f b a)) (b : β) (h : P b) : P (l.foldl f b) := by
  induction l generalizing b with
  | nil => exact h
  | cons x t ih =>
    exact ih (fun b a ha hb => hstep b a (List.mem_cons_of_mem _ ha) hb) _ (hstep b x (by simp) h)

theorem beginStep_lookup_other (o : Opts) (h now : Int) (prev : List (Addr × ValRec)) (st : State) (p : Addr × Int)
    (a : Addr) (hne : a ≠ p.1) : alookup a (beginStep o h now prev st p).susp = alookup a st.susp := by
  unfold beginStep
  repeat' split
  all_goals first | rfl | exact alookup_upsert_ne _ _ _ _ hne

theorem beginStep_frozen_skip (o : Opts) (h now : Int) (prev : List (Addr × ValRec)) (st : State) (p : Addr × Int)
    (hf : isFrozen st p.1 = true) : beginStep o h now prev st p = st := by
  unfold beginStep; simp [hf]

theorem isFrozen_of_byzSince {st : State} {a : Addr} {t0 : Int} (hb : ByzSince st a t0) : isFrozen st a = true := by
  obtain ⟨s, h1, _, h3, _⟩ := hb
  unfold isFrozen; rw [h1]; exact h3

theorem tallyOne_byzSince (F : FloatOps) (env : Env) (st : State) (del : List ReqId) (id : ReqId) (a : Addr) (t0 : Int)
    (ht : t0 ≤ env.time) (hb : ByzSince st a t0) : ByzSince (tallyOne F env (st, del) id).1 a t0 := by
  rcases tallyOne_susp F env st del id with e | ⟨ar, _, _, e⟩
  · exact byzSince_of_lookup (by rw [e]) hb
  · by_cases haa : a = ar.accused
    · subst haa
      exact ⟨byzRec env, by rw [e]; simp, rfl, rfl, ht⟩
    · exact byzSince_of_lookup (by rw [e, alookup_upsert_ne _ _ _ _ haa]) hb

theorem step_byzSince (st : State) (op : Op) (a : Addr) (t0 : Int) (hnr : NotRelease a op)
    (htf : TimeFrom t0 op) (hb : ByzSince st a t0) : ByzSince (step st op) a t0 := by
  cases op with
  | allege h rep acc id bh sig fee =>
    exact byzSince_of_lookup (withAdmission_susp_lookup st sig fee _ a (by rw [(runAllege_fields st h rep acc id bh).1])) hb
  | vote id voter ch sig fee =>
    exact byzSince_of_lookup (withAdmission_susp_lookup st sig fee _ a (by rw [runVote_susp])) hb
  | release days val h now sig fee =>
    exact byzSince_of_lookup (withAdmission_susp_lookup st sig fee _ a (handleRelease_other st days val h now a (Ne.symm hnr))) hb
  | stake v s amt => exact byzSince_of_lookup (by simp only [step]; rw [runStake_susp]) hb
  | unstake v s amt => exact byzSince_of_lookup (by simp only [step]; rw [runUnstake_susp]) hb
  | withdraw vals v s amt => exact byzSince_of_lookup (by simp only [step]; rw [runWithdraw_susp]) hb
  | beginBlock o h now cv prev =>
    simp only [step, beginBlock]
    split
    · exact hb
    · apply foldl_inv_mem _ (fun s => ByzSince s a t0) _ _ _ hb
      intro s p _ hs
      by_cases hpa : a = p.1
      · rw [beginStep_frozen_skip o h now prev s p (by rw [← hpa]; exact isFrozen_of_byzSince hs)]; exact hs
      · exact byzSince_of_lookup (beginStep_lookup_other o h now prev s p a hpa) hs
  | elect minSelf top h pop => exact byzSince_of_lookup rfl hb
  | tally F env =>
    simp only [step, tally]
    by_cases hact : TallyRuns env
    · apply byzSince_of_lookup (st := ((sortIds st.tracker).foldl (tallyOne F env) (cleanTrackerWith st.tracker st, [])).1)
      · rw [(tallyWith_eq F env _ _ st hact).1]
      · apply tallyFold_inv F env (fun s => ByzSince s a t0)
        · intro s del id hs; exact tallyOne_byzSince F env s del id a t0 htf hs
        · exact byzSince_of_lookup (by rw [(cleanTrackerWith_fields _ st).1]) hb
    · rw [tallyWith_skipped F env _ _ st hact]; exact hb

theorem run_byzSince (st : State) (ops : List Op) (a : Addr) (t0 : Int)
    (hops : ∀ op, op ∈ ops → NotRelease a op ∧ TimeFrom t0 op)
    (hb : ByzSince st a t0) : ByzSince (run st ops) a t0 := by
  induction ops generalizing st with
  | nil => exact hb
  | cons op rest ih =>
    simp only [run, List.foldl_cons]
    obtain ⟨h1, h3⟩ := hops op (by simp)
    exact ih (step st op) (fun o ho => hops o (List.mem_cons_of_mem _ ho)) (step_byzSince st op a t0 h1 h3 hb)

/-- `HandleRelease` succeeds on a byzantine-fault record only after the release time -/
theorem handleRelease_ok_time (st st' : State) (days : Int) (a : Addr) (h now t0 : Int)
    (hb : ByzSince st a t0) (hok : handleRelease st days a h now = (.ok, st')) : now > t0 + 86400 * days := by
  obtain ⟨s, hl, hs2, hfr, ht⟩ := hb
  unfold handleRelease at hok
  rw [hl] at hok
  simp only [hfr, Bool.not_true, Bool.false_eq_true, if_false] at hok
  unfold releaseReady at hok
  have h1 : ¬ s.status = 1 := by omega
  simp only [hs2, if_true] at hok
  by_cases hlt : now > s.frozenAt + 86400 * days
  · omega
  · simp [hlt] at hok

/-! ## the amounts of a guilty verdict -/

theorem minusFromAddress_ok (st : State) (v d : Addr) (c : Int) (h1 : c ≤ getI st.total v)
    (h2 : c ≤ getI st.vd (v, d)) (h3 : c ≤ getI st.de d) :
    minusFromAddress st v d c =
      ({ st with total := upsert st.total v (getI st.total v - c),
                 vd := upsert st.vd (v, d) (getI st.vd (v, d) - c),
                 de := upsert st.de d (getI st.de d - c) }, true) := by
  unfold minusFromAddress
  simp only []
  have e1 : ¬ getI st.total v - c < 0 := by omega
  have e2 : ¬ getI st.vd (v, d) - c < 0 := by omega
  have e3 : ¬ getI st.de d - c < 0 := by omega
  simp [e1, e2, e3]

/-- a refused debit writes nothing -/
theorem minusFromAddress_refused (st : State) (v d : Addr) (c : Int)
    (h : ¬ (c ≤ getI st.total v ∧ c ≤ getI st.vd (v, d) ∧ c ≤ getI st.de d)) :
    minusFromAddress st v d c = (st, false) := by
  unfold minusFromAddress
  simp only []
  repeat' split
  all_goals first | rfl | (exfalso; apply h; refine ⟨?_, ?_, ?_⟩ <;> omega)

theorem minusFromAddress_bounty (st : State) (v d : Addr) (c : Int) :
    (minusFromAddress st v d c).1.bounty = st.bounty := (minusFromAddress_fields st v d c).2.2.2.2.1

/-- the loop body on a guilty verdict against an address that has a validator record -/
theorem tallyOne_guilty_eq (F : FloatOps) (env : Env) (st : State) (del : List ReqId) (id : ReqId) (ar : Request)
    (v : ValRec) (har : alookup id st.reqs = some ar) (hv : verdictOf env st.vstat ar = .guilty)
    (hp : alookup ar.accused env.prev = some v) :
    tallyOne F env (st, del) id =
      (let P := F.penalty (getI st.total ar.accused) env.opts;
       let m := minusFromAddress { st with susp := upsert st.susp ar.accused (byzRec env) } ar.accused (slashAddr env ar.accused v) P;
       let st3 : State := if m.2 then { m.1 with bounty := m.1.bounty + P * e18 * env.opts.bountyPct / env.opts.bountyDec } else m.1;
       let st4 : State := if m.2 then { st3 with delayed := upsert st3.delayed (env.height, ar.accused) P } else st3;
       ({ st4 with reqs := aerase st4.reqs id }, del ++ [id])) := by
  unfold tallyOne
  simp only [har, hv, hp]
  rfl

/-! ## the owner guard of WITHDRAW -/

theorem frozenOwner_of_mem (st : State) (vals : List (Addr × ValRec)) (v s : Addr) (r : ValRec)
    (hm : (v, r) ∈ vals) (hs : r.stakeAddr = s) (hf : isFrozen st v = true) : frozenOwner st vals s = true := by
  unfold frozenOwner
  exact List.any_eq_true.mpr ⟨(v, r), hm, by simp [hs, hf]⟩

/-! ## the tracker is a set -/

theorem step_trackerNodup (st : State) (op : Op) (h : st.tracker.Nodup) : (step st op).tracker.Nodup := by
  cases op with
  | allege hh rep acc id bh sig fee =>
    apply withAdmission_inv (fun s => s.tracker.Nodup) st sig fee _ h
    unfold runAllege performAllegation
    repeat' split
    all_goals try exact h
    simp only
    split
    · exact h
    · rename_i hc
      rw [List.nodup_append]
      refine ⟨h, by simp, ?_⟩
      intro a ha b hb
      simp at hb
      subst hb
      intro e; subst e
      exact hc (by simpa using ha)
  | vote id voter ch sig fee =>
    apply withAdmission_inv (fun s => s.tracker.Nodup) st sig fee _ h
    unfold runVote castVote
    repeat' split
    all_goals exact h
  | release days val hh now sig fee =>
    apply withAdmission_inv (fun s => s.tracker.Nodup) st sig fee _ h
    unfold handleRelease
    repeat' split
    all_goals exact h
  | stake v s amt => simp only [step, runStake]; split <;> exact h
  | unstake v s amt =>
    simp only [step, runUnstake]
    split
    · exact h
    · split
      · exact h
      · have := (minusFromAddress_fields st v s amt).2.2.2.1
        generalize minusFromAddress st v s amt = m at *
        obtain ⟨m1, m2⟩ := m
        cases m2
        · exact h
        · simp only at this ⊢; rw [this]; exact h
  | withdraw vals v s amt =>
    simp only [step, runWithdraw]
    repeat' split
    all_goals exact h
  | beginBlock o hh now cv prev =>
    simp only [step, beginBlock]
    split
    · exact h
    · apply foldl_inv _ (fun (s : State) => s.tracker.Nodup) _ _ _ h
      intro s p hs
      unfold beginStep
      repeat' split
      all_goals exact hs
  | elect minSelf top hh pop => exact h
  | tally F env =>
    simp only [step, tally, tallyWith]
    split
    · exact h
    split
    · exact h
    · have hk := tallyFold_inv F env (fun s => s.tracker = st.tracker)
        (fun s del id hs => by rw [(tallyOne_static F env s del id).2.1]; exact hs)
        (sortIds st.tracker) (cleanTrackerWith st.tracker st, []) (cleanTrackerWith_fields _ st).2.2.1
      split
      · rw [hk]; exact h
      · exact h.sublist List.filter_sublist

theorem run_trackerNodup (st : State) (ops : List Op) (h : st.tracker.Nodup) : (run st ops).tracker.Nodup := by
  induction ops generalizing st with
  | nil => exact h
  | cons op rest ih => exact ih (step st op) (step_trackerNodup st op h)

/-! ## evaluating the sorts on inputs that are already in order (for the concrete examples) -/

theorem sortIds_of_sorted {l : List ReqId} (h : l.Pairwise fun a b => leS a b = true) : sortIds l = l :=
  List.mergeSort_of_pairwise h

theorem sortVotes_of_sorted {l : List Vote} (h : l.Pairwise fun a b => leS a.addr b.addr = true) : sortVotes l = l :=
  List.mergeSort_of_pairwise h

/-- the tally with the two id lists given in processing order -/
def tallyCore (F : FloatOps) (env : Env) (cl tl : List ReqId) (st : State) : State :=
  if env.active = 0 then st
  else if env.opts.voteDec ≤ 0 ∨ env.opts.allegDec ≤ 0 then st
  else
    let r := tl.foldl (tallyOne F env) ({ st with reqs := cleanLoop cl [] st.reqs }, [])
    if r.2.isEmpty then r.1
    else { r.1 with tracker := st.tracker.filter fun i => !r.2.contains i }

theorem tallyWith_core (F : FloatOps) (env : Env) (o₁ o₂ : List ReqId) (st : State)
    (h₁ : o₁.Pairwise fun a b => leS a b = true) (h₂ : o₂.Pairwise fun a b => leS a b = true) :
    tallyWith F env o₁ o₂ st = tallyCore F env o₁ o₂ st := by
  unfold tallyWith tallyCore cleanTrackerWith
  rw [sortIds_of_sorted h₁, sortIds_of_sorted h₂]

theorem beginBlock_of_sorted (o : Opts) (h now : Int) (cv : List (Addr × Int)) (prev : List (Addr × ValRec)) (st : State)
    (hs : cv.Pairwise fun a b => leS a.1 b.1 = true) :
    beginBlock o h now cv prev st = if h ≤ o.blockVotesDiff then st else cv.foldl (beginStep o h now prev) st := by
  unfold beginBlock
  rw [List.mergeSort_of_pairwise hs]




/-! ## at most one open request per accused address -/

/-- the duplicate check of PerformAllegation sees every open request (d2f2af2), so no two open
    requests are against the same address -/
def OnePerAccused (st : State) : Prop :=
  ∀ i j a b, alookup i st.reqs = some a → alookup j st.reqs = some b → a.accused = b.accused → i = j

theorem onePerAccused_of_sub {st st' : State}
    (hsub : ∀ i r, alookup i st'.reqs = some r → alookup i st.reqs = some r) (h : OnePerAccused st) :
    OnePerAccused st' :=
  fun i j a b ha hb => h i j a b (hsub i a ha) (hsub j b hb)

theorem requestExists_false {st : State} {acc : Addr} (h : requestExists st acc = false) (j : ReqId) (b : Request)
    (hb : alookup j st.reqs = some b) : b.accused ≠ acc := by
  intro e
  have := List.any_eq_false.mp h (j, b) (alookup_some_mem hb)
  simp [e] at this

theorem runAllege_onePerAccused (st : State) (h : Int) (rep acc : Addr) (id : ReqId) (bh : Int)
    (hn : OnePerAccused st) : OnePerAccused (runAllege st h rep acc id bh).2 := by
  unfold runAllege performAllegation
  repeat' split
  all_goals try exact hn
  rename_i hbusy hex
  have hbusy' : alookup id st.reqs = none := by
    cases hl : alookup id st.reqs with
    | none => rfl
    | some r => simp [hl] at hbusy
  have hex' : requestExists st acc = false := by simpa using hex
  apply onePerAccused_of_sub (st := { st with reqs := upsert st.reqs id ⟨rep, acc, bh, 1, []⟩ })
  · intro i r hr
    simp only [cleanTracker, cleanTrackerWith] at hr
    exact (cleanLoop_sub _ _ _).2 i r hr
  · intro i j a b ha hb hab
    simp only at ha hb
    rw [alookup_upsert] at ha hb
    by_cases hi : i = id <;> by_cases hj : j = id
    · rw [hi, hj]
    · simp [hi] at ha; simp [hj] at hb
      subst ha
      exact absurd hab.symm (requestExists_false hex' j b hb)
    · simp [hi] at ha; simp [hj] at hb
      subst hb
      exact absurd hab (requestExists_false hex' i a ha)
    · simp [hi] at ha; simp [hj] at hb
      exact hn i j a b ha hb hab

theorem castVote_onePerAccused (st : State) (id : ReqId) (voter : Addr) (c : Int) (hn : OnePerAccused st) :
    OnePerAccused (castVote st id voter c).2 := by
  unfold castVote
  split
  · exact hn
  · rename_i ar har
    repeat' split
    all_goals try exact hn
    have key : ∀ i a, alookup i (upsert st.reqs id { ar with votes := sortVotes (ar.votes ++ [⟨voter, c⟩]) }) = some a →
        ∃ a0, alookup i st.reqs = some a0 ∧ a0.accused = a.accused := by
      intro i a ha
      rw [alookup_upsert] at ha
      by_cases hi : i = id
      · simp [hi] at ha; subst ha; exact ⟨ar, by rw [hi]; exact har, rfl⟩
      · simp [hi] at ha; exact ⟨a, ha, rfl⟩
    intro i j a b ha hb hab
    obtain ⟨a0, ha0, ea⟩ := key i a ha
    obtain ⟨b0, hb0, eb⟩ := key j b hb
    exact hn i j a0 b0 ha0 hb0 (by rw [ea, eb]; exact hab)

theorem tallyWith_reqs_sub (F : FloatOps) (env : Env) (o₁ o₂ : List ReqId) (st : State) (i : ReqId) (r : Request)
    (h : alookup i (tallyWith F env o₁ o₂ st).reqs = some r) : alookup i st.reqs = some r := by
  unfold tallyWith at h
  split at h
  · exact h
  split at h
  · exact h
  · have key : ∀ q, alookup i (List.foldl (tallyOne F env) (cleanTrackerWith o₁ st, []) (sortIds o₂)).1.reqs = some q →
        alookup i st.reqs = some q := by
      have := tallyFold_inv F env (fun s => ∀ q, alookup i s.reqs = some q → alookup i st.reqs = some q)
        (fun s del id hs q hq => hs q (tallyOne_reqs_sub F env s del id i q hq)) (sortIds o₂) (cleanTrackerWith o₁ st, [])
        (fun q hq => (cleanLoop_sub _ _ _).2 i q hq)
      exact this
    simp only at h
    split at h
    · exact key r h
    · exact key r h

theorem step_onePerAccused (st : State) (op : Op) (h : OnePerAccused st) : OnePerAccused (step st op) := by
  cases op with
  | allege hh rep acc id bh sig fee =>
    exact withAdmission_inv OnePerAccused st sig fee _ h (runAllege_onePerAccused st hh rep acc id bh h)
  | vote id voter ch sig fee =>
    apply withAdmission_inv OnePerAccused st sig fee _ h
    unfold runVote
    repeat' split
    all_goals first | exact h | exact castVote_onePerAccused st id voter ch h
  | release days val hh now sig fee =>
    apply withAdmission_inv OnePerAccused st sig fee _ h
    unfold handleRelease
    repeat' split
    all_goals exact h
  | stake v s amt => simp only [step, runStake]; split <;> exact h
  | unstake v s amt =>
    simp only [step, runUnstake]
    split
    · exact h
    · split
      · exact h
      · have := (minusFromAddress_fields st v s amt).1
        generalize minusFromAddress st v s amt = m at *
        obtain ⟨m1, m2⟩ := m
        cases m2
        · exact h
        · exact onePerAccused_of_sub (fun i r hr => by simp only at this hr; rw [this] at hr; exact hr) h
  | withdraw vals v s amt =>
    simp only [step, runWithdraw]
    repeat' split
    all_goals exact h
  | beginBlock o hh now cv prev =>
    simp only [step, beginBlock]
    split
    · exact h
    · apply foldl_inv _ OnePerAccused _ _ _ h
      intro s p hs
      unfold beginStep
      repeat' split
      all_goals exact hs
  | elect minSelf top hh pop => exact h
  | tally F env => exact onePerAccused_of_sub (fun i r hr => tallyWith_reqs_sub F env _ _ st i r hr) h

theorem run_onePerAccused (st : State) (ops : List Op) (h : OnePerAccused st) : OnePerAccused (run st ops) := by
  induction ops generalizing st with
  | nil => exact h
  | cons op rest ih => exact ih (step st op) (step_onePerAccused st op h)


end OLP.Alleg

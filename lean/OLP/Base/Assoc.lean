/-
  Association lists in first-write order: the shape of `storage.sessionCache`
  (`store` map + `keys` slice + `done` map).  `upsert` keeps the position of an
  existing key and appends a new one, exactly as `sessionCache.Set` does.
  Core-only (no Mathlib): this file is linked into the driver executable.
-/
namespace OLP

variable {K V : Type} [DecidableEq K]

/-- lookup by key (first match; keys are unique in every list we build) -/
def alookup (k : K) : List (K × V) → Option V
  | [] => none
  | (k', v) :: t => if k' = k then some v else alookup k t

/-- replace the value of an existing key in place, or append a new pair -/
def upsert : List (K × V) → K → V → List (K × V)
  | [], k, v => [(k, v)]
  | (k', v') :: t, k, v => if k' = k then (k, v) :: t else (k', v') :: upsert t k v

/-- remove a key -/
def aerase : List (K × V) → K → List (K × V)
  | [], _ => []
  | (k', v') :: t, k => if k' = k then aerase t k else (k', v') :: aerase t k

def akeys (l : List (K × V)) : List K := l.map (·.1)

@[simp] theorem alookup_nil (k : K) : alookup k ([] : List (K × V)) = none := rfl

@[simp] theorem alookup_upsert_self (l : List (K × V)) (k : K) (v : V) :
    alookup k (upsert l k v) = some v := by
  induction l with
  | nil => simp [upsert, alookup]
  | cons h t ih =>
    obtain ⟨k', v'⟩ := h
    by_cases hk : k' = k
    · simp [upsert, alookup, hk]
    · simp [upsert, alookup, hk, ih]

theorem alookup_upsert_ne (l : List (K × V)) (k k' : K) (v : V) (h : k' ≠ k) :
    alookup k' (upsert l k v) = alookup k' l := by
  induction l with
  | nil => simp [upsert, alookup]; intro h'; exact absurd h'.symm h
  | cons hd t ih =>
    obtain ⟨k'', v''⟩ := hd
    by_cases hk : k'' = k
    · subst hk
      have : ¬ k'' = k' := fun e => h e.symm
      simp [upsert, alookup, this]
    · by_cases hk2 : k'' = k'
      · subst hk2; simp [upsert, alookup, hk]
      · simp [upsert, alookup, hk, hk2, ih]

theorem alookup_upsert (l : List (K × V)) (k k' : K) (v : V) :
    alookup k' (upsert l k v) = if k' = k then some v else alookup k' l := by
  by_cases h : k' = k
  · subst h; simp
  · simp [h, alookup_upsert_ne l k k' v h]

@[simp] theorem alookup_aerase_self (l : List (K × V)) (k : K) :
    alookup k (aerase l k) = none := by
  induction l with
  | nil => rfl
  | cons h t ih =>
    obtain ⟨k', v'⟩ := h
    by_cases hk : k' = k
    · simp [aerase, hk, ih]
    · simp [aerase, alookup, hk, ih]

theorem alookup_aerase_ne (l : List (K × V)) (k k' : K) (h : k' ≠ k) :
    alookup k' (aerase l k) = alookup k' l := by
  induction l with
  | nil => rfl
  | cons hd t ih =>
    obtain ⟨k'', v''⟩ := hd
    by_cases hk : k'' = k
    · subst hk
      have : ¬ k'' = k' := fun e => h e.symm
      simp [aerase, alookup, this, ih]
    · by_cases hk2 : k'' = k'
      · subst hk2; simp [aerase, alookup, hk]
      · simp [aerase, alookup, hk, hk2, ih]

theorem alookup_aerase (l : List (K × V)) (k k' : K) :
    alookup k' (aerase l k) = if k' = k then none else alookup k' l := by
  by_cases h : k' = k
  · subst h; simp
  · simp [h, alookup_aerase_ne l k k' h]

theorem akeys_upsert_of_mem (l : List (K × V)) (k : K) (v : V) (h : k ∈ akeys l) :
    akeys (upsert l k v) = akeys l := by
  induction l with
  | nil => simp [akeys] at h
  | cons hd t ih =>
    obtain ⟨k', v'⟩ := hd
    by_cases hk : k' = k
    · simp [upsert, akeys, hk]
    · have : k ∈ akeys t := by
        simp [akeys] at h
        rcases h with h | h
        · exact absurd h.symm hk
        · simp [akeys]; exact h
      have ih' := ih this
      simp [upsert, akeys, hk] at ih' ⊢
      exact ih'

theorem akeys_upsert_of_not_mem (l : List (K × V)) (k : K) (v : V) (h : k ∉ akeys l) :
    akeys (upsert l k v) = akeys l ++ [k] := by
  induction l with
  | nil => simp [upsert, akeys]
  | cons hd t ih =>
    obtain ⟨k', v'⟩ := hd
    have hk : ¬ k' = k := by
      intro e; apply h; simp [akeys, e]
    have : k ∉ akeys t := by
      intro m; apply h; simp [akeys] at m ⊢; exact Or.inr m
    have ih' := ih this
    simp [upsert, akeys, hk] at ih' ⊢
    exact ih'

theorem mem_akeys_iff_alookup (l : List (K × V)) (k : K) :
    k ∈ akeys l ↔ (alookup k l).isSome := by
  induction l with
  | nil => simp [akeys]
  | cons hd t ih =>
    obtain ⟨k', v'⟩ := hd
    by_cases hk : k' = k
    · simp [akeys, alookup, hk]
    · have : ¬ k = k' := fun e => hk e.symm
      simp [akeys, alookup, hk, this] at ih ⊢
      exact ih

theorem not_mem_akeys_alookup (l : List (K × V)) (k : K) (h : k ∉ akeys l) :
    alookup k l = none := by
  cases h' : alookup k l with
  | none => rfl
  | some v => exact absurd ((mem_akeys_iff_alookup l k).mpr (by simp [h'])) h

theorem nodup_akeys_upsert (l : List (K × V)) (k : K) (v : V) (h : (akeys l).Nodup) :
    (akeys (upsert l k v)).Nodup := by
  by_cases hk : k ∈ akeys l
  · rw [akeys_upsert_of_mem l k v hk]; exact h
  · rw [akeys_upsert_of_not_mem l k v hk]
    rw [List.nodup_append]
    refine ⟨h, by simp, ?_⟩
    intro a ha b hb
    simp at hb
    subst hb
    intro e
    subst e
    exact hk ha

theorem mem_akeys_upsert (l : List (K × V)) (k k' : K) (v : V) :
    k' ∈ akeys (upsert l k v) ↔ k' = k ∨ k' ∈ akeys l := by
  rw [mem_akeys_iff_alookup, mem_akeys_iff_alookup, alookup_upsert]
  by_cases h : k' = k <;> simp [h]

/-- replaying `o` into `l` with `upsert` (the shape of `cacheSession.Commit`) -/
theorem nodup_akeys_foldl_upsert (o l : List (K × V)) (h : (akeys l).Nodup) :
    (akeys (o.foldl (fun acc p => upsert acc p.1 p.2) l)).Nodup := by
  induction o generalizing l with
  | nil => exact h
  | cons hd t ih => exact ih _ (nodup_akeys_upsert l hd.1 hd.2 h)

theorem alookup_foldl_upsert (o l : List (K × V)) (hn : (akeys o).Nodup) (k : K) :
    alookup k (o.foldl (fun acc p => upsert acc p.1 p.2) l) =
      match alookup k o with
      | some v => some v
      | none => alookup k l := by
  induction o generalizing l with
  | nil => rfl
  | cons hd t ih =>
    obtain ⟨k1, v1⟩ := hd
    have hn' : k1 ∉ akeys t ∧ (akeys t).Nodup := by
      simpa [akeys] using hn
    rw [List.foldl_cons, ih _ hn'.2]
    by_cases hk : k1 = k
    · subst hk
      simp [alookup, not_mem_akeys_alookup t k1 hn'.1]
    · have hk' : k ≠ k1 := fun e => hk e.symm
      simp only [alookup, hk, if_false]
      rw [alookup_upsert_ne l k1 k v1 hk']

theorem akeys_foldl_upsert (o l : List (K × V)) (hn : (akeys o).Nodup) :
    akeys (o.foldl (fun acc p => upsert acc p.1 p.2) l) =
      akeys l ++ (akeys o).filter (fun k => decide (k ∉ akeys l)) := by
  induction o generalizing l with
  | nil => simp [akeys]
  | cons hd t ih =>
    obtain ⟨k1, v1⟩ := hd
    have hn' : k1 ∉ akeys t ∧ (akeys t).Nodup := by
      simpa [akeys] using hn
    rw [List.foldl_cons, ih _ hn'.2]
    by_cases hk : k1 ∈ akeys l
    · rw [akeys_upsert_of_mem l k1 v1 hk]
      have : akeys ((k1, v1) :: t) = k1 :: akeys t := rfl
      rw [this, List.filter_cons]
      simp [hk]
    · rw [akeys_upsert_of_not_mem l k1 v1 hk]
      have : akeys ((k1, v1) :: t) = k1 :: akeys t := rfl
      rw [this, List.filter_cons]
      simp only [hk, not_false_eq_true, decide_true, if_true, List.append_assoc,
        List.singleton_append]
      congr 2
      apply List.filter_congr
      intro x hx
      have : x ≠ k1 := fun e => hn'.1 (e ▸ hx)
      simp [this]

end OLP

/-
  OLP.Stake.Shape — the handlers in closed form: either nothing changed and the result is not
  `ok`, or the guards held and the new state is an explicit record update.
-/
import OLP.Stake.Basic

namespace OLP.Stake

/-- the result of a successful unstake, spelled out -/
def unstakeOk (s : St) (v d : Addr) (a : Int) (r : VRec) : St :=
  { s with tot := upd s.tot v (s.tot v - a), vd := upd2 s.vd v d (s.vd v d - a),
           eff := upd s.eff d (s.eff d - a),
           mat := upd s.mat (s.height + s.maturity)
                    (sortByAddr (s.mat (s.height + s.maturity) ++ [(d, a)])),
           vals := upd s.vals v (some ⟨r.staking - a, powerOf (r.staking - a), r.sa⟩),
           gMaturing := upd s.gMaturing d (s.gMaturing d + a),
           gSched := upd2 s.gSched (s.height + s.maturity) d
                      (s.gSched (s.height + s.maturity) d + a),
           gKeys := if (s.height + s.maturity) ∈ s.gKeys then s.gKeys
                    else (s.height + s.maturity) :: s.gKeys }

theorem runUnstake_cases (s : St) (v d : Addr) (a : Int) :
    ((runUnstake s v d a).1 = s ∧ (runUnstake s v d a).2 ≠ .ok) ∨
    (∃ r, s.vals v = some r ∧ s.frozen v = false ∧ s.req v = false ∧
          a ≤ s.tot v ∧ a ≤ s.vd v d ∧ a ≤ s.eff d ∧ purgeBlocks s v s.height = false ∧
          runUnstake s v d a = (unstakeOk s v d a r, .ok)) := by
  by_cases hf : s.frozen v = true
  · left; simp [runUnstake, hf]
  by_cases hr : s.req v = true
  · left; simp [runUnstake, hf, hr]
  by_cases hm : (minusFromAddress s v d a).2 = true
  · have hs := minus_ok s v d a hm
    have hm' := (minus_snd s v d a).mp hm
    have he : minusFromAddress s v d a =
        ({ s with tot := upd s.tot v (s.tot v - a), vd := upd2 s.vd v d (s.vd v d - a),
                  eff := upd s.eff d (s.eff d - a) }, true) := by
      rw [← hs, ← hm]
    cases hv : s.vals v with
    | none => left; simp [runUnstake, hf, hr, he, hv]
    | some r =>
      by_cases hp : purgeBlocks s v s.height = true
      · left
        have hp' : (decide (s.purge v > 0) && decide (s.purge v + 2 > s.height)) = true := hp
        simp [runUnstake, hf, hr, he, hv, purgeBlocks, hp']
      · right
        have hp' : (decide (s.purge v > 0) && decide (s.purge v + 2 > s.height)) = false := by
          simpa [purgeBlocks] using hp
        refine ⟨r, rfl, by simpa using hf, by simpa using hr, hm'.1, hm'.2.1, hm'.2.2,
          by simpa using hp, ?_⟩
        simp [runUnstake, hf, hr, he, hv, purgeBlocks, hp', unstakeOk]
  · left
    have hm2 : (minusFromAddress s v d a).2 = false := by simpa using hm
    have he : minusFromAddress s v d a = ((minusFromAddress s v d a).1, false) := by
      rw [← hm2]
    simp only [runUnstake, hf, hr]
    rw [he]
    simp

/-- the result of a successful withdraw -/
def withdrawOk (s : St) (d : Addr) (a : Int) : St :=
  { s with bnd := upd s.bnd d (s.bnd d - a),
           bal := upd s.bal d (s.bal d + coinOf a),
           gWithdrawn := upd s.gWithdrawn d (s.gWithdrawn d + a),
           gPaidOut := upd s.gPaidOut d (s.gPaidOut d + coinOf a) }

theorem runWithdraw_cases (s : St) (v d : Addr) (a : Int) :
    ((runWithdraw s v d a).1 = s ∧ (runWithdraw s v d a).2 ≠ .ok) ∨
    (s.frozen v = false ∧ frozenOwner s d = false ∧ a ≤ s.bnd d ∧
      runWithdraw s v d a = (withdrawOk s d a, .ok)) := by
  unfold runWithdraw
  by_cases hf : s.frozen v = true
  · left; simp [hf]
  · by_cases hfo : frozenOwner s d = true
    · left; simp [hf, hfo]
    · by_cases hb : s.bnd d - a < 0
      · left; simp [hf, hfo, hb]
      · right
        refine ⟨by simpa using hf, by simpa using hfo, by omega, ?_⟩
        simp [hf, hfo, hb, withdrawOk]

/-- the record written by `HandleStake` -/
def stakeRec (s : St) (v d : Addr) (a : Int) (u : Bool) : VRec :=
  match s.vals v with
  | none => ⟨a, powerOf a, d⟩
  | some r => ⟨r.staking + a, powerOf (r.staking + a), if u then d else r.sa⟩

/-- the records after a successful stake (before the ghost update) -/
def stakeOk (s : St) (v d : Addr) (a : Int) (u : Bool) : St :=
  { s with tot := upd s.tot v (s.tot v + a), vd := upd2 s.vd v d (s.vd v d + a),
           eff := upd s.eff d (s.eff d + a),
           vals := upd s.vals v (some (stakeRec s v d a u)) }

theorem stakeCore_cases (s : St) (v d : Addr) (a : Int) (u : Bool) (h : Int) :
    (stakeCore s v d a u h = none ∧ purgeBlocks s v h = true) ∨
    (stakeCore s v d a u h = some (stakeOk s v d a u) ∧ purgeBlocks s v h = false) := by
  have hp : purgeBlocks (addToAddress s v d a) v h = purgeBlocks s v h := rfl
  by_cases hb : purgeBlocks s v h = true
  · left
    refine ⟨?_, hb⟩
    simp [stakeCore, handleStake, hp, hb]
  · right
    have hb' : purgeBlocks s v h = false := by simpa using hb
    refine ⟨?_, hb'⟩
    simp only [stakeCore, handleStake, hp, hb', Bool.false_eq_true, if_false]
    rfl

/-- the state a successful STAKE produces -/
def runStakeOk (s : St) (v d : Addr) (a : Int) : St :=
  ghostStake (stakeOk { s with bal := upd s.bal d (s.bal d - coinOf a) } v d a (otherAddr s v d))
    d a (coinOf a)

theorem runStake_cases (s : St) (v d : Addr) (a : Int) :
    ((runStake s v d a).1 = s ∧ (runStake s v d a).2 ≠ .ok) ∨
    (s.frozen v = false ∧ inUse s v d = false ∧ coinOf a ≤ s.bal d ∧
      purgeBlocks s v s.height = false ∧ runStake s v d a = (runStakeOk s v d a, .ok)) := by
  unfold runStake
  by_cases hf : s.frozen v = true
  · left; simp [hf]
  by_cases hu : inUse s v d = true
  · left; simp [hf, hu]
  by_cases hb : s.bal d - coinOf a < 0
  · left; simp [hf, hu, hb]
  have hu' : inUse s v d = false := by simpa using hu
  simp only [hf, hu', hb, Bool.false_eq_true, if_false]
  rcases stakeCore_cases { s with bal := upd s.bal d (s.bal d - coinOf a) } v d a
      (otherAddr s v d) s.height with h | h
  · left
    rw [h.1]
    simp
  · right
    refine ⟨by simp at hf ⊢, trivial, by omega, h.2, ?_⟩
    rw [h.1]
    rfl

theorem runGenesisStake_cases (s : St) (v d : Addr) (a : Int) :
    ((runGenesisStake s v d a).1 = s ∧ (runGenesisStake s v d a).2 ≠ .ok) ∨
    (purgeBlocks s v 0 = false ∧
      runGenesisStake s v d a = (ghostStake (stakeOk s v d a false) d a (a * oltBase), .ok)) := by
  unfold runGenesisStake
  rcases stakeCore_cases s v d a false 0 with h | h
  · left; rw [h.1]; simp
  · right; exact ⟨h.2, by rw [h.1]⟩

/-! ## `Validate` + handler -/

theorem validateStake_none {s : St} {d : Addr} {a : Int} (h : validateStake s d a = none) :
    0 ≤ a ∧ a < two63 ∧ coinOf a = a * oltBase ∧ a * oltBase ≤ s.bal d := by
  unfold validateStake at h
  by_cases hi : isInt64 a = true
  · have hc := coinOf_of_isInt64 hi
    have hr := (isInt64_iff a).mp hi
    simp only [hi, Bool.not_true, Bool.false_eq_true, if_false] at h
    by_cases h1 : coinOf a < 0
    · simp [h1] at h
    · by_cases h2 : s.bal d - coinOf a < 0
      · simp [h1, h2] at h
      · have hb := oltBase_pos
        have ha : 0 ≤ a := by
          by_cases hn : a < 0
          · exfalso
            have : a * oltBase < 0 := Int.mul_neg_of_neg_of_pos hn hb
            omega
          · omega
        exact ⟨ha, hr.2, hc, by omega⟩
  · simp [hi] at h

theorem validateOut_none {s : St} {v d : Addr} {a : Int} (h : validateOut s v d a = none) :
    otherAddr s v d = false ∧ 0 < a ∧ a < two63 ∧ coinOf a = a * oltBase := by
  unfold validateOut at h
  by_cases ho : otherAddr s v d = true
  · simp [ho] at h
  · by_cases hi : isInt64 a = true
    · have hc := coinOf_of_isInt64 hi
      have hr := (isInt64_iff a).mp hi
      simp only [ho, hi, Bool.not_true, Bool.false_eq_true, if_false] at h
      by_cases h1 : coinOf a ≤ 0
      · simp [h1] at h
      · have hb := oltBase_pos
        have ha : 0 < a := by
          by_cases hn : 0 < a
          · exact hn
          · exfalso
            have : a * oltBase ≤ 0 := Int.mul_nonpos_of_nonpos_of_nonneg (by omega) (by omega)
            omega
        exact ⟨by simpa using ho, ha, hr.2, hc⟩
    · simp [ho, hi] at h

theorem txStake_cases (s : St) (v d : Addr) (a : Int) :
    ((txStake s v d a).1 = s ∧ (txStake s v d a).2 ≠ .ok) ∨
    (0 ≤ a ∧ a < two63 ∧ coinOf a = a * oltBase ∧ s.frozen v = false ∧ inUse s v d = false ∧
      purgeBlocks s v s.height = false ∧ txStake s v d a = (runStakeOk s v d a, .ok)) := by
  unfold txStake
  cases hv : validateStake s d a with
  | some c =>
    left
    refine ⟨rfl, ?_⟩
    unfold validateStake at hv
    intro hc
    simp only at hc
    subst hc
    split at hv
    · simp at hv
    · split at hv
      · simp at hv
      · split at hv <;> simp at hv
  | none =>
    have hr := validateStake_none hv
    rcases runStake_cases s v d a with h | ⟨hf, hu, _, hp, he⟩
    · left; exact h
    · right; exact ⟨hr.1, hr.2.1, hr.2.2.1, hf, hu, hp, he⟩

theorem validateOut_ne_ok {s : St} {v d : Addr} {a : Int} {c : Code}
    (h : validateOut s v d a = some c) : c ≠ .ok := by
  unfold validateOut at h
  intro hc
  subst hc
  split at h
  · simp at h
  · split at h
    · simp at h
    · split at h <;> simp at h

theorem txUnstake_cases (s : St) (v d : Addr) (a : Int) :
    ((txUnstake s v d a).1 = s ∧ (txUnstake s v d a).2 ≠ .ok) ∨
    (∃ r, s.vals v = some r ∧ r.sa = d ∧ 0 < a ∧ a < two63 ∧ s.frozen v = false ∧
          s.req v = false ∧ a ≤ s.tot v ∧ a ≤ s.vd v d ∧ a ≤ s.eff d ∧
          purgeBlocks s v s.height = false ∧ txUnstake s v d a = (unstakeOk s v d a r, .ok)) := by
  unfold txUnstake
  cases hv : validateOut s v d a with
  | some c => left; exact ⟨rfl, validateOut_ne_ok hv⟩
  | none =>
    have hr := validateOut_none hv
    rcases runUnstake_cases s v d a with h | ⟨r, hvl, hf, hq, h1, h2, h3, hp, he⟩
    · left; exact h
    · right
      have hsa : r.sa = d := by
        have := hr.1
        simp [otherAddr, hvl] at this
        exact this
      exact ⟨r, hvl, hsa, hr.2.1, hr.2.2.1, hf, hq, h1, h2, h3, hp, he⟩

theorem txWithdraw_cases (s : St) (v d : Addr) (a : Int) :
    ((txWithdraw s v d a).1 = s ∧ (txWithdraw s v d a).2 ≠ .ok) ∨
    (0 < a ∧ a < two63 ∧ coinOf a = a * oltBase ∧ otherAddr s v d = false ∧ s.frozen v = false ∧
      frozenOwner s d = false ∧ a ≤ s.bnd d ∧ txWithdraw s v d a = (withdrawOk s d a, .ok)) := by
  unfold txWithdraw
  cases hv : validateOut s v d a with
  | some c => left; exact ⟨rfl, validateOut_ne_ok hv⟩
  | none =>
    have hr := validateOut_none hv
    rcases runWithdraw_cases s v d a with h | ⟨hf, hfo, hb, he⟩
    · left; exact h
    · right; exact ⟨hr.2.1, hr.2.2.1, hr.2.2.2, hr.1, hf, hfo, hb, he⟩

/-- `UpdateWithdrawReward` point-wise -/
theorem uwr_bnd (s : St) (h : Int) (d : Addr) :
    (updateWithdrawReward s h).bnd d = s.bnd d + amtOf d (s.mat h) := by
  simp [updateWithdrawReward, creditAll_apply]

theorem uwr_gUnlocked (s : St) (h : Int) (d : Addr) :
    (updateWithdrawReward s h).gUnlocked d = s.gUnlocked d + amtOf d (s.mat h) := by
  simp [updateWithdrawReward, creditAll_apply]

theorem uwr_gMaturing (s : St) (h : Int) (d : Addr) :
    (updateWithdrawReward s h).gMaturing d = s.gMaturing d - amtOf d (s.mat h) := by
  simp [updateWithdrawReward, debitAll_apply]

/-- the slash in closed form -/
theorem slash_none (c : Cfg) (s : St) (v : Addr) (h : s.prev v = none) :
    slash c s v = { s with frozen := upd s.frozen v true } := by
  simp [slash, h]

theorem slash_some (c : Cfg) (s : St) (v : Addr) (r' : VRec) (h : s.prev v = some r') :
    slash c s v =
      (let s0 : St := { s with frozen := upd s.frozen v true }
       let sa := slashAddr s v r'
       let m := minusFromAddress s0 v sa (c.pen (s.tot v))
       let s1 := m.1
       { s1 with delayed := if m.2 then upd2 s1.delayed s.height v (some (c.pen (s.tot v)))
                            else s1.delayed,
                 req := upd s1.req v false,
                 gPenal := upd s1.gPenal sa (s1.gPenal sa + (s.eff sa - s1.eff sa)) }) := by
  simp [slash, h]

end OLP.Stake

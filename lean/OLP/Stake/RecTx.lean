/-
  OLP.Stake.RecTx — the record invariants across the transactions of a block.
-/
import OLP.Stake.Rec

namespace OLP.Stake

/-- What a *successful* stake must satisfy for the record invariants to survive:
    * `v`, `d` belong to the finite universe the sums range over (no restriction: any list that
      contains the addresses of the history will do);
    * supply bound: the record's `staking` stays below 2^63 whole tokens, so that
      `calculatePower` (`Int64()`) is the identity.
    (The hypothesis KF-C11-2 forced — no stake onto a record without power — is gone: since
    d8b47b0 EndBlock looks at the current record.) -/
def StakeGuard (U : List Addr) (s : St) (v d : Addr) (a : Int) : Prop :=
  v ∈ U ∧ d ∈ U ∧ (∀ r, s.vals v = some r → r.staking + a < two63)

def RecGuard (U : List Addr) (s : St) : Tx → Prop
  | .stake v d a => (txStake s v d a).2 = .ok → StakeGuard U s v d a
  | .genesisStake v d a =>
    0 ≤ a ∧ a < two63 ∧ (∀ r, s.vals v = some r → r.sa = d) ∧
    ((runGenesisStake s v d a).2 = .ok → StakeGuard U s v d a)
  | _ => True

theorem pendOf_inBlock {s : St} (hi : InBlock s) (v : Addr) : pendOf s v = 0 := by
  unfold pendOf
  rw [hi.noDelayed s.height v (by omega)]; rfl

/-- the records after a stake of `a ≥ 0` whose record ends up under stake address `d` -/
theorem rec_stakeOk {U : List Addr} (hU : U.Nodup) {s : St} (h : Rec U s) (hi : InBlock s)
    (hn : NonNeg s) (v d : Addr) (a : Int) (u : Bool) (h0 : 0 ≤ a) (hlt : a < two63)
    (hg : StakeGuard U s v d a) (hsa : (stakeRec s v d a u).sa = d)
    (hrule : ∀ r, s.vals v = some r → r.sa ≠ d → s.vd v r.sa = 0) :
    Rec U (stakeOk s v d a u) ∧ InBlock (stakeOk s v d a u) := by
  obtain ⟨hvU, hdU, hbound⟩ := hg
  have hvals : ∀ v', (stakeOk s v d a u).vals v' =
      if v' = v then some (stakeRec s v d a u) else s.vals v' := by
    intro v'; simp only [stakeOk, upd_apply]
  have hvd : ∀ v' d', (stakeOk s v d a u).vd v' d' =
      if v' = v ∧ d' = d then s.vd v d + a else s.vd v' d' := by
    intro v' d'; simp only [stakeOk, upd2_apply]
  have hpend : ∀ v', pendOf (stakeOk s v d a u) v' = 0 := fun v' => pendOf_inBlock hi v'
  constructor
  · constructor
    · intro v' d' hne
      rw [hvd] at hne
      by_cases hc : v' = v ∧ d' = d
      · rw [hc.1, hc.2]; exact ⟨hvU, hdU⟩
      · simp only [hc, if_false] at hne; exact h.sup v' d' hne
    · exact sumV_bump hU h.sumV v d a (Or.inl hdU)
    · exact sumD_bump hU h.sumD v d a (Or.inl hvU)
    · intro v' d' hne
      rw [hvd] at hne
      rw [hvals]
      by_eq v' v
      · subst hEq
        simp only [if_true]
        by_cases hd : d' = d
        · subst hd; exact ⟨_, rfl, hsa⟩
        · exfalso
          simp only [hd, and_false, if_false] at hne
          obtain ⟨r, hr, hrs⟩ := h.single v' d' hne
          have := hrule r hr (by rw [hrs]; exact hd)
          rw [hrs] at this
          exact hne this
      · simp only [hEq, false_and, if_false] at hne ⊢
        exact h.single v' d' hne
    · intro v' r hr
      rw [hvals] at hr
      rw [hpend]
      by_eq v' v
      · subst hEq
        simp only [if_true] at hr
        have hr' := (Option.some.inj hr).symm
        subst hr'
        have htot : (stakeOk s v' d a u).tot v' = s.tot v' + a := by simp [stakeOk]
        rw [htot]
        cases hv : s.vals v' with
        | none =>
          have := h.absent v' hv
          simp only [stakeRec, hv]
          refine ⟨by omega, powerOf_of_range h0 hlt, hlt⟩
        | some r0 =>
          obtain ⟨h1, _, _⟩ := h.staking v' r0 hv
          rw [pendOf_inBlock hi] at h1
          have ht := hn.tot v'
          have hb := hbound r0 hv
          simp only [stakeRec, hv]
          refine ⟨by omega, powerOf_of_range (by omega) hb, hb⟩
      · simp only [hEq, if_false] at hr
        have htot : (stakeOk s v d a u).tot v' = s.tot v' := by simp [stakeOk, upd_apply, hEq]
        rw [htot]
        have := h.staking v' r hr
        rw [pendOf_inBlock hi] at this
        exact this
    · intro v' hv'
      rw [hvals] at hv'
      by_eq v' v
      · simp [hEq] at hv'
      · simp only [hEq, if_false] at hv'
        have htot : (stakeOk s v d a u).tot v' = s.tot v' := by simp [stakeOk, upd_apply, hEq]
        rw [htot]; exact h.absent v' hv'
  · constructor
    exact hi.noDelayed

/-- fields the record invariants do not read may change freely -/
theorem rec_congr {U : List Addr} {s s' : St} (h : Rec U s) (hi : InBlock s)
    (e1 : s'.tot = s.tot) (e2 : s'.vd = s.vd) (e3 : s'.eff = s.eff) (e4 : s'.vals = s.vals)
    (e6 : s'.delayed = s.delayed) (e7 : s'.height = s.height) : Rec U s' ∧ InBlock s' := by
  have hp : ∀ v, pendOf s' v = pendOf s v := by intro v; simp only [pendOf, e6, e7]
  constructor
  · constructor
    · intro v d; rw [e2]; exact h.sup v d
    · intro v; rw [e1, e2]; exact h.sumV v
    · intro d; rw [e3, e2]; exact h.sumD d
    · intro v d; rw [e2, e4]; exact h.single v d
    · intro v r; rw [e4, e1, hp]; exact h.staking v r
    · intro v; rw [e4, e1]; exact h.absent v
  · constructor
    intro k v; rw [e7, e6]; exact hi.noDelayed k v

theorem rec_unstakeOk {U : List Addr} (hU : U.Nodup) {s : St} (h : Rec U s) (hi : InBlock s)
    (_hn : NonNeg s) (v d : Addr) (a : Int) (r : VRec) (hv : s.vals v = some r) (hsa : r.sa = d)
    (h0 : 0 < a) (h1 : a ≤ s.tot v) (h2 : a ≤ s.vd v d) :
    Rec U (unstakeOk s v d a r) ∧ InBlock (unstakeOk s v d a r) := by
  have hne : s.vd v d ≠ 0 := by omega
  obtain ⟨hvU, hdU⟩ := h.sup v d hne
  have hvals : ∀ v', (unstakeOk s v d a r).vals v' =
      if v' = v then some ⟨r.staking - a, powerOf (r.staking - a), r.sa⟩ else s.vals v' := by
    intro v'; simp only [unstakeOk, upd_apply]
  have hvd : ∀ v' d', (unstakeOk s v d a r).vd v' d' =
      if v' = v ∧ d' = d then s.vd v d - a else s.vd v' d' := by
    intro v' d'; simp only [unstakeOk, upd2_apply]
  have hpend : ∀ v', pendOf (unstakeOk s v d a r) v' = 0 := fun v' => pendOf_inBlock hi v'
  have htotv : (unstakeOk s v d a r).tot v = s.tot v - a := by simp [unstakeOk]
  have htot : ∀ v', v' ≠ v → (unstakeOk s v d a r).tot v' = s.tot v' := by
    intro v' hne'; simp [unstakeOk, upd_apply, hne']
  constructor
  · constructor
    · intro v' d' hne'
      rw [hvd] at hne'
      by_cases hc : v' = v ∧ d' = d
      · rw [hc.1, hc.2]; exact ⟨hvU, hdU⟩
      · simp only [hc, if_false] at hne'; exact h.sup v' d' hne'
    · have := sumV_bump hU h.sumV v d (-a) (Or.inl hdU)
      intro v'
      have := this v'
      simp only [← Int.sub_eq_add_neg] at this
      exact this
    · have := sumD_bump hU h.sumD v d (-a) (Or.inl hvU)
      intro d'
      have := this d'
      simp only [← Int.sub_eq_add_neg] at this
      exact this
    · intro v' d' hne'
      rw [hvd] at hne'
      rw [hvals]
      by_eq v' v
      · subst hEq
        simp only [if_true]
        by_cases hd : d' = d
        · subst hd; exact ⟨_, rfl, hsa⟩
        · exfalso
          simp only [hd, and_false, if_false] at hne'
          obtain ⟨r2, hr2, hrs⟩ := h.single v' d' hne'
          rw [hv] at hr2
          have := Option.some.inj hr2
          subst this
          exact hd (hrs.symm.trans hsa)
      · simp only [hEq, false_and, if_false] at hne' ⊢
        exact h.single v' d' hne'
    · intro v' r2 hr2
      rw [hvals] at hr2
      rw [hpend]
      by_eq v' v
      · subst hEq
        simp only [if_true] at hr2
        have hr' := (Option.some.inj hr2).symm
        subst hr'
        obtain ⟨g1, _, g3⟩ := h.staking v' r hv
        rw [pendOf_inBlock hi] at g1
        rw [htotv]
        refine ⟨by show r.staking - a = s.tot v' - a + 0; omega, ?_, by show r.staking - a < two63; omega⟩
        show powerOf (r.staking - a) = r.staking - a
        exact powerOf_of_range (by omega) (by omega)
      · simp only [hEq, if_false] at hr2
        rw [htot v' hEq]
        have := h.staking v' r2 hr2
        rw [pendOf_inBlock hi] at this
        exact this
    · intro v' hv'
      rw [hvals] at hv'
      by_eq v' v
      · simp [hEq] at hv'
      · simp only [hEq, if_false] at hv'
        rw [htot v' hEq]; exact h.absent v' hv'
  · constructor
    exact hi.noDelayed

/-- the "stake address in use" rule: a successful stake under another address found the old
    address clean, in particular without any stake left with this validator -/
theorem inUse_false_rule {s : St} {v d : Addr} (hu : inUse s v d = false) :
    ∀ r, s.vals v = some r → r.sa ≠ d → s.vd v r.sa = 0 := by
  intro r hr hne
  unfold inUse at hu
  rw [hr] at hu
  simp only [Bool.and_eq_false_imp, decide_eq_true_eq] at hu
  have hc := hu hne
  simp only [Bool.not_eq_eq_eq_not, Bool.not_false] at hc
  unfold isClean at hc
  simp only [Bool.and_eq_true, decide_eq_true_eq] at hc
  exact hc.1.1

theorem stakeRec_sa_other (s : St) (v d : Addr) (a : Int) :
    (stakeRec s v d a (otherAddr s v d)).sa = d := by
  unfold stakeRec otherAddr
  cases hv : s.vals v with
  | none => rfl
  | some r =>
    simp only
    by_cases h : r.sa = d
    · simp [h]
    · simp [h]

theorem rec_tx {U : List Addr} (hU : U.Nodup) {s : St} {t : Tx} (h : Rec U s) (hi : InBlock s)
    (hn : NonNeg s) (hg : RecGuard U s t) : Rec U (stepTx s t).1 ∧ InBlock (stepTx s t).1 := by
  cases t with
  | stake v d a =>
    rcases txStake_cases s v d a with hh | ⟨h0, hlt, hc, hf, hu, hp, he⟩
    · simp only [stepTx]; rw [hh.1]; exact ⟨h, hi⟩
    · simp only [stepTx]
      have hok : (txStake s v d a).2 = .ok := by rw [he]
      have hg' : StakeGuard U s v d a := hg hok
      rw [he]
      -- the balance debit and the ghost fields do not matter
      have hs1 : Rec U { s with bal := upd s.bal d (s.bal d - coinOf a) } ∧
          InBlock { s with bal := upd s.bal d (s.bal d - coinOf a) } :=
        rec_congr h hi rfl rfl rfl rfl rfl rfl
      have hn1 : NonNeg { s with bal := upd s.bal d (s.bal d - coinOf a) } :=
        ⟨hn.vd, hn.tot, hn.eff, hn.bnd, hn.mat⟩
      have key := rec_stakeOk hU hs1.1 hs1.2 hn1 v d a (otherAddr s v d) h0 hlt hg'
        (stakeRec_sa_other s v d a) (inUse_false_rule hu)
      exact rec_congr key.1 key.2 rfl rfl rfl rfl rfl rfl
  | genesisStake v d a =>
    obtain ⟨h0, hlt, hsame, hg'⟩ := hg
    rcases runGenesisStake_cases s v d a with hh | ⟨hp, he⟩
    · simp only [stepTx]; rw [hh.1]; exact ⟨h, hi⟩
    · simp only [stepTx]
      have hok : (runGenesisStake s v d a).2 = .ok := by rw [he]
      rw [he]
      have hsa : (stakeRec s v d a false).sa = d := by
        unfold stakeRec
        cases hv : s.vals v with
        | none => rfl
        | some r => simp [hsame r hv]
      have key := rec_stakeOk hU h hi hn v d a false h0 hlt (hg' hok) hsa
        (fun r hr hne => absurd (hsame r hr) hne)
      exact rec_congr key.1 key.2 rfl rfl rfl rfl rfl rfl
  | unstake v d a =>
    rcases txUnstake_cases s v d a with hh | ⟨r, hv, hsa, h0, hlt, hf, hr, h1, h2, h3, hp, he⟩
    · simp only [stepTx]; rw [hh.1]; exact ⟨h, hi⟩
    · simp only [stepTx]; rw [he]
      exact rec_unstakeOk hU h hi hn v d a r hv hsa h0 h1 h2
  | withdraw v d a =>
    rcases txWithdraw_cases s v d a with hh | ⟨h0, hlt, hc, ho, hf, hfo, hb, he⟩
    · simp only [stepTx]; rw [hh.1]; exact ⟨h, hi⟩
    · simp only [stepTx]; rw [he]
      exact rec_congr h hi rfl rfl rfl rfl rfl rfl
  | freeze v => exact rec_congr h hi rfl rfl rfl rfl rfl rfl
  | release v => exact rec_congr h hi rfl rfl rfl rfl rfl rfl
  | allege v => exact rec_congr h hi rfl rfl rfl rfl rfl rfl
  | closeRequest v => exact rec_congr h hi rfl rfl rfl rfl rfl rfl
  | setMaturity m => exact rec_congr h hi rfl rfl rfl rfl rfl rfl
  | credit d x => exact rec_congr h hi rfl rfl rfl rfl rfl rfl
  | setIterVals l => exact rec_congr h hi rfl rfl rfl rfl rfl rfl

/-- genesis entries are sane whenever the record guard holds -/
theorem recGuard_genesisSane {U : List Addr} {s : St} {t : Tx} (hg : RecGuard U s t) :
    t.GenesisSane := by
  cases t <;> simp only [Tx.GenesisSane]
  case genesisStake v d a => exact ⟨hg.1, hg.2.1⟩

theorem rec_runTxs {U : List Addr} (hU : U.Nodup) {s : St} {txs : List Tx} (h : Rec U s)
    (hi : InBlock s) (hn : NonNeg s) (hg : TxsOK (RecGuard U) s txs) :
    Rec U (runTxs s txs) ∧ InBlock (runTxs s txs) ∧ NonNeg (runTxs s txs) := by
  induction txs generalizing s with
  | nil => exact ⟨h, hi, hn⟩
  | cons t ts ih =>
    simp only [runTxs, List.foldl_cons]
    have h1 := rec_tx hU h hi hn hg.1
    have hn1 := nonNeg_tx hn (recGuard_genesisSane hg.1) (stepTx_effect s t)
    exact ih h1.1 h1.2 hn1 hg.2

end OLP.Stake

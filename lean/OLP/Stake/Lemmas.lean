/-
  OLP.Stake.Lemmas — helper lemmas for the C11 property theorems (OLP/Props/C11.lean).

  The lemmas are split over several files; this module collects them and adds the facts about
  whole histories that combine several invariant groups.

    Basic    `upd`, the int64 truncation, sums over duplicate-free lists, maturing lists
    Shape    the handlers in closed form (no-op with a failure code, or the explicit update)
    Inv      TxEffect; NonNeg (amounts never negative); Cons (per delegator conservation law)
    Mat      guards along a run; MatInv / Sched (maturing records = ghost schedule); Paid
    Rec      record invariants: sums, single delegator, validator record; BeginBlock
    RecTx    … across the transactions of a block
    RecEnd   … across EndBlock (deletion, purge, unlock, verdicts), Commit, blocks, runs
-/
import OLP.Stake.RecEnd

namespace OLP.Stake

/-! ## the schedule of spent heights is final -/

/-- keys below the lowest unspent key of the running block are never written again -/
theorem gSched_stable_tx {s s' : St} {t : Tx} (hh : 1 ≤ s.height)
    (hm : 0 ≤ s.maturity ∧ (s.height ≤ 1 → 1 ≤ s.maturity)) (e : TxEffect s t s')
    (k : Int) (hk : k < lowKey s.height) (d : Addr) : s'.gSched k d = s.gSched k d := by
  cases e with
  | unstake v d' a r hv hsa h0 hlt hf hr h1 h2 h3 hp =>
    have := lowKey_le_key hh hm
    simp only [unstakeOk, upd2_apply]
    have hne : ¬ (k = s.height + s.maturity ∧ d = d') := by omega
    simp only [hne, if_false]
  | _ => rfl

theorem gSched_stable_runTxs {s : St} {txs : List Tx} (hh : 1 ≤ s.height)
    (h : Sched s (lowKey s.height)) (hg : TxsOK MatGuard s txs)
    (k : Int) (hk : k < lowKey s.height) (d : Addr) :
    (runTxs s txs).gSched k d = s.gSched k d := by
  induction txs generalizing s with
  | nil => rfl
  | cons t ts ih =>
    simp only [runTxs, List.foldl_cons]
    have e := stepTx_effect s t
    have h1 := sched_tx hh h hg.1 e
    have e1 := gSched_stable_tx hh h.maturity e k hk d
    have := ih (s := (stepTx s t).1) (by rw [h1.2]; exact hh) h1.1 hg.2 (by rw [h1.2]; exact hk)
    simp only [runTxs] at this
    rw [this, e1]

/-- the heights EndBlock has spent after block `h`: 2, 3, …, h -/
def spentKeys (h : Int) : List Int := (List.range (h - 1).toNat).map (fun (i : Nat) => (i : Int) + 2)

theorem spentKeys_succ (h : Int) (hh : 1 ≤ h) : spentKeys (h + 1) = spentKeys h ++ [h + 1] := by
  unfold spentKeys
  have e : (h + 1 - 1).toNat = (h - 1).toNat + 1 := by omega
  rw [e, List.range_succ, List.map_append]
  simp only [List.map_cons, List.map_nil]
  congr 2
  omega

theorem spentKeys_lt (h : Int) : ∀ k ∈ spentKeys h, k ≤ h := by
  intro k hk
  unfold spentKeys at hk
  simp only [List.mem_map, List.mem_range] at hk
  obtain ⟨i, hi, rfl⟩ := hk
  have : (i : Int) < ((h - 1).toNat : Int) := by exact_mod_cast hi
  omega

theorem sumL_append {α : Type} (l₁ l₂ : List α) (f : α → Int) :
    sumL (l₁ ++ l₂) f = sumL l₁ f + sumL l₂ f := by
  induction l₁ with
  | nil => simp [sumL]
  | cons a t ih => simp only [List.cons_append, sumL, ih]; omega

/-- boundary invariant: everything unlocked so far is the schedule of the spent heights -/
def UnlockedIsSchedule (s : St) : Prop :=
  ∀ d, s.gUnlocked d = sumL (spentKeys s.height) (fun k => s.gSched k d)

theorem unlockedIsSchedule_execBlock {s : St} (c : Cfg) (h : SchedB s) (hu : UnlockedIsSchedule s)
    (b : Block) (hg : TxsOK MatGuard (beginBlock s (s.height + 1)) b.txs) :
    UnlockedIsSchedule (execBlock c s b) := by
  obtain ⟨h1, h2, h3⟩ := schedB_execBlock c h b hg
  obtain ⟨hs, hpos⟩ := h
  intro d
  rw [h2, h3 d, hu d]
  -- the schedule of the spent keys did not change during the block
  have hb : Sched (beginBlock s (s.height + 1)) (lowKey (beginBlock s (s.height + 1)).height) := by
    have hm : 0 ≤ s.maturity ∧ (s.height + 1 ≤ 1 → 1 ≤ s.maturity) :=
      ⟨hs.maturity.1, fun h1 => hs.maturity.2 (by omega)⟩
    exact ⟨hs.past, hs.future, hm⟩
  have hh1 : 1 ≤ (beginBlock s (s.height + 1)).height := by
    show 1 ≤ s.height + 1
    omega
  have hstab : ∀ k ∈ spentKeys s.height, (execBlock c s b).gSched k d = s.gSched k d := by
    intro k hk
    have hk' := spentKeys_lt s.height k hk
    have hlow : k < lowKey (beginBlock s (s.height + 1)).height := by
      show k < lowKey (s.height + 1)
      unfold lowKey; split <;> omega
    have e1 := gSched_stable_runTxs hh1 hb hg k hlow d
    have e2 : (execBlock c s b).gSched = (runTxs (beginBlock s (s.height + 1)) b.txs).gSched := by
      unfold execBlock
      exact (sched_endBlock c (sched_runTxs hh1 hb hg).1 b.guilty b.purged b.deletable).2.2.1
    rw [e2, e1]
    rfl
  by_cases h0 : s.height + 1 ≤ 1
  · have hz : s.height = 0 := by omega
    simp only [h0, if_true]
    have e0 : spentKeys (s.height + 1) = [] := by
      unfold spentKeys; rw [hz]; rfl
    have e1 : spentKeys s.height = [] := by
      unfold spentKeys; rw [hz]; rfl
    rw [e0, e1]; simp [sumL]
  · simp only [h0, if_false]
    rw [spentKeys_succ s.height (by omega), sumL_append]
    simp only [sumL]
    rw [sumL_congr (fun k hk => (hstab k hk).symm)]
    omega

/-! ## the guards are decidable (used by the non-vacuity examples: `decide` on concrete histories) -/

def decForallSome {α : Type} (o : Option α) (P : α → Prop) [∀ a, Decidable (P a)] :
    Decidable (∀ a, o = some a → P a) :=
  match o with
  | none => isTrue (fun _ h => by cases h)
  | some x =>
    if h : P x then isTrue (fun a e => by cases e; exact h)
    else isFalse (fun f => h (f x rfl))

instance (U : List Addr) (s : St) (v d : Addr) (a : Int) : Decidable (StakeGuard U s v d a) :=
  @instDecidableAnd _ _ inferInstance
    (@instDecidableAnd _ _ inferInstance
      (decForallSome (s.vals v) (fun r => r.staking + a < two63)))

instance (U : List Addr) (s : St) : (t : Tx) → Decidable (RecGuard U s t)
  | .stake v d a => (inferInstance : Decidable ((txStake s v d a).2 = .ok → StakeGuard U s v d a))
  | .genesisStake v d a =>
    @instDecidableAnd _ _ inferInstance
      (@instDecidableAnd _ _ inferInstance
        (@instDecidableAnd _ _ (decForallSome (s.vals v) (fun r => r.sa = d))
          (inferInstance : Decidable ((runGenesisStake s v d a).2 = .ok → StakeGuard U s v d a))))
  | .unstake _ _ _ => isTrue trivial
  | .withdraw _ _ _ => isTrue trivial
  | .freeze _ => isTrue trivial
  | .release _ => isTrue trivial
  | .allege _ => isTrue trivial
  | .closeRequest _ => isTrue trivial
  | .setMaturity _ => isTrue trivial
  | .credit _ _ => isTrue trivial
  | .setIterVals _ => isTrue trivial

instance (s : St) : (t : Tx) → Decidable (MatGuard s t)
  | .setMaturity m => (inferInstance : Decidable (0 ≤ m ∧ (s.height ≤ 1 → 1 ≤ m)))
  | .stake _ _ _ => isTrue trivial
  | .unstake _ _ _ => isTrue trivial
  | .withdraw _ _ _ => isTrue trivial
  | .genesisStake _ _ _ => isTrue trivial
  | .freeze _ => isTrue trivial
  | .release _ => isTrue trivial
  | .allege _ => isTrue trivial
  | .closeRequest _ => isTrue trivial
  | .credit _ _ => isTrue trivial
  | .setIterVals _ => isTrue trivial

instance (s : St) (b : Block) : Decidable (EndGuard s b) :=
  (inferInstance : Decidable b.guilty.Nodup)

def decTxsOK (G : St → Tx → Prop) [∀ s t, Decidable (G s t)] :
    (s : St) → (txs : List Tx) → Decidable (TxsOK G s txs)
  | _, [] => isTrue trivial
  | s, t :: ts => @instDecidableAnd _ _ inferInstance (decTxsOK G (stepTx s t).1 ts)

instance (G : St → Tx → Prop) [∀ s t, Decidable (G s t)] (s : St) (txs : List Tx) :
    Decidable (TxsOK G s txs) := decTxsOK G s txs

instance (G : St → Tx → Prop) (B : St → Block → Prop) [∀ s t, Decidable (G s t)]
    [∀ s b, Decidable (B s b)] (s : St) (b : Block) : Decidable (BlockOK G B s b) :=
  (inferInstance : Decidable (TxsOK G (beginBlock s (s.height + 1)) b.txs ∧
    B (runTxs (beginBlock s (s.height + 1)) b.txs) b))

def decRunOK (G : St → Tx → Prop) (B : St → Block → Prop) [∀ s t, Decidable (G s t)]
    [∀ s b, Decidable (B s b)] (c : Cfg) :
    (s : St) → (bs : List Block) → Decidable (RunOK G B c s bs)
  | _, [] => isTrue trivial
  | s, b :: bs => @instDecidableAnd _ _ inferInstance (decRunOK G B c (execBlock c s b) bs)

instance (G : St → Tx → Prop) (B : St → Block → Prop) [∀ s t, Decidable (G s t)]
    [∀ s b, Decidable (B s b)] (c : Cfg) (s : St) (bs : List Block) :
    Decidable (RunOK G B c s bs) := decRunOK G B c s bs

end OLP.Stake

/-
  OLP.Stake.Model — executable model of the stake lifecycle (property C11).  Core-only.

  A statement-by-statement port of
    data/delegation/store.go      AddToAddress / MinusFromAddress / Stake / Unstake / Withdraw /
                                  UpdateWithdrawReward / GetMaturedPendingAmount / SetMatureAmounts
    action/staking/stake.go       runCheckStake, isStakeAddressClean
    action/staking/unstake.go     runCheckUnstake
    action/staking/withdraw.go    runWithdraw
    action/types.go               Amount.ToCoinWithBase  (Value.Int64() * 10^18)
    identity/validator_set.go     HandleStake / HandleUnstake (purge rule), the deletion of
                                  zero-power records and the call of UpdateWithdrawReward in
                                  GetEndBlockUpdate
    identity/validator_set_allegation.go   the GUILTY branch of ExecuteAllegationTracker (slash,
                                  delayHandleUnstake), fetchPostponedUnstakes
  *as the code is*, including what looks wrong: the balance side uses the int64 truncation of the
  amount while the records use the full value (harmless since `Validate` refuses amounts outside
  int64, commit 9ac9bcb; the handlers `run…` alone still show it).  (Repaired meanwhile and modelled as repaired: a verdict charges the current stake
  address and postpones the unstake only when the penalty was taken, ebb3d1d; the postponed
  unstake of a slash is applied without the purge rule, acb5e5c; a record without power is deleted
  only when the current record has no power either and the election has settled, d8b47b0; the
  stake account of a frozen validator cannot withdraw by naming another validator, df2e1ab +
  92417eb.)

  Records are decoded values (DESIGN §3.1 layer D): amounts are `Int` in whole tokens, balances
  `Int` in the smallest unit, addresses are natural numbers ordered like the address bytes.
  Stores are total functions (an absent key reads as 0 / none / [] exactly as the Go getters do).
  Fields starting with `g` are ghost accumulators: they are never read by the model, only
  written, and exist so that the property can be stated over histories.
-/
namespace OLP.Stake

abbrev Addr := Nat

/-- point-wise update of a total function -/
def upd {α β : Type} [DecidableEq α] (f : α → β) (k : α) (x : β) : α → β :=
  fun i => if i = k then x else f i

def upd2 {α β γ : Type} [DecidableEq α] [DecidableEq β] (f : α → β → γ) (k : α) (j : β) (x : γ) :
    α → β → γ :=
  fun i => if i = k then upd (f i) j x else f i

def two63 : Int := 9223372036854775808
def two64 : Int := 18446744073709551616
/-- 10^18: `Currency.Base()` of OLT -/
def oltBase : Int := 1000000000000000000

/-- the low 64 bits of a non-negative integer read as a two's complement int64 -/
def wrapU (n : Int) : Int :=
  let r := n % two64
  if r < two63 then r else r - two64

/-- Go `(*big.Int).Int64()`: `int64(low64(|x|))`, negated in int64 arithmetic when `x < 0` -/
def int64Of (x : Int) : Int :=
  if 0 ≤ x then wrapU x else wrapU (-(wrapU (-x)))

/-- `Amount.ToCoinWithBase` for OLT: `NewCoinFromInt(Value.Int64())`, in the smallest unit -/
def coinOf (a : Int) : Int := int64Of a * oltBase

/-- `calculatePower` -/
def powerOf (staking : Int) : Int := int64Of staking

/-- `identity.Validator`, the fields the stake lifecycle reads or writes -/
structure VRec where
  staking : Int
  power : Int
  sa : Addr
  deriving DecidableEq, Repr, Inhabited

/-- result classes of the three handlers (the harness maps the response log to the same enum) -/
inductive Code
  | ok | frozen | inuse | reqexists | purge | novalidator | balance | insufficient
  | invalidamount | mismatch | nofunds
  deriving DecidableEq, Repr, Inhabited

/-- the penalty computation of the GUILTY branch is a `big.Float` expression; it enters as a
    parameter function (DESIGN §4), instantiated by the driver with `penalty30` -/
structure Cfg where
  pen : Int → Int

/-- `Int(amt * 30 / 100 + 0.5)` for the options the harness uses (PenaltyBasePercentage 30,
    PenaltyBaseDecimals 100): round half up -/
def penalty30 (t : Int) : Int := (60 * t + 100) / 200

structure St where
  /-- height of the block being executed (`app.header.Height`, `vs.lastHeight`) -/
  height : Int
  /-- `stakingOptions.maturityTime` -/
  maturity : Int
  /-- `st__t_<v>`: amount locked with validator v -/
  tot : Addr → Int
  /-- `st__e_<v>_<d>` -/
  vd : Addr → Addr → Int
  /-- `st__d_e_<d>`: effective (locked) amount of delegator d -/
  eff : Addr → Int
  /-- `st__d_b_<d>`: bounded = withdrawable amount of delegator d -/
  bnd : Addr → Int
  /-- `st__m_<height>`: amounts maturing at that height, kept sorted by address -/
  mat : Int → List (Addr × Int)
  /-- `v_<addr>` in the deliver state -/
  vals : Addr → Option VRec
  /-- `v_<addr>` at the last committed version (`GetVersioned(height-1, …)`) -/
  prev : Addr → Option VRec
  /-- OLT balance `b_<addr>_OLT` -/
  bal : Addr → Int
  /-- `es__ssvk_<v>` present and `IsFrozen()` -/
  frozen : Addr → Bool
  /-- the validators `ValidatorStore.Iterate` enumerates: `v_<addr>` is a key of the committed
      tree and not deleted in the block cache (`State.IterateRange` does not see a record created
      in the running block; its values are read through the cache) -/
  iterVals : List Addr
  /-- an allegation request against v exists (`CheckRequestExists`; since d2f2af2 also one
      opened earlier in the same block: `IterateRequests` uses `IterateRangeAll`) -/
  req : Addr → Bool
  /-- `purged_<v>`: last purge height, 0 = never -/
  purge : Addr → Int
  /-- `purged_unstake_<height><v>`: unstake postponed by a slash decided at that height -/
  delayed : Int → Addr → Option Int
  -- ghost accumulators (whole tokens unless stated otherwise)
  gStaked : Addr → Int
  gWithdrawn : Addr → Int
  gPenal : Addr → Int
  gMaturing : Addr → Int
  gUnlocked : Addr → Int
  /-- smallest units debited by STAKE (genesis stake counts as paid by the genesis document) -/
  gPaidIn : Addr → Int
  /-- smallest units credited by WITHDRAW -/
  gPaidOut : Addr → Int
  /-- `gSched k d`: what successful unstakes of d scheduled for height k -/
  gSched : Int → Addr → Int
  /-- heights that ever received a maturing entry -/
  gKeys : List Int

def St.empty (maturity : Int) : St :=
  { height := 0, maturity := maturity, tot := fun _ => 0, vd := fun _ _ => 0, eff := fun _ => 0,
    bnd := fun _ => 0, mat := fun _ => [], vals := fun _ => none, prev := fun _ => none,
    bal := fun _ => 0, frozen := fun _ => false, iterVals := [], req := fun _ => false, purge := fun _ => 0,
    delayed := fun _ _ => none, gStaked := fun _ => 0, gWithdrawn := fun _ => 0,
    gPenal := fun _ => 0, gMaturing := fun _ => 0, gUnlocked := fun _ => 0, gPaidIn := fun _ => 0,
    gPaidOut := fun _ => 0, gSched := fun _ _ => 0, gKeys := [] }

/-! ## data/delegation/store.go -/

/-- `AddToAddress`: the three records, `Plus` has no check -/
def addToAddress (s : St) (v d : Addr) (a : Int) : St :=
  { s with tot := upd s.tot v (s.tot v + a),
           vd := upd2 s.vd v d (s.vd v d + a),
           eff := upd s.eff d (s.eff d + a) }

/-- `MinusFromAddress` (7abde80): `Amount.Minus` fails when the result is negative; all three
    amounts are checked before the first is written, so a failure leaves the state untouched -/
def minusFromAddress (s : St) (v d : Addr) (a : Int) : St × Bool :=
  if s.tot v - a < 0 ∨ s.vd v d - a < 0 ∨ s.eff d - a < 0 then (s, false) else
  ({ s with tot := upd s.tot v (s.tot v - a),
            vd := upd2 s.vd v d (s.vd v d - a),
            eff := upd s.eff d (s.eff d - a) }, true)

/-- total amount of delegator d in one maturing list -/
def amtOf (d : Addr) : List (Addr × Int) → Int
  | [] => 0
  | (x, a) :: t => (if x = d then a else 0) + amtOf d t

def insertByAddr (x : Addr × Int) : List (Addr × Int) → List (Addr × Int)
  | [] => [x]
  | y :: t => if x.1 < y.1 then x :: y :: t else y :: insertByAddr x t

/-- `SetMatureAmounts`: `sort.Slice` by address; for the list lengths that occur (≤ 12) Go's
    pdqsort is a stable insertion sort -/
def sortByAddr (l : List (Addr × Int)) : List (Addr × Int) :=
  l.foldl (fun acc x => insertByAddr x acc) []

/-- `GetMaturedPendingAmount(addr, h, count)` is non-empty -/
def hasPending (s : St) (addr : Addr) (h : Int) (count : Int) : Bool :=
  (List.range count.toNat).any fun i =>
    (s.mat (h + (i : Int))).any fun e => decide (e.2 ≠ 0) && decide (e.1 = addr)

/-- the loop of `UpdateWithdrawReward`: entries with amount 0 are skipped -/
def creditAll (f : Addr → Int) : List (Addr × Int) → (Addr → Int)
  | [] => f
  | (x, a) :: t => creditAll (if a = 0 then f else upd f x (f x + a)) t

def debitAll (f : Addr → Int) : List (Addr × Int) → (Addr → Int)
  | [] => f
  | (x, a) :: t => debitAll (if a = 0 then f else upd f x (f x - a)) t

/-- `UpdateWithdrawReward(height)`: maturing → bounded, then the list is reset -/
def updateWithdrawReward (s : St) (h : Int) : St :=
  { s with bnd := creditAll s.bnd (s.mat h),
           mat := upd s.mat h [],
           gUnlocked := creditAll s.gUnlocked (s.mat h),
           gMaturing := debitAll s.gMaturing (s.mat h) }

/-! ## action/staking -/

/-- `isStakeAddressClean` for the record `r` of validator `v` -/
def isClean (s : St) (v : Addr) (r : VRec) : Bool :=
  decide (s.vd v r.sa = 0) && !hasPending s r.sa s.height (s.maturity + 1) && decide (s.bnd r.sa = 0)

/-- the purge rule of `HandleStake` / `HandleUnstake` -/
def purgeBlocks (s : St) (v : Addr) (h : Int) : Bool :=
  decide (s.purge v > 0) && decide (s.purge v + 2 > h)

/-- `ValidatorStore.HandleStake` -/
def handleStake (s : St) (v d : Addr) (a : Int) (update : Bool) (h : Int) : Option St :=
  let r : VRec := match s.vals v with
    | none => ⟨a, powerOf a, d⟩
    | some r => ⟨r.staking + a, powerOf (r.staking + a), if update then d else r.sa⟩
  if purgeBlocks s v h then none else some { s with vals := upd s.vals v (some r) }

/-- the record part of a stake: `Delegators.Stake` then `HandleStake` -/
def stakeCore (s : St) (v d : Addr) (a : Int) (update : Bool) (h : Int) : Option St :=
  handleStake (addToAddress s v d a) v d a update h

def ghostStake (s : St) (d : Addr) (a : Int) (paid : Int) : St :=
  { s with gStaked := upd s.gStaked d (s.gStaked d + a),
           gPaidIn := upd s.gPaidIn d (s.gPaidIn d + paid) }

/-- the validator exists under another stake address: the transaction wants to change it -/
def otherAddr (s : St) (v d : Addr) : Bool :=
  match s.vals v with
  | some r => decide (r.sa ≠ d)
  | none => false

/-- `ErrStakeAddressInUse`: the change is refused unless the old address is clean -/
def inUse (s : St) (v d : Addr) : Bool :=
  match s.vals v with
  | some r => decide (r.sa ≠ d) && !isClean s v r
  | none => false

/-- `runCheckStake` -/
def runStake (s : St) (v d : Addr) (a : Int) : St × Code :=
  if s.frozen v then (s, .frozen) else
  if inUse s v d then (s, .inuse) else
  if s.bal d - coinOf a < 0 then (s, .balance) else
  let s1 := { s with bal := upd s.bal d (s.bal d - coinOf a) }
  match stakeCore s1 v d a (otherAddr s v d) s.height with
  | none => (s, .purge)
  | some s2 => (ghostStake s2 d a (coinOf a), .ok)

/-- a `Staking` entry of the genesis document (`setupState`): same records, no debit, height 0 -/
def runGenesisStake (s : St) (v d : Addr) (a : Int) : St × Code :=
  match stakeCore s v d a false 0 with
  | none => (s, .purge)
  | some s2 => (ghostStake s2 d a (a * oltBase), .ok)

/-- `runCheckUnstake` -/
def runUnstake (s : St) (v d : Addr) (a : Int) : St × Code :=
  if s.frozen v then (s, .frozen) else
  if s.req v then (s, .reqexists) else
  match minusFromAddress s v d a with
  | (_, false) => (s, .insufficient)
  | (s1, true) =>
    let k := s.height + s.maturity
    let s2 := { s1 with mat := upd s1.mat k (sortByAddr (s1.mat k ++ [(d, a)])) }
    match s2.vals v with
    | none => (s, .novalidator)
    | some r =>
      if purgeBlocks s2 v s.height then (s, .purge) else
      ({ s2 with vals := upd s2.vals v (some ⟨r.staking - a, powerOf (r.staking - a), r.sa⟩),
                 gMaturing := upd s2.gMaturing d (s2.gMaturing d + a),
                 gSched := upd2 s2.gSched k d (s2.gSched k d + a),
                 gKeys := if k ∈ s2.gKeys then s2.gKeys else k :: s2.gKeys }, .ok)

/-- `frozenOwner` of `runWithdraw` (df2e1ab, 92417eb): some enumerated validator record has d
    as its stake address and the validator is frozen (point lookup, sees the block cache) -/
def frozenOwner (s : St) (d : Addr) : Bool :=
  s.iterVals.any fun v => match s.vals v with
    | some r => decide (r.sa = d) && s.frozen v
    | none => false

/-- `runWithdraw`: the bounded amount is keyed by the delegator only; the validator named in the
    transaction is used for the first frozen guard, the second one looks at the delegator -/
def runWithdraw (s : St) (v d : Addr) (a : Int) : St × Code :=
  if s.frozen v then (s, .frozen) else
  if frozenOwner s d then (s, .frozen) else
  if s.bnd d - a < 0 then (s, .insufficient) else
  ({ s with bnd := upd s.bnd d (s.bnd d - a),
            bal := upd s.bal d (s.bal d + coinOf a),
            gWithdrawn := upd s.gWithdrawn d (s.gWithdrawn d + a),
            gPaidOut := upd s.gPaidOut d (s.gPaidOut d + coinOf a) }, .ok)

/-! ## `Validate`, run first by CheckTx and (since 626f990) by DeliverTx

  Only the checks that look at the stake subsystem; signatures, fee and address syntax belong to
  the shell properties.  Since 9ac9bcb the amount must fit int64, so that the truncation of
  `ToCoinWithBase` is the identity on everything that gets past `Validate`. -/

/-- `Value.BigInt().IsInt64()` -/
def isInt64 (a : Int) : Bool := decide (-two63 ≤ a) && decide (a < two63)

/-- `stakeTx.Validate`: int64 range, `coin.IsValid()` (≥ 0), `CheckBalanceFromAddress` -/
def validateStake (s : St) (d : Addr) (a : Int) : Option Code :=
  if !isInt64 a then some .invalidamount else
  if coinOf a < 0 then some .invalidamount else
  if s.bal d - coinOf a < 0 then some .nofunds else none

/-- `unstakeTx.Validate` / `withdrawTx.Validate`: the stake address must be the validator's when
    the validator exists; int64 range; `coin ≤ 0` is refused -/
def validateOut (s : St) (v d : Addr) (a : Int) : Option Code :=
  if otherAddr s v d then some .mismatch else
  if !isInt64 a then some .invalidamount else
  if coinOf a ≤ 0 then some .invalidamount else none

/-- a STAKE / UNSTAKE / WITHDRAW transaction on either path: `Validate`, then the handler -/
def txStake (s : St) (v d : Addr) (a : Int) : St × Code :=
  match validateStake s d a with
  | some c => (s, c)
  | none => runStake s v d a

def txUnstake (s : St) (v d : Addr) (a : Int) : St × Code :=
  match validateOut s v d a with
  | some c => (s, c)
  | none => runUnstake s v d a

def txWithdraw (s : St) (v d : Addr) (a : Int) : St × Code :=
  match validateOut s v d a with
  | some c => (s, c)
  | none => runWithdraw s v d a

/-! ## block hooks -/

/-- `Setup` → `fetchPostponedUnstakes`: the unstake postponed at height h-1 reaches the record
    (`handleUnstake(…, purgeRule = false)`: the purge rule is not applied, acb5e5c) -/
def beginBlock (s : St) (h : Int) : St :=
  { s with height := h,
           vals := fun v => match s.vals v, s.delayed (h - 1) v with
             | some r, some p => some ⟨r.staking - p, powerOf (r.staking - p), r.sa⟩
             | x, _ => x }

/-- the stake address a verdict charges (ebb3d1d): the one of the current record; the record of
    the previous block only serves when there is no current record -/
def slashAddr (s : St) (v : Addr) (r' : VRec) : Addr :=
  match s.vals v with
  | some r => r.sa
  | none => r'.sa

/-- the GUILTY branch of `ExecuteAllegationTracker` for the accused validator v: nothing without a
    record of the previous block; otherwise the penalty is taken from the three records (all or
    nothing) and, when that went through,
    the unstake of the validator record is postponed to the next BeginBlock -/
def slash (c : Cfg) (s : St) (v : Addr) : St :=
  let s0 := { s with frozen := upd s.frozen v true }
  match s.prev v with
  | none => s0
  | some r' =>
    let sa := slashAddr s v r'
    let p := c.pen (s0.tot v)
    let m := minusFromAddress s0 v sa p
    let s1 := m.1
    { s1 with delayed := if m.2 then upd2 s1.delayed s.height v (some p) else s1.delayed,
              req := upd s1.req v false,
              gPenal := upd s1.gPenal sa (s1.gPenal sa + (s.eff sa - s1.eff sa)) }

/-- the queue loop of `GetEndBlockUpdate`: "delete validator who's power is 0" (d8b47b0): the
    record of the previous version *and* the current record have no power, and the validator is
    `deletable`: not among the signers of the last commit and inactive for more than two blocks
    (decided by the election and the status records, C10) -/
def deleteZeroPower (s : St) (deletable : List Addr) : St :=
  { s with vals := fun v => match s.prev v, s.vals v with
             | some r', some r =>
               if r'.power ≤ 0 ∧ r.power ≤ 0 ∧ v ∈ deletable then none else some r
             | _, x => x }

/-- `SetLastPurgeHeight` for the validators the election drops (decided by the election, C10) -/
def writePurge (s : St) (purged : List Addr) : St :=
  { s with purge := fun v => if v ∈ purged then s.height else s.purge v }

/-- `GetEndBlockUpdate`, the part that touches stake records: zero-power records are deleted,
    purge heights written, `UpdateWithdrawReward(height)`, then the verdicts (`guilty`, decided
    by the tally, C19) in request order.  Nothing happens at height 1. -/
def endBlock (c : Cfg) (s : St) (guilty purged deletable : List Addr) : St :=
  if s.height ≤ 1 then s else
  guilty.foldl (slash c)
    (updateWithdrawReward (writePurge (deleteZeroPower s deletable) purged) s.height)

/-- `Commit`: the deliver state becomes the version the next block reads with `GetVersioned` -/
def commit (s : St) : St := { s with prev := s.vals }

/-! ## histories -/

/-- what can happen between BeginBlock and EndBlock.  Besides the three staking transactions:
    the evidence subsystem freezing / releasing a validator and creating / closing an allegation
    request, a change of the maturity option, any other movement of a balance, and the set of
    validator records the store iteration enumerates. -/
inductive Tx
  | stake (v d : Addr) (a : Int)
  | unstake (v d : Addr) (a : Int)
  | withdraw (v d : Addr) (a : Int)
  | genesisStake (v d : Addr) (a : Int)
  | freeze (v : Addr)
  | release (v : Addr)
  | allege (v : Addr)
  | closeRequest (v : Addr)
  | setMaturity (m : Int)
  | credit (d : Addr) (x : Int)
  | setIterVals (l : List Addr)
  deriving DecidableEq, Repr

def stepTx (s : St) : Tx → St × Code
  | .stake v d a => txStake s v d a
  | .unstake v d a => txUnstake s v d a
  | .withdraw v d a => txWithdraw s v d a
  | .genesisStake v d a => runGenesisStake s v d a
  | .freeze v => ({ s with frozen := upd s.frozen v true }, .ok)
  | .release v => ({ s with frozen := upd s.frozen v false }, .ok)
  | .allege v => ({ s with req := upd s.req v true }, .ok)
  | .closeRequest v => ({ s with req := upd s.req v false }, .ok)
  | .setMaturity m => ({ s with maturity := m }, .ok)
  | .credit d x => ({ s with bal := upd s.bal d (s.bal d + x) }, .ok)
  | .setIterVals l => ({ s with iterVals := l }, .ok)

def runTxs (s : St) (txs : List Tx) : St := txs.foldl (fun s t => (stepTx s t).1) s

structure Block where
  txs : List Tx
  /-- validators found guilty by the allegation tally of this EndBlock, in request order -/
  guilty : List Addr
  /-- validators the election purges in this EndBlock -/
  purged : List Addr
  /-- validators whose record may be deleted in this EndBlock once it has no power -/
  deletable : List Addr
  deriving Repr

/-- BeginBlock, the transactions, EndBlock, Commit of the next height -/
def execBlock (c : Cfg) (s : St) (b : Block) : St :=
  commit (endBlock c (runTxs (beginBlock s (s.height + 1)) b.txs) b.guilty b.purged b.deletable)

def run (c : Cfg) (s : St) (bs : List Block) : St := bs.foldl (execBlock c) s

end OLP.Stake

/-
  OLP.Stake.Inv — invariant groups NonNeg, Cons, Mat/Sched, Paid and their preservation by every
  transition of the model (transactions, BeginBlock, EndBlock, Commit, whole blocks, runs).
-/
import OLP.Stake.Shape

namespace OLP.Stake

set_option hygiene false in
/-- `by_eq a b`: case split on `a = b`, the hypothesis is called `hEq` -/
macro "by_eq " a:term:max b:term:max : tactic => `(tactic| by_cases hEq : $a = $b)

/-! ## what one transaction does -/

/-- the effect of one transaction: nothing (any failure), or the explicit update of a success
    together with everything `Validate` and the handler's guards established -/
inductive TxEffect (s : St) : Tx → St → Prop
  | noop (t : Tx) : TxEffect s t s
  | stake (v d : Addr) (a : Int) (h0 : 0 ≤ a) (hlt : a < two63) (hc : coinOf a = a * oltBase)
      (hf : s.frozen v = false) (hu : inUse s v d = false)
      (hp : purgeBlocks s v s.height = false) :
      TxEffect s (.stake v d a) (runStakeOk s v d a)
  | gstake (v d : Addr) (a : Int) (hp : purgeBlocks s v 0 = false) :
      TxEffect s (.genesisStake v d a) (ghostStake (stakeOk s v d a false) d a (a * oltBase))
  | unstake (v d : Addr) (a : Int) (r : VRec) (hv : s.vals v = some r) (hsa : r.sa = d)
      (h0 : 0 < a) (hlt : a < two63) (hf : s.frozen v = false)
      (hr : s.req v = false) (h1 : a ≤ s.tot v) (h2 : a ≤ s.vd v d) (h3 : a ≤ s.eff d)
      (hp : purgeBlocks s v s.height = false) :
      TxEffect s (.unstake v d a) (unstakeOk s v d a r)
  | withdraw (v d : Addr) (a : Int) (h0 : 0 < a) (hlt : a < two63) (hc : coinOf a = a * oltBase)
      (ho : otherAddr s v d = false) (hf : s.frozen v = false) (hfo : frozenOwner s d = false)
      (hb : a ≤ s.bnd d) :
      TxEffect s (.withdraw v d a) (withdrawOk s d a)
  | freeze (v : Addr) : TxEffect s (.freeze v) { s with frozen := upd s.frozen v true }
  | release (v : Addr) : TxEffect s (.release v) { s with frozen := upd s.frozen v false }
  | allege (v : Addr) : TxEffect s (.allege v) { s with req := upd s.req v true }
  | closeRequest (v : Addr) : TxEffect s (.closeRequest v) { s with req := upd s.req v false }
  | setMaturity (m : Int) : TxEffect s (.setMaturity m) { s with maturity := m }
  | credit (d : Addr) (x : Int) : TxEffect s (.credit d x) { s with bal := upd s.bal d (s.bal d + x) }
  | setIterVals (l : List Addr) : TxEffect s (.setIterVals l) { s with iterVals := l }

theorem stepTx_effect (s : St) (t : Tx) : TxEffect s t (stepTx s t).1 := by
  cases t with
  | stake v d a =>
    rcases txStake_cases s v d a with h | ⟨h0, hlt, hc, hf, hu, hp, he⟩
    · simp only [stepTx]; rw [h.1]; exact .noop _
    · simp only [stepTx]; rw [he]; exact .stake v d a h0 hlt hc hf hu hp
  | unstake v d a =>
    rcases txUnstake_cases s v d a with h | ⟨r, hv, hsa, h0, hlt, hf, hr, h1, h2, h3, hp, he⟩
    · simp only [stepTx]; rw [h.1]; exact .noop _
    · simp only [stepTx]; rw [he]; exact .unstake v d a r hv hsa h0 hlt hf hr h1 h2 h3 hp
  | withdraw v d a =>
    rcases txWithdraw_cases s v d a with h | ⟨h0, hlt, hc, ho, hf, hfo, hb, he⟩
    · simp only [stepTx]; rw [h.1]; exact .noop _
    · simp only [stepTx]; rw [he]; exact .withdraw v d a h0 hlt hc ho hf hfo hb
  | genesisStake v d a =>
    rcases runGenesisStake_cases s v d a with h | ⟨hp, he⟩
    · simp only [stepTx]; rw [h.1]; exact .noop _
    · simp only [stepTx]; rw [he]; exact .gstake v d a hp
  | freeze v => exact .freeze v
  | release v => exact .release v
  | allege v => exact .allege v
  | closeRequest v => exact .closeRequest v
  | setMaturity m => exact .setMaturity m
  | credit d x => exact .credit d x
  | setIterVals l => exact .setIterVals l

/-- the entries of the genesis document are not validated by any handler: the amounts of
    `genesisStake` are assumed sane (a trusted input, as the genesis balances are) -/
def Tx.GenesisSane : Tx → Prop
  | .genesisStake _ _ a => 0 ≤ a ∧ a < two63
  | _ => True

/-! ## NonNeg -/

structure NonNeg (s : St) : Prop where
  vd : ∀ v d, 0 ≤ s.vd v d
  tot : ∀ v, 0 ≤ s.tot v
  eff : ∀ d, 0 ≤ s.eff d
  bnd : ∀ d, 0 ≤ s.bnd d
  mat : ∀ k e, e ∈ s.mat k → 0 ≤ e.2

theorem nonNeg_empty (m : Int) : NonNeg (St.empty m) := by
  constructor <;> simp [St.empty]

theorem nonNeg_tx {s s' : St} {t : Tx} (h : NonNeg s) (ha : t.GenesisSane) (e : TxEffect s t s') :
    NonNeg s' := by
  cases e with
  | noop => exact h
  | stake v d a ha' hlt hc hf hu hp =>
    constructor
    · intro v' d'
      have := h.vd v' d'; have := h.vd v d
      simp only [runStakeOk, ghostStake, stakeOk, upd2_apply]; split <;> omega
    · intro v'
      have := h.tot v'; have := h.tot v
      simp only [runStakeOk, ghostStake, stakeOk, upd_apply]; split <;> omega
    · intro d'
      have := h.eff d'; have := h.eff d
      simp only [runStakeOk, ghostStake, stakeOk, upd_apply]; split <;> omega
    · exact h.bnd
    · exact h.mat
  | gstake v d a hp =>
    have ha' : 0 ≤ a := ha.1
    constructor
    · intro v' d'
      have := h.vd v' d'; have := h.vd v d
      simp only [ghostStake, stakeOk, upd2_apply]; split <;> omega
    · intro v'
      have := h.tot v'; have := h.tot v
      simp only [ghostStake, stakeOk, upd_apply]; split <;> omega
    · intro d'
      have := h.eff d'; have := h.eff d
      simp only [ghostStake, stakeOk, upd_apply]; split <;> omega
    · exact h.bnd
    · exact h.mat
  | unstake v d a r hv hsa h0 hlt hf hr h1 h2 h3 hp =>
    have ha' : 0 ≤ a := by omega
    constructor
    · intro v' d'
      have := h.vd v' d'
      simp only [unstakeOk, upd2_apply]; split <;> omega
    · intro v'
      have := h.tot v'
      simp only [unstakeOk, upd_apply]; split <;> omega
    · intro d'
      have := h.eff d'
      simp only [unstakeOk, upd_apply]; split <;> omega
    · exact h.bnd
    · intro k e he
      simp only [unstakeOk, upd_apply] at he
      split at he
      · rw [mem_sortByAddr] at he
        simp only [List.mem_append, List.mem_singleton] at he
        rcases he with he | he
        · exact h.mat _ e he
        · subst he; exact ha'
      · exact h.mat k e he
  | withdraw v d a h0 hlt hc ho hf hfo hb =>
    refine ⟨h.vd, h.tot, h.eff, ?_, h.mat⟩
    intro d'
    have := h.bnd d'
    simp only [withdrawOk, upd_apply]; split <;> omega
  | freeze v => exact ⟨h.vd, h.tot, h.eff, h.bnd, h.mat⟩
  | release v => exact ⟨h.vd, h.tot, h.eff, h.bnd, h.mat⟩
  | allege v => exact ⟨h.vd, h.tot, h.eff, h.bnd, h.mat⟩
  | closeRequest v => exact ⟨h.vd, h.tot, h.eff, h.bnd, h.mat⟩
  | setMaturity m => exact ⟨h.vd, h.tot, h.eff, h.bnd, h.mat⟩
  | credit d x => exact ⟨h.vd, h.tot, h.eff, h.bnd, h.mat⟩
  | setIterVals l => exact ⟨h.vd, h.tot, h.eff, h.bnd, h.mat⟩

theorem nonNeg_runTxs {s : St} {txs : List Tx} (h : NonNeg s) (ha : ∀ t ∈ txs, t.GenesisSane) :
    NonNeg (runTxs s txs) := by
  induction txs generalizing s with
  | nil => exact h
  | cons t ts ih =>
    simp only [OLP.Stake.runTxs, List.foldl_cons]
    exact ih (nonNeg_tx h (ha t (by simp)) (stepTx_effect s t)) (fun t' ht' => ha t' (by simp [ht']))

theorem nonNeg_beginBlock {s : St} (h : NonNeg s) (k : Int) : NonNeg (beginBlock s k) :=
  ⟨h.vd, h.tot, h.eff, h.bnd, h.mat⟩

theorem nonNeg_uwr {s : St} (h : NonNeg s) (k : Int) : NonNeg (updateWithdrawReward s k) := by
  refine ⟨h.vd, h.tot, h.eff, ?_, ?_⟩
  · intro d
    rw [uwr_bnd]
    have := h.bnd d
    have := amtOf_nonneg d (s.mat k) (h.mat k)
    omega
  · intro k' e he
    simp only [updateWithdrawReward, upd_apply] at he
    split at he
    · simp at he
    · exact h.mat k' e he

theorem nonNeg_minus {s : St} (h : NonNeg s) (v d : Addr) (a : Int) :
    NonNeg (minusFromAddress s v d a).1 := by
  by_cases hm : (minusFromAddress s v d a).2 = true
  · have hc := (minus_snd s v d a).mp hm
    rw [minus_ok s v d a hm]
    refine ⟨?_, ?_, ?_, h.bnd, h.mat⟩
    · intro v' d'
      have := h.vd v' d'
      show 0 ≤ upd2 s.vd v d (s.vd v d - a) v' d'
      rw [upd2_apply]; split <;> omega
    · intro v'
      have := h.tot v'
      show 0 ≤ upd s.tot v (s.tot v - a) v'
      rw [upd_apply]; split <;> omega
    · intro d'
      have := h.eff d'
      show 0 ≤ upd s.eff d (s.eff d - a) d'
      rw [upd_apply]; split <;> omega
  · rw [minus_fail s v d a (by simpa using hm)]; exact h

theorem nonNeg_slash {s : St} (c : Cfg) (h : NonNeg s) (v : Addr) : NonNeg (slash c s v) := by
  cases hp : s.prev v with
  | none => rw [slash_none c s v hp]; exact ⟨h.vd, h.tot, h.eff, h.bnd, h.mat⟩
  | some r' =>
    rw [slash_some c s v r' hp]
    have h0 : NonNeg { s with frozen := upd s.frozen v true } := ⟨h.vd, h.tot, h.eff, h.bnd, h.mat⟩
    have h1 := nonNeg_minus h0 v (slashAddr s v r') (c.pen (s.tot v))
    exact ⟨h1.vd, h1.tot, h1.eff, h1.bnd, h1.mat⟩

theorem nonNeg_foldSlash {s : St} (c : Cfg) (h : NonNeg s) (g : List Addr) :
    NonNeg (g.foldl (slash c) s) := by
  induction g generalizing s with
  | nil => exact h
  | cons v t ih => exact ih (nonNeg_slash c h v)

theorem nonNeg_endBlock {s : St} (c : Cfg) (h : NonNeg s) (g p dl : List Addr) :
    NonNeg (endBlock c s g p dl) := by
  unfold OLP.Stake.endBlock
  split
  · exact h
  · apply nonNeg_foldSlash
    apply nonNeg_uwr
    exact ⟨h.vd, h.tot, h.eff, h.bnd, h.mat⟩

theorem nonNeg_commit {s : St} (h : NonNeg s) : NonNeg (commit s) :=
  ⟨h.vd, h.tot, h.eff, h.bnd, h.mat⟩

/-- genesis entries of the block are sane (no other hypothesis on amounts is needed: what gets
    past `Validate` is in range) -/
def Block.GenesisSane (b : Block) : Prop := ∀ t ∈ b.txs, t.GenesisSane

theorem nonNeg_execBlock {s : St} (c : Cfg) (h : NonNeg s) (b : Block) (hb : b.GenesisSane) :
    NonNeg (execBlock c s b) :=
  nonNeg_commit (nonNeg_endBlock c (nonNeg_runTxs (nonNeg_beginBlock h _) hb) _ _ _)

theorem nonNeg_run {s : St} (c : Cfg) (h : NonNeg s) (bs : List Block) (hb : ∀ b ∈ bs, b.GenesisSane) :
    NonNeg (run c s bs) := by
  induction bs generalizing s with
  | nil => exact h
  | cons b t ih =>
    simp only [OLP.Stake.run, List.foldl_cons]
    exact ih (nonNeg_execBlock c h b (hb b (by simp))) (fun b' hb' => hb b' (by simp [hb']))

/-! ## Cons: per delegator conservation, no hypothesis at all -/

def Cons (s : St) : Prop :=
  ∀ d, s.eff d + s.gMaturing d + s.bnd d + s.gWithdrawn d + s.gPenal d = s.gStaked d

theorem cons_empty (m : Int) : Cons (St.empty m) := by intro d; simp [St.empty]

theorem cons_tx {s s' : St} {t : Tx} (h : Cons s) (e : TxEffect s t s') : Cons s' := by
  cases e with
  | noop => exact h
  | stake v d a h0 hlt hc hf hu hp =>
    intro d'
    have := h d'
    simp only [runStakeOk, ghostStake, stakeOk, upd_apply]
    by_eq d' d
    · subst hEq; simp; omega
    · simp [hEq]; omega
  | gstake v d a hp =>
    intro d'
    have := h d'
    simp only [ghostStake, stakeOk, upd_apply]
    by_eq d' d
    · subst hEq; simp; omega
    · simp [hEq]; omega
  | unstake v d a r hv hsa h0 hlt hf hr h1 h2 h3 hp =>
    intro d'
    have := h d'
    simp only [unstakeOk, upd_apply]
    by_eq d' d
    · subst hEq; simp; omega
    · simp [hEq]; omega
  | withdraw v d a h0 hlt hc ho hf hfo hb =>
    intro d'
    have := h d'
    simp only [withdrawOk, upd_apply]
    by_eq d' d
    · subst hEq; simp; omega
    · simp [hEq]; omega
  | freeze v => exact h
  | release v => exact h
  | allege v => exact h
  | closeRequest v => exact h
  | setMaturity m => exact h
  | credit d x => exact h
  | setIterVals l => exact h

theorem cons_runTxs {s : St} {txs : List Tx} (h : Cons s) : Cons (runTxs s txs) := by
  induction txs generalizing s with
  | nil => exact h
  | cons t ts ih =>
    simp only [OLP.Stake.runTxs, List.foldl_cons]
    exact ih (cons_tx h (stepTx_effect s t))

theorem cons_uwr {s : St} (h : Cons s) (k : Int) : Cons (updateWithdrawReward s k) := by
  intro d
  have := h d
  rw [uwr_bnd, uwr_gMaturing]
  show s.eff d + _ + _ + s.gWithdrawn d + s.gPenal d = s.gStaked d
  omega

theorem cons_slash {s : St} (c : Cfg) (h : Cons s) (v : Addr) : Cons (slash c s v) := by
  cases hp : s.prev v with
  | none => rw [slash_none c s v hp]; exact h
  | some r' =>
    rw [slash_some c s v r' hp]
    intro d
    have := h d
    generalize slashAddr s v r' = sa
    simp only [minus_fst, upd_apply]
    by_cases hd : d = sa
    · subst hd; simp only [if_true]; omega
    · simp only [hd, if_false]
      have : (if s.tot v - c.pen (s.tot v) < 0 ∨ s.vd v sa - c.pen (s.tot v) < 0 ∨
                s.eff sa - c.pen (s.tot v) < 0 then s.eff
              else upd s.eff sa (s.eff sa - c.pen (s.tot v))) d = s.eff d := by
        split
        · rfl
        · exact upd_ne _ _ _ _ hd
      rw [this]; omega

theorem cons_foldSlash {s : St} (c : Cfg) (h : Cons s) (g : List Addr) :
    Cons (g.foldl (slash c) s) := by
  induction g generalizing s with
  | nil => exact h
  | cons v t ih => exact ih (cons_slash c h v)

theorem cons_endBlock {s : St} (c : Cfg) (h : Cons s) (g p dl : List Addr) :
    Cons (endBlock c s g p dl) := by
  unfold OLP.Stake.endBlock
  split
  · exact h
  · apply cons_foldSlash
    apply cons_uwr
    exact h

theorem cons_execBlock {s : St} (c : Cfg) (h : Cons s) (b : Block) : Cons (execBlock c s b) := by
  unfold OLP.Stake.execBlock
  have h1 : Cons (beginBlock s (s.height + 1)) := h
  exact cons_endBlock c (cons_runTxs (txs := b.txs) h1) b.guilty b.purged b.deletable

theorem cons_run {s : St} (c : Cfg) (h : Cons s) (bs : List Block) : Cons (run c s bs) := by
  induction bs generalizing s with
  | nil => exact h
  | cons b t ih =>
    simp only [OLP.Stake.run, List.foldl_cons]
    exact ih (cons_execBlock c h b)

end OLP.Stake

/-
  OLP.Stake.Basic — basic helper lemmas for the C11 property theorems (OLP/Props/C11.lean).

  Structure: basic facts about `upd`, the int64 truncation, sums over duplicate-free lists and
  maturing lists; then, one section per invariant group, the predicate and its preservation by
  every transition of the model:

    NonNeg   amounts never negative                       (needs: amounts of the operations ≥ 0)
    Cons     per delegator conservation law               (no hypothesis)
    Mat      maturing records = ghost schedule            (needs: maturity ≥ 0, heights advance)
    Paid     balance side = record side × 10^18           (needs: amounts in [0, 2^63))
    Rec      sums, single delegator, validator record     (needs: the three forced hypotheses)
-/
import OLP.Stake.Model

namespace OLP.Stake

/-! ## basics -/

section upd
variable {α β γ : Type} [DecidableEq α] [DecidableEq β]

@[simp] theorem upd_same (f : α → γ) (k : α) (x : γ) : upd f k x k = x := by simp [upd]

theorem upd_ne (f : α → γ) (k i : α) (x : γ) (h : i ≠ k) : upd f k x i = f i := by simp [upd, h]

theorem upd_apply (f : α → γ) (k i : α) (x : γ) : upd f k x i = if i = k then x else f i := rfl

@[simp] theorem upd2_same (f : α → β → γ) (k : α) (j : β) (x : γ) : upd2 f k j x k j = x := by
  simp [upd2, upd]

theorem upd2_apply (f : α → β → γ) (k i : α) (j l : β) (x : γ) :
    upd2 f k j x i l = if i = k ∧ l = j then x else f i l := by
  unfold upd2 upd
  by_cases h1 : i = k <;> by_cases h2 : l = j <;> simp [h1, h2]

end upd

theorem two63_pos : (0 : Int) < two63 := by decide

theorem wrapU_of_range {x : Int} (h0 : 0 ≤ x) (h1 : x < two63) : wrapU x = x := by
  unfold wrapU
  have h2 : x % two64 = x := Int.emod_eq_of_lt h0 (by unfold two63 at h1; unfold two64; omega)
  simp only [h2]
  simp [h1]

theorem int64Of_of_range {x : Int} (h0 : 0 ≤ x) (h1 : x < two63) : int64Of x = x := by
  unfold int64Of
  simp [h0, wrapU_of_range h0 h1]

theorem coinOf_of_range {x : Int} (h0 : 0 ≤ x) (h1 : x < two63) : coinOf x = x * oltBase := by
  unfold coinOf; rw [int64Of_of_range h0 h1]

theorem powerOf_of_range {x : Int} (h0 : 0 ≤ x) (h1 : x < two63) : powerOf x = x :=
  int64Of_of_range h0 h1

theorem isInt64_iff (a : Int) : isInt64 a = true ↔ -two63 ≤ a ∧ a < two63 := by
  simp [isInt64]

theorem wrapU_of_neg_range {x : Int} (h0 : -two63 ≤ x) (h1 : x < 0) : wrapU x = x := by
  have h2 : x % two64 = x + two64 := by unfold two63 at h0; unfold two64; omega
  unfold wrapU
  simp only [h2]
  have h3 : ¬ (x + two64 < two63) := by unfold two63 at h0 ⊢; unfold two64; omega
  simp [h3]

theorem wrapU_two63 : wrapU two63 = -two63 := by decide

/-- on the int64 range the truncation is the identity (also for negative values) -/
theorem int64Of_of_isInt64 {a : Int} (h : isInt64 a = true) : int64Of a = a := by
  have h' := (isInt64_iff a).mp h
  by_cases h0 : 0 ≤ a
  · exact int64Of_of_range h0 h'.2
  · unfold int64Of
    simp only [h0, if_false]
    by_cases hm : a = -two63
    · subst hm
      have : - -two63 = two63 := by omega
      rw [this, wrapU_two63, this, wrapU_two63]
    · have h1 : wrapU (-a) = -a := wrapU_of_range (by omega) (by omega)
      rw [h1]
      have : - -a = a := by omega
      rw [this]
      exact wrapU_of_neg_range h'.1 (by omega)

theorem coinOf_of_isInt64 {a : Int} (h : isInt64 a = true) : coinOf a = a * oltBase := by
  unfold coinOf; rw [int64Of_of_isInt64 h]

theorem oltBase_pos : (0 : Int) < oltBase := by decide

/-! ## sums over lists -/

def sumL {α : Type} : List α → (α → Int) → Int
  | [], _ => 0
  | a :: t, f => f a + sumL t f

section sumL
variable {α : Type}

theorem sumL_congr {l : List α} {f g : α → Int} (h : ∀ a ∈ l, f a = g a) : sumL l f = sumL l g := by
  induction l with
  | nil => rfl
  | cons a t ih =>
    simp only [sumL]
    rw [h a (by simp), ih (fun b hb => h b (by simp [hb]))]

theorem sumL_nonneg {l : List α} {f : α → Int} (h : ∀ a ∈ l, 0 ≤ f a) : 0 ≤ sumL l f := by
  induction l with
  | nil => simp [sumL]
  | cons a t ih =>
    simp only [sumL]
    have h1 := h a (by simp)
    have h2 := ih (fun b hb => h b (by simp [hb]))
    omega

theorem sumL_zero {l : List α} {f : α → Int} (h : ∀ a ∈ l, f a = 0) : sumL l f = 0 := by
  induction l with
  | nil => rfl
  | cons a t ih =>
    simp only [sumL]
    rw [h a (by simp), ih (fun b hb => h b (by simp [hb]))]; rfl

theorem sumL_add {l : List α} {f g : α → Int} : sumL l (fun a => f a + g a) = sumL l f + sumL l g := by
  induction l with
  | nil => rfl
  | cons a t ih => simp only [sumL, ih]; omega

variable [DecidableEq α]

theorem sumL_upd_not_mem {l : List α} {f : α → Int} {k : α} {x : Int} (hk : k ∉ l) :
    sumL l (upd f k x) = sumL l f := by
  apply sumL_congr
  intro a ha
  have : a ≠ k := fun e => hk (e ▸ ha)
  simp [upd, this]

theorem sumL_upd_mem {l : List α} {f : α → Int} {k : α} {x : Int} (hn : l.Nodup) (hk : k ∈ l) :
    sumL l (upd f k x) = sumL l f - f k + x := by
  induction l with
  | nil => simp at hk
  | cons a t ih =>
    have hn' : a ∉ t ∧ t.Nodup := by simpa using hn
    simp only [sumL]
    by_cases e : a = k
    · subst e
      rw [sumL_upd_not_mem hn'.1]
      simp
      omega
    · have hk' : k ∈ t := by
        simp at hk
        rcases hk with h | h
        · exact absurd h.symm e
        · exact h
      rw [ih hn'.2 hk', upd_ne _ _ _ _ e]
      omega

/-- all of the sum sits at one key -/
theorem sumL_single {l : List α} {f : α → Int} {k : α} (hn : l.Nodup) (hk : k ∈ l)
    (h : ∀ a ∈ l, a ≠ k → f a = 0) : sumL l f = f k := by
  induction l with
  | nil => simp at hk
  | cons a t ih =>
    have hn' : a ∉ t ∧ t.Nodup := by simpa using hn
    simp only [sumL]
    by_cases e : a = k
    · subst e
      rw [sumL_zero (fun b hb => h b (by simp [hb]) (fun e => hn'.1 (e ▸ hb)))]
      omega
    · have hk' : k ∈ t := by
        simp at hk
        rcases hk with h' | h'
        · exact absurd h'.symm e
        · exact h'
      rw [ih hn'.2 hk' (fun b hb => h b (by simp [hb])), h a (by simp) e]
      omega

omit [DecidableEq α] in
theorem le_sumL_of_mem {l : List α} {f : α → Int} {k : α} (hk : k ∈ l) (h : ∀ a ∈ l, 0 ≤ f a) :
    f k ≤ sumL l f := by
  induction l with
  | nil => simp at hk
  | cons a t ih =>
    simp only [sumL]
    have h0 : 0 ≤ sumL t f := sumL_nonneg (fun b hb => h b (by simp [hb]))
    have ha : 0 ≤ f a := h a (by simp)
    simp at hk
    rcases hk with e | e
    · subst e; omega
    · have := ih e (fun b hb => h b (by simp [hb])); omega

end sumL

/-! ## maturing lists -/

theorem amtOf_append (d : Addr) (l₁ l₂ : List (Addr × Int)) :
    amtOf d (l₁ ++ l₂) = amtOf d l₁ + amtOf d l₂ := by
  induction l₁ with
  | nil => simp [amtOf]
  | cons h t ih =>
    obtain ⟨x, a⟩ := h
    simp only [List.cons_append, amtOf, ih]; omega

theorem amtOf_insertByAddr (d : Addr) (x : Addr × Int) (l : List (Addr × Int)) :
    amtOf d (insertByAddr x l) = amtOf d [x] + amtOf d l := by
  induction l with
  | nil => simp [insertByAddr, amtOf]
  | cons y t ih =>
    obtain ⟨x1, x2⟩ := x
    obtain ⟨y1, y2⟩ := y
    unfold insertByAddr
    by_cases h : x1 < y1
    · simp [h, amtOf]
    · simp only [h, if_false, amtOf] at ih ⊢
      rw [ih]; simp; omega

theorem amtOf_foldl_insert (d : Addr) (l acc : List (Addr × Int)) :
    amtOf d (l.foldl (fun acc x => insertByAddr x acc) acc) = amtOf d acc + amtOf d l := by
  induction l generalizing acc with
  | nil => simp [amtOf]
  | cons h t ih =>
    obtain ⟨x, a⟩ := h
    rw [List.foldl_cons, ih, amtOf_insertByAddr]
    simp [amtOf]; omega

theorem amtOf_sortByAddr (d : Addr) (l : List (Addr × Int)) : amtOf d (sortByAddr l) = amtOf d l := by
  unfold sortByAddr
  rw [amtOf_foldl_insert]; simp [amtOf]

theorem mem_insertByAddr (e x : Addr × Int) (l : List (Addr × Int)) :
    e ∈ insertByAddr x l ↔ e = x ∨ e ∈ l := by
  induction l with
  | nil => simp [insertByAddr]
  | cons y t ih =>
    unfold insertByAddr
    by_cases h : x.1 < y.1
    · simp [h]
    · simp only [h, if_false, List.mem_cons, ih]
      constructor
      · rintro (h1 | h1 | h1)
        · exact Or.inr (Or.inl h1)
        · exact Or.inl h1
        · exact Or.inr (Or.inr h1)
      · rintro (h1 | h1 | h1)
        · exact Or.inr (Or.inl h1)
        · exact Or.inl h1
        · exact Or.inr (Or.inr h1)

theorem mem_foldl_insert (e : Addr × Int) (l acc : List (Addr × Int)) :
    e ∈ l.foldl (fun acc x => insertByAddr x acc) acc ↔ e ∈ acc ∨ e ∈ l := by
  induction l generalizing acc with
  | nil => simp
  | cons h t ih =>
    rw [List.foldl_cons, ih, mem_insertByAddr]
    simp only [List.mem_cons]
    constructor
    · rintro ((h1 | h1) | h1)
      · exact Or.inr (Or.inl h1)
      · exact Or.inl h1
      · exact Or.inr (Or.inr h1)
    · rintro (h1 | h1 | h1)
      · exact Or.inl (Or.inr h1)
      · exact Or.inl (Or.inl h1)
      · exact Or.inr h1

theorem mem_sortByAddr (e : Addr × Int) (l : List (Addr × Int)) : e ∈ sortByAddr l ↔ e ∈ l := by
  unfold sortByAddr
  rw [mem_foldl_insert]; simp

theorem amtOf_nonneg (d : Addr) (l : List (Addr × Int)) (h : ∀ e ∈ l, 0 ≤ e.2) : 0 ≤ amtOf d l := by
  induction l with
  | nil => simp [amtOf]
  | cons y t ih =>
    obtain ⟨y1, y2⟩ := y
    simp only [amtOf]
    have h1 : 0 ≤ y2 := h (y1, y2) (by simp)
    have h2 := ih (fun e he => h e (by simp [he]))
    split <;> omega

theorem creditAll_apply (f : Addr → Int) (l : List (Addr × Int)) (d : Addr) :
    creditAll f l d = f d + amtOf d l := by
  induction l generalizing f with
  | nil => simp [creditAll, amtOf]
  | cons y t ih =>
    obtain ⟨x, a⟩ := y
    simp only [creditAll, amtOf]
    rw [ih]
    by_cases ha : a = 0
    · subst ha; simp
    · simp only [ha, if_false]
      by_cases hx : x = d
      · subst hx; simp; omega
      · have : d ≠ x := fun e => hx e.symm
        simp [upd_ne _ _ _ _ this, hx]

theorem debitAll_apply (f : Addr → Int) (l : List (Addr × Int)) (d : Addr) :
    debitAll f l d = f d - amtOf d l := by
  induction l generalizing f with
  | nil => simp [debitAll, amtOf]
  | cons y t ih =>
    obtain ⟨x, a⟩ := y
    simp only [debitAll, amtOf]
    rw [ih]
    by_cases ha : a = 0
    · subst ha; simp
    · simp only [ha, if_false]
      by_cases hx : x = d
      · subst hx; simp; omega
      · have : d ≠ x := fun e => hx e.symm
        simp [upd_ne _ _ _ _ this, hx]

/-! ## the shape of the transitions -/

/-- `MinusFromAddress` in closed form: all or nothing -/
theorem minus_fst (s : St) (v d : Addr) (a : Int) :
    (minusFromAddress s v d a).1 =
      { s with tot := if s.tot v - a < 0 ∨ s.vd v d - a < 0 ∨ s.eff d - a < 0 then s.tot
                      else upd s.tot v (s.tot v - a),
               vd := if s.tot v - a < 0 ∨ s.vd v d - a < 0 ∨ s.eff d - a < 0 then s.vd
                     else upd2 s.vd v d (s.vd v d - a),
               eff := if s.tot v - a < 0 ∨ s.vd v d - a < 0 ∨ s.eff d - a < 0 then s.eff
                      else upd s.eff d (s.eff d - a) } := by
  unfold minusFromAddress
  by_cases h : s.tot v - a < 0 ∨ s.vd v d - a < 0 ∨ s.eff d - a < 0
  · simp [h]
  · simp [h]

theorem minus_snd (s : St) (v d : Addr) (a : Int) :
    (minusFromAddress s v d a).2 = true ↔ a ≤ s.tot v ∧ a ≤ s.vd v d ∧ a ≤ s.eff d := by
  unfold minusFromAddress
  by_cases h : s.tot v - a < 0 ∨ s.vd v d - a < 0 ∨ s.eff d - a < 0
  · simp [h]; omega
  · simp [h]; omega

/-- a failure changes nothing -/
theorem minus_fail (s : St) (v d : Addr) (a : Int) (h : (minusFromAddress s v d a).2 = false) :
    (minusFromAddress s v d a).1 = s := by
  unfold minusFromAddress at h ⊢
  by_cases hc : s.tot v - a < 0 ∨ s.vd v d - a < 0 ∨ s.eff d - a < 0
  · simp [hc]
  · simp [hc] at h

/-- complete success -/
theorem minus_ok (s : St) (v d : Addr) (a : Int) (h : (minusFromAddress s v d a).2 = true) :
    (minusFromAddress s v d a).1 =
      { s with tot := upd s.tot v (s.tot v - a), vd := upd2 s.vd v d (s.vd v d - a),
               eff := upd s.eff d (s.eff d - a) } := by
  have h' := (minus_snd s v d a).mp h
  rw [minus_fst]
  have hc : ¬ (s.tot v - a < 0 ∨ s.vd v d - a < 0 ∨ s.eff d - a < 0) := by omega
  simp [hc]

end OLP.Stake

/-
  OLP.Stake.Mat — the maturity bookkeeping: the maturing records agree with the ghost schedule
  written by successful unstakes, amounts become withdrawable exactly at `EndBlock` of the
  scheduled height, and the balance side is the record side × 10^18.
-/
import OLP.Stake.Inv

namespace OLP.Stake

/-! ## guards evaluated along a run

  A guard `G s t` is a predicate of the state in which transaction `t` is executed.  `TxsOK`,
  `BlockOK`, `RunOK` say that it holds at every step of a block / a history. -/

def TxsOK (G : St → Tx → Prop) : St → List Tx → Prop
  | _, [] => True
  | s, t :: ts => G s t ∧ TxsOK G (stepTx s t).1 ts

/-- the guard holds for the transactions of block `b` executed from boundary state `s`, and the
    block-level condition `B` holds for the state on which EndBlock runs -/
def BlockOK (G : St → Tx → Prop) (B : St → Block → Prop) (s : St) (b : Block) : Prop :=
  TxsOK G (beginBlock s (s.height + 1)) b.txs ∧ B (runTxs (beginBlock s (s.height + 1)) b.txs) b

def RunOK (G : St → Tx → Prop) (B : St → Block → Prop) (c : Cfg) : St → List Block → Prop
  | _, [] => True
  | s, b :: bs => BlockOK G B s b ∧ RunOK G B c (execBlock c s b) bs

/-- induction principle for block-boundary invariants -/
theorem run_induction {G : St → Tx → Prop} {B : St → Block → Prop} {c : Cfg} (I : St → Prop)
    (step : ∀ s b, I s → BlockOK G B s b → I (execBlock c s b))
    (s : St) (bs : List Block) (h0 : I s) (hg : RunOK G B c s bs) : I (run c s bs) := by
  induction bs generalizing s with
  | nil => exact h0
  | cons b t ih =>
    simp only [run, List.foldl_cons]
    exact ih _ (step s b h0 hg.1) hg.2

/-- induction principle inside a block -/
theorem txs_induction {G : St → Tx → Prop} (I : St → Prop)
    (step : ∀ s t, I s → G s t → I (stepTx s t).1)
    (s : St) (txs : List Tx) (h0 : I s) (hg : TxsOK G s txs) : I (runTxs s txs) := by
  induction txs generalizing s with
  | nil => exact h0
  | cons t ts ih =>
    simp only [runTxs, List.foldl_cons]
    exact ih _ (step s t h0 hg.1) hg.2

/-! ## MatInv: no hypothesis -/

structure MatInv (s : St) : Prop where
  nodup : s.gKeys.Nodup
  off : ∀ k, k ∉ s.gKeys → s.mat k = []
  maturing : ∀ d, s.gMaturing d = sumL s.gKeys (fun k => amtOf d (s.mat k))
  bnd : ∀ d, s.bnd d = s.gUnlocked d - s.gWithdrawn d

theorem matInv_empty (m : Int) : MatInv (St.empty m) := by
  constructor <;> simp [St.empty, sumL]

theorem matInv_unstake {s : St} (h : MatInv s) (v d : Addr) (a : Int) (r : VRec) :
    MatInv (unstakeOk s v d a r) := by
  have hk : ∀ k' d', amtOf d' ((unstakeOk s v d a r).mat k') =
      upd (fun k => amtOf d' (s.mat k)) (s.height + s.maturity)
        (amtOf d' (s.mat (s.height + s.maturity)) + (if d = d' then a else 0)) k' := by
    intro k' d'
    simp only [unstakeOk, upd_apply]
    split
    · rw [amtOf_sortByAddr, amtOf_append]; simp [amtOf]
    · rfl
  constructor
  · show (if (s.height + s.maturity) ∈ s.gKeys then s.gKeys
          else (s.height + s.maturity) :: s.gKeys).Nodup
    split
    · exact h.nodup
    · rename_i hn; exact List.nodup_cons.mpr ⟨hn, h.nodup⟩
  · intro k hk'
    have hk2 : k ∉ (if (s.height + s.maturity) ∈ s.gKeys then s.gKeys
          else (s.height + s.maturity) :: s.gKeys) := hk'
    have h1 : k ≠ s.height + s.maturity ∧ k ∉ s.gKeys := by
      split at hk2
      · rename_i hm
        exact ⟨fun e => hk2 (e ▸ hm), hk2⟩
      · simp at hk2; exact ⟨hk2.1, hk2.2⟩
    simp only [unstakeOk, upd_apply, h1.1, if_false]
    exact h.off k h1.2
  · intro d'
    have hm := h.maturing d'
    rw [sumL_congr (fun k' _ => hk k' d')]
    show upd s.gMaturing d (s.gMaturing d + a) d' = sumL (if (s.height + s.maturity) ∈ s.gKeys then s.gKeys
          else (s.height + s.maturity) :: s.gKeys) _
    split
    · rename_i hin
      rw [sumL_upd_mem h.nodup hin, upd_apply]
      by_eq d' d
      · subst hEq; simp; omega
      · have : ¬ d = d' := fun e => hEq e.symm
        simp [hEq, this]; omega
    · rename_i hnin
      simp only [sumL]
      rw [sumL_upd_not_mem hnin, upd_same, upd_apply, h.off _ hnin]
      by_eq d' d
      · subst hEq; simp [amtOf]; omega
      · have : ¬ d = d' := fun e => hEq e.symm
        simp [hEq, this, amtOf]; omega
  · exact h.bnd

theorem matInv_tx {s s' : St} {t : Tx} (h : MatInv s) (e : TxEffect s t s') : MatInv s' := by
  cases e with
  | noop => exact h
  | stake v d a h0 hlt hc hf hu hp => exact ⟨h.nodup, h.off, h.maturing, h.bnd⟩
  | gstake v d a hp => exact ⟨h.nodup, h.off, h.maturing, h.bnd⟩
  | unstake v d a r hv hsa h0 hlt hf hr h1 h2 h3 hp => exact matInv_unstake h v d a r
  | withdraw v d a h0 hlt hc ho hf hfo hb =>
    refine ⟨h.nodup, h.off, h.maturing, ?_⟩
    intro d'
    have := h.bnd d'
    simp only [withdrawOk, upd_apply]
    by_eq d' d
    · subst hEq; simp; omega
    · simp [hEq]; omega
  | freeze v => exact ⟨h.nodup, h.off, h.maturing, h.bnd⟩
  | release v => exact ⟨h.nodup, h.off, h.maturing, h.bnd⟩
  | allege v => exact ⟨h.nodup, h.off, h.maturing, h.bnd⟩
  | closeRequest v => exact ⟨h.nodup, h.off, h.maturing, h.bnd⟩
  | setMaturity m => exact ⟨h.nodup, h.off, h.maturing, h.bnd⟩
  | credit d x => exact ⟨h.nodup, h.off, h.maturing, h.bnd⟩
  | setIterVals l => exact ⟨h.nodup, h.off, h.maturing, h.bnd⟩

theorem matInv_runTxs {s : St} {txs : List Tx} (h : MatInv s) : MatInv (runTxs s txs) := by
  induction txs generalizing s with
  | nil => exact h
  | cons t ts ih =>
    simp only [runTxs, List.foldl_cons]
    exact ih (matInv_tx h (stepTx_effect s t))

theorem matInv_uwr {s : St} (h : MatInv s) (k : Int) : MatInv (updateWithdrawReward s k) := by
  refine ⟨h.nodup, ?_, ?_, ?_⟩
  · intro k' hk'
    simp only [updateWithdrawReward, upd_apply]
    split
    · rfl
    · exact h.off k' hk'
  · intro d
    rw [uwr_gMaturing]
    have hm := h.maturing d
    have hf : ∀ k', amtOf d ((updateWithdrawReward s k).mat k') =
        upd (fun k => amtOf d (s.mat k)) k 0 k' := by
      intro k'
      simp only [updateWithdrawReward, upd_apply]
      split <;> simp [amtOf]
    rw [sumL_congr (fun k' _ => hf k')]
    show _ = sumL s.gKeys _
    by_cases hin : k ∈ s.gKeys
    · rw [sumL_upd_mem h.nodup hin]; omega
    · rw [sumL_upd_not_mem hin, h.off k hin]; simp [amtOf]; omega
  · intro d
    rw [uwr_bnd, uwr_gUnlocked]
    have := h.bnd d
    show _ = _ - s.gWithdrawn d
    omega

theorem matInv_slash {s : St} (c : Cfg) (h : MatInv s) (v : Addr) : MatInv (slash c s v) := by
  cases hp : s.prev v with
  | none => rw [slash_none c s v hp]; exact ⟨h.nodup, h.off, h.maturing, h.bnd⟩
  | some r' =>
    rw [slash_some c s v r' hp]
    simp only [minus_fst]
    exact ⟨h.nodup, h.off, h.maturing, h.bnd⟩

theorem matInv_foldSlash {s : St} (c : Cfg) (h : MatInv s) (g : List Addr) :
    MatInv (g.foldl (slash c) s) := by
  induction g generalizing s with
  | nil => exact h
  | cons v t ih => exact ih (matInv_slash c h v)

theorem matInv_endBlock {s : St} (c : Cfg) (h : MatInv s) (g p dl : List Addr) :
    MatInv (endBlock c s g p dl) := by
  unfold endBlock
  split
  · exact h
  · apply matInv_foldSlash
    apply matInv_uwr
    exact ⟨h.nodup, h.off, h.maturing, h.bnd⟩

theorem matInv_execBlock {s : St} (c : Cfg) (h : MatInv s) (b : Block) :
    MatInv (execBlock c s b) := by
  unfold execBlock
  have h1 : MatInv (beginBlock s (s.height + 1)) := ⟨h.nodup, h.off, h.maturing, h.bnd⟩
  have h2 := matInv_endBlock c (matInv_runTxs (txs := b.txs) h1) b.guilty b.purged b.deletable
  exact ⟨h2.nodup, h2.off, h2.maturing, h2.bnd⟩

theorem matInv_run {s : St} (c : Cfg) (h : MatInv s) (bs : List Block) : MatInv (run c s bs) := by
  induction bs generalizing s with
  | nil => exact h
  | cons b t ih =>
    simp only [run, List.foldl_cons]
    exact ih (matInv_execBlock c h b)

/-- the ghost "maturing" accumulator is a sum of the stored maturing amounts, hence ≥ 0 -/
theorem gMaturing_nonneg {s : St} (h : MatInv s) (hn : NonNeg s) (d : Addr) : 0 ≤ s.gMaturing d := by
  rw [h.maturing d]
  apply sumL_nonneg
  intro k _
  exact amtOf_nonneg d (s.mat k) (hn.mat k)

/-! ## Sched: the maturing records are the schedule; keys below `lo` are spent -/

/-- the lowest key EndBlock has not processed yet, for a block of height `h` (EndBlock does
    nothing at height 1, so during block 1 the first processed key will be 2) -/
def lowKey (h : Int) : Int := if h < 2 then 2 else h

structure Sched (s : St) (lo : Int) : Prop where
  past : ∀ k, k < lo → s.mat k = []
  future : ∀ k d, lo ≤ k → amtOf d (s.mat k) = s.gSched k d
  maturity : 0 ≤ s.maturity ∧ (s.height ≤ 1 → 1 ≤ s.maturity)

/-- the maturity option is never negative and is at least 1 during block 1 (governance only
    admits 109200 … 468000) -/
def MatGuard (s : St) : Tx → Prop
  | .setMaturity m => 0 ≤ m ∧ (s.height ≤ 1 → 1 ≤ m)
  | _ => True

theorem sched_empty (m : Int) (hm : 1 ≤ m) : Sched (St.empty m) (lowKey 1) := by
  constructor
  · intro k _; rfl
  · intro k d _; rfl
  · simp [St.empty]; omega

theorem lowKey_le_key {s : St} (hh : 1 ≤ s.height)
    (hm : 0 ≤ s.maturity ∧ (s.height ≤ 1 → 1 ≤ s.maturity)) :
    lowKey s.height ≤ s.height + s.maturity := by
  unfold lowKey
  split
  · have := hm.2 (by omega); omega
  · omega

theorem sched_tx {s s' : St} {t : Tx} (hh : 1 ≤ s.height) (h : Sched s (lowKey s.height))
    (hg : MatGuard s t) (e : TxEffect s t s') :
    Sched s' (lowKey s'.height) ∧ s'.height = s.height := by
  cases e with
  | noop => exact ⟨h, rfl⟩
  | stake v d a h0 hlt hc hf hu hp => exact ⟨⟨h.past, h.future, h.maturity⟩, rfl⟩
  | gstake v d a hp => exact ⟨⟨h.past, h.future, h.maturity⟩, rfl⟩
  | unstake v d a r hv hsa h0 hlt hf hr h1 h2 h3 hp =>
    have hkey := lowKey_le_key hh h.maturity
    refine ⟨⟨?_, ?_, h.maturity⟩, rfl⟩
    · intro k hk
      have hk' : k < lowKey s.height := hk
      have : k ≠ s.height + s.maturity := by omega
      simp only [unstakeOk, upd_apply, this, if_false]
      exact h.past k hk'
    · intro k d' hk
      have hk' : lowKey s.height ≤ k := hk
      have hf' := h.future k d' hk'
      simp only [unstakeOk, upd_apply, upd2_apply]
      by_eq k (s.height + s.maturity)
      · subst hEq
        simp only [if_true, true_and]
        rw [amtOf_sortByAddr, amtOf_append]
        by_cases hd : d' = d
        · subst hd; simp [amtOf]; omega
        · have : ¬ d = d' := fun e => hd e.symm
          simp [amtOf, hd, this]; omega
      · simp only [hEq, if_false, false_and]; exact hf'
  | withdraw v d a h0 hlt hc ho hf hfo hb => exact ⟨⟨h.past, h.future, h.maturity⟩, rfl⟩
  | freeze v => exact ⟨⟨h.past, h.future, h.maturity⟩, rfl⟩
  | release v => exact ⟨⟨h.past, h.future, h.maturity⟩, rfl⟩
  | allege v => exact ⟨⟨h.past, h.future, h.maturity⟩, rfl⟩
  | closeRequest v => exact ⟨⟨h.past, h.future, h.maturity⟩, rfl⟩
  | setMaturity m => exact ⟨⟨h.past, h.future, hg⟩, rfl⟩
  | credit d x => exact ⟨⟨h.past, h.future, h.maturity⟩, rfl⟩
  | setIterVals l => exact ⟨⟨h.past, h.future, h.maturity⟩, rfl⟩

theorem sched_runTxs {s : St} {txs : List Tx} (hh : 1 ≤ s.height) (h : Sched s (lowKey s.height))
    (hg : TxsOK MatGuard s txs) :
    Sched (runTxs s txs) (lowKey (runTxs s txs).height) ∧ (runTxs s txs).height = s.height := by
  induction txs generalizing s with
  | nil => exact ⟨h, rfl⟩
  | cons t ts ih =>
    simp only [runTxs, List.foldl_cons]
    have h1 := sched_tx hh h hg.1 (stepTx_effect s t)
    have h2 := ih (by rw [h1.2]; exact hh) h1.1 hg.2
    exact ⟨h2.1, by rw [show (List.foldl (fun s t => (stepTx s t).1) (stepTx s t).1 ts).height = (stepTx s t).1.height from h2.2, h1.2]⟩

theorem slash_mat (c : Cfg) (s : St) (v : Addr) :
    (slash c s v).mat = s.mat ∧ (slash c s v).gSched = s.gSched ∧
    (slash c s v).maturity = s.maturity ∧ (slash c s v).height = s.height ∧
    (slash c s v).gUnlocked = s.gUnlocked := by
  cases hp : s.prev v with
  | none => rw [slash_none c s v hp]; exact ⟨rfl, rfl, rfl, rfl, rfl⟩
  | some r' =>
    rw [slash_some c s v r' hp]
    simp [minus_fst]

theorem foldSlash_mat (c : Cfg) (s : St) (g : List Addr) :
    (g.foldl (slash c) s).mat = s.mat ∧ (g.foldl (slash c) s).gSched = s.gSched ∧
    (g.foldl (slash c) s).maturity = s.maturity ∧ (g.foldl (slash c) s).height = s.height ∧
    (g.foldl (slash c) s).gUnlocked = s.gUnlocked := by
  induction g generalizing s with
  | nil => exact ⟨rfl, rfl, rfl, rfl, rfl⟩
  | cons v t ih =>
    simp only [List.foldl_cons]
    have h1 := ih (slash c s v)
    have h2 := slash_mat c s v
    exact ⟨h1.1.trans h2.1, h1.2.1.trans h2.2.1, h1.2.2.1.trans h2.2.2.1,
      h1.2.2.2.1.trans h2.2.2.2.1, h1.2.2.2.2.trans h2.2.2.2.2⟩

/-- EndBlock of height h spends key h and nothing else -/
theorem sched_endBlock {s : St} (c : Cfg) (h : Sched s (lowKey s.height)) (g p dl : List Addr) :
    Sched (endBlock c s g p dl) (lowKey (s.height + 1)) ∧ (endBlock c s g p dl).height = s.height ∧
    (endBlock c s g p dl).gSched = s.gSched ∧
    (∀ d, (endBlock c s g p dl).gUnlocked d =
      s.gUnlocked d + (if s.height ≤ 1 then 0 else s.gSched s.height d)) := by
  unfold endBlock
  by_cases h1 : s.height ≤ 1
  · simp only [h1, if_true]
    have e1 : lowKey (s.height + 1) = 2 := by unfold lowKey; split <;> omega
    have e2 : lowKey s.height = 2 := by unfold lowKey; split <;> omega
    rw [e1]; rw [e2] at h
    exact ⟨h, by simp, by simp, fun d => by simp⟩
  · simp only [h1, if_false]
    have e2 : lowKey s.height = s.height := by unfold lowKey; split <;> omega
    have e1 : lowKey (s.height + 1) = s.height + 1 := by unfold lowKey; split <;> omega
    rw [e2] at h
    rw [e1]
    obtain ⟨f1, f2, f3, f4, f5⟩ := foldSlash_mat c
      (updateWithdrawReward (writePurge (deleteZeroPower s dl) p) s.height) g
    refine ⟨⟨?_, ?_, ?_⟩, ?_, ?_, ?_⟩
    · intro k hk
      rw [f1]
      simp only [updateWithdrawReward, upd_apply]
      split
      · rfl
      · rename_i hne
        exact h.past k (by omega)
    · intro k d hk
      rw [f1, f2]
      simp only [updateWithdrawReward, upd_apply]
      have : k ≠ s.height := by omega
      simp only [this, if_false]
      exact h.future k d (by omega)
    · rw [f3, f4]; exact h.maturity
    · rw [f4]; rfl
    · rw [f2]; rfl
    · intro d
      rw [f5, uwr_gUnlocked]
      show s.gUnlocked d + amtOf d (s.mat s.height) = _
      rw [h.future s.height d (by omega)]

theorem txEffect_gUnlocked {s s' : St} {t : Tx} (e : TxEffect s t s') :
    s'.gUnlocked = s.gUnlocked := by
  cases e <;> rfl

/-- boundary form: after Commit of block h the lowest unspent key is `lowKey (h+1)` -/
def SchedB (s : St) : Prop := Sched s (lowKey (s.height + 1)) ∧ 0 ≤ s.height

theorem schedB_empty (m : Int) (hm : 1 ≤ m) : SchedB (St.empty m) := by
  have := sched_empty m hm
  unfold SchedB
  exact ⟨by simpa [St.empty] using this, by simp [St.empty]⟩

/-- one block: the schedule invariant is kept and the withdrawable amounts grow by exactly what
    was scheduled for this height -/
theorem schedB_execBlock {s : St} (c : Cfg) (h : SchedB s) (b : Block)
    (hg : TxsOK MatGuard (beginBlock s (s.height + 1)) b.txs) :
    SchedB (execBlock c s b) ∧ (execBlock c s b).height = s.height + 1 ∧
    (∀ d, (execBlock c s b).gUnlocked d =
      s.gUnlocked d + (if s.height + 1 ≤ 1 then 0 else (execBlock c s b).gSched (s.height + 1) d)) := by
  obtain ⟨h, hpos⟩ := h
  have hb : Sched (beginBlock s (s.height + 1)) (lowKey (beginBlock s (s.height + 1)).height) := by
    have hm : 0 ≤ s.maturity ∧ (s.height + 1 ≤ 1 → 1 ≤ s.maturity) := by
      refine ⟨h.maturity.1, fun h1 => h.maturity.2 (by omega)⟩
    exact ⟨h.past, h.future, hm⟩
  have hh1 : 1 ≤ (beginBlock s (s.height + 1)).height := by
    show 1 ≤ s.height + 1
    omega
  obtain ⟨h1, h2⟩ := sched_runTxs hh1 hb hg
  have h2' : (runTxs (beginBlock s (s.height + 1)) b.txs).height = s.height + 1 := h2
  obtain ⟨h3, h4, h5, h6⟩ := sched_endBlock c h1 b.guilty b.purged b.deletable
  rw [h2'] at h3 h4 h6
  unfold execBlock
  refine ⟨?_, h4, ?_⟩
  · unfold SchedB
    have : (commit (endBlock c (runTxs (beginBlock s (s.height + 1)) b.txs) b.guilty b.purged b.deletable)).height
        = s.height + 1 := h4
    rw [this]
    exact ⟨⟨h3.past, h3.future, h3.maturity⟩, by omega⟩
  · intro d
    have hu : (beginBlock s (s.height + 1)).gUnlocked = s.gUnlocked := rfl
    have := h6 d
    show (endBlock c (runTxs (beginBlock s (s.height + 1)) b.txs) b.guilty b.purged b.deletable).gUnlocked d = _
    rw [this]
    have hs : (commit (endBlock c (runTxs (beginBlock s (s.height + 1)) b.txs) b.guilty b.purged b.deletable)).gSched
        = (runTxs (beginBlock s (s.height + 1)) b.txs).gSched := h5
    rw [hs]
    -- the unlocked amount before EndBlock is the one at the start of the block: transactions
    -- never touch it
    have hun : ∀ (s : St) (txs : List Tx), (runTxs s txs).gUnlocked = s.gUnlocked := by
      intro s txs
      induction txs generalizing s with
      | nil => rfl
      | cons t ts ih =>
        simp only [runTxs, List.foldl_cons]
        have := ih (stepTx s t).1
        simp only [runTxs] at this
        rw [this]
        exact txEffect_gUnlocked (stepTx_effect s t)
    rw [hun, hu]

/-! ## Paid: balance side = record side × 10^18 -/

def Paid (s : St) : Prop :=
  ∀ d, s.gPaidIn d = s.gStaked d * oltBase ∧ s.gPaidOut d = s.gWithdrawn d * oltBase

theorem paid_empty (m : Int) : Paid (St.empty m) := by intro d; simp [St.empty]

theorem paid_tx {s s' : St} {t : Tx} (h : Paid s) (e : TxEffect s t s') : Paid s' := by
  cases e with
  | noop => exact h
  | stake v d a h0 hlt hc hf hu hp =>
    intro d'
    have := h d'
    simp only [runStakeOk, ghostStake, stakeOk, upd_apply, hc]
    by_eq d' d
    · subst hEq; simp; constructor
      · rw [this.1, Int.add_mul]
      · exact this.2
    · simp [hEq]; exact this
  | gstake v d a hp =>
    intro d'
    have := h d'
    simp only [ghostStake, stakeOk, upd_apply]
    by_eq d' d
    · subst hEq; simp; constructor
      · rw [this.1, Int.add_mul]
      · exact this.2
    · simp [hEq]; exact this
  | unstake v d a r hv hsa h0 hlt hf hr h1 h2 h3 hp => exact h
  | withdraw v d a h0 hlt hc ho hf hfo hb =>
    intro d'
    have := h d'
    simp only [withdrawOk, upd_apply, hc]
    by_eq d' d
    · subst hEq; simp; constructor
      · exact this.1
      · rw [this.2, Int.add_mul]
    · simp [hEq]; exact this
  | freeze v => exact h
  | release v => exact h
  | allege v => exact h
  | closeRequest v => exact h
  | setMaturity m => exact h
  | credit d x => exact h
  | setIterVals l => exact h

theorem paid_runTxs {s : St} {txs : List Tx} (h : Paid s) : Paid (runTxs s txs) := by
  induction txs generalizing s with
  | nil => exact h
  | cons t ts ih =>
    simp only [runTxs, List.foldl_cons]
    exact ih (paid_tx h (stepTx_effect s t))

theorem slash_paid (c : Cfg) (s : St) (v : Addr) :
    (slash c s v).gPaidIn = s.gPaidIn ∧ (slash c s v).gPaidOut = s.gPaidOut ∧
    (slash c s v).gStaked = s.gStaked ∧ (slash c s v).gWithdrawn = s.gWithdrawn := by
  cases hp : s.prev v with
  | none => rw [slash_none c s v hp]; exact ⟨rfl, rfl, rfl, rfl⟩
  | some r' =>
    rw [slash_some c s v r' hp]
    simp [minus_fst]

theorem paid_foldSlash {s : St} (c : Cfg) (h : Paid s) (g : List Addr) :
    Paid (g.foldl (slash c) s) := by
  induction g generalizing s with
  | nil => exact h
  | cons v t ih =>
    apply ih
    obtain ⟨e1, e2, e3, e4⟩ := slash_paid c s v
    intro d
    rw [e1, e2, e3, e4]; exact h d

theorem paid_execBlock {s : St} (c : Cfg) (h : Paid s) (b : Block) : Paid (execBlock c s b) := by
  unfold execBlock
  have h1 : Paid (beginBlock s (s.height + 1)) := h
  have h2 := paid_runTxs (txs := b.txs) h1
  show Paid (endBlock c _ b.guilty b.purged b.deletable)
  unfold endBlock
  split
  · exact h2
  · apply paid_foldSlash
    exact h2

theorem paid_run {s : St} (c : Cfg) (h : Paid s) (bs : List Block) : Paid (run c s bs) := by
  induction bs generalizing s with
  | nil => exact h
  | cons b t ih =>
    simp only [run, List.foldl_cons]
    exact ih (paid_execBlock c h b)

end OLP.Stake

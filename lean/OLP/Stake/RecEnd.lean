/-
  OLP.Stake.RecEnd — the record invariants across EndBlock (deletion of powerless records,
  purge heights, unlocks, slashing verdicts) and Commit; then whole blocks and runs.
-/
import OLP.Stake.RecTx

namespace OLP.Stake

/-- the facts about the penalty function the proofs use (true of `penalty30`) -/
def PenOK (c : Cfg) : Prop := ∀ t, 0 ≤ t → 0 ≤ c.pen t ∧ c.pen t ≤ t

theorem penalty30_ok : PenOK { pen := penalty30 } := by
  intro t ht
  simp only [penalty30]
  constructor <;> omega

/-- What EndBlock needs: the tally tries a validator at most once (`CleanTracker` removes
    duplicate requests against one validator before the tally).  Nothing a defect forces: the
    hypotheses of KF-C11-1 (guilty and purged in one EndBlock; acb5e5c) and KF-C11-3 (verdict in
    the block of a stake-address change; ebb3d1d, 7abde80) are gone. -/
def EndGuard (_ : St) (b : Block) : Prop := b.guilty.Nodup

/-- the invariant while the verdicts `rest` are still to be executed -/
structure EndInv (U : List Addr) (s : St) (rest : List Addr) : Prop where
  recs : Rec U s
  nn : NonNeg s
  noFuture : ∀ k v, s.height < k → s.delayed k v = none
  pendNonneg : ∀ v, 0 ≤ pendOf s v
  restClean : ∀ v, v ∈ rest → s.delayed s.height v = none

/-- a verdict whose `MinusFromAddress` goes through completely -/
def slashOk (c : Cfg) (s : St) (v : Addr) (sa : Addr) : St :=
  { s with frozen := upd s.frozen v true,
           tot := upd s.tot v (s.tot v - c.pen (s.tot v)),
           vd := upd2 s.vd v sa (s.vd v sa - c.pen (s.tot v)),
           eff := upd s.eff sa (s.eff sa - c.pen (s.tot v)),
           delayed := upd2 s.delayed s.height v (some (c.pen (s.tot v))),
           req := upd s.req v false,
           gPenal := upd s.gPenal sa (s.gPenal sa + (s.eff sa - (s.eff sa - c.pen (s.tot v)))) }

theorem slash_ok_eq (c : Cfg) (s : St) (v : Addr) (r' : VRec) (hp : s.prev v = some r')
    (h1 : c.pen (s.tot v) ≤ s.tot v) (h2 : c.pen (s.tot v) ≤ s.vd v (slashAddr s v r'))
    (h3 : c.pen (s.tot v) ≤ s.eff (slashAddr s v r')) :
    slash c s v = slashOk c s v (slashAddr s v r') := by
  rw [slash_some c s v r' hp]
  have hm : (minusFromAddress { s with frozen := upd s.frozen v true } v (slashAddr s v r')
      (c.pen (s.tot v))).2 = true := by
    rw [minus_snd]; exact ⟨h1, h2, h3⟩
  simp only [minus_ok _ v (slashAddr s v r') _ hm, hm, if_true, slashOk, upd_same]

/-- under the record invariants a verdict never fails: the current stake address holds the
    whole locked total -/
theorem slash_total {U : List Addr} (hU : U.Nodup) {c : Cfg} (hpen : PenOK c) {s : St}
    (h : Rec U s) (hn : NonNeg s) (v : Addr) (r' : VRec) :
    0 ≤ c.pen (s.tot v) ∧ c.pen (s.tot v) ≤ s.tot v ∧
    c.pen (s.tot v) ≤ s.vd v (slashAddr s v r') ∧
    c.pen (s.tot v) ≤ s.eff (slashAddr s v r') ∧ (s.vals v = none → c.pen (s.tot v) = 0) := by
  have hp0 := hpen (s.tot v) (hn.tot v)
  unfold slashAddr
  cases hv : s.vals v with
  | none =>
    have ht := h.absent v hv
    rw [ht] at hp0 ⊢
    have hz : c.pen 0 = 0 := by omega
    rw [hz]
    exact ⟨by omega, by omega, hn.vd v r'.sa, hn.eff r'.sa, fun _ => rfl⟩
  | some r =>
    have ht := tot_eq_vd_sa hU h v r hv
    have he := vd_le_eff h hn v r.sa
    exact ⟨hp0.1, hp0.2, by simp only; omega, by simp only; omega, fun hh => by simp at hh⟩

theorem endInv_slash {U : List Addr} (hU : U.Nodup) {c : Cfg} (hpen : PenOK c) {s : St}
    {v : Addr} {rest : List Addr} (h : EndInv U s (v :: rest)) (hnd : v ∉ rest) :
    EndInv U (slash c s v) rest ∧ (slash c s v).height = s.height := by
  have hR := h.recs
  cases hp : s.prev v with
  | none =>
    rw [slash_none c s v hp]
    refine ⟨⟨?_, ⟨h.nn.vd, h.nn.tot, h.nn.eff, h.nn.bnd, h.nn.mat⟩, h.noFuture, h.pendNonneg, ?_⟩,
      rfl⟩
    · exact ⟨hR.sup, hR.sumV, hR.sumD, hR.single, hR.staking, hR.absent⟩
    · intro v' hv'; exact h.restClean v' (by simp [hv'])
  | some r' =>
    obtain ⟨q0, q1, q2, q3, q4⟩ := slash_total hU hpen hR h.nn v r'
    rw [slash_ok_eq c s v r' hp q1 q2 q3]
    generalize slashAddr s v r' = sa at q2 q3 ⊢
    have hclean : s.delayed s.height v = none := h.restClean v (by simp)
    have hpv : pendOf s v = 0 := by simp [pendOf, hclean]
    have hmem : sa ∈ U ∨ -c.pen (s.tot v) = 0 := by
      by_cases hz : c.pen (s.tot v) = 0
      · right; omega
      · left
        have : s.vd v sa ≠ 0 := by omega
        exact (hR.sup v sa this).2
    have hmemv : v ∈ U ∨ -c.pen (s.tot v) = 0 := by
      by_cases hz : c.pen (s.tot v) = 0
      · right; omega
      · left
        have : s.vd v sa ≠ 0 := by omega
        exact (hR.sup v sa this).1
    have hvd : ∀ v' d', (slashOk c s v sa).vd v' d' =
        if v' = v ∧ d' = sa then s.vd v sa - c.pen (s.tot v) else s.vd v' d' := by
      intro v' d'; simp only [slashOk, upd2_apply]
    have hvdne : ∀ v' d', (slashOk c s v sa).vd v' d' ≠ 0 → s.vd v' d' ≠ 0 := by
      intro v' d' hne
      rw [hvd] at hne
      by_cases hc : v' = v ∧ d' = sa
      · rw [hc.1, hc.2]
        simp only [hc, and_self, if_true] at hne
        intro hz
        have := h.nn.vd v sa
        omega
      · simp only [hc, if_false] at hne; exact hne
    have hpend : ∀ v', pendOf (slashOk c s v sa) v' =
        if v' = v then c.pen (s.tot v) else pendOf s v' := by
      intro v'
      simp only [pendOf, slashOk, upd2_apply]
      by_eq v' v
      · simp [hEq]
      · simp [hEq]
    have htot : ∀ v', (slashOk c s v sa).tot v' =
        if v' = v then s.tot v - c.pen (s.tot v) else s.tot v' := by
      intro v'; simp only [slashOk, upd_apply]
    refine ⟨⟨?_, ?_, ?_, ?_, ?_⟩, rfl⟩
    · constructor
      · intro v' d' hne; exact hR.sup v' d' (hvdne v' d' hne)
      · have := sumV_bump hU hR.sumV v sa (-c.pen (s.tot v)) hmem
        intro v'
        have := this v'
        simp only [← Int.sub_eq_add_neg] at this
        exact this
      · have := sumD_bump hU hR.sumD v sa (-c.pen (s.tot v)) hmemv
        intro d'
        have := this d'
        simp only [← Int.sub_eq_add_neg] at this
        exact this
      · intro v' d' hne; exact hR.single v' d' (hvdne v' d' hne)
      · intro v' r hr
        have hr' : s.vals v' = some r := hr
        obtain ⟨g1, g2, g3⟩ := hR.staking v' r hr'
        rw [hpend, htot]
        by_eq v' v
        · subst hEq
          simp only [if_true]
          rw [hpv] at g1
          exact ⟨by omega, g2, g3⟩
        · simp only [hEq, if_false]; exact ⟨g1, g2, g3⟩
      · intro v' hv'
        have hv2 : s.vals v' = none := hv'
        rw [htot]
        by_eq v' v
        · subst hEq
          simp only [if_true]
          have := q4 hv2
          have := hR.absent v' hv2
          omega
        · simp only [hEq, if_false]; exact hR.absent v' hv2
    · have hn := h.nn
      refine ⟨?_, ?_, ?_, hn.bnd, hn.mat⟩
      · intro v' d'
        have := hn.vd v' d'
        rw [hvd]; split <;> omega
      · intro v'
        have := hn.tot v'
        rw [htot]; split <;> omega
      · intro d'
        have := hn.eff d'
        show 0 ≤ upd s.eff sa (s.eff sa - c.pen (s.tot v)) d'
        rw [upd_apply]; split <;> omega
    · intro k v' hk
      have hk' : s.height < k := hk
      simp only [slashOk, upd2_apply]
      have : ¬ (k = s.height ∧ v' = v) := by omega
      simp only [this, if_false]
      exact h.noFuture k v' hk'
    · intro v'
      rw [hpend]
      split
      · exact q0
      · exact h.pendNonneg v'
    · intro v' hv'
      have hne : v' ≠ v := fun e => hnd (e ▸ hv')
      show (slashOk c s v sa).delayed s.height v' = none
      simp only [slashOk, upd2_apply, hne, and_false, if_false]
      exact h.restClean v' (by simp [hv'])

theorem endInv_foldSlash {U : List Addr} (hU : U.Nodup) {c : Cfg} (hpen : PenOK c) {s : St}
    {g : List Addr} (h : EndInv U s g) (hnd : g.Nodup) :
    EndInv U (g.foldl (slash c) s) [] ∧ (g.foldl (slash c) s).height = s.height := by
  induction g generalizing s with
  | nil => exact ⟨h, rfl⟩
  | cons v t ih =>
    simp only [List.foldl_cons]
    have hnd' : v ∉ t ∧ t.Nodup := by simpa using hnd
    obtain ⟨h1, e1⟩ := endInv_slash hU hpen h hnd'.1
    obtain ⟨h2, e2⟩ := ih h1 hnd'.2
    exact ⟨h2, e2.trans e1⟩

/-- what the deletion does to one record -/
theorem deleteZeroPower_vals (s : St) (dl : List Addr) (v : Addr) :
    ((deleteZeroPower s dl).vals v = s.vals v) ∨
    ((deleteZeroPower s dl).vals v = none ∧ ∃ r, s.vals v = some r ∧ r.power ≤ 0) := by
  simp only [deleteZeroPower]
  cases hp : s.prev v with
  | none => left; rfl
  | some r' =>
    cases hv : s.vals v with
    | none => left; rfl
    | some r =>
      simp only
      split
      · rename_i hc; right; exact ⟨rfl, r, rfl, hc.2.1⟩
      · left; rfl

/-- the state EndBlock hands to the verdicts satisfies `EndInv` -/
theorem endInv_start {U : List Addr} {s : St} (h : Rec U s) (hi : InBlock s) (hn : NonNeg s)
    (g p dl : List Addr) :
    EndInv U (updateWithdrawReward (writePurge (deleteZeroPower s dl) p) s.height) g := by
  -- a record is deleted only when it has no power, hence nothing locked
  have hzero : ∀ v r, s.vals v = some r → r.power ≤ 0 → s.tot v = 0 := by
    intro v r hr hpow
    obtain ⟨h1, h2, _⟩ := h.staking v r hr
    rw [pendOf_inBlock hi] at h1
    have := hn.tot v
    omega
  have hpend : ∀ v, pendOf (updateWithdrawReward (writePurge (deleteZeroPower s dl) p) s.height) v = 0 :=
    fun v => pendOf_inBlock hi v
  have hvals : ∀ v, (updateWithdrawReward (writePurge (deleteZeroPower s dl) p) s.height).vals v =
      (deleteZeroPower s dl).vals v := fun _ => rfl
  constructor
  · constructor
    · exact h.sup
    · exact h.sumV
    · exact h.sumD
    · intro v d hne
      obtain ⟨r, hr, hsa⟩ := h.single v d hne
      refine ⟨r, ?_, hsa⟩
      rw [hvals]
      rcases deleteZeroPower_vals s dl v with e | ⟨_, r2, hr2, hpow⟩
      · rw [e]; exact hr
      · exfalso
        exact hne (tot_zero_vd_zero h hn v (hzero v r2 hr2 hpow) d)
    · intro v r hr
      rw [hvals] at hr
      rcases deleteZeroPower_vals s dl v with e | ⟨e, _⟩
      · rw [e] at hr
        have := h.staking v r hr
        rw [hpend, pendOf_inBlock hi] at *
        exact this
      · rw [e] at hr; simp at hr
    · intro v hv
      rw [hvals] at hv
      rcases deleteZeroPower_vals s dl v with e | ⟨_, r2, hr2, hpow⟩
      · rw [e] at hv; exact h.absent v hv
      · exact hzero v r2 hr2 hpow
  · exact nonNeg_uwr (s := writePurge (deleteZeroPower s dl) p) ⟨hn.vd, hn.tot, hn.eff, hn.bnd, hn.mat⟩ s.height
  · intro k v hk
    exact hi.noDelayed k v (by have : (updateWithdrawReward (writePurge (deleteZeroPower s dl) p) s.height).height = s.height := rfl; omega)
  · intro v; rw [hpend]; omega
  · intro v _
    exact hi.noDelayed s.height v (by omega)

/-- EndBlock and Commit: back to the boundary form -/
theorem rec_end_commit {U : List Addr} (hU : U.Nodup) {c : Cfg} (hpen : PenOK c) {s : St}
    (h : Rec U s) (hi : InBlock s) (hn : NonNeg s) (g p dl : List Addr) (hnd : g.Nodup) :
    Rec U (commit (endBlock c s g p dl)) ∧ Boundary (commit (endBlock c s g p dl)) ∧
    NonNeg (commit (endBlock c s g p dl)) := by
  unfold endBlock
  by_cases h1 : s.height ≤ 1
  · simp only [h1, if_true]
    refine ⟨?_, ?_, ⟨hn.vd, hn.tot, hn.eff, hn.bnd, hn.mat⟩⟩
    · exact ⟨h.sup, h.sumV, h.sumD, h.single, h.staking, h.absent⟩
    · constructor
      · intro k v hk; exact hi.noDelayed k v (by have : (commit s).height = s.height := rfl; omega)
      · intro v
        have : pendOf (commit s) v = pendOf s v := rfl
        rw [this, pendOf_inBlock hi]; omega
  · simp only [h1, if_false]
    obtain ⟨hE, _⟩ := endInv_foldSlash hU hpen (endInv_start h hi hn g p dl) hnd
    have hR := hE.recs
    refine ⟨?_, ?_, ⟨hE.nn.vd, hE.nn.tot, hE.nn.eff, hE.nn.bnd, hE.nn.mat⟩⟩
    · exact ⟨hR.sup, hR.sumV, hR.sumD, hR.single, hR.staking, hR.absent⟩
    · exact ⟨hE.noFuture, hE.pendNonneg⟩

/-- the guards of one block: record guard on every transaction, verdict guard at EndBlock -/
def RecBlockOK (U : List Addr) (s : St) (b : Block) : Prop := BlockOK (RecGuard U) EndGuard s b

/-- one whole block keeps the record invariants -/
theorem rec_execBlock {U : List Addr} (hU : U.Nodup) {c : Cfg} (hpen : PenOK c) {s : St}
    (h : Rec U s) (hb : Boundary s) (hn : NonNeg s) (b : Block) (hg : RecBlockOK U s b) :
    Rec U (execBlock c s b) ∧ Boundary (execBlock c s b) ∧ NonNeg (execBlock c s b) := by
  obtain ⟨h1, i1⟩ := rec_begin h hb hn
  have n1 : NonNeg (beginBlock s (s.height + 1)) := nonNeg_beginBlock hn _
  obtain ⟨h2, i2, n2⟩ := rec_runTxs hU h1 i1 n1 hg.1
  exact rec_end_commit hU hpen h2 i2 n2 b.guilty b.purged b.deletable hg.2

theorem rec_run {U : List Addr} (hU : U.Nodup) {c : Cfg} (hpen : PenOK c) {s : St}
    (h : Rec U s) (hb : Boundary s) (hn : NonNeg s) (bs : List Block)
    (hg : RunOK (RecGuard U) EndGuard c s bs) :
    Rec U (run c s bs) ∧ Boundary (run c s bs) ∧ NonNeg (run c s bs) :=
  run_induction (G := RecGuard U) (B := EndGuard) (c := c)
    (fun s => Rec U s ∧ Boundary s ∧ NonNeg s)
    (fun _ b hI hG => rec_execBlock hU hpen hI.1 hI.2.1 hI.2.2 b hG) s bs ⟨h, hb, hn⟩ hg

end OLP.Stake

/-
  OLP.Stake.Rec — the record invariants: a validator's locked total is the sum of its
  delegators' amounts, a delegator's effective amount is the sum over validators, only the
  current stake address of a validator holds stake with it, and the validator record's `staking`
  equals the locked total (plus the slash that is still postponed to the next BeginBlock).

  After the repairs d8b47b0 / acb5e5c / ebb3d1d / 7abde80 no hypothesis forced by a defect is
  left; the well-formedness hypotheses (universe, supply bound, genesis entries, duplicate-free
  verdict lists) are stated as guards evaluated along the run.
-/
import OLP.Stake.Mat

namespace OLP.Stake

/-! ## sums under a point update of the (validator, delegator) matrix -/

theorem sumV_bump {U : List Addr} (hn : U.Nodup) {tot : Addr → Int} {vd : Addr → Addr → Int}
    (h : ∀ v, tot v = sumL U (fun d => vd v d)) (v d : Addr) (δ : Int) (hd : d ∈ U ∨ δ = 0) :
    ∀ v', upd tot v (tot v + δ) v' = sumL U (fun d' => upd2 vd v d (vd v d + δ) v' d') := by
  intro v'
  by_eq v' v
  · subst hEq
    rw [upd_same]
    have hv : tot v' = sumL U (vd v') := h v'
    have e : ∀ d', upd2 vd v' d (vd v' d + δ) v' d' = upd (vd v') d (vd v' d + δ) d' := by
      intro d'; rw [upd2_apply, upd_apply]; simp
    rw [sumL_congr (fun d' _ => e d')]
    rcases hd with hd | hd
    · rw [sumL_upd_mem hn hd]; omega
    · subst hd
      have e2 : ∀ d', upd (vd v') d (vd v' d + 0) d' = vd v' d' := by
        intro d'; rw [upd_apply]; split
        · rename_i hh; subst hh; omega
        · rfl
      rw [sumL_congr (fun d' _ => e2 d')]; omega
  · rw [upd_ne _ _ _ _ hEq]
    have e : ∀ d', upd2 vd v d (vd v d + δ) v' d' = vd v' d' := by
      intro d'; rw [upd2_apply]; simp [hEq]
    rw [sumL_congr (fun d' _ => e d'), h v']

theorem sumD_bump {U : List Addr} (hn : U.Nodup) {eff : Addr → Int} {vd : Addr → Addr → Int}
    (h : ∀ d, eff d = sumL U (fun v => vd v d)) (v d : Addr) (δ : Int) (hv : v ∈ U ∨ δ = 0) :
    ∀ d', upd eff d (eff d + δ) d' = sumL U (fun v' => upd2 vd v d (vd v d + δ) v' d') := by
  intro d'
  by_eq d' d
  · subst hEq
    rw [upd_same]
    have hd : eff d' = sumL U (fun v => vd v d') := h d'
    have e : ∀ v', upd2 vd v d' (vd v d' + δ) v' d' = upd (fun v => vd v d') v (vd v d' + δ) v' := by
      intro v'; rw [upd2_apply, upd_apply]; simp
    rw [sumL_congr (fun v' _ => e v')]
    rcases hv with hv | hv
    · rw [sumL_upd_mem hn hv]; omega
    · subst hv
      have e2 : ∀ v', upd (fun v => vd v d') v (vd v d' + 0) v' = vd v' d' := by
        intro v'; rw [upd_apply]; split
        · rename_i hh; subst hh; omega
        · rfl
      rw [sumL_congr (fun v' _ => e2 v')]; omega
  · rw [upd_ne _ _ _ _ hEq]
    have e : ∀ v', upd2 vd v d (vd v d + δ) v' d' = vd v' d' := by
      intro v'; rw [upd2_apply]; simp [hEq]
    rw [sumL_congr (fun v' _ => e v'), h d']

/-! ## the invariant -/

/-- the slash decided in the EndBlock of the current height and not yet applied to the record -/
def pendOf (s : St) (v : Addr) : Int := (s.delayed s.height v).getD 0

structure Rec (U : List Addr) (s : St) : Prop where
  sup : ∀ v d, s.vd v d ≠ 0 → v ∈ U ∧ d ∈ U
  sumV : ∀ v, s.tot v = sumL U (fun d => s.vd v d)
  sumD : ∀ d, s.eff d = sumL U (fun v => s.vd v d)
  /-- only the current stake address of a validator holds stake with it -/
  single : ∀ v d, s.vd v d ≠ 0 → ∃ r, s.vals v = some r ∧ r.sa = d
  staking : ∀ v r, s.vals v = some r →
    r.staking = s.tot v + pendOf s v ∧ r.power = r.staking ∧ r.staking < two63
  absent : ∀ v, s.vals v = none → s.tot v = 0

/-- what additionally holds between BeginBlock and EndBlock: no slash is pending -/
structure InBlock (s : St) : Prop where
  noDelayed : ∀ k v, s.height ≤ k → s.delayed k v = none

/-- what additionally holds after Commit -/
structure Boundary (s : St) : Prop where
  noDelayed : ∀ k v, s.height < k → s.delayed k v = none
  pendNonneg : ∀ v, 0 ≤ pendOf s v

theorem rec_empty (U : List Addr) (m : Int) : Rec U (St.empty m) := by
  constructor
  · intro v d h; simp [St.empty] at h
  · intro v; simp only [St.empty]; rw [sumL_zero (fun _ _ => rfl)]
  · intro d; simp only [St.empty]; rw [sumL_zero (fun _ _ => rfl)]
  · intro v d h; simp [St.empty] at h
  · intro v r h; simp [St.empty] at h
  · intro v _; rfl

theorem boundary_empty (m : Int) : Boundary (St.empty m) := by
  constructor
  · intro k v _; rfl
  · intro v; simp [pendOf, St.empty]

/-- with non-negative entries, every delegation is bounded by the validator's total -/
theorem vd_le_tot {U : List Addr} {s : St} (h : Rec U s) (hn : NonNeg s) (v d : Addr) :
    s.vd v d ≤ s.tot v := by
  by_cases h0 : s.vd v d = 0
  · rw [h0]; exact hn.tot v
  · rw [h.sumV v]
    exact le_sumL_of_mem (f := fun d => s.vd v d) (h.sup v d h0).2 (fun a _ => hn.vd v a)

theorem vd_le_eff {U : List Addr} {s : St} (h : Rec U s) (hn : NonNeg s) (v d : Addr) :
    s.vd v d ≤ s.eff d := by
  by_cases h0 : s.vd v d = 0
  · rw [h0]; exact hn.eff d
  · rw [h.sumD d]
    exact le_sumL_of_mem (f := fun v => s.vd v d) (h.sup v d h0).1 (fun a _ => hn.vd a d)

/-- all of a validator's total sits with its stake address -/
theorem tot_eq_vd_sa {U : List Addr} {s : St} (hU : U.Nodup) (h : Rec U s) (v : Addr) (r : VRec)
    (hr : s.vals v = some r) : s.tot v = s.vd v r.sa := by
  have hz : ∀ d, d ≠ r.sa → s.vd v d = 0 := by
    intro d hd
    by_cases h0 : s.vd v d = 0
    · exact h0
    · obtain ⟨r2, h2, h3⟩ := h.single v d h0
      rw [hr] at h2
      have := Option.some.inj h2
      subst this
      exact absurd h3.symm hd
  rw [h.sumV v]
  by_cases hm : r.sa ∈ U
  · exact sumL_single (f := fun d => s.vd v d) hU hm (fun a _ ha => hz a ha)
  · have h1 : s.vd v r.sa = 0 := by
      by_cases h0 : s.vd v r.sa = 0
      · exact h0
      · exact absurd (h.sup v r.sa h0).2 hm
    rw [h1]
    apply sumL_zero
    intro a ha
    exact hz a (fun e => hm (e ▸ ha))

theorem tot_zero_vd_zero {U : List Addr} {s : St} (h : Rec U s) (hn : NonNeg s) (v : Addr)
    (h0 : s.tot v = 0) (d : Addr) : s.vd v d = 0 := by
  have h1 := vd_le_tot h hn v d
  have h2 := hn.vd v d
  omega

/-! ## BeginBlock -/

theorem rec_begin {U : List Addr} {s : St} (h : Rec U s) (hb : Boundary s) (hn : NonNeg s) :
    Rec U (beginBlock s (s.height + 1)) ∧ InBlock (beginBlock s (s.height + 1)) := by
  have hpend : ∀ v, pendOf (beginBlock s (s.height + 1)) v = 0 := by
    intro v
    show ((s.delayed (s.height + 1) v).getD 0) = 0
    rw [hb.noDelayed (s.height + 1) v (by omega)]; rfl
  have hvals : ∀ v, (beginBlock s (s.height + 1)).vals v =
      match s.vals v, s.delayed s.height v with
      | some r, some p => some ⟨r.staking - p, powerOf (r.staking - p), r.sa⟩
      | x, _ => x := by
    intro v
    show (match s.vals v, s.delayed (s.height + 1 - 1) v with
      | some r, some p => some (⟨r.staking - p, powerOf (r.staking - p), r.sa⟩ : VRec)
      | x, _ => x) = _
    have : s.height + 1 - 1 = s.height := by omega
    rw [this]
  constructor
  · constructor
    · exact h.sup
    · exact h.sumV
    · exact h.sumD
    · intro v d hvd
      obtain ⟨r, hr, hsa⟩ := h.single v d hvd
      rw [hvals v, hr]
      cases hd : s.delayed s.height v with
      | none => exact ⟨r, rfl, hsa⟩
      | some p => exact ⟨_, rfl, hsa⟩
    · intro v r hr
      rw [hvals v] at hr
      rw [hpend v]
      cases hv : s.vals v with
      | none => rw [hv] at hr; simp at hr
      | some r0 =>
        obtain ⟨h1, h2, h3⟩ := h.staking v r0 hv
        rw [hv] at hr
        cases hd : s.delayed s.height v with
        | none =>
          rw [hd] at hr
          simp only at hr
          have := Option.some.inj hr
          subst this
          have hp0 : pendOf s v = 0 := by simp [pendOf, hd]
          rw [hp0] at h1
          exact ⟨by show r0.staking = s.tot v + 0; omega, h2, h3⟩
        | some p =>
          rw [hd] at hr
          simp only at hr
          have := Option.some.inj hr
          subst this
          have hp0 : pendOf s v = p := by simp [pendOf, hd]
          have hpn := hb.pendNonneg v
          rw [hp0] at h1 hpn
          have ht := hn.tot v
          refine ⟨by show r0.staking - p = s.tot v + 0; omega, ?_, by show r0.staking - p < two63; omega⟩
          show powerOf (r0.staking - p) = r0.staking - p
          exact powerOf_of_range (by omega) (by omega)
    · intro v hv
      rw [hvals v] at hv
      cases hv0 : s.vals v with
      | none => exact h.absent v hv0
      | some r0 =>
        rw [hv0] at hv
        cases hd : s.delayed s.height v with
        | none => rw [hd] at hv; simp at hv
        | some p => rw [hd] at hv; simp at hv
  · constructor
    intro k v hk
    exact hb.noDelayed k v (by have : (beginBlock s (s.height + 1)).height = s.height + 1 := rfl; omega)

end OLP.Stake

/-
  Helper lemmas for the signature-admission model (C04): characterisation of `vbLoop`,
  decimal / escaped-string / base64 round trips, decoder round trip of `ser`.
-/
import OLP.Sig.Model

namespace OLP.Sig

/-! ## ValidateBasic -/
section VB
variable {PK S A M : Type} [DecidableEq A]
variable (verify : PK → M → S → Bool) (addrOf : PK → Option A) (data : M)

/-- signature `g` is by a key whose address is `s` and verifies over `data` -/
def Matches (s : A) (g : Sig PK S) : Prop :=
  addrOf g.signer = some s ∧ verify g.signer data g.signed = true

theorem vbLoop_cons_ok (s : A) (ss : List A) (g : Sig PK S) (gs : List (Sig PK S)) :
    vbLoop verify addrOf data (s :: ss) (g :: gs) = .ok ↔
      Matches verify addrOf data s g ∧ vbLoop verify addrOf data ss gs = .ok := by
  unfold Matches
  rw [vbLoop]
  cases h : addrOf g.signer with
  | none => simp
  | some a =>
    by_cases ha : a = s
    · subst ha
      cases hv : verify g.signer data g.signed <;> simp
    · simp [ha]

theorem vbLoop_ok_iff : ∀ (signers : List A) (sigs : List (Sig PK S)), sigs.length = signers.length →
    (vbLoop verify addrOf data signers sigs = .ok ↔
      ∀ i (hi : i < signers.length) (hj : i < sigs.length),
        Matches verify addrOf data signers[i] sigs[i])
  | [], sigs, _ => by simp [vbLoop]
  | s :: ss, [], h => by simp at h
  | s :: ss, g :: gs, h => by
    have hl : gs.length = ss.length := by simpa using h
    rw [vbLoop_cons_ok, vbLoop_ok_iff ss gs hl]
    constructor
    · rintro ⟨h0, hr⟩ i hi hj
      cases i with
      | zero => exact h0
      | succ k => exact hr k (by simpa using hi) (by simpa using hj)
    · intro hall
      refine ⟨hall 0 (by simp) (by simp), fun i hi hj => ?_⟩
      exact hall (i + 1) (by simpa using hi) (by simpa using hj)

theorem vbLoop_ne_panic : ∀ (signers : List A) (sigs : List (Sig PK S)), sigs.length = signers.length →
    vbLoop verify addrOf data signers sigs ≠ .panic
  | [], sigs, _ => by simp [vbLoop]
  | s :: ss, [], h => by simp at h
  | s :: ss, g :: gs, h => by
    have hl : gs.length = ss.length := by simpa using h
    rw [vbLoop]
    cases addrOf g.signer with
    | none => simp
    | some a =>
      by_cases ha : a = s
      · cases hv : verify g.signer data g.signed
        · simp [ha]
        · simpa [ha, hv] using vbLoop_ne_panic ss gs hl
      · simp [ha]

end VB

/-! ## decimal integers -/

theorem digit_facts : ∀ d, d < 10 → isDig (digitChar d) = true ∧ digVal (digitChar d) = d ∧ digitChar d ≠ '-' := by
  decide

theorem natDigits_all_dig (n : Nat) : ∀ c ∈ natDigits n, isDig c = true := by
  induction n using natDigits.induct with
  | case1 n h =>
    rw [natDigits]; simp [h]; exact (digit_facts n h).1
  | case2 n h ih =>
    rw [natDigits]; simp only [h, dite_false]
    intro c hc
    rcases List.mem_append.mp hc with hc | hc
    · exact ih c hc
    · simp at hc; subst hc; exact (digit_facts _ (Nat.mod_lt _ (by omega))).1

theorem natDigits_ne_nil (n : Nat) : natDigits n ≠ [] := by
  rw [natDigits]; split <;> simp

theorem digitsVal_append (l : List Char) (c : Char) : digitsVal (l ++ [c]) = 10 * digitsVal l + digVal c := by
  simp [digitsVal, List.foldl_append]

theorem digitsVal_natDigits (n : Nat) : digitsVal (natDigits n) = n := by
  induction n using natDigits.induct with
  | case1 n h =>
    rw [natDigits]; simp [h, digitsVal]; exact (digit_facts n h).2.1
  | case2 n h ih =>
    rw [natDigits]; simp only [h, dite_false]
    rw [digitsVal_append, ih, (digit_facts _ (Nat.mod_lt _ (by omega))).2.1]
    omega

theorem takeWhile_stop (p : Char → Bool) (ds : List Char) (c : Char) (rest : List Char)
    (hd : ∀ x ∈ ds, p x = true) (hc : p c = false) :
    (ds ++ c :: rest).takeWhile p = ds ∧ (ds ++ c :: rest).dropWhile p = c :: rest := by
  induction ds with
  | nil => simp [hc]
  | cons d ds ih =>
    have hd' : p d = true := hd d (by simp)
    have := ih (fun x hx => hd x (by simp [hx]))
    simp [hd', this.1, this.2]

theorem parseNat_natDigits (n : Nat) (c : Char) (rest : List Char) (hc : isDig c = false) :
    parseNat (natDigits n ++ c :: rest) = some (n, c :: rest) := by
  have h := takeWhile_stop isDig (natDigits n) c rest (natDigits_all_dig n) hc
  simp [parseNat, h.1, h.2, natDigits_ne_nil, digitsVal_natDigits]

theorem natDigits_head (n : Nat) : ∃ d l, natDigits n = d :: l ∧ d ≠ '-' := by
  cases h : natDigits n with
  | nil => exact absurd h (natDigits_ne_nil n)
  | cons d l =>
    refine ⟨d, l, rfl, ?_⟩
    have : isDig d = true := natDigits_all_dig n d (by simp [h])
    intro hd; subst hd; revert this; decide

theorem parseInt_intStr (i : Int) (c : Char) (rest : List Char) (hc : isDig c = false) :
    parseInt (intStr i ++ c :: rest) = some (i, c :: rest) := by
  cases i with
  | ofNat n =>
    obtain ⟨d, l, hdl, hne⟩ := natDigits_head n
    have h := parseNat_natDigits n c rest hc
    simp only [intStr]
    rw [hdl] at h ⊢
    simp only [List.cons_append] at h ⊢
    simp [parseInt, hne, h]
  | negSucc n =>
    have h := parseNat_natDigits (n + 1) c rest hc
    simp only [intStr, List.cons_append]
    simp [parseInt, h, Int.negSucc_eq]


/-! ## escaped strings -/

theorem hex_facts : ∀ n, n < 16 → hexVal (hexChar n) = some n := by decide

theorem unescBody_cons_plain (c : Char) (tl : List Char) (h1 : c ≠ '"') (h2 : c ≠ '\\') :
    unescBody (c :: tl) = (unescBody tl).map (consFst c) := by
  simp [unescBody, unescSM, h1, h2]

theorem unescBody_simple (e ch : Char) (tl : List Char) (he : e ≠ 'u') (hs : simpleEsc e = some ch) :
    unescBody ('\\' :: e :: tl) = (unescBody tl).map (consFst ch) := by
  have h1 : ('\\' : Char) ≠ '"' := by decide
  simp [unescBody, unescSM, h1, he, hs]

theorem unescBody_u (a b c d : Char) (va vb vc vd : Nat) (tl : List Char)
    (ha : hexVal a = some va) (hb : hexVal b = some vb) (hc : hexVal c = some vc) (hd : hexVal d = some vd) :
    unescBody ('\\' :: 'u' :: a :: b :: c :: d :: tl) =
      (unescBody tl).map (consFst (Char.ofNat (16 * (16 * (16 * (16 * 0 + va) + vb) + vc) + vd))) := by
  have h1 : ('\\' : Char) ≠ '"' := by decide
  simp [unescBody, unescSM, h1, ha, hb, hc, hd]

theorem unescBody_escChar (c : Char) (tl : List Char) :
    unescBody (escChar c ++ tl) = (unescBody tl).map (consFst c) := by
  unfold escChar
  split
  · next h => subst h; exact unescBody_simple _ _ _ (by decide) (by decide)
  split
  · next h => subst h; exact unescBody_simple _ _ _ (by decide) (by decide)
  split
  · next h => subst h; exact unescBody_simple _ _ _ (by decide) (by decide)
  split
  · next h => subst h; exact unescBody_simple _ _ _ (by decide) (by decide)
  split
  · next h => subst h; exact unescBody_simple _ _ _ (by decide) (by decide)
  split
  · next h => subst h; exact unescBody_simple _ _ _ (by decide) (by decide)
  split
  · next h => subst h; exact unescBody_simple _ _ _ (by decide) (by decide)
  split
  · next h =>
    have hlt : c.toNat < 64 := by
      rcases h with h | h | h | h
      · omega
      · subst h; decide
      · subst h; decide
      · subst h; decide
    have h0 : hexVal '0' = some 0 := by decide
    have := unescBody_u '0' '0' (hexChar (c.toNat / 16)) (hexChar (c.toNat % 16)) 0 0 (c.toNat / 16) (c.toNat % 16) tl
      h0 h0 (hex_facts _ (by omega)) (hex_facts _ (Nat.mod_lt _ (by omega)))
    have e : 16 * (16 * (16 * (16 * 0 + 0) + 0) + c.toNat / 16) + c.toNat % 16 = c.toNat := by omega
    rw [e, Char.ofNat_toNat] at this
    exact this
  split
  · next h =>
    subst h
    exact unescBody_u '2' '0' '2' '8' 2 0 2 8 tl (by decide) (by decide) (by decide) (by decide)
  split
  · next h =>
    subst h
    exact unescBody_u '2' '0' '2' '9' 2 0 2 9 tl (by decide) (by decide) (by decide) (by decide)
  · next hq hb _ _ _ _ _ _ _ _ => exact unescBody_cons_plain c tl hq hb

theorem unescBody_escBody (s : List Char) (rest : List Char) :
    unescBody (escBody s ++ '"' :: rest) = some (s, rest) := by
  induction s with
  | nil => simp [escBody, unescBody, unescSM]
  | cons c s ih =>
    simp only [escBody, List.append_assoc]
    rw [unescBody_escChar, ih]
    rfl

theorem unescStr_escStr (s : List Char) (rest : List Char) :
    unescStr (escStr s ++ rest) = some (s, rest) := by
  simp only [escStr, List.cons_append, List.append_assoc, unescStr]
  simpa using unescBody_escBody s rest


/-! ## base64 -/

theorem b64_facts : ∀ n, n < 64 → b64Val (b64Char n) = some n ∧ b64Char n ≠ '=' ∧ b64Char n ≠ '"' := by
  decide

theorem u8_of (a : UInt8) (n : Nat) (h : n = a.toNat) : UInt8.ofNat n = a := by
  subst h; exact UInt8.ofNat_toNat

theorem unbase64_base64 (d : Bytes) : unbase64 (base64 d) = some d := by
  induction d using base64.induct with
  | case1 => simp [base64, unbase64]
  | case2 a =>
    have ha : a.toNat < 256 := a.toNat_lt
    have f1 := b64_facts (a.toNat / 4) (by omega)
    have f2 := b64_facts (a.toNat % 4 * 16) (by omega)
    have e1 : UInt8.ofNat (a.toNat / 4 * 4 + a.toNat % 4 * 16 / 16) = a := u8_of _ _ (by omega)
    have m : a.toNat % 4 * 16 % 16 = 0 := by omega
    simp only [base64, unbase64, f1.1, f2.1]
    rw [e1]
    simp [m]
  | case3 a b =>
    have ha : a.toNat < 256 := a.toNat_lt
    have hb : b.toNat < 256 := b.toNat_lt
    have f1 := b64_facts (a.toNat / 4) (by omega)
    have f2 := b64_facts (a.toNat % 4 * 16 + b.toNat / 16) (by omega)
    have f3 := b64_facts (b.toNat % 16 * 4) (by omega)
    have e1 : UInt8.ofNat (a.toNat / 4 * 4 + (a.toNat % 4 * 16 + b.toNat / 16) / 16) = a := u8_of _ _ (by omega)
    have e2 : UInt8.ofNat ((a.toNat % 4 * 16 + b.toNat / 16) % 16 * 16 + b.toNat % 16 * 4 / 4) = b := u8_of _ _ (by omega)
    have m : b.toNat % 16 * 4 % 4 = 0 := by omega
    simp only [base64, unbase64, f1.1, f2.1, f3.1]
    rw [e1, e2]
    simp [m, f3.2.1]
  | case4 a b c rest ih =>
    have ha : a.toNat < 256 := a.toNat_lt
    have hb : b.toNat < 256 := b.toNat_lt
    have hc : c.toNat < 256 := c.toNat_lt
    have f1 := b64_facts (a.toNat / 4) (by omega)
    have f2 := b64_facts (a.toNat % 4 * 16 + b.toNat / 16) (by omega)
    have f3 := b64_facts (b.toNat % 16 * 4 + c.toNat / 64) (by omega)
    have f4 := b64_facts (c.toNat % 64) (by omega)
    have e1 : UInt8.ofNat (a.toNat / 4 * 4 + (a.toNat % 4 * 16 + b.toNat / 16) / 16) = a := u8_of _ _ (by omega)
    have e2 : UInt8.ofNat ((a.toNat % 4 * 16 + b.toNat / 16) % 16 * 16 + (b.toNat % 16 * 4 + c.toNat / 64) / 4) = b := u8_of _ _ (by omega)
    have e3 : UInt8.ofNat ((b.toNat % 16 * 4 + c.toNat / 64) % 4 * 64 + c.toNat % 64) = c := u8_of _ _ (by omega)
    simp only [base64, unbase64, f1.1, f2.1, f3.1, f4.1, ih]
    rw [e1, e2, e3]
    simp [f3.2.1, f4.2.1]

theorem base64_no_quote (d : Bytes) : ∀ x ∈ base64 d, x ≠ '"' := by
  induction d using base64.induct with
  | case1 => simp [base64]
  | case2 a =>
    have ha : a.toNat < 256 := a.toNat_lt
    have f1 := b64_facts (a.toNat / 4) (by omega)
    have f2 := b64_facts (a.toNat % 4 * 16) (by omega)
    simp only [base64]
    intro x hx
    simp at hx
    rcases hx with h | h | h <;> subst h
    · exact f1.2.2
    · exact f2.2.2
    · decide
  | case3 a b =>
    have ha : a.toNat < 256 := a.toNat_lt
    have hb : b.toNat < 256 := b.toNat_lt
    have f1 := b64_facts (a.toNat / 4) (by omega)
    have f2 := b64_facts (a.toNat % 4 * 16 + b.toNat / 16) (by omega)
    have f3 := b64_facts (b.toNat % 16 * 4) (by omega)
    simp only [base64]
    intro x hx
    simp at hx
    rcases hx with h | h | h | h <;> subst h
    · exact f1.2.2
    · exact f2.2.2
    · exact f3.2.2
    · decide
  | case4 a b c rest ih =>
    have ha : a.toNat < 256 := a.toNat_lt
    have hb : b.toNat < 256 := b.toNat_lt
    have hc : c.toNat < 256 := c.toNat_lt
    have f1 := b64_facts (a.toNat / 4) (by omega)
    have f2 := b64_facts (a.toNat % 4 * 16 + b.toNat / 16) (by omega)
    have f3 := b64_facts (b.toNat % 16 * 4 + c.toNat / 64) (by omega)
    have f4 := b64_facts (c.toNat % 64) (by omega)
    simp only [base64]
    intro x hx
    simp at hx
    rcases hx with h | h | h | h | h
    · subst h; exact f1.2.2
    · subst h; exact f2.2.2
    · subst h; exact f3.2.2
    · subst h; exact f4.2.2
    · exact ih x h

/-! ## the struct -/

/-- what the proof needs from the `[]byte` text encoding: decodable and free of `"` -/
structure B64Spec (b64 : Bytes → List Char) (unb64 : List Char → Option Bytes) : Prop where
  left_inv : ∀ d, unb64 (b64 d) = some d
  no_quote : ∀ d x, x ∈ b64 d → x ≠ '"'

theorem base64_spec : B64Spec base64 unbase64 := ⟨unbase64_base64, base64_no_quote⟩

theorem expect_append (p rest : List Char) : expect p (p ++ rest) = some rest := by
  induction p with
  | nil => cases rest <;> rfl
  | cons c p ih => simp [expect, ih]

theorem parseData_dataEnc {b64 : Bytes → List Char} {unb64 : List Char → Option Bytes}
    (hs : B64Spec b64 unb64) (d : Option Bytes) (rest : List Char) :
    parseData unb64 (dataEnc b64 d ++ rest) = some (d, rest) := by
  cases d with
  | none =>
    have : expect ['u', 'l', 'l'] (['u', 'l', 'l'] ++ rest) = some rest := expect_append _ _
    simp only [dataEnc, List.cons_append, List.nil_append] at this ⊢
    simp [parseData, this]
  | some d =>
    have h := takeWhile_stop notQuote (b64 d) '"' rest
      (fun x hx => by simpa [notQuote] using hs.no_quote d x hx) (by decide)
    have hn : ('"' : Char) ≠ 'n' := by decide
    simp only [dataEnc, List.cons_append, List.append_assoc, List.nil_append]
    simp [parseData, hn, h.1, h.2, hs.left_inv]

theorem unserWith_serWith {b64 : Bytes → List Char} {unb64 : List Char → Option Bytes}
    (hs : B64Spec b64 unb64) (t : RawTx) : unserWith unb64 (serWith b64 t) = some t := by
  have d2 : isDig ',' = false := by decide
  have d4 : isDig '"' = false := by decide
  have d6 : isDig '}' = false := by decide
  unfold unserWith serWith
  rw [expect_append]
  simp only
  have e2 : ∀ r, lit2 ++ r = ',' :: ("\"data\":".toList ++ r) := fun r => rfl
  have e5 : ∀ r, lit5 ++ r = '"' :: ("},\"gas\":".toList ++ r) := fun r => rfl
  have e6 : ∀ r, lit6 ++ r = '}' :: (",\"memo\":".toList ++ r) := fun r => rfl
  rw [e2, parseInt_intStr _ _ _ d2, ← e2]
  simp only
  rw [expect_append]
  simp only
  rw [parseData_dataEnc hs]
  simp only
  rw [expect_append]
  simp only
  rw [unescStr_escStr]
  simp only
  rw [expect_append]
  simp only
  rw [e5, parseInt_intStr _ _ _ d4, ← e5]
  simp only
  rw [expect_append]
  simp only
  rw [e6, parseInt_intStr _ _ _ d6, ← e6]
  simp only
  rw [expect_append]
  simp only
  rw [unescStr_escStr]
  simp

theorem unser_ser (t : RawTx) : unser (ser t) = some t := unserWith_serWith base64_spec t


end OLP.Sig

/-
  Signature admission (C04) — executable model, core-only.

  Ported from /repo:
    action/base.go        ValidateBasic, RawTx / RawTx.RawBytes (json.Marshal of the struct)
    data/keys/keys.go     PublicKey.GetHandler and the four handlers' Address() / VerifyBytes()
    action/olvm/handler.go validateSigner and the memo/nonce rule of Validate
    app/controller.go     (through OLP.Shell) txChecker / txDeliverer call handler.Validate first
    encoding/json         string escaping (appendString with escapeHTML = true), integers, []byte

  Cryptography is a PARAMETER everywhere (`verify`, `addrOf`, `Prims`, `recover`): no theorem
  assumes unforgeability; where a statement needs it, it is an explicit hypothesis.
-/
namespace OLP.Sig

abbrev Bytes := List UInt8

/-! ## 1. `action.ValidateBasic` -/

/-- result of `ValidateBasic`: nil / ErrUnmatchSigner / ErrInvalidPubkey / ErrInvalidSignature;
    `panic` stands for the index-out-of-range the loop would raise without the length check -/
inductive VB where
  | ok | unmatch | badKey | badSig | panic
  deriving DecidableEq, Repr

/-- `action.Signature{Signer keys.PublicKey; Signed []byte}` -/
structure Sig (PK S : Type) where
  signer : PK
  signed : S
  deriving DecidableEq, Repr

section VB
variable {PK S A M : Type} [DecidableEq A]

/-- the loop `for i, s := range signerAddr` of `ValidateBasic`:
    `addrOf pk = none` is `pkey.GetHandler()` failing, `some a` is `h.Address()`;
    `verify pk data sig` is `h.VerifyBytes(data, sig)` -/
def vbLoop (verify : PK → M → S → Bool) (addrOf : PK → Option A) (data : M) :
    List A → List (Sig PK S) → VB
  | [], _ => .ok
  | _ :: _, [] => .panic                       -- signatures[i] out of range (excluded by the length check)
  | s :: ss, g :: gs =>
    match addrOf g.signer with
    | none => .badKey                          -- ErrInvalidPubkey
    | some a =>
      if a ≠ s then .unmatch                   -- !h.Address().Equal(s)
      else if verify g.signer data g.signed = false then .badSig
      else vbLoop verify addrOf data ss gs

/-- `func ValidateBasic(data []byte, signerAddr []Address, signatures []Signature) error` -/
def validateBasic (verify : PK → M → S → Bool) (addrOf : PK → Option A) (data : M)
    (signers : List A) (sigs : List (Sig PK S)) : VB :=
  if sigs.length ≠ signers.length then .unmatch
  else vbLoop verify addrOf data signers sigs

end VB

/-! ## 2. The key handlers of `data/keys/keys.go` -/

/-- `keys.Algorithm` (iota: UNKNOWN, ED25519, SECP256K1, BTCECSECP, ETHSECP) -/
inductive Alg where
  | unknown | ed25519 | secp256k1 | btcec | ethsecp
  deriving DecidableEq, Repr

def Alg.ofCode : Nat → Alg
  | 1 => .ed25519
  | 2 => .secp256k1
  | 3 => .btcec
  | 4 => .ethsecp
  | _ => .unknown

/-- `keys.PublicKey{KeyType, Data}` -/
structure PubKey where
  alg  : Alg
  data : Bytes
  deriving DecidableEq, Repr

/-- the library primitives the handlers call (curve point parsing, address hash, signature
    verification including the ED25519 pre-hash mode); all uninterpreted -/
structure Prims (M S : Type) where
  parses    : PubKey → Bool            -- crypto.DecompressPubkey / btcec.ParsePubKey succeed
  hashAddr  : PubKey → Bytes           -- tendermint Address() / crypto.PubkeyToAddress
  sigVerify : PubKey → M → S → Bool    -- the library verification behind VerifyBytes (all four handlers)

def ED25519_PUB_SIZE : Nat := 32
def SECP256K1_PUB_SIZE : Nat := 33

/-- `pubKey.GetHandler()` followed by `h.Address()`; `none` = GetHandler returned an error.
    (Since the fix "BTCEC public keys verify signatures and have an address" the BTCEC handler is
    an ordinary one: address = hash of the compressed key; since "a BTCEC public key has one
    spelling" only the 33-byte compressed form is a key, the uncompressed and hybrid forms
    `btcec.ParsePubKey` also parses are refused.) -/
def keyAddr {M S : Type} (p : Prims M S) (pk : PubKey) : Option Bytes :=
  match pk.alg with
  | .ed25519   => if pk.data.length = ED25519_PUB_SIZE then some (p.hashAddr pk) else none
  | .secp256k1 => if pk.data.length = SECP256K1_PUB_SIZE then some (p.hashAddr pk) else none
  | .ethsecp   => if p.parses pk then some (p.hashAddr pk) else none
  | .btcec     => if pk.data.length = SECP256K1_PUB_SIZE && p.parses pk then some (p.hashAddr pk) else none
  | .unknown   => none

/-- `h.VerifyBytes(msg, sig)`: every handler calls its library's verification
    (BTCEC: `btcec.ParseDERSignature` + `Verify`, and since "a BTCEC signature has one spelling"
    only for the serialisation `Sign` produces — low s, nothing after it; the correspondence
    oracle for `sigVerify` includes that rule) -/
def keyVerify {M S : Type} (p : Prims M S) (pk : PubKey) (m : M) (s : S) : Bool :=
  p.sigVerify pk m s

/-- `ValidateBasic` as the application runs it -/
def validateBasicK {M S : Type} (p : Prims M S) (data : M) (signers : List Bytes)
    (sigs : List (Sig PubKey S)) : VB :=
  validateBasic (keyVerify p) (keyAddr p) data signers sigs

/-! ## 3. `RawTx.RawBytes()` = `json.Marshal(&RawTx{Type, Data, Fee{Price{Currency, Value}, Gas}, Memo})` -/

/-- strings are lists of Unicode scalar values: exactly the values `json.Unmarshal` can produce
    (invalid UTF-8 never survives parsing); `data = none` is Go's nil slice (`null`) -/
structure RawTx where
  type     : Int
  data     : Option Bytes
  currency : List Char
  value    : Int
  gas      : Int
  memo     : List Char
  deriving DecidableEq, Repr

/-! ### integers (`strconv.AppendInt`, `big.Int.String`) -/

def digitChar (d : Nat) : Char := Char.ofNat (48 + d)

def natDigits (n : Nat) : List Char :=
  if _h : n < 10 then [digitChar n] else natDigits (n / 10) ++ [digitChar (n % 10)]
termination_by n
decreasing_by omega

def intStr : Int → List Char
  | .ofNat n => natDigits n
  | .negSucc n => '-' :: natDigits (n + 1)

/-! ### strings (`encoding/json` appendString, escapeHTML = true, Go ≥ 1.22) -/

def hexChar (n : Nat) : Char :=
  if n < 10 then Char.ofNat (48 + n) else Char.ofNat (87 + n)

def escChar (c : Char) : List Char :=
  if c = '"' then ['\\', '"']
  else if c = '\\' then ['\\', '\\']
  else if c = '\n' then ['\\', 'n']
  else if c = '\r' then ['\\', 'r']
  else if c = '\t' then ['\\', 't']
  else if c = Char.ofNat 8 then ['\\', 'b']
  else if c = Char.ofNat 12 then ['\\', 'f']
  else if c.toNat < 32 ∨ c = '<' ∨ c = '>' ∨ c = '&' then
    ['\\', 'u', '0', '0', hexChar (c.toNat / 16), hexChar (c.toNat % 16)]
  else if c = Char.ofNat 0x2028 then ['\\', 'u', '2', '0', '2', '8']
  else if c = Char.ofNat 0x2029 then ['\\', 'u', '2', '0', '2', '9']
  else [c]

def escBody : List Char → List Char
  | [] => []
  | c :: s => escChar c ++ escBody s

def escStr (s : List Char) : List Char := '"' :: (escBody s ++ ['"'])

/-! ### `[]byte` (base64.StdEncoding, padded) -/

def b64Char (n : Nat) : Char :=
  if n < 26 then Char.ofNat (65 + n)
  else if n < 52 then Char.ofNat (71 + n)          -- 'a' = 97 = 71 + 26
  else if n < 62 then Char.ofNat (n - 4)           -- '0' = 48 = 52 - 4
  else if n = 62 then '+' else '/'

def base64 : Bytes → List Char
  | [] => []
  | [a] => [b64Char (a.toNat / 4), b64Char (a.toNat % 4 * 16), '=', '=']
  | [a, b] => [b64Char (a.toNat / 4), b64Char (a.toNat % 4 * 16 + b.toNat / 16),
               b64Char (b.toNat % 16 * 4), '=']
  | a :: b :: c :: rest =>
    b64Char (a.toNat / 4) :: b64Char (a.toNat % 4 * 16 + b.toNat / 16) ::
    b64Char (b.toNat % 16 * 4 + c.toNat / 64) :: b64Char (c.toNat % 64) :: base64 rest

def dataEnc (b64 : Bytes → List Char) : Option Bytes → List Char
  | none => ['n', 'u', 'l', 'l']
  | some d => '"' :: (b64 d ++ ['"'])

/-! ### the struct -/

def lit1 : List Char := "{\"type\":".toList
def lit2 : List Char := ",\"data\":".toList
def lit3 : List Char := ",\"fee\":{\"price\":{\"currency\":".toList
def lit4 : List Char := ",\"value\":\"".toList
def lit5 : List Char := "\"},\"gas\":".toList
def lit6 : List Char := "},\"memo\":".toList

/-- the serialisation with the `[]byte` encoding as a parameter -/
def serWith (b64 : Bytes → List Char) (t : RawTx) : List Char :=
  lit1 ++ (intStr t.type ++ (lit2 ++ (dataEnc b64 t.data ++ (lit3 ++ (escStr t.currency ++
  (lit4 ++ (intStr t.value ++ (lit5 ++ (intStr t.gas ++ (lit6 ++ (escStr t.memo ++ ['}'])))))))))))

/-- `RawTx.RawBytes()` as text -/
def ser (t : RawTx) : List Char := serWith base64 t

/-- `RawTx.RawBytes()` as the bytes that are signed -/
def serBytes (t : RawTx) : ByteArray := (String.ofList (ser t)).toUTF8

/-! ### a decoder (a proof device for injectivity; it is NOT a model of json.Unmarshal) -/

def isDig (c : Char) : Bool := 48 ≤ c.toNat && c.toNat ≤ 57
def digVal (c : Char) : Nat := c.toNat - 48
def digitsVal (l : List Char) : Nat := l.foldl (fun a c => 10 * a + digVal c) 0

def parseNat (l : List Char) : Option (Nat × List Char) :=
  let ds := l.takeWhile isDig
  if ds = [] then none else some (digitsVal ds, l.dropWhile isDig)

def parseInt : List Char → Option (Int × List Char)
  | [] => none
  | c :: l =>
    if c = '-' then
      match parseNat l with
      | some (n, r) => some (-(n : Int), r)
      | none => none
    else
      match parseNat (c :: l) with
      | some (n, r) => some ((n : Int), r)
      | none => none

def hexVal (c : Char) : Option Nat :=
  if 48 ≤ c.toNat ∧ c.toNat ≤ 57 then some (c.toNat - 48)
  else if 97 ≤ c.toNat ∧ c.toNat ≤ 102 then some (c.toNat - 87)
  else none

def simpleEsc (e : Char) : Option Char :=
  if e = '"' then some '"' else if e = '\\' then some '\\' else if e = 'n' then some '\n'
  else if e = 'r' then some '\r' else if e = 't' then some '\t' else if e = 'b' then some (Char.ofNat 8)
  else if e = 'f' then some (Char.ofNat 12) else none

def consFst (c : Char) (p : List Char × List Char) : List Char × List Char := (c :: p.1, p.2)

/-- decoder state: plain text / just after a backslash / inside `\uXXXX` after `k` hex digits -/
inductive EscSt where
  | normal | esc | u (k : Nat) (acc : Nat)

/-- reads an escaped string body up to and including the closing quote, one character at a time -/
def unescSM : EscSt → List Char → Option (List Char × List Char)
  | _, [] => none
  | .normal, c :: rest =>
    if c = '"' then some ([], rest)
    else if c = '\\' then unescSM .esc rest
    else (unescSM .normal rest).map (consFst c)
  | .esc, e :: rest =>
    if e = 'u' then unescSM (.u 0 0) rest
    else
      match simpleEsc e with
      | some ch => (unescSM .normal rest).map (consFst ch)
      | none => none
  | .u k acc, h :: rest =>
    match hexVal h with
    | none => none
    | some v =>
      if k = 3 then (unescSM .normal rest).map (consFst (Char.ofNat (16 * acc + v)))
      else unescSM (.u (k + 1) (16 * acc + v)) rest

def unescBody (l : List Char) : Option (List Char × List Char) := unescSM .normal l

def unescStr : List Char → Option (List Char × List Char)
  | [] => none
  | c :: rest => if c = '"' then unescBody rest else none

def b64Val (c : Char) : Option Nat :=
  let n := c.toNat
  if 65 ≤ n ∧ n ≤ 90 then some (n - 65)
  else if 97 ≤ n ∧ n ≤ 122 then some (n - 71)
  else if 48 ≤ n ∧ n ≤ 57 then some (n + 4)
  else if c = '+' then some 62 else if c = '/' then some 63 else none

def unbase64 : List Char → Option Bytes
  | [] => some []
  | c1 :: c2 :: c3 :: c4 :: rest =>
    match b64Val c1, b64Val c2 with
    | some s1, some s2 =>
      if c3 = '=' then
        if c4 = '=' ∧ rest = [] ∧ s2 % 16 = 0 then some [UInt8.ofNat (s1 * 4 + s2 / 16)] else none
      else
        match b64Val c3 with
        | none => none
        | some s3 =>
          if c4 = '=' then
            if rest = [] ∧ s3 % 4 = 0 then
              some [UInt8.ofNat (s1 * 4 + s2 / 16), UInt8.ofNat (s2 % 16 * 16 + s3 / 4)]
            else none
          else
            match b64Val c4, unbase64 rest with
            | some s4, some tl =>
              some (UInt8.ofNat (s1 * 4 + s2 / 16) :: UInt8.ofNat (s2 % 16 * 16 + s3 / 4) ::
                    UInt8.ofNat (s3 % 4 * 64 + s4) :: tl)
            | _, _ => none
    | _, _ => none
  | _ => none

/-- strips a literal prefix -/
def expect : List Char → List Char → Option (List Char)
  | [], l => some l
  | _ :: _, [] => none
  | p :: ps, c :: l => if p = c then expect ps l else none

def notQuote (c : Char) : Bool := !(c == '"')

def parseData (unb64 : List Char → Option Bytes) : List Char → Option (Option Bytes × List Char)
  | [] => none
  | c :: l =>
    if c = 'n' then
      match expect ['u', 'l', 'l'] l with
      | some r => some (none, r)
      | none => none
    else if c = '"' then
      match unb64 (l.takeWhile notQuote), l.dropWhile notQuote with
      | some d, q :: r => if q = '"' then some (some d, r) else none
      | _, _ => none
    else none

def unserWith (unb64 : List Char → Option Bytes) (l : List Char) : Option RawTx :=
  match expect lit1 l with
  | none => none
  | some r =>
  match parseInt r with
  | none => none
  | some (ty, r) =>
  match expect lit2 r with
  | none => none
  | some r =>
  match parseData unb64 r with
  | none => none
  | some (d, r) =>
  match expect lit3 r with
  | none => none
  | some r =>
  match unescStr r with
  | none => none
  | some (cur, r) =>
  match expect lit4 r with
  | none => none
  | some r =>
  match parseInt r with
  | none => none
  | some (v, r) =>
  match expect lit5 r with
  | none => none
  | some r =>
  match parseInt r with
  | none => none
  | some (g, r) =>
  match expect lit6 r with
  | none => none
  | some r =>
  match unescStr r with
  | none => none
  | some (memo, r) =>
    if r = ['}'] then some { type := ty, data := d, currency := cur, value := v, gas := g, memo := memo }
    else none

def unser (l : List Char) : Option RawTx := unserWith unbase64 l

/-! ## 4. Admission: the skeleton of `handler.Validate` -/

/-- `action.SignedTx` -/
structure SignedTx (PK S : Type) where
  raw  : RawTx
  sigs : List (Sig PK S)

/-- how a registered kind's `Validate` treats signatures (one row of the extracted table):
    `basic` = `action.ValidateBasic(tx.RawBytes(), msg.Signers(), tx.Signatures)` with `msg`
    unmarshalled from `tx.Data`, failure returned before anything else; `ethSigner` = the OLVM
    handler's `validateSigner`; `rejectAll` = `unknownTx`; `unchecked` = none of these -/
inductive VClass where
  | basic | ethSigner | rejectAll | unchecked
  deriving DecidableEq, Repr

/-- what of an OLVM payload lies outside the Ethereum transaction `tmToEthTx` builds: the
    fields `type` and `accessList` (`hasAccessList` = the pointer is not nil) -/
structure OlvmExtra where
  txType        : Int
  hasAccessList : Bool
  deriving DecidableEq, Repr

/-- the part of an OLVM payload `validateSigner`, the envelope checks and the memo rule look at;
    `eth` is the go-ethereum legacy transaction built from (nonce, to, value, data) of the payload
    and (gas, price value) of the fee; `chainID = none` is a payload without `chainID` -/
structure OlvmView (A E : Type) where
  nonce   : Nat
  sender  : A          -- payload `from`
  chainID : Option Int -- payload `chainID`
  eth     : E
  extra   : OlvmExtra

/-- go-ethereum as `validateSigner` uses it: length of the signature bytes, the chain id
    `Transaction.ChainId()` derives from the recovery byte after `WithSignature`, and
    `EIP155Signer.Sender` (none = error) -/
structure EthLib (A E S : Type) where
  sigLen  : S → Nat
  chainOf : S → Int
  sender  : E → S → Option A

inductive OlvmVerdict where
  | ok | reject | panic
  deriving DecidableEq, Repr

/-- the memo rule of `olvmTx.Validate`: `strconv.ParseUint(memo, 10, 0)` succeeds (non-empty,
    decimal digits only, value below 2^64), equals the payload nonce, AND the memo is exactly
    `strconv.FormatUint(nonce, 10)` (no leading zeros: the memo is outside the signature) -/
def memoIsNonce (memo : List Char) (nonce : Nat) : Bool :=
  !memo.isEmpty && memo.all isDig && digitsVal memo == nonce && decide (digitsVal memo < 2 ^ 64) &&
  decide (memo = natDigits nonce)

/-- `Transaction.validateSigner` + the envelope and memo rules of `olvmTx.Validate`, in the order
    of the code: exactly one signature; chain id present; signature of 65 bytes (both checked
    before `WithSignature`, which would panic / dereference nil otherwise); chain id derived from
    the recovery byte equal to the payload's; `signer.Sender`; sender equal to `from`; the public
    key of the signature entry has a handler whose address is `from` (`addrOf`); payload `type`
    is 0 and `accessList` is nil; the memo is the canonical decimal spelling of the nonce.
    No path panics any more (`.panic` is kept in the verdict type so that the harness can report
    an application that closed itself; `olvm_never_panics` shows the model never answers it). -/
def olvmSig {A E S PK : Type} [DecidableEq A] (lib : EthLib A E S) (addrOf : PK → Option A)
    (v : OlvmView A E) (memo : List Char) (sigs : List (Sig PK S)) : OlvmVerdict :=
  match sigs with
  | [g] =>
    match v.chainID with
    | none => .reject
    | some c =>
      if lib.sigLen g.signed ≠ 65 then .reject
      else if lib.chainOf g.signed ≠ c then .reject
      else
        match lib.sender v.eth g.signed with
        | none => .reject
        | some a =>
          if a = v.sender ∧ addrOf g.signer = some v.sender ∧ v.extra.txType = 0 ∧
             v.extra.hasAccessList = false ∧ memoIsNonce memo v.nonce = true then .ok else .reject
  | _ => .reject

/-- `olvmTx.Validate` from the payload BYTES `d`: `tx.Unmarshal(d)` (`decode`, none = error), then
    only the encoding `tx.Marshal()` produces is accepted (`encode v = d`; fix "OLVM accepts only
    the canonical encoding of its payload"), then `olvmSig` -/
def olvmValidate {A E S PK B : Type} [DecidableEq A] [DecidableEq B] (lib : EthLib A E S)
    (addrOf : PK → Option A) (decode : B → Option (OlvmView A E)) (encode : OlvmView A E → B)
    (d : B) (memo : List Char) (sigs : List (Sig PK S)) : OlvmVerdict :=
  match decode d with
  | none => .reject
  | some v => if encode v ≠ d then .reject else olvmSig lib addrOf v memo sigs

/-- the signature part of `Validate` for a kind of class `cls`:
    `signersOf raw = none` is `msg.Unmarshal(tx.Data)` failing, otherwise `msg.Signers()` -/
def sigAdmit {PK S A M : Type} [DecidableEq A] (cls : VClass)
    (verify : PK → M → S → Bool) (addrOf : PK → Option A) (enc : RawTx → M)
    (signersOf : RawTx → Option (List A)) (olvm : SignedTx PK S → Bool)
    (tx : SignedTx PK S) : Bool :=
  match cls with
  | .rejectAll => false
  | .unchecked => true
  | .ethSigner => olvm tx
  | .basic =>
    match signersOf tx.raw with
    | none => false
    | some sg => validateBasic verify addrOf (enc tx.raw) sg tx.sigs = .ok

end OLP.Sig

/-
  Layer D — crash sites (C18): coin arithmetic that terminates the process.
  Port of data/balance/coin.go: `Plus`, `Minus`, `LessThanCoin` call `logger.Fatal` (= os.Exit)
  on a currency mismatch and `Plus` also on a nil amount; `Amount.ToCoin` returns the zero `Coin{}`
  (empty currency name, nil amount) for an unknown currency. Handlers are modelled as far as their
  coin arithmetic goes. Core-only.
-/
namespace OLP.Crash

/-- `balance.Coin`: currency name and amount (`none` = nil pointer) -/
structure Coin where
  cur : String
  amt : Option Int
  deriving DecidableEq, Repr

inductive Outcome (α : Type) where
  | ok (a : α)
  | err              -- the handler returns false with a log
  | crash            -- logger.Fatal / nil dereference: the process exits or the application closes
  deriving DecidableEq, Repr

/-- `Amount.ToCoin(list)`: the zero Coin for a currency the set does not know -/
def toCoin (known : List String) (cur : String) (value : Int) : Coin :=
  if known.contains cur then { cur := cur, amt := some value } else { cur := "", amt := none }

/-- `Coin.IsValid` -/
def Coin.isValid (c : Coin) : Bool :=
  match c.amt with
  | none => false
  | some v => c.cur != "" && decide (0 ≤ v)

/-- `Coin.Minus`: a nil receiver amount counts as 0; mismatch is fatal; the operand is dereferenced -/
def Coin.minus (a b : Coin) : Outcome Coin :=
  if a.cur != b.cur then .crash
  else match b.amt with
    | none => .crash                                   -- value.Amount.BigInt() on nil
    | some y =>
      let x := a.amt.getD 0
      if x - y < 0 then .err else .ok { cur := a.cur, amt := some (x - y) }

/-- `Coin.Plus`: nil receiver amount is fatal, mismatch is fatal -/
def Coin.plus (a b : Coin) : Outcome Coin :=
  match a.amt with
  | none => .crash
  | some x =>
    if a.cur != b.cur then .crash
    else match b.amt with
      | none => .crash
      | some y => .ok { cur := a.cur, amt := some (x + y) }

/-- the coin arithmetic of `runUndelegate` BEFORE the fix: active − amount, pending + amount -/
def undelegateUnguarded (known : List String) (active pending : Coin) (cur : String) (value : Int) :
    Outcome (Coin × Coin) :=
  let c := toCoin known cur value
  match active.minus c with
  | .crash => .crash
  | .err => .err
  | .ok rem =>
    match pending.plus c with
    | .crash => .crash
    | .err => .err
    | .ok p => .ok (rem, p)

/-- … and AFTER it: `IsValid` and `Currency.Name == "OLT"` first (the idiom of runNetworkDelegate) -/
def undelegateGuarded (known : List String) (active pending : Coin) (cur : String) (value : Int) :
    Outcome (Coin × Coin) :=
  let c := toCoin known cur value
  if !c.isValid then .err
  else if c.cur != "OLT" then .err
  else undelegateUnguarded known active pending cur value

end OLP.Crash

/-
  C16 — helper definitions and lemmas for the refinement `Impl ⊑ Ref` (statements in
  OLP/Props/C16.lean).

  Plan.  `absI s : AW` / `absR w : AW` abstract an adapter state / a reference world to what the
  interface can observe.  Every journal entry `e` denotes a transformer `e.undo` of abstract worlds;
  `revertEntry_abs` shows the concrete `revert` of the entry implements it.  The simulation relation
  `Sim` says: same abstract world now, and for every valid revision, undoing the journal suffix
  abstractly gives the world the reference saved.  Ops that append entries `es` keep `Sim` because
  undoing `es` abstractly gives back the previous world (`Sim.journaled`).
-/
import OLP.Evm.Model

namespace OLP.Evm

/-! ## observable view of an account -/

structure AView where
  nonce : Nat
  bal : Nat
  hash : Code
  code : Code
  stor : Key → Val
  cstor : Key → Val
  suicided : Bool

def updF {α β : Type} [DecidableEq α] (f : α → β) (a : α) (b : β) : α → β := fun x => if x = a then b else f x

@[simp] theorem updF_same {α β : Type} [DecidableEq α] (f : α → β) (a : α) (b : β) : updF f a b a = b := by simp [updF]
theorem updF_ne {α β : Type} [DecidableEq α] (f : α → β) (a x : α) (b : β) (h : x ≠ a) : updF f a b x = f x := by simp [updF, h]

theorem updF_updF {α β : Type} [DecidableEq α] (f : α → β) (a : α) (b c : β) : updF (updF f a b) a c = updF f a c := by
  funext x; by_cases h : x = a <;> simp [updF, h]

theorem updF_self {α β : Type} [DecidableEq α] (f : α → β) (a : α) : updF f a (f a) = f := by
  funext x; by_cases h : x = a <;> simp [updF, h]

/-- storage as the object shows it: dirty value, else the record (nothing for a `created` object) -/
def Obj.slotView (st : Store) (o : Obj) (k : Key) : Val :=
  match alookup k o.dirty with
  | some v => v
  | none => o.base st k

def viewObj (st : Store) (o : Obj) : AView :=
  { nonce := o.nonce, bal := o.bal, hash := o.codeHash, code := o.getCode st,
    stor := o.slotView st, cstor := fun k => o.base st k, suicided := o.suicided }

def Store.view (st : Store) (a : Addr) : Option AView := (st.getAccount a).map (viewObj st)

def Impl.view (s : Impl) (a : Addr) : Option AView :=
  match alookup a s.objs with
  | some o => if o.deleted then none else some (viewObj s.store o)
  | none => s.store.view a

def viewR (r : RAcct) : AView :=
  { nonce := r.nonce, bal := r.bal, hash := r.code, code := r.code, stor := r.slot, cstor := r.cslot,
    suicided := r.suicided }

def RWorld.view (w : RWorld) (a : Addr) : Option AView := (w.get a).map viewR

/-- the abstract world: everything the interface can observe -/
structure AW where
  acct : Addr → Option AView
  refund : Nat
  logs : Nat → List (Nat × Addr × Nat)
  logSize : Nat
  alAddrs : Addr → Nat            -- how often the address is listed (0 or 1 in every reachable state)
  alSlots : Addr × Key → Nat

def absI (s : Impl) : AW :=
  { acct := s.view, refund := s.refund, logs := fun h => (alookup h s.logs).getD [], logSize := s.logSize,
    alAddrs := fun a => s.alAddrs.count a, alSlots := fun p => s.alSlots.count p }

def absR (w : RWorld) : AW :=
  { acct := w.view, refund := w.refund, logs := fun h => (w.logs.filter (fun l => l.1 == h)).map (·.2),
    logSize := w.logs.length, alAddrs := fun a => w.alAddrs.count a, alSlots := fun p => w.alSlots.count p }

/-! ## abstract meaning of journal entries -/

def AW.modAcct (W : AW) (a : Addr) (f : AView → AView) : AW := { W with acct := updF W.acct a ((W.acct a).map f) }

/-- what reverting an entry does to the abstract world -/
def Entry.undo (st : Store) : Entry → AW → AW
  | .createObject a, W => { W with acct := updF W.acct a none }
  | .resetObject prev, W => { W with acct := updF W.acct prev.addr (some (viewObj st prev)) }
  | .suicide a p pb, W => W.modAcct a fun v => { v with suicided := p, bal := pb }
  | .balance a p, W => W.modAcct a fun v => { v with bal := p }
  | .nonce a p, W => W.modAcct a fun v => { v with nonce := p }
  | .storage a k p, W => W.modAcct a fun v => { v with stor := updF v.stor k p }
  | .code a pc ph, W => W.modAcct a fun v => { v with code := pc, hash := ph }
  | .refund p, W => { W with refund := p }
  | .addLog h, W => { W with logs := updF W.logs h (W.logs h).dropLast, logSize := W.logSize - 1 }
  | .touch _, W => W
  | .alAddr a, W => { W with alAddrs := updF W.alAddrs a (W.alAddrs a - 1) }
  | .alSlot a k, W => { W with alSlots := updF W.alSlots (a, k) (W.alSlots (a, k) - 1) }

/-- undo a list of entries, most recent first -/
def undoAbs (st : Store) : List Entry → AW → AW
  | [], W => W
  | e :: rest, W => undoAbs st rest (e.undo st W)

theorem undoAbs_append (st : Store) (l1 l2 : List Entry) (W : AW) :
    undoAbs st (l1 ++ l2) W = undoAbs st l2 (undoAbs st l1 W) := by
  induction l1 generalizing W with
  | nil => rfl
  | cons e t ih => simp [undoAbs, ih]

/-! ## every journal entry can be undone: its account (log) is there when its turn comes -/

def EntryLive (W : AW) : Entry → Prop
  | .balance a _ => (W.acct a).isSome
  | .nonce a _ => (W.acct a).isSome
  | .storage a _ _ => (W.acct a).isSome
  | .code a _ _ => (W.acct a).isSome
  | .addLog h => W.logs h ≠ []
  | _ => True

/-- entries most recent first -/
def JOK (st : Store) : AW → List Entry → Prop
  | _, [] => True
  | W, e :: rest => EntryLive W e ∧ JOK st (e.undo st W) rest

theorem JOK_append (st : Store) (l1 l2 : List Entry) (W : AW) :
    JOK st W (l1 ++ l2) ↔ JOK st W l1 ∧ JOK st (undoAbs st l1 W) l2 := by
  induction l1 generalizing W with
  | nil => simp [JOK, undoAbs]
  | cons e t ih => simp [JOK, undoAbs, ih, and_assoc]

/-! ## the dirty counters count the live journal entries -/

def cntOf (es : List Entry) (a : Addr) : Nat := (es.filterMap Entry.dirtied).count a

/-- the dirty counters cover the live journal entries: an address that a live entry dirties has at
    least that count (exactly that count, but for the RIPEMD touch exception, whose extra counts no
    revert takes back), so `Finalise` treats it as dirty -/
def JCnt (j : Journal) : Prop := ∀ a, cntOf j.entries a ≤ j.getDirty a

theorem cntOf_snoc (pre : List Entry) (e : Entry) (a : Addr) :
    cntOf (pre ++ [e]) a = cntOf pre a + (if e.dirtied = some a then 1 else 0) := by
  simp only [cntOf, List.filterMap_append, List.count_append]
  cases hd : e.dirtied with
  | none => simp [List.filterMap, hd]
  | some b =>
    by_cases hb : b = a
    · subst hb; simp [List.filterMap, hd]
    · simp [List.filterMap, hd, hb]

theorem JCnt.new : JCnt Journal.new := by intro a; simp [Journal.new, cntOf]

theorem getDirty_addDirty (j : Journal) (b a : Addr) :
    (j.addDirty b).getDirty a = if a = b then j.getDirty b + 1 else j.getDirty a := by
  simp only [Journal.getDirty, Journal.addDirty, alookup_upsert]
  by_cases h : a = b <;> simp [h]

/-- the extra count of the RIPEMD touch -/
theorem JCnt.extra {j : Journal} (h : JCnt j) (b : Addr) : JCnt (j.addDirty b) := by
  intro a
  rw [getDirty_addDirty]
  show cntOf j.entries a ≤ _
  have := h a
  by_cases hb : a = b
  · subst hb; simp only [if_true]; omega
  · simp only [hb, if_false]; exact this

theorem JCnt.append {j : Journal} (h : JCnt j) (e : Entry) : JCnt (j.append e) := by
  unfold Journal.append
  cases hd : e.dirtied with
  | none =>
    intro a
    show cntOf (j.entries ++ [e]) a ≤ j.getDirty a
    rw [cntOf_snoc, hd]
    simpa using h a
  | some b =>
    intro a
    show cntOf (j.entries ++ [e]) a ≤ (({ j with entries := j.entries ++ [e] } : Journal).addDirty b).getDirty a
    rw [getDirty_addDirty, cntOf_snoc, hd]
    have h1 : ({ j with entries := j.entries ++ [e] } : Journal).getDirty a = j.getDirty a := rfl
    have h2 : ({ j with entries := j.entries ++ [e] } : Journal).getDirty b = j.getDirty b := rfl
    rw [h1, h2]
    have := h a
    by_cases hb : a = b
    · subst hb; simp only [if_true]; omega
    · have hb' : ¬ b = a := fun e => hb e.symm
      simp only [hb, if_false, Option.some.injEq, hb', Nat.add_zero]; exact this

theorem getDirty_aerase (j : Journal) (a b : Addr) :
    (j.deleteDirty a).getDirty b = if b = a then 0 else j.getDirty b := by
  simp only [Journal.getDirty, Journal.deleteDirty, alookup_aerase]
  by_cases h : b = a <;> simp [h]

theorem getDirty_undirty (j : Journal) (e : Entry) (b : Addr) :
    (j.undirty e).getDirty b = if e.dirtied = some b then j.getDirty b - 1 else j.getDirty b := by
  unfold Journal.undirty
  cases hd : e.dirtied with
  | none => simp
  | some a =>
    simp only [Option.some.injEq]
    -- the count of `a` after `substractDirty`
    have hsub : (j.subDirty a).getDirty a = j.getDirty a - 1 ∧ ∀ b, b ≠ a → (j.subDirty a).getDirty b = j.getDirty b := by
      unfold Journal.subDirty
      cases hl : alookup a j.dirties with
      | none => simp [Journal.getDirty, hl]
      | some n =>
        by_cases hn : n = 0
        · simp [hn, Journal.getDirty, hl]
        · simp only [hn, if_false]
          refine ⟨by simp [Journal.getDirty, hl], ?_⟩
          intro b hb
          simp [Journal.getDirty, alookup_upsert, hb]
    by_cases hz : (j.subDirty a).getDirty a = 0
    · simp only [hz, if_true]
      rw [getDirty_aerase]
      by_cases hb : b = a
      · subst hb; simp only [if_true]; rw [← hsub.1, hz]
      · have hb' : ¬ a = b := fun e => hb e.symm
        simp only [hb, hb', if_false]; exact hsub.2 b hb
    · simp only [hz, if_false]
      by_cases hb : b = a
      · subst hb; simp only [if_true]; exact hsub.1
      · have hb' : ¬ a = b := fun e => hb e.symm
        simp only [hb', if_false]; exact hsub.2 b hb

theorem JCnt.pop {j : Journal} (h : JCnt j) (pre : List Entry) (e : Entry) (hsplit : j.entries = pre ++ [e]) :
    JCnt { (j.undirty e) with entries := pre } := by
  intro a
  show cntOf pre a ≤ (j.undirty e).getDirty a
  rw [getDirty_undirty]
  have hc : cntOf j.entries a = cntOf pre a + (if e.dirtied = some a then 1 else 0) := by rw [hsplit, cntOf_snoc]
  have := h a
  by_cases hd : e.dirtied = some a
  · simp only [hd, if_true] at hc ⊢; omega
  · simp only [hd, if_false] at hc ⊢; omega

theorem JCnt.mem {j : Journal} (h : JCnt j) (a : Addr) (ha : a ∈ j.entries.filterMap Entry.dirtied) :
    a ∈ j.dirties.map (·.1) := by
  have hpos : 0 < cntOf j.entries a := by
    simp only [cntOf]
    exact List.count_pos_iff.mpr ha
  have hge := h a
  apply (mem_akeys_iff_alookup j.dirties a).mpr
  cases hl : alookup a j.dirties with
  | some n => rfl
  | none =>
    have : j.getDirty a = 0 := by simp [Journal.getDirty, hl]
    omega

/-! ## invariants -/

def OriginOK (st : Store) (o : Obj) : Prop := ∀ k v, alookup k o.origin = some v → v = o.base st k
def DirtyHasOrigin (o : Obj) : Prop := ∀ k, (alookup k o.dirty).isSome → (alookup k o.origin).isSome

structure ObjOK (st : Store) (o : Obj) : Prop where
  origin : OriginOK st o
  code : o.getCode st = o.codeHash
  codeEq : o.code ≠ 0 → o.code = o.codeHash
  live : o.deleted = false
  nd : (akeys o.dirty).Nodup
  dc : o.code ≠ 0 → o.dirtyCode = true
  dho : DirtyHasOrigin o

/-- the records are sane: no empty account is stored, the code of every stored account is present -/
structure StoreOK (st : Store) : Prop where
  nonEmpty : ∀ a o, st.getAccount a = some o → o.empty = false
  codes : ∀ a n h, alookup a st.acct = some (n, h) → h ≠ 0 → st.codeAt h = h

/-- no storage record is left under an address that has no account (what 8684164 repairs at the
    level of the records; not needed for the refinement, where a `created` object hides such
    records anyway): kept by every call, see `noOrphan_step` -/
def NoOrphanStorage (st : Store) : Prop := ∀ a, st.getAccount a = none → ∀ k, st.slot a k = 0

structure CInv (s : Impl) : Prop where
  objs : ∀ a o, alookup a s.objs = some o → o.addr = a ∧ ObjOK s.store o
  nodup : (akeys s.objs).Nodup
  store : StoreOK s.store

/-! ### objects loaded from the records -/

theorem getAccount_addr (st : Store) (a : Addr) (o : Obj) (h : st.getAccount a = some o) :
    o.addr = a ∧ o.origin = [] ∧ o.dirty = [] ∧ o.code = 0 ∧ o.deleted = false ∧ o.suicided = false ∧ o.bal = st.balOf a := by
  unfold Store.getAccount at h
  split at h
  · cases h; simp [Obj.fresh]
  · split at h
    · cases h
    · cases h; simp [Obj.fresh]

theorem getAccount_created (st : Store) (a : Addr) (o : Obj) (h : st.getAccount a = some o) : o.created = false := by
  unfold Store.getAccount at h
  split at h
  · cases h; simp [Obj.fresh]
  · split at h
    · cases h
    · cases h; simp [Obj.fresh]

/-- an object loaded from the records reads the records -/
theorem base_loaded (st : Store) (a : Addr) (o : Obj) (h : st.getAccount a = some o) (k : Key) :
    o.base st k = st.slot a k := by
  simp [Obj.base, getAccount_created st a o h, (getAccount_addr st a o h).1]

theorem getAccount_ok (st : Store) (hs : StoreOK st) (a : Addr) (o : Obj) (h : st.getAccount a = some o) : ObjOK st o := by
  have hf := getAccount_addr st a o h
  obtain ⟨h1, h2, h3, h4, h5, _, _⟩ := hf
  refine ⟨?_, ?_, ?_, h5, ?_, ?_, by intro k hk; simp [h3] at hk⟩
  · intro k v hk; simp [h2] at hk
  · unfold Obj.getCode
    simp only [h4, ne_eq, not_true_eq_false, if_false]
    by_cases hz : o.codeHash = 0
    · simp [hz]
    · simp only [hz, if_false]
      unfold Store.getAccount at h
      split at h
      · rename_i n hh heq
        cases h
        simp only [Obj.fresh] at hz ⊢
        exact hs.codes a n hh heq hz
      · split at h
        · cases h
        · cases h; simp [Obj.fresh] at hz
  · intro hc; exact absurd h4 hc
  · simp [h3, akeys]
  · intro hc; exact absurd h4 hc

/-! ### getObj / setObj -/

theorem view_of_cached (s : Impl) (a : Addr) (o : Obj) (h : alookup a s.objs = some o) (hl : o.deleted = false) :
    s.view a = some (viewObj s.store o) := by
  simp [Impl.view, h, hl]

theorem view_of_uncached (s : Impl) (a : Addr) (h : alookup a s.objs = none) : s.view a = s.store.view a := by
  simp [Impl.view, h]

/-- frame: `getObj` only ever adds a clean object to the cache -/
structure SameBut (s s1 : Impl) : Prop where
  store : s1.store = s.store
  journal : s1.journal = s.journal
  revisions : s1.revisions = s.revisions
  nextRev : s1.nextRev = s.nextRev
  refund : s1.refund = s.refund
  thash : s1.thash = s.thash
  logs : s1.logs = s.logs
  logSize : s1.logSize = s.logSize
  alAddrs : s1.alAddrs = s.alAddrs
  alSlots : s1.alSlots = s.alSlots

theorem SameBut.refl (s : Impl) : SameBut s s := ⟨rfl, rfl, rfl, rfl, rfl, rfl, rfl, rfl, rfl, rfl⟩

theorem SameBut.trans {a b c : Impl} (h1 : SameBut a b) (h2 : SameBut b c) : SameBut a c :=
  ⟨h2.store.trans h1.store, h2.journal.trans h1.journal, h2.revisions.trans h1.revisions,
   h2.nextRev.trans h1.nextRev, h2.refund.trans h1.refund, h2.thash.trans h1.thash, h2.logs.trans h1.logs,
   h2.logSize.trans h1.logSize, h2.alAddrs.trans h1.alAddrs, h2.alSlots.trans h1.alSlots⟩

/-- everything but the object cache and the journal is unchanged -/
structure SameRest (s s1 : Impl) : Prop where
  store : s1.store = s.store
  revisions : s1.revisions = s.revisions
  nextRev : s1.nextRev = s.nextRev
  refund : s1.refund = s.refund
  thash : s1.thash = s.thash
  logs : s1.logs = s.logs
  logSize : s1.logSize = s.logSize
  alAddrs : s1.alAddrs = s.alAddrs
  alSlots : s1.alSlots = s.alSlots

theorem SameBut.toRest {s s1 : Impl} (h : SameBut s s1) : SameRest s s1 :=
  ⟨h.store, h.revisions, h.nextRev, h.refund, h.thash, h.logs, h.logSize, h.alAddrs, h.alSlots⟩

theorem SameRest.refl (s : Impl) : SameRest s s := ⟨rfl, rfl, rfl, rfl, rfl, rfl, rfl, rfl, rfl⟩

theorem SameRest.trans {a b c : Impl} (h1 : SameRest a b) (h2 : SameRest b c) : SameRest a c :=
  ⟨h2.store.trans h1.store, h2.revisions.trans h1.revisions,
   h2.nextRev.trans h1.nextRev, h2.refund.trans h1.refund, h2.thash.trans h1.thash, h2.logs.trans h1.logs,
   h2.logSize.trans h1.logSize, h2.alAddrs.trans h1.alAddrs, h2.alSlots.trans h1.alSlots⟩

theorem absI_of_sameBut {s s1 : Impl} (h : SameBut s s1) (hv : s1.view = s.view) : absI s1 = absI s := by
  simp [absI, hv, h.refund, h.logs, h.logSize, h.alAddrs, h.alSlots]

theorem getObj_spec (s : Impl) (hc : CInv s) (a : Addr) (s1 : Impl) (r : Option Obj) (h : s.getObj a = (s1, r)) :
    CInv s1 ∧ SameBut s s1 ∧ s1.view = s.view ∧
    (r = none → s.view a = none) ∧
    (∀ o, r = some o → alookup a s1.objs = some o ∧ o.addr = a ∧ ObjOK s.store o ∧ s.view a = some (viewObj s.store o)) := by
  unfold Impl.getObj at h
  cases hl : alookup a s.objs with
  | some o =>
    have ho := hc.objs a o hl
    simp only [hl] at h
    by_cases hd : o.deleted
    · exact absurd ho.2.live (by simp [hd])
    · rw [if_neg hd] at h
      cases h
      refine ⟨hc, SameBut.refl s, rfl, ?_, ?_⟩
      · intro h; cases h
      · intro o' h; cases h
        exact ⟨hl, ho.1, ho.2, view_of_cached s a o hl ho.2.live⟩
  | none =>
    simp only [hl] at h
    cases hg : s.store.getAccount a with
    | none =>
      simp only [hg] at h
      cases h
      refine ⟨hc, SameBut.refl s, rfl, ?_, ?_⟩
      · intro _; simp [view_of_uncached s a hl, Store.view, hg]
      · intro o' h; cases h
    | some o =>
      simp only [hg] at h
      cases h
      have hf := getAccount_addr s.store a o hg
      have hok := getAccount_ok s.store hc.store a o hg
      have hview : ({ s with objs := upsert s.objs a o } : Impl).view = s.view := by
        funext b
        unfold Impl.view
        simp only [alookup_upsert]
        by_cases hb : b = a
        · subst hb
          simp [hl, hok.live, Store.view, hg]
        · simp [hb]
      refine ⟨?_, (by constructor <;> rfl), hview, ?_, ?_⟩
      · refine ⟨?_, ?_, hc.store⟩
        · intro b o' hb
          simp only [alookup_upsert] at hb
          by_cases hba : b = a
          · subst hba; simp at hb; subst hb; exact ⟨hf.1, hok⟩
          · simp [hba] at hb; exact hc.objs b o' hb
        · exact nodup_akeys_upsert _ _ _ hc.nodup
      · intro h; cases h
      · intro o' h; cases h
        refine ⟨by simp, hf.1, hok, ?_⟩
        simp [view_of_uncached s a hl, Store.view, hg]

theorem setObj_view (s : Impl) (o : Obj) (hl : o.deleted = false) :
    (s.setObj o).view = updF s.view o.addr (some (viewObj s.store o)) := by
  funext b
  unfold Impl.setObj Impl.view updF
  simp only [alookup_upsert]
  by_cases hb : b = o.addr
  · simp [hb, hl]
  · simp [hb]

theorem setObj_cinv (s : Impl) (hc : CInv s) (o : Obj) (hok : ObjOK s.store o) : CInv (s.setObj o) := by
  refine ⟨?_, ?_, hc.store⟩
  · intro b o' hb
    simp only [Impl.setObj, alookup_upsert] at hb
    by_cases hba : b = o.addr
    · subst hba; simp at hb; subst hb; exact ⟨rfl, hok⟩
    · simp [hba] at hb; exact hc.objs b o' hb
  · exact nodup_akeys_upsert _ _ _ hc.nodup

theorem setObj_sameBut (s : Impl) (o : Obj) : SameBut s (s.setObj o) :=
  ⟨rfl, rfl, rfl, rfl, rfl, rfl, rfl, rfl, rfl, rfl⟩

/-! ### journal append -/

theorem append_entries (j : Journal) (e : Entry) : (j.append e).entries = j.entries ++ [e] := by
  unfold Journal.append
  cases e.dirtied <;> rfl

theorem jappend_spec (s s1 : Impl) (e : Entry) (h : s.jappend e = some s1) :
    s1.journal.entries = s.journal.entries ++ [e] ∧ s1.objs = s.objs ∧ s1.store = s.store ∧
    s1.revisions = s.revisions ∧ s1.nextRev = s.nextRev ∧ s1.refund = s.refund ∧ s1.thash = s.thash ∧
    s1.logs = s.logs ∧ s1.logSize = s.logSize ∧ s1.alAddrs = s.alAddrs ∧ s1.alSlots = s.alSlots := by
  simp only [Impl.jappend, Option.some.injEq] at h
  subst h
  exact ⟨append_entries _ _, rfl, rfl, rfl, rfl, rfl, rfl, rfl, rfl, rfl, rfl⟩

theorem jappend_journal (s s1 : Impl) (e : Entry) (h : s.jappend e = some s1) : s1.journal = s.journal.append e := by
  simp only [Impl.jappend, Option.some.injEq] at h
  subst h; rfl

theorem jappend_total (s : Impl) (e : Entry) : ∃ s1, s.jappend e = some s1 := ⟨_, rfl⟩

theorem jappend_sameRest (s s1 : Impl) (e : Entry) (h : s.jappend e = some s1) : SameRest s s1 := by
  have hs := jappend_spec s s1 e h
  exact ⟨hs.2.2.1, hs.2.2.2.1, hs.2.2.2.2.1, hs.2.2.2.2.2.1, hs.2.2.2.2.2.2.1, hs.2.2.2.2.2.2.2.1,
    hs.2.2.2.2.2.2.2.2.1, hs.2.2.2.2.2.2.2.2.2.1, hs.2.2.2.2.2.2.2.2.2.2⟩

theorem setObj_sameRest (s : Impl) (o : Obj) : SameRest s (s.setObj o) := ⟨rfl, rfl, rfl, rfl, rfl, rfl, rfl, rfl, rfl⟩

theorem absI_of_sameRest {s s1 : Impl} (h : SameRest s s1) (hv : s1.view = s.view) : absI s1 = absI s := by
  simp [absI, hv, h.refund, h.logs, h.logSize, h.alAddrs, h.alSlots]

theorem jappend_view (s s1 : Impl) (e : Entry) (h : s.jappend e = some s1) : s1.view = s.view := by
  have hs := jappend_spec s s1 e h
  funext a
  simp [Impl.view, hs.2.1, hs.2.2.1]

theorem jappend_cinv (s s1 : Impl) (e : Entry) (h : s.jappend e = some s1) (hc : CInv s) : CInv s1 := by
  have hs := jappend_spec s s1 e h
  refine ⟨?_, ?_, ?_⟩
  · intro a o ha; rw [hs.2.1] at ha; rw [hs.2.2.1]; exact hc.objs a o ha
  · rw [hs.2.1]; exact hc.nodup
  · rw [hs.2.2.1]; exact hc.store

/-! ## every dirty slot has its original value cached

  `commitState` skips a dirty slot whose original value is not cached.  `SetState` caches it before
  it makes the slot dirty; the undo of a `storageChange` writes the dirty slot of whatever object
  stands at the address then.  `OOK` says that object has the slot's origin cached: it follows the
  state objects through `createObject` / `resetObject` entries (`undoF`). -/

/-- which original values are cached: address ↦ slot ↦ cached? -/
def Impl.okOf (s : Impl) (a : Addr) (k : Key) : Bool :=
  match alookup a s.objs with
  | some o => (alookup k o.origin).isSome
  | none => false

def undoF : Entry → (Addr → Key → Bool) → (Addr → Key → Bool)
  | .createObject a, F => updF F a (fun _ => false)
  | .resetObject prev, F => updF F prev.addr (fun k => (alookup k prev.origin).isSome)
  | _, F => F

def EntrySupp (F : Addr → Key → Bool) : Entry → Prop
  | .storage a k _ => F a k = true
  | _ => True

/-- entries most recent first -/
def OOK : (Addr → Key → Bool) → List Entry → Prop
  | _, [] => True
  | F, e :: rest => EntrySupp F e ∧ OOK (undoF e F) rest

theorem undoF_mono (e : Entry) {F F' : Addr → Key → Bool} (h : ∀ a k, F a k = true → F' a k = true) :
    ∀ a k, undoF e F a k = true → undoF e F' a k = true := by
  intro a k
  cases e <;> simp only [undoF] <;> try exact h a k
  · rename_i b; by_cases hb : a = b <;> simp [updF, hb]; exact h a k
  · rename_i prev; by_cases hb : a = prev.addr <;> simp [updF, hb]; exact h a k

theorem OOK_mono : ∀ (l : List Entry) {F F' : Addr → Key → Bool}, (∀ a k, F a k = true → F' a k = true) → OOK F l → OOK F' l
  | [], _, _, _, _ => trivial
  | e :: rest, F, F', h, hk => by
    refine ⟨?_, OOK_mono rest (undoF_mono e h) hk.2⟩
    cases e <;> try trivial
    exact h _ _ hk.1

/-- entries that neither create nor replace a state object -/
def Entry.plain : Entry → Bool
  | .createObject _ => false
  | .resetObject _ => false
  | _ => true

theorem undoF_plain (e : Entry) (F : Addr → Key → Bool) (h : e.plain = true) : undoF e F = F := by
  cases e <;> simp [Entry.plain] at h <;> rfl

/-- appending plain entries whose storage entries are supported -/
theorem OOK_plain : ∀ (el : List Entry) (F : Addr → Key → Bool) (rest : List Entry),
    (∀ e ∈ el, e.plain = true ∧ EntrySupp F e) → OOK F rest → OOK F (el ++ rest)
  | [], _, _, _, h => h
  | e :: t, F, rest, hel, h => by
    have he := hel e (by simp)
    refine ⟨he.2, ?_⟩
    rw [undoF_plain e F he.1]
    exact OOK_plain t F rest (fun e' he' => hel e' (List.mem_cons_of_mem _ he')) h

theorem okOf_setObj (s : Impl) (o : Obj) (b : Addr) (k : Key) :
    (s.setObj o).okOf b k = if b = o.addr then (alookup k o.origin).isSome else s.okOf b k := by
  simp only [Impl.okOf, Impl.setObj, alookup_upsert]
  by_cases hb : b = o.addr <;> simp [hb]

theorem okOf_cached (s : Impl) (a : Addr) (o : Obj) (k : Key) (h : alookup a s.objs = some o) :
    s.okOf a k = (alookup k o.origin).isSome := by simp [Impl.okOf, h]

theorem getObj_okOf (s s1 : Impl) (hc : CInv s) (a : Addr) (r : Option Obj) (h : s.getObj a = (s1, r)) :
    ∀ b k, s.okOf b k = true → s1.okOf b k = true := by
  unfold Impl.getObj at h
  cases hl : alookup a s.objs with
  | some o =>
    simp only [hl] at h
    have hd : o.deleted = false := (hc.objs a o hl).2.live
    simp only [hd, Bool.false_eq_true, if_false] at h
    cases h; intro b k hb; exact hb
  | none =>
    simp only [hl] at h
    cases hg : s.store.getAccount a with
    | none => simp only [hg] at h; cases h; intro b k hb; exact hb
    | some o =>
      simp only [hg] at h
      cases h
      intro b k hb
      simp only [Impl.okOf, alookup_upsert] at hb ⊢
      by_cases hba : b = a
      · subst hba; simp [Impl.okOf, hl] at hb
      · simpa [hba] using hb

/-! ## the concrete revert of an entry implements its abstract meaning -/

/-- static side conditions of journal entries (the records do not change within a transaction) -/
def EntryStatic (st : Store) : Entry → Prop
  | .createObject a => st.view a = none
  | .resetObject prev => ObjOK st prev
  | .code _ pc ph => pc = ph
  | _ => True

def EntriesOK (st : Store) (es : List Entry) : Prop := ∀ e ∈ es, EntryStatic st e

theorem absI_setObj (s : Impl) (o : Obj) (hl : o.deleted = false) :
    absI (s.setObj o) = { absI s with acct := updF (absI s).acct o.addr (some (viewObj s.store o)) } := by
  have h := setObj_view s o hl
  simp only [absI, h]
  rfl

theorem viewObj_setStateRaw (st : Store) (o : Obj) (k : Key) (p : Val) :
    viewObj st (o.setStateRaw k p) = { viewObj st o with stor := updF (viewObj st o).stor k p } := by
  have : Obj.slotView st (o.setStateRaw k p) = updF (Obj.slotView st o) k p := by
    funext k'
    simp only [Obj.slotView, Obj.setStateRaw, alookup_upsert, updF]
    by_cases hk : k' = k
    · simp [hk]
    · simp only [hk, if_false]; rfl
  simp only [viewObj, this]
  rfl

theorem objOK_setStateRaw (st : Store) (o : Obj) (k : Key) (p : Val) (h : ObjOK st o)
    (hk : (alookup k o.origin).isSome) : ObjOK st (o.setStateRaw k p) :=
  ⟨h.origin, h.code, h.codeEq, h.live, nodup_akeys_upsert _ _ _ h.nd, h.dc, by
    intro k' hk'
    simp only [Obj.setStateRaw, alookup_upsert] at hk'
    by_cases hkk : k' = k
    · subst hkk; exact hk
    · simp only [hkk, if_false] at hk'; exact h.dho k' hk'⟩

/-- frame of a revert step -/
structure RevFrame (s s' : Impl) : Prop where
  store : s'.store = s.store
  entries : s'.journal.entries = s.journal.entries
  revisions : s'.revisions = s.revisions
  nextRev : s'.nextRev = s.nextRev
  thash : s'.thash = s.thash

/-- replacing the cached object at `a` by `o'` whose view is `f` of the old one -/
theorem modObj_abs (s s1 : Impl) (hc : CInv s) (a : Addr) (o : Obj) (hg : s.getObj a = (s1, some o))
    (o' : Obj) (f : AView → AView) (haddr : o'.addr = a) (hok : ObjOK s.store o')
    (hv : viewObj s.store o' = f (viewObj s.store o)) :
    CInv (s1.setObj o') ∧ absI (s1.setObj o') = (absI s).modAcct a f ∧ SameBut s (s1.setObj o') := by
  have hs := getObj_spec s hc a s1 (some o) hg
  have ho := hs.2.2.2.2 o rfl
  have hst : s1.store = s.store := hs.2.1.store
  have hok1 : ObjOK s1.store o' := by rw [hst]; exact hok
  refine ⟨setObj_cinv s1 hs.1 o' hok1, ?_, hs.2.1.trans (setObj_sameBut s1 o')⟩
  rw [absI_setObj s1 o' hok.live, absI_of_sameBut hs.2.1 hs.2.2.1, haddr, hst, hv]
  simp only [AW.modAcct]
  have : (absI s).acct a = some (viewObj s.store o) := ho.2.2.2
  rw [this]
  rfl

theorem revFrame_of_sameBut {s s' : Impl} (h : SameBut s s') : RevFrame s s' :=
  ⟨h.store, by rw [h.journal], h.revisions, h.nextRev, h.thash⟩

theorem revertEntry_abs (s s' : Impl) (e : Entry) (hc : CInv s) (he : EntryStatic s.store e)
    (hsup : EntrySupp s.okOf e) (h : s.revertEntry e = some s') :
    CInv s' ∧ RevFrame s s' ∧ absI s' = e.undo s.store (absI s) := by
  cases e with
  | createObject a =>
    simp only [Impl.revertEntry, Option.some.injEq] at h
    subst h
    refine ⟨⟨?_, ?_, hc.store⟩, ⟨rfl, rfl, rfl, rfl, rfl⟩, ?_⟩
    · intro b o hb
      simp only [alookup_aerase] at hb
      by_cases hba : b = a
      · simp [hba] at hb
      · simp [hba] at hb; exact hc.objs b o hb
    · simp only [akeys]
      have : (List.map (fun x => x.1) (aerase s.objs a)) = (akeys s.objs).filter (fun x => x ≠ a) := by
        induction s.objs with
        | nil => rfl
        | cons hd t ih =>
          obtain ⟨k', v'⟩ := hd
          by_cases hk : k' = a
          · simp [aerase, akeys, hk, ih]
          · simp [aerase, akeys, hk, ih]
      rw [this]
      exact hc.nodup.filter _
    · have hv : ({ s with objs := aerase s.objs a } : Impl).view = updF s.view a none := by
        funext b
        simp only [Impl.view, alookup_aerase, updF]
        by_cases hba : b = a
        · subst hba; simpa [EntryStatic] using he
        · simp [hba]
      simp only [absI, Entry.undo, hv]
  | resetObject prev =>
    simp only [Impl.revertEntry, Option.some.injEq] at h
    subst h
    have hok : ObjOK s.store prev := he
    refine ⟨setObj_cinv s hc prev hok, ⟨rfl, rfl, rfl, rfl, rfl⟩, ?_⟩
    rw [absI_setObj s prev hok.live]
    rfl
  | suicide a p pb =>
    simp only [Impl.revertEntry] at h
    cases hg : s.getObj a with
    | mk s1 r =>
      simp only [hg] at h
      cases r with
      | none =>
        have hs := getObj_spec s hc a s1 none hg
        simp only [Option.some.injEq] at h
        subst h
        refine ⟨hs.1, revFrame_of_sameBut hs.2.1, ?_⟩
        rw [absI_of_sameBut hs.2.1 hs.2.2.1]
        simp only [Entry.undo, AW.modAcct]
        have hv : (absI s).acct a = none := hs.2.2.2.1 rfl
        rw [hv]
        simp only [Option.map_none]
        rw [← hv, updF_self]
      | some o =>
        have hs := getObj_spec s hc a s1 (some o) hg
        have ho := hs.2.2.2.2 o rfl
        simp only [Option.some.injEq] at h
        subst h
        have hm := modObj_abs s s1 hc a o hg { o with suicided := p, bal := pb }
          (fun v => { v with suicided := p, bal := pb }) ho.2.1
          ⟨ho.2.2.1.origin, ho.2.2.1.code, ho.2.2.1.codeEq, ho.2.2.1.live, ho.2.2.1.nd, ho.2.2.1.dc, ho.2.2.1.dho⟩ rfl
        exact ⟨hm.1, revFrame_of_sameBut hm.2.2, hm.2.1⟩
  | balance a p =>
    simp only [Impl.revertEntry] at h
    cases hg : s.getObj a with
    | mk s1 r =>
      simp only [hg] at h
      cases r with
      | none => simp at h
      | some o =>
        have hs := getObj_spec s hc a s1 (some o) hg
        have ho := hs.2.2.2.2 o rfl
        simp only [Option.some.injEq] at h
        subst h
        have hm := modObj_abs s s1 hc a o hg { o with bal := p } (fun v => { v with bal := p }) ho.2.1
          ⟨ho.2.2.1.origin, ho.2.2.1.code, ho.2.2.1.codeEq, ho.2.2.1.live, ho.2.2.1.nd, ho.2.2.1.dc, ho.2.2.1.dho⟩ rfl
        exact ⟨hm.1, revFrame_of_sameBut hm.2.2, hm.2.1⟩
  | nonce a p =>
    simp only [Impl.revertEntry] at h
    cases hg : s.getObj a with
    | mk s1 r =>
      simp only [hg] at h
      cases r with
      | none => simp at h
      | some o =>
        have hs := getObj_spec s hc a s1 (some o) hg
        have ho := hs.2.2.2.2 o rfl
        simp only [Option.some.injEq] at h
        subst h
        have hm := modObj_abs s s1 hc a o hg { o with nonce := p } (fun v => { v with nonce := p }) ho.2.1
          ⟨ho.2.2.1.origin, ho.2.2.1.code, ho.2.2.1.codeEq, ho.2.2.1.live, ho.2.2.1.nd, ho.2.2.1.dc, ho.2.2.1.dho⟩ rfl
        exact ⟨hm.1, revFrame_of_sameBut hm.2.2, hm.2.1⟩
  | storage a k p =>
    simp only [Impl.revertEntry] at h
    cases hg : s.getObj a with
    | mk s1 r =>
      simp only [hg] at h
      cases r with
      | none => simp at h
      | some o =>
        have hs := getObj_spec s hc a s1 (some o) hg
        have ho := hs.2.2.2.2 o rfl
        simp only [Option.some.injEq] at h
        subst h
        have hko : (alookup k o.origin).isSome := by
          have h1 := getObj_okOf s s1 hc a (some o) hg a k hsup
          rw [okOf_cached s1 a o k ho.1] at h1; exact h1
        have hm := modObj_abs s s1 hc a o hg (o.setStateRaw k p) (fun v => { v with stor := updF v.stor k p }) ho.2.1
          (objOK_setStateRaw _ _ _ _ ho.2.2.1 hko) (viewObj_setStateRaw _ _ _ _)
        exact ⟨hm.1, revFrame_of_sameBut hm.2.2, hm.2.1⟩
  | code a pc ph =>
    simp only [Impl.revertEntry] at h
    have hpc : pc = ph := he
    subst hpc
    cases hg : s.getObj a with
    | mk s1 r =>
      simp only [hg] at h
      cases r with
      | none => simp at h
      | some o =>
        have hs := getObj_spec s hc a s1 (some o) hg
        have ho := hs.2.2.2.2 o rfl
        simp only [Option.some.injEq] at h
        subst h
        have hgc : (o.setCodeRaw pc pc).getCode s.store = pc := by
          simp only [Obj.getCode, Obj.setCodeRaw]
          by_cases hz : pc = 0 <;> simp [hz]
        have hm := modObj_abs s s1 hc a o hg (o.setCodeRaw pc pc) (fun v => { v with code := pc, hash := pc }) ho.2.1
          ⟨ho.2.2.1.origin, hgc, fun _ => rfl, ho.2.2.1.live, ho.2.2.1.nd, fun _ => rfl, ho.2.2.1.dho⟩ (by simp only [viewObj, hgc]; rfl)
        exact ⟨hm.1, revFrame_of_sameBut hm.2.2, hm.2.1⟩
  | refund p =>
    simp only [Impl.revertEntry, Option.some.injEq] at h
    subst h
    exact ⟨⟨hc.objs, hc.nodup, hc.store⟩, ⟨rfl, rfl, rfl, rfl, rfl⟩, rfl⟩
  | addLog hh =>
    simp only [Impl.revertEntry] at h
    cases hl : alookup hh s.logs with
    | none => simp [hl] at h
    | some l =>
      simp only [hl] at h
      by_cases h0 : l.length = 0
      · simp [h0] at h
      · simp only [h0, if_false] at h
        by_cases h1 : l.length = 1
        · simp only [h1, if_true, Option.some.injEq] at h
          subst h
          refine ⟨⟨hc.objs, hc.nodup, hc.store⟩, ⟨rfl, rfl, rfl, rfl, rfl⟩, ?_⟩
          have hlg : (fun h' => (alookup h' (aerase s.logs hh)).getD []) =
              updF (fun h' => (alookup h' s.logs).getD []) hh (((alookup hh s.logs).getD []).dropLast) := by
            funext h'
            simp only [alookup_aerase, updF]
            by_cases hh' : h' = hh
            · subst hh'
              simp only [if_true, hl, Option.getD_some, Option.getD_none]
              match l, h1 with
              | [x], _ => rfl
            · simp [hh']
          simp only [absI, Entry.undo, hlg]
          rfl
        · simp only [h1, if_false, Option.some.injEq] at h
          subst h
          refine ⟨⟨hc.objs, hc.nodup, hc.store⟩, ⟨rfl, rfl, rfl, rfl, rfl⟩, ?_⟩
          have hlg : (fun h' => (alookup h' (upsert s.logs hh l.dropLast)).getD []) =
              updF (fun h' => (alookup h' s.logs).getD []) hh (((alookup hh s.logs).getD []).dropLast) := by
            funext h'
            simp only [alookup_upsert, updF]
            by_cases hh' : h' = hh
            · subst hh'; simp [hl]
            · simp [hh']
          simp only [absI, Entry.undo, hlg]
          rfl
  | touch a =>
    simp only [Impl.revertEntry, Option.some.injEq] at h
    subst h
    exact ⟨hc, ⟨rfl, rfl, rfl, rfl, rfl⟩, rfl⟩
  | alAddr a =>
    simp only [Impl.revertEntry, Option.some.injEq] at h
    subst h
    refine ⟨⟨hc.objs, hc.nodup, hc.store⟩, ⟨rfl, rfl, rfl, rfl, rfl⟩, ?_⟩
    have hcount : (fun b => (s.alAddrs.erase a).count b) = updF (fun b => s.alAddrs.count b) a (s.alAddrs.count a - 1) := by
      funext b
      by_cases hb : b = a
      · subst hb; simp [updF, List.count_erase_self]
      · simp [updF, hb, List.count_erase_of_ne hb]
    simp only [absI, Entry.undo, hcount]
    rfl
  | alSlot a k =>
    simp only [Impl.revertEntry, Option.some.injEq] at h
    subst h
    refine ⟨⟨hc.objs, hc.nodup, hc.store⟩, ⟨rfl, rfl, rfl, rfl, rfl⟩, ?_⟩
    have hcount : (fun p => (s.alSlots.erase (a, k)).count p) = updF (fun p => s.alSlots.count p) (a, k) (s.alSlots.count (a, k) - 1) := by
      funext p
      by_cases hp : p = (a, k)
      · subst hp; simp [updF, List.count_erase_self]
      · simp [updF, hp, List.count_erase_of_ne hp]
    simp only [absI, Entry.undo, hcount]
    rfl

/-! ## the revert loop -/

theorem entriesOK_append {st : Store} {l1 l2 : List Entry} : EntriesOK st (l1 ++ l2) ↔ EntriesOK st l1 ∧ EntriesOK st l2 := by
  simp only [EntriesOK, List.mem_append]
  constructor
  · intro h; exact ⟨fun e he => h e (Or.inl he), fun e he => h e (Or.inr he)⟩
  · intro h e he; cases he with
    | inl h1 => exact h.1 e h1
    | inr h2 => exact h.2 e h2

theorem okOf_modObj (s s1 : Impl) (hc : CInv s) (a : Addr) (o : Obj) (hg : s.getObj a = (s1, some o)) (o' : Obj)
    (haddr : o'.addr = a) (horig : o'.origin = o.origin) :
    ∀ b k, s.okOf b k = true → (s1.setObj o').okOf b k = true := by
  intro b k hb
  have h1 := getObj_okOf s s1 hc a (some o) hg b k hb
  have ho := (getObj_spec s hc a s1 (some o) hg).2.2.2.2 o rfl
  rw [okOf_setObj]
  by_cases hba : b = o'.addr
  · simp only [hba, if_true, horig]
    rw [hba, haddr, okOf_cached s1 a o k ho.1] at h1; exact h1
  · simp only [hba, if_false]; exact h1

theorem revertEntry_okOf (s s' : Impl) (e : Entry) (hc : CInv s) (h : s.revertEntry e = some s') :
    ∀ b k, undoF e s.okOf b k = true → s'.okOf b k = true := by
  have hmod : ∀ a (f : Obj → Obj), (∀ o, (f o).addr = o.addr ∧ (f o).origin = o.origin) →
      (match s.getObj a with | (_, none) => none | (s1, some o) => some (s1.setObj (f o))) = some s' →
      ∀ b k, s.okOf b k = true → s'.okOf b k = true := by
    intro a f hf hm
    cases hg : s.getObj a with
    | mk s1 ro =>
      simp only [hg] at hm
      cases ro with
      | none => simp at hm
      | some o =>
        simp only [Option.some.injEq] at hm
        subst hm
        have ho := (getObj_spec s hc a s1 (some o) hg).2.2.2.2 o rfl
        exact okOf_modObj s s1 hc a o hg (f o) ((hf o).1.trans ho.2.1) (hf o).2
  cases e with
  | createObject a =>
    simp only [Impl.revertEntry, Option.some.injEq] at h
    subst h
    intro b k hb
    simp only [undoF, updF] at hb
    by_cases hba : b = a
    · simp [hba] at hb
    · simp only [hba, if_false] at hb
      simpa [Impl.okOf, alookup_aerase, hba] using hb
  | resetObject prev =>
    simp only [Impl.revertEntry, Option.some.injEq] at h
    subst h
    intro b k hb
    rw [okOf_setObj]
    simp only [undoF, updF] at hb
    by_cases hba : b = prev.addr
    · simp only [hba, if_true] at hb ⊢; exact hb
    · simp only [hba, if_false] at hb ⊢; exact hb
  | suicide a p pb =>
    simp only [Impl.revertEntry] at h
    cases hg : s.getObj a with
    | mk s1 ro =>
      simp only [hg] at h
      cases ro with
      | none =>
        simp only [Option.some.injEq] at h; subst h
        exact getObj_okOf s s1 hc a none hg
      | some o =>
        simp only [Option.some.injEq] at h; subst h
        have ho := (getObj_spec s hc a s1 (some o) hg).2.2.2.2 o rfl
        exact okOf_modObj s s1 hc a o hg _ ho.2.1 rfl
  | balance a p => exact hmod a (fun o => { o with bal := p }) (fun _ => ⟨rfl, rfl⟩) h
  | nonce a p => exact hmod a (fun o => { o with nonce := p }) (fun _ => ⟨rfl, rfl⟩) h
  | storage a k p => exact hmod a (fun o => o.setStateRaw k p) (fun _ => ⟨rfl, rfl⟩) h
  | code a pc ph => exact hmod a (fun o => o.setCodeRaw ph pc) (fun _ => ⟨rfl, rfl⟩) h
  | refund p => simp only [Impl.revertEntry, Option.some.injEq] at h; subst h; intro b k hb; exact hb
  | addLog hh =>
    simp only [Impl.revertEntry] at h
    cases hlk : alookup hh s.logs with
    | none => simp [hlk] at h
    | some l =>
      simp only [hlk] at h
      by_cases h0 : l.length = 0
      · simp [h0] at h
      · simp only [h0, if_false] at h
        by_cases h1 : l.length = 1
        · simp only [h1, if_true, Option.some.injEq] at h; subst h; intro b k hb; exact hb
        · simp only [h1, if_false, Option.some.injEq] at h; subst h; intro b k hb; exact hb
  | touch a => simp only [Impl.revertEntry, Option.some.injEq] at h; subst h; intro b k hb; exact hb
  | alAddr a => simp only [Impl.revertEntry, Option.some.injEq] at h; subst h; intro b k hb; exact hb
  | alSlot a k => simp only [Impl.revertEntry, Option.some.injEq] at h; subst h; intro b k hb; exact hb

theorem undoLast_okOf (s s' : Impl) (hc : CInv s) (pre : List Entry) (e : Entry)
    (hsplit : s.journal.entries = pre ++ [e]) (h : s.undoLast = some s') :
    ∀ b k, undoF e s.okOf b k = true → s'.okOf b k = true := by
  unfold Impl.undoLast at h
  have hl : s.journal.entries.getLast? = some e := by rw [hsplit]; simp
  simp only [hl] at h
  cases hr : s.revertEntry e with
  | none => simp [hr] at h
  | some s1 =>
    simp only [hr, Option.some.injEq] at h
    subst h
    exact revertEntry_okOf s s1 e hc hr

theorem undoLast_ook (s s' : Impl) (hc : CInv s) (pre : List Entry) (e : Entry)
    (hsplit : s.journal.entries = pre ++ [e]) (h : s.undoLast = some s')
    (hook : OOK s.okOf s.journal.entries.reverse) : EntrySupp s.okOf e ∧ OOK s'.okOf pre.reverse := by
  rw [hsplit, List.reverse_append] at hook
  exact ⟨hook.1, OOK_mono _ (undoLast_okOf s s' hc pre e hsplit h) hook.2⟩

theorem undoLast_abs (s s' : Impl) (hc : CInv s) (pre : List Entry) (e : Entry)
    (hsplit : s.journal.entries = pre ++ [e]) (he : EntryStatic s.store e) (hsup : EntrySupp s.okOf e)
    (h : s.undoLast = some s') :
    CInv s' ∧ s'.store = s.store ∧ s'.journal.entries = pre ∧ s'.revisions = s.revisions ∧
    s'.nextRev = s.nextRev ∧ s'.thash = s.thash ∧ absI s' = e.undo s.store (absI s) := by
  unfold Impl.undoLast at h
  have hl : s.journal.entries.getLast? = some e := by rw [hsplit]; simp
  simp only [hl] at h
  cases hr : s.revertEntry e with
  | none => simp [hr] at h
  | some s1 =>
    simp only [hr] at h
    have hra := revertEntry_abs s s1 e hc he hsup hr
    simp only [Option.some.injEq] at h
    subst h
    refine ⟨⟨hra.1.objs, hra.1.nodup, hra.1.store⟩, hra.2.1.store, ?_, hra.2.1.revisions, hra.2.1.nextRev, hra.2.1.thash, ?_⟩
    · show s.journal.entries.dropLast = pre
      rw [hsplit]; simp
    · rw [← hra.2.2]; rfl

theorem revertTo_abs (n : Nat) : ∀ (s s' : Impl) (snap : Nat), CInv s → EntriesOK s.store s.journal.entries →
    OOK s.okOf s.journal.entries.reverse →
    snap ≤ s.journal.entries.length → s.journal.entries.length ≤ snap + n → s.revertTo snap n = some s' →
    CInv s' ∧ s'.store = s.store ∧ s'.journal.entries = s.journal.entries.take snap ∧ s'.revisions = s.revisions ∧
    s'.nextRev = s.nextRev ∧ s'.thash = s.thash ∧
    absI s' = undoAbs s.store ((s.journal.entries.drop snap).reverse) (absI s) := by
  induction n with
  | zero =>
    intro s s' snap hc _ _ hle hn h
    simp only [Impl.revertTo, Option.some.injEq] at h
    subst h
    have : s.journal.entries.length = snap := by omega
    refine ⟨hc, rfl, ?_, rfl, rfl, rfl, ?_⟩
    · rw [← this]; simp
    · rw [← this]; simp [undoAbs]
  | succ n ih =>
    intro s s' snap hc hes hook hle hn h
    simp only [Impl.revertTo] at h
    by_cases hlen : s.journal.entries.length ≤ snap
    · simp only [hlen, if_true, Option.some.injEq] at h
      subst h
      have : s.journal.entries.length = snap := by omega
      refine ⟨hc, rfl, ?_, rfl, rfl, rfl, ?_⟩
      · rw [← this]; simp
      · rw [← this]; simp [undoAbs]
    · simp only [hlen, if_false] at h
      have hne : s.journal.entries ≠ [] := by
        intro h0; rw [h0] at hlen; simp at hlen
      have hsplit : s.journal.entries = s.journal.entries.dropLast ++ [s.journal.entries.getLast hne] :=
        (List.dropLast_concat_getLast hne).symm
      generalize hpre : s.journal.entries.dropLast = pre at hsplit
      generalize he : s.journal.entries.getLast hne = e at hsplit
      have hes' := (entriesOK_append (st := s.store) (l1 := pre) (l2 := [e])).mp (hsplit ▸ hes)
      cases hu : s.undoLast with
      | none => simp [hu] at h
      | some s1 =>
        simp only [hu] at h
        have hok := undoLast_ook s s1 hc pre e hsplit hu hook
        have hua := undoLast_abs s s1 hc pre e hsplit (hes'.2 e (by simp)) hok.1 hu
        have hlen' : s.journal.entries.length = pre.length + 1 := by rw [hsplit]; simp
        have hr := ih s1 s' snap hua.1 (by rw [hua.2.1, hua.2.2.1]; exact hes'.1) (by rw [hua.2.2.1]; exact hok.2)
          (by rw [hua.2.2.1]; omega) (by rw [hua.2.2.1]; omega) h
        refine ⟨hr.1, hr.2.1.trans hua.2.1, ?_, hr.2.2.2.1.trans hua.2.2.2.1, hr.2.2.2.2.1.trans hua.2.2.2.2.1,
          hr.2.2.2.2.2.1.trans hua.2.2.2.2.2.1, ?_⟩
        · rw [hr.2.2.1, hua.2.2.1, hsplit, List.take_append_of_le_length (by omega)]
        · rw [hr.2.2.2.2.2.2, hua.2.1, hua.2.2.1, hua.2.2.2.2.2.2, hsplit,
            List.drop_append_of_le_length (by omega), List.reverse_append]
          rfl

/-! ### the revert loop never fails -/

theorem revertEntry_total (s : Impl) (e : Entry) (hc : CInv s) (hl : EntryLive (absI s) e) :
    ∃ s', s.revertEntry e = some s' := by
  have hobj : ∀ a, ((absI s).acct a).isSome → ∃ s1 o, s.getObj a = (s1, some o) := by
    intro a ha
    cases hg : s.getObj a with
    | mk s1 ro =>
      cases ro with
      | some o => exact ⟨s1, o, rfl⟩
      | none =>
        have := (getObj_spec s hc a s1 none hg).2.2.2.1 rfl
        have ha' : (s.view a).isSome := ha
        rw [this] at ha'; cases ha'
  cases e with
  | createObject a => exact ⟨_, rfl⟩
  | resetObject p => exact ⟨_, rfl⟩
  | suicide a p pb =>
    simp only [Impl.revertEntry]
    cases hg : s.getObj a with
    | mk s1 ro => cases ro <;> exact ⟨_, rfl⟩
  | balance a p =>
    obtain ⟨s1, o, hg⟩ := hobj a hl
    simp only [Impl.revertEntry, hg]
    exact ⟨_, rfl⟩
  | nonce a p =>
    obtain ⟨s1, o, hg⟩ := hobj a hl
    simp only [Impl.revertEntry, hg]
    exact ⟨_, rfl⟩
  | storage a k p =>
    obtain ⟨s1, o, hg⟩ := hobj a hl
    simp only [Impl.revertEntry, hg]
    exact ⟨_, rfl⟩
  | code a pc ph =>
    obtain ⟨s1, o, hg⟩ := hobj a hl
    simp only [Impl.revertEntry, hg]
    exact ⟨_, rfl⟩
  | refund p => exact ⟨_, rfl⟩
  | addLog h =>
    have hl' : (alookup h s.logs).getD [] ≠ [] := hl
    simp only [Impl.revertEntry]
    cases hlk : alookup h s.logs with
    | none => rw [hlk] at hl'; exact absurd rfl hl'
    | some l =>
      rw [hlk] at hl'
      have h0 : ¬ l.length = 0 := by
        intro e; exact hl' (List.length_eq_zero_iff.mp e)
      simp only [h0, if_false]
      by_cases h1 : l.length = 1
      · simp only [h1, if_true]; exact ⟨_, rfl⟩
      · simp only [h1, if_false]; exact ⟨_, rfl⟩
  | touch a => exact ⟨_, rfl⟩
  | alAddr a => exact ⟨_, rfl⟩
  | alSlot a k => exact ⟨_, rfl⟩

theorem undoLast_total (s : Impl) (hc : CInv s) (pre : List Entry) (e : Entry)
    (hsplit : s.journal.entries = pre ++ [e]) (hl : EntryLive (absI s) e) : ∃ s', s.undoLast = some s' := by
  obtain ⟨s1, hr⟩ := revertEntry_total s e hc hl
  have hlast : s.journal.entries.getLast? = some e := by rw [hsplit]; simp
  simp only [Impl.undoLast, hlast, hr]
  exact ⟨_, rfl⟩

theorem undoLast_cnt (s s' : Impl) (pre : List Entry) (e : Entry) (hsplit : s.journal.entries = pre ++ [e])
    (hc : CInv s) (he : EntryStatic s.store e) (h : s.undoLast = some s') (hcnt : JCnt s.journal) : JCnt s'.journal := by
  unfold Impl.undoLast at h
  have hl : s.journal.entries.getLast? = some e := by rw [hsplit]; simp
  simp only [hl] at h
  cases hr : s.revertEntry e with
  | none => simp [hr] at h
  | some s1 =>
    simp only [hr, Option.some.injEq] at h
    subst h
    -- reverting an entry never touches the journal
    have hj : s1.journal = s.journal := by
      cases e with
      | createObject a => simp only [Impl.revertEntry, Option.some.injEq] at hr; subst hr; rfl
      | resetObject p => simp only [Impl.revertEntry, Option.some.injEq] at hr; subst hr; rfl
      | suicide a p pb =>
        simp only [Impl.revertEntry] at hr
        cases hg : s.getObj a with
        | mk sa ro =>
          have hs := getObj_spec s hc a sa ro hg
          simp only [hg] at hr
          cases ro with
          | none => simp only [Option.some.injEq] at hr; subst hr; exact hs.2.1.journal
          | some o => simp only [Option.some.injEq] at hr; subst hr; exact hs.2.1.journal
      | balance a p =>
        simp only [Impl.revertEntry] at hr
        cases hg : s.getObj a with
        | mk sa ro =>
          have hs := getObj_spec s hc a sa ro hg
          simp only [hg] at hr
          cases ro with
          | none => simp at hr
          | some o => simp only [Option.some.injEq] at hr; subst hr; exact hs.2.1.journal
      | nonce a p =>
        simp only [Impl.revertEntry] at hr
        cases hg : s.getObj a with
        | mk sa ro =>
          have hs := getObj_spec s hc a sa ro hg
          simp only [hg] at hr
          cases ro with
          | none => simp at hr
          | some o => simp only [Option.some.injEq] at hr; subst hr; exact hs.2.1.journal
      | storage a k p =>
        simp only [Impl.revertEntry] at hr
        cases hg : s.getObj a with
        | mk sa ro =>
          have hs := getObj_spec s hc a sa ro hg
          simp only [hg] at hr
          cases ro with
          | none => simp at hr
          | some o => simp only [Option.some.injEq] at hr; subst hr; exact hs.2.1.journal
      | code a pc ph =>
        simp only [Impl.revertEntry] at hr
        cases hg : s.getObj a with
        | mk sa ro =>
          have hs := getObj_spec s hc a sa ro hg
          simp only [hg] at hr
          cases ro with
          | none => simp at hr
          | some o => simp only [Option.some.injEq] at hr; subst hr; exact hs.2.1.journal
      | refund p => simp only [Impl.revertEntry, Option.some.injEq] at hr; subst hr; rfl
      | addLog hh =>
        simp only [Impl.revertEntry] at hr
        cases hlk : alookup hh s.logs with
        | none => simp [hlk] at hr
        | some l =>
          simp only [hlk] at hr
          by_cases h0 : l.length = 0
          · simp [h0] at hr
          · simp only [h0, if_false] at hr
            by_cases h1 : l.length = 1
            · simp only [h1, if_true, Option.some.injEq] at hr; subst hr; rfl
            · simp only [h1, if_false, Option.some.injEq] at hr; subst hr; rfl
      | touch a => simp only [Impl.revertEntry, Option.some.injEq] at hr; subst hr; rfl
      | alAddr a => simp only [Impl.revertEntry, Option.some.injEq] at hr; subst hr; rfl
      | alSlot a k => simp only [Impl.revertEntry, Option.some.injEq] at hr; subst hr; rfl
    show JCnt { s1.journal.undirty e with entries := s.journal.entries.dropLast }
    have hd : s.journal.entries.dropLast = pre := by rw [hsplit]; simp
    rw [hd, hj]
    exact hcnt.pop pre e hsplit

theorem revertTo_total (n : Nat) : ∀ (s : Impl) (snap : Nat), CInv s → EntriesOK s.store s.journal.entries →
    JOK s.store (absI s) s.journal.entries.reverse → JCnt s.journal → OOK s.okOf s.journal.entries.reverse →
    ∃ s', s.revertTo snap n = some s' ∧ JCnt s'.journal ∧
      (snap ≤ s.journal.entries.length → s.journal.entries.length ≤ snap + n →
        JOK s.store (absI s') (s.journal.entries.take snap).reverse ∧
        OOK s'.okOf (s.journal.entries.take snap).reverse) := by
  induction n with
  | zero =>
    intro s snap _ _ hjok hcnt hook
    refine ⟨s, rfl, hcnt, ?_⟩
    intro h1 h2
    have : s.journal.entries.length = snap := by omega
    rw [← this, List.take_length]; exact ⟨hjok, hook⟩
  | succ n ih =>
    intro s snap hc hes hjok hcnt hook
    simp only [Impl.revertTo]
    by_cases hlen : s.journal.entries.length ≤ snap
    · simp only [hlen, if_true]
      refine ⟨s, rfl, hcnt, ?_⟩
      intro h1 _
      have : s.journal.entries.length = snap := by omega
      rw [← this, List.take_length]; exact ⟨hjok, hook⟩
    · simp only [hlen, if_false]
      have hne : s.journal.entries ≠ [] := by
        intro h0; rw [h0] at hlen; simp at hlen
      have hsplit : s.journal.entries = s.journal.entries.dropLast ++ [s.journal.entries.getLast hne] :=
        (List.dropLast_concat_getLast hne).symm
      generalize hpre : s.journal.entries.dropLast = pre at hsplit
      generalize he : s.journal.entries.getLast hne = e at hsplit
      have hes' := (entriesOK_append (st := s.store) (l1 := pre) (l2 := [e])).mp (hsplit ▸ hes)
      have hjok' : EntryLive (absI s) e ∧ JOK s.store (e.undo s.store (absI s)) pre.reverse := by
        rw [hsplit, List.reverse_append] at hjok
        exact hjok
      obtain ⟨s1, hu⟩ := undoLast_total s hc pre e hsplit hjok'.1
      have hok := undoLast_ook s s1 hc pre e hsplit hu hook
      have hua := undoLast_abs s s1 hc pre e hsplit (hes'.2 e (by simp)) hok.1 hu
      have hcnt1 := undoLast_cnt s s1 pre e hsplit hc (hes'.2 e (by simp)) hu hcnt
      obtain ⟨s', hr, hc', hj'⟩ := ih s1 snap hua.1 (by rw [hua.2.1, hua.2.2.1]; exact hes'.1)
        (by rw [hua.2.1, hua.2.2.1, hua.2.2.2.2.2.2]; exact hjok'.2) hcnt1 (by rw [hua.2.2.1]; exact hok.2)
      refine ⟨s', by simp only [hu]; exact hr, hc', ?_⟩
      intro h1 h2
      have hlen' : s.journal.entries.length = pre.length + 1 := by rw [hsplit]; simp
      have := hj' (by rw [hua.2.2.1]; omega) (by rw [hua.2.2.1]; omega)
      rw [hua.2.1, hua.2.2.1] at this
      rw [hsplit, List.take_append_of_le_length (by omega)]
      exact this

/-! ## the simulation relation -/

/-- pointwise relation between two lists of the same length -/
def All2 {α β : Type} (P : α → β → Prop) : List α → List β → Prop
  | [], [] => True
  | x :: xs, y :: ys => P x y ∧ All2 P xs ys
  | _, _ => False

theorem All2.imp {α β : Type} {P Q : α → β → Prop} (h : ∀ x y, P x y → Q x y) :
    ∀ {l1 : List α} {l2 : List β}, All2 P l1 l2 → All2 Q l1 l2
  | [], [], _ => trivial
  | _ :: _, _ :: _, hp => ⟨h _ _ hp.1, All2.imp h hp.2⟩
  | [], _ :: _, hp => hp.elim
  | _ :: _, [], hp => hp.elim

theorem All2.length {α β : Type} {P : α → β → Prop} : ∀ {l1 : List α} {l2 : List β}, All2 P l1 l2 → l1.length = l2.length
  | [], [], _ => rfl
  | _ :: _, _ :: _, hp => by simp [All2.length hp.2]
  | [], _ :: _, hp => hp.elim
  | _ :: _, [], hp => hp.elim

theorem All2.snoc {α β : Type} {P : α → β → Prop} {x : α} {y : β} (hxy : P x y) :
    ∀ {l1 : List α} {l2 : List β}, All2 P l1 l2 → All2 P (l1 ++ [x]) (l2 ++ [y])
  | [], [], _ => ⟨hxy, trivial⟩
  | _ :: _, _ :: _, hp => ⟨hp.1, All2.snoc hxy hp.2⟩
  | [], _ :: _, hp => hp.elim
  | _ :: _, [], hp => hp.elim

theorem All2.take {α β : Type} {P : α → β → Prop} (n : Nat) :
    ∀ {l1 : List α} {l2 : List β}, All2 P l1 l2 → All2 P (l1.take n) (l2.take n) := by
  induction n with
  | zero => intro l1 l2 _; simp [All2]
  | succ n ih =>
    intro l1 l2 h
    match l1, l2, h with
    | [], [], _ => simp [All2]
    | _ :: _, _ :: _, hp => exact ⟨hp.1, ih hp.2⟩

theorem All2.get {α β : Type} {P : α → β → Prop} :
    ∀ {l1 : List α} {l2 : List β} (i : Nat) (x : α), All2 P l1 l2 → l1[i]? = some x → ∃ y, l2[i]? = some y ∧ P x y
  | [], [], i, x, _, h => by simp at h
  | a :: l1, b :: l2, 0, x, hp, h => by simp at h; subst h; exact ⟨b, by simp, hp.1⟩
  | a :: l1, b :: l2, i + 1, x, hp, h => by
      simp at h
      obtain ⟨y, hy, hpy⟩ := All2.get i x hp.2 h
      exact ⟨y, by simpa using hy, hpy⟩
  | [], _ :: _, _, _, hp, _ => hp.elim
  | _ :: _, [], _, _, hp, _ => hp.elim

theorem All2.map_fst {α β γ : Type} {P : α → β → Prop} (f : α → γ) (g : β → γ) (hfg : ∀ x y, P x y → f x = g y) :
    ∀ {l1 : List α} {l2 : List β}, All2 P l1 l2 → l1.map f = l2.map g
  | [], [], _ => rfl
  | _ :: _, _ :: _, hp => by simp [hfg _ _ hp.1, All2.map_fst f g hfg hp.2]
  | [], _ :: _, hp => hp.elim
  | _ :: _, [], hp => hp.elim

/-- a valid revision `(id, journalIndex)` against the world the reference saved for it -/
structure RevOK (st : Store) (es : List Entry) (W0 : AW) (x : Nat × Nat) (y : Nat × RWorld) : Prop where
  id : x.1 = y.1
  le : x.2 ≤ es.length
  abs : undoAbs st ((es.drop x.2).reverse) W0 = absR y.2
  touched : ∀ a, a ∈ y.2.touched ↔ a ∈ (es.take x.2).filterMap Entry.dirtied
  tc : ∀ a, a ∉ y.2.touched → y.2.view a = st.view a
  nodup : (akeys y.2.accts).Nodup

structure Sim (s : Impl) (r : Ref) : Prop where
  cinv : CInv s
  entries : EntriesOK s.store s.journal.entries
  abs : absI s = absR r.cur
  thash : s.thash = r.thash
  nextRev : s.nextRev = r.nextRev
  touched : ∀ a, a ∈ r.cur.touched ↔ a ∈ s.journal.entries.filterMap Entry.dirtied
  tc : ∀ a, a ∉ r.cur.touched → r.cur.view a = s.store.view a
  nodup : (akeys r.cur.accts).Nodup
  revs : All2 (RevOK s.store s.journal.entries (absI s)) s.revisions r.stack
  idsLt : ∀ x ∈ s.revisions, x.1 < s.nextRev
  idsSorted : (s.revisions.map (·.1)).Pairwise (· < ·)
  jSorted : (s.revisions.map (·.2)).Pairwise (· ≤ ·)
  jok : JOK s.store (absI s) s.journal.entries.reverse
  cnt : JCnt s.journal
  ook : OOK s.okOf s.journal.entries.reverse

/-- an op that appends the entries `es` to the journal (possibly none) and moves both sides to
    the same new abstract world, from which undoing `es` leads back -/
theorem Sim.journaled {s s' : Impl} {r : Ref} {w' : RWorld} (h : Sim s r) (es : List Entry)
    (hc : CInv s') (hst : s'.store = s.store) (hje : s'.journal.entries = s.journal.entries ++ es)
    (hrev : s'.revisions = s.revisions) (hnr : s'.nextRev = s.nextRev) (hth : s'.thash = s.thash)
    (hes : EntriesOK s.store es)
    (habs : absI s' = absR w') (hundo : undoAbs s.store es.reverse (absI s') = absI s)
    (htouched : ∀ a, a ∈ w'.touched ↔ a ∈ r.cur.touched ∨ a ∈ es.filterMap Entry.dirtied)
    (htc : ∀ a, a ∉ w'.touched → w'.view a = s.store.view a)
    (hnd : (akeys w'.accts).Nodup)
    (hjok : JOK s.store (absI s') es.reverse) (hcnt : JCnt s'.journal)
    (hook : OOK s'.okOf s'.journal.entries.reverse) :
    Sim s' (r.withCur w') := by
  refine ⟨hc, ?_, habs, ?_, ?_, ?_, ?_, hnd, ?_, ?_, ?_, ?_, ?_, hcnt, hook⟩
  · rw [hst, hje]; exact entriesOK_append.mpr ⟨h.entries, hes⟩
  · rw [hth]; exact h.thash
  · rw [hnr]; exact h.nextRev
  · intro a
    show a ∈ w'.touched ↔ _
    rw [hje, List.filterMap_append, List.mem_append, htouched, h.touched]
  · intro a ha; rw [hst]; exact htc a ha
  · rw [hrev, hst, hje]
    refine All2.imp ?_ h.revs
    intro x y hxy
    refine ⟨hxy.id, by rw [List.length_append]; exact Nat.le_trans hxy.le (Nat.le_add_right _ _), ?_, ?_, hxy.tc, hxy.nodup⟩
    · rw [List.drop_append_of_le_length hxy.le, List.reverse_append, undoAbs_append, hundo]
      exact hxy.abs
    · intro a
      rw [List.take_append_of_le_length hxy.le]
      exact hxy.touched a
  · rw [hrev, hnr]; exact h.idsLt
  · rw [hrev]; exact h.idsSorted
  · rw [hrev]; exact h.jSorted
  · rw [hst, hje, List.reverse_append, JOK_append, hundo]
    exact ⟨hjok, h.jok⟩

/-! ## steps: an adapter state and a reference world reached from `s` / `r.cur` by journaled changes -/

structure Step (s s1 : Impl) (r : Ref) (w1 : RWorld) (es : List Entry) : Prop where
  cinv : CInv s1
  store : s1.store = s.store
  entries : s1.journal.entries = s.journal.entries ++ es
  revisions : s1.revisions = s.revisions
  nextRev : s1.nextRev = s.nextRev
  thash : s1.thash = s.thash
  static : EntriesOK s.store es
  abs : absI s1 = absR w1
  undo : undoAbs s.store es.reverse (absI s1) = absI s
  touched : ∀ a, a ∈ w1.touched ↔ a ∈ r.cur.touched ∨ a ∈ es.filterMap Entry.dirtied
  tc : ∀ a, a ∉ w1.touched → w1.view a = s.store.view a
  nodup : (akeys w1.accts).Nodup
  jok : JOK s.store (absI s1) es.reverse
  cnt : JCnt s1.journal
  ook : OOK s1.okOf s1.journal.entries.reverse

theorem Sim.step {s s1 : Impl} {r : Ref} {w1 : RWorld} {es : List Entry} (h : Sim s r) (st : Step s s1 r w1 es) :
    Sim s1 (r.withCur w1) :=
  h.journaled es st.cinv st.store st.entries st.revisions st.nextRev st.thash st.static st.abs st.undo
    st.touched st.tc st.nodup st.jok st.cnt st.ook

theorem Step.refl {s : Impl} {r : Ref} (h : Sim s r) : Step s s r r.cur [] :=
  ⟨h.cinv, rfl, (by simp), rfl, rfl, rfl, (by intro e he; cases he), h.abs, rfl, (by simp), h.tc, h.nodup, trivial, h.cnt, h.ook⟩

/-- caching an object (or any change that keeps the abstract world) -/
theorem Step.sameAbs {s s1 s2 : Impl} {r : Ref} {w1 : RWorld} {es : List Entry} (st : Step s s1 r w1 es)
    (hc : CInv s2) (hsb : SameBut s1 s2) (hv : s2.view = s1.view)
    (hmono : ∀ a k, s1.okOf a k = true → s2.okOf a k = true) : Step s s2 r w1 es :=
  ⟨hc, hsb.store.trans st.store, by rw [hsb.journal]; exact st.entries, hsb.revisions.trans st.revisions,
   hsb.nextRev.trans st.nextRev, hsb.thash.trans st.thash, st.static,
   (absI_of_sameBut hsb hv).trans st.abs, by rw [absI_of_sameBut hsb hv]; exact st.undo, st.touched, st.tc, st.nodup,
   by rw [absI_of_sameBut hsb hv]; exact st.jok, by rw [hsb.journal]; exact st.cnt,
   by rw [hsb.journal]; exact OOK_mono _ hmono st.ook⟩

/-! ### the reference side -/

theorem RWorld.view_put (w : RWorld) (a : Addr) (x : RAcct) : (w.put a x).view = updF w.view a (some (viewR x)) := by
  funext b
  simp only [RWorld.view, RWorld.get, RWorld.put, alookup_upsert, updF]
  by_cases hb : b = a <;> simp [hb]

theorem absR_put (w : RWorld) (a : Addr) (x : RAcct) :
    absR (w.put a x) = { absR w with acct := updF (absR w).acct a (some (viewR x)) } := by
  simp only [absR, RWorld.view_put]
  rfl

theorem view_eq_get {s : Impl} {w : RWorld} (habs : absI s = absR w) (a : Addr) : s.view a = (w.get a).map viewR := by
  have : (absI s).acct a = (absR w).acct a := by rw [habs]
  exact this

/-! ### absent accounts -/

theorem store_view_none (st : Store) (a : Addr) (h : st.view a = none) : st.getAccount a = none ∧ st.balOf a = 0 := by
  simp only [Store.view, Option.map_eq_none_iff] at h
  refine ⟨h, ?_⟩
  unfold Store.getAccount at h
  split at h
  · cases h
  · split at h
    · assumption
    · cases h

theorem view_none_uncached (s : Impl) (hc : CInv s) (a : Addr) (h : s.view a = none) :
    alookup a s.objs = none ∧ s.store.view a = none := by
  cases hl : alookup a s.objs with
  | some o =>
    have := view_of_cached s a o hl (hc.objs a o hl).2.live
    rw [h] at this; cases this
  | none => exact ⟨rfl, by rw [← view_of_uncached s a hl]; exact h⟩

/-- the object `createObject` makes shows an account without storage, whatever the records hold
    under the address (8684164) -/
theorem viewObj_make (st : Store) (a : Addr) (b : Nat) :
    viewObj st (Obj.make a b) = viewR (RAcct.fresh b) := by
  simp only [viewObj, viewR, Obj.make, Obj.fresh, RAcct.fresh, Obj.getCode, AView.mk.injEq]
  refine ⟨trivial, trivial, trivial, by simp, ?_, ?_, trivial⟩
  · funext k; simp [Obj.slotView, RAcct.slot, Obj.base, alookup]
  · funext k; simp [RAcct.cslot, Obj.base, alookup]

theorem objOK_make (st : Store) (a : Addr) (b : Nat) : ObjOK st (Obj.make a b) :=
  ⟨by intro k v h; simp [Obj.make, Obj.fresh] at h, by simp [Obj.getCode, Obj.make, Obj.fresh], by simp [Obj.make, Obj.fresh], rfl,
   by simp [Obj.make, Obj.fresh, akeys], by simp [Obj.make, Obj.fresh], by intro k hk; simp [Obj.make, Obj.fresh] at hk⟩

/-! ### getOrNew on both sides -/

theorem getOrNew_spec {s s0 s1 : Impl} {r : Ref} {w0 : RWorld} {es : List Entry} (st : Step s s0 r w0 es)
    (a : Addr) (o : Obj) (hg : s0.getOrNew a = some (s1, o)) :
    ∃ es1, Step s s1 r (w0.getOrNew a).1 (es ++ es1) ∧ alookup a s1.objs = some o ∧ o.addr = a ∧
      ObjOK s.store o ∧ viewObj s.store o = viewR (w0.getOrNew a).2 ∧ (w0.getOrNew a).1.get a = some (w0.getOrNew a).2 ∧
      SameRest s0 s1 := by
  unfold Impl.getOrNew at hg
  cases hgo : s0.getObj a with
  | mk sa ro =>
    have hs := getObj_spec s0 st.cinv a sa ro hgo
    simp only [hgo] at hg
    cases ro with
    | some o0 =>
      cases hg
      have ho := hs.2.2.2.2 o rfl
      have hv : s0.view a = (w0.get a).map viewR := view_eq_get st.abs a
      rw [ho.2.2.2] at hv
      cases hw : w0.get a with
      | none => rw [hw] at hv; cases hv
      | some x =>
        rw [hw] at hv
        simp only [Option.map_some, Option.some.injEq] at hv
        have hgn : w0.getOrNew a = (w0, x) := by simp [RWorld.getOrNew, hw]
        rw [hgn]
        refine ⟨[], ?_, ho.1, ho.2.1, ?_, ?_, hw, ?_⟩
        · rw [List.append_nil]; exact st.sameAbs hs.1 hs.2.1 hs.2.2.1 (getObj_okOf s0 _ st.cinv a _ hgo)
        · rw [← st.store]; exact ho.2.2.1
        · rw [← st.store]; exact hv
        · exact hs.2.1.toRest
    | none =>
      have hvn : s0.view a = none := hs.2.2.2.1 rfl
      have hvn' : sa.view a = none := by rw [hs.2.2.1]; exact hvn
      -- createObject looks the account up again
      simp only [Impl.createObject] at hg
      cases hgo2 : sa.getObj a with
      | mk sb rb =>
        have hs2 := getObj_spec sa hs.1 a sb rb hgo2
        simp only [hgo2] at hg
        cases rb with
        | some ob =>
          have := (hs2.2.2.2.2 ob rfl).2.2.2
          rw [hvn'] at this; cases this
        | none =>
          cases hj : sb.jappend (Entry.createObject a) with
          | none => simp [hj] at hg
          | some sc =>
            simp only [hj, Option.map_some] at hg
            cases hg
            have hjs := jappend_spec sb sc _ hj
            have hsb : SameBut s0 sb := hs.2.1.trans hs2.2.1
            have hvb : sb.view = s0.view := hs2.2.2.1.trans hs.2.2.1
            have hstore : sb.store = s.store := hsb.store.trans st.store
            have hun := view_none_uncached s0 st.cinv a hvn
            have hsv : s.store.view a = none := by rw [← st.store]; exact hun.2
            have hbal : sb.store.balOf a = 0 := by rw [hstore]; exact (store_view_none _ a hsv).2
            rw [hbal]
            have hw : w0.get a = none := by
              have hv : s0.view a = (w0.get a).map viewR := view_eq_get st.abs a
              rw [hvn] at hv
              cases hw : w0.get a with
              | none => rfl
              | some x => rw [hw] at hv; cases hv
            have hgn : w0.getOrNew a = (w0.put a (RAcct.fresh 0), RAcct.fresh 0) := by simp [RWorld.getOrNew, hw]
            rw [hgn]
            have hcc : CInv sc := jappend_cinv sb sc _ hj hs2.1
            have hfok : ObjOK sc.store (Obj.make a 0) := objOK_make _ _ _
            have hvf : viewObj s.store (Obj.make a 0) = viewR (RAcct.fresh 0) := viewObj_make s.store a 0
            have habs : absI (sc.setObj (Obj.make a 0)) = absR (w0.put a (RAcct.fresh 0)) := by
              rw [absI_setObj sc _ rfl, absR_put, ← st.abs]
              have : absI sc = absI s0 := by
                have h1 : absI sc = absI sb := by
                  simp only [absI, jappend_view sb sc _ hj, hjs.2.2.2.2.2.1, hjs.2.2.2.2.2.2.2.1,
                    hjs.2.2.2.2.2.2.2.2.1, hjs.2.2.2.2.2.2.2.2.2.1, hjs.2.2.2.2.2.2.2.2.2.2]
                rw [h1, absI_of_sameBut hsb hvb]
              rw [this, hjs.2.2.1, hstore, hvf]
              rfl
            refine ⟨[Entry.createObject a], ?_, by simp [Impl.setObj, Obj.make, Obj.fresh], rfl, objOK_make _ _ _, hvf,
              by simp [RWorld.get, RWorld.put], ?_⟩
            have hundoC : Entry.undo s.store (Entry.createObject a) (absI (sc.setObj (Obj.make a 0))) = absI s0 := by
              rw [habs, absR_put, ← st.abs]
              simp only [Entry.undo, updF_updF]
              have : (absI s0).acct a = none := hvn
              rw [← this, updF_self]
            · refine ⟨setObj_cinv sc hcc _ hfok, ?_, ?_, ?_, ?_, ?_, ?_, habs, ?_, ?_, ?_, ?_, ?_, ?_, ?_⟩
              · show sc.store = s.store
                rw [hjs.2.2.1]; exact hstore
              · show sc.journal.entries = _
                rw [hjs.1, hsb.journal, st.entries, List.append_assoc]
              · show sc.revisions = _
                rw [hjs.2.2.2.1, hsb.revisions, st.revisions]
              · show sc.nextRev = _
                rw [hjs.2.2.2.2.1, hsb.nextRev, st.nextRev]
              · show sc.thash = _
                rw [hjs.2.2.2.2.2.2.1, hsb.thash, st.thash]
              · exact entriesOK_append.mpr ⟨st.static, by intro e he; simp at he; subst he; exact hsv⟩
              · rw [List.reverse_append, undoAbs_append]
                simp only [List.reverse_cons, List.reverse_nil, List.nil_append, undoAbs]
                have : Entry.undo s.store (Entry.createObject a) (absI (sc.setObj (Obj.make a 0))) = absI s0 := by
                  rw [habs, absR_put, ← st.abs]
                  simp only [Entry.undo, updF_updF]
                  have : (absI s0).acct a = none := hvn
                  rw [← this, updF_self]
                rw [this]; exact st.undo
              · intro b
                simp only [RWorld.put, List.mem_append, List.mem_singleton, List.filterMap_append, st.touched b]
                simp [Entry.dirtied, or_assoc]
              · intro b hb
                simp only [RWorld.put, List.mem_append, List.mem_singleton, not_or] at hb
                rw [RWorld.view_put, updF_ne _ _ _ _ hb.2]
                exact st.tc b hb.1
              · exact nodup_akeys_upsert _ _ _ st.nodup
              · rw [List.reverse_append]
                show JOK s.store _ (Entry.createObject a :: es.reverse)
                exact ⟨trivial, by rw [hundoC]; exact st.jok⟩
              · show JCnt sc.journal
                rw [jappend_journal sb sc _ hj, hsb.journal]
                exact st.cnt.append _
              · show OOK (sc.setObj (Obj.make a 0)).okOf sc.journal.entries.reverse
                rw [hjs.1, hsb.journal, List.reverse_append]
                refine ⟨trivial, OOK_mono _ ?_ st.ook⟩
                intro b k hb
                have hb1 := getObj_okOf sa sb hs.1 a _ hgo2 b k (getObj_okOf s0 sa st.cinv a _ hgo b k hb)
                simp only [undoF, updF]
                by_cases hba : b = a
                · subst hba
                  simp [Impl.okOf, hun.1] at hb
                · simp only [hba, if_false, okOf_setObj, Obj.make, Obj.fresh]
                  simpa [Impl.okOf, hjs.2.1] using hb1
            · exact (hsb.toRest.trans (jappend_sameRest sb sc _ hj)).trans (setObj_sameRest sc _)

/-! ### appending several entries, then replacing the object of one address -/

def Impl.jappends (s : Impl) : List Entry → Option Impl
  | [] => some s
  | e :: t => (s.jappend e).bind fun s1 => s1.jappends t

theorem jappends_spec : ∀ (el : List Entry) (s s1 : Impl), s.jappends el = some s1 →
    s1.journal.entries = s.journal.entries ++ el ∧ s1.objs = s.objs ∧ SameRest s s1 := by
  intro el
  induction el with
  | nil => intro s s1 h; simp [Impl.jappends] at h; subst h; exact ⟨by simp, rfl, SameRest.refl s⟩
  | cons e t ih =>
    intro s s1 h
    simp only [Impl.jappends] at h
    cases hj : s.jappend e with
    | none => simp [hj] at h
    | some s2 =>
      simp only [hj, Option.bind_some] at h
      have h2 := ih s2 s1 h
      have hs := jappend_spec s s2 e hj
      exact ⟨by rw [h2.1, hs.1, List.append_assoc]; rfl, h2.2.1.trans hs.2.1, (jappend_sameRest s s2 e hj).trans h2.2.2⟩

theorem jappends_view (el : List Entry) (s s1 : Impl) (h : s.jappends el = some s1) : s1.view = s.view := by
  have hs := jappends_spec el s s1 h
  funext a
  simp [Impl.view, hs.2.1, hs.2.2.store]

theorem jappends_cinv (el : List Entry) (s s1 : Impl) (h : s.jappends el = some s1) (hc : CInv s) : CInv s1 := by
  have hs := jappends_spec el s s1 h
  refine ⟨?_, ?_, ?_⟩
  · intro a o ha; rw [hs.2.1] at ha; rw [hs.2.2.store]; exact hc.objs a o ha
  · rw [hs.2.1]; exact hc.nodup
  · rw [hs.2.2.store]; exact hc.store

theorem jappends_cnt : ∀ (el : List Entry) (s s1 : Impl), s.jappends el = some s1 → JCnt s.journal → JCnt s1.journal := by
  intro el
  induction el with
  | nil => intro s s1 h hc; simp [Impl.jappends] at h; subst h; exact hc
  | cons e t ih =>
    intro s s1 h hc
    simp only [Impl.jappends] at h
    cases hj : s.jappend e with
    | none => simp [hj] at h
    | some s2 =>
      simp only [hj, Option.bind_some] at h
      exact ih s2 s1 h (by rw [jappend_journal s s2 e hj]; exact hc.append e)

theorem Step.mutate {s s1 s2 : Impl} {r : Ref} {w1 : RWorld} {es : List Entry} (st : Step s s1 r w1 es)
    (a : Addr) (o : Obj) (hacct : s1.view a = some (viewObj s.store o))
    (el : List Entry) (hj : s1.jappends el = some s2)
    (hd : ∀ b, b ∈ el.filterMap Entry.dirtied ↔ b = a) (hstatic : EntriesOK s.store el)
    (o' : Obj) (x' : RAcct) (haddr : o'.addr = a) (hok : ObjOK s.store o') (hview' : viewObj s.store o' = viewR x')
    (hundo : ∀ W : AW, undoAbs s.store el.reverse { W with acct := updF W.acct a (some (viewObj s.store o')) } =
        { W with acct := updF W.acct a (some (viewObj s.store o)) })
    (hlive : ∀ W : AW, JOK s.store { W with acct := updF W.acct a (some (viewObj s.store o')) } el.reverse)
    (hook : OOK (fun b k => if b = a then (alookup k o'.origin).isSome else s1.okOf b k)
      (el.reverse ++ s1.journal.entries.reverse)) :
    Step s (s2.setObj o') r (w1.put a x') (es ++ el) := by
  have hjs := jappends_spec el s1 s2 hj
  have hst2 : s2.store = s.store := hjs.2.2.store.trans st.store
  have hc2 : CInv s2 := jappends_cinv el s1 s2 hj st.cinv
  have habs2 : absI s2 = absI s1 := absI_of_sameRest hjs.2.2 (jappends_view el s1 s2 hj)
  have habs : absI (s2.setObj o') = absR (w1.put a x') := by
    rw [absI_setObj s2 o' hok.live, absR_put, habs2, st.abs, haddr, hst2, hview']
  have hacct' : (absI s1).acct a = some (viewObj s.store o) := hacct
  refine ⟨setObj_cinv s2 hc2 o' (by rw [hst2]; exact hok), hst2, ?_, ?_, ?_, ?_, ?_, habs, ?_, ?_, ?_, ?_, ?_, ?_, ?_⟩
  · show s2.journal.entries = _
    rw [hjs.1, st.entries, List.append_assoc]
  · exact hjs.2.2.revisions.trans st.revisions
  · exact hjs.2.2.nextRev.trans st.nextRev
  · exact hjs.2.2.thash.trans st.thash
  · exact entriesOK_append.mpr ⟨st.static, hstatic⟩
  · rw [List.reverse_append, undoAbs_append, absI_setObj s2 o' hok.live, habs2, haddr, hst2, hundo]
    have : (absI s1).acct a = some (viewObj s.store o) := hacct
    rw [← this, updF_self]
    exact st.undo
  · intro b
    simp only [RWorld.put, List.mem_append, List.mem_singleton, List.filterMap_append, st.touched b, hd b, or_assoc]
  · intro b hb
    simp only [RWorld.put, List.mem_append, List.mem_singleton, not_or] at hb
    rw [RWorld.view_put, updF_ne _ _ _ _ hb.2]
    exact st.tc b hb.1
  · exact nodup_akeys_upsert _ _ _ st.nodup
  · rw [List.reverse_append, JOK_append, absI_setObj s2 o' hok.live, habs2, haddr, hst2, hundo]
    refine ⟨hlive _, ?_⟩
    rw [← hacct', updF_self]
    exact st.jok
  · show JCnt s2.journal
    exact jappends_cnt el s1 s2 hj st.cnt
  · show OOK (s2.setObj o').okOf s2.journal.entries.reverse
    rw [hjs.1, List.reverse_append]
    refine OOK_mono _ ?_ hook
    intro b k hb
    rw [okOf_setObj, haddr]
    by_cases hba : b = a
    · simp only [hba, if_true] at hb ⊢; exact hb
    · simp only [hba, if_false] at hb ⊢
      simpa [Impl.okOf, hjs.2.1] using hb

/-- the usual case of `Step.mutate`'s last hypothesis: plain entries, the new object keeps the
    cached originals of the one it replaces, storage entries are about cached slots -/
theorem ook_plain_mutate {s1 : Impl} (a : Addr) (o o' : Obj) (el : List Entry)
    (hobj : alookup a s1.objs = some o)
    (horig : ∀ k, (alookup k o.origin).isSome = true → (alookup k o'.origin).isSome = true)
    (hel : ∀ e ∈ el, e.plain = true ∧
      EntrySupp (fun b k => if b = a then (alookup k o'.origin).isSome else s1.okOf b k) e)
    (hook : OOK s1.okOf s1.journal.entries.reverse) :
    OOK (fun b k => if b = a then (alookup k o'.origin).isSome else s1.okOf b k)
      (el.reverse ++ s1.journal.entries.reverse) := by
  refine OOK_plain el.reverse _ _ (fun e he => hel e (List.mem_reverse.mp he)) (OOK_mono _ ?_ hook)
  intro b k hb
  by_cases hba : b = a
  · simp only [hba, if_true]
    rw [hba, okOf_cached s1 a o k hobj] at hb
    exact horig k hb
  · simp only [hba, if_false]; exact hb

/-- undoing a single field-restoring entry -/
theorem undo_mod (st : Store) (e : Entry) (a : Addr) (f : AView → AView) (v v' : AView)
    (he : ∀ W : AW, e.undo st W = W.modAcct a f) (hf : f v' = v) (W : AW) :
    undoAbs st [e] { W with acct := updF W.acct a (some v') } = { W with acct := updF W.acct a (some v) } := by
  simp only [undoAbs, he, AW.modAcct, updF_same, Option.map_some, updF_updF, hf]

end OLP.Evm

/-
  C16 — a decidable check that a reference world holds the accounts the records describe
  (helpers for Props/C16.lean).
-/
import OLP.Evm.LemmasStep

namespace OLP.Evm

/-- the slots of `a` that have a storage record -/
def Store.keysAt (st : Store) (a : Addr) : List Key := (st.stor.filter fun x => x.1.1 == a).map (·.1.2)

theorem slot_zero_of_not_keysAt (st : Store) (a : Addr) (k : Key) (h : k ∉ st.keysAt a) : st.slot a k = 0 := by
  unfold Store.slot
  cases hl : alookup (a, k) st.stor with
  | none => rfl
  | some v =>
    exfalso
    apply h
    have hm := alookup_mem _ _ _ hl
    simp only [Store.keysAt, List.mem_map, List.mem_filter]
    exact ⟨((a, k), v), ⟨hm, by simp⟩, rfl⟩

theorem rslot_zero (l : List (Key × Val)) (k : Key) (h : k ∉ akeys l) : (alookup k l).getD 0 = 0 := by
  rw [not_mem_akeys_alookup l k h]; rfl

/-- the account of the records at `a` is `x` -/
def sameAcct (st : Store) (a : Addr) (x : RAcct) : Bool :=
  match st.getAccount a with
  | none => false
  | some o =>
    o.nonce == x.nonce && o.bal == x.bal && o.codeHash == x.code && o.getCode st == x.code && !x.suicided &&
    ((st.keysAt a ++ akeys x.stor ++ akeys x.cstor).all fun k => st.slot a k == x.slot k && st.slot a k == x.cslot k)

/-- decidable: the world `w0` holds exactly the accounts of the records -/
def sameStartb (st : Store) (w0 : List (Addr × RAcct)) : Bool :=
  decide (akeys w0).Nodup && (w0.all fun ax => sameAcct st ax.1 ax.2) &&
  ((akeys st.acct ++ akeys st.bal).all fun a => (st.getAccount a).isNone || (alookup a w0).isSome)

theorem getAccount_none_of_not_mem (st : Store) (a : Addr) (h1 : a ∉ akeys st.acct) (h2 : a ∉ akeys st.bal) :
    st.getAccount a = none := by
  simp [Store.getAccount, not_mem_akeys_alookup _ _ h1, Store.balOf, not_mem_akeys_alookup _ _ h2]

theorem sameAcct_view (st : Store) (a : Addr) (x : RAcct) (h : sameAcct st a x = true) : st.view a = some (viewR x) := by
  unfold sameAcct at h
  cases hg : st.getAccount a with
  | none => simp [hg] at h
  | some o =>
    simp only [hg, Bool.and_eq_true, beq_iff_eq, Bool.not_eq_true', List.all_eq_true] at h
    obtain ⟨⟨⟨⟨⟨h1, h2⟩, h3⟩, h4⟩, h5⟩, h6⟩ := h
    have hf := getAccount_addr st a o hg
    simp only [Store.view, hg, Option.map_some, Option.some.injEq, viewObj, viewR, AView.mk.injEq]
    have hslots : ∀ k, st.slot a k = x.slot k ∧ st.slot a k = x.cslot k := by
      intro k
      by_cases hk : k ∈ st.keysAt a ++ akeys x.stor ++ akeys x.cstor
      · exact h6 k hk
      · simp only [List.mem_append, not_or] at hk
        rw [slot_zero_of_not_keysAt st a k hk.1.1]
        exact ⟨(rslot_zero x.stor k hk.1.2).symm, (rslot_zero x.cstor k hk.2).symm⟩
    refine ⟨h1, h2, h3, h4, ?_, ?_, by rw [hf.2.2.2.2.2.1, h5]⟩
    · funext k
      simp only [Obj.slotView, hf.2.2.1, alookup, hf.1]
      exact (hslots k).1
    · funext k
      rw [hf.1]; exact (hslots k).2

theorem sameStartb_sound (st : Store) (w0 : List (Addr × RAcct)) (h : sameStartb st w0 = true) :
    (akeys w0).Nodup ∧ ∀ a, st.view a = (alookup a w0).map viewR := by
  simp only [sameStartb, Bool.and_eq_true, decide_eq_true_eq, List.all_eq_true] at h
  obtain ⟨⟨hnd, hall⟩, hcov⟩ := h
  refine ⟨hnd, ?_⟩
  intro a
  cases hl : alookup a w0 with
  | some x =>
    have := hall (a, x) (alookup_mem _ _ _ hl)
    rw [sameAcct_view st a x this]; rfl
  | none =>
    simp only [Option.map_none, Store.view, Option.map_eq_none_iff]
    by_cases hm : a ∈ akeys st.acct ++ akeys st.bal
    · have := hcov a hm
      simp only [hl, Option.isSome_none, Bool.or_false, Option.isNone_iff_eq_none] at this
      exact this
    · simp only [List.mem_append, not_or] at hm
      exact getAccount_none_of_not_mem st a hm.1 hm.2

end OLP.Evm

/-
  C16 — a decidable check that a reference world holds the accounts the records describe
  (helpers for Props/C16.lean).
-/
import OLP.Evm.LemmasStep

namespace OLP.Evm

/-- the slots of `a` that have a storage record -/
def Store.keysAt (st : Store) (a : Addr) : List Key := (st.stor.filter fun x => x.1.1 == a).map (·.1.2)

theorem slot_zero_of_not_keysAt (st : Store) (a : Addr) (k : Key) (h : k ∉ st.keysAt a) : st.slot a k = 0 := by
  unfold Store.slot
  cases hl : alookup (a, k) st.stor with
  | none => rfl
  | some v =>
    exfalso
    apply h
    have hm := alookup_mem _ _ _ hl
    simp only [Store.keysAt, List.mem_map, List.mem_filter]
    exact ⟨((a, k), v), ⟨hm, by simp⟩, rfl⟩

theorem rslot_zero (l : List (Key × Val)) (k : Key) (h : k ∉ akeys l) : (alookup k l).getD 0 = 0 := by
  rw [not_mem_akeys_alookup l k h]; rfl

/-- the account of the records at `a` is `x` -/
def sameAcct (st : Store) (a : Addr) (x : RAcct) : Bool :=
  match st.getAccount a with
  | none => false
  | some o =>
    o.nonce == x.nonce && o.bal == x.bal && o.codeHash == x.code && o.getCode st == x.code && !x.suicided &&
    ((st.keysAt a ++ akeys x.stor ++ akeys x.cstor).all fun k => st.slot a k == x.slot k && st.slot a k == x.cslot k)

/-- decidable: the world `w0` holds exactly the accounts of the records -/
def sameStartb (st : Store) (w0 : List (Addr × RAcct)) : Bool :=
  decide (akeys w0).Nodup && (w0.all fun ax => sameAcct st ax.1 ax.2) &&
  ((akeys st.acct ++ akeys st.bal).all fun a => (st.getAccount a).isNone || (alookup a w0).isSome)

theorem getAccount_none_of_not_mem (st : Store) (a : Addr) (h1 : a ∉ akeys st.acct) (h2 : a ∉ akeys st.bal) :
    st.getAccount a = none := by
  simp [Store.getAccount, not_mem_akeys_alookup _ _ h1, Store.balOf, not_mem_akeys_alookup _ _ h2]

theorem sameAcct_view (st : Store) (a : Addr) (x : RAcct) (h : sameAcct st a x = true) : st.view a = some (viewR x) := by
  unfold sameAcct at h
  cases hg : st.getAccount a with
  | none => simp [hg] at h
  | some o =>
    simp only [hg, Bool.and_eq_true, beq_iff_eq, Bool.not_eq_true', List.all_eq_true] at h
    obtain ⟨⟨⟨⟨⟨h1, h2⟩, h3⟩, h4⟩, h5⟩, h6⟩ := h
    have hf := getAccount_addr st a o hg
    simp only [Store.view, hg, Option.map_some, Option.some.injEq, viewObj, viewR, AView.mk.injEq]
    have hslots : ∀ k, st.slot a k = x.slot k ∧ st.slot a k = x.cslot k := by
      intro k
      by_cases hk : k ∈ st.keysAt a ++ akeys x.stor ++ akeys x.cstor
      · exact h6 k hk
      · simp only [List.mem_append, not_or] at hk
        rw [slot_zero_of_not_keysAt st a k hk.1.1]
        exact ⟨(rslot_zero x.stor k hk.1.2).symm, (rslot_zero x.cstor k hk.2).symm⟩
    refine ⟨h1, h2, h3, h4, ?_, ?_, by rw [hf.2.2.2.2.2.1, h5]⟩
    · funext k
      simp only [Obj.slotView, hf.2.2.1, alookup, base_loaded st a o hg]
      exact (hslots k).1
    · funext k
      rw [base_loaded st a o hg]; exact (hslots k).2

theorem sameStartb_sound (st : Store) (w0 : List (Addr × RAcct)) (h : sameStartb st w0 = true) :
    (akeys w0).Nodup ∧ ∀ a, st.view a = (alookup a w0).map viewR := by
  simp only [sameStartb, Bool.and_eq_true, decide_eq_true_eq, List.all_eq_true] at h
  obtain ⟨⟨hnd, hall⟩, hcov⟩ := h
  refine ⟨hnd, ?_⟩
  intro a
  cases hl : alookup a w0 with
  | some x =>
    have := hall (a, x) (alookup_mem _ _ _ hl)
    rw [sameAcct_view st a x this]; rfl
  | none =>
    simp only [Option.map_none, Store.view, Option.map_eq_none_iff]
    by_cases hm : a ∈ akeys st.acct ++ akeys st.bal
    · have := hcov a hm
      simp only [hl, Option.isSome_none, Bool.or_false, Option.isNone_iff_eq_none] at this
      exact this
    · simp only [List.mem_append, not_or] at hm
      exact getAccount_none_of_not_mem st a hm.1 hm.2

/-! ### the records change in `Finalise` only -/

theorem getObj_store (s : Impl) (a : Addr) : (s.getObj a).1.store = s.store := by
  unfold Impl.getObj
  split
  · split <;> rfl
  · split <;> rfl

theorem getObj_store' {s s1 : Impl} {a : Addr} {ro : Option Obj} (h : s.getObj a = (s1, ro)) : s1.store = s.store := by
  have := getObj_store s a
  rw [h] at this; exact this

theorem createObject_store {s : Impl} {a : Addr} {x : Impl × Obj × Option Obj} (h : s.createObject a = some x) :
    x.1.store = s.store := by
  unfold Impl.createObject at h
  cases hg : s.getObj a with
  | mk s1 prev =>
    simp only [hg, Impl.jappend, Option.map_some, Option.some.injEq] at h
    subst h
    exact (getObj_store' hg : s1.store = s.store)

theorem getOrNew_store {s : Impl} {a : Addr} {x : Impl × Obj} (h : s.getOrNew a = some x) : x.1.store = s.store := by
  unfold Impl.getOrNew at h
  cases hg : s.getObj a with
  | mk s1 ro =>
    have hs1 := getObj_store' hg
    simp only [hg] at h
    cases ro with
    | some o => simp only [Option.some.injEq] at h; subst h; exact hs1
    | none =>
      simp only at h
      cases hc : s1.createObject a with
      | none => simp [hc] at h
      | some y =>
        simp only [hc, Option.map_some, Option.some.injEq] at h
        subst h
        exact (createObject_store hc).trans hs1

theorem objSetBalance_store {s s' : Impl} {o : Obj} {n : Nat} (h : s.objSetBalance o n = some s') : s'.store = s.store := by
  simp only [Impl.objSetBalance, Impl.jappend, Option.map_some, Option.some.injEq] at h
  subst h; rfl

theorem createAccount_store {s s' : Impl} {a : Addr} (h : s.createAccount a = some s') : s'.store = s.store := by
  unfold Impl.createAccount at h
  cases hc : s.createObject a with
  | none => simp [hc] at h
  | some x =>
    obtain ⟨s1, newObj, pv⟩ := x
    have hs1 : s1.store = s.store := createObject_store hc
    simp only [hc] at h
    cases pv with
    | none => simp only [Option.some.injEq] at h; subst h; exact hs1
    | some p => exact (objSetBalance_store h).trans hs1

theorem touch_store {c : Cfg} {s s' : Impl} {a : Addr} (h : s.touch c a = some s') : s'.store = s.store := by
  simp only [Impl.touch, Impl.jappend] at h
  split at h <;> (simp only [Option.some.injEq] at h; subst h; rfl)

theorem addBalance_store {c : Cfg} {s s' : Impl} {a : Addr} {n : Nat} (h : s.addBalance c a n = some s') :
    s'.store = s.store := by
  unfold Impl.addBalance at h
  cases hg : s.getOrNew a with
  | none => simp [hg] at h
  | some p =>
    obtain ⟨s1, o⟩ := p
    have hs1 : s1.store = s.store := getOrNew_store hg
    simp only [hg] at h
    by_cases hn : n = 0
    · simp only [hn, if_true] at h
      by_cases he : o.empty = true
      · simp only [he, if_true] at h; exact (touch_store h).trans hs1
      · simp only [he, Bool.false_eq_true, if_false, Option.some.injEq] at h; subst h; exact hs1
    · simp only [hn, if_false, Impl.jappend, Option.map_some, Option.some.injEq] at h
      subst h; exact hs1

theorem subBalance_store {s s' : Impl} {a : Addr} {n : Nat} (h : s.subBalance a n = some s') : s'.store = s.store := by
  unfold Impl.subBalance at h
  cases hg : s.getOrNew a with
  | none => simp [hg] at h
  | some p =>
    obtain ⟨s1, o⟩ := p
    have hs1 : s1.store = s.store := getOrNew_store hg
    simp only [hg] at h
    by_cases hn : n = 0
    · simp only [hn, if_true, Option.some.injEq] at h; subst h; exact hs1
    · simp only [hn, if_false, Impl.jappend] at h
      by_cases hgt : n > o.bal
      · simp [hgt] at h
      · simp only [hgt, if_false, Option.some.injEq] at h; subst h; exact hs1

theorem setNonce_store {s s' : Impl} {a : Addr} {n : Nat} (h : s.setNonce a n = some s') : s'.store = s.store := by
  unfold Impl.setNonce at h
  cases hg : s.getOrNew a with
  | none => simp [hg] at h
  | some p =>
    obtain ⟨s1, o⟩ := p
    simp only [hg, Impl.jappend, Option.map_some, Option.some.injEq] at h
    subst h; exact getOrNew_store hg

theorem setCode_store {s s' : Impl} {a : Addr} {code : Code} (h : s.setCode a code = some s') : s'.store = s.store := by
  unfold Impl.setCode at h
  cases hg : s.getOrNew a with
  | none => simp [hg] at h
  | some p =>
    obtain ⟨s1, o⟩ := p
    simp only [hg, Impl.jappend, Option.map_some, Option.some.injEq] at h
    subst h; exact getOrNew_store hg

theorem setState_store {s s' : Impl} {a : Addr} {k : Key} {v : Val} (h : s.setState a k v = some s') : s'.store = s.store := by
  unfold Impl.setState at h
  cases hg : s.getOrNew a with
  | none => simp [hg] at h
  | some p =>
    obtain ⟨s1, o⟩ := p
    have hs1 : s1.store = s.store := getOrNew_store hg
    simp only [hg] at h
    cases hgs : o.getState s1.store k with
    | mk o1 prev =>
      simp only [hgs] at h
      by_cases hp : prev = v
      · simp only [hp, if_true, Option.some.injEq] at h; subst h; exact hs1
      · simp only [hp, if_false, Impl.jappend, Option.map_some, Option.some.injEq] at h; subst h; exact hs1

theorem suicide_store {s s' : Impl} {a : Addr} {b : Bool} (h : s.suicide a = some (s', b)) : s'.store = s.store := by
  unfold Impl.suicide at h
  cases hg : s.getObj a with
  | mk s1 ro =>
    have hs1 := getObj_store' hg
    simp only [hg] at h
    cases ro with
    | none => simp only [Option.some.injEq, Prod.mk.injEq] at h; rw [← h.1]; exact hs1
    | some o =>
      simp only [Impl.jappend, Impl.objSetBalance, Option.map_some, Option.some.injEq, Prod.mk.injEq] at h
      rw [← h.1]; exact hs1

theorem revertEntry_store {s s' : Impl} {e : Entry} (h : s.revertEntry e = some s') : s'.store = s.store := by
  have hmod : ∀ a (f : Obj → Obj),
      (match s.getObj a with | (_, none) => none | (s1, some o) => some (s1.setObj (f o))) = some s' → s'.store = s.store := by
    intro a f hm
    cases hg : s.getObj a with
    | mk s1 ro =>
      simp only [hg] at hm
      cases ro with
      | none => simp at hm
      | some o => simp only [Option.some.injEq] at hm; subst hm; exact (getObj_store' hg : s1.store = s.store)
  cases e with
  | createObject a => simp only [Impl.revertEntry, Option.some.injEq] at h; subst h; rfl
  | resetObject prev => simp only [Impl.revertEntry, Option.some.injEq] at h; subst h; rfl
  | suicide a p pb =>
    simp only [Impl.revertEntry] at h
    cases hg : s.getObj a with
    | mk s1 ro =>
      simp only [hg] at h
      cases ro with
      | none => simp only [Option.some.injEq] at h; subst h; exact getObj_store' hg
      | some o => simp only [Option.some.injEq] at h; subst h; exact (getObj_store' hg : s1.store = s.store)
  | balance a p => exact hmod a (fun o => { o with bal := p }) h
  | nonce a p => exact hmod a (fun o => { o with nonce := p }) h
  | storage a k p => exact hmod a (fun o => o.setStateRaw k p) h
  | code a pc ph => exact hmod a (fun o => o.setCodeRaw ph pc) h
  | refund p => simp only [Impl.revertEntry, Option.some.injEq] at h; subst h; rfl
  | addLog hh =>
    simp only [Impl.revertEntry] at h
    cases hlk : alookup hh s.logs with
    | none => simp [hlk] at h
    | some l =>
      simp only [hlk] at h
      by_cases h0 : l.length = 0
      · simp [h0] at h
      · simp only [h0, if_false] at h
        by_cases h1 : l.length = 1
        · simp only [h1, if_true, Option.some.injEq] at h; subst h; rfl
        · simp only [h1, if_false, Option.some.injEq] at h; subst h; rfl
  | touch a => simp only [Impl.revertEntry, Option.some.injEq] at h; subst h; rfl
  | alAddr a => simp only [Impl.revertEntry, Option.some.injEq] at h; subst h; rfl
  | alSlot a k => simp only [Impl.revertEntry, Option.some.injEq] at h; subst h; rfl

theorem undoLast_store {s s' : Impl} (h : s.undoLast = some s') : s'.store = s.store := by
  unfold Impl.undoLast at h
  cases hl : s.journal.entries.getLast? with
  | none => simp only [hl, Option.some.injEq] at h; subst h; rfl
  | some e =>
    simp only [hl] at h
    cases hr : s.revertEntry e with
    | none => simp [hr] at h
    | some s1 => simp only [hr, Option.some.injEq] at h; subst h; exact (revertEntry_store hr : s1.store = s.store)

theorem revertTo_store (snap : Nat) : ∀ (n : Nat) (s s' : Impl), s.revertTo snap n = some s' → s'.store = s.store := by
  intro n
  induction n with
  | zero => intro s s' h; simp only [Impl.revertTo, Option.some.injEq] at h; subst h; rfl
  | succ n ih =>
    intro s s' h
    simp only [Impl.revertTo] at h
    by_cases hlen : s.journal.entries.length ≤ snap
    · simp only [hlen, if_true, Option.some.injEq] at h; subst h; rfl
    · simp only [hlen, if_false] at h
      cases hu : s.undoLast with
      | none => simp [hu] at h
      | some s1 => simp only [hu] at h; exact (ih s1 s' h).trans (undoLast_store hu)

theorem revertToSnapshot_store {s s' : Impl} {id : Nat} (h : s.revertToSnapshot id = some s') : s'.store = s.store := by
  unfold Impl.revertToSnapshot at h
  simp only at h
  cases hr : s.revisions[findRev s.revisions id]? with
  | none => simp [hr] at h
  | some x =>
    obtain ⟨rid, jidx⟩ := x
    simp only [hr] at h
    by_cases hid : rid ≠ id
    · simp [hid] at h
    · simp only [hid, if_false] at h
      cases hrt : s.revertTo jidx s.journal.entries.length with
      | none => simp [hrt] at h
      | some s1 => simp only [hrt, Option.map_some, Option.some.injEq] at h; subst h; exact revertTo_store jidx _ s s1 hrt

theorem orPanic_store (s : Impl) (ro : Option Impl) (h : ∀ s', ro = some s' → s'.store = s.store) :
    (orPanic s ro).1.store = s.store := by
  cases ro with
  | none => rfl
  | some s' => exact h s' rfl

theorem readObj_store (s : Impl) (a : Addr) (f : Impl → Option Obj → Impl × Out)
    (hf : ∀ s1 o, (f s1 o).1.store = s1.store) : (s.readObj a f).1.store = s.store := by
  unfold Impl.readObj
  cases hg : s.getObj a with
  | mk s1 ro => simp only; rw [hf]; exact getObj_store' hg

/-- every call but `Finalise` leaves the persistent records alone -/
theorem step_store (c : Cfg) (s : Impl) (op : Op) (hop : ∀ b, op ≠ .finalise b) : (s.step c op).1.store = s.store := by
  cases op with
  | createAccount a => exact orPanic_store s _ fun _ h => createAccount_store h
  | subBalance a n => exact orPanic_store s _ fun _ h => subBalance_store h
  | addBalance a n => exact orPanic_store s _ fun _ h => addBalance_store h
  | getBalance a => exact readObj_store s a _ fun _ _ => rfl
  | getNonce a => exact readObj_store s a _ fun _ _ => rfl
  | setNonce a n => exact orPanic_store s _ fun _ h => setNonce_store h
  | getCodeHash a => exact readObj_store s a _ fun _ _ => rfl
  | getCode a => exact readObj_store s a _ fun _ _ => rfl
  | setCode a code => exact orPanic_store s _ fun _ h => setCode_store h
  | getCodeSize a => exact readObj_store s a _ fun _ _ => rfl
  | addRefund n => simp only [Impl.step, Impl.jappend]
  | subRefund n =>
    simp only [Impl.step, Impl.jappend]
    split <;> rfl
  | getRefund => rfl
  | getCommittedState a k =>
    refine readObj_store s a _ fun s1 o => ?_
    cases o with
    | none => rfl
    | some o => rfl
  | getState a k =>
    refine readObj_store s a _ fun s1 o => ?_
    cases o with
    | none => rfl
    | some o => rfl
  | setState a k v => exact orPanic_store s _ fun _ h => setState_store h
  | suicide a =>
    simp only [Impl.step]
    cases hs : s.suicide a with
    | none => rfl
    | some p => obtain ⟨s1, b⟩ := p; exact suicide_store hs
  | hasSuicided a => exact readObj_store s a _ fun _ _ => rfl
  | exist a => exact readObj_store s a _ fun _ _ => rfl
  | empty a => exact readObj_store s a _ fun _ _ => rfl
  | addAddressToAccessList a =>
    refine orPanic_store s _ fun s' h => ?_
    simp only [Impl.alAddAddr, Impl.jappend] at h
    split at h <;> (simp only [Option.some.injEq] at h; subst h; rfl)
  | addSlotToAccessList a k =>
    refine orPanic_store s _ fun s' h => ?_
    simp only [Impl.alAddSlot, Impl.jappend] at h
    by_cases h1 : a ∈ s.alAddrs <;> by_cases h2 : (a, k) ∈ s.alSlots <;> simp [h1, h2] at h <;> (subst h; rfl)
  | addressInAccessList a => rfl
  | slotInAccessList a k => rfl
  | prepare h => rfl
  | addLog a p =>
    refine orPanic_store s _ fun s' h => ?_
    simp only [Impl.addLog, Impl.jappend, Option.map_some, Option.some.injEq] at h
    subst h; rfl
  | getLogs => rfl
  | snapshot => rfl
  | revertToSnapshot id => exact orPanic_store s _ fun _ h => revertToSnapshot_store h
  | finalise b => exact absurd rfl (hop b)
  | reset => rfl

end OLP.Evm

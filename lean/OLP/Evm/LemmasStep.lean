/-
  C16 — one interface call keeps the simulation (helpers for Props/C16.lean).
-/
import OLP.Evm.LemmasFin

namespace OLP.Evm

/-! ### Prepare, Reset -/

theorem all2_nil_left {α β : Type} {P : α → β → Prop} {l : List β} (h : All2 P [] l) : l = [] := by
  cases l with
  | nil => rfl
  | cons _ _ => exact h.elim

theorem sim_prepare {s : Impl} {r : Ref} (c : Cfg) (h : Sim s r) (th : Nat)
    (he : s.journal.entries = []) (hr : s.revisions = []) :
    Sim (s.prepare th) (r.step c (.prepare th)).1 := by
  have hf := abs_fields h
  have hstack : r.stack = [] := all2_nil_left (hr ▸ h.revs)
  simp only [Ref.step, Impl.prepare]
  refine ⟨⟨h.cinv.objs, h.cinv.nodup, h.cinv.store⟩, h.entries, ?_, rfl, h.nextRev, h.touched, h.tc, h.nodup, ?_, ?_, ?_, ?_, ?_, h.cnt, h.ook⟩
  · simp only [absI, absR, AW.mk.injEq]
    exact ⟨hf.1, hf.2.1, funext hf.2.2.1, hf.2.2.2.1, trivial, trivial⟩
  · show All2 _ s.revisions r.stack
    rw [hr, hstack]; trivial
  · exact h.idsLt
  · exact h.idsSorted
  · exact h.jSorted
  · show JOK s.store _ s.journal.entries.reverse
    rw [he]; trivial

theorem sim_reset {s : Impl} {r : Ref} (c : Cfg) (h : Sim s r) (he : s.journal.entries = []) :
    Sim s.reset (r.step c .reset).1 := by
  have hnt : ∀ a, a ∉ r.cur.touched := by
    intro a ha
    have := (h.touched a).mp ha
    rw [he] at this; simp at this
  simp only [Ref.step, Impl.reset, Impl.init]
  refine ⟨⟨by intro a o ha; simp at ha, by simp [akeys], h.cinv.store⟩, by intro e he; simp [Journal.new] at he, ?_, rfl, rfl,
    by intro a; simp [Journal.new], ?_, h.nodup, trivial, by intro x hx; simp at hx, by simp, by simp,
    by simp [Journal.new, JOK], JCnt.new, by simp [Journal.new, OOK]⟩
  · simp only [absI, absR, AW.mk.injEq]
    refine ⟨?_, trivial, by funext h'; simp, by simp, trivial, trivial⟩
    funext a
    show s.store.view a = r.cur.view a
    exact (h.tc a (hnt a)).symm
  · intro a _
    exact h.tc a (hnt a)

/-! ### the getters -/

theorem sim_getter {s : Impl} {r : Ref} (h : Sim s r) (a : Addr) (f : Impl → Option Obj → Impl × Out) (g : Option RAcct → Out)
    (hf : ∀ s1 ro, (f s1 ro).1 = s1)
    (hout : ∀ s1 ro, s1.store = s.store → (∀ o, ro = some o → ObjOK s.store o) →
      ro.map (viewObj s.store) = (r.cur.get a).map viewR → (f s1 ro).2 = g (r.cur.get a)) :
    (s.readObj a f).2 = g (r.cur.get a) ∧ Sim (s.readObj a f).1 r := by
  unfold Impl.readObj
  cases hg : s.getObj a with
  | mk s1 ro =>
    have hr := sim_read h a ro hg
    simp only
    refine ⟨hout s1 ro hr.2.2.1 (fun o ho => (hr.2.2.2 o ho).1) hr.2.1, ?_⟩
    rw [hf]; exact hr.1

/-- both sides present or both absent, with equal views -/
theorem opt_view_cases {st : Store} {ro : Option Obj} {rx : Option RAcct}
    (h : ro.map (viewObj st) = rx.map viewR) :
    (ro = none ∧ rx = none) ∨ (∃ o x, ro = some o ∧ rx = some x ∧ viewObj st o = viewR x) := by
  cases ro with
  | none =>
    cases rx with
    | none => exact Or.inl ⟨rfl, rfl⟩
    | some x => simp at h
  | some o =>
    cases rx with
    | none => simp at h
    | some x => simp at h; exact Or.inr ⟨o, x, rfl, rfl, h⟩

theorem sim_getCommitted {s : Impl} {r : Ref} (h : Sim s r) (a : Addr) (k : Key) :
    let f := fun (s1 : Impl) (o : Option Obj) =>
      match o with
      | some o => let (o1, v) := o.getCommitted s1.store k; (s1.setObj o1, Out.nat v)
      | none => (s1, Out.nat 0)
    (s.readObj a f).2 = .nat (match r.cur.get a with | some x => x.cslot k | none => 0) ∧
    Sim (s.readObj a f).1 r := by
  intro f
  unfold Impl.readObj
  cases hg : s.getObj a with
  | mk s1 ro =>
    have hr := sim_read h a ro hg
    have hs := getObj_spec s h.cinv a s1 ro hg
    simp only
    rcases opt_view_cases hr.2.1 with ⟨h1, h2⟩ | ⟨o, x, h1, h2, hv⟩
    · subst h1; rw [h2]; exact ⟨rfl, hr.1⟩
    · subst h1
      rw [h2]
      obtain ⟨hok, hobj, haddr⟩ := hr.2.2.2 o rfl
      have hst : Step s s1 r r.cur [] := (Step.refl h).sameAbs hs.1 hs.2.1 hs.2.2.1 (getObj_okOf s s1 h.cinv a _ hg)
      have hacct := hst.acct a o hobj hok
      simp only [f]
      cases hgc : o.getCommitted s1.store k with
      | mk o1 v =>
        have hgc' : o.getCommitted s.store k = (o1, v) := by rw [← hr.2.2.1]; exact hgc
        have hsp := getCommitted_spec s.store o o1 k v hok hgc'
        have hst2 := hst.recache a o o1 hacct hsp.2.1 hsp.2.2.1 (hsp.2.2.2.trans haddr) hobj
          (getCommitted_origin s.store o o1 k v hgc').2
        refine ⟨?_, h.step hst2⟩
        show Out.nat v = Out.nat (x.cslot k)
        rw [hsp.1, (view_fields hv).2.2.2.2.2.2 k]

theorem sim_getState {s : Impl} {r : Ref} (h : Sim s r) (a : Addr) (k : Key) :
    let f := fun (s1 : Impl) (o : Option Obj) =>
      match o with
      | some o => let (o1, v) := o.getState s1.store k; (s1.setObj o1, Out.nat v)
      | none => (s1, Out.nat 0)
    (s.readObj a f).2 = .nat (match r.cur.get a with | some x => x.slot k | none => 0) ∧
    Sim (s.readObj a f).1 r := by
  intro f
  unfold Impl.readObj
  cases hg : s.getObj a with
  | mk s1 ro =>
    have hr := sim_read h a ro hg
    have hs := getObj_spec s h.cinv a s1 ro hg
    simp only
    rcases opt_view_cases hr.2.1 with ⟨h1, h2⟩ | ⟨o, x, h1, h2, hv⟩
    · subst h1; rw [h2]; exact ⟨rfl, hr.1⟩
    · subst h1
      rw [h2]
      obtain ⟨hok, hobj, haddr⟩ := hr.2.2.2 o rfl
      have hst : Step s s1 r r.cur [] := (Step.refl h).sameAbs hs.1 hs.2.1 hs.2.2.1 (getObj_okOf s s1 h.cinv a _ hg)
      have hacct := hst.acct a o hobj hok
      simp only [f]
      cases hgc : o.getState s1.store k with
      | mk o1 v =>
        have hgc' : o.getState s.store k = (o1, v) := by rw [← hr.2.2.1]; exact hgc
        have hsp := getState_spec s.store o o1 k v hok hgc'
        have hst2 := hst.recache a o o1 hacct hsp.2.1 hsp.2.2.1 (hsp.2.2.2.trans haddr) hobj
          (getState_origin s.store o o1 k v hok hgc').2
        refine ⟨?_, h.step hst2⟩
        show Out.nat v = Out.nat (x.slot k)
        rw [hsp.1, (view_fields hv).2.2.2.2.2.1 k]

/-! ### every interface call -/

theorem withCur_cur (r : Ref) : r.withCur r.cur = r := rfl

/-! ### the state-changing calls never fail (but for the shared panics) -/

theorem createObject_total (s : Impl) (a : Addr) : ∃ x, s.createObject a = some x := by
  simp only [Impl.createObject, Impl.jappend, Option.map_some]
  exact ⟨_, rfl⟩

theorem getOrNew_total (s : Impl) (a : Addr) : ∃ x, s.getOrNew a = some x := by
  unfold Impl.getOrNew
  cases hg : s.getObj a with
  | mk s1 ro =>
    cases ro with
    | some o => exact ⟨_, rfl⟩
    | none =>
      obtain ⟨x, hx⟩ := createObject_total s1 a
      simp only [hx, Option.map_some]
      exact ⟨_, rfl⟩

theorem createAccount_total (s : Impl) (a : Addr) : ∃ x, s.createAccount a = some x := by
  unfold Impl.createAccount
  obtain ⟨⟨s1, newObj, pv⟩, hx⟩ := createObject_total s a
  rw [hx]
  cases pv with
  | none => exact ⟨_, rfl⟩
  | some p => simp only [Impl.objSetBalance, Impl.jappend, Option.map_some]; exact ⟨_, rfl⟩

theorem setNonce_total (s : Impl) (a : Addr) (n : Nat) : ∃ x, s.setNonce a n = some x := by
  unfold Impl.setNonce
  obtain ⟨⟨s1, o⟩, hx⟩ := getOrNew_total s a
  simp only [hx, Impl.jappend, Option.map_some]
  exact ⟨_, rfl⟩

theorem addBalance_total (c : Cfg) (s : Impl) (a : Addr) (n : Nat) : ∃ x, s.addBalance c a n = some x := by
  unfold Impl.addBalance
  obtain ⟨⟨s1, o⟩, hx⟩ := getOrNew_total s a
  simp only [hx]
  by_cases hn : n = 0
  · simp only [hn, if_true]
    by_cases he : o.empty = true
    · simp only [he, if_true, Impl.touch, Impl.jappend]
      by_cases hr : a = c.ripemd
      · simp only [hr, if_true]; exact ⟨_, rfl⟩
      · simp only [hr, if_false]; exact ⟨_, rfl⟩
    · simp only [he, Bool.false_eq_true, if_false]; exact ⟨_, rfl⟩
  · simp only [hn, if_false, Impl.jappend, Option.map_some]; exact ⟨_, rfl⟩

theorem setCode_total (s : Impl) (a : Addr) (code : Code) : ∃ x, s.setCode a code = some x := by
  unfold Impl.setCode
  obtain ⟨⟨s1, o⟩, hx⟩ := getOrNew_total s a
  simp only [hx, Impl.jappend, Option.map_some]
  exact ⟨_, rfl⟩

theorem setState_total (s : Impl) (a : Addr) (k : Key) (v : Val) : ∃ x, s.setState a k v = some x := by
  unfold Impl.setState
  obtain ⟨⟨s1, o⟩, hx⟩ := getOrNew_total s a
  simp only [hx]
  cases hgs : o.getState s1.store k with
  | mk o1 prev =>
    simp only
    by_cases hp : prev = v
    · simp only [hp, if_true]; exact ⟨_, rfl⟩
    · simp only [hp, if_false, Impl.jappend, Option.map_some]; exact ⟨_, rfl⟩

theorem suicide_total (s : Impl) (a : Addr) : ∃ x, s.suicide a = some x := by
  unfold Impl.suicide
  cases hg : s.getObj a with
  | mk s1 ro =>
    cases ro with
    | none => exact ⟨_, rfl⟩
    | some o => simp only [Impl.jappend, Impl.objSetBalance, Option.map_some]; exact ⟨_, rfl⟩

theorem addLog_total (s : Impl) (a : Addr) (p : Nat) : ∃ x, s.addLog a p = some x := by
  simp only [Impl.addLog, Impl.jappend, Option.map_some]; exact ⟨_, rfl⟩

theorem alAddAddr_total (s : Impl) (a : Addr) : ∃ x, s.alAddAddr a = some x := by
  unfold Impl.alAddAddr
  by_cases h : a ∈ s.alAddrs
  · simp only [h, if_true]; exact ⟨_, rfl⟩
  · simp only [h, if_false, Impl.jappend]; exact ⟨_, rfl⟩

theorem alAddSlot_total (s : Impl) (a : Addr) (k : Key) : ∃ x, s.alAddSlot a k = some x := by
  unfold Impl.alAddSlot
  simp only [Impl.jappend]
  by_cases h1 : a ∈ s.alAddrs <;> by_cases h2 : (a, k) ∈ s.alSlots <;> simp [h1, h2]

theorem sim_subBalance_none {s : Impl} {r : Ref} (c : Cfg) (h : Sim s r) (a : Addr) (n : Nat)
    (hs : s.subBalance a n = none) : (r.step c (.subBalance a n)).2 = .panic := by
  unfold Impl.subBalance at hs
  obtain ⟨⟨s1, o⟩, hg⟩ := getOrNew_total s a
  simp only [hg] at hs
  obtain ⟨es1, hst, hobj, haddr, hok, hview, _, _⟩ := getOrNew_spec (Step.refl h) a o hg
  have hbal := (view_fields hview).2.1
  by_cases hn : n = 0
  · simp [hn] at hs
  · simp only [hn, if_false, Impl.jappend] at hs
    by_cases hgt : n > o.bal
    · have hgt' : n > (r.cur.getOrNew a).2.bal := by rw [← hbal]; exact hgt
      simp only [Ref.step, hn, if_false, hgt', if_true]
    · simp [hgt] at hs

theorem sim_step (c : Cfg) {s : Impl} {r : Ref} (h : Sim s r) (op : Op) (hsafe : s.safeStep c op = true) :
    (s.step c op).2 = (r.step c op).2 ∧ ((s.step c op).2 ≠ .panic → Sim (s.step c op).1 (r.step c op).1) := by
  have hgd : s.guard c op = true := hsafe
  cases op with
  | createAccount a =>
    obtain ⟨s', hs⟩ := createAccount_total s a
    simp only [Impl.step, orPanic, hs]
    exact ⟨by simp [Ref.step], fun _ => sim_createAccount c h a hs⟩
  | subBalance a n =>
    simp only [Impl.step, orPanic]
    cases hs : s.subBalance a n with
    | none =>
      exact ⟨(sim_subBalance_none c h a n hs).symm, fun hc => absurd rfl hc⟩
    | some s' =>
      have := sim_subBalance c h a n hs
      exact ⟨this.1.symm, fun _ => this.2⟩
  | addBalance a n =>
    obtain ⟨s', hs⟩ := addBalance_total c s a n
    simp only [Impl.step, orPanic, hs]
    · refine ⟨?_, fun _ => sim_addBalance c h a n hs⟩
      simp only [Ref.step]
      split <;> (try split) <;> rfl
  | getBalance a =>
    simp only [Impl.step]
    have := sim_getter h a (fun s1 o => (s1, Out.nat (match o with | some o => o.bal | none => 0)))
      (fun rx => Out.nat (match rx with | some x => x.bal | none => 0)) (fun _ _ => rfl)
      (by
        intro s1 ro _ _ hv
        rcases opt_view_cases hv with ⟨h1, h2⟩ | ⟨o, x, h1, h2, hvv⟩
        · rw [h1, h2]
        · rw [h1, h2]; simp only; rw [(view_fields hvv).2.1])
    exact ⟨this.1, fun _ => this.2⟩
  | getNonce a =>
    simp only [Impl.step]
    have := sim_getter h a (fun s1 o => (s1, Out.nat (match o with | some o => o.nonce | none => 0)))
      (fun rx => Out.nat (match rx with | some x => x.nonce | none => 0)) (fun _ _ => rfl)
      (by
        intro s1 ro _ _ hv
        rcases opt_view_cases hv with ⟨h1, h2⟩ | ⟨o, x, h1, h2, hvv⟩
        · rw [h1, h2]
        · rw [h1, h2]; simp only; rw [(view_fields hvv).1])
    exact ⟨this.1, fun _ => this.2⟩
  | setNonce a n =>
    obtain ⟨s', hs⟩ := setNonce_total s a n
    simp only [Impl.step, orPanic, hs]
    exact ⟨by simp [Ref.step], fun _ => sim_setNonce c h a n hs⟩
  | getCodeHash a =>
    simp only [Impl.step]
    have := sim_getter h a (fun s1 o => (s1, Out.hash (o.map (·.codeHash))))
      (fun rx => Out.hash (rx.map (·.code))) (fun _ _ => rfl)
      (by
        intro s1 ro _ _ hv
        rcases opt_view_cases hv with ⟨h1, h2⟩ | ⟨o, x, h1, h2, hvv⟩
        · rw [h1, h2]; rfl
        · rw [h1, h2]; simp only [Option.map_some]; rw [(view_fields hvv).2.2.1])
    exact ⟨this.1, fun _ => this.2⟩
  | getCode a =>
    simp only [Impl.step]
    have := sim_getter h a (fun s1 o => (s1, Out.code (match o with | some o => o.getCode s1.store | none => 0)))
      (fun rx => Out.code (match rx with | some x => x.code | none => 0)) (fun _ _ => rfl)
      (by
        intro s1 ro hst _ hv
        rcases opt_view_cases hv with ⟨h1, h2⟩ | ⟨o, x, h1, h2, hvv⟩
        · rw [h1, h2]
        · rw [h1, h2]; simp only; rw [hst, (view_fields hvv).2.2.2.1])
    exact ⟨this.1, fun _ => this.2⟩
  | setCode a code =>
    obtain ⟨s', hs⟩ := setCode_total s a code
    simp only [Impl.step, orPanic, hs]
    exact ⟨by simp [Ref.step], fun _ => sim_setCode c h a code hs⟩
  | getCodeSize a =>
    simp only [Impl.step]
    have := sim_getter h a (fun s1 o => (s1, Out.nat (match o with
        | some o => if o.code ≠ 0 then codeLen o.code else codeLen (o.getCode s1.store)
        | none => 0)))
      (fun rx => Out.nat (match rx with | some x => codeLen x.code | none => 0)) (fun _ _ => rfl)
      (by
        intro s1 ro hst hok hv
        rcases opt_view_cases hv with ⟨h1, h2⟩ | ⟨o, x, h1, h2, hvv⟩
        · rw [h1, h2]
        · rw [h1, h2]; simp only
          have hk := hok o h1
          have hcode : o.getCode s.store = x.code := (view_fields hvv).2.2.2.1
          by_cases hz : o.code = 0
          · simp only [hz, ne_eq, not_true_eq_false, if_false]; rw [hst, hcode]
          · simp only [ne_eq, hz, not_false_eq_true, if_true]
            rw [hk.codeEq hz, ← hk.code, hcode])
    exact ⟨this.1, fun _ => this.2⟩
  | addRefund n =>
    obtain ⟨s1, hj⟩ := jappend_total s (.refund s.refund)
    simp only [Impl.step, hj]
    exact ⟨by simp [Ref.step], fun _ => sim_addRefund c h n s1 hj⟩
  | subRefund n =>
    obtain ⟨s1, hj⟩ := jappend_total s (.refund s.refund)
    simp only [Impl.step, hj]
    · by_cases hn : n > s1.refund
      · simp only [hn, if_true]
        have hjs := jappend_spec s s1 _ hj
        have : n > s.refund := by rw [← hjs.2.2.2.2.2.1]; exact hn
        exact ⟨(sim_subRefund_panic c h n this).symm, fun hc => absurd rfl hc⟩
      · simp only [hn, if_false]
        have := sim_subRefund c h n s1 hj hn
        exact ⟨this.1.symm, fun _ => this.2⟩
  | getRefund =>
    simp only [Impl.step, Ref.step]
    exact ⟨by rw [(abs_fields h).2.1], fun _ => h⟩
  | getCommittedState a k =>
    simp only [Impl.step]
    have := sim_getCommitted h a k
    exact ⟨this.1, fun _ => this.2⟩
  | getState a k =>
    simp only [Impl.step]
    have := sim_getState h a k
    exact ⟨this.1, fun _ => this.2⟩
  | setState a k v =>
    obtain ⟨s', hs⟩ := setState_total s a k v
    simp only [Impl.step, orPanic, hs]
    · refine ⟨?_, fun _ => sim_setState c h a k v hs⟩
      simp only [Ref.step]
      split <;> rfl
  | suicide a =>
    obtain ⟨p, hs⟩ := suicide_total s a
    simp only [Impl.step, hs]
    · obtain ⟨s', b⟩ := p
      have := sim_suicide c h a b hs
      exact ⟨this.1.symm, fun _ => this.2⟩
  | hasSuicided a =>
    simp only [Impl.step]
    have := sim_getter h a (fun s1 o => (s1, Out.bool (match o with | some o => o.suicided | none => false)))
      (fun rx => Out.bool (match rx with | some x => x.suicided | none => false)) (fun _ _ => rfl)
      (by
        intro s1 ro _ _ hv
        rcases opt_view_cases hv with ⟨h1, h2⟩ | ⟨o, x, h1, h2, hvv⟩
        · rw [h1, h2]
        · rw [h1, h2]; simp only; rw [(view_fields hvv).2.2.2.2.1])
    exact ⟨this.1, fun _ => this.2⟩
  | exist a =>
    simp only [Impl.step]
    have := sim_getter h a (fun s1 o => (s1, Out.bool o.isSome))
      (fun rx => Out.bool rx.isSome) (fun _ _ => rfl)
      (by
        intro s1 ro _ _ hv
        rcases opt_view_cases hv with ⟨h1, h2⟩ | ⟨o, x, h1, h2, hvv⟩
        · rw [h1, h2]; rfl
        · rw [h1, h2]; rfl)
    exact ⟨this.1, fun _ => this.2⟩
  | empty a =>
    simp only [Impl.step]
    have := sim_getter h a (fun s1 o => (s1, Out.bool (match o with | some o => o.empty | none => true)))
      (fun rx => Out.bool (match rx with | some x => x.empty | none => true)) (fun _ _ => rfl)
      (by
        intro s1 ro _ _ hv
        rcases opt_view_cases hv with ⟨h1, h2⟩ | ⟨o, x, h1, h2, hvv⟩
        · rw [h1, h2]
        · rw [h1, h2]; simp only; rw [empty_eq hvv])
    exact ⟨this.1, fun _ => this.2⟩
  | addAddressToAccessList a =>
    obtain ⟨s', hs⟩ := alAddAddr_total s a
    simp only [Impl.step, orPanic, hs]
    exact ⟨by simp [Ref.step], fun _ => sim_alAddAddr c h a hs⟩
  | addSlotToAccessList a k =>
    obtain ⟨s', hs⟩ := alAddSlot_total s a k
    simp only [Impl.step, orPanic, hs]
    exact ⟨by simp [Ref.step], fun _ => sim_alAddSlot c h a k hs⟩
  | addressInAccessList a =>
    simp only [Impl.step, Ref.step]
    have hm : a ∈ s.alAddrs ↔ a ∈ r.cur.alAddrs := mem_iff_of_count ((abs_fields h).2.2.2.2.1 a)
    exact ⟨by simp only [hm], fun _ => h⟩
  | slotInAccessList a k =>
    simp only [Impl.step, Ref.step]
    have hm : a ∈ s.alAddrs ↔ a ∈ r.cur.alAddrs := mem_iff_of_count ((abs_fields h).2.2.2.2.1 a)
    have hm2 : (a, k) ∈ s.alSlots ↔ (a, k) ∈ r.cur.alSlots := mem_iff_of_count ((abs_fields h).2.2.2.2.2 (a, k))
    exact ⟨by simp only [hm, hm2], fun _ => h⟩
  | prepare th =>
    simp only [Impl.step]
    simp only [Impl.guard, Bool.and_eq_true, List.isEmpty_iff] at hgd
    exact ⟨by simp [Ref.step], fun _ => sim_prepare c h th hgd.1 hgd.2⟩
  | addLog a p =>
    obtain ⟨s', hs⟩ := addLog_total s a p
    simp only [Impl.step, orPanic, hs]
    exact ⟨by simp [Ref.step], fun _ => sim_addLog c h a p hs⟩
  | getLogs =>
    simp only [Impl.step, Ref.step]
    exact ⟨by rw [sim_getLogs h], fun _ => h⟩
  | snapshot =>
    simp only [Impl.step]
    have := sim_snapshot c h
    exact ⟨this.1.symm, fun _ => this.2⟩
  | revertToSnapshot id =>
    simp only [Impl.step, orPanic]
    cases hs : s.revertToSnapshot id with
    | none =>
      exact ⟨(sim_revert_panic c h id (revert_none_legit h id hs)).symm, fun hc => absurd rfl hc⟩
    | some s' =>
      have := sim_revert c h id hs
      exact ⟨this.1.symm, fun _ => this.2⟩
  | finalise b =>
    simp only [Impl.guard, Bool.and_eq_true] at hgd
    have hb : b = true := hgd.1
    subst hb
    have hf := sim_finalise c h hgd.2
    simp only [Impl.step, hf.1]
    exact ⟨by simp [Ref.step], fun _ => hf.2.1⟩
  | reset =>
    simp only [Impl.step]
    simp only [Impl.guard, List.isEmpty_iff] at hgd
    exact ⟨by simp [Ref.step], fun _ => sim_reset c h hgd⟩

end OLP.Evm

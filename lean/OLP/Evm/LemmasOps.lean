/-
  C16 — simulation lemmas for the account-changing interface calls (helpers for Props/C16.lean).
-/
import OLP.Evm.Lemmas

namespace OLP.Evm

theorem Step.acct {s s1 : Impl} {r : Ref} {w1 : RWorld} {es : List Entry} (st : Step s s1 r w1 es)
    (a : Addr) (o : Obj) (hobj : alookup a s1.objs = some o) (hok : ObjOK s.store o) :
    s1.view a = some (viewObj s.store o) := by
  rw [view_of_cached s1 a o hobj hok.live, st.store]

/-- fields of the two views agree -/
theorem view_fields {st : Store} {o : Obj} {x : RAcct} (h : viewObj st o = viewR x) :
    o.nonce = x.nonce ∧ o.bal = x.bal ∧ o.codeHash = x.code ∧ o.getCode st = x.code ∧ o.suicided = x.suicided ∧
    (∀ k, o.slotView st k = x.slot k) ∧ (∀ k, o.base st k = x.cslot k) := by
  simp only [viewObj, viewR, AView.mk.injEq] at h
  obtain ⟨h1, h2, h3, h4, h5, h6, h7⟩ := h
  exact ⟨h1, h2, h3, h4, h7, fun k => congrFun h5 k, fun k => congrFun h6 k⟩

theorem empty_eq {st : Store} {o : Obj} {x : RAcct} (h : viewObj st o = viewR x) : o.empty = x.empty := by
  have hf := view_fields h
  simp [Obj.empty, RAcct.empty, hf.1, hf.2.1, hf.2.2.1]

/-! ### SetNonce -/

theorem sim_setNonce {s s' : Impl} {r : Ref} (c : Cfg) (h : Sim s r) (a : Addr) (n : Nat)
    (hs : s.setNonce a n = some s') : Sim s' (r.step c (.setNonce a n)).1 := by
  unfold Impl.setNonce at hs
  cases hg : s.getOrNew a with
  | none => simp [hg] at hs
  | some p =>
    obtain ⟨s1, o⟩ := p
    simp only [hg] at hs
    cases hj : s1.jappend (.nonce a o.nonce) with
    | none => simp [hj] at hs
    | some s2 =>
      simp only [hj, Option.map_some, Option.some.injEq] at hs
      subst hs
      obtain ⟨es1, hst, hobj, haddr, hok, hview, _, _⟩ := getOrNew_spec (Step.refl h) a o hg
      have hm := hst.mutate (s2 := s2) a o (hst.acct a o hobj hok) [.nonce a o.nonce] (by simp [Impl.jappends, hj])
        (by intro b; simp [Entry.dirtied]) (by intro e he; simp at he; subst he; trivial)
        { o with nonce := n } { (r.cur.getOrNew a).2 with nonce := n } haddr
        ⟨hok.origin, hok.code, hok.codeEq, hok.live, hok.nd, hok.dc, hok.dho⟩
        (by show ({ viewObj s.store o with nonce := n } : AView) = _; rw [hview]; rfl)
        (undo_mod s.store _ a (fun v => { v with nonce := o.nonce }) _ _ (fun _ => rfl) rfl)
                (by intro W; simp [JOK, EntryLive])
                (ook_plain_mutate a o _ _ hobj (fun _ h => h) (by intro e he; simp at he; subst he; exact ⟨rfl, trivial⟩) hst.ook)
      exact h.step hm

/-! ### AddBalance -/

/-- the simulation says nothing about the reference's sticky touches: with no empty account in the
    records they never decide anything in `Finalise` (see `sim_finalise`) -/
theorem Sim.anySticky {s : Impl} {r : Ref} (h : Sim s r) (l : List Addr) : Sim s { r with sticky := l } :=
  ⟨h.cinv, h.entries, h.abs, h.thash, h.nextRev, h.touched, h.tc, h.nodup, h.revs, h.idsLt, h.idsSorted, h.jSorted,
   h.jok, h.cnt, h.ook⟩

/-- the extra dirty count of the RIPEMD touch exception changes nothing the simulation looks at -/
theorem Sim.extraDirty {s : Impl} {r : Ref} (h : Sim s r) (b : Addr) :
    Sim { s with journal := s.journal.addDirty b } r :=
  ⟨⟨h.cinv.objs, h.cinv.nodup, h.cinv.store⟩, h.entries, h.abs, h.thash, h.nextRev, h.touched, h.tc, h.nodup, h.revs,
   h.idsLt, h.idsSorted, h.jSorted, h.jok, h.cnt.extra b, h.ook⟩

theorem sim_addBalance {s s' : Impl} {r : Ref} (c : Cfg) (h : Sim s r) (a : Addr) (n : Nat)
    (hs : s.addBalance c a n = some s') : Sim s' (r.step c (.addBalance a n)).1 := by
  unfold Impl.addBalance at hs
  cases hg : s.getOrNew a with
  | none => simp [hg] at hs
  | some p =>
    obtain ⟨s1, o⟩ := p
    simp only [hg] at hs
    obtain ⟨es1, hst, hobj, haddr, hok, hview, _, _⟩ := getOrNew_spec (Step.refl h) a o hg
    have hemp := empty_eq hview
    by_cases hn : n = 0
    · simp only [hn, if_true] at hs
      by_cases he : o.empty = true
      · simp only [he, if_true] at hs
        unfold Impl.touch at hs
        cases hj : s1.jappend (.touch a) with
        | none => simp [hj] at hs
        | some s2 =>
          simp only [hj] at hs
          have hjs := jappend_spec s1 s2 _ hj
          have hsr := jappend_sameRest s1 s2 _ hj
          have hv := jappend_view s1 s2 _ hj
          have hstep : Step s s2 r { (r.cur.getOrNew a).1 with touched := (r.cur.getOrNew a).1.touched ++ [a] } (([] ++ es1) ++ [.touch a]) := by
            refine ⟨jappend_cinv s1 s2 _ hj hst.cinv, hsr.store.trans hst.store, by rw [hjs.1, hst.entries, List.append_assoc],
              hsr.revisions.trans hst.revisions, hsr.nextRev.trans hst.nextRev, hsr.thash.trans hst.thash,
              entriesOK_append.mpr ⟨hst.static, by intro e he; simp at he; subst he; trivial⟩, ?_, ?_, ?_, ?_, hst.nodup, ?_, ?_, ?_⟩
            · rw [absI_of_sameRest hsr hv, hst.abs]; rfl
            · rw [List.reverse_append, undoAbs_append, absI_of_sameRest hsr hv]
              exact hst.undo
            · intro b
              simp only [List.mem_append, List.mem_singleton, List.filterMap_append, hst.touched b]
              simp [Entry.dirtied, or_assoc]
            · intro b hb
              simp only [List.mem_append, List.mem_singleton, not_or] at hb
              exact hst.tc b hb.1
            · rw [List.reverse_append, absI_of_sameRest hsr hv]
              show JOK s.store _ (Entry.touch a :: ([] ++ es1).reverse)
              exact ⟨trivial, hst.jok⟩
            · rw [jappend_journal s1 s2 _ hj]; exact hst.cnt.append _
            · have hok2 : s2.okOf = s1.okOf := by funext b k; simp [Impl.okOf, hjs.2.1]
              rw [hjs.1, List.reverse_append, hok2]
              exact ⟨trivial, hst.ook⟩
          have := h.step hstep
          simp only [Ref.step, hn, if_true]
          rw [← hemp, he]
          simp only [if_true]
          by_cases har : a = c.ripemd
          · simp only [har, if_true, Option.some.injEq] at hs
            subst hs
            rw [← har]
            exact (this.extraDirty a).anySticky _
          · simp only [har, if_false, Option.some.injEq] at hs
            subst hs
            exact this.anySticky _
      · simp only [he, Bool.false_eq_true, if_false, Option.some.injEq] at hs
        subst hs
        have := h.step hst
        simp only [Ref.step, hn, if_true]
        rw [← hemp]
        simp only [he, Bool.false_eq_true, if_false]
        exact this
    · simp only [hn, if_false] at hs
      cases hj : s1.jappend (.balance a o.bal) with
      | none => simp [hj] at hs
      | some s2 =>
        simp only [hj, Option.map_some, Option.some.injEq] at hs
        subst hs
        have hm := hst.mutate (s2 := s2) a o (hst.acct a o hobj hok) [.balance a o.bal] (by simp [Impl.jappends, hj])
          (by intro b; simp [Entry.dirtied]) (by intro e he; simp at he; subst he; trivial)
          { o with bal := o.bal + n } { (r.cur.getOrNew a).2 with bal := (r.cur.getOrNew a).2.bal + n } haddr
          ⟨hok.origin, hok.code, hok.codeEq, hok.live, hok.nd, hok.dc, hok.dho⟩
          (by show ({ viewObj s.store o with bal := o.bal + n } : AView) = _
              rw [(view_fields hview).2.1, hview]; rfl)
          (undo_mod s.store _ a (fun v => { v with bal := o.bal }) _ _ (fun _ => rfl) rfl)
                (by intro W; simp [JOK, EntryLive])
                (ook_plain_mutate a o _ _ hobj (fun _ h => h) (by intro e he; simp at he; subst he; exact ⟨rfl, trivial⟩) hst.ook)
        have := h.step hm
        simp only [Ref.step, hn, if_false]
        exact this

/-! ### SubBalance -/

theorem balAt_eq {s : Impl} {r : Ref} (h : Sim s r) (a : Addr) : s.balAt a = (r.cur.getOrNew a).2.bal := by
  have hv : s.view a = (r.cur.get a).map viewR := view_eq_get h.abs a
  unfold Impl.balAt
  cases hl : alookup a s.objs with
  | some o =>
    have hlive := (h.cinv.objs a o hl).2.live
    rw [view_of_cached s a o hl hlive] at hv
    simp only [hlive, Bool.false_eq_true, if_false]
    cases hw : r.cur.get a with
    | none => rw [hw] at hv; cases hv
    | some x =>
      rw [hw] at hv
      simp only [Option.map_some, Option.some.injEq] at hv
      simp only [RWorld.getOrNew, hw]
      exact (view_fields hv).2.1
  | none =>
    rw [view_of_uncached s a hl, Store.view] at hv
    cases hg : s.store.getAccount a with
    | none =>
      rw [hg] at hv
      cases hw : r.cur.get a with
      | none => simp [RWorld.getOrNew, hw, RAcct.fresh]
      | some x => rw [hw] at hv; cases hv
    | some o =>
      rw [hg] at hv
      cases hw : r.cur.get a with
      | none => rw [hw] at hv; cases hv
      | some x =>
        rw [hw] at hv
        simp only [Option.map_some, Option.some.injEq] at hv
        simp only [RWorld.getOrNew, hw]
        exact (view_fields hv).2.1

theorem sim_subBalance_panic {s : Impl} {r : Ref} (c : Cfg) (h : Sim s r) (a : Addr) (n : Nat) (hgt : n > s.balAt a) :
    (r.step c (.subBalance a n)).2 = .panic := by
  rw [balAt_eq h a] at hgt
  have hn : n ≠ 0 := by omega
  simp only [Ref.step, hn, if_false, hgt, if_true]

theorem sim_subBalance {s s' : Impl} {r : Ref} (c : Cfg) (h : Sim s r) (a : Addr) (n : Nat)
    (hs : s.subBalance a n = some s') :
    (r.step c (.subBalance a n)).2 = .unit ∧ Sim s' (r.step c (.subBalance a n)).1 := by
  unfold Impl.subBalance at hs
  cases hg : s.getOrNew a with
  | none => simp [hg] at hs
  | some p =>
    obtain ⟨s1, o⟩ := p
    simp only [hg] at hs
    obtain ⟨es1, hst, hobj, haddr, hok, hview, _, _⟩ := getOrNew_spec (Step.refl h) a o hg
    have hbal := (view_fields hview).2.1
    by_cases hn : n = 0
    · simp only [hn, if_true, Option.some.injEq] at hs
      subst hs
      have := h.step hst
      simp only [Ref.step, hn, if_true]
      exact ⟨trivial, this⟩
    · simp only [hn, if_false] at hs
      cases hj : s1.jappend (.balance a o.bal) with
      | none => simp [hj] at hs
      | some s2 =>
        simp only [hj] at hs
        by_cases hgt : n > o.bal
        · simp [hgt] at hs
        · simp only [hgt, if_false, Option.some.injEq] at hs
          subst hs
          have hm := hst.mutate (s2 := s2) a o (hst.acct a o hobj hok) [.balance a o.bal] (by simp [Impl.jappends, hj])
            (by intro b; simp [Entry.dirtied]) (by intro e he; simp at he; subst he; trivial)
            { o with bal := o.bal - n } { (r.cur.getOrNew a).2 with bal := (r.cur.getOrNew a).2.bal - n } haddr
            ⟨hok.origin, hok.code, hok.codeEq, hok.live, hok.nd, hok.dc, hok.dho⟩
            (by show ({ viewObj s.store o with bal := o.bal - n } : AView) = _
                rw [hbal, hview]; rfl)
            (undo_mod s.store _ a (fun v => { v with bal := o.bal }) _ _ (fun _ => rfl) rfl)
                (by intro W; simp [JOK, EntryLive])
                (ook_plain_mutate a o _ _ hobj (fun _ h => h) (by intro e he; simp at he; subst he; exact ⟨rfl, trivial⟩) hst.ook)
          have := h.step hm
          have hgt' : ¬ n > (r.cur.getOrNew a).2.bal := by rw [← hbal]; exact hgt
          simp only [Ref.step, hn, if_false, hgt']
          exact ⟨trivial, this⟩

/-! ### SetCode -/

theorem sim_setCode {s s' : Impl} {r : Ref} (c : Cfg) (h : Sim s r) (a : Addr) (code : Code)
    (hs : s.setCode a code = some s') : Sim s' (r.step c (.setCode a code)).1 := by
  unfold Impl.setCode at hs
  cases hg : s.getOrNew a with
  | none => simp [hg] at hs
  | some p =>
    obtain ⟨s1, o⟩ := p
    simp only [hg] at hs
    cases hj : s1.jappend (.code a (o.getCode s1.store) o.codeHash) with
    | none => simp [hj] at hs
    | some s2 =>
      simp only [hj, Option.map_some, Option.some.injEq] at hs
      subst hs
      obtain ⟨es1, hst, hobj, haddr, hok, hview, _, _⟩ := getOrNew_spec (Step.refl h) a o hg
      have hgc : (o.setCodeRaw code code).getCode s.store = code := by
        simp only [Obj.getCode, Obj.setCodeRaw]
        by_cases hz : code = 0 <;> simp [hz]
      have hcode : o.getCode s1.store = o.codeHash := by rw [hst.store]; exact hok.code
      have hm := hst.mutate (s2 := s2) a o (hst.acct a o hobj hok) [.code a (o.getCode s1.store) o.codeHash] (by simp [Impl.jappends, hj])
        (by intro b; simp [Entry.dirtied]) (by intro e he; simp at he; subst he; exact hcode)
        (o.setCodeRaw code code) { (r.cur.getOrNew a).2 with code := code } haddr
        ⟨hok.origin, hgc, fun _ => rfl, hok.live, hok.nd, fun _ => rfl, hok.dho⟩
        (by
          have : viewObj s.store (o.setCodeRaw code code) = { viewObj s.store o with code := code, hash := code } := by
            simp only [viewObj, hgc]; rfl
          rw [this, hview]; rfl)
        (undo_mod s.store _ a (fun v => { v with code := o.getCode s1.store, hash := o.codeHash }) _ _ (fun _ => rfl)
          (by
            have : viewObj s.store (o.setCodeRaw code code) = { viewObj s.store o with code := code, hash := code } := by
              simp only [viewObj, hgc]; rfl
            rw [this, hcode]
            simp only [viewObj, hok.code]))
                (by intro W; simp [JOK, EntryLive])
                (ook_plain_mutate a o _ _ hobj (fun _ h => h) (by intro e he; simp at he; subst he; exact ⟨rfl, trivial⟩) hst.ook)
      exact h.step hm

/-! ### storage reads of one object -/

theorem alookup_append {K V : Type} [DecidableEq K] (l1 l2 : List (K × V)) (k : K) :
    alookup k (l1 ++ l2) = match alookup k l1 with | some v => some v | none => alookup k l2 := by
  induction l1 with
  | nil => rfl
  | cons hd t ih =>
    obtain ⟨k', v'⟩ := hd
    by_cases hk : k' = k <;> simp [alookup, hk, ih]

theorem getCommitted_spec (st : Store) (o o1 : Obj) (k : Key) (v : Val) (hok : ObjOK st o)
    (h : o.getCommitted st k = (o1, v)) :
    v = o.base st k ∧ viewObj st o1 = viewObj st o ∧ ObjOK st o1 ∧ o1.addr = o.addr := by
  unfold Obj.getCommitted at h
  cases hl : alookup k o.origin with
  | some v0 =>
    simp only [hl] at h
    cases h
    exact ⟨hok.origin k v hl, rfl, hok, rfl⟩
  | none =>
    simp only [hl] at h
    cases h
    refine ⟨rfl, rfl, ⟨?_, hok.code, hok.codeEq, hok.live, hok.nd, hok.dc, ?_⟩, rfl⟩
    rotate_left
    · intro k' hk'
      have := hok.dho k' hk'
      simp only [alookup_append]
      cases hl' : alookup k' o.origin with
      | some _ => rfl
      | none => rw [hl'] at this; cases this
    intro k' v' hk'
    simp only [alookup_append] at hk'
    cases hl' : alookup k' o.origin with
    | some v'' => simp only [hl'] at hk'; cases hk'; exact hok.origin k' v' hl'
    | none =>
      simp only [hl', alookup] at hk'
      by_cases hkk : k = k'
      · subst hkk; simp at hk'; exact hk'.symm
      · simp [hkk] at hk'

theorem getCommitted_origin (st : Store) (o o1 : Obj) (k : Key) (v : Val) (h : o.getCommitted st k = (o1, v)) :
    (alookup k o1.origin).isSome = true ∧ ∀ k', (alookup k' o.origin).isSome = true → (alookup k' o1.origin).isSome = true := by
  unfold Obj.getCommitted at h
  cases hl : alookup k o.origin with
  | some v0 => simp only [hl] at h; cases h; exact ⟨by simp [hl], fun _ h => h⟩
  | none =>
    simp only [hl] at h
    cases h
    refine ⟨by simp [alookup_append, hl, alookup], ?_⟩
    intro k' hk'
    simp only [alookup_append]
    cases hl' : alookup k' o.origin with
    | some _ => rfl
    | none => rw [hl'] at hk'; cases hk'

theorem getState_origin (st : Store) (o o1 : Obj) (k : Key) (v : Val) (hok : ObjOK st o) (h : o.getState st k = (o1, v)) :
    (alookup k o1.origin).isSome = true ∧ ∀ k', (alookup k' o.origin).isSome = true → (alookup k' o1.origin).isSome = true := by
  unfold Obj.getState at h
  cases hl : alookup k o.dirty with
  | some v0 =>
    simp only [hl] at h; cases h
    exact ⟨hok.dho k (by simp [hl]), fun _ h => h⟩
  | none => simp only [hl] at h; exact getCommitted_origin st o o1 k v h

theorem getState_spec (st : Store) (o o1 : Obj) (k : Key) (v : Val) (hok : ObjOK st o)
    (h : o.getState st k = (o1, v)) :
    v = o.slotView st k ∧ viewObj st o1 = viewObj st o ∧ ObjOK st o1 ∧ o1.addr = o.addr := by
  unfold Obj.getState at h
  cases hl : alookup k o.dirty with
  | some v0 =>
    simp only [hl] at h
    cases h
    exact ⟨by simp [Obj.slotView, hl], rfl, hok, rfl⟩
  | none =>
    simp only [hl] at h
    have hc := getCommitted_spec st o o1 k v hok h
    exact ⟨by simp [Obj.slotView, hl, hc.1], hc.2.1, hc.2.2.1, hc.2.2.2⟩

theorem slot_upsert (x : RAcct) (k : Key) (v : Val) :
    ({ x with stor := upsert x.stor k v } : RAcct).slot = updF x.slot k v := by
  funext k'
  simp only [RAcct.slot, alookup_upsert, updF]
  by_cases hk : k' = k <;> simp [hk]

/-- replacing a cached object by one with the same view -/
theorem Step.recache {s s1 : Impl} {r : Ref} {w1 : RWorld} {es : List Entry} (st : Step s s1 r w1 es)
    (a : Addr) (o o1 : Obj) (hacct : s1.view a = some (viewObj s.store o)) (hv : viewObj s.store o1 = viewObj s.store o)
    (hok : ObjOK s.store o1) (haddr : o1.addr = a) (hobj : alookup a s1.objs = some o)
    (horig : ∀ k, (alookup k o.origin).isSome = true → (alookup k o1.origin).isSome = true) :
    Step s (s1.setObj o1) r w1 es := by
  refine st.sameAbs (setObj_cinv s1 st.cinv o1 (by rw [st.store]; exact hok)) (setObj_sameBut s1 o1) ?_ ?_
  · rw [setObj_view s1 o1 hok.live, haddr, st.store, hv, ← hacct, updF_self]
  · intro b k hb
    rw [okOf_setObj, haddr]
    by_cases hba : b = a
    · simp only [hba, if_true]
      rw [hba, okOf_cached s1 a o k hobj] at hb
      exact horig k hb
    · simp only [hba, if_false]; exact hb

/-! ### SetState -/

theorem sim_setState {s s' : Impl} {r : Ref} (c : Cfg) (h : Sim s r) (a : Addr) (k : Key) (v : Val)
    (hs : s.setState a k v = some s') : Sim s' (r.step c (.setState a k v)).1 := by
  unfold Impl.setState at hs
  cases hg : s.getOrNew a with
  | none => simp [hg] at hs
  | some p =>
    obtain ⟨s1, o⟩ := p
    simp only [hg] at hs
    obtain ⟨es1, hst, hobj, haddr, hok, hview, _, _⟩ := getOrNew_spec (Step.refl h) a o hg
    cases hgs : o.getState s1.store k with
    | mk o1 prev =>
      simp only [hgs] at hs
      have hgs' : o.getState s.store k = (o1, prev) := by rw [← hst.store]; exact hgs
      have hsp := getState_spec s.store o o1 k prev hok hgs'
      have hso := getState_origin s.store o o1 k prev hok hgs'
      have hprev : prev = (r.cur.getOrNew a).2.slot k := by rw [hsp.1]; exact (view_fields hview).2.2.2.2.2.1 k
      have hacct := hst.acct a o hobj hok
      by_cases hpv : prev = v
      · simp only [hpv, if_true, Option.some.injEq] at hs
        subst hs
        have hst2 := hst.recache a o o1 hacct hsp.2.1 hsp.2.2.1 (hsp.2.2.2.trans haddr) hobj hso.2
        have := h.step hst2
        have hc : (r.cur.getOrNew a).2.slot k = v := by rw [← hprev]; exact hpv
        simp only [Ref.step, hc, if_true]
        exact this
      · simp only [hpv, if_false] at hs
        cases hj : s1.jappend (.storage a k prev) with
        | none => simp [hj] at hs
        | some s2 =>
          simp only [hj, Option.map_some, Option.some.injEq] at hs
          subst hs
          have hvs : viewObj s.store (o1.setStateRaw k v) = { viewObj s.store o with stor := updF (viewObj s.store o).stor k v } := by
            rw [viewObj_setStateRaw, hsp.2.1]
          have hm := hst.mutate (s2 := s2) a o hacct [.storage a k prev] (by simp [Impl.jappends, hj])
            (by intro b; simp [Entry.dirtied]) (by intro e he; simp at he; subst he; trivial)
            (o1.setStateRaw k v) { (r.cur.getOrNew a).2 with stor := upsert (r.cur.getOrNew a).2.stor k v }
            (hsp.2.2.2.trans haddr) (objOK_setStateRaw _ _ _ _ hsp.2.2.1 hso.1)
            (by
              rw [hvs, hview]
              simp only [viewR, slot_upsert]
              rfl)
            (undo_mod s.store _ a (fun vw => { vw with stor := updF vw.stor k prev }) _ _ (fun _ => rfl)
              (by
                rw [hvs]
                simp only [updF_updF]
                have : (viewObj s.store o).stor k = prev := hsp.1.symm
                rw [← this, updF_self]))
                (by intro W; simp [JOK, EntryLive])
                (ook_plain_mutate a o _ _ hobj hso.2
                  (by intro e he; simp at he; subst he; exact ⟨rfl, by simp [EntrySupp, Obj.setStateRaw, hso.1]⟩) hst.ook)
          have := h.step hm
          have hc : ¬ (r.cur.getOrNew a).2.slot k = v := by rw [← hprev]; exact hpv
          simp only [Ref.step, hc, if_false]
          exact this

/-! ### Suicide -/

theorem sim_read {s s1 : Impl} {r : Ref} (h : Sim s r) (a : Addr) (ro : Option Obj) (hg : s.getObj a = (s1, ro)) :
    Sim s1 r ∧ ro.map (viewObj s.store) = (r.cur.get a).map viewR ∧ s1.store = s.store ∧
    (∀ o, ro = some o → ObjOK s.store o ∧ alookup a s1.objs = some o ∧ o.addr = a) := by
  have hs := getObj_spec s h.cinv a s1 ro hg
  have hst : Step s s1 r r.cur [] := (Step.refl h).sameAbs hs.1 hs.2.1 hs.2.2.1 (getObj_okOf s s1 h.cinv a ro hg)
  refine ⟨h.step hst, ?_, hs.2.1.store, ?_⟩
  · have hv : s.view a = (r.cur.get a).map viewR := view_eq_get h.abs a
    cases ro with
    | none => rw [← hv, hs.2.2.2.1 rfl]; rfl
    | some o => rw [← hv, (hs.2.2.2.2 o rfl).2.2.2]; rfl
  · intro o ho
    have := hs.2.2.2.2 o ho
    exact ⟨this.2.2.1, this.1, this.2.1⟩

theorem sim_suicide {s s' : Impl} {r : Ref} (c : Cfg) (h : Sim s r) (a : Addr) (b : Bool)
    (hs : s.suicide a = some (s', b)) :
    (r.step c (.suicide a)).2 = .bool b ∧ Sim s' (r.step c (.suicide a)).1 := by
  unfold Impl.suicide at hs
  cases hg : s.getObj a with
  | mk s1 ro =>
    have hr := sim_read h a ro hg
    simp only [hg] at hs
    cases ro with
    | none =>
      simp only [Option.some.injEq, Prod.mk.injEq] at hs
      obtain ⟨h1, h2⟩ := hs
      subst h1; subst h2
      have hw : r.cur.get a = none := by
        have := hr.2.1
        simp only [Option.map_none] at this
        cases hw : r.cur.get a with
        | none => rfl
        | some x => rw [hw] at this; cases this
      simp only [Ref.step, hw]
      exact ⟨by trivial, hr.1⟩
    | some o =>
      obtain ⟨hok, hobj, haddr⟩ := hr.2.2.2 o rfl
      subst haddr
      cases hw : r.cur.get o.addr with
      | none => have := hr.2.1; rw [hw] at this; cases this
      | some x =>
        have hview : viewObj s.store o = viewR x := by
          have := hr.2.1; rw [hw] at this; simpa using this
        cases hj : s1.jappend (.suicide o.addr o.suicided o.bal) with
        | none => simp [hj] at hs
        | some s2 =>
          simp only [hj, Impl.objSetBalance] at hs
          cases hj2 : s2.jappend (.balance o.addr o.bal) with
          | none => simp [hj2] at hs
          | some s3 =>
            simp only [hj2, Option.map_some, Option.some.injEq, Prod.mk.injEq] at hs
            obtain ⟨h1, h2⟩ := hs
            subst h1; subst h2
            have hst : Step s s1 r r.cur [] := by
              have hs' := getObj_spec s h.cinv o.addr s1 (some o) hg
              exact (Step.refl h).sameAbs hs'.1 hs'.2.1 hs'.2.2.1 (getObj_okOf s s1 h.cinv o.addr _ hg)
            have hm := hst.mutate (s2 := s3) o.addr o (hst.acct o.addr o hobj hok)
              [.suicide o.addr o.suicided o.bal, .balance o.addr o.bal] (by simp [Impl.jappends, hj, hj2])
              (by intro b; simp [Entry.dirtied]) (by intro e he; simp at he; rcases he with he | he <;> subst he <;> trivial)
              { o with suicided := true, bal := 0 } { x with suicided := true, bal := 0 } rfl
              ⟨hok.origin, hok.code, hok.codeEq, hok.live, hok.nd, hok.dc, hok.dho⟩
              (by show ({ viewObj s.store o with suicided := true, bal := 0 } : AView) = _; rw [hview]; rfl)
              (by
                intro W
                simp only [List.reverse_cons, List.reverse_nil, List.nil_append, List.singleton_append, undoAbs, Entry.undo,
                  AW.modAcct, updF_same, Option.map_some, updF_updF]
                rfl)
                (by intro W; simp [JOK, EntryLive])
                (ook_plain_mutate o.addr o _ _ hobj (fun _ h => h)
                  (by intro e he; simp at he; rcases he with he | he <;> subst he <;> exact ⟨rfl, trivial⟩) hst.ook)
            have := h.step hm
            simp only [Ref.step, hw]
            exact ⟨by trivial, this⟩

end OLP.Evm

/-
  C16 — `Finalise` against the reference (helpers for Props/C16.lean).
-/
import OLP.Evm.LemmasMisc

namespace OLP.Evm

/-! ### storage records -/

theorem slot_setSlot (st : Store) (a : Addr) (k : Key) (v : Val) (a' : Addr) (k' : Key) :
    (st.setSlot a k v).slot a' k' = if a' = a ∧ k' = k then v else st.slot a' k' := by
  simp only [Store.slot, Store.setSlot, alookup_upsert, Prod.mk.injEq]
  by_cases h : a' = a ∧ k' = k <;> simp [h]

theorem slot_delSlot (st : Store) (a : Addr) (k : Key) (a' : Addr) (k' : Key) :
    (st.delSlot a k).slot a' k' = if a' = a ∧ k' = k then 0 else st.slot a' k' := by
  simp only [Store.slot, Store.delSlot, alookup_aerase, Prod.mk.injEq]
  by_cases h : a' = a ∧ k' = k <;> simp [h]

theorem alookup_filter_addr (a a' : Addr) (k' : Key) : ∀ (l : List ((Addr × Key) × Val)),
    alookup (a', k') (l.filter fun x => x.1.1 != a) = if a' = a then none else alookup (a', k') l := by
  intro l
  induction l with
  | nil => by_cases h : a' = a <;> simp [alookup, h]
  | cons hd t ih =>
    obtain ⟨⟨b, kb⟩, v⟩ := hd
    by_cases hb : b = a
    · have hf : ((((b, kb), v) :: t).filter fun x => x.1.1 != a) = t.filter fun x => x.1.1 != a := by
        simp [List.filter_cons, hb]
      rw [hf, ih]
      by_cases h : a' = a
      · simp [h]
      · have hne : ¬ (b, kb) = (a', k') := by
          intro e; simp only [Prod.mk.injEq] at e; exact h (e.1.symm.trans hb)
        simp [h, alookup, hne]
    · have hf : ((((b, kb), v) :: t).filter fun x => x.1.1 != a) = ((b, kb), v) :: t.filter fun x => x.1.1 != a := by
        simp [List.filter_cons, hb]
      rw [hf]
      by_cases hk : (b, kb) = (a', k')
      · have hba : a' = b := by simp only [Prod.mk.injEq] at hk; exact hk.1.symm
        have h : ¬ a' = a := fun e => hb (hba.symm.trans e)
        simp [alookup, hk, h]
      · simp only [alookup, hk, if_false]
        exact ih

theorem slot_delStorage (st : Store) (a a' : Addr) (k' : Key) :
    (st.delStorage a).slot a' k' = if a' = a then 0 else st.slot a' k' := by
  simp only [Store.slot, Store.delStorage, alookup_filter_addr]
  by_cases h : a' = a <;> simp [h]

/-- storage as dirty values over the records, whatever the object's flags (what `commitState` makes of the records) -/
def Obj.rawView (st : Store) (o : Obj) (k : Key) : Val :=
  match alookup k o.dirty with
  | some v => v
  | none => st.slot o.addr k

theorem baseStore_slot (st : Store) (o : Obj) (k : Key) : (o.baseStore st).slot o.addr k = o.base st k := by
  unfold Obj.baseStore Obj.base
  by_cases hc : o.created = true
  · simp only [hc, if_true, slot_delStorage]
  · simp only [hc, if_false]; rfl

theorem baseStore_other (st : Store) (o : Obj) (a' : Addr) (h : a' ≠ o.addr) (k : Key) :
    (o.baseStore st).slot a' k = st.slot a' k := by
  unfold Obj.baseStore
  by_cases hc : o.created = true
  · simp only [hc, if_true, slot_delStorage, h, if_false]
  · simp only [hc, if_false]; rfl

theorem rawView_baseStore (st : Store) (o : Obj) (k : Key) : o.rawView (o.baseStore st) k = o.slotView st k := by
  unfold Obj.rawView Obj.slotView
  cases alookup k o.dirty with
  | some v => rfl
  | none => exact baseStore_slot st o k

/-- the records other than storage slots -/
def Store.sameMeta (st st2 : Store) : Prop := st2.acct = st.acct ∧ st2.bal = st.bal ∧ st2.code = st.code

theorem commitSlot_zero (a : Addr) (st : Store) (org : List (Key × Val)) (k : Key) (ov : Val)
    (h : alookup k org = some ov) : commitSlot a (st, org) (k, 0) = (st.delSlot a k, aerase org k) := by
  simp [commitSlot, h]

theorem commitSlot_same (a : Addr) (st : Store) (org : List (Key × Val)) (k : Key) (v : Val)
    (h : alookup k org = some v) (hv : v ≠ 0) : commitSlot a (st, org) (k, v) = (st, org) := by
  simp [commitSlot, h, hv]

theorem commitSlot_diff (a : Addr) (st : Store) (org : List (Key × Val)) (k : Key) (v ov : Val)
    (h : alookup k org = some ov) (hv : v ≠ 0) (hvo : v ≠ ov) :
    commitSlot a (st, org) (k, v) = (st.setSlot a k v, upsert org k v) := by
  simp [commitSlot, h, hv, hvo]

theorem commit_fold (a : Addr) : ∀ (d : List (Key × Val)) (st : Store) (org : List (Key × Val)),
    (akeys d).Nodup →
    (∀ k v, alookup k d = some v → (alookup k org).isSome) →
    (∀ k ov, alookup k org = some ov → k ∈ akeys d → ov = st.slot a k) →
    let stf := (d.foldl (commitSlot a) (st, org)).1
    st.sameMeta stf ∧
    ∀ a' k', stf.slot a' k' = if a' = a then (match alookup k' d with | some v => v | none => st.slot a k') else st.slot a' k' := by
  intro d
  induction d with
  | nil =>
    intro st org _ _ _
    refine ⟨⟨rfl, rfl, rfl⟩, ?_⟩
    intro a' k'
    by_cases ha : a' = a <;> simp [ha, alookup]
  | cons hd t ih =>
    intro st org hnd hdho hcoh
    obtain ⟨k, v⟩ := hd
    have hnd' : k ∉ akeys t ∧ (akeys t).Nodup := by simpa [akeys] using hnd
    obtain ⟨ov, hov⟩ := Option.isSome_iff_exists.mp (hdho k v (by simp [alookup]))
    have hovs : ov = st.slot a k := hcoh k ov hov (by simp [akeys])
    -- the state after this slot
    have key : ∃ st2 org2, commitSlot a (st, org) (k, v) = (st2, org2) ∧ st.sameMeta st2 ∧
        (∀ a' k', st2.slot a' k' = if a' = a ∧ k' = k then v else st.slot a' k') ∧
        (∀ k', k' ≠ k → alookup k' org2 = alookup k' org) := by
      by_cases hv : v = 0
      · subst hv
        refine ⟨_, _, commitSlot_zero a st org k ov hov, ⟨rfl, rfl, rfl⟩, ?_, ?_⟩
        · intro a' k'; exact slot_delSlot st a k a' k'
        · intro k' hk'; exact alookup_aerase_ne _ _ _ hk'
      · by_cases hvo : v = ov
        · subst hvo
          refine ⟨_, _, commitSlot_same a st org k v hov hv, ⟨rfl, rfl, rfl⟩, ?_, ?_⟩
          · intro a' k'
            by_cases h : a' = a ∧ k' = k
            · simp [h, hovs]
            · simp [h]
          · intro k' _; rfl
        · refine ⟨_, _, commitSlot_diff a st org k v ov hov hv hvo, ⟨rfl, rfl, rfl⟩, ?_, ?_⟩
          · intro a' k'; exact slot_setSlot st a k v a' k'
          · intro k' hk'; exact alookup_upsert_ne _ _ _ _ hk'
    obtain ⟨st2, org2, hstep, hmeta, hslot, horg⟩ := key
    simp only [List.foldl_cons, hstep]
    have hih := ih st2 org2 hnd'.2
      (by
        intro k' v' hk'
        have hne : k' ≠ k := by
          intro e; subst e
          have := (mem_akeys_iff_alookup t k').mpr (by simp [hk'])
          exact hnd'.1 this
        rw [horg k' hne]
        exact hdho k' v' (by simp [alookup, hne.symm, hk']))
      (by
        intro k' ov' hk' hmem
        have hne : k' ≠ k := fun e => hnd'.1 (e ▸ hmem)
        rw [horg k' hne] at hk'
        rw [hslot a k']
        simp only [hne, and_false, if_false]
        exact hcoh k' ov' hk' (by simp [akeys]; exact Or.inr (by simpa [akeys] using hmem)))
    refine ⟨⟨hih.1.1.trans hmeta.1, hih.1.2.1.trans hmeta.2.1, hih.1.2.2.trans hmeta.2.2⟩, ?_⟩
    intro a' k'
    rw [hih.2 a' k']
    by_cases ha : a' = a
    · subst ha
      simp only [if_true, alookup]
      by_cases hk : k = k'
      · subst hk
        simp only [if_true, not_mem_akeys_alookup t k hnd'.1]
        rw [hslot]; simp
      · simp only [hk, if_false]
        cases hl : alookup k' t with
        | some v' => rfl
        | none =>
          simp only
          rw [hslot]
          have : ¬ k' = k := fun e => hk e.symm
          simp [this]
    · simp only [ha, if_false]
      rw [hslot]; simp [ha]

theorem commitState_spec (st : Store) (o : Obj) (hnd : (akeys o.dirty).Nodup) (hdho : o.dirtyHasOrigin = true)
    (hcoh : ∀ k ov, alookup k o.origin = some ov → ov = st.slot o.addr k) :
    st.sameMeta (o.commitState st) ∧
    ∀ a' k', (o.commitState st).slot a' k' = if a' = o.addr then o.rawView st k' else st.slot a' k' := by
  have h := commit_fold o.addr o.dirty st o.origin hnd
    (by
      intro k v hk
      simp only [Obj.dirtyHasOrigin, List.all_eq_true] at hdho
      exact hdho (k, v) (alookup_mem _ _ _ hk))
    (fun k ov hk _ => hcoh k ov hk)
  exact ⟨h.1, fun a' k' => by rw [Obj.commitState, h.2 a' k']; rfl⟩

/-! ### what `Finalise` does to the records of one address -/

structure RecEq (st st2 : Store) (b : Addr) : Prop where
  acct : alookup b st2.acct = alookup b st.acct
  bal : st2.balOf b = st.balOf b
  slot : ∀ k, st2.slot b k = st.slot b k

theorem RecEq.refl (st : Store) (b : Addr) : RecEq st st b := ⟨rfl, rfl, fun _ => rfl⟩
theorem RecEq.trans {st st2 st3 : Store} {b : Addr} (h1 : RecEq st st2 b) (h2 : RecEq st2 st3 b) : RecEq st st3 b :=
  ⟨h2.acct.trans h1.acct, h2.bal.trans h1.bal, fun k => (h2.slot k).trans (h1.slot k)⟩

theorem commitSlot_other (a : Addr) (acc : Store × List (Key × Val)) (kv : Key × Val) :
    acc.1.sameMeta (commitSlot a acc kv).1 ∧ ∀ a', a' ≠ a → ∀ k', (commitSlot a acc kv).1.slot a' k' = acc.1.slot a' k' := by
  obtain ⟨st, org⟩ := acc
  obtain ⟨k, v⟩ := kv
  cases hov : alookup k org with
  | none =>
    by_cases hv : v = 0
    · have : commitSlot a (st, org) (k, v) = (st.delSlot a k, org) := by simp [commitSlot, hov, hv]
      rw [this]
      exact ⟨⟨rfl, rfl, rfl⟩, fun a' ha k' => by rw [slot_delSlot]; simp [ha]⟩
    · have : commitSlot a (st, org) (k, v) = (st, org) := by simp [commitSlot, hov, hv]
      rw [this]
      exact ⟨⟨rfl, rfl, rfl⟩, fun _ _ _ => rfl⟩
  | some ov =>
    by_cases hv : v = 0
    · subst hv
      rw [commitSlot_zero a st org k ov hov]
      exact ⟨⟨rfl, rfl, rfl⟩, fun a' ha k' => by rw [slot_delSlot]; simp [ha]⟩
    · by_cases hvo : v = ov
      · subst hvo
        rw [commitSlot_same a st org k v hov hv]
        exact ⟨⟨rfl, rfl, rfl⟩, fun _ _ _ => rfl⟩
      · rw [commitSlot_diff a st org k v ov hov hv hvo]
        exact ⟨⟨rfl, rfl, rfl⟩, fun a' ha k' => by rw [slot_setSlot]; simp [ha]⟩

theorem baseStore_meta (st : Store) (o : Obj) : st.sameMeta (o.baseStore st) := by
  unfold Obj.baseStore
  by_cases hc : o.created = true
  · simp only [hc, if_true]; exact ⟨rfl, rfl, rfl⟩
  · simp only [hc, if_false]; exact ⟨rfl, rfl, rfl⟩

theorem commitState_other (st : Store) (o : Obj) :
    st.sameMeta (o.commitState st) ∧ ∀ a', a' ≠ o.addr → ∀ k', (o.commitState st).slot a' k' = st.slot a' k' := by
  unfold Obj.commitState
  generalize o.origin = org
  generalize o.dirty = d
  induction d generalizing st org with
  | nil => exact ⟨⟨rfl, rfl, rfl⟩, fun _ _ _ => rfl⟩
  | cons hd t ih =>
    simp only [List.foldl_cons]
    have h1 := commitSlot_other o.addr (st, org) hd
    have h2 := ih (commitSlot o.addr (st, org) hd).1 (commitSlot o.addr (st, org) hd).2
    refine ⟨⟨h2.1.1.trans h1.1.1, h2.1.2.1.trans h1.1.2.1, h2.1.2.2.trans h1.1.2.2⟩, ?_⟩
    intro a' ha k'
    rw [h2.2 a' ha k', h1.2 a' ha k']

theorem codeAt_setCode (c : Cfg) (st : Store) (h code h' : Code) (ht : code ≠ c.tomb) :
    (st.setCode c h code).codeAt h' = if h' = h then code else st.codeAt h' := by
  unfold Store.setCode Store.codeAt
  simp only [ht, if_false, alookup_upsert]
  by_cases hh : h' = h <;> simp [hh]

theorem balOf_removeAccount (st : Store) (a b : Addr) :
    (st.removeAccount a).balOf b = if b = a then 0 else st.balOf b := by
  unfold Store.removeAccount
  by_cases hz : st.balOf a = 0
  · simp only [hz, if_true]
    by_cases hb : b = a
    · subst hb; simp only [if_true]; exact hz
    · simp only [hb, if_false]; rfl
  · have hz' : ¬ (alookup a st.bal).getD 0 = 0 := hz
    simp only [Store.balOf, hz', if_false, alookup_upsert]
    by_cases hb : b = a <;> simp [hb]

/-- `Finalise` deletes this object -/
def finDel (ds : List Addr) (ao : Addr × Obj) : Bool := ao.2.suicided || (decide (ao.1 ∈ ds) && ao.2.empty)

theorem finaliseObj_del (c : Cfg) (ds : List Addr) (st : Store) (ao : Addr × Obj) (h : finDel ds ao = true) :
    finaliseObj c true ds st ao = (st.removeAccount ao.2.addr).delStorage ao.2.addr := by
  simp only [finDel] at h
  simp [finaliseObj, h]

theorem finaliseObj_commit (c : Cfg) (ds : List Addr) (st : Store) (ao : Addr × Obj) (h : finDel ds ao = false)
    (hd : ao.1 ∈ ds) :
    finaliseObj c true ds st ao =
      (if ao.2.code ≠ 0 && ao.2.dirtyCode then (ao.2.commitState (ao.2.baseStore st)).setCode c ao.2.codeHash ao.2.code
       else ao.2.commitState (ao.2.baseStore st)).setAccount ao.2 := by
  simp only [finDel, Bool.or_eq_false_iff, Bool.and_eq_false_iff, decide_eq_false_iff_not] at h
  have h2 : ao.2.empty = false := by
    rcases h.2 with h2 | h2
    · exact absurd hd h2
    · exact h2
  simp [finaliseObj, h.1, h2, hd]

theorem finaliseObj_skip (c : Cfg) (ds : List Addr) (st : Store) (ao : Addr × Obj) (h : finDel ds ao = false)
    (hd : ao.1 ∉ ds) : finaliseObj c true ds st ao = st := by
  simp only [finDel, Bool.or_eq_false_iff] at h
  simp [finaliseObj, h.1, hd]

theorem setCode_recs (c : Cfg) (st : Store) (h code : Code) :
    (st.setCode c h code).acct = st.acct ∧ (st.setCode c h code).bal = st.bal ∧ (st.setCode c h code).stor = st.stor := by
  unfold Store.setCode
  by_cases ht : code = c.tomb <;> simp [ht]

theorem balOf_setAccount (st : Store) (o : Obj) (b : Addr) :
    (st.setAccount o).balOf b = if b = o.addr then o.bal else st.balOf b := by
  simp only [Store.balOf, Store.setAccount, alookup_upsert]
  by_cases hb : b = o.addr <;> simp [hb]

/-- the records of other addresses are not touched -/
theorem finaliseObj_other (c : Cfg) (ds : List Addr) (st : Store) (ao : Addr × Obj) (b : Addr) (hb : b ≠ ao.2.addr) :
    RecEq st (finaliseObj c true ds st ao) b := by
  cases hdel : finDel ds ao with
  | true =>
    rw [finaliseObj_del c ds st ao hdel]
    refine ⟨by simp [Store.delStorage, Store.removeAccount, alookup_aerase, hb], ?_, ?_⟩
    · have : ((st.removeAccount ao.2.addr).delStorage ao.2.addr).balOf b = (st.removeAccount ao.2.addr).balOf b := rfl
      rw [this, balOf_removeAccount]; simp [hb]
    · intro k
      rw [slot_delStorage]; simp only [hb, if_false]; rfl
  | false =>
    by_cases hd : ao.1 ∈ ds
    · rw [finaliseObj_commit c ds st ao hdel hd]
      have hco := commitState_other (ao.2.baseStore st) ao.2
      have hbm := baseStore_meta st ao.2
      have hslot : ∀ (x : Store), x.stor = (ao.2.commitState (ao.2.baseStore st)).stor → ∀ k, (x.setAccount ao.2).slot b k = st.slot b k := by
        intro x hx k
        have : (x.setAccount ao.2).slot b k = (ao.2.commitState (ao.2.baseStore st)).slot b k := by
          simp [Store.slot, Store.setAccount, hx]
        rw [this, hco.2 b hb k, baseStore_other st ao.2 b hb k]
      by_cases hcd : (ao.2.code ≠ 0 && ao.2.dirtyCode) = true
      · simp only [hcd, if_true]
        have hr := setCode_recs c (ao.2.commitState (ao.2.baseStore st)) ao.2.codeHash ao.2.code
        refine ⟨?_, ?_, hslot _ hr.2.2⟩
        · simp only [Store.setAccount, alookup_upsert, hb, if_false, hr.1, hco.1.1, hbm.1]
        · rw [balOf_setAccount]; simp only [hb, if_false]; simp [Store.balOf, hr.2.1, hco.1.2.1, hbm.2.1]
      · simp only [hcd, Bool.false_eq_true, if_false]
        refine ⟨?_, ?_, hslot _ rfl⟩
        · simp only [Store.setAccount, alookup_upsert, hb, if_false, hco.1.1, hbm.1]
        · rw [balOf_setAccount]; simp only [hb, if_false]; simp [Store.balOf, hco.1.2.1, hbm.2.1]
    · rw [finaliseObj_skip c ds st ao hdel hd]
      exact RecEq.refl st b

/-- the records of the object's own address -/
theorem finaliseObj_own (c : Cfg) (ds : List Addr) (st : Store) (ao : Addr × Obj)
    (hnd : (akeys ao.2.dirty).Nodup) (hdho : ao.2.dirtyHasOrigin = true)
    (hcoh : ∀ k ov, alookup k ao.2.origin = some ov → ov = ao.2.base st k) :
    let st2 := finaliseObj c true ds st ao
    (finDel ds ao = true → alookup ao.2.addr st2.acct = none ∧ st2.balOf ao.2.addr = 0 ∧
        ∀ k, st2.slot ao.2.addr k = 0) ∧
    (finDel ds ao = false → ao.1 ∈ ds → alookup ao.2.addr st2.acct = some (ao.2.nonce, ao.2.codeHash) ∧
        st2.balOf ao.2.addr = ao.2.bal ∧ ∀ k, st2.slot ao.2.addr k = ao.2.slotView st k) ∧
    (finDel ds ao = false → ao.1 ∉ ds → st2 = st) := by
  refine ⟨?_, ?_, ?_⟩
  · intro hdel
    rw [finaliseObj_del c ds st ao hdel]
    refine ⟨by simp [Store.delStorage, Store.removeAccount], ?_, fun k => by rw [slot_delStorage]; simp⟩
    have : ((st.removeAccount ao.2.addr).delStorage ao.2.addr).balOf ao.2.addr = (st.removeAccount ao.2.addr).balOf ao.2.addr := rfl
    rw [this, balOf_removeAccount]; simp
  · intro hdel hd
    rw [finaliseObj_commit c ds st ao hdel hd]
    have hcs := commitState_spec (ao.2.baseStore st) ao.2 hnd hdho
      (fun k ov hk => by rw [baseStore_slot]; exact hcoh k ov hk)
    have hslot : ∀ (x : Store), x.stor = (ao.2.commitState (ao.2.baseStore st)).stor → ∀ k, (x.setAccount ao.2).slot ao.2.addr k = ao.2.slotView st k := by
      intro x hx k
      have : (x.setAccount ao.2).slot ao.2.addr k = (ao.2.commitState (ao.2.baseStore st)).slot ao.2.addr k := by
        simp [Store.slot, Store.setAccount, hx]
      rw [this, hcs.2]; simp only [if_true]; exact rawView_baseStore st ao.2 k
    by_cases hcd : (ao.2.code ≠ 0 && ao.2.dirtyCode) = true
    · simp only [hcd, if_true]
      have hr := setCode_recs c (ao.2.commitState (ao.2.baseStore st)) ao.2.codeHash ao.2.code
      exact ⟨by simp [Store.setAccount], by rw [balOf_setAccount]; simp, hslot _ hr.2.2⟩
    · simp only [hcd, Bool.false_eq_true, if_false]
      exact ⟨by simp [Store.setAccount], by rw [balOf_setAccount]; simp, hslot _ rfl⟩
  · intro hdel hd
    exact finaliseObj_skip c ds st ao hdel hd

/-- `Finalise` does not fail at this object, which is written out with a new code: the code is not the marker -/
theorem commitFails_false_nt (c : Cfg) (ds : List Addr) (ao : Addr × Obj) (h : commitFails c true ds ao = false)
    (hdel : finDel ds ao = false) (hd : ao.1 ∈ ds) (h1 : ao.2.code ≠ 0) (h2 : ao.2.dirtyCode = true) :
    ¬ ao.2.code = c.tomb := by
  intro e
  simp only [finDel, Bool.or_eq_false_iff, Bool.and_eq_false_iff, decide_eq_false_iff_not] at hdel
  have he : ao.2.empty = false := by
    rcases hdel.2 with h3 | h3
    · exact absurd hd h3
    · exact h3
  rw [e] at h1
  simp [commitFails, hdel.1, he, hd, h1, h2, e] at h

/-- the code records only grow, by codes stored under themselves -/
theorem finaliseObj_codes (c : Cfg) (ds : List Addr) (st : Store) (ao : Addr × Obj)
    (hce : ao.2.code ≠ 0 → ao.2.code = ao.2.codeHash)
    (hnf : commitFails c true ds ao = false) :
    let st2 := finaliseObj c true ds st ao
    (∀ h, st.codeAt h = h → st2.codeAt h = h) ∧
    (finDel ds ao = false → ao.1 ∈ ds → ao.2.code ≠ 0 → ao.2.dirtyCode = true → st2.codeAt ao.2.codeHash = ao.2.codeHash) := by
  have hsa : ∀ (x : Store) h, (x.setAccount ao.2).codeAt h = x.codeAt h := fun _ _ => rfl
  have hcs : ∀ h, (ao.2.commitState (ao.2.baseStore st)).codeAt h = st.codeAt h := by
    intro h; simp [Store.codeAt, (commitState_other (ao.2.baseStore st) ao.2).1.2.2, (baseStore_meta st ao.2).2.2]
  cases hdel : finDel ds ao with
  | true =>
    rw [finaliseObj_del c ds st ao hdel]
    exact ⟨fun h hh => hh, fun h => by cases h⟩
  | false =>
    by_cases hd : ao.1 ∈ ds
    · rw [finaliseObj_commit c ds st ao hdel hd]
      by_cases hcd : (ao.2.code ≠ 0 && ao.2.dirtyCode) = true
      · simp only [hcd, if_true]
        have hcd' : ao.2.code ≠ 0 ∧ ao.2.dirtyCode = true := by simpa using hcd
        have hnt' : ¬ ao.2.code = c.tomb := commitFails_false_nt c ds ao hnf hdel hd hcd'.1 hcd'.2
        refine ⟨?_, ?_⟩
        · intro h hh
          rw [hsa, codeAt_setCode _ _ _ _ _ hnt']
          by_cases he : h = ao.2.codeHash
          · simp only [he, if_true]; exact hce hcd'.1
          · simp only [he, if_false]; rw [hcs]; exact hh
        · intro _ _ _ _
          rw [hsa, codeAt_setCode _ _ _ _ _ hnt']
          simp only [if_true]; exact hce hcd'.1
      · simp only [hcd, Bool.false_eq_true, if_false]
        refine ⟨fun h hh => by rw [hsa, hcs]; exact hh, ?_⟩
        intro _ _ h1 h2
        exact absurd (by simp [h1, h2]) hcd
    · rw [finaliseObj_skip c ds st ao hdel hd]
      exact ⟨fun h hh => hh, fun _ h => absurd h hd⟩

/-! ### the whole loop -/

structure FinHyp (c : Cfg) (ds : List Addr) (st : Store) (ao : Addr × Obj) : Prop where
  nd : (akeys ao.2.dirty).Nodup
  dho : ao.2.dirtyHasOrigin = true
  coh : ∀ k ov, alookup k ao.2.origin = some ov → ov = ao.2.base st k
  ce : ao.2.code ≠ 0 → ao.2.code = ao.2.codeHash
  nf : commitFails c true ds ao = false

theorem base_congr {st st2 : Store} {o : Obj} (hs : ∀ k, st2.slot o.addr k = st.slot o.addr k) (k : Key) :
    o.base st2 k = o.base st k := by
  simp only [Obj.base, hs k]

theorem FinHyp.transfer {c : Cfg} {ds : List Addr} {st st2 : Store} {ao : Addr × Obj} (h : FinHyp c ds st ao)
    (hs : ∀ k, st2.slot ao.2.addr k = st.slot ao.2.addr k) : FinHyp c ds st2 ao :=
  ⟨h.nd, h.dho, fun k ov hk => by rw [base_congr hs k]; exact h.coh k ov hk, h.ce, h.nf⟩

theorem slotView_congr {st st2 : Store} {o : Obj} (hs : ∀ k, st2.slot o.addr k = st.slot o.addr k) (k : Key) :
    o.slotView st2 k = o.slotView st k := by
  simp only [Obj.slotView, base_congr hs k]

structure Own (ds : List Addr) (st st' : Store) (ao : Addr × Obj) : Prop where
  del : finDel ds ao = true → alookup ao.2.addr st'.acct = none ∧ st'.balOf ao.2.addr = 0 ∧
      ∀ k, st'.slot ao.2.addr k = 0
  commit : finDel ds ao = false → ao.1 ∈ ds → alookup ao.2.addr st'.acct = some (ao.2.nonce, ao.2.codeHash) ∧
      st'.balOf ao.2.addr = ao.2.bal ∧ ∀ k, st'.slot ao.2.addr k = ao.2.slotView st k
  skip : finDel ds ao = false → ao.1 ∉ ds → RecEq st st' ao.2.addr

theorem fold_finalise (c : Cfg) (ds : List Addr) : ∀ (objs : List (Addr × Obj)) (st : Store),
    (objs.map (·.2.addr)).Nodup → (∀ ao ∈ objs, FinHyp c ds st ao) →
    (∀ b, b ∉ objs.map (·.2.addr) → RecEq st (objs.foldl (finaliseObj c true ds) st) b) ∧
    (∀ ao ∈ objs, Own ds st (objs.foldl (finaliseObj c true ds) st) ao) ∧
    (∀ h, st.codeAt h = h → (objs.foldl (finaliseObj c true ds) st).codeAt h = h) ∧
    (∀ ao ∈ objs, finDel ds ao = false → ao.1 ∈ ds → ao.2.code ≠ 0 → ao.2.dirtyCode = true →
      (objs.foldl (finaliseObj c true ds) st).codeAt ao.2.codeHash = ao.2.codeHash) := by
  intro objs
  induction objs with
  | nil =>
    intro st _ _
    refine ⟨fun b _ => RecEq.refl st b, ?_, fun h hh => hh, ?_⟩ <;> intro ao h <;> simp at h
  | cons hd t ih =>
    intro st hnd hfh
    simp only [List.map_cons, List.nodup_cons] at hnd
    simp only [List.foldl_cons]
    have hhd := hfh hd (by simp)
    have hother : ∀ ao ∈ t, ao.2.addr ≠ hd.2.addr := by
      intro ao hao e
      exact hnd.1 (e ▸ List.mem_map_of_mem hao)
    have hfh1 : ∀ ao ∈ t, FinHyp c ds (finaliseObj c true ds st hd) ao := by
      intro ao hao
      exact (hfh ao (List.mem_cons_of_mem _ hao)).transfer (finaliseObj_other c ds st hd ao.2.addr (hother ao hao)).slot
    have hih := ih (finaliseObj c true ds st hd) hnd.2 hfh1
    have hown := finaliseObj_own c ds st hd hhd.nd hhd.dho hhd.coh
    have hcodes := finaliseObj_codes c ds st hd hhd.ce hhd.nf
    refine ⟨?_, ?_, ?_, ?_⟩
    · intro b hb
      simp only [List.map_cons, List.mem_cons, not_or] at hb
      exact (finaliseObj_other c ds st hd b hb.1).trans (hih.1 b hb.2)
    · intro ao hao
      simp only [List.mem_cons] at hao
      rcases hao with rfl | hao
      · have hrest := hih.1 ao.2.addr hnd.1
        refine ⟨?_, ?_, ?_⟩
        · intro hdel
          have := hown.1 hdel
          exact ⟨hrest.acct.trans this.1, hrest.bal.trans this.2.1, fun k => (hrest.slot k).trans (this.2.2 k)⟩
        · intro hdel hd
          have := hown.2.1 hdel hd
          exact ⟨hrest.acct.trans this.1, hrest.bal.trans this.2.1, fun k => (hrest.slot k).trans (this.2.2 k)⟩
        · intro hdel hd
          have := hown.2.2 hdel hd
          rw [this] at hrest ⊢
          exact hrest
      · have hoth := finaliseObj_other c ds st hd ao.2.addr (hother ao hao)
        have := hih.2.1 ao hao
        refine ⟨?_, ?_, ?_⟩
        · intro hdel
          exact this.del hdel
        · intro hdel hd
          have h1 := this.commit hdel hd
          exact ⟨h1.1, h1.2.1, fun k => (h1.2.2 k).trans (slotView_congr hoth.slot k)⟩
        · intro hdel hd
          exact hoth.trans (this.skip hdel hd)
    · intro h hh
      exact hih.2.2.1 h (hcodes.1 h hh)
    · intro ao hao hdel hd hc hdc
      simp only [List.mem_cons] at hao
      rcases hao with rfl | hao
      · exact hih.2.2.1 _ (hcodes.2 hdel hd hc hdc)
      · exact hih.2.2.2 ao hao hdel hd hc hdc

/-! ### the reference side -/

theorem alookup_filter {K V : Type} [DecidableEq K] (p : K × V → Bool) :
    ∀ (l : List (K × V)), (akeys l).Nodup → ∀ k, alookup k (l.filter p) = (alookup k l).filter (fun v => p (k, v)) := by
  intro l
  induction l with
  | nil => intro _ k; rfl
  | cons hd t ih =>
    intro hnd k
    obtain ⟨k', v'⟩ := hd
    have hnd' : k' ∉ akeys t ∧ (akeys t).Nodup := by simpa [akeys] using hnd
    by_cases hk : k' = k
    · subst hk
      by_cases hp : p (k', v') = true
      · simp [List.filter_cons, hp, alookup, Option.filter]
      · simp only [List.filter_cons, hp, Bool.false_eq_true, if_false, alookup, if_true, Option.filter]
        rw [ih hnd'.2 k', not_mem_akeys_alookup t k' hnd'.1]
        simp [hp]
    · by_cases hp : p (k', v') = true
      · simp [List.filter_cons, hp, alookup, hk, ih hnd'.2 k]
      · simp [List.filter_cons, hp, alookup, hk, ih hnd'.2 k]

theorem alookup_mapVal {K V W : Type} [DecidableEq K] (f : K × V → W) :
    ∀ (l : List (K × V)) k, alookup k (l.map fun ar => (ar.1, f ar)) = (alookup k l).map (fun v => f (k, v)) := by
  intro l
  induction l with
  | nil => intro k; rfl
  | cons hd t ih =>
    intro k
    obtain ⟨k', v'⟩ := hd
    by_cases hk : k' = k
    · subst hk; simp [alookup]
    · simp [alookup, hk, ih k]

theorem akeys_mapVal {K V W : Type} (f : K × V → W) (l : List (K × V)) :
    akeys (l.map fun ar => (ar.1, f ar)) = akeys l := by
  simp [akeys, List.map_map, Function.comp_def]

theorem akeys_filter_nodup {K V : Type} (p : K × V → Bool) (l : List (K × V)) (h : (akeys l).Nodup) :
    (akeys (l.filter p)).Nodup := by
  have : (akeys (l.filter p)).Sublist (akeys l) := by
    simp only [akeys]
    exact List.Sublist.map _ List.filter_sublist
  exact h.sublist this

/-- the account the reference keeps for `a` after `Finalise(true)` -/
theorem ref_finalise_get (r : Ref) (hnd : (akeys r.cur.accts).Nodup) (a : Addr) :
    (r.finalise true).cur.get a =
      ((r.cur.get a).filter (fun x => !(decide (a ∈ r.cur.touched ++ r.sticky) && (x.suicided || x.empty)))).map
        (fun x => { x with cstor := x.stor }) := by
  have h1 := alookup_mapVal (K := Addr) (fun ar : Addr × RAcct => ({ ar.2 with cstor := ar.2.stor } : RAcct))
    (r.cur.accts.filter (rfinaliseAcct true (r.cur.touched ++ r.sticky))) a
  rw [alookup_filter (rfinaliseAcct true (r.cur.touched ++ r.sticky)) r.cur.accts hnd a] at h1
  simp only [Ref.finalise, RWorld.get]
  refine h1.trans ?_
  simp [rfinaliseAcct]

/-! ### assembling -/

theorem mem_alookup_of_nodup {K V : Type} [DecidableEq K] : ∀ (l : List (K × V)), (akeys l).Nodup →
    ∀ k v, (k, v) ∈ l → alookup k l = some v := by
  intro l
  induction l with
  | nil => intro _ k v h; cases h
  | cons hd t ih =>
    intro hnd k v h
    obtain ⟨k', v'⟩ := hd
    have hnd' : k' ∉ akeys t ∧ (akeys t).Nodup := by simpa [akeys] using hnd
    simp only [List.mem_cons, Prod.mk.injEq] at h
    rcases h with ⟨rfl, rfl⟩ | h
    · simp [alookup]
    · have hne : k' ≠ k := by
        intro e; subst e
        exact hnd'.1 (by simp only [akeys, List.mem_map]; exact ⟨(k', v), h, rfl⟩)
      simp [alookup, hne, ih hnd'.2 k v h]

theorem getAccount_congr (st st' : Store) (a : Addr) (hacct : alookup a st'.acct = alookup a st.acct)
    (hbal : st'.balOf a = st.balOf a) : st'.getAccount a = st.getAccount a := by
  simp only [Store.getAccount, hacct, hbal]

/-- same records for the address and its code still present: same view -/
theorem view_of_recs (st st' : Store) (hs : StoreOK st) (a : Addr) (hr : RecEq st st' a)
    (hcode : ∀ h, st.codeAt h = h → st'.codeAt h = h) : st'.view a = st.view a := by
  simp only [Store.view, getAccount_congr st st' a hr.acct hr.bal]
  cases hg : st.getAccount a with
  | none => rfl
  | some o =>
    have hf := getAccount_addr st a o hg
    have hok := getAccount_ok st hs a o hg
    simp only [Option.map_some, Option.some.injEq]
    simp only [viewObj, AView.mk.injEq, true_and, and_true]
    have hbase : ∀ k, o.base st' k = o.base st k := fun k => base_congr (by intro k'; rw [hf.1]; exact hr.slot k') k
    refine ⟨?_, ?_, ?_⟩
    · have h1 : o.getCode st = o.codeHash := hok.code
      simp only [Obj.getCode, hf.2.2.2.1, ne_eq, not_true_eq_false, if_false] at h1 ⊢
      by_cases hz : o.codeHash = 0
      · simp [hz]
      · simp only [hz, if_false] at h1 ⊢
        rw [h1]; exact hcode _ h1
    · funext k; simp only [Obj.slotView, hf.2.2.1, alookup]; exact hbase k
    · funext k; exact hbase k

theorem dho_bool {o : Obj} (h : DirtyHasOrigin o) : o.dirtyHasOrigin = true := by
  simp only [Obj.dirtyHasOrigin, List.all_eq_true]
  intro kv hkv
  apply h kv.1
  have : kv.1 ∈ akeys o.dirty := by simp only [akeys, List.mem_map]; exact ⟨kv, hkv, rfl⟩
  exact (mem_akeys_iff_alookup o.dirty kv.1).mp this

theorem takeWhile_all {α : Type} (p : α → Bool) : ∀ (l : List α), (∀ x ∈ l, p x = true) → l.takeWhile p = l
  | [], _ => rfl
  | x :: t, h => by
    simp only [List.takeWhile_cons, h x (by simp), if_true]
    rw [takeWhile_all p t (fun y hy => h y (List.mem_cons_of_mem _ hy))]

theorem find_none_all {α : Type} (p : α → Bool) : ∀ (l : List α), (∀ x ∈ l, p x = false) → l.find? p = none
  | [], _ => rfl
  | x :: t, h => by
    simp only [List.find?_cons, h x (by simp)]
    exact find_none_all p t (fun y hy => h y (List.mem_cons_of_mem _ hy))

theorem sim_finalise {s : Impl} {r : Ref} (c : Cfg) (h : Sim s r) (hg : s.finaliseGuard c = true) :
    (s.finalise c true).2 = false ∧ Sim (s.finalise c true).1 (r.finalise true) ∧
    (NoOrphanStorage s.store → NoOrphanStorage (s.finalise c true).1.store) := by
  -- the guard, unpacked: `Finalise` fails at no object
  simp only [Impl.finaliseGuard, List.all_eq_true, Bool.not_eq_true'] at hg
  have hnofail : ∀ ao ∈ s.objs, commitFails c true s.dirtySet ao = false := hg
  -- cached pairs
  have hmem : ∀ ao ∈ s.objs, alookup ao.1 s.objs = some ao.2 := fun ao hao =>
    mem_alookup_of_nodup s.objs h.cinv.nodup ao.1 ao.2 hao
  have haddr : ∀ ao ∈ s.objs, ao.2.addr = ao.1 := fun ao hao => (h.cinv.objs ao.1 ao.2 (hmem ao hao)).1
  have hkeys : s.objs.map (·.2.addr) = akeys s.objs := by
    simp only [akeys]
    exact List.map_congr_left fun ao hao => haddr ao hao
  have hfh : ∀ ao ∈ s.objs, FinHyp c s.dirtySet s.store ao := by
    intro ao hao
    have hok := (h.cinv.objs ao.1 ao.2 (hmem ao hao)).2
    exact ⟨hok.nd, dho_bool hok.dho, hok.origin, hok.codeEq, hnofail ao hao⟩
  have hfold := fold_finalise c s.dirtySet s.objs s.store (by rw [hkeys]; exact h.cinv.nodup) hfh
  generalize hst' : s.objs.foldl (finaliseObj c true s.dirtySet) s.store = st' at hfold
  obtain ⟨hF1, hF2, hF3, hF4⟩ := hfold
  have hsok := h.cinv.store
  -- touched accounts are in the dirty set when cached
  have htd : ∀ a, a ∈ r.cur.touched → (alookup a s.objs).isSome → a ∈ s.dirtySet := by
    intro a ha hc
    have h1 := (h.touched a).mp ha
    simp only [Impl.dirtySet, List.mem_filter]
    exact ⟨h.cnt.mem a h1, hc⟩
  -- an untouched account is as the records have it: neither self-destructed nor empty
  have huntouched : ∀ a x, r.cur.get a = some x → a ∉ r.cur.touched →
      s.store.view a = some (viewR x) ∧ x.suicided = false ∧ x.empty = false ∧ (∀ k, x.cslot k = x.slot k) := by
    intro a x hx hnt
    have hv := h.tc a hnt
    simp only [RWorld.view, hx, Option.map_some] at hv
    refine ⟨hv.symm, ?_⟩
    simp only [Store.view] at hv
    cases hga : s.store.getAccount a with
    | none => rw [hga] at hv; cases hv
    | some o =>
      rw [hga] at hv
      simp only [Option.map_some, Option.some.injEq] at hv
      have hf := getAccount_addr s.store a o hga
      have hvf := view_fields hv.symm
      refine ⟨by rw [← hvf.2.2.2.2.1]; exact hf.2.2.2.2.2.1, by rw [← empty_eq hv.symm]; exact hsok.nonEmpty a o hga, ?_⟩
      intro k
      rw [← hvf.2.2.2.2.2.2 k, ← hvf.2.2.2.2.2.1 k]
      simp [Obj.slotView, hf.2.2.1]
  -- the view of every address after the loop
  have hV : ∀ a, st'.view a = (r.finalise true).cur.view a := by
    intro a
    simp only [RWorld.view, ref_finalise_get r h.nodup a]
    have hva : s.view a = (r.cur.get a).map viewR := view_eq_get h.abs a
    cases hl : alookup a s.objs with
    | none =>
      -- not cached: the records of `a` are untouched
      have hnm : a ∉ s.objs.map (·.2.addr) := by
        rw [hkeys]; intro hm
        have := (mem_akeys_iff_alookup s.objs a).mp hm
        rw [hl] at this; cases this
      rw [view_of_recs s.store st' hsok a (hF1 a hnm) hF3]
      rw [view_of_uncached s a hl] at hva
      rw [hva]
      cases hx : r.cur.get a with
      | none => rfl
      | some x =>
        simp only [Option.map_some, Option.filter]
        have hsv : s.store.view a = some (viewR x) := by rw [hva, hx]; rfl
        -- whether touched or not, the account is the records' one
        simp only [Store.view] at hsv
        cases hga : s.store.getAccount a with
        | none => rw [hga] at hsv; cases hsv
        | some o =>
          rw [hga] at hsv
          simp only [Option.map_some, Option.some.injEq] at hsv
          have hf := getAccount_addr s.store a o hga
          have hvf := view_fields hsv
          have hsu : x.suicided = false := by rw [← hvf.2.2.2.2.1]; exact hf.2.2.2.2.2.1
          have hem : x.empty = false := by rw [← empty_eq hsv]; exact hsok.nonEmpty a o hga
          have hcs : ∀ k, x.cslot k = x.slot k := by
            intro k
            rw [← hvf.2.2.2.2.2.2 k, ← hvf.2.2.2.2.2.1 k]
            simp [Obj.slotView, hf.2.2.1]
          simp only [hsu, hem, Bool.or_self, Bool.and_false, Bool.not_false, if_true, Option.map_some, Option.some.injEq]
          simp only [viewR, AView.mk.injEq, true_and, and_true]
          refine ⟨rfl, ?_, hsu⟩
          funext k; exact hcs k
    | some o =>
      have hcm : (a, o) ∈ s.objs := alookup_mem _ _ _ hl
      have hoa : o.addr = a := haddr (a, o) hcm
      have hok := (h.cinv.objs a o hl).2
      rw [view_of_cached s a o hl hok.live] at hva
      cases hx : r.cur.get a with
      | none => rw [hx] at hva; cases hva
      | some x =>
        rw [hx] at hva
        simp only [Option.map_some, Option.some.injEq] at hva
        have hvf := view_fields hva
        have hemp := empty_eq hva
        have hown := hF2 (a, o) hcm
        simp only [Option.filter]
        cases hdel : finDel s.dirtySet (a, o) with
        | true =>
          -- deleted: the guard says no balance or storage record is left behind
          have hd := hown.del hdel
          simp only [hoa] at hd
          have hga : st'.getAccount a = none := by
            simp only [Store.getAccount, hd.1, hd.2.1, if_true]
          have htouched : a ∈ r.cur.touched := by
            by_cases ht : a ∈ r.cur.touched
            · exact ht
            · have hu := huntouched a x hx ht
              simp only [finDel, Bool.or_eq_true, Bool.and_eq_true, decide_eq_true_eq] at hdel
              rcases hdel with h1 | h1
              · rw [hvf.2.2.2.2.1, hu.2.1] at h1; cases h1
              · rw [hemp, hu.2.2.1] at h1; cases h1.2
          have hdx : (x.suicided || x.empty) = true := by
            simp only [finDel, Bool.or_eq_true, Bool.and_eq_true, decide_eq_true_eq] at hdel
            rcases hdel with h1 | h1
            · rw [← hvf.2.2.2.2.1, h1]; rfl
            · rw [← hemp, h1.2]; simp
          simp [Store.view, hga, htouched, hdx]
        | false =>
          have hsu : x.suicided = false := by
            simp only [finDel, Bool.or_eq_false_iff] at hdel
            rw [← hvf.2.2.2.2.1]; exact hdel.1
          by_cases hd : a ∈ s.dirtySet
          · -- written out
            have hcmt := hown.commit hdel hd
            simp only [hoa] at hcmt
            have hem : x.empty = false := by
              simp only [finDel, Bool.or_eq_false_iff, Bool.and_eq_false_iff, decide_eq_false_iff_not] at hdel
              rcases hdel.2 with h1 | h1
              · exact absurd hd h1
              · rw [← hemp]; exact h1
            have hga : st'.getAccount a = some { Obj.fresh a o.bal with nonce := o.nonce, codeHash := o.codeHash } := by
              simp only [Store.getAccount, hcmt.1, hcmt.2.1]
            have hcode : o.codeHash ≠ 0 → st'.codeAt o.codeHash = o.codeHash := by
              intro hz
              by_cases hc0 : o.code = 0
              · have := hok.code
                simp only [Obj.getCode, hc0, ne_eq, not_true_eq_false, if_false, hz] at this
                exact hF3 _ this
              · exact hF4 (a, o) hcm hdel hd hc0 (hok.dc hc0)
            simp only [Store.view, hga, Option.map_some, hsu, hem, Bool.or_self, Bool.and_false, Bool.not_false, if_true,
              Option.some.injEq]
            simp only [viewObj, viewR, Obj.fresh, Obj.getCode, AView.mk.injEq]
            refine ⟨hvf.1, hvf.2.1, hvf.2.2.1, ?_, ?_, ?_, trivial⟩
            · simp only [ne_eq, not_true_eq_false, if_false]
              by_cases hz : o.codeHash = 0
              · simp only [hz, if_true]; rw [← hvf.2.2.1, hz]
              · simp only [hz, if_false]; rw [hcode hz]; exact hvf.2.2.1
            · funext k
              simp only [Obj.slotView, alookup, Obj.base, Bool.false_eq_true, if_false]
              rw [hcmt.2.2 k]; exact hvf.2.2.2.2.2.1 k
            · funext k
              simp only [Obj.base, Bool.false_eq_true, if_false]
              show st'.slot a k = x.slot k
              rw [hcmt.2.2 k]; exact hvf.2.2.2.2.2.1 k
          · -- untouched cache entry: nothing written, and the reference keeps the account as it is
            have hsk := hown.skip hdel hd
            simp only [hoa] at hsk
            have hnt : a ∉ r.cur.touched := fun ht => hd (htd a ht (by simp [hl]))
            have hu := huntouched a x hx hnt
            rw [view_of_recs s.store st' hsok a hsk hF3, hu.1]
            simp only [hu.2.1, hu.2.2.1, Bool.or_self, Bool.and_false, Bool.not_false, if_true, Option.map_some, Option.some.injEq]
            simp only [viewR, AView.mk.injEq, true_and, and_true]
            refine ⟨rfl, ?_, hu.2.1⟩
            funext k; exact hu.2.2.2 k
  -- the code of every written-out account is present
  have hcodeC : ∀ ao ∈ s.objs, finDel s.dirtySet ao = false → ao.1 ∈ s.dirtySet → ao.2.codeHash ≠ 0 →
      st'.codeAt ao.2.codeHash = ao.2.codeHash := by
    intro ao hao hdel hd hz
    have hok := (h.cinv.objs ao.1 ao.2 (hmem ao hao)).2
    by_cases hc0 : ao.2.code = 0
    · have := hok.code
      simp only [Obj.getCode, hc0, ne_eq, not_true_eq_false, if_false, hz] at this
      exact hF3 _ this
    · exact hF4 ao hao hdel hd hc0 (hok.dc hc0)
  -- every account the reference keeps is non-empty
  have hkeptNonEmpty : ∀ a x', (r.finalise true).cur.get a = some x' → x'.empty = false := by
    intro a x' hx'
    rw [ref_finalise_get r h.nodup a] at hx'
    cases hx : r.cur.get a with
    | none => rw [hx] at hx'; simp at hx'
    | some x =>
      rw [hx] at hx'
      simp only [Option.filter] at hx'
      -- the account is kept: it is not deletable, or it is as the records have it
      have hxe : x.empty = false := by
        by_cases ht : a ∈ r.cur.touched
        · by_cases hse : (x.suicided || x.empty) = true
          · have : a ∈ r.cur.touched ++ r.sticky := List.mem_append_left _ ht
            simp [this, hse] at hx'
          · simp only [Bool.or_eq_true, not_or, Bool.not_eq_true] at hse; exact hse.2
        · exact (huntouched a x hx ht).2.2.1
      by_cases hk : (!(decide (a ∈ r.cur.touched ++ r.sticky) && (x.suicided || x.empty))) = true
      · rw [if_pos hk] at hx'
        simp only [Option.map_some, Option.some.injEq] at hx'
        subst hx'
        simpa [RAcct.empty] using hxe
      · rw [if_neg hk] at hx'; cases hx'
  have hsok' : StoreOK st' := by
    refine ⟨?_, ?_⟩
    · intro a o' hga
      have hv := hV a
      simp only [Store.view, hga, Option.map_some, RWorld.view] at hv
      cases hx' : (r.finalise true).cur.get a with
      | none => rw [hx'] at hv; cases hv
      | some x' =>
        rw [hx'] at hv
        simp only [Option.map_some, Option.some.injEq] at hv
        rw [empty_eq hv]; exact hkeptNonEmpty a x' hx'
    · intro a n hh hac hz
      cases hl : alookup a s.objs with
      | none =>
        have hnm : a ∉ s.objs.map (·.2.addr) := by
          rw [hkeys]; intro hm
          have := (mem_akeys_iff_alookup s.objs a).mp hm
          rw [hl] at this; cases this
        have hr := hF1 a hnm
        rw [hr.acct] at hac
        exact hF3 _ (hsok.codes a n hh hac hz)
      | some o =>
        have hcm : (a, o) ∈ s.objs := alookup_mem _ _ _ hl
        have hoa : o.addr = a := haddr (a, o) hcm
        have hown := hF2 (a, o) hcm
        cases hdel : finDel s.dirtySet (a, o) with
        | true =>
          have hd := hown.del hdel
          simp only [hoa] at hd
          rw [hd.1] at hac; cases hac
        | false =>
          by_cases hd : a ∈ s.dirtySet
          · have hcmt := hown.commit hdel hd
            simp only [hoa] at hcmt
            rw [hcmt.1] at hac
            simp only [Option.some.injEq, Prod.mk.injEq] at hac
            rw [← hac.2] at hz ⊢
            exact hcodeC (a, o) hcm hdel hd hz
          · have hsk := hown.skip hdel hd
            simp only [hoa] at hsk
            rw [hsk.acct] at hac
            exact hF3 _ (hsok.codes a n hh hac hz)
  -- the storage records of a deleted account are deleted with it
  have hclean : NoOrphanStorage s.store → NoOrphanStorage st' := by
    intro hcl a hga k
    cases hl : alookup a s.objs with
    | none =>
      have hnm : a ∉ s.objs.map (·.2.addr) := by
        rw [hkeys]; intro hm
        have := (mem_akeys_iff_alookup s.objs a).mp hm
        rw [hl] at this; cases this
      have hr := hF1 a hnm
      rw [getAccount_congr s.store st' a hr.acct hr.bal] at hga
      rw [hr.slot k]; exact hcl a hga k
    | some o =>
      have hcm : (a, o) ∈ s.objs := alookup_mem _ _ _ hl
      have hoa : o.addr = a := haddr (a, o) hcm
      have hown := hF2 (a, o) hcm
      cases hdel : finDel s.dirtySet (a, o) with
      | true =>
        have hd := hown.del hdel
        simp only [hoa] at hd
        exact hd.2.2 k
      | false =>
        by_cases hd : a ∈ s.dirtySet
        · have hcmt := hown.commit hdel hd
          simp only [hoa] at hcmt
          simp [Store.getAccount, hcmt.1] at hga
        · have hsk := hown.skip hdel hd
          simp only [hoa] at hsk
          rw [getAccount_congr s.store st' a hsk.acct hsk.bal] at hga
          rw [hsk.slot k]; exact hcl a hga k
  -- assemble
  have hf := abs_fields h
  have hfin : s.finalise c true = ({ s with store := st', objs := [], journal := Journal.new, refund := 0, revisions := [] }, false) := by
    simp only [Impl.finalise]
    have hds : (s.journal.dirties.map (·.1)).filter (fun a => (alookup a s.objs).isSome) = s.dirtySet := rfl
    rw [hds, find_none_all _ _ hnofail, takeWhile_all _ _ (fun ao hao => by simp [hnofail ao hao]), hst']
  rw [hfin]
  refine ⟨rfl, ?_, hclean⟩
  show Sim ({ s with store := st', objs := [], journal := Journal.new, refund := 0, revisions := [] } : Impl) (r.finalise true)
  have hview' : ∀ a, ({ s with store := st', objs := [], journal := Journal.new, refund := 0, revisions := [] } : Impl).view a = st'.view a := by
    intro a; simp [Impl.view, alookup]
  refine ⟨⟨by intro a o ha; simp [alookup] at ha, by simp [akeys], hsok'⟩, by intro e he; simp [Journal.new] at he, ?_, h.thash, h.nextRev,
    ?_, ?_, ?_, ?_, by intro x hx; simp at hx, by simp, by simp, by simp [Journal.new, JOK], JCnt.new, by simp [Journal.new, OOK]⟩
  · simp only [absI, absR, AW.mk.injEq]
    refine ⟨?_, by simp [Ref.finalise], ?_, ?_, ?_, ?_⟩
    · funext a; rw [hview' a]; exact hV a
    · funext h'; simp only [Ref.finalise]; exact hf.2.2.1 h'
    · simp only [Ref.finalise]; exact hf.2.2.2.1
    · simp only [Ref.finalise]; exact funext hf.2.2.2.2.1
    · simp only [Ref.finalise]; exact funext hf.2.2.2.2.2
  · intro a; simp [Ref.finalise, Journal.new]
  · intro a _; exact (hV a).symm
  · simp only [Ref.finalise]
    rw [akeys_mapVal (fun ar : Addr × RAcct => ({ ar.2 with cstor := ar.2.stor } : RAcct))]
    exact akeys_filter_nodup _ _ h.nodup
  · show All2 _ ([] : List (Nat × Nat)) (r.finalise true).stack
    simp [Ref.finalise, All2]

end OLP.Evm

/-
  C16 — model of the EVM state adapter `vm.CommitStateDB` (vm/statedb.go, vm/state_objects.go,
  vm/journal.go, vm/statedb_aux.go, vm/statedb_logs.go, vm/access_list.go) over the persistent
  records it keeps through `balance.NesterAccountKeeper` (data/balance/keeper.go) and
  `evm.ContractStore` (data/evm/contract.go), and of the reference semantics it is compared with.

    * `Impl`  — statement-by-statement port of the adapter at the interface level, *including what
                looks wrong* (DESIGN §4): object cache in first-insertion order, origin / dirty storage
                per object, suicided / deleted flags, the journal with the `revert` of every entry,
                the `dirties` slice with its `addressToJournalIndex` map, `validRevisions`,
                refund, logs, access list, `Finalise`, `Reset`.
    * `Ref`   — the textbook semantics: a world of accounts, a stack of saved worlds
                (snapshot = push a copy, revert = pop to it), `Finalise` = delete self-destructed
                and touched-empty accounts and promote current storage to committed storage.
                This is what go-ethereum's `state.StateDB` computes (the `evm` engine compares the
                two on every run).
    * `Client` — interaction trees over the interface: every deterministic client, in particular
                the EVM interpreter.

  Conventions.  Addresses, slots, values, amounts are naturals.  A contract code is the natural
  `0x01‖bytes` (`0` = no code); a code *hash* is identified with the code it hashes (Keccak is taken
  to be injective), so `emptyCodeHash` is `0` and the zero hash of a missing account is `none`.
  Where the Go code can panic the model returns `none` / `Out.panic`.
  Core-only: linked into the driver executable.
-/
import OLP.Base.Assoc

namespace OLP.Evm

abbrev Addr := Nat
abbrev Key := Nat
abbrev Val := Nat
abbrev Code := Nat

/-- constants of the code base: the storage layer's TOMBSTONE value (as a code) and the RIPEMD
    precompile address of the `touch` exception -/
structure Cfg where
  tomb : Code
  ripemd : Addr
  deriving Repr, DecidableEq

/-- number of bytes of a code `0x01‖bytes` -/
def codeLen (c : Code) : Nat := if c = 0 then 0 else Nat.log2 c / 8

/-! ## state objects -/

/-- `stateObject` (vm/state_objects.go) together with its `balance.EthAccount` -/
structure Obj where
  addr : Addr
  nonce : Nat                    -- account.Sequence
  bal : Nat                      -- account.Coins
  codeHash : Code                -- account.CodeHash (`0` = emptyCodeHash)
  code : Code                    -- so.code (`0` = nil / empty)
  dirtyCode : Bool
  origin : List (Key × Val)      -- originStorage + keyToOriginStorageIndex
  dirty : List (Key × Val)       -- dirtyStorage + keyToDirtyStorageIndex
  suicided : Bool
  deleted : Bool
  created : Bool                 -- made by `createObject` (8684164): no committed storage
  deriving Repr, DecidableEq

/-- `newStateObject` over `NewEthAccount(addr, coin)` -/
def Obj.fresh (a : Addr) (bal : Nat) : Obj :=
  { addr := a, nonce := 0, bal := bal, codeHash := 0, code := 0, dirtyCode := false,
    origin := [], dirty := [], suicided := false, deleted := false, created := false }

/-- the object `createObject` makes: `newStateObject` with `created` set -/
def Obj.make (a : Addr) (bal : Nat) : Obj := { Obj.fresh a bal with created := true }

/-- `stateObject.empty` -/
def Obj.empty (o : Obj) : Bool := o.nonce == 0 && o.bal == 0 && o.codeHash == 0

/-! ## persistent records -/

/-- what the adapter keeps in the chain state: `keeper_<a>` (Sequence, CodeHash), `b_<a>_OLT`,
    `contracts_ 01 <hash>` (code by hash), `contracts_ 02 <a> keccak(a‖k)` (storage slots) -/
structure Store where
  acct : List (Addr × (Nat × Code))
  bal : List (Addr × Nat)
  code : List (Code × Code)
  stor : List ((Addr × Key) × Val)
  deriving Repr, DecidableEq

def Store.empty : Store := { acct := [], bal := [], code := [], stor := [] }

/-- `balances.GetBalanceForCurr` (absent record = 0) -/
def Store.balOf (st : Store) (a : Addr) : Nat := (alookup a st.bal).getD 0

/-- `contractStore.Get(AddressStoragePrefix(a), keccak(a‖k))` (absent = zero hash) -/
def Store.slot (st : Store) (a : Addr) (k : Key) : Val := (alookup (a, k) st.stor).getD 0

/-- `contractStore.Get(KeyPrefixCode, h)` (absent = empty) -/
def Store.codeAt (st : Store) (h : Code) : Code := (alookup h st.code).getD 0

def Store.setSlot (st : Store) (a : Addr) (k : Key) (v : Val) : Store :=
  { st with stor := upsert st.stor (a, k) v }

def Store.delSlot (st : Store) (a : Addr) (k : Key) : Store :=
  { st with stor := aerase st.stor (a, k) }

/-- `ContractStore.DeleteStorage(a)` (8684164): every storage record of the address, committed or
    pending, is deleted -/
def Store.delStorage (st : Store) (a : Addr) : Store :=
  { st with stor := st.stor.filter fun x => x.1.1 != a }

/-- `contractStore.Set(KeyPrefixCode, h, code)` when the store accepts the value.  `State.Set`
    refuses a value equal to the TOMBSTONE marker (b55dd24, `ErrReservedValue`); `commitCode`
    returns that error and `Finalise` stops with it (078c4d3, see `Impl.finalise`). -/
def Store.setCode (c : Cfg) (st : Store) (h code : Code) : Store :=
  if code = c.tomb then st else { st with code := upsert st.code h code }

/-- `NesterAccountKeeper.SetAccount`: the keeper record and the balance record -/
def Store.setAccount (st : Store) (o : Obj) : Store :=
  { st with acct := upsert st.acct o.addr (o.nonce, o.codeHash), bal := upsert st.bal o.addr o.bal }

/-- `NesterAccountKeeper.RemoveAccount` (da864f3, c90a103): deletes `keeper_<a>` and, when the
    balance record is not zero, writes a zero amount: a removed account is gone with whatever it
    holds.  (The storage records go in `deleteStateObject`, see `finaliseObj`; code records stay:
    they are content-addressed.) -/
def Store.removeAccount (st : Store) (a : Addr) : Store :=
  { st with acct := aerase st.acct a, bal := if st.balOf a = 0 then st.bal else upsert st.bal a 0 }

/-- `NesterAccountKeeper.GetAccount` + `newStateObject`: the keeper record with the balance record
    attached; without a keeper record, `legacyFix` makes an account of any non-zero balance -/
def Store.getAccount (st : Store) (a : Addr) : Option Obj :=
  match alookup a st.acct with
  | some (n, h) => some { Obj.fresh a (st.balOf a) with nonce := n, codeHash := h }
  | none => if st.balOf a = 0 then none else some (Obj.fresh a (st.balOf a))

/-! ### storage and code of one object -/

/-- the committed value of a slot below the object's caches: the record, but nothing for a
    `created` object (8684164; go-ethereum: a new object has an empty trie) -/
def Obj.base (st : Store) (o : Obj) (k : Key) : Val := if o.created then 0 else st.slot o.addr k

/-- `stateObject.GetCommittedState`: the cached original value, else the record (then cached);
    a `created` object does not fall through to the records -/
def Obj.getCommitted (st : Store) (o : Obj) (k : Key) : Obj × Val :=
  match alookup k o.origin with
  | some v => (o, v)
  | none => let v := o.base st k; ({ o with origin := o.origin ++ [(k, v)] }, v)

/-- `stateObject.GetState` -/
def Obj.getState (st : Store) (o : Obj) (k : Key) : Obj × Val :=
  match alookup k o.dirty with
  | some v => (o, v)
  | none => o.getCommitted st k

/-- `stateObject.setState` -/
def Obj.setStateRaw (o : Obj) (k : Key) (v : Val) : Obj := { o with dirty := upsert o.dirty k v }

/-- `stateObject.Code` -/
def Obj.getCode (st : Store) (o : Obj) : Code :=
  if o.code ≠ 0 then o.code else if o.codeHash = 0 then 0 else st.codeAt o.codeHash

/-- `stateObject.setCode` -/
def Obj.setCodeRaw (o : Obj) (h code : Code) : Obj := { o with code := code, codeHash := h, dirtyCode := true }

/-- one iteration of the loop of `stateObject.commitState` -/
def commitSlot (a : Addr) (acc : Store × List (Key × Val)) (kv : Key × Val) : Store × List (Key × Val) :=
  let st := if kv.2 = 0 then acc.1.delSlot a kv.1 else acc.1
  match alookup kv.1 acc.2 with
  | none => (st, acc.2)                                   -- `if !ok { continue }`
  | some ov =>
    if kv.2 = 0 then (st, aerase acc.2 kv.1)              -- delete(keyToOriginStorageIndex); continue
    else if kv.2 = ov then (st, acc.2)                    -- no-op change
    else (st.setSlot a kv.1 kv.2, upsert acc.2 kv.1 kv.2)

/-- `stateObject.commitState` -/
def Obj.commitState (st : Store) (o : Obj) : Store := (o.dirty.foldl (commitSlot o.addr) (st, o.origin)).1

/-! ## the journal -/

inductive Entry where
  | createObject (a : Addr)
  | resetObject (prev : Obj)
  | suicide (a : Addr) (prev : Bool) (prevBal : Nat)
  | balance (a : Addr) (prev : Nat)
  | nonce (a : Addr) (prev : Nat)
  | storage (a : Addr) (k : Key) (prev : Val)
  | code (a : Addr) (prevCode prevHash : Code)
  | refund (prev : Nat)
  | addLog (txhash : Nat)
  | touch (a : Addr)
  | alAddr (a : Addr)
  | alSlot (a : Addr) (k : Key)
  deriving Repr, DecidableEq

/-- `journalEntry.dirtied` -/
def Entry.dirtied : Entry → Option Addr
  | .createObject a => some a
  | .resetObject _ => none
  | .suicide a _ _ => some a
  | .balance a _ => some a
  | .nonce a _ => some a
  | .storage a _ _ => some a
  | .code a _ _ => some a
  | .refund _ => none
  | .addLog _ => none
  | .touch a => some a
  | .alAddr _ => none
  | .alSlot _ _ => none

/-- `journal`: the entries and the dirty counters.  `dirties` (a slice of {address, changes}) and
    `addressToJournalIndex` are kept consistent by the code (append on first use; `deleteDirty`
    removes the element and re-indexes the ones behind it, f45414e): an association list in
    first-use order, like `stateObjects` + `addressToObjectIndex`. -/
structure Journal where
  entries : List Entry            -- oldest first
  dirties : List (Addr × Nat)     -- address ↦ changes
  deriving Repr, DecidableEq

def Journal.new : Journal := { entries := [], dirties := [] }

/-- `journal.getDirty` -/
def Journal.getDirty (j : Journal) (a : Addr) : Nat := (alookup a j.dirties).getD 0

/-- `journal.addDirty` -/
def Journal.addDirty (j : Journal) (a : Addr) : Journal :=
  { j with dirties := upsert j.dirties a (j.getDirty a + 1) }

/-- `journal.substractDirty` -/
def Journal.subDirty (j : Journal) (a : Addr) : Journal :=
  match alookup a j.dirties with
  | none => j
  | some n => if n = 0 then j else { j with dirties := upsert j.dirties a (n - 1) }

/-- `journal.deleteDirty` -/
def Journal.deleteDirty (j : Journal) (a : Addr) : Journal := { j with dirties := aerase j.dirties a }

/-- `journal.append` -/
def Journal.append (j : Journal) (e : Entry) : Journal :=
  let j1 := { j with entries := j.entries ++ [e] }
  match e.dirtied with
  | none => j1
  | some a => j1.addDirty a

/-- the dirty bookkeeping of one step of `journal.revert` -/
def Journal.undirty (j : Journal) (e : Entry) : Journal :=
  match e.dirtied with
  | none => j
  | some a =>
    let j1 := j.subDirty a
    if j1.getDirty a = 0 then j1.deleteDirty a else j1

/-! ## the adapter -/

/-- `CommitStateDB` (fields that matter at the interface) over the persistent records -/
structure Impl where
  store : Store
  objs : List (Addr × Obj)          -- stateObjects + addressToObjectIndex: first-insertion order
  journal : Journal
  revisions : List (Nat × Nat)      -- validRevisions: (id, journalIndex)
  nextRev : Nat
  refund : Nat
  thash : Nat
  logs : List (Nat × List (Nat × Addr × Nat))   -- thash ↦ logs (index, address, payload)
  logSize : Nat
  alAddrs : List Addr               -- accessList.addresses (keys)
  alSlots : List (Addr × Key)       -- accessList.slots (flattened)
  deriving Repr, DecidableEq

/-- `NewCommitStateDB` over given records -/
def Impl.init (st : Store) : Impl :=
  { store := st, objs := [], journal := Journal.new, revisions := [], nextRev := 0, refund := 0,
    thash := 0, logs := [], logSize := 0, alAddrs := [], alSlots := [] }

/-- results of interface calls -/
inductive Out where
  | unit
  | nat (n : Nat)
  | bool (b : Bool)
  | bool2 (a b : Bool)
  | hash (h : Option Code)
  | code (c : Code)
  | logs (l : List (Nat × Addr × Nat))
  | panic
  deriving Repr, DecidableEq

/-- `getStateObject`: the cached object unless flagged deleted, else the account of the keeper
    (which is then cached) -/
def Impl.getObj (s : Impl) (a : Addr) : Impl × Option Obj :=
  match alookup a s.objs with
  | some o => if o.deleted then (s, none) else (s, some o)
  | none =>
    match s.store.getAccount a with
    | none => (s, none)
    | some o => ({ s with objs := upsert s.objs a o }, some o)

/-- `setStateObject` / mutation of a cached object through its pointer -/
def Impl.setObj (s : Impl) (o : Obj) : Impl := { s with objs := upsert s.objs o.addr o }

def Impl.jappend (s : Impl) (e : Entry) : Option Impl :=
  some { s with journal := s.journal.append e }

/-- `createObject`: the new account starts from the *balance record* of the address
    (`NewAccountWithAddress`) and is flagged `created` -/
def Impl.createObject (s : Impl) (a : Addr) : Option (Impl × Obj × Option Obj) :=
  let (s1, prev) := s.getObj a
  let newObj := Obj.make a (s1.store.balOf a)
  let e := match prev with
    | none => Entry.createObject a
    | some p => Entry.resetObject p
  (s1.jappend e).map fun s2 => (s2.setObj newObj, newObj, prev)

/-- `GetOrNewStateObject` -/
def Impl.getOrNew (s : Impl) (a : Addr) : Option (Impl × Obj) :=
  match s.getObj a with
  | (s1, some o) => some (s1, o)
  | (s1, none) => (s1.createObject a).map fun r => (r.1, r.2.1)

/-- `stateObject.SetBalance` (journaled) -/
def Impl.objSetBalance (s : Impl) (o : Obj) (n : Nat) : Option Impl :=
  (s.jappend (.balance o.addr o.bal)).map fun s1 => s1.setObj { o with bal := n }

/-- `CreateAccount` -/
def Impl.createAccount (s : Impl) (a : Addr) : Option Impl :=
  match s.createObject a with
  | none => none
  | some (s1, _, none) => some s1
  | some (s1, newObj, some prev) => s1.objSetBalance newObj prev.bal

/-- `stateObject.touch` -/
def Impl.touch (c : Cfg) (s : Impl) (a : Addr) : Option Impl :=
  match s.jappend (.touch a) with
  | none => none
  | some s1 =>
    if a = c.ripemd then some { s1 with journal := s1.journal.addDirty a } else some s1

/-- `AddBalance` -/
def Impl.addBalance (c : Cfg) (s : Impl) (a : Addr) (n : Nat) : Option Impl :=
  match s.getOrNew a with
  | none => none
  | some (s1, o) =>
    if n = 0 then (if o.empty then s1.touch c a else some s1)
    else (s1.jappend (.balance a o.bal)).map fun s2 => s2.setObj { o with bal := o.bal + n }

/-- `SubBalance` (`Coin.Minus` refuses to go below zero: panic "Failed to minus balance") -/
def Impl.subBalance (s : Impl) (a : Addr) (n : Nat) : Option Impl :=
  match s.getOrNew a with
  | none => none
  | some (s1, o) =>
    if n = 0 then some s1
    else match s1.jappend (.balance a o.bal) with
      | none => none
      | some s2 => if n > o.bal then none else some (s2.setObj { o with bal := o.bal - n })

/-- `SetNonce` -/
def Impl.setNonce (s : Impl) (a : Addr) (n : Nat) : Option Impl :=
  match s.getOrNew a with
  | none => none
  | some (s1, o) => (s1.jappend (.nonce a o.nonce)).map fun s2 => s2.setObj { o with nonce := n }

/-- `SetCode` -/
def Impl.setCode (s : Impl) (a : Addr) (code : Code) : Option Impl :=
  match s.getOrNew a with
  | none => none
  | some (s1, o) =>
    (s1.jappend (.code a (o.getCode s1.store) o.codeHash)).map fun s2 => s2.setObj (o.setCodeRaw code code)

/-- `SetState` -/
def Impl.setState (s : Impl) (a : Addr) (k : Key) (v : Val) : Option Impl :=
  match s.getOrNew a with
  | none => none
  | some (s1, o) =>
    let (o1, prev) := o.getState s1.store k
    if prev = v then some (s1.setObj o1)
    else (s1.jappend (.storage a k prev)).map fun s2 => s2.setObj (o1.setStateRaw k v)

/-- `Suicide` -/
def Impl.suicide (s : Impl) (a : Addr) : Option (Impl × Bool) :=
  match s.getObj a with
  | (s1, none) => some (s1, false)
  | (s1, some o) =>
    match s1.jappend (.suicide a o.suicided o.bal) with
    | none => none
    | some s2 =>
      let o1 := { o with suicided := true }
      (s2.objSetBalance o1 0).map fun s3 => (s3, true)

/-- `AddLog` -/
def Impl.addLog (s : Impl) (a : Addr) (payload : Nat) : Option Impl :=
  (s.jappend (.addLog s.thash)).map fun s1 =>
    { s1 with logs := upsert s1.logs s1.thash (((alookup s1.thash s1.logs).getD []) ++ [(s1.logSize, a, payload)]),
              logSize := s1.logSize + 1 }

/-- `AddAddressToAccessList` -/
def Impl.alAddAddr (s : Impl) (a : Addr) : Option Impl :=
  if a ∈ s.alAddrs then some s
  else ({ s with alAddrs := s.alAddrs ++ [a] } : Impl).jappend (.alAddr a)

/-- `AddSlotToAccessList` -/
def Impl.alAddSlot (s : Impl) (a : Addr) (k : Key) : Option Impl :=
  let addrChange := decide (a ∉ s.alAddrs)
  let slotChange := addrChange || decide ((a, k) ∉ s.alSlots)
  let s1 : Impl := { s with alAddrs := if addrChange then s.alAddrs ++ [a] else s.alAddrs,
                            alSlots := if slotChange then s.alSlots ++ [(a, k)] else s.alSlots }
  match (if addrChange then s1.jappend (.alAddr a) else some s1) with
  | none => none
  | some s2 => if slotChange then s2.jappend (.alSlot a k) else some s2

/-! ### reverting -/

/-- `journalEntry.revert` for every entry kind (`balanceChange.revert` and `suicideChange.revert`
    use the non-journaling `setBalance` since d411c44) -/
def Impl.revertEntry (s : Impl) : Entry → Option Impl
  | .createObject a => some { s with objs := aerase s.objs a }
  | .resetObject prev => some (s.setObj prev)
  | .suicide a prev prevBal =>
    match s.getObj a with
    | (s1, none) => some s1
    | (s1, some o) => some (s1.setObj { o with suicided := prev, bal := prevBal })
  | .balance a prev =>
    match s.getObj a with
    | (_, none) => none                        -- nil dereference
    | (s1, some o) => some (s1.setObj { o with bal := prev })
  | .nonce a prev =>
    match s.getObj a with
    | (_, none) => none
    | (s1, some o) => some (s1.setObj { o with nonce := prev })
  | .storage a k prev =>
    match s.getObj a with
    | (_, none) => none
    | (s1, some o) => some (s1.setObj (o.setStateRaw k prev))
  | .code a prevCode prevHash =>
    match s.getObj a with
    | (_, none) => none
    | (s1, some o) => some (s1.setObj (o.setCodeRaw prevHash prevCode))
  | .refund prev => some { s with refund := prev }
  | .addLog h =>
    match alookup h s.logs with
    | none => none
    | some l =>
      if l.length = 0 then none
      else if l.length = 1 then some { s with logs := aerase s.logs h, logSize := s.logSize - 1 }
      else some { s with logs := upsert s.logs h l.dropLast, logSize := s.logSize - 1 }
  | .touch _ => some s
  | .alAddr a => some { s with alAddrs := s.alAddrs.erase a }
  | .alSlot a k => some { s with alSlots := s.alSlots.erase (a, k) }

/-- one step of the loop of `journal.revert`: undo the last entry, fix the dirty count, drop it -/
def Impl.undoLast (s : Impl) : Option Impl :=
  match s.journal.entries.getLast? with
  | none => some s
  | some e =>
    match s.revertEntry e with
    | none => none
    | some s1 => some { s1 with journal := { s1.journal.undirty e with entries := s.journal.entries.dropLast } }

/-- `journal.revert(statedb, snapshot)` -/
def Impl.revertTo (s : Impl) (snapshot : Nat) : Nat → Option Impl
  | 0 => some s
  | n + 1 =>
    if s.journal.entries.length ≤ snapshot then some s
    else match s.undoLast with
      | none => none
      | some s1 => s1.revertTo snapshot n

/-- `sort.Search(len, id ≥ revID)` on the ascending revision ids -/
def findRev (revs : List (Nat × Nat)) (id : Nat) : Nat := (revs.takeWhile (fun r => r.1 < id)).length

/-- `RevertToSnapshot` -/
def Impl.revertToSnapshot (s : Impl) (id : Nat) : Option Impl :=
  let idx := findRev s.revisions id
  match s.revisions[idx]? with
  | none => none
  | some (rid, jidx) =>
    if rid ≠ id then none
    else (s.revertTo jidx (s.journal.entries.length)).map fun s1 => { s1 with revisions := s.revisions.take idx }

/-- `Snapshot` -/
def Impl.snapshot (s : Impl) : Impl × Nat :=
  ({ s with revisions := s.revisions ++ [(s.nextRev, s.journal.entries.length)], nextRev := s.nextRev + 1 }, s.nextRev)

/-! ### Finalise, Reset, Prepare -/

/-- the records `commitState` of this object starts from: a `created` object is written out over
    nothing, what the store holds under its address belonged to the replaced account (8684164) -/
def Obj.baseStore (st : Store) (o : Obj) : Store := if o.created then st.delStorage o.addr else st

/-- the body of the `for _, stateEntry := range s.stateObjects` loop of `Finalise` -/
def finaliseObj (c : Cfg) (deleteEmpty : Bool) (dirtySet : List Addr) (st : Store) (ao : Addr × Obj) : Store :=
  let o := ao.2
  let isDirty := decide (ao.1 ∈ dirtySet)
  if o.suicided || (isDirty && deleteEmpty && o.empty) then
    (st.removeAccount o.addr).delStorage o.addr                                        -- deleteStateObject
  else if isDirty then
    let st1 := o.commitState (o.baseStore st)
    let st2 := if o.code ≠ 0 && o.dirtyCode then st1.setCode c o.codeHash o.code else st1
    st2.setAccount o                                                                   -- updateStateObject
  else st

/-- `commitCode` of this object fails: it is written out and its code is the marker the store refuses -/
def commitFails (c : Cfg) (deleteEmpty : Bool) (dirtySet : List Addr) (ao : Addr × Obj) : Bool :=
  let isDirty := decide (ao.1 ∈ dirtySet)
  !(ao.2.suicided || (isDirty && deleteEmpty && ao.2.empty)) && isDirty &&
    (ao.2.code != 0 && ao.2.dirtyCode && ao.2.code == c.tomb)

/-- `Finalise(deleteEmptyObjects)` and whether it returned an error.  The loop stops at the first
    object whose `commitCode` fails (its storage has been written by then, its account has not);
    the deferred function clears the object cache, the journal, the refund and the revisions in
    either case (not the revision counter, the logs or the access list). -/
def Impl.finalise (c : Cfg) (s : Impl) (deleteEmpty : Bool) : Impl × Bool :=
  let dirtySet := (s.journal.dirties.map (·.1)).filter (fun a => (alookup a s.objs).isSome)
  let done := s.objs.takeWhile (fun ao => !commitFails c deleteEmpty dirtySet ao)
  let st := done.foldl (finaliseObj c deleteEmpty dirtySet) s.store
  match s.objs.find? (commitFails c deleteEmpty dirtySet) with
  | none => ({ s with store := st, objs := [], journal := Journal.new, refund := 0, revisions := [] }, false)
  | some ao =>
    ({ s with store := ao.2.commitState (ao.2.baseStore st), objs := [], journal := Journal.new, refund := 0, revisions := [] }, true)

/-- `Reset` -/
def Impl.reset (s : Impl) : Impl := Impl.init s.store

/-- `Prepare(thash)` -/
def Impl.prepare (s : Impl) (h : Nat) : Impl := { s with thash := h, alAddrs := [], alSlots := [] }

/-! ### the interface -/

inductive Op where
  | createAccount (a : Addr)
  | subBalance (a : Addr) (n : Nat)
  | addBalance (a : Addr) (n : Nat)
  | getBalance (a : Addr)
  | getNonce (a : Addr)
  | setNonce (a : Addr) (n : Nat)
  | getCodeHash (a : Addr)
  | getCode (a : Addr)
  | setCode (a : Addr) (code : Code)
  | getCodeSize (a : Addr)
  | addRefund (n : Nat)
  | subRefund (n : Nat)
  | getRefund
  | getCommittedState (a : Addr) (k : Key)
  | getState (a : Addr) (k : Key)
  | setState (a : Addr) (k : Key) (v : Val)
  | suicide (a : Addr)
  | hasSuicided (a : Addr)
  | exist (a : Addr)
  | empty (a : Addr)
  | addAddressToAccessList (a : Addr)
  | addSlotToAccessList (a : Addr) (k : Key)
  | addressInAccessList (a : Addr)
  | slotInAccessList (a : Addr) (k : Key)
  | prepare (h : Nat)
  | addLog (a : Addr) (payload : Nat)
  | getLogs
  | snapshot
  | revertToSnapshot (id : Nat)
  | finalise (deleteEmpty : Bool)
  | reset
  deriving Repr, DecidableEq

def orPanic (s : Impl) (r : Option Impl) : Impl × Out :=
  match r with
  | some s' => (s', .unit)
  | none => (s, .panic)

/-- a read through `getStateObject` -/
def Impl.readObj (s : Impl) (a : Addr) (f : Impl → Option Obj → Impl × Out) : Impl × Out :=
  let (s1, o) := s.getObj a
  f s1 o

/-- one interface call on the adapter -/
def Impl.step (c : Cfg) (s : Impl) : Op → Impl × Out
  | .createAccount a => orPanic s (s.createAccount a)
  | .subBalance a n => orPanic s (s.subBalance a n)
  | .addBalance a n => orPanic s (s.addBalance c a n)
  | .getBalance a => s.readObj a fun s1 o => (s1, .nat (match o with | some o => o.bal | none => 0))
  | .getNonce a => s.readObj a fun s1 o => (s1, .nat (match o with | some o => o.nonce | none => 0))
  | .setNonce a n => orPanic s (s.setNonce a n)
  | .getCodeHash a => s.readObj a fun s1 o => (s1, .hash (o.map (·.codeHash)))
  | .getCode a => s.readObj a fun s1 o => (s1, .code (match o with | some o => o.getCode s1.store | none => 0))
  | .setCode a code => orPanic s (s.setCode a code)
  | .getCodeSize a => s.readObj a fun s1 o =>
      (s1, .nat (match o with
        | some o => if o.code ≠ 0 then codeLen o.code else codeLen (o.getCode s1.store)
        | none => 0))
  | .addRefund n =>
    match s.jappend (.refund s.refund) with
    | none => (s, .panic)
    | some s1 => ({ s1 with refund := s1.refund + n }, .unit)
  | .subRefund n =>
    match s.jappend (.refund s.refund) with
    | none => (s, .panic)
    | some s1 => if n > s1.refund then (s, .panic) else ({ s1 with refund := s1.refund - n }, .unit)
  | .getRefund => (s, .nat s.refund)
  | .getCommittedState a k => s.readObj a fun s1 o =>
      match o with
      | some o => let (o1, v) := o.getCommitted s1.store k; (s1.setObj o1, .nat v)
      | none => (s1, .nat 0)
  | .getState a k => s.readObj a fun s1 o =>
      match o with
      | some o => let (o1, v) := o.getState s1.store k; (s1.setObj o1, .nat v)
      | none => (s1, .nat 0)
  | .setState a k v => orPanic s (s.setState a k v)
  | .suicide a =>
    match s.suicide a with
    | none => (s, .panic)
    | some (s1, b) => (s1, .bool b)
  | .hasSuicided a => s.readObj a fun s1 o => (s1, .bool (match o with | some o => o.suicided | none => false))
  | .exist a => s.readObj a fun s1 o => (s1, .bool o.isSome)
  | .empty a => s.readObj a fun s1 o => (s1, .bool (match o with | some o => o.empty | none => true))
  | .addAddressToAccessList a => orPanic s (s.alAddAddr a)
  | .addSlotToAccessList a k => orPanic s (s.alAddSlot a k)
  | .addressInAccessList a => (s, .bool (decide (a ∈ s.alAddrs)))
  | .slotInAccessList a k =>
    (s, if a ∈ s.alAddrs then .bool2 true (decide ((a, k) ∈ s.alSlots)) else .bool2 false false)
  | .prepare h => (s.prepare h, .unit)
  | .addLog a p => orPanic s (s.addLog a p)
  | .getLogs => (s, .logs ((alookup s.thash s.logs).getD []))
  | .snapshot => let (s1, id) := s.snapshot; (s1, .nat id)
  | .revertToSnapshot id => orPanic s (s.revertToSnapshot id)
  | .finalise b => let (s1, failed) := s.finalise c b; (s1, if failed then .panic else .unit)   -- an error return prints as `panic`
  | .reset => (s.reset, .unit)

/-- outputs of a call sequence; a panic ends it -/
def Impl.run (c : Cfg) (s : Impl) : List Op → List Out
  | [] => []
  | op :: ops =>
    if (s.step c op).2 = .panic then [.panic] else (s.step c op).2 :: Impl.run c (s.step c op).1 ops


/-- the adapter state after a call sequence (a panic ends it) -/
def Impl.endState (c : Cfg) : Impl → List Op → Impl
  | s, [] => s
  | s, op :: ops => if (s.step c op).2 = .panic then s else Impl.endState c (s.step c op).1 ops

/-! ### guards: the conditions under which the adapter is claimed to agree with the reference

  Each condition is a decidable predicate on the adapter's own state; the driver evaluates them on
  every line of every correspondence run:
    marker code   `Finalise` returns the store's error: an object is written out whose code is the
                  store's deletion marker (3 bytes e2 9b bc); the store refuses the record and the
                  transaction fails, which the reference semantics has no counterpart for (a
                  documented exclusion, not a silent divergence; reachable by a deployment that
                  returns exactly those three bytes);
    empties       `Finalise(false)` (empty accounts would stay in the records; the transaction path
                  calls `Finalise(true)` only, vm/evm.go `Apply`);
    boundaries    `Prepare` / `Reset` with a non-empty journal (the transaction path calls `Prepare`
                  at the top of DeliverTx and `Reset` in EndBlock, each after the `Finalise` of the
                  last transaction, whose deferred function empties the journal).
  Nothing else.  In particular nothing about storage records (8684164: they go with the account,
  and a `created` object does not read those of its predecessor), nothing about the RIPEMD touch
  exception (its extra dirty count and the reference's sticky touch decide nothing: the records
  hold no empty account), and: that no journal operation fails, that `Finalise` sees every account
  with a live journal entry as dirty, and that every dirty slot has its original value cached when
  `commitState` runs (it skips the others) are proved invariants (Lemmas.lean `JOK`, `JCnt`, `OOK`). -/

/-- decidable sanity of the records (`StoreOK` in Lemmas.lean): no empty account, the code of every
    account present.  Kept by every call inside the guards (`Sim.cinv`), true of the empty records.
    Storage records under an address that has no account (left by deletions before 8684164) are
    allowed: a `created` object does not read them and they are deleted when it is written out. -/
def Store.sane (st : Store) : Bool :=
  (st.acct.all fun x => !(x.2.1 == 0 && x.2.2 == 0 && st.balOf x.1 == 0)) &&
  (st.acct.all fun x => x.2.2 == 0 || st.codeAt x.2.2 == x.2.2)

/-- `GetBalance(a)`, without caching -/
def Impl.balAt (s : Impl) (a : Addr) : Nat :=
  match alookup a s.objs with
  | some o => if o.deleted then 0 else o.bal
  | none => match s.store.getAccount a with
    | some o => o.bal
    | none => 0

/-- the addresses `Finalise` treats as dirty -/
def Impl.dirtySet (s : Impl) : List Addr :=
  (s.journal.dirties.map (·.1)).filter (fun a => (alookup a s.objs).isSome)

/-- every dirty slot has its original value cached (`commitState` skips the others); an invariant, see `OOK` -/
def Obj.dirtyHasOrigin (o : Obj) : Bool := o.dirty.all fun kv => (alookup kv.1 o.origin).isSome

/-- `Finalise(true)` does not return the store's error: no object that is written out has the
    deletion marker as its new code -/
def Impl.finaliseGuard (c : Cfg) (s : Impl) : Bool :=
  s.objs.all fun ao => !commitFails c true s.dirtySet ao

def Impl.guard (c : Cfg) (s : Impl) : Op → Bool
  | .prepare _ => s.journal.entries.isEmpty && s.revisions.isEmpty
  | .reset => s.journal.entries.isEmpty
  | .finalise b => b && s.finaliseGuard c
  | _ => true

/-- the only panics of the adapter (Props/C16.lean `panics_are_shared`): the ones the reference shares -/
def Impl.legitPanic (s : Impl) : Op → Bool
  | .subRefund n => decide (n > s.refund)
  | .subBalance a n => decide (n > s.balAt a)
  | .revertToSnapshot id =>
    match s.revisions[findRev s.revisions id]? with
    | some (rid, _) => rid != id
    | none => true
  | _ => false

def Impl.safeStep (c : Cfg) (s : Impl) (op : Op) : Bool := s.guard c op

/-- the guards hold at every step of the run -/
def Impl.safeRun (c : Cfg) : Impl → List Op → Bool
  | _, [] => true
  | s, op :: ops => s.safeStep c op && ((s.step c op).2 == .panic || Impl.safeRun c (s.step c op).1 ops)

/-! ## the reference semantics -/

structure RAcct where
  nonce : Nat
  bal : Nat
  code : Code
  stor : List (Key × Val)      -- current storage (absent = 0)
  cstor : List (Key × Val)     -- committed storage: as of the last Finalise, empty for an account created since
  suicided : Bool
  deriving Repr, DecidableEq

def RAcct.fresh (bal : Nat) : RAcct := { nonce := 0, bal := bal, code := 0, stor := [], cstor := [], suicided := false }

def RAcct.empty (r : RAcct) : Bool := r.nonce == 0 && r.bal == 0 && r.code == 0

def RAcct.slot (r : RAcct) (k : Key) : Val := (alookup k r.stor).getD 0
def RAcct.cslot (r : RAcct) (k : Key) : Val := (alookup k r.cstor).getD 0

/-- everything a snapshot saves -/
structure RWorld where
  accts : List (Addr × RAcct)
  touched : List Addr                       -- accounts touched since the last Finalise (EIP-161)
  refund : Nat
  logs : List (Nat × Nat × Addr × Nat)      -- (tx hash, index, address, payload), oldest first
  alAddrs : List Addr
  alSlots : List (Addr × Key)
  deriving Repr, DecidableEq

structure Ref where
  cur : RWorld
  stack : List (Nat × RWorld)     -- saved worlds with their revision ids, oldest first
  nextRev : Nat
  thash : Nat
  sticky : List Addr              -- touches of the RIPEMD precompile survive reverts (consensus exception)
  deriving Repr, DecidableEq

def RWorld.get (w : RWorld) (a : Addr) : Option RAcct := alookup a w.accts
def RWorld.put (w : RWorld) (a : Addr) (r : RAcct) : RWorld := { w with accts := upsert w.accts a r, touched := w.touched ++ [a] }

def Ref.init (accts : List (Addr × RAcct)) : Ref :=
  { cur := { accts := accts, touched := [], refund := 0, logs := [], alAddrs := [], alSlots := [] },
    stack := [], nextRev := 0, thash := 0, sticky := [] }

/-- the account, created (and thereby touched) when missing -/
def RWorld.getOrNew (w : RWorld) (a : Addr) : RWorld × RAcct :=
  match w.get a with
  | some r => (w, r)
  | none => (w.put a (RAcct.fresh 0), RAcct.fresh 0)

def Ref.withCur (r : Ref) (w : RWorld) : Ref := { r with cur := w }

/-- deletion rule of `Finalise` for the touched accounts -/
def rfinaliseAcct (deleteEmpty : Bool) (touched : List Addr) (ar : Addr × RAcct) : Bool :=
  !(decide (ar.1 ∈ touched) && (ar.2.suicided || (deleteEmpty && ar.2.empty)))

def Ref.finalise (r : Ref) (deleteEmpty : Bool) : Ref :=
  let t := r.cur.touched ++ r.sticky
  let kept := r.cur.accts.filter (rfinaliseAcct deleteEmpty t)
  { r with cur := { r.cur with accts := kept.map (fun ar => (ar.1, { ar.2 with cstor := ar.2.stor })),
                               touched := [], refund := 0 },
           stack := [], sticky := [] }

/-- one interface call on the reference -/
def Ref.step (c : Cfg) (r : Ref) : Op → Ref × Out
  | .createAccount a =>
    let bal := match r.cur.get a with | some p => p.bal | none => 0
    (r.withCur (r.cur.put a (RAcct.fresh bal)), .unit)
  | .subBalance a n =>
    let (w, x) := r.cur.getOrNew a
    if n = 0 then (r.withCur w, .unit)
    else if n > x.bal then (r, .panic)
    else (r.withCur (w.put a { x with bal := x.bal - n }), .unit)
  | .addBalance a n =>
    let (w, x) := r.cur.getOrNew a
    if n = 0 then
      if x.empty then
        ({ r with cur := { w with touched := w.touched ++ [a] },
                  sticky := if a = c.ripemd then r.sticky ++ [a] else r.sticky }, .unit)
      else (r.withCur w, .unit)
    else (r.withCur (w.put a { x with bal := x.bal + n }), .unit)
  | .getBalance a => (r, .nat (match r.cur.get a with | some x => x.bal | none => 0))
  | .getNonce a => (r, .nat (match r.cur.get a with | some x => x.nonce | none => 0))
  | .setNonce a n => let (w, x) := r.cur.getOrNew a; (r.withCur (w.put a { x with nonce := n }), .unit)
  | .getCodeHash a => (r, .hash ((r.cur.get a).map (·.code)))
  | .getCode a => (r, .code (match r.cur.get a with | some x => x.code | none => 0))
  | .setCode a code => let (w, x) := r.cur.getOrNew a; (r.withCur (w.put a { x with code := code }), .unit)
  | .getCodeSize a => (r, .nat (match r.cur.get a with | some x => codeLen x.code | none => 0))
  | .addRefund n => (r.withCur { r.cur with refund := r.cur.refund + n }, .unit)
  | .subRefund n => if n > r.cur.refund then (r, .panic) else (r.withCur { r.cur with refund := r.cur.refund - n }, .unit)
  | .getRefund => (r, .nat r.cur.refund)
  | .getCommittedState a k => (r, .nat (match r.cur.get a with | some x => x.cslot k | none => 0))
  | .getState a k => (r, .nat (match r.cur.get a with | some x => x.slot k | none => 0))
  | .setState a k v =>
    let (w, x) := r.cur.getOrNew a
    if x.slot k = v then (r.withCur w, .unit)
    else (r.withCur (w.put a { x with stor := upsert x.stor k v }), .unit)
  | .suicide a =>
    match r.cur.get a with
    | none => (r, .bool false)
    | some x => (r.withCur (r.cur.put a { x with suicided := true, bal := 0 }), .bool true)
  | .hasSuicided a => (r, .bool (match r.cur.get a with | some x => x.suicided | none => false))
  | .exist a => (r, .bool (r.cur.get a).isSome)
  | .empty a => (r, .bool (match r.cur.get a with | some x => x.empty | none => true))
  | .addAddressToAccessList a =>
    (if a ∈ r.cur.alAddrs then r else r.withCur { r.cur with alAddrs := r.cur.alAddrs ++ [a] }, .unit)
  | .addSlotToAccessList a k =>
    -- a slot is only ever listed under a listed address, so "address new or slot new" is "slot new"
    let addrNew := decide (a ∉ r.cur.alAddrs)
    let slotNew := addrNew || decide ((a, k) ∉ r.cur.alSlots)
    (r.withCur { r.cur with alAddrs := if addrNew then r.cur.alAddrs ++ [a] else r.cur.alAddrs,
                            alSlots := if slotNew then r.cur.alSlots ++ [(a, k)] else r.cur.alSlots }, .unit)
  | .addressInAccessList a => (r, .bool (decide (a ∈ r.cur.alAddrs)))
  | .slotInAccessList a k =>
    (r, if a ∈ r.cur.alAddrs then .bool2 true (decide ((a, k) ∈ r.cur.alSlots)) else .bool2 false false)
  | .prepare h => ({ r with thash := h, cur := { r.cur with alAddrs := [], alSlots := [] } }, .unit)
  | .addLog a p => (r.withCur { r.cur with logs := r.cur.logs ++ [(r.thash, r.cur.logs.length, a, p)] }, .unit)
  | .getLogs => (r, .logs ((r.cur.logs.filter (fun l => l.1 == r.thash)).map (·.2)))
  | .snapshot => ({ r with stack := r.stack ++ [(r.nextRev, r.cur)], nextRev := r.nextRev + 1 }, .nat r.nextRev)
  | .revertToSnapshot id =>
    let idx := (r.stack.takeWhile (fun x => x.1 < id)).length
    match r.stack[idx]? with
    | none => (r, .panic)
    | some (rid, w) => if rid ≠ id then (r, .panic) else ({ r with cur := w, stack := r.stack.take idx }, .unit)
  | .finalise b => (r.finalise b, .unit)
  | .reset =>
    ({ r with cur := { r.cur with touched := [], refund := 0, logs := [], alAddrs := [], alSlots := [] },
              stack := [], nextRev := 0, thash := 0, sticky := [] }, .unit)

def Ref.run (c : Cfg) (r : Ref) : List Op → List Out
  | [] => []
  | op :: ops =>
    if (r.step c op).2 = .panic then [.panic] else (r.step c op).2 :: Ref.run c (r.step c op).1 ops

/-! ## what the records say, as a reference world -/

/-- the account an address has according to the persistent records -/
def Store.racct (st : Store) (slots : List Key) (a : Addr) : Option RAcct :=
  (st.getAccount a).map fun o =>
    let s := (slots.map fun k => (k, st.slot a k)).filter (fun kv => kv.2 ≠ 0)
    { nonce := o.nonce, bal := o.bal, code := o.getCode st, stor := s, cstor := s, suicided := false }

/-- all addresses and slots mentioned by the records -/
def Store.addrs (st : Store) : List Addr :=
  (st.acct.map (·.1) ++ st.bal.map (·.1) ++ st.stor.map (·.1.1)).eraseDups

def Store.slotsOf (st : Store) (a : Addr) : List Key :=
  ((st.stor.filter (fun x => x.1.1 == a)).map (·.1.2)).eraseDups

/-- the reference world holding the same accounts as the records -/
def Store.world (st : Store) : List (Addr × RAcct) :=
  st.addrs.filterMap fun a => (st.racct (st.slotsOf a) a).map fun r => (a, r)

/-! ## clients -/

/-- a deterministic client of the interface: issues a call, continues on its result -/
inductive Client (α : Type) where
  | ret (x : α)
  | call (op : Op) (k : Out → Client α)

/-- running a client against the adapter: its result (`none` when a call panicked) and the calls made -/
def Client.runImpl (c : Cfg) : Client α → Impl → Option α × List Op
  | .ret x, _ => (some x, [])
  | .call op k, s =>
    if (s.step c op).2 = .panic then (none, [op])
    else (((k (s.step c op).2).runImpl c (s.step c op).1).1, op :: ((k (s.step c op).2).runImpl c (s.step c op).1).2)

def Client.runRef (c : Cfg) : Client α → Ref → Option α × List Op
  | .ret x, _ => (some x, [])
  | .call op k, r =>
    if (r.step c op).2 = .panic then (none, [op])
    else (((k (r.step c op).2).runRef c (r.step c op).1).1, op :: ((k (r.step c op).2).runRef c (r.step c op).1).2)

/-- the guards hold at every call the client makes -/
def Client.safe (c : Cfg) : Client α → Impl → Bool
  | .ret _, _ => true
  | .call op k, s => s.safeStep c op && ((s.step c op).2 == .panic || (k (s.step c op).2).safe c (s.step c op).1)

end OLP.Evm

/-
  C16 — simulation lemmas for CreateAccount, refund, logs, access list, Snapshot / RevertToSnapshot,
  Prepare, Reset (helpers for Props/C16.lean).
-/
import OLP.Evm.LemmasOps

namespace OLP.Evm

/-! ### CreateAccount -/

theorem getObj_none_state (s s1 : Impl) (a : Addr) (h : s.getObj a = (s1, none)) : s1 = s := by
  unfold Impl.getObj at h
  split at h
  · split at h
    · cases h; rfl
    · cases h
  · split at h
    · cases h; rfl
    · cases h

theorem alookup_mem {K V : Type} [DecidableEq K] (l : List (K × V)) (k : K) (v : V) (h : alookup k l = some v) : (k, v) ∈ l := by
  induction l with
  | nil => simp at h
  | cons hd t ih =>
    obtain ⟨k', v'⟩ := hd
    by_cases hk : k' = k
    · simp [alookup, hk] at h; subst h; subst hk; simp
    · simp [alookup, hk] at h; exact List.mem_cons_of_mem _ (ih h)

theorem upsert_upsert {K V : Type} [DecidableEq K] (l : List (K × V)) (k : K) (v v' : V) :
    upsert (upsert l k v) k v' = upsert l k v' := by
  induction l with
  | nil => simp [upsert]
  | cons hd t ih =>
    obtain ⟨k', v''⟩ := hd
    by_cases hk : k' = k <;> simp [upsert, hk, ih]

theorem jappend_some (s s1 : Impl) (e : Entry) (h : s.jappend e = some s1) :
    s1 = { s with journal := s.journal.append e } := by
  simp only [Impl.jappend, Option.some.injEq] at h
  exact h.symm

theorem sim_createAccount {s s' : Impl} {r : Ref} (c : Cfg) (h : Sim s r) (a : Addr)
    (hs : s.createAccount a = some s') : Sim s' (r.step c (.createAccount a)).1 := by
  cases hgo : s.getObj a with
  | mk sa prev =>
    cases prev with
    | none =>
      have hsa := getObj_none_state s sa a hgo
      rw [hsa] at hgo
      clear hsa
      -- the same computation as GetOrNewStateObject on a missing account
      have hgn : s.getOrNew a = (s.createObject a).map fun r => (r.1, r.2.1) := by
        simp [Impl.getOrNew, hgo]
      unfold Impl.createAccount at hs
      cases hco : s.createObject a with
      | none => simp [hco] at hs
      | some t =>
        obtain ⟨s1, newObj, pv⟩ := t
        have hpv : pv = none := by
          simp only [Impl.createObject, hgo] at hco
          cases hj : s.jappend (Entry.createObject a) with
          | none => simp [hj] at hco
          | some sc => simp [hj] at hco; exact hco.2.2.symm
        subst hpv
        simp only [hco, Option.some.injEq] at hs
        subst hs
        rw [hco] at hgn
        simp only [Option.map_some] at hgn
        obtain ⟨es1, hst, _, _, _, _, _, _⟩ := getOrNew_spec (Step.refl h) a newObj hgn
        have hs' := getObj_spec s h.cinv a s none hgo
        have hw : r.cur.get a = none := by
          have hv : s.view a = (r.cur.get a).map viewR := view_eq_get h.abs a
          rw [hs'.2.2.2.1 rfl] at hv
          cases hw : r.cur.get a with
          | none => rfl
          | some x => rw [hw] at hv; cases hv
        have := h.step hst
        simp only [RWorld.getOrNew, hw] at this
        simp only [Ref.step, hw]
        exact this
    | some p =>
      have hs0 := getObj_spec s h.cinv a sa (some p) hgo
      obtain ⟨hobj, haddr, hok, hvw⟩ := hs0.2.2.2.2 p rfl
      cases hw : r.cur.get a with
      | none =>
        have hv : s.view a = (r.cur.get a).map viewR := view_eq_get h.abs a
        rw [hvw, hw] at hv; cases hv
      | some x =>
        have hview : viewObj s.store p = viewR x := by
          have hv : s.view a = (r.cur.get a).map viewR := view_eq_get h.abs a
          rw [hvw, hw] at hv; simpa using hv
        simp only [Impl.createAccount, Impl.createObject, hgo] at hs
        cases hj1 : sa.jappend (Entry.resetObject p) with
        | none => simp [hj1] at hs
        | some s2 =>
          simp only [hj1, Option.map_some, Impl.objSetBalance] at hs
          cases hj2 : (s2.setObj (Obj.make a (sa.store.balOf a))).jappend (Entry.balance (Obj.make a (sa.store.balOf a)).addr (Obj.make a (sa.store.balOf a)).bal) with
          | none => simp [hj2] at hs
          | some s3 =>
            simp only [hj2, Option.map_some, Option.some.injEq] at hs
            subst hs
            have he1 := jappend_some sa s2 _ hj1
            have he2 := jappend_some _ s3 _ hj2
            subst he1
            -- the same final state without the intermediate cache write
            have hfinal : s3.setObj { Obj.make a (sa.store.balOf a) with bal := p.bal } =
                ({ sa with journal := (sa.journal.append (Entry.resetObject p)).append (Entry.balance a (sa.store.balOf a)) } : Impl).setObj (Obj.make a p.bal) := by
              subst he2
              simp only [Impl.setObj, Obj.make, Obj.fresh, upsert_upsert]
            rw [hfinal]
            have hst : Step s sa r r.cur [] := (Step.refl h).sameAbs hs0.1 hs0.2.1 hs0.2.2.1 (getObj_okOf s sa h.cinv a _ hgo)
            have hch : sa.jappends [Entry.resetObject p, Entry.balance a (sa.store.balOf a)] =
                some ({ sa with journal := (sa.journal.append (Entry.resetObject p)).append (Entry.balance a (sa.store.balOf a)) } : Impl) := by
              simp [Impl.jappends, Impl.jappend]
            have hm := hst.mutate (s2 := ({ sa with journal := (sa.journal.append (Entry.resetObject p)).append (Entry.balance a (sa.store.balOf a)) } : Impl)) a p (hst.acct a p hobj hok)
              [Entry.resetObject p, Entry.balance a (sa.store.balOf a)] hch
              (by intro b; simp [Entry.dirtied]; exact eq_comm)
              (by intro e he; simp at he; rcases he with he | he <;> subst he; exact hok; trivial)
              (Obj.make a p.bal) (RAcct.fresh x.bal) rfl (objOK_make _ _ _)
              (by rw [(view_fields hview).2.1]; exact viewObj_make s.store a x.bal)
              (by
                intro W
                simp only [List.reverse_cons, List.reverse_nil, List.nil_append, List.singleton_append, undoAbs, Entry.undo,
                  AW.modAcct, updF_same, Option.map_some, updF_updF, haddr])
              (by intro W; simp [JOK, EntryLive])
              (by
                show OOK _ (Entry.balance a (sa.store.balOf a) :: Entry.resetObject p :: sa.journal.entries.reverse)
                refine ⟨trivial, trivial, OOK_mono _ ?_ hst.ook⟩
                intro b k hb
                simp only [undoF, updF, haddr]
                by_cases hba : b = a
                · simp only [hba, if_true]
                  rw [hba, okOf_cached sa a p k hobj] at hb; exact hb
                · simp only [hba, if_false]; exact hb)
            have := h.step hm
            simp only [Ref.step, hw]
            exact this

/-! ### entries that change no account: refund, logs, access list -/

theorem Step.plain {s s1 s2 : Impl} {r : Ref} {w1 w2 : RWorld} {es : List Entry} (st : Step s s1 r w1 es)
    (el : List Entry) (hobjs : s2.objs = s1.objs) (hstore : s2.store = s1.store)
    (hje : s2.journal.entries = s1.journal.entries ++ el) (hrev : s2.revisions = s1.revisions)
    (hnr : s2.nextRev = s1.nextRev) (hth : s2.thash = s1.thash)
    (hd : el.filterMap Entry.dirtied = []) (hstatic : EntriesOK s.store el)
    (habs : absI s2 = absR w2) (hundo : undoAbs s.store el.reverse (absI s2) = absI s1)
    (hacc : w2.accts = w1.accts) (htch : w2.touched = w1.touched)
    (hlive : JOK s.store (absI s2) el.reverse) (hcnt : JCnt s2.journal)
    (hpl : ∀ e ∈ el, e.plain = true ∧ EntrySupp s1.okOf e) :
    Step s s2 r w2 (es ++ el) := by
  refine ⟨⟨?_, ?_, ?_⟩, hstore.trans st.store, ?_, hrev.trans st.revisions, hnr.trans st.nextRev, hth.trans st.thash,
    entriesOK_append.mpr ⟨st.static, hstatic⟩, habs, ?_, ?_, ?_, ?_, ?_, hcnt, ?_⟩
  · intro a o ha; rw [hobjs] at ha; rw [hstore]; exact st.cinv.objs a o ha
  · rw [hobjs]; exact st.cinv.nodup
  · rw [hstore]; exact st.cinv.store
  · rw [hje, st.entries, List.append_assoc]
  · rw [List.reverse_append, undoAbs_append, hundo]; exact st.undo
  · intro a; rw [htch, List.filterMap_append, hd, List.append_nil]; exact st.touched a
  · intro a ha; rw [htch] at ha
    have : w2.view a = w1.view a := by simp [RWorld.view, RWorld.get, hacc]
    rw [this]; exact st.tc a ha
  · rw [hacc]; exact st.nodup
  · rw [List.reverse_append, JOK_append, hundo]; exact ⟨hlive, st.jok⟩
  · have hok2 : s2.okOf = s1.okOf := by funext b k; simp [Impl.okOf, hobjs]
    rw [hje, List.reverse_append, hok2]
    exact OOK_plain el.reverse _ _ (fun e he => hpl e (List.mem_reverse.mp he)) st.ook

theorem view_congr {s s2 : Impl} (hobjs : s2.objs = s.objs) (hstore : s2.store = s.store) : s2.view = s.view := by
  funext a; simp [Impl.view, hobjs, hstore]

theorem abs_fields {s : Impl} {r : Ref} (h : Sim s r) :
    s.view = r.cur.view ∧ s.refund = r.cur.refund ∧
    (∀ h', (alookup h' s.logs).getD [] = (r.cur.logs.filter (fun l => l.1 == h')).map (·.2)) ∧
    s.logSize = r.cur.logs.length ∧ (∀ a, s.alAddrs.count a = r.cur.alAddrs.count a) ∧
    (∀ p, s.alSlots.count p = r.cur.alSlots.count p) := by
  have := h.abs
  simp only [absI, absR, AW.mk.injEq] at this
  exact ⟨this.1, this.2.1, fun h' => congrFun this.2.2.1 h', this.2.2.2.1, fun a => congrFun this.2.2.2.2.1 a,
    fun p => congrFun this.2.2.2.2.2 p⟩

theorem mem_iff_of_count {α : Type} [BEq α] [LawfulBEq α] {l1 l2 : List α} {a : α} (h : l1.count a = l2.count a) :
    a ∈ l1 ↔ a ∈ l2 := by
  rw [← List.count_pos_iff, ← List.count_pos_iff, h]

theorem sim_addRefund {s : Impl} {r : Ref} (c : Cfg) (h : Sim s r) (n : Nat) (s1 : Impl)
    (hj : s.jappend (.refund s.refund) = some s1) :
    Sim { s1 with refund := s1.refund + n } (r.step c (.addRefund n)).1 := by
  have hS := jappend_some s s1 _ hj
  subst hS
  have hf := abs_fields h
  have hst := (Step.refl h).plain
    (s2 := ({ ({ s with journal := s.journal.append (.refund s.refund) } : Impl) with refund := s.refund + n } : Impl))
    (w2 := { r.cur with refund := r.cur.refund + n })
    [.refund s.refund] rfl rfl (append_entries _ _) rfl rfl rfl rfl
    (by intro e he; simp at he; subst he; trivial)
    (by
      have h1 : absI ({ ({ s with journal := s.journal.append (.refund s.refund) } : Impl) with refund := s.refund + n } : Impl)
          = { absI s with refund := s.refund + n } := rfl
      rw [h1, h.abs, hf.2.1]; rfl)
    rfl rfl rfl (by simp [JOK, EntryLive]) (h.cnt.append _) (by intro e he; simp at he; subst he; exact ⟨rfl, trivial⟩)
  exact h.step hst

theorem sim_subRefund {s : Impl} {r : Ref} (c : Cfg) (h : Sim s r) (n : Nat) (s1 : Impl)
    (hj : s.jappend (.refund s.refund) = some s1) (hn : ¬ n > s1.refund) :
    (r.step c (.subRefund n)).2 = .unit ∧ Sim { s1 with refund := s1.refund - n } (r.step c (.subRefund n)).1 := by
  have hS := jappend_some s s1 _ hj
  subst hS
  have hf := abs_fields h
  have hn' : ¬ n > r.cur.refund := by rw [← hf.2.1]; exact hn
  have hst := (Step.refl h).plain
    (s2 := ({ ({ s with journal := s.journal.append (.refund s.refund) } : Impl) with refund := s.refund - n } : Impl))
    (w2 := { r.cur with refund := r.cur.refund - n })
    [.refund s.refund] rfl rfl (append_entries _ _) rfl rfl rfl rfl
    (by intro e he; simp at he; subst he; trivial)
    (by
      have h1 : absI ({ ({ s with journal := s.journal.append (.refund s.refund) } : Impl) with refund := s.refund - n } : Impl)
          = { absI s with refund := s.refund - n } := rfl
      rw [h1, h.abs, hf.2.1]; rfl)
    rfl rfl rfl (by simp [JOK, EntryLive]) (h.cnt.append _) (by intro e he; simp at he; subst he; exact ⟨rfl, trivial⟩)
  simp only [Ref.step, hn', if_false]
  exact ⟨trivial, h.step hst⟩

theorem sim_subRefund_panic {s : Impl} {r : Ref} (c : Cfg) (h : Sim s r) (n : Nat) (hn : n > s.refund) :
    (r.step c (.subRefund n)).2 = .panic := by
  have hr : s.refund = r.cur.refund := (abs_fields h).2.1
  rw [hr] at hn
  simp only [Ref.step, hn, if_true]

/-! ### logs -/

theorem sim_addLog {s s' : Impl} {r : Ref} (c : Cfg) (h : Sim s r) (a : Addr) (p : Nat)
    (hs : s.addLog a p = some s') : Sim s' (r.step c (.addLog a p)).1 := by
  simp only [Impl.addLog, Impl.jappend, Option.map_some, Option.some.injEq] at hs
  subst hs
  have hf := abs_fields h
  have hst := (Step.refl h).plain
    (s2 := ({ ({ s with journal := s.journal.append (.addLog s.thash) } : Impl) with
      logs := upsert s.logs s.thash (((alookup s.thash s.logs).getD []) ++ [(s.logSize, a, p)]), logSize := s.logSize + 1 } : Impl))
    (w2 := { r.cur with logs := r.cur.logs ++ [(r.thash, r.cur.logs.length, a, p)] })
    [.addLog s.thash] rfl rfl (append_entries _ _) rfl rfl rfl rfl
    (by intro e he; simp at he; subst he; trivial)
    (by
      simp only [absI, absR, AW.mk.injEq]
      refine ⟨hf.1, hf.2.1, ?_, ?_, funext hf.2.2.2.2.1, funext hf.2.2.2.2.2⟩
      · funext h'
        simp only [alookup_upsert, List.filter_append, List.map_append]
        by_cases hh : h' = s.thash
        · subst hh
          simp only [if_true, Option.getD_some, hf.2.2.1, ← h.thash, hf.2.2.2.1]
          simp
        · have : ¬ (r.thash == h') = true := by rw [← h.thash]; simpa using fun e => hh e.symm
          simp only [hh, if_false, hf.2.2.1]
          simp [this]
      · show s.logSize + 1 = _; rw [hf.2.2.2.1]; simp)
    (by
      simp only [List.reverse_cons, List.reverse_nil, List.nil_append, undoAbs, Entry.undo, absI, AW.mk.injEq]
      refine ⟨rfl, trivial, ?_, by simp, trivial, trivial⟩
      funext h'
      simp only [updF, alookup_upsert]
      by_cases hh : h' = s.thash
      · subst hh; simp
      · simp [hh])
    rfl rfl
    (by simp [JOK, EntryLive, absI, alookup_upsert])
    (h.cnt.append _) (by intro e he; simp at he; subst he; exact ⟨rfl, trivial⟩)
  exact h.step hst

theorem sim_getLogs {s : Impl} {r : Ref} (h : Sim s r) :
    (alookup s.thash s.logs).getD [] = (r.cur.logs.filter (fun l => l.1 == r.thash)).map (·.2) := by
  rw [(abs_fields h).2.2.1, h.thash]

/-! ### access list -/

theorem count_snoc {α : Type} [BEq α] [LawfulBEq α] (l : List α) (a b : α) :
    (l ++ [a]).count b = l.count b + (if (a == b) = true then 1 else 0) := by
  rw [List.count_append, List.count_singleton]

theorem undo_count_snoc {α : Type} [DecidableEq α] [BEq α] [LawfulBEq α] (l : List α) (a : α) :
    updF (fun b => (l ++ [a]).count b) a ((l ++ [a]).count a - 1) = fun b => l.count b := by
  funext b
  by_cases hb : b = a
  · subst hb
    simp only [updF, if_true]
    rw [count_snoc]; simp
  · have : ¬ (a == b) = true := by simpa using fun e => hb e.symm
    simp only [updF, hb, if_false]
    rw [count_snoc]; simp [this]

theorem sim_alAddAddr {s s' : Impl} {r : Ref} (c : Cfg) (h : Sim s r) (a : Addr)
    (hs : s.alAddAddr a = some s') : Sim s' (r.step c (.addAddressToAccessList a)).1 := by
  have hf := abs_fields h
  have hmem : a ∈ s.alAddrs ↔ a ∈ r.cur.alAddrs := mem_iff_of_count (hf.2.2.2.2.1 a)
  unfold Impl.alAddAddr at hs
  by_cases hin : a ∈ s.alAddrs
  · simp only [hin, if_true, Option.some.injEq] at hs
    subst hs
    simp only [Ref.step, hmem.mp hin, if_true]
    exact h
  · simp only [hin, if_false, Impl.jappend, Option.some.injEq] at hs
    subst hs
    have hin' : ¬ a ∈ r.cur.alAddrs := fun e => hin (hmem.mpr e)
    have hst := (Step.refl h).plain
      (s2 := ({ ({ s with alAddrs := s.alAddrs ++ [a] } : Impl) with journal := s.journal.append (.alAddr a) } : Impl))
      (w2 := { r.cur with alAddrs := r.cur.alAddrs ++ [a] })
      [.alAddr a] rfl rfl (append_entries _ _) rfl rfl rfl rfl
      (by intro e he; simp at he; subst he; trivial)
      (by
        simp only [absI, absR, AW.mk.injEq]
        refine ⟨hf.1, hf.2.1, funext hf.2.2.1, hf.2.2.2.1, ?_, funext hf.2.2.2.2.2⟩
        funext b
        show (s.alAddrs ++ [a]).count b = (r.cur.alAddrs ++ [a]).count b
        rw [count_snoc, count_snoc, hf.2.2.2.2.1 b])
      (by
        simp only [List.reverse_cons, List.reverse_nil, List.nil_append, undoAbs, Entry.undo, absI, AW.mk.injEq]
        exact ⟨rfl, trivial, trivial, trivial, undo_count_snoc s.alAddrs a, trivial⟩)
      rfl rfl (by simp [JOK, EntryLive]) (h.cnt.append _) (by intro e he; simp at he; subst he; exact ⟨rfl, trivial⟩)
    simp only [Ref.step, hin', if_false]
    exact h.step hst

theorem sim_alAddSlot {s s' : Impl} {r : Ref} (c : Cfg) (h : Sim s r) (a : Addr) (k : Key)
    (hs : s.alAddSlot a k = some s') : Sim s' (r.step c (.addSlotToAccessList a k)).1 := by
  have hf := abs_fields h
  have hmemA : a ∈ s.alAddrs ↔ a ∈ r.cur.alAddrs := mem_iff_of_count (hf.2.2.2.2.1 a)
  have hmemS : (a, k) ∈ s.alSlots ↔ (a, k) ∈ r.cur.alSlots := mem_iff_of_count (hf.2.2.2.2.2 (a, k))
  unfold Impl.alAddSlot at hs
  by_cases hin : a ∈ s.alAddrs
  · have hin' : a ∈ r.cur.alAddrs := hmemA.mp hin
    by_cases hsl : (a, k) ∈ s.alSlots
    · have hsl' : (a, k) ∈ r.cur.alSlots := hmemS.mp hsl
      simp [hin, hsl] at hs
      subst hs
      simp only [Ref.step, hin', hsl']
      simp
      exact h
    · have hsl' : ¬ (a, k) ∈ r.cur.alSlots := fun e => hsl (hmemS.mpr e)
      simp [hin, hsl, Impl.jappend] at hs
      subst hs
      have hst := (Step.refl h).plain
        (s2 := ({ ({ s with alSlots := s.alSlots ++ [(a, k)] } : Impl) with journal := s.journal.append (.alSlot a k) } : Impl))
        (w2 := { r.cur with alSlots := r.cur.alSlots ++ [(a, k)] })
        [.alSlot a k] rfl rfl (append_entries _ _) rfl rfl rfl rfl
        (by intro e he; simp at he; subst he; trivial)
        (by
          simp only [absI, absR, AW.mk.injEq]
          refine ⟨hf.1, hf.2.1, funext hf.2.2.1, hf.2.2.2.1, funext hf.2.2.2.2.1, ?_⟩
          funext p
          show (s.alSlots ++ [(a, k)]).count p = (r.cur.alSlots ++ [(a, k)]).count p
          rw [count_snoc, count_snoc, hf.2.2.2.2.2 p])
        (by
          simp only [List.reverse_cons, List.reverse_nil, List.nil_append, undoAbs, Entry.undo, absI, AW.mk.injEq]
          exact ⟨rfl, trivial, trivial, trivial, trivial, undo_count_snoc s.alSlots (a, k)⟩)
        rfl rfl (by simp [JOK, EntryLive]) (h.cnt.append _) (by intro e he; simp at he; subst he; exact ⟨rfl, trivial⟩)
      simp only [Ref.step, hin', hsl']
      simp
      exact h.step hst
  · have hin' : ¬ a ∈ r.cur.alAddrs := fun e => hin (hmemA.mpr e)
    simp [hin, Impl.jappend] at hs
    subst hs
    have hst := (Step.refl h).plain
      (s2 := ({ ({ s with alAddrs := s.alAddrs ++ [a], alSlots := s.alSlots ++ [(a, k)] } : Impl) with
          journal := (s.journal.append (.alAddr a)).append (.alSlot a k) } : Impl))
      (w2 := { r.cur with alAddrs := r.cur.alAddrs ++ [a], alSlots := r.cur.alSlots ++ [(a, k)] })
      [.alAddr a, .alSlot a k] rfl rfl (by rw [append_entries, append_entries]; simp) rfl rfl rfl rfl
      (by intro e he; simp at he; rcases he with he | he <;> subst he <;> trivial)
      (by
        simp only [absI, absR, AW.mk.injEq]
        refine ⟨hf.1, hf.2.1, funext hf.2.2.1, hf.2.2.2.1, ?_, ?_⟩
        · funext b
          show (s.alAddrs ++ [a]).count b = (r.cur.alAddrs ++ [a]).count b
          rw [count_snoc, count_snoc, hf.2.2.2.2.1 b]
        · funext p
          show (s.alSlots ++ [(a, k)]).count p = (r.cur.alSlots ++ [(a, k)]).count p
          rw [count_snoc, count_snoc, hf.2.2.2.2.2 p])
      (by
        simp only [List.reverse_cons, List.reverse_nil, List.nil_append, List.singleton_append, undoAbs, Entry.undo, absI, AW.mk.injEq]
        exact ⟨rfl, trivial, trivial, trivial, undo_count_snoc s.alAddrs a, undo_count_snoc s.alSlots (a, k)⟩)
      rfl rfl (by simp [JOK, EntryLive]) ((h.cnt.append _).append _) (by intro e he; simp at he; rcases he with he | he <;> subst he <;> exact ⟨rfl, trivial⟩)
    simp only [Ref.step, hin']
    simp
    exact h.step hst

/-! ### Snapshot / RevertToSnapshot -/

theorem All2.forall_left {α β : Type} {P : α → β → Prop} :
    ∀ {l1 : List α} {l2 : List β}, All2 P l1 l2 → ∀ x ∈ l1, ∃ y, P x y
  | [], [], _, x, hx => by cases hx
  | a :: l1, b :: l2, hp, x, hx => by
      cases hx with
      | head => exact ⟨b, hp.1⟩
      | tail _ h => exact All2.forall_left hp.2 x h
  | [], _ :: _, hp, _, _ => hp.elim
  | _ :: _, [], hp, _, _ => hp.elim

theorem All2.imp_mem {α β : Type} {P Q : α → β → Prop} :
    ∀ {l1 : List α} {l2 : List β}, (∀ x ∈ l1, ∀ y, P x y → Q x y) → All2 P l1 l2 → All2 Q l1 l2
  | [], [], _, _ => trivial
  | a :: l1, b :: l2, h, hp => ⟨h a (by simp) b hp.1, All2.imp_mem (fun x hx y => h x (List.mem_cons_of_mem _ hx) y) hp.2⟩
  | [], _ :: _, _, hp => hp.elim
  | _ :: _, [], _, hp => hp.elim

theorem pairwise_take_get {α : Type} {R : α → α → Prop} : ∀ (l : List α) (i : Nat) (b : α),
    l.Pairwise R → l[i]? = some b → ∀ a ∈ l.take i, R a b := by
  intro l
  induction l with
  | nil => intro i b _ hb; simp at hb
  | cons x t ih =>
    intro i b hp hb a ha
    cases i with
    | zero => simp at ha
    | succ i =>
      simp at hb
      rw [List.pairwise_cons] at hp
      simp only [List.take_succ_cons, List.mem_cons] at ha
      rcases ha with rfl | ha
      · exact hp.1 b (List.mem_of_getElem? hb)
      · exact ih i b hp.2 hb a ha

theorem findRev_eq {s : Impl} {r : Ref} (h : Sim s r) (id : Nat) :
    findRev s.revisions id = (r.stack.takeWhile (fun x => decide (x.1 < id))).length := by
  have hids : s.revisions.map (·.1) = r.stack.map (·.1) := All2.map_fst _ _ (fun x y hxy => hxy.id) h.revs
  have h1 : (s.revisions.takeWhile (fun x => decide (x.1 < id))).length = ((s.revisions.map (·.1)).takeWhile (fun i => decide (i < id))).length := by
    rw [List.takeWhile_map, List.length_map]; rfl
  have h2 : (r.stack.takeWhile (fun x => decide (x.1 < id))).length = ((r.stack.map (·.1)).takeWhile (fun i => decide (i < id))).length := by
    rw [List.takeWhile_map, List.length_map]; rfl
  unfold findRev
  rw [h1, h2, hids]

theorem sim_snapshot {s : Impl} {r : Ref} (c : Cfg) (h : Sim s r) :
    (r.step c .snapshot).2 = .nat s.snapshot.2 ∧ Sim s.snapshot.1 (r.step c .snapshot).1 := by
  refine ⟨by simp [Ref.step, Impl.snapshot, h.nextRev], ?_⟩
  simp only [Ref.step, Impl.snapshot]
  have hle : ∀ x ∈ s.revisions, x.2 ≤ s.journal.entries.length := by
    intro x hx
    obtain ⟨y, hy⟩ := All2.forall_left h.revs x hx
    exact hy.le
  refine ⟨⟨h.cinv.objs, h.cinv.nodup, h.cinv.store⟩, h.entries, ?_, h.thash, ?_, h.touched, h.tc, h.nodup, ?_, ?_, ?_, ?_, h.jok, h.cnt, h.ook⟩
  · have : absI ({ s with revisions := s.revisions ++ [(s.nextRev, s.journal.entries.length)], nextRev := s.nextRev + 1 } : Impl) = absI s := rfl
    rw [this]; exact h.abs
  · show s.nextRev + 1 = r.nextRev + 1; rw [h.nextRev]
  · show All2 _ (s.revisions ++ [(s.nextRev, s.journal.entries.length)]) (r.stack ++ [(r.nextRev, r.cur)])
    refine All2.snoc ?_ h.revs
    refine ⟨h.nextRev, Nat.le_refl _, ?_, ?_, h.tc, h.nodup⟩
    · simp only [List.drop_length, List.reverse_nil, undoAbs]; exact h.abs
    · intro a; simp only [List.take_length]; exact h.touched a
  · intro x hx
    simp only [List.mem_append, List.mem_singleton] at hx
    rcases hx with hx | hx
    · exact Nat.lt_succ_of_lt (h.idsLt x hx)
    · subst hx; exact Nat.lt_succ_self _
  · simp only [List.map_append, List.map_cons, List.map_nil]
    rw [List.pairwise_append]
    refine ⟨h.idsSorted, by simp, ?_⟩
    intro a ha b hb
    simp only [List.mem_singleton] at hb
    subst hb
    simp only [List.mem_map] at ha
    obtain ⟨x, hx, rfl⟩ := ha
    exact h.idsLt x hx
  · simp only [List.map_append, List.map_cons, List.map_nil]
    rw [List.pairwise_append]
    refine ⟨h.jSorted, by simp, ?_⟩
    intro a ha b hb
    simp only [List.mem_singleton] at hb
    subst hb
    simp only [List.mem_map] at ha
    obtain ⟨x, hx, rfl⟩ := ha
    exact hle x hx

theorem sim_revert_panic {s : Impl} {r : Ref} (c : Cfg) (h : Sim s r) (id : Nat)
    (hp : s.legitPanic (.revertToSnapshot id) = true) : (r.step c (.revertToSnapshot id)).2 = .panic := by
  simp only [Impl.legitPanic] at hp
  simp only [Ref.step, ← findRev_eq h id]
  cases hx : s.revisions[findRev s.revisions id]? with
  | none =>
    have hlen := All2.length h.revs
    have : r.stack[findRev s.revisions id]? = none := by
      rw [List.getElem?_eq_none_iff] at hx ⊢; omega
    simp [this]
  | some x =>
    obtain ⟨y, hy, hxy⟩ := All2.get _ x h.revs hx
    obtain ⟨rid, j⟩ := x
    obtain ⟨rid', W⟩ := y
    simp only [hx] at hp
    have : rid = rid' := hxy.id
    subst this
    simp only [hy]
    simp at hp
    simp [hp]

theorem sim_revert {s s' : Impl} {r : Ref} (c : Cfg) (h : Sim s r) (id : Nat)
    (hs : s.revertToSnapshot id = some s') :
    (r.step c (.revertToSnapshot id)).2 = .unit ∧ Sim s' (r.step c (.revertToSnapshot id)).1 := by
  unfold Impl.revertToSnapshot at hs
  simp only at hs
  cases hx : s.revisions[findRev s.revisions id]? with
  | none => simp [hx] at hs
  | some x =>
    obtain ⟨rid, jidx⟩ := x
    simp only [hx] at hs
    by_cases hid : rid = id
    · subst hid
      simp only [ne_eq, not_true_eq_false, if_false] at hs
      cases hrt : s.revertTo jidx s.journal.entries.length with
      | none => simp [hrt] at hs
      | some s1 =>
        simp only [hrt, Option.map_some, Option.some.injEq] at hs
        subst hs
        obtain ⟨y, hy, hxy⟩ := All2.get _ _ h.revs hx
        obtain ⟨rid', W⟩ := y
        have hrid : rid = rid' := hxy.id
        subst hrid
        have hra := revertTo_abs s.journal.entries.length s s1 jidx h.cinv h.entries h.ook hxy.le (by omega) hrt
        obtain ⟨s1', hrt', hcnt', hjok'⟩ := revertTo_total s.journal.entries.length s jidx h.cinv h.entries h.jok h.cnt h.ook
        have hs1 : s1' = s1 := by rw [hrt] at hrt'; exact (Option.some.inj hrt').symm
        rw [hs1] at hcnt' hjok'
        have hjok1 := hjok' hxy.le (by omega)
        simp only [Ref.step, ← findRev_eq h rid, hy]
        simp only [ne_eq, not_true_eq_false, if_false, true_and]
        have hjle : ∀ x ∈ s.revisions.take (findRev s.revisions rid), x.2 ≤ jidx := by
          intro x hx'
          have hp := pairwise_take_get (s.revisions.map (·.2)) (findRev s.revisions rid) jidx h.jSorted (by simp [hx])
          exact hp x.2 (by rw [← List.map_take]; exact List.mem_map_of_mem hx')
        refine ⟨⟨hra.1.objs, hra.1.nodup, hra.1.store⟩, ?_, ?_, ?_, ?_, ?_, ?_, hxy.nodup, ?_, ?_, ?_, ?_, ?_, hcnt', ?_⟩
        · show EntriesOK s1.store s1.journal.entries
          rw [hra.2.1, hra.2.2.1]
          intro e he; exact h.entries e (List.mem_of_mem_take he)
        · show absI ({ s1 with revisions := _ } : Impl) = absR W
          have : absI ({ s1 with revisions := s.revisions.take (findRev s.revisions rid) } : Impl) = absI s1 := rfl
          rw [this, hra.2.2.2.2.2.2]; exact hxy.abs
        · show s1.thash = r.thash
          rw [hra.2.2.2.2.2.1]; exact h.thash
        · show s1.nextRev = r.nextRev
          rw [hra.2.2.2.2.1]; exact h.nextRev
        · intro a
          show a ∈ W.touched ↔ a ∈ s1.journal.entries.filterMap Entry.dirtied
          rw [hra.2.2.1]; exact hxy.touched a
        · intro a ha
          show W.view a = s1.store.view a
          rw [hra.2.1]; exact hxy.tc a ha
        · show All2 (RevOK s1.store s1.journal.entries (absI ({ s1 with revisions := _ } : Impl))) (s.revisions.take _) (r.stack.take _)
          have : absI ({ s1 with revisions := s.revisions.take (findRev s.revisions rid) } : Impl) = absI s1 := rfl
          rw [this, hra.2.1, hra.2.2.1, hra.2.2.2.2.2.2]
          refine All2.imp_mem ?_ (All2.take _ h.revs)
          intro x hx' y hxy'
          have hjl : jidx ≤ s.journal.entries.length := hxy.le
          have hxj := hjle x hx'
          refine ⟨hxy'.id, by rw [List.length_take]; omega, ?_, ?_, hxy'.tc, hxy'.nodup⟩
          · rw [← undoAbs_append, ← List.reverse_append]
            have : List.drop x.2 (List.take jidx s.journal.entries) ++ List.drop jidx s.journal.entries = List.drop x.2 s.journal.entries := by
              have h1 : s.journal.entries = List.take jidx s.journal.entries ++ List.drop jidx s.journal.entries := (List.take_append_drop _ _).symm
              conv => rhs; rw [h1]
              rw [List.drop_append_of_le_length (by rw [List.length_take]; omega)]
            rw [this]; exact hxy'.abs
          · intro a
            rw [List.take_take, Nat.min_eq_left hxj]
            exact hxy'.touched a
        · intro x hx'
          show x.1 < s1.nextRev
          rw [hra.2.2.2.2.1]; exact h.idsLt x (List.mem_of_mem_take hx')
        · show ((s.revisions.take _).map (·.1)).Pairwise (· < ·)
          rw [List.map_take]; exact h.idsSorted.sublist (List.take_sublist _ _)
        · show ((s.revisions.take _).map (·.2)).Pairwise (· ≤ ·)
          rw [List.map_take]; exact h.jSorted.sublist (List.take_sublist _ _)
        · show JOK s1.store (absI s1) s1.journal.entries.reverse
          rw [hra.2.1, hra.2.2.1]; exact hjok1.1
        · show OOK s1.okOf s1.journal.entries.reverse
          rw [hra.2.2.1]; exact hjok1.2
    · simp [hid] at hs

/-- RevertToSnapshot fails only for a revision that is not valid -/
theorem revert_none_legit {s : Impl} {r : Ref} (h : Sim s r) (id : Nat) (hs : s.revertToSnapshot id = none) :
    s.legitPanic (.revertToSnapshot id) = true := by
  unfold Impl.revertToSnapshot at hs
  simp only [Impl.legitPanic]
  cases hx : s.revisions[findRev s.revisions id]? with
  | none => rfl
  | some x =>
    obtain ⟨rid, jidx⟩ := x
    simp only [hx] at hs ⊢
    by_cases hid : rid = id
    · subst hid
      obtain ⟨s1, hrt, _, _⟩ := revertTo_total s.journal.entries.length s jidx h.cinv h.entries h.jok h.cnt h.ook
      simp [hrt] at hs
    · simpa using hid

end OLP.Evm

/-
  Helper lemmas for C10 (property statements live in OLP/Props/C10.lean).
  Part A: container/heap on the priority queue — heap invariant, `up`/`down` restore it,
          every operation permutes the elements, popping everything is sorted.
-/
import OLP.Elect.Model

namespace OLP.Elect

/-- results of `TM.apply` / `run` can be compared by evaluation (used by the concrete examples) -/
instance {ε α : Type} [DecidableEq ε] [DecidableEq α] : DecidableEq (Except ε α)
  | .ok a, .ok b => if h : a = b then isTrue (by rw [h]) else isFalse (fun e => by cases e; exact h rfl)
  | .error a, .error b => if h : a = b then isTrue (by rw [h]) else isFalse (fun e => by cases e; exact h rfl)
  | .ok _, .error _ => isFalse (fun e => by cases e)
  | .error _, .ok _ => isFalse (fun e => by cases e)

namespace Heap

/-! ### A.1 swaps -/

theorem prioAt_of_lt (h : H) (k : Nat) (hk : k < h.size) : prioAt h k = h[k].prio := by
  unfold prioAt
  simp [Array.getD_eq_getD_getElem?, hk]

theorem getD_swap (h : H) (i j k : Nat) (hi : i < h.size) (hj : j < h.size) (d : Item) :
    (h.swapIfInBounds i j).getD k d =
      if k = i then h.getD j d else if k = j then h.getD i d else h.getD k d := by
  simp only [Array.getD_eq_getD_getElem?]
  by_cases hk : k < h.size
  · have hk' : k < (h.swapIfInBounds i j).size := by simpa using hk
    rw [Array.getElem?_eq_getElem hk', Array.getElem_swapIfInBounds]
    by_cases h1 : k = i
    · subst h1; simp [hj]
    · by_cases h2 : k = j
      · subst h2; simp [h1, hi]
      · simp [h1, h2, hk]
  · have hk' : ¬ k < (h.swapIfInBounds i j).size := by simpa using hk
    have h1 : k ≠ i := fun e => hk (e ▸ hi)
    have h2 : k ≠ j := fun e => hk (e ▸ hj)
    simp [h1, h2, Array.getElem?_eq_none (Nat.le_of_not_lt hk), Array.getElem?_eq_none (Nat.le_of_not_lt hk')]

theorem prioAt_swap (h : H) (i j k : Nat) (hi : i < h.size) (hj : j < h.size) :
    prioAt (h.swapIfInBounds i j) k =
      if k = i then prioAt h j else if k = j then prioAt h i else prioAt h k := by
  unfold prioAt
  rw [getD_swap h i j k hi hj]
  split
  · rfl
  · split <;> rfl

theorem swap_perm (h : H) (i j : Nat) : (h.swapIfInBounds i j).toList.Perm h.toList := by
  unfold Array.swapIfInBounds
  split
  · split
    · exact Array.perm_iff_toList_perm.mp (Array.swap_perm _ _)
    · exact List.Perm.refl _
  · exact List.Perm.refl _

/-! ### A.2 the heap invariant on a prefix of length `n` -/

/-- every element below index `n` is at most its parent -/
def IsHeap (h : H) (n : Nat) : Prop :=
  ∀ k, 0 < k → k < n → prioAt h ((k - 1) / 2) ≥ prioAt h k

/-- heap except possibly for the edge between `j` and its parent; the children of `j` already
    respect the parent of `j` -/
def UpInv (h : H) (n j : Nat) : Prop :=
  (∀ k, 0 < k → k < n → k ≠ j → prioAt h ((k - 1) / 2) ≥ prioAt h k) ∧
  (∀ k, 0 < k → k < n → (k - 1) / 2 = j → 0 < j → prioAt h ((j - 1) / 2) ≥ prioAt h k)

/-- heap except possibly for the edges from `i` to its children; the children of `i` already
    respect the parent of `i` -/
def DownInv (h : H) (n i : Nat) : Prop :=
  (∀ k, 0 < k → k < n → (k - 1) / 2 ≠ i → prioAt h ((k - 1) / 2) ≥ prioAt h k) ∧
  (∀ k, 0 < k → k < n → (k - 1) / 2 = i → 0 < i → prioAt h ((i - 1) / 2) ≥ prioAt h k)

theorem IsHeap.upInv {h : H} {n : Nat} (hh : IsHeap h n) (j : Nat) : UpInv h n j :=
  ⟨fun k h0 hk _ => hh k h0 hk, fun k h0 hk hp hj => by
    have h1 := hh k h0 hk
    have h2 := hh j hj (by omega)
    rw [hp] at h1
    exact Int.le_trans h1 h2⟩

theorem IsHeap.downInv {h : H} {n : Nat} (hh : IsHeap h n) (i : Nat) : DownInv h n i :=
  ⟨fun k h0 hk _ => hh k h0 hk, fun k h0 hk hp hi => by
    have h1 := hh k h0 hk
    have h2 := hh i hi (by omega)
    rw [hp] at h1
    exact Int.le_trans h1 h2⟩

theorem root_max {h : H} {n : Nat} (hh : IsHeap h n) : ∀ k, k < n → prioAt h 0 ≥ prioAt h k := by
  intro k
  induction k using Nat.strongRecOn with
  | _ k ih =>
    intro hk
    by_cases h0 : k = 0
    · subst h0; exact Int.le_refl _
    · have hp : (k - 1) / 2 < k := by omega
      have h1 := ih _ hp (by omega)
      have h2 := hh k (by omega) hk
      exact Int.le_trans h2 h1

/-! ### A.3 `up` -/

theorem size_up (h : H) (j fuel : Nat) : (up h j fuel).size = h.size := by
  induction fuel generalizing h j with
  | zero => rfl
  | succ f ih =>
    unfold up
    simp only
    split
    · rfl
    · rw [ih]; simp

theorem up_perm (h : H) (j fuel : Nat) : (up h j fuel).toList.Perm h.toList := by
  induction fuel generalizing h j with
  | zero => exact List.Perm.refl _
  | succ f ih =>
    unfold up
    simp only
    split
    · exact List.Perm.refl _
    · exact (ih _ _).trans (swap_perm _ _ _)

theorem up_heap (h : H) (n j fuel : Nat) (hn : n ≤ h.size) (hj : j < n) (hf : j < fuel)
    (hinv : UpInv h n j) : IsHeap (up h j fuel) n := by
  induction fuel generalizing h j with
  | zero => omega
  | succ f ih =>
    unfold up
    simp only
    split
    · -- stop: j is the root, or j does not exceed its parent
      rename_i hstop
      intro k h0 hk
      by_cases hkj : k = j
      · subst hkj
        simp only [Bool.or_eq_true, beq_iff_eq, Bool.not_eq_true', less, decide_eq_false_iff_not] at hstop
        rcases hstop with hroot | hle
        · omega
        · omega
      · exact hinv.1 k h0 hk hkj
    · rename_i hgo
      simp only [Bool.or_eq_true, beq_iff_eq, Bool.not_eq_true', less, decide_eq_false_iff_not,
        not_or, Classical.not_not] at hgo
      obtain ⟨hne, hgt⟩ := hgo
      have hi : (j - 1) / 2 < j := by omega
      have hjs : j < h.size := by omega
      have his : (j - 1) / 2 < h.size := by omega
      have hsz : n ≤ (h.swapIfInBounds ((j - 1) / 2) j).size := by simpa using hn
      apply ih _ _ hsz (by omega) (by omega)
      have P := prioAt_swap h ((j - 1) / 2) j
      constructor
      · intro k h0 hk hki
        rw [P _ his hjs, P _ his hjs]
        by_cases hkj : k = j
        · -- the swapped edge
          subst hkj
          have : ¬ k = (k - 1) / 2 := by omega
          simp [this]
          omega
        · by_cases hpi : (k - 1) / 2 = (j - 1) / 2
          · -- sibling of j
            have e1 := hinv.1 k h0 hk hkj
            rw [hpi] at e1
            have : ¬ (j - 1) / 2 = j := by omega
            simp [hpi, hki, hkj]
            omega
          · by_cases hpj : (k - 1) / 2 = j
            · -- child of j
              have e1 := hinv.2 k h0 hk hpj (by omega)
              have : ¬ j = (j - 1) / 2 := by omega
              simp [hpj, this, hki, hkj]
              exact e1
            · have e1 := hinv.1 k h0 hk hkj
              simp [hpi, hpj, hki, hkj]
              exact e1
      · intro k h0 hk hpk hi0
        rw [P _ his hjs, P _ his hjs]
        have hgp : ((j - 1) / 2 - 1) / 2 < (j - 1) / 2 := by omega
        have n1 : ¬ ((j - 1) / 2 - 1) / 2 = (j - 1) / 2 := by omega
        have n2 : ¬ ((j - 1) / 2 - 1) / 2 = j := by omega
        have n3 : ¬ k = (j - 1) / 2 := by omega
        have eP := hinv.1 ((j - 1) / 2) hi0 (by omega) (by omega)
        by_cases hkj : k = j
        · subst hkj
          simp [n1, n2, n3]
          exact eP
        · have e1 := hinv.1 k h0 hk hkj
          rw [hpk] at e1
          simp [n1, n2, n3, hkj]
          omega

/-! ### A.4 `down` -/

theorem bigChild_cases (h : H) (i n : Nat) :
    bigChild h i n = 2 * i + 1 ∨ (bigChild h i n = 2 * i + 1 + 1 ∧ 2 * i + 1 + 1 < n) := by
  unfold bigChild
  split
  · rename_i hx
    simp only [Bool.and_eq_true, decide_eq_true_eq] at hx
    exact Or.inr ⟨rfl, hx.1⟩
  · exact Or.inl rfl

theorem bigChild_max (h : H) (i n c : Nat) (hc : c = 2 * i + 1 ∨ c = 2 * i + 1 + 1) (hcn : c < n) :
    prioAt h (bigChild h i n) ≥ prioAt h c := by
  unfold bigChild
  split
  · rename_i hx
    simp only [less, Bool.and_eq_true, decide_eq_true_eq] at hx
    rcases hc with e | e <;> subst e <;> omega
  · rename_i hx
    simp only [less, Bool.and_eq_true, decide_eq_true_eq, not_and] at hx
    rcases hc with e | e
    · subst e; omega
    · subst e
      have := hx hcn
      omega

theorem size_down (h : H) (i n fuel : Nat) : (down h i n fuel).size = h.size := by
  induction fuel generalizing h i with
  | zero => rfl
  | succ f ih =>
    unfold down
    split
    · rfl
    · split
      · rfl
      · rw [ih]; simp

theorem down_perm (h : H) (i n fuel : Nat) : (down h i n fuel).toList.Perm h.toList := by
  induction fuel generalizing h i with
  | zero => exact List.Perm.refl _
  | succ f ih =>
    unfold down
    split
    · exact List.Perm.refl _
    · split
      · exact List.Perm.refl _
      · exact (ih _ _).trans (swap_perm _ _ _)

/-- `down` only touches indices below `n` -/
theorem down_getD_ge (h : H) (i n fuel k : Nat) (hn : n ≤ h.size) (hi : i < n) (hk : n ≤ k) (d : Item) :
    (down h i n fuel).getD k d = h.getD k d := by
  induction fuel generalizing h i with
  | zero => rfl
  | succ f ih =>
    unfold down
    split
    · rfl
    · rename_i hc
      split
      · rfl
      · have hjn : bigChild h i n < n := by
          rcases bigChild_cases h i n with e | ⟨e, e2⟩ <;> omega
        rw [ih _ _ (by simpa using hn) hjn]
        rw [getD_swap h _ _ k (by omega) (by omega)]
        have n1 : ¬ k = i := by omega
        have n2 : ¬ k = bigChild h i n := by omega
        simp [n1, n2]

theorem down_heap (h : H) (n i fuel : Nat) (hn : n ≤ h.size) (hf : n ≤ i + fuel)
    (hinv : DownInv h n i) : IsHeap (down h i n fuel) n := by
  induction fuel generalizing h i with
  | zero =>
    -- no fuel: i ≥ n, so i has no children below n
    intro k h0 hk
    exact hinv.1 k h0 hk (by omega)
  | succ f ih =>
    unfold down
    split
    · -- no child below n
      rename_i hc
      intro k h0 hk
      exact hinv.1 k h0 hk (by omega)
    · rename_i hc
      have hj1 : 2 * i + 1 < n := by omega
      have hjc := bigChild_cases h i n
      have hmax := bigChild_max h i n
      generalize bigChild h i n = j at hjc hmax ⊢
      have hjn : j < n := by rcases hjc with e | ⟨e, e2⟩ <;> omega
      split
      · -- the larger child does not exceed i
        rename_i hstop
        simp only [less, Bool.not_eq_true', decide_eq_false_iff_not] at hstop
        intro k h0 hk
        by_cases hp : (k - 1) / 2 = i
        · rw [hp]
          have hk12 : k = 2 * i + 1 ∨ k = 2 * i + 1 + 1 := by omega
          have := hmax k hk12 hk
          omega
        · exact hinv.1 k h0 hk hp
      · rename_i hgo
        simp only [less, Bool.not_eq_true', decide_eq_false_iff_not, Classical.not_not] at hgo
        have his : i < h.size := by omega
        have hjs : j < h.size := by omega
        have hpj : (j - 1) / 2 = i := by rcases hjc with e | ⟨e, e2⟩ <;> omega
        apply ih _ _ (by simpa using hn) (by omega)
        have P := prioAt_swap h i j
        constructor
        · intro k h0 hk hkp
          rw [P _ his hjs, P _ his hjs]
          by_cases hki : k = i
          · -- the edge above i: children of i respect the parent of i
            subst hki
            have e1 := hinv.2 j (by omega) hjn hpj h0
            have n1 : ¬ (k - 1) / 2 = k := by omega
            have n2 : ¬ (k - 1) / 2 = j := by omega
            simp [n1, n2]
            exact e1
          · by_cases hpi : (k - 1) / 2 = i
            · -- a child of i (j itself or its sibling)
              have hk12 : k = 2 * i + 1 ∨ k = 2 * i + 1 + 1 := by omega
              have e1 := hmax k hk12 hk
              by_cases hkj : k = j
              · subst hkj
                simp [hpi, hki]
                omega
              · simp [hpi, hki, hkj]
                exact e1
            · have n2 : ¬ k = j := by omega
              have e1 := hinv.1 k h0 hk hpi
              simp [hpi, hkp, hki, n2]
              exact e1
        · intro k h0 hk hkp hj0
          rw [P _ his hjs, P _ his hjs]
          have n2 : ¬ k = i := by omega
          have n3 : ¬ k = j := by omega
          have e1 := hinv.1 k h0 hk (by omega)
          rw [hkp] at e1
          simp [hpj, n2, n3]
          exact e1

/-! ### A.5 `Push`, `Init`, `Pop` -/

theorem prioAt_push_lt (h : H) (x : Item) (k : Nat) (hk : k < h.size) :
    prioAt (h.push x) k = prioAt h k := by
  unfold prioAt
  simp [Array.getD_eq_getD_getElem?, Array.getElem?_push, Nat.ne_of_lt hk]

theorem size_push' (h : H) (x : Item) : (push h x).size = h.size + 1 := by
  unfold push
  simp [size_up]

theorem push_perm (h : H) (x : Item) : (push h x).toList.Perm (x :: h.toList) := by
  unfold push
  refine (up_perm _ _ _).trans ?_
  rw [Array.toList_push]
  exact List.perm_append_singleton _ _

theorem push_heap (h : H) (x : Item) (hh : IsHeap h h.size) : IsHeap (push h x) (h.size + 1) := by
  unfold push
  simp only [Array.size_push, Nat.add_sub_cancel]
  apply up_heap _ _ _ _ (by simp) (by omega) (by omega)
  constructor
  · intro k h0 hk hkj
    have hk' : k < h.size := by omega
    rw [prioAt_push_lt _ _ _ hk', prioAt_push_lt _ _ _ (by omega)]
    exact hh k h0 hk'
  · intro k h0 hk hp hj
    omega

theorem foldl_push (l : List Item) (h : H) (hh : IsHeap h h.size) :
    IsHeap (l.foldl push h) (l.foldl push h).size ∧ (l.foldl push h).toList.Perm (l.reverse ++ h.toList) := by
  induction l generalizing h with
  | nil => exact ⟨hh, by simp⟩
  | cons x t ih =>
    have h1 : IsHeap (push h x) (push h x).size := by
      rw [size_push']; exact push_heap h x hh
    obtain ⟨a, b⟩ := ih (push h x) h1
    refine ⟨a, ?_⟩
    simp only [List.foldl_cons, List.reverse_cons, List.append_assoc, List.singleton_append]
    exact b.trans (List.Perm.append_left _ (push_perm h x))

theorem foldl_down (is : List Nat) (n : Nat) (h : H) (hn : h.size = n) (hh : IsHeap h n) :
    (is.foldl (fun a i => down a i n n) h).size = n ∧
    IsHeap (is.foldl (fun a i => down a i n n) h) n ∧
    (is.foldl (fun a i => down a i n n) h).toList.Perm h.toList := by
  induction is generalizing h with
  | nil => exact ⟨hn, hh, List.Perm.refl _⟩
  | cons i t ih =>
    have s1 : (down h i n n).size = n := by rw [size_down]; exact hn
    have h1 : IsHeap (down h i n n) n := down_heap h n i n (by omega) (by omega) (hh.downInv i)
    obtain ⟨a, b, c⟩ := ih (down h i n n) s1 h1
    exact ⟨a, b, c.trans (down_perm _ _ _ _)⟩

theorem init_spec (h : H) (hh : IsHeap h h.size) :
    (init h).size = h.size ∧ IsHeap (init h) h.size ∧ (init h).toList.Perm h.toList := by
  unfold init
  exact foldl_down _ h.size h rfl hh

theorem build_spec (l : List Item) :
    IsHeap (build l) (build l).size ∧ (build l).toList.Perm l := by
  unfold build
  have e : IsHeap (#[] : H) (#[] : H).size := by intro k h0 hk; simp at hk
  obtain ⟨a, b⟩ := foldl_push l #[] e
  obtain ⟨s, c, d⟩ := init_spec _ a
  refine ⟨by rw [s]; exact c, d.trans (b.trans ?_)⟩
  simp only [List.append_nil]
  exact List.reverse_perm l

theorem mem_toList_prio {h : H} {x : Item} (hx : x ∈ h.toList) : ∃ k, k < h.size ∧ prioAt h k = x.prio := by
  obtain ⟨i, hi, e⟩ := List.mem_iff_getElem.mp hx
  have hi' : i < h.size := by simpa using hi
  refine ⟨i, hi', ?_⟩
  rw [prioAt_of_lt h i hi', ← e]
  simp

/-- what `Pop` returns on a non-empty heap -/
theorem pop_spec (h : H) (hs : 0 < h.size) (hh : IsHeap h h.size) :
    ∃ x h', pop h = some (x, h') ∧ h'.size = h.size - 1 ∧ IsHeap h' h'.size ∧
      h.toList.Perm (x :: h'.toList) ∧ ∀ y ∈ h'.toList, x.prio ≥ y.prio := by
  have hne : ¬ h.size = 0 := by omega
  refine ⟨_, _, by unfold pop; simp only [hne, if_false]; rfl, ?_, ?_, ?_, ?_⟩
  · simp [size_down]
  all_goals
    generalize hn : h.size - 1 = n
    have hns : n < h.size := by omega
    have hsz1 : (h.swapIfInBounds 0 n).size = h.size := by simp
    have hsz2 : (down (h.swapIfInBounds 0 n) 0 n n).size = h.size := by rw [size_down, hsz1]
  · -- heap again
    have hd : IsHeap (down (h.swapIfInBounds 0 n) 0 n n) n := by
      apply down_heap _ _ _ _ (by omega) (by omega)
      constructor
      · intro k h0 hk hp
        rw [prioAt_swap h 0 n _ hs hns, prioAt_swap h 0 n _ hs hns]
        have n1 : ¬ (k - 1) / 2 = 0 := hp
        have n2 : ¬ (k - 1) / 2 = n := by omega
        have n3 : ¬ k = 0 := by omega
        have n4 : ¬ k = n := by omega
        simp only [n1, n2, n3, n4, if_false]
        exact hh k h0 (by omega)
      · intro k h0 hk hp hi0
        omega
    have hps : (down (h.swapIfInBounds 0 n) 0 n n).pop.size = n := by simp [hsz2, hn]
    rw [hps]
    intro k h0 hk
    have e : ∀ m, m < n → prioAt (down (h.swapIfInBounds 0 n) 0 n n).pop m = prioAt (down (h.swapIfInBounds 0 n) 0 n n) m := by
      intro m hm
      unfold prioAt
      simp only [Array.getD_eq_getD_getElem?, Array.getElem?_pop, hsz2]
      have : m < h.size - 1 := by omega
      simp [this]
    rw [e _ (by omega), e _ hk]
    exact hd k h0 hk
  · -- permutation
    have hback : (down (h.swapIfInBounds 0 n) 0 n n).toList =
        (down (h.swapIfInBounds 0 n) 0 n n).pop.toList ++ [(down (h.swapIfInBounds 0 n) 0 n n).getD n ⟨0, 0⟩] := by
      have hne' : (down (h.swapIfInBounds 0 n) 0 n n).toList ≠ [] := by
        intro e
        have e2 : (down (h.swapIfInBounds 0 n) 0 n n).toList.length = 0 := by rw [e]; rfl
        rw [Array.length_toList, hsz2] at e2
        omega
      rw [Array.toList_pop]
      conv => lhs; rw [← List.dropLast_concat_getLast hne']
      congr 2
      rw [List.getLast_eq_getElem]
      simp only [Array.length_toList, hsz2, hn, Array.getElem_toList]
      simp [Array.getD_eq_getD_getElem?, hsz2, hns]
    have p1 : (down (h.swapIfInBounds 0 n) 0 n n).toList.Perm h.toList :=
      (down_perm _ _ _ _).trans (swap_perm _ _ _)
    rw [hback] at p1
    exact (p1.symm.trans (List.perm_append_singleton _ _))
  · -- the popped element is a maximum
    intro y hy
    have hx : ((down (h.swapIfInBounds 0 n) 0 n n).getD n ⟨0, 0⟩).prio = prioAt h 0 := by
      have e1 : (down (h.swapIfInBounds 0 n) 0 n n).getD n ⟨0, 0⟩ = (h.swapIfInBounds 0 n).getD n ⟨0, 0⟩ := by
        by_cases hn0 : n = 0
        · subst hn0; rfl
        · exact down_getD_ge _ 0 n n n (by omega) (by omega) (Nat.le_refl _) _
      rw [e1, getD_swap h 0 n n hs hns]
      unfold prioAt
      by_cases hn0 : n = 0
      · subst hn0; simp
      · simp [hn0]
    rw [hx]
    -- y is an element of h (the popped heap is a sub-multiset)
    have ymem : y ∈ h.toList := by
      have hy' : y ∈ (down (h.swapIfInBounds 0 n) 0 n n).toList := by
        rw [Array.toList_pop] at hy
        exact List.dropLast_subset _ hy
      exact ((down_perm _ _ _ _).trans (swap_perm _ _ _)).mem_iff.mp hy'
    obtain ⟨k, hk, e⟩ := mem_toList_prio ymem
    rw [← e]
    exact root_max hh k hk

theorem popAll_spec (fuel : Nat) (h : H) (hf : h.size ≤ fuel) (hh : IsHeap h h.size) :
    (popAll h fuel).Perm h.toList ∧ (popAll h fuel).Pairwise (fun a b => a.prio ≥ b.prio) := by
  induction fuel generalizing h with
  | zero =>
    have : h.toList = [] := by
      have : h.toList.length = 0 := by rw [Array.length_toList]; omega
      exact List.eq_nil_of_length_eq_zero this
    simp [popAll, this]
  | succ f ih =>
    by_cases hs : h.size = 0
    · have e : h.toList = [] := by
        have : h.toList.length = 0 := by rw [Array.length_toList]; omega
        exact List.eq_nil_of_length_eq_zero this
      have : pop h = none := by unfold pop; simp [hs]
      simp [popAll, this, e]
    · obtain ⟨x, h', hp, hsz, hh', hperm, hmax⟩ := pop_spec h (by omega) hh
      obtain ⟨p1, p2⟩ := ih h' (by omega) hh'
      simp only [popAll, hp]
      refine ⟨(List.Perm.cons x p1).trans hperm.symm, ?_⟩
      rw [List.pairwise_cons]
      exact ⟨fun y hy => hmax y (p1.mem_iff.mp hy), p2⟩

/-- popping the queue `InitValidatorQueue` built yields every element exactly once, highest
    priority first -/
theorem drain_spec (l : List Item) :
    (drain l).Perm l ∧ (drain l).Pairwise (fun a b => a.prio ≥ b.prio) := by
  unfold drain
  obtain ⟨a, b⟩ := build_spec l
  obtain ⟨c, d⟩ := popAll_spec (build l).size (build l) (Nat.le_refl _) a
  exact ⟨c.trans b, d⟩

end Heap
end OLP.Elect

/-
  Part B: the election — sorting helpers, closed form of the pop loop, facts about the purge loop.
-/
namespace OLP.Elect

/-! ### B.1 generic list helpers -/

theorem pairwise_filterMap_mem {α β : Type} {R : α → α → Prop} {S : β → β → Prop} (f : α → Option β)
    (l : List α)
    (H : ∀ a ∈ l, ∀ a' ∈ l, R a a' → ∀ b, f a = some b → ∀ b', f a' = some b' → S b b')
    (hp : l.Pairwise R) : (l.filterMap f).Pairwise S := by
  induction l with
  | nil => simp
  | cons x t ih =>
    rw [List.pairwise_cons] at hp
    have iht := ih (fun a ha a' ha' => H a (List.mem_cons_of_mem _ ha) a' (List.mem_cons_of_mem _ ha')) hp.2
    rw [List.filterMap_cons]
    cases hx : f x with
    | none => simpa using iht
    | some b =>
      simp only
      rw [List.pairwise_cons]
      refine ⟨?_, iht⟩
      intro b' hb'
      obtain ⟨a', ha', e'⟩ := List.mem_filterMap.mp hb'
      exact H x (List.mem_cons_self ..) a' (List.mem_cons_of_mem _ ha') (hp.1 a' ha') b hx b' e'

theorem nodup_map_of_inj_on {α β : Type} (f : α → β) (l : List α) (hn : l.Nodup)
    (hinj : ∀ a ∈ l, ∀ b ∈ l, f a = f b → a = b) : (l.map f).Nodup := by
  unfold List.Nodup
  rw [List.pairwise_map]
  exact List.Pairwise.imp_of_mem (fun ha hb hne e => hne (hinj _ ha _ hb e)) hn

theorem inj_on_of_nodup_map {α β : Type} (f : α → β) (l : List α) (hn : (l.map f).Nodup) :
    ∀ a ∈ l, ∀ b ∈ l, f a = f b → a = b := by
  induction l with
  | nil => intro a ha; cases ha
  | cons x t ih =>
    simp only [List.map_cons, List.nodup_cons, List.mem_map, not_exists, not_and] at hn
    intro a ha b hb e
    rcases List.mem_cons.mp ha with rfl | ha' <;> rcases List.mem_cons.mp hb with rfl | hb'
    · rfl
    · exact absurd e.symm (hn.1 b hb')
    · exact absurd e (hn.1 a ha')
    · exact ih hn.2 a ha' b hb' e

/-! ### B.2 `sort.Slice` by public key -/

theorem insUpd_perm (u : Upd) (l : List Upd) : (insUpd u l).Perm (u :: l) := by
  induction l with
  | nil => exact List.Perm.refl _
  | cons v t ih =>
    unfold insUpd
    split
    · exact List.Perm.refl _
    · exact (List.Perm.cons v ih).trans (List.Perm.swap u v t)

theorem sortUpd_perm (l : List Upd) : (sortUpd l).Perm l := by
  induction l with
  | nil => exact List.Perm.refl _
  | cons u t ih =>
    show (insUpd u (sortUpd t)).Perm (u :: t)
    exact (insUpd_perm u _).trans (List.Perm.cons u ih)

theorem insUpd_sorted (u : Upd) (l : List Upd) (hs : l.Pairwise (fun a b => a.pub ≤ b.pub)) :
    (insUpd u l).Pairwise (fun a b => a.pub ≤ b.pub) := by
  induction l with
  | nil => simp [insUpd]
  | cons v t ih =>
    rw [List.pairwise_cons] at hs
    unfold insUpd
    split
    · rename_i hle
      rw [List.pairwise_cons]
      refine ⟨?_, List.pairwise_cons.mpr hs⟩
      intro w hw
      rcases List.mem_cons.mp hw with rfl | hw'
      · exact hle
      · exact Nat.le_trans hle (hs.1 w hw')
    · rename_i hgt
      rw [List.pairwise_cons]
      refine ⟨?_, ih hs.2⟩
      intro w hw
      rcases List.mem_cons.mp ((insUpd_perm u t).mem_iff.mp hw) with rfl | hw'
      · omega
      · exact hs.1 w hw'

theorem sortUpd_sorted (l : List Upd) : (sortUpd l).Pairwise (fun a b => a.pub ≤ b.pub) := by
  induction l with
  | nil => simp [sortUpd]
  | cons u t ih => exact insUpd_sorted u _ ih

/-! ### B.3 `sort.Strings` over the keys of `lastActive` -/

theorem mem_insKey (a b : Nat) (l : List Nat) : b ∈ insKey a l ↔ b = a ∨ b ∈ l := by
  induction l with
  | nil => simp [insKey]
  | cons c t ih =>
    unfold insKey
    split
    · simp
    · split
      · rename_i e; subst e; simp
      · simp only [List.mem_cons, ih]
        constructor
        · rintro (h | h | h) <;> simp [h]
        · rintro (h | h | h) <;> simp [h]

theorem mem_sortKeys (b : Nat) (l : List Nat) : b ∈ sortKeys l ↔ b ∈ l := by
  induction l with
  | nil => simp [sortKeys]
  | cons a t ih =>
    show b ∈ insKey a (sortKeys t) ↔ _
    rw [mem_insKey, ih, List.mem_cons]

theorem insKey_sorted (a : Nat) (l : List Nat) (hs : l.Pairwise (· < ·)) : (insKey a l).Pairwise (· < ·) := by
  induction l with
  | nil => simp [insKey]
  | cons c t ih =>
    rw [List.pairwise_cons] at hs
    unfold insKey
    split
    · rename_i hlt
      rw [List.pairwise_cons]
      refine ⟨?_, List.pairwise_cons.mpr hs⟩
      intro w hw
      rcases List.mem_cons.mp hw with rfl | hw'
      · exact hlt
      · exact Nat.lt_trans hlt (hs.1 w hw')
    · split
      · exact List.pairwise_cons.mpr hs
      · rw [List.pairwise_cons]
        refine ⟨?_, ih hs.2⟩
        intro w hw
        rcases (mem_insKey a w t).mp hw with rfl | hw'
        · omega
        · exact hs.1 w hw'

theorem sortKeys_sorted (l : List Nat) : (sortKeys l).Pairwise (· < ·) := by
  induction l with
  | nil => simp [sortKeys]
  | cons a t ih => exact insKey_sorted a _ ih

theorem sortKeys_nodup (l : List Nat) : (sortKeys l).Nodup :=
  List.Pairwise.imp (fun h => Nat.ne_of_lt h) (sortKeys_sorted l)

/-! ### B.4 records and their addresses -/

theorem findRec_some {recs : List Rec} {a : Nat} {r : Rec} (h : findRec recs a = some r) :
    r ∈ recs ∧ r.addr = a := by
  unfold findRec at h
  exact ⟨List.mem_of_find?_eq_some h, by simpa using List.find?_some h⟩

theorem findRec_self {recs : List Rec} (hn : (recs.map (·.addr)).Nodup) {r : Rec} (hr : r ∈ recs) :
    findRec recs r.addr = some r := by
  induction recs with
  | nil => cases hr
  | cons x t ih =>
    simp only [List.map_cons, List.nodup_cons, List.mem_map, not_exists, not_and] at hn
    unfold findRec
    rw [List.find?_cons]
    rcases List.mem_cons.mp hr with rfl | hr'
    · simp
    · have hne : (x.addr == r.addr) = false := by
        simp only [beq_eq_false_iff_ne, ne_eq]
        exact fun e => hn.1 r hr' e.symm
      rw [hne]
      exact ih hn.2 hr'

theorem filterMap_findRec_self {recs : List Rec} (hn : (recs.map (·.addr)).Nodup) (l : List Rec)
    (hl : ∀ r ∈ l, r ∈ recs) : l.filterMap (fun r => findRec recs r.addr) = l := by
  induction l with
  | nil => rfl
  | cons x t ih =>
    rw [List.filterMap_cons, findRec_self hn (hl x (List.mem_cons_self ..))]
    simp only
    rw [ih (fun r hr => hl r (List.mem_cons_of_mem _ hr))]

/-! ### B.5 closed form of the pop loop -/

/-- the record a popped item stands for, if it is eligible -/
def eligOf (inp : Input) (it : Item) : Option Rec := (findRec inp.recs it.val).filter (eligible inp)

/-- the eligible records in pop order -/
def eligInOrder (inp : Input) : List Rec := (popOrder inp).filterMap (eligOf inp)

/-- the records the loop elects: the first `TopValidatorCount` eligible ones in pop order -/
def electedRecs (inp : Input) : List Rec := (eligInOrder inp).take inp.top.toNat

theorem foldl_popStep_elected (inp : Input) (post : List Item) (st : Loop)
    (hc : st.cnt = st.elected.length) :
    (post.foldl (popStep inp) st).elected =
      st.elected ++ (post.filterMap (eligOf inp)).take (inp.top - st.cnt).toNat ∧
    (post.foldl (popStep inp) st).cnt = ((post.foldl (popStep inp) st).elected.length : Int) := by
  induction post generalizing st with
  | nil => simp [hc]
  | cons it t ih =>
    rw [List.foldl_cons, List.filterMap_cons]
    cases hf : findRec inp.recs it.val with
    | none =>
      have e : popStep inp st it = st := by unfold popStep; rw [hf]
      have he : eligOf inp it = none := by unfold eligOf; rw [hf]; rfl
      rw [e, he]
      exact ih st hc
    | some r =>
      by_cases hel : eligible inp r = true
      · have he : eligOf inp it = some r := by unfold eligOf; rw [hf, Option.filter_some]; simp [hel]
        rw [he]
        by_cases hlt : st.cnt < inp.top
        · -- elected
          have e1 : (popStep inp st it).elected = st.elected ++ [r] := by
            unfold popStep; rw [hf]; simp [hel, hlt]
          have e2 : (popStep inp st it).cnt = st.cnt + 1 := by
            unfold popStep; rw [hf]; simp [hel, hlt]
          have hc' : (popStep inp st it).cnt = ((popStep inp st it).elected.length : Int) := by
            rw [e1, e2, hc]; simp
          obtain ⟨a, b⟩ := ih _ hc'
          refine ⟨?_, b⟩
          rw [a, e1, e2]
          have : (inp.top - st.cnt).toNat = (inp.top - (st.cnt + 1)).toNat + 1 := by omega
          rw [this, List.take_succ_cons]
          simp
        · -- seats are full
          have e1 : (popStep inp st it).elected = st.elected := by
            unfold popStep; rw [hf]; simp [hel, hlt]
          have e2 : (popStep inp st it).cnt = st.cnt := by
            unfold popStep; rw [hf]; simp [hel, hlt]
          have hc' : (popStep inp st it).cnt = ((popStep inp st it).elected.length : Int) := by
            rw [e1, e2, hc]
          obtain ⟨a, b⟩ := ih _ hc'
          refine ⟨?_, b⟩
          rw [a, e1, e2]
          have : (inp.top - st.cnt).toNat = 0 := by omega
          simp [this]
      · -- not eligible
        have he : eligOf inp it = none := by unfold eligOf; rw [hf, Option.filter_some]; simp [hel]
        rw [he]
        have e1 : (popStep inp st it).elected = st.elected := by
          unfold popStep; rw [hf]; simp [hel]
        have e2 : (popStep inp st it).cnt = st.cnt := by
          unfold popStep; rw [hf]; simp [hel]
        have hc' : (popStep inp st it).cnt = ((popStep inp st it).elected.length : Int) := by
          rw [e1, e2, hc]
        obtain ⟨a, b⟩ := ih _ hc'
        refine ⟨?_, b⟩
        rw [a, e1, e2]

theorem runLoop_elected (inp : Input) : (runLoop inp).elected = electedRecs inp := by
  unfold runLoop electedRecs eligInOrder
  have := (foldl_popStep_elected inp (popOrder inp) {} (by simp)).1
  simpa using this

theorem runLoop_cnt (inp : Input) : (runLoop inp).cnt = ((electedRecs inp).length : Int) := by
  rw [← runLoop_elected]
  exact (foldl_popStep_elected inp (popOrder inp) {} (by simp)).2

/-- every processed record lands in exactly one of the two lists -/
theorem foldl_popStep_split (inp : Input) (post : List Item) (st : Loop) :
    ((post.foldl (popStep inp) st).elected ++ (post.foldl (popStep inp) st).nonTop).Perm
      ((st.elected ++ st.nonTop) ++ post.filterMap (fun it => findRec inp.recs it.val)) := by
  induction post generalizing st with
  | nil => simp
  | cons it t ih =>
    rw [List.foldl_cons, List.filterMap_cons]
    refine (ih _).trans ?_
    cases hf : findRec inp.recs it.val with
    | none =>
      have e : popStep inp st it = st := by unfold popStep; rw [hf]
      rw [e]
    | some r =>
      simp only
      have hA : ((popStep inp st it).elected ++ (popStep inp st it).nonTop).Perm
          ((st.elected ++ st.nonTop) ++ [r]) := by
        have mid : (st.elected ++ r :: st.nonTop).Perm ((st.elected ++ st.nonTop) ++ [r]) :=
          List.perm_middle.trans (List.perm_append_singleton r _).symm
        by_cases hu : (eligible inp r && decide (st.cnt < inp.top)) = true
        · have e1 : (popStep inp st it).elected = st.elected ++ [r] := by
            unfold popStep; rw [hf]; simp [hu]
          have e2 : (popStep inp st it).nonTop = st.nonTop := by
            unfold popStep; rw [hf]; simp [hu]
          rw [e1, e2]
          simpa using mid
        · have e1 : (popStep inp st it).elected = st.elected := by
            unfold popStep; rw [hf]; simp [hu]
          have e2 : (popStep inp st it).nonTop = r :: st.nonTop := by
            unfold popStep; rw [hf]; simp [hu]
          rw [e1, e2]
          exact mid
      refine (List.Perm.append_right _ hA).trans ?_
      simp

/-- with distinct record addresses the two lists together are exactly the records -/
theorem runLoop_split (inp : Input) (hn : (inp.recs.map (·.addr)).Nodup) :
    ((runLoop inp).elected ++ (runLoop inp).nonTop).Perm inp.recs := by
  unfold runLoop
  refine (foldl_popStep_split inp (popOrder inp) {}).trans ?_
  simp only [List.append_nil, List.nil_append]
  have p1 : (popOrder inp).Perm (inp.recs.map fun r => (⟨r.addr, r.power⟩ : Item)) := (Heap.drain_spec _).1
  refine (List.Perm.filterMap _ p1).trans ?_
  rw [List.filterMap_map]
  have : (fun it : Item => findRec inp.recs it.val) ∘ (fun r : Rec => (⟨r.addr, r.power⟩ : Item)) =
      fun r => findRec inp.recs r.addr := rfl
  rw [this, filterMap_findRec_self hn _ (fun r hr => hr)]

/-- without any hypothesis: whatever the loop holds comes from the records -/
theorem runLoop_sound (inp : Input) : ∀ r, r ∈ (runLoop inp).elected ++ (runLoop inp).nonTop → r ∈ inp.recs := by
  intro r hr
  have := (foldl_popStep_split inp (popOrder inp) {}).mem_iff.mp hr
  simp only [List.append_nil, List.nil_append, List.mem_filterMap] at this
  obtain ⟨it, _, e⟩ := this
  exact (findRec_some e).1

theorem mem_electedRecs {inp : Input} {r : Rec} (hr : r ∈ electedRecs inp) :
    r ∈ inp.recs ∧ r.power ≥ inp.minSelf ∧ r.addr ∉ inp.malicious := by
  have h1 := List.mem_of_mem_take hr
  unfold eligInOrder at h1
  obtain ⟨it, _, e⟩ := List.mem_filterMap.mp h1
  unfold eligOf at e
  cases hf : findRec inp.recs it.val with
  | none => rw [hf] at e; simp at e
  | some r' =>
    rw [hf, Option.filter_some] at e
    split at e
    · rename_i hel
      cases e
      unfold eligible at hel
      simp only [Bool.and_eq_true, decide_eq_true_eq, Bool.not_eq_true', List.contains_eq_mem,
        decide_eq_false_iff_not] at hel
      exact ⟨(findRec_some hf).1, hel.1, hel.2⟩
    · cases e

/-! ### B.6 the purge loop -/

theorem foldl_purgeStep (inp : Input) (nonTop : List Rec) (keys : List Nat) (acc : List Rec) :
    keys.foldl (purgeStep inp nonTop) acc =
      acc ++ keys.filterMap (fun a => (findRec nonTop a).filter (fun _ => !guarded inp a)) := by
  induction keys generalizing acc with
  | nil => simp
  | cons a t ih =>
    rw [List.foldl_cons, ih, List.filterMap_cons]
    unfold purgeStep
    cases hf : findRec nonTop a with
    | none => simp
    | some r =>
      by_cases hg : guarded inp a = true
      · simp [hg, Option.filter_some]
      · simp [hg, Option.filter_some]

/-- the purge loop without the `activeCount == 0` stop -/
def purgedRaw (inp : Input) : List Rec :=
  (sortKeys inp.lastActive).foldl (purgeStep inp (runLoop inp).nonTop) []

theorem purged_eq (inp : Input) :
    purged inp = if (runLoop inp).cnt = 0 then [] else purgedRaw inp := rfl

theorem purged_sub {inp : Input} {r : Rec} (h : r ∈ purged inp) :
    r ∈ purgedRaw inp ∧ (runLoop inp).cnt ≠ 0 := by
  rw [purged_eq] at h
  split at h
  · cases h
  · rename_i hc; exact ⟨h, hc⟩

theorem mem_purged {inp : Input} {r : Rec} (hr : r ∈ purged inp) :
    r ∈ (runLoop inp).nonTop ∧ r.addr ∈ inp.lastActive ∧ guarded inp r.addr = false := by
  have hr := (purged_sub hr).1
  unfold purgedRaw at hr
  rw [foldl_purgeStep] at hr
  simp only [List.nil_append, List.mem_filterMap] at hr
  obtain ⟨a, ha, e⟩ := hr
  cases hf : findRec (runLoop inp).nonTop a with
  | none => rw [hf] at e; simp at e
  | some r' =>
    rw [hf, Option.filter_some] at e
    split at e
    · rename_i hg
      cases e
      obtain ⟨m, ea⟩ := findRec_some hf
      refine ⟨m, ?_, ?_⟩
      · rw [ea]; exact (mem_sortKeys a _).mp ha
      · rw [ea]; simpa using hg
    · cases e

theorem purged_addr_nodup (inp : Input) : ((purged inp).map (·.addr)).Nodup := by
  rw [purged_eq]
  split
  · simp
  unfold purgedRaw
  rw [foldl_purgeStep]
  simp only [List.nil_append]
  have hk := sortKeys_nodup inp.lastActive
  generalize sortKeys inp.lastActive = keys at hk
  induction keys with
  | nil => simp
  | cons a t ih =>
    rw [List.nodup_cons] at hk
    rw [List.filterMap_cons]
    cases hf : (findRec (runLoop inp).nonTop a).filter (fun _ => !guarded inp a) with
    | none => simpa using ih hk.2
    | some r =>
      simp only [List.map_cons, List.nodup_cons]
      refine ⟨?_, ih hk.2⟩
      intro hm
      obtain ⟨r', hr', e⟩ := List.mem_map.mp hm
      obtain ⟨b, hb, eb⟩ := List.mem_filterMap.mp hr'
      -- r.addr = a and r'.addr = b ∈ t
      have ra : r.addr = a := by
        cases hf2 : findRec (runLoop inp).nonTop a with
        | none => rw [hf2] at hf; simp at hf
        | some x =>
          rw [hf2, Option.filter_some] at hf
          split at hf
          · cases hf; exact (findRec_some hf2).2
          · cases hf
      have rb : r'.addr = b := by
        cases hf2 : findRec (runLoop inp).nonTop b with
        | none => rw [hf2] at eb; simp at eb
        | some x =>
          rw [hf2, Option.filter_some] at eb
          split at eb
          · cases eb; exact (findRec_some hf2).2
          · cases eb
      apply hk.1
      rw [← ra, ← e, rb]
      exact hb

/-! ### B.7 the output of `elect` -/

theorem elect_low (inp : Input) (h : inp.height ≤ 1) : elect inp = ⟨[], [], [], [], 0⟩ := by
  unfold elect; simp [h]

theorem elect_updates (inp : Input) (h : 1 < inp.height) :
    (elect inp).updates = sortUpd ((electedRecs inp).map Rec.upd ++ (purged inp).map Rec.removal) := by
  have : ¬ inp.height ≤ 1 := by omega
  unfold elect; simp [this, runLoop_elected]

theorem elect_purgeW (inp : Input) (h : 1 < inp.height) :
    (elect inp).purgeW = (purged inp).map fun r => (r.addr, inp.height) := by
  have : ¬ inp.height ≤ 1 := by omega
  unfold elect; simp [this]

theorem elect_activeCount (inp : Input) (h : 1 < inp.height) :
    (elect inp).activeCount = ((electedRecs inp).length : Int) := by
  have : ¬ inp.height ≤ 1 := by omega
  unfold elect; simp [this, runLoop_cnt]

theorem updates_perm (inp : Input) (h : 1 < inp.height) :
    (elect inp).updates.Perm ((electedRecs inp).map Rec.upd ++ (purged inp).map Rec.removal) := by
  rw [elect_updates inp h]; exact sortUpd_perm _

theorem mem_updates (inp : Input) (h : 1 < inp.height) (u : Upd) :
    u ∈ (elect inp).updates ↔
      (∃ r ∈ electedRecs inp, u = r.upd) ∨ (∃ r ∈ purged inp, u = r.removal) := by
  rw [(updates_perm inp h).mem_iff, List.mem_append, List.mem_map, List.mem_map]
  constructor
  · rintro (⟨r, hr, e⟩ | ⟨r, hr, e⟩)
    · exact Or.inl ⟨r, hr, e.symm⟩
    · exact Or.inr ⟨r, hr, e.symm⟩
  · rintro (⟨r, hr, e⟩ | ⟨r, hr, e⟩)
    · exact Or.inl ⟨r, hr, e.symm⟩
    · exact Or.inr ⟨r, hr, e.symm⟩

/-- the pop order lists the eligible records with non-increasing power (distinct addresses) -/
theorem eligInOrder_sorted (inp : Input) (hn : (inp.recs.map (·.addr)).Nodup) :
    (eligInOrder inp).Pairwise (fun a b => a.power ≥ b.power) := by
  unfold eligInOrder
  obtain ⟨p1, p2⟩ := Heap.drain_spec (inp.recs.map fun r => (⟨r.addr, r.power⟩ : Item))
  apply pairwise_filterMap_mem (eligOf inp) _ _ p2
  intro a ha a' ha' hR b hb b' hb'
  -- an item of the queue is (addr, power) of a record, and the lookup returns that record
  have key : ∀ it ∈ popOrder inp, ∀ r, eligOf inp it = some r → r.power = it.prio := by
    intro it hit r hr
    obtain ⟨r0, hr0, e0⟩ := List.mem_map.mp (p1.mem_iff.mp hit)
    unfold eligOf at hr
    subst e0
    rw [findRec_self hn hr0, Option.filter_some] at hr
    split at hr
    · cases hr; rfl
    · cases hr
  rw [key a ha b hb, key a' ha' b' hb']
  exact hR

theorem mem_eligInOrder (inp : Input) (hn : (inp.recs.map (·.addr)).Nodup) (r : Rec) (hr : r ∈ inp.recs)
    (hp : r.power ≥ inp.minSelf) (hm : r.addr ∉ inp.malicious) : r ∈ eligInOrder inp := by
  unfold eligInOrder
  rw [List.mem_filterMap]
  obtain ⟨p1, _⟩ := Heap.drain_spec (inp.recs.map fun r => (⟨r.addr, r.power⟩ : Item))
  refine ⟨⟨r.addr, r.power⟩, p1.mem_iff.mpr (List.mem_map.mpr ⟨r, hr, rfl⟩), ?_⟩
  unfold eligOf
  rw [findRec_self hn hr, Option.filter_some]
  have : eligible inp r = true := by
    unfold eligible
    simp only [Bool.and_eq_true, decide_eq_true_eq, Bool.not_eq_true', List.contains_eq_mem, decide_eq_false_iff_not]
    exact ⟨hp, hm⟩
  simp [this]

end OLP.Elect

/-
  Part C: Tendermint's change-set rule — when a list is accepted and what the new set is.
-/
namespace OLP.Elect
namespace TM

/-- sum of the powers of a change list -/
def sumPow : List Chg → Int
  | [] => 0
  | c :: t => c.power + sumPow t

theorem sumPow_perm {l₁ l₂ : List Chg} (h : l₁.Perm l₂) : sumPow l₁ = sumPow l₂ := by
  induction h with
  | nil => rfl
  | cons x _ ih => simp [sumPow, ih]
  | swap x y l => simp only [sumPow]; omega
  | trans _ _ ih1 ih2 => exact ih1.trans ih2

theorem sumPow_nonneg (l : List Chg) (h : ∀ c ∈ l, 0 ≤ c.power) : 0 ≤ sumPow l := by
  induction l with
  | nil => simp [sumPow]
  | cons c t ih =>
    have := h c (List.mem_cons_self ..)
    have := ih (fun c hc => h c (List.mem_cons_of_mem _ hc))
    simp only [sumPow]; omega

theorem le_sumPow (l : List Chg) (h : ∀ c ∈ l, 0 ≤ c.power) (c : Chg) (hc : c ∈ l) : c.power ≤ sumPow l := by
  induction l with
  | nil => cases hc
  | cons x t ih =>
    have hx := h x (List.mem_cons_self ..)
    have ht := sumPow_nonneg t (fun c hc => h c (List.mem_cons_of_mem _ hc))
    simp only [sumPow]
    rcases List.mem_cons.mp hc with rfl | hc'
    · omega
    · have := ih (fun c hc => h c (List.mem_cons_of_mem _ hc)) hc'
      omega

theorem sumPow_filter_le (l : List Chg) (h : ∀ c ∈ l, 0 ≤ c.power) (p : Chg → Bool) :
    sumPow (l.filter p) ≤ sumPow l := by
  induction l with
  | nil => simp [sumPow]
  | cons x t ih =>
    have hx := h x (List.mem_cons_self ..)
    have := ih (fun c hc => h c (List.mem_cons_of_mem _ hc))
    rw [List.filter_cons]
    split <;> simp only [sumPow] <;> omega

theorem total_nonneg (s : VSet) (h : ∀ x ∈ s, 0 ≤ x.2) : 0 ≤ total s := by
  induction s with
  | nil => simp [total]
  | cons x t ih =>
    obtain ⟨k, p⟩ := x
    have := h (k, p) (List.mem_cons_self ..)
    have := ih (fun x hx => h x (List.mem_cons_of_mem _ hx))
    simp only [total]; simp at *; omega

theorem alookup_mem {k : Nat} {p : Int} {s : VSet} (h : alookup k s = some p) : (k, p) ∈ s := by
  induction s with
  | nil => simp [alookup] at h
  | cons x t ih =>
    obtain ⟨k', p'⟩ := x
    unfold alookup at h
    split at h
    · rename_i e; cases h; subst e; exact List.mem_cons_self ..
    · exact List.mem_cons_of_mem _ (ih h)

theorem alookup_isSome_iff {k : Nat} {s : VSet} : (alookup k s).isSome ↔ k ∈ s.map (·.1) := by
  induction s with
  | nil => simp [alookup]
  | cons x t ih =>
    obtain ⟨k', p'⟩ := x
    unfold alookup
    split
    · rename_i e; subst e; simp
    · rename_i e
      rw [ih]
      simp only [List.map_cons, List.mem_cons]
      constructor
      · exact Or.inr
      · rintro (h | h)
        · exact absurd h.symm e
        · exact h

/-! ### C.1 sorting by address -/

theorem insChg_perm (u : Chg) (l : List Chg) : (insChg u l).Perm (u :: l) := by
  induction l with
  | nil => exact List.Perm.refl _
  | cons v t ih =>
    unfold insChg
    split
    · exact List.Perm.refl _
    · exact (List.Perm.cons v ih).trans (List.Perm.swap u v t)

theorem sortChg_perm (l : List Chg) : (sortChg l).Perm l := by
  induction l with
  | nil => exact List.Perm.refl _
  | cons u t ih => exact (insChg_perm u _).trans (List.Perm.cons u ih)

theorem insChg_sorted (u : Chg) (l : List Chg) (hs : l.Pairwise (fun a b => a.key ≤ b.key)) :
    (insChg u l).Pairwise (fun a b => a.key ≤ b.key) := by
  induction l with
  | nil => simp [insChg]
  | cons v t ih =>
    rw [List.pairwise_cons] at hs
    unfold insChg
    split
    · rename_i hle
      rw [List.pairwise_cons]
      refine ⟨?_, List.pairwise_cons.mpr hs⟩
      intro w hw
      rcases List.mem_cons.mp hw with rfl | hw'
      · exact hle
      · exact Nat.le_trans hle (hs.1 w hw')
    · rename_i hgt
      rw [List.pairwise_cons]
      refine ⟨?_, ih hs.2⟩
      intro w hw
      rcases List.mem_cons.mp ((insChg_perm u t).mem_iff.mp hw) with rfl | hw'
      · omega
      · exact hs.1 w hw'

theorem sortChg_sorted (l : List Chg) : (sortChg l).Pairwise (fun a b => a.key ≤ b.key) := by
  induction l with
  | nil => simp [sortChg]
  | cons u t ih => exact insChg_sorted u _ ih

theorem sortChg_strict (l : List Chg) (hn : (l.map (·.key)).Nodup) :
    (sortChg l).Pairwise (fun a b => a.key < b.key) := by
  have h1 := sortChg_sorted l
  have h2 : ((sortChg l).map (·.key)).Nodup := ((sortChg_perm l).map (·.key)).nodup_iff.mpr hn
  unfold List.Nodup at h2
  rw [List.pairwise_map] at h2
  exact List.Pairwise.imp (fun ⟨a, b⟩ => Nat.lt_of_le_of_ne a b) (h1.and h2)

/-! ### C.2 the individual checks -/

theorem validate_ok (cs : List Chg) (hpow : ∀ c ∈ cs, 0 ≤ c.power)
    (hkt : ∀ c ∈ cs, 0 < c.power → c.ktype = 0) : validate cs = .ok () := by
  induction cs with
  | nil => rfl
  | cons c t ih =>
    have h1 := hpow c (List.mem_cons_self ..)
    have h2 := hkt c (List.mem_cons_self ..)
    have iht := ih (fun c hc => hpow c (List.mem_cons_of_mem _ hc)) (fun c hc => hkt c (List.mem_cons_of_mem _ hc))
    unfold validate
    have n1 : ¬ c.power < 0 := by omega
    simp only [n1, if_false]
    by_cases hz : c.power = 0
    · simp [hz, iht]
    · have : c.ktype = 0 := h2 (by omega)
      simp [hz, this, iht]

theorem scan_ok (l : List Chg) (prev : Option Nat)
    (hs : l.Pairwise (fun a b => a.key < b.key))
    (hprev : ∀ p, prev = some p → ∀ c ∈ l, p < c.key)
    (hpow : ∀ c ∈ l, 0 ≤ c.power ∧ c.power ≤ maxTotal) :
    scan prev l = .ok (l.filter (fun c => decide (c.power ≠ 0)), l.filter (fun c => decide (c.power = 0))) := by
  induction l generalizing prev with
  | nil => rfl
  | cons u t ih =>
    rw [List.pairwise_cons] at hs
    have hu := hpow u (List.mem_cons_self ..)
    have ih' := ih (some u.key) hs.2 (fun p hp c hc => by cases hp; exact hs.1 c hc)
      (fun c hc => hpow c (List.mem_cons_of_mem _ hc))
    unfold scan
    have n0 : ¬ prev = some u.key := by
      intro e
      have := hprev u.key e u (List.mem_cons_self ..)
      omega
    have n1 : ¬ u.power < 0 := by omega
    have n2 : ¬ u.power > maxTotal := by omega
    simp only [n0, n1, n2, if_false, ih']
    by_cases hz : u.power = 0
    · simp [hz]
    · simp [hz]

theorem insDelta_perm (s : VSet) (u : Chg) (l : List Chg) : (insDelta s u l).Perm (u :: l) := by
  induction l with
  | nil => exact List.Perm.refl _
  | cons v t ih =>
    unfold insDelta
    split
    · exact List.Perm.refl _
    · exact (List.Perm.cons v ih).trans (List.Perm.swap u v t)

theorem sortDelta_perm (s : VSet) (l : List Chg) : (l.foldr (insDelta s) []).Perm l := by
  induction l with
  | nil => exact List.Perm.refl _
  | cons u t ih => exact (insDelta_perm s u _).trans (List.Perm.cons u ih)

theorem verify_ok (s : VSet) (l : List Chg) (x : Int) (hx : x + sumPow l ≤ maxTotal)
    (hl : ∀ u ∈ l, delta s u ≤ u.power ∧ 0 ≤ u.power) : verifyUpdates s x l = true := by
  induction l generalizing x with
  | nil => rfl
  | cons u t ih =>
    have h1 := hl u (List.mem_cons_self ..)
    have ht := sumPow_nonneg t (fun c hc => (hl c (List.mem_cons_of_mem _ hc)).2)
    simp only [sumPow] at hx
    unfold verifyUpdates
    have n : ¬ x + delta s u > maxTotal := by omega
    simp only [n, if_false]
    exact ih _ (by omega) (fun c hc => hl c (List.mem_cons_of_mem _ hc))

theorem delta_le (s : VSet) (hs : ∀ x ∈ s, 0 ≤ x.2) (u : Chg) : delta s u ≤ u.power := by
  unfold delta
  cases h : alookup u.key s with
  | none => simp
  | some p =>
    have := hs _ (alookup_mem h)
    simp at this ⊢; omega

theorem foldl_add_nonneg (l : List Int) (a : Int) (ha : 0 ≤ a) (h : ∀ x ∈ l, 0 ≤ x) :
    0 ≤ l.foldl (· + ·) a := by
  induction l generalizing a with
  | nil => exact ha
  | cons x t ih =>
    have := h x (List.mem_cons_self ..)
    exact ih (a + x) (by omega) (fun y hy => h y (List.mem_cons_of_mem _ hy))

/-! ### C.3 the new set -/

theorem alookup_insVal (k k' : Nat) (p : Int) (l : VSet) :
    alookup k (insVal k' p l) = if k = k' then some p else alookup k l := by
  induction l with
  | nil =>
    unfold insVal alookup
    by_cases e : k' = k
    · subst e; simp
    · have : ¬ k = k' := fun x => e x.symm
      simp [e, this, alookup]
  | cons x t ih =>
    obtain ⟨k'', p''⟩ := x
    unfold insVal
    split
    · -- inserted in front
      by_cases e : k = k'
      · subst e; simp [alookup]
      · have : ¬ k' = k := fun x => e x.symm
        simp [alookup, e, this]
    · split
      · rename_i _ e2
        subst e2
        by_cases e : k = k'
        · subst e; simp [alookup]
        · have : ¬ k' = k := fun x => e x.symm
          simp [alookup, e, this]
      · rename_i _ e2
        by_cases e : k = k'
        · subst e
          have : ¬ k'' = k := fun x => e2 x.symm
          simp [alookup, this, ih]
        · by_cases e3 : k'' = k
          · simp [alookup, e3, e]
          · simp [alookup, e3, e, ih]

theorem mem_insVal {x : Nat × Int} {k : Nat} {p : Int} {l : VSet} (h : x ∈ insVal k p l) :
    x = (k, p) ∨ x ∈ l := by
  induction l with
  | nil =>
    simp [insVal] at h
    exact Or.inl h
  | cons y t ih =>
    obtain ⟨k', p'⟩ := y
    unfold insVal at h
    split at h
    · rcases List.mem_cons.mp h with e | e
      · exact Or.inl e
      · exact Or.inr e
    · split at h
      · rcases List.mem_cons.mp h with e | e
        · exact Or.inl e
        · exact Or.inr (List.mem_cons_of_mem _ e)
      · rcases List.mem_cons.mp h with e | e
        · exact Or.inr (e ▸ List.mem_cons_self ..)
        · rcases ih e with e' | e'
          · exact Or.inl e'
          · exact Or.inr (List.mem_cons_of_mem _ e')

theorem foldl_insVal (ups : List Chg) (s : VSet) (hn : (ups.map (·.key)).Nodup) :
    (∀ u ∈ ups, alookup u.key (ups.foldl (fun a u => insVal u.key u.power a) s) = some u.power) ∧
    (∀ k, k ∉ ups.map (·.key) → alookup k (ups.foldl (fun a u => insVal u.key u.power a) s) = alookup k s) ∧
    (∀ x ∈ ups.foldl (fun a u => insVal u.key u.power a) s, x ∈ s ∨ ∃ u ∈ ups, x = (u.key, u.power)) := by
  induction ups generalizing s with
  | nil => exact ⟨fun u hu => (by cases hu), fun k _ => rfl, fun x hx => Or.inl hx⟩
  | cons v t ih =>
    simp only [List.map_cons, List.nodup_cons] at hn
    obtain ⟨a, b, c⟩ := ih (insVal v.key v.power s) hn.2
    simp only [List.foldl_cons]
    refine ⟨?_, ?_, ?_⟩
    · intro u hu
      rcases List.mem_cons.mp hu with rfl | hu'
      · rw [b _ hn.1, alookup_insVal]; simp
      · exact a u hu'
    · intro k hk
      simp only [List.map_cons, List.mem_cons, not_or] at hk
      rw [b k hk.2, alookup_insVal]; simp [hk.1]
    · intro x hx
      rcases c x hx with h | ⟨u, hu, e⟩
      · rcases mem_insVal h with e | e
        · exact Or.inr ⟨v, List.mem_cons_self .., e⟩
        · exact Or.inl e
      · exact Or.inr ⟨u, List.mem_cons_of_mem _ hu, e⟩

theorem alookup_filter_key (q : Nat → Bool) (k : Nat) (l : VSet) :
    alookup k (l.filter fun kv => q kv.1) = if q k then alookup k l else none := by
  induction l with
  | nil => simp [alookup]
  | cons x t ih =>
    obtain ⟨k', p'⟩ := x
    rw [List.filter_cons]
    by_cases hq : q k' = true
    · simp only [hq, if_true]
      unfold alookup
      by_cases e : k' = k
      · subst e; simp [hq]
      · simp [e, ih]
    · simp only [hq]
      by_cases e : k' = k
      · subst e; simp [hq, ih]
      · simp only [Bool.false_eq_true, if_false, ih]
        conv => rhs; unfold alookup
        simp [e]

/-! ### C.4 acceptance -/

/-- a change list with distinct keys, non-negative powers, ed25519 keys on the positive ones, whose
    removals name members of the set, that contains at least one positive change and keeps the
    total in range, is accepted; the new set is the old one with the positive changes written and
    the removals gone -/
theorem apply_ok (s : VSet) (cs : List Chg)
    (hkeys : (cs.map (·.key)).Nodup)
    (hpow : ∀ c ∈ cs, 0 ≤ c.power)
    (hkt : ∀ c ∈ cs, 0 < c.power → c.ktype = 0)
    (hdel : ∀ c ∈ cs, c.power = 0 → (alookup c.key s).isSome)
    (hpos : ∃ c ∈ cs, 0 < c.power)
    (hs : ∀ x ∈ s, 0 ≤ x.2)
    (htot : total s + sumPow cs ≤ maxTotal) :
    ∃ s', apply s cs = .ok s' ∧
      (∀ c ∈ cs, c.power = 0 → alookup c.key s' = none) ∧
      (∀ c ∈ cs, 0 < c.power → alookup c.key s' = some c.power) ∧
      (∀ k, k ∉ cs.map (·.key) → alookup k s' = alookup k s) ∧
      (∀ x ∈ s', 0 ≤ x.2) := by
  obtain ⟨c0, hc0, hc0p⟩ := hpos
  have hne : cs.isEmpty = false := by
    cases cs with
    | nil => cases hc0
    | cons _ _ => rfl
  have hperm := sortChg_perm cs
  have hL : ∀ c, c ∈ sortChg cs ↔ c ∈ cs := fun c => hperm.mem_iff
  have htn := total_nonneg s hs
  have hscan := scan_ok (sortChg cs) none (sortChg_strict cs hkeys) (fun p hp => by cases hp)
    (fun c hc => ⟨hpow c ((hL c).mp hc), by
      have := le_sumPow cs hpow c ((hL c).mp hc); omega⟩)
  generalize hups : (sortChg cs).filter (fun c => decide (c.power ≠ 0)) = ups at hscan
  generalize hdels : (sortChg cs).filter (fun c => decide (c.power = 0)) = dels at hscan
  have mups : ∀ c, c ∈ ups ↔ c ∈ cs ∧ c.power ≠ 0 := by
    intro c; rw [← hups, List.mem_filter, hL]; simp
  have mdels : ∀ c, c ∈ dels ↔ c ∈ cs ∧ c.power = 0 := by
    intro c; rw [← hdels, List.mem_filter, hL]; simp
  have hLn : ((sortChg cs).map (·.key)).Nodup := (hperm.map (·.key)).nodup_iff.mpr hkeys
  have hupsn : (ups.map (·.key)).Nodup := by
    rw [← hups]; exact (List.filter_sublist.map _).nodup hLn
  have hdelsn : (dels.map (·.key)).Nodup := by
    rw [← hdels]; exact (List.filter_sublist.map _).nodup hLn
  have hinj := inj_on_of_nodup_map (·.key) cs hkeys
  -- the empty-set test
  have hempty : ¬ ((ups.filter fun u => (alookup u.key s).isNone).length = 0 ∧ s.length = dels.length) := by
    rintro ⟨h1, h2⟩
    have hc0u : c0 ∈ ups := (mups c0).mpr ⟨hc0, by omega⟩
    cases hl : alookup c0.key s with
    | none =>
      have : c0 ∈ ups.filter fun u => (alookup u.key s).isNone := by
        rw [List.mem_filter]; exact ⟨hc0u, by simp [hl]⟩
      have := List.length_pos_of_mem this
      omega
    | some p =>
      have hmem : c0.key ∈ s.map (·.1) := alookup_isSome_iff.mp (by simp [hl])
      have hsub : dels.map (·.key) ⊆ (s.map (·.1)).filter (fun k => decide (k ≠ c0.key)) := by
        intro k hk
        obtain ⟨d, hd, e⟩ := List.mem_map.mp hk
        obtain ⟨hdc, hdz⟩ := (mdels d).mp hd
        rw [List.mem_filter]
        refine ⟨alookup_isSome_iff.mp (by rw [← e]; exact hdel d hdc hdz), ?_⟩
        simp only [decide_eq_true_eq]
        intro ek
        have : d = c0 := hinj d hdc c0 hc0 (by rw [e, ek])
        subst this; omega
      have l1 := hdelsn.length_le_of_subset hsub
      have l2 : ((s.map (·.1)).filter (fun k => decide (k ≠ c0.key))).length < (s.map (·.1)).length :=
        List.length_filter_lt_length_iff_exists.mpr ⟨c0.key, hmem, by simp⟩
      simp only [List.length_map] at l1 l2
      omega
  -- removals are members
  have hany : dels.any (fun d => (alookup d.key s).isNone) = false := by
    rw [List.any_eq_false]
    intro d hd
    obtain ⟨hdc, hdz⟩ := (mdels d).mp hd
    have := hdel d hdc hdz
    cases h : alookup d.key s <;> simp [h] at this ⊢
  -- total power
  have hrem : 0 ≤ (dels.map fun d => (alookup d.key s).getD 0).foldl (· + ·) 0 := by
    apply foldl_add_nonneg _ _ (Int.le_refl 0)
    intro x hx
    obtain ⟨d, _, e⟩ := List.mem_map.mp hx
    cases h : alookup d.key s with
    | none => rw [← e, h]; simp
    | some p => rw [← e, h]; have := hs _ (alookup_mem h); simpa using this
  have hver : verifyUpdates s (total s - (dels.map fun d => (alookup d.key s).getD 0).foldl (· + ·) 0)
      (ups.foldr (insDelta s) []) = true := by
    apply verify_ok
    · rw [sumPow_perm (sortDelta_perm s ups)]
      have h1 : sumPow ups ≤ sumPow (sortChg cs) := by
        rw [← hups]
        exact sumPow_filter_le _ (fun c hc => hpow c ((hL c).mp hc)) _
      rw [sumPow_perm hperm] at h1
      omega
    · intro u hu
      have hu' := ((mups u).mp ((sortDelta_perm s ups).mem_iff.mp hu)).1
      exact ⟨delta_le s hs u, hpow u hu'⟩
  obtain ⟨fa, fb, fc⟩ := foldl_insVal ups s hupsn
  refine ⟨(ups.foldl (fun a u => insVal u.key u.power a) s).filter
    (fun kv => !(dels.any fun d => d.key == kv.1)), ?_, ?_, ?_, ?_, ?_⟩
  · unfold apply
    rw [validate_ok cs hpow hkt]
    simp only [hne, Bool.false_eq_true, if_false, hscan]
    have e1 : ¬ (((ups.filter fun u => (alookup u.key s).isNone).length = 0) ∧ s.length = dels.length) := hempty
    simp only [Bool.and_eq_true, decide_eq_true_eq, e1, if_false, hany, Bool.false_eq_true, hver,
      Bool.not_true]
  · intro c hc hz
    rw [alookup_filter_key (fun k => !(dels.any fun d => d.key == k))]
    have : (dels.any fun d => d.key == c.key) = true := by
      rw [List.any_eq_true]; exact ⟨c, (mdels c).mpr ⟨hc, hz⟩, by simp⟩
    simp [this]
  · intro c hc hp
    rw [alookup_filter_key (fun k => !(dels.any fun d => d.key == k))]
    have : (dels.any fun d => d.key == c.key) = false := by
      rw [List.any_eq_false]
      intro d hd
      obtain ⟨hdc, hdz⟩ := (mdels d).mp hd
      simp only [beq_iff_eq]
      intro e
      have : d = c := hinj d hdc c hc e
      subst this; omega
    simp only [this, Bool.not_false, if_true]
    exact fa c ((mups c).mpr ⟨hc, by omega⟩)
  · intro k hk
    rw [alookup_filter_key (fun k => !(dels.any fun d => d.key == k))]
    have : (dels.any fun d => d.key == k) = false := by
      rw [List.any_eq_false]
      intro d hd
      simp only [beq_iff_eq]
      intro e
      exact hk (List.mem_map.mpr ⟨d, ((mdels d).mp hd).1, e⟩)
    simp only [this, Bool.not_false, if_true]
    apply fb
    intro hk'
    obtain ⟨u, hu, e⟩ := List.mem_map.mp hk'
    exact hk (List.mem_map.mpr ⟨u, ((mups u).mp hu).1, e⟩)
  · intro x hx
    rcases fc x (List.mem_filter.mp hx).1 with h | ⟨u, hu, e⟩
    · exact hs x h
    · rw [e]; exact hpow u ((mups u).mp hu).1

end TM
end OLP.Elect

/-
  Part D: the election's list in front of Tendermint; several blocks.
-/
namespace OLP.Elect

/-- the public key of every record hashes to the record's own address (what STAKE does not check) -/
def Bound (addrOf : Nat → Nat) (recs : List Rec) : Prop := ∀ r ∈ recs, addrOf r.pub = r.addr

theorem mem_purged_recs {inp : Input} {r : Rec} (hr : r ∈ purged inp) : r ∈ inp.recs :=
  runLoop_sound inp r (List.mem_append_right _ (mem_purged hr).1)

/-- elected and purged records are pairwise different validators -/
theorem elected_purged_addr_nodup (inp : Input) (hn : (inp.recs.map (·.addr)).Nodup) :
    ((electedRecs inp ++ purged inp).map (·.addr)).Nodup := by
  have hsplit := runLoop_split inp hn
  rw [runLoop_elected] at hsplit
  have hall : ((electedRecs inp ++ (runLoop inp).nonTop).map (·.addr)).Nodup :=
    ((hsplit.map (·.addr)).nodup_iff).mpr hn
  rw [List.map_append, List.nodup_append] at hall ⊢
  refine ⟨hall.1, purged_addr_nodup inp, ?_⟩
  intro a ha b hb
  obtain ⟨r, hr, e⟩ := List.mem_map.mp hb
  exact hall.2.2 a ha b (List.mem_map.mpr ⟨r, (mem_purged hr).1, e⟩)

theorem mem_tmChanges (addrOf : Nat → Nat) (inp : Input) (h : 1 < inp.height)
    (hb : Bound addrOf inp.recs) (c : TM.Chg) :
    c ∈ tmChanges addrOf (elect inp).updates ↔
      (∃ r ∈ electedRecs inp, c = ⟨r.addr, r.ktype, r.power⟩) ∨ (∃ r ∈ purged inp, c = ⟨r.addr, r.ktype, 0⟩) := by
  unfold tmChanges
  rw [List.mem_map]
  constructor
  · rintro ⟨u, hu, e⟩
    rcases (mem_updates inp h u).mp hu with ⟨r, hr, eu⟩ | ⟨r, hr, eu⟩
    · refine Or.inl ⟨r, hr, ?_⟩
      rw [← e, eu, ← hb r (mem_electedRecs hr).1]; rfl
    · refine Or.inr ⟨r, hr, ?_⟩
      rw [← e, eu, ← hb r (mem_purged_recs hr)]; rfl
  · rintro (⟨r, hr, e⟩ | ⟨r, hr, e⟩)
    · refine ⟨r.upd, (mem_updates inp h _).mpr (Or.inl ⟨r, hr, rfl⟩), ?_⟩
      rw [e, ← hb r (mem_electedRecs hr).1]; rfl
    · refine ⟨r.removal, (mem_updates inp h _).mpr (Or.inr ⟨r, hr, rfl⟩), ?_⟩
      rw [e, ← hb r (mem_purged_recs hr)]; rfl

theorem tmChanges_keys_nodup (addrOf : Nat → Nat) (inp : Input) (h : 1 < inp.height)
    (hn : (inp.recs.map (·.addr)).Nodup) (hb : Bound addrOf inp.recs) :
    ((tmChanges addrOf (elect inp).updates).map (·.key)).Nodup := by
  unfold tmChanges
  rw [List.map_map]
  have hp := (updates_perm inp h).map ((fun c : TM.Chg => c.key) ∘ fun u => (⟨addrOf u.pub, u.ktype, u.power⟩ : TM.Chg))
  rw [hp.nodup_iff, List.map_append, List.map_map, List.map_map]
  have e1 : (electedRecs inp).map (((fun c : TM.Chg => c.key) ∘ fun u => (⟨addrOf u.pub, u.ktype, u.power⟩ : TM.Chg)) ∘ Rec.upd)
      = (electedRecs inp).map (·.addr) := by
    apply List.map_congr_left
    intro r hr
    exact hb r (mem_electedRecs hr).1
  have e2 : (purged inp).map (((fun c : TM.Chg => c.key) ∘ fun u => (⟨addrOf u.pub, u.ktype, u.power⟩ : TM.Chg)) ∘ Rec.removal)
      = (purged inp).map (·.addr) := by
    apply List.map_congr_left
    intro r hr
    exact hb r (mem_purged_recs hr)
  rw [e1, e2, ← List.map_append]
  exact elected_purged_addr_nodup inp hn

/-- SINGLE BLOCK: the list of one block is accepted by a set that contains every validator the
    list removes, provided keys are bound and of type ed25519, somebody is elected and the total
    stays in range; the new set is described exactly -/
theorem elect_tm_ok (addrOf : Nat → Nat) (inp : Input) (s : TM.VSet) (h : 1 < inp.height)
    (hn : (inp.recs.map (·.addr)).Nodup) (hb : Bound addrOf inp.recs)
    (hkt : ∀ r ∈ inp.recs, r.ktype = 0) (hmin : 0 < inp.minSelf)
    (hne : 0 < (elect inp).activeCount)
    (hin : ∀ r ∈ purged inp, (alookup r.addr s).isSome)
    (hs : ∀ x ∈ s, 0 ≤ x.2)
    (htot : TM.total s + TM.sumPow (tmChanges addrOf (elect inp).updates) ≤ TM.maxTotal) :
    ∃ s', TM.apply s (tmChanges addrOf (elect inp).updates) = .ok s' ∧
      (∀ r ∈ purged inp, alookup r.addr s' = none) ∧
      (∀ r ∈ electedRecs inp, alookup r.addr s' = some r.power) ∧
      (∀ k, k ∉ (electedRecs inp).map (·.addr) → k ∉ (purged inp).map (·.addr) → alookup k s' = alookup k s) ∧
      (∀ x ∈ s', 0 ≤ x.2) := by
  have M := mem_tmChanges addrOf inp h hb
  have hEpos : ∀ r ∈ electedRecs inp, 0 < r.power := fun r hr => by
    have := (mem_electedRecs hr).2.1; omega
  obtain ⟨s', ok, a, b, c, d⟩ := TM.apply_ok s (tmChanges addrOf (elect inp).updates)
    (tmChanges_keys_nodup addrOf inp h hn hb)
    (by
      intro c hc
      rcases (M c).mp hc with ⟨r, hr, e⟩ | ⟨r, _, e⟩
      · rw [e]; exact Int.le_of_lt (hEpos r hr)
      · rw [e]; exact Int.le_refl 0)
    (by
      intro c hc _
      rcases (M c).mp hc with ⟨r, hr, e⟩ | ⟨r, hr, e⟩
      · rw [e]; exact hkt r (mem_electedRecs hr).1
      · rw [e]; exact hkt r (mem_purged_recs hr))
    (by
      intro c hc hz
      rcases (M c).mp hc with ⟨r, hr, e⟩ | ⟨r, hr, e⟩
      · rw [e] at hz; have := hEpos r hr; simp at hz; omega
      · rw [e]; exact hin r hr)
    (by
      rw [elect_activeCount inp h] at hne
      cases hE : electedRecs inp with
      | nil => rw [hE] at hne; simp at hne
      | cons r t =>
        have hr : r ∈ electedRecs inp := by rw [hE]; exact List.mem_cons_self ..
        exact ⟨⟨r.addr, r.ktype, r.power⟩, (M _).mpr (Or.inl ⟨r, hr, rfl⟩), hEpos r hr⟩)
    hs htot
  refine ⟨s', ok, ?_, ?_, ?_, d⟩
  · intro r hr
    exact a ⟨r.addr, r.ktype, 0⟩ ((M _).mpr (Or.inr ⟨r, hr, rfl⟩)) rfl
  · intro r hr
    exact b ⟨r.addr, r.ktype, r.power⟩ ((M _).mpr (Or.inl ⟨r, hr, rfl⟩)) (hEpos r hr)
  · intro k h1 h2
    apply c
    intro hk
    obtain ⟨ch, hch, e⟩ := List.mem_map.mp hk
    rcases (M ch).mp hch with ⟨r, hr, e'⟩ | ⟨r, hr, e'⟩
    · exact h1 (List.mem_map.mpr ⟨r, hr, by rw [← e, e']⟩)
    · exact h2 (List.mem_map.mpr ⟨r, hr, by rw [← e, e']⟩)

/-! ### D.2 bookkeeping of the pop loop: status writes and deletions -/

/-- what the loop state says about its own status writes and deletions -/
structure Book (inp : Input) (st : Loop) : Prop where
  wh : ∀ p ∈ st.statusW, p.2.height = inp.height
  wa : ∀ p ∈ st.statusW, (p.2.active = true → ∃ r ∈ st.elected, r.addr = p.1) ∧
        (p.2.active = false → ∃ r ∈ st.nonTop, r.addr = p.1)
  el : ∀ r ∈ st.elected, (∃ p ∈ st.statusW, p.1 = r.addr) ∨
        (∃ x, alookup r.addr inp.status = some x ∧ x.active = true)
  del : ∀ a ∈ st.deleted, ∃ r ∈ st.nonTop, r.addr = a ∧ r.power ≤ 0 ∧ a ∉ inp.lastActive ∧
        ∃ x, alookup a inp.status = some x ∧ x.active = false ∧ x.height + 2 < inp.height

theorem popStep_some (inp : Input) (st : Loop) (it : Item) (r : Rec)
    (hf : findRec inp.recs it.val = some r) :
    ∃ upd need : Bool,
      need = (match alookup r.addr inp.status with
        | none => true
        | some s => s.active != upd) ∧
      popStep inp st it =
        { cnt := if upd then st.cnt + 1 else st.cnt
          elected := if upd then st.elected ++ [r] else st.elected
          nonTop := if upd then st.nonTop else r :: st.nonTop
          statusW := if need then st.statusW ++ [(r.addr, ⟨upd, inp.height⟩)] else st.statusW
          deleted := if deletable inp r need then st.deleted ++ [r.addr] else st.deleted } := by
  unfold popStep
  rw [hf]
  exact ⟨_, _, rfl, rfl⟩

theorem book_step (inp : Input) (st : Loop) (it : Item) (hb : Book inp st) : Book inp (popStep inp st it) := by
  cases hf : findRec inp.recs it.val with
  | none =>
    have e : popStep inp st it = st := by unfold popStep; rw [hf]
    rw [e]; exact hb
  | some r =>
    obtain ⟨upd, need, hn, e⟩ := popStep_some inp st it r hf
    rw [e]
    constructor
    · -- heights
      intro p hp
      dsimp only at hp
      by_cases hneed : need = true
      · simp only [hneed, if_true, List.mem_append, List.mem_singleton] at hp
        rcases hp with hp | hp
        · exact hb.wh p hp
        · rw [hp]
      · simp only [hneed] at hp; exact hb.wh p hp
    · -- who a write belongs to
      intro p hp
      dsimp only at hp ⊢
      have old : p ∈ st.statusW → (p.2.active = true → ∃ r' ∈ (if upd = true then st.elected ++ [r] else st.elected), r'.addr = p.1) ∧
          (p.2.active = false → ∃ r' ∈ (if upd = true then st.nonTop else r :: st.nonTop), r'.addr = p.1) := by
        intro hp'
        obtain ⟨w1, w2⟩ := hb.wa p hp'
        constructor
        · intro ha
          obtain ⟨r', hr', e⟩ := w1 ha
          refine ⟨r', ?_, e⟩
          split
          · exact List.mem_append_left _ hr'
          · exact hr'
        · intro ha
          obtain ⟨r', hr', e⟩ := w2 ha
          refine ⟨r', ?_, e⟩
          split
          · exact hr'
          · exact List.mem_cons_of_mem _ hr'
      by_cases hneed : need = true
      · simp only [hneed, if_true, List.mem_append, List.mem_singleton] at hp
        rcases hp with hp | hp
        · exact old hp
        · rw [hp]
          constructor
          · intro ha
            have : upd = true := ha
            simp only [this, if_true]
            exact ⟨r, List.mem_append_right _ (List.mem_singleton.mpr rfl), rfl⟩
          · intro ha
            have : upd = false := ha
            simp only [this]
            exact ⟨r, List.mem_cons_self .., rfl⟩
      · simp only [hneed] at hp; exact old hp
    · -- elected records have an active status afterwards
      intro r' hr'
      dsimp only at hr' ⊢
      have old : r' ∈ st.elected → (∃ p ∈ (if need = true then st.statusW ++ [(r.addr, ⟨upd, inp.height⟩)] else st.statusW), p.1 = r'.addr) ∨
          (∃ x, alookup r'.addr inp.status = some x ∧ x.active = true) := by
        intro h'
        rcases hb.el r' h' with ⟨p, hp, e⟩ | h2
        · refine Or.inl ⟨p, ?_, e⟩
          split
          · exact List.mem_append_left _ hp
          · exact hp
        · exact Or.inr h2
      by_cases hupd : upd = true
      · simp only [hupd, if_true, List.mem_append, List.mem_singleton] at hr'
        rcases hr' with h' | h'
        · exact old h'
        · rw [h']
          by_cases hneed : need = true
          · refine Or.inl ⟨(r.addr, ⟨upd, inp.height⟩), ?_, rfl⟩
            simp [hneed]
          · right
            cases hs : alookup r.addr inp.status with
            | none => rw [hs] at hn; exact absurd hn hneed
            | some x =>
              rw [hs] at hn
              refine ⟨x, rfl, ?_⟩
              have hn' : need = (x.active != upd) := hn
              have : (x.active != upd) = false := by rw [← hn']; simpa using hneed
              simp only [bne_eq_false_iff_eq] at this
              rw [this, hupd]
      · simp only [hupd] at hr'; exact old hr'
    · -- deletions
      intro a ha
      dsimp only at ha ⊢
      have old : a ∈ st.deleted → ∃ r' ∈ (if upd = true then st.nonTop else r :: st.nonTop), r'.addr = a ∧ r'.power ≤ 0 ∧
          a ∉ inp.lastActive ∧ ∃ x, alookup a inp.status = some x ∧ x.active = false ∧ x.height + 2 < inp.height := by
        intro h'
        obtain ⟨r', hr', rest⟩ := hb.del a h'
        refine ⟨r', ?_, rest⟩
        split
        · exact hr'
        · exact List.mem_cons_of_mem _ hr'
      by_cases hd : deletable inp r need = true
      · simp only [hd, if_true, List.mem_append, List.mem_singleton] at ha
        rcases ha with h' | h'
        · exact old h'
        · -- the deletion test says: inactive, no update needed, so not elected now
          unfold deletable settled at hd
          cases hs : alookup r.addr inp.status with
          | none => rw [hs] at hd; simp at hd
          | some x =>
            rw [hs] at hd hn
            simp only [Bool.and_eq_true, decide_eq_true_eq, Bool.not_eq_true', List.contains_eq_mem,
              decide_eq_false_iff_not] at hd
            obtain ⟨⟨⟨hpw, _⟩, hla⟩, ⟨hact, hnn⟩, hh⟩ := hd
            have hupd : upd = false := by
              have hn' : need = (x.active != upd) := hn
              have : (x.active != upd) = false := by rw [← hn']; exact hnn
              simp only [bne_eq_false_iff_eq] at this
              rw [← this]; exact hact
            simp only [hupd]
            refine ⟨r, List.mem_cons_self .., h'.symm, hpw, by rw [h']; exact hla, x, by rw [h']; exact hs, hact, by omega⟩
      · simp only [hd] at ha; exact old ha

theorem book_foldl (inp : Input) (l : List Item) (st : Loop) (hb : Book inp st) :
    Book inp (l.foldl (popStep inp) st) := by
  induction l generalizing st with
  | nil => exact hb
  | cons it t ih => exact ih _ (book_step inp st it hb)

theorem book_runLoop (inp : Input) : Book inp (runLoop inp) := by
  unfold runLoop
  apply book_foldl
  constructor <;> intro x hx <;> cases hx

theorem alookup_applyWrites_cases {α : Type} (w : List (Nat × α)) (m : List (Nat × α)) (a : Nat) :
    (alookup a (applyWrites m w) = alookup a m ∧ ∀ p ∈ w, p.1 ≠ a) ∨
    (∃ p ∈ w, p.1 = a ∧ alookup a (applyWrites m w) = some p.2) := by
  unfold applyWrites
  induction w generalizing m with
  | nil => exact Or.inl ⟨rfl, fun p hp => by cases hp⟩
  | cons q t ih =>
    simp only [List.foldl_cons]
    rcases ih (upsert m q.1 q.2) with ⟨e, hno⟩ | ⟨p, hp, e1, e2⟩
    · rw [alookup_upsert] at e
      by_cases hq : a = q.1
      · refine Or.inr ⟨q, List.mem_cons_self .., hq.symm, ?_⟩
        rw [e]; simp [hq]
      · refine Or.inl ⟨by rw [e]; simp [hq], ?_⟩
        intro p hp
        rcases List.mem_cons.mp hp with rfl | hp'
        · exact fun x => hq x.symm
        · exact hno p hp'
    · exact Or.inr ⟨p, List.mem_cons_of_mem _ hp, e1, e2⟩

/-- (S2) a status after the block is the old one or was written with this block's height -/
theorem status_after_cases (inp : Input) (h : 1 < inp.height) (a : Nat) :
    alookup a (applyWrites inp.status (elect inp).statusW) = alookup a inp.status ∨
    ∃ x, alookup a (applyWrites inp.status (elect inp).statusW) = some x ∧ x.height = inp.height := by
  have e : (elect inp).statusW = (runLoop inp).statusW := by
    have : ¬ inp.height ≤ 1 := by omega
    unfold elect; simp [this]
  rw [e]
  rcases alookup_applyWrites_cases (runLoop inp).statusW inp.status a with ⟨e1, _⟩ | ⟨p, hp, _, e2⟩
  · exact Or.inl e1
  · exact Or.inr ⟨p.2, e2, (book_runLoop inp).wh p hp⟩

/-- (S1) an elected record has an active status after the block -/
theorem status_after_elected (inp : Input) (h : 1 < inp.height) (hn : (inp.recs.map (·.addr)).Nodup)
    (r : Rec) (hr : r ∈ electedRecs inp) :
    ∃ x, alookup r.addr (applyWrites inp.status (elect inp).statusW) = some x ∧ x.active = true := by
  have e : (elect inp).statusW = (runLoop inp).statusW := by
    have : ¬ inp.height ≤ 1 := by omega
    unfold elect; simp [this]
  rw [e]
  have B := book_runLoop inp
  have hsplit := runLoop_split inp hn
  have hall : (((runLoop inp).elected ++ (runLoop inp).nonTop).map (·.addr)).Nodup :=
    ((hsplit.map (·.addr)).nodup_iff).mpr hn
  rw [List.map_append, List.nodup_append] at hall
  have hr' : r ∈ (runLoop inp).elected := by rw [runLoop_elected]; exact hr
  rcases alookup_applyWrites_cases (runLoop inp).statusW inp.status r.addr with ⟨e1, hno⟩ | ⟨p, hp, e1, e2⟩
  · rcases B.el r hr' with ⟨p, hp, ep⟩ | ⟨x, hx, ha⟩
    · exact absurd ep (hno p hp)
    · exact ⟨x, by rw [e1]; exact hx, ha⟩
  · refine ⟨p.2, e2, ?_⟩
    cases hact : p.2.active with
    | true => rfl
    | false =>
      exfalso
      obtain ⟨r', hr2, e'⟩ := (B.wa p hp).2 hact
      exact hall.2.2 r.addr (List.mem_map.mpr ⟨r, hr', rfl⟩) r'.addr (List.mem_map.mpr ⟨r', hr2, rfl⟩) (by rw [e', e1])

/-- (Del) what a deletion says about the validator -/
theorem deleted_facts (inp : Input) (hn : (inp.recs.map (·.addr)).Nodup) (a : Nat)
    (ha : a ∈ (elect inp).deleted) :
    a ∉ inp.lastActive ∧ a ∉ (electedRecs inp).map (·.addr) ∧
    (∃ r ∈ inp.recs, r.addr = a ∧ r.power ≤ 0) ∧
    ∃ x, alookup a inp.status = some x ∧ x.active = false ∧ x.height + 2 < inp.height := by
  by_cases h : 1 < inp.height
  · have e : (elect inp).deleted = (runLoop inp).deleted := by
      have : ¬ inp.height ≤ 1 := by omega
      unfold elect; simp [this]
    rw [e] at ha
    obtain ⟨r, hr, era, hpw, hla, hx⟩ := (book_runLoop inp).del a ha
    have hsplit := runLoop_split inp hn
    have hall : (((runLoop inp).elected ++ (runLoop inp).nonTop).map (·.addr)).Nodup :=
      ((hsplit.map (·.addr)).nodup_iff).mpr hn
    rw [List.map_append, List.nodup_append] at hall
    refine ⟨hla, ?_, ⟨r, runLoop_sound inp r (List.mem_append_right _ hr), era, hpw⟩, hx⟩
    rw [← runLoop_elected]
    intro hm
    exact hall.2.2 a hm r.addr (List.mem_map.mpr ⟨r, hr, rfl⟩) era.symm
  · rw [elect_low inp (by omega)] at ha; cases ha

/-! ### D.3 several blocks -/

theorem alookup_applyWrites_const {α : Type} (l : List Rec) (v : α) (m : List (Nat × α)) (a : Nat) :
    alookup a (applyWrites m (l.map fun r => (r.addr, v))) =
      if a ∈ l.map (·.addr) then some v else alookup a m := by
  unfold applyWrites
  induction l generalizing m with
  | nil => simp
  | cons r t ih =>
    simp only [List.map_cons, List.foldl_cons, List.mem_cons]
    rw [ih, alookup_upsert]
    by_cases h1 : a ∈ t.map (·.addr)
    · simp [h1]
    · by_cases h2 : a = r.addr
      · simp [h2]
      · simp [h1, h2]

/-- the invariant of application + Tendermint between two blocks:
    * `i1`–`i3`: a validator that is in an earlier of the three pending sets but not in the next one
      was purged in the block that removed it (ties the purge heights to the +2 delay),
    * `addrs`/`bound`/`ktype`: every committed record carries the ed25519 key of its own address,
    * `m1`/`m2`: a validator on its way into the set has an active (or just flipped) status,
    * `recd`: every member of a pending set has a record. -/
structure Inv (addrOf : Nat → Nat) (s : Chain) : Prop where
  next_ge : 2 ≤ s.next
  i1 : ∀ a, (alookup a s.vC).isSome → (alookup a s.vN).isNone → alookup a s.purge = some (s.next - 1)
  i2 : ∀ a, (alookup a s.vP).isSome → (alookup a s.vC).isNone → ∃ p, alookup a s.purge = some p ∧ s.next - 2 ≤ p
  i3 : ∀ a p, alookup a s.purge = some p → 0 < p ∧ p ≤ s.next - 1
  i5 : ∀ x ∈ s.vN, 0 ≤ x.2
  addrs : (s.recs.map (·.addr)).Nodup
  bound : Bound addrOf s.recs
  ktype : ∀ r ∈ s.recs, r.ktype = 0
  m1 : ∀ a, (alookup a s.vN).isSome → (alookup a s.vC).isNone →
        ∃ x, alookup a s.status = some x ∧ x.active = true
  m2 : ∀ a, (alookup a s.vC).isSome → (alookup a s.vP).isNone →
        ∃ x, alookup a s.status = some x ∧ (x.active = true ∨ s.next - 1 ≤ x.height)
  recd : ∀ a, ((alookup a s.vP).isSome ∨ (alookup a s.vC).isSome ∨ (alookup a s.vN).isSome) →
        ∃ r ∈ s.recs, r.addr = a

/-- what a block must satisfy.  `addrs`, `persist`, `keys` are facts about the transaction
    handlers (records are keyed by address; no handler deletes a record; a new record comes from a
    STAKE, whose key is the ed25519 key of the validator address, and no writer changes the key of
    an existing record) — the engine monitors them on every block.  `minpos` and `total` are the
    two hypotheses that remain about the data. -/
structure BlockOK (addrOf : Nat → Nat) (s : Chain) (b : BlockIn) : Prop where
  addrs : (b.after.map (·.addr)).Nodup
  persist : ∀ r ∈ s.recs, ∃ r' ∈ b.after, r'.addr = r.addr
  keys : ∀ r' ∈ b.after, (∃ r ∈ s.recs, r.addr = r'.addr ∧ r.pub = r'.pub ∧ r.ktype = r'.ktype) ∨
          (addrOf r'.pub = r'.addr ∧ r'.ktype = 0)
  minpos : 0 < b.minSelf
  total : TM.total s.vN + TM.sumPow (tmChanges addrOf (elect (inputOf s b)).updates) ≤ TM.maxTotal

theorem isNone_of_not_isSome {α : Type} {o : Option α} (h : ¬ o.isSome = true) : o.isNone = true := by
  cases o <;> simp at h ⊢

theorem not_isSome_of_isNone {α : Type} {o : Option α} (h : o.isNone = true) : ¬ o.isSome = true := by
  cases o <;> simp at h ⊢

theorem guarded_false {inp : Input} {a : Nat} (h : guarded inp a = false) :
    ¬ (0 < (alookup a inp.purge).getD 0 ∧ inp.height ≤ (alookup a inp.purge).getD 0 + 2) := by
  unfold guarded at h
  simpa using h

/-- every validator whose removal is emitted is a member of the set the list is applied to -/
theorem purged_in_next_set (addrOf : Nat → Nat) (s : Chain) (b : BlockIn) (hI : Inv addrOf s)
    (r : Rec) (hr : r ∈ purged (inputOf s b)) : (alookup r.addr s.vN).isSome := by
  have h := hI.next_ge
  obtain ⟨_, hla, hg⟩ := mem_purged hr
  have hP : (alookup r.addr s.vP).isSome := TM.alookup_isSome_iff.mpr hla
  by_cases hN : (alookup r.addr s.vN).isSome = true
  · exact hN
  · exfalso
    have hN' := isNone_of_not_isSome hN
    have hg' : ¬ (0 < (alookup r.addr s.purge).getD 0 ∧ s.next ≤ (alookup r.addr s.purge).getD 0 + 2) :=
      guarded_false hg
    by_cases hC : (alookup r.addr s.vC).isSome = true
    · have := hI.i1 _ hC hN'
      rw [this] at hg'
      simp at hg'
      omega
    · obtain ⟨p, e, hp⟩ := hI.i2 _ hP (isNone_of_not_isSome hC)
      have := hI.i3 _ _ e
      rw [e] at hg'
      simp at hg'
      omega

theorem elect_nobody (inp : Input) (h : 1 < inp.height) (hE : electedRecs inp = []) :
    purged inp = [] ∧ (elect inp).updates = [] := by
  have hc : (runLoop inp).cnt = 0 := by rw [runLoop_cnt, hE]; rfl
  have hp : purged inp = [] := by rw [purged_eq]; simp [hc]
  refine ⟨hp, ?_⟩
  rw [elect_updates inp h, hE, hp]; rfl

/-- the list of one block in front of the pending set: accepted, and the new set described, with
    or without anybody elected -/
theorem elect_tm_ok' (addrOf : Nat → Nat) (inp : Input) (s : TM.VSet) (h : 1 < inp.height)
    (hn : (inp.recs.map (·.addr)).Nodup) (hb : Bound addrOf inp.recs)
    (hkt : ∀ r ∈ inp.recs, r.ktype = 0) (hmin : 0 < inp.minSelf)
    (hin : ∀ r ∈ purged inp, (alookup r.addr s).isSome)
    (hs : ∀ x ∈ s, 0 ≤ x.2)
    (htot : TM.total s + TM.sumPow (tmChanges addrOf (elect inp).updates) ≤ TM.maxTotal) :
    ∃ s', TM.apply s (tmChanges addrOf (elect inp).updates) = .ok s' ∧
      (∀ r ∈ purged inp, alookup r.addr s' = none) ∧
      (∀ r ∈ electedRecs inp, alookup r.addr s' = some r.power) ∧
      (∀ k, k ∉ (electedRecs inp).map (·.addr) → k ∉ (purged inp).map (·.addr) → alookup k s' = alookup k s) ∧
      (∀ x ∈ s', 0 ≤ x.2) := by
  by_cases hE : electedRecs inp = []
  · obtain ⟨hp, hu⟩ := elect_nobody inp h hE
    refine ⟨s, ?_, ?_, ?_, fun _ _ _ => rfl, hs⟩
    · rw [hu]; simp [tmChanges, TM.apply, TM.validate]
    · rw [hp]; intro r hr; cases hr
    · rw [hE]; intro r hr; cases hr
  · have hne : 0 < (elect inp).activeCount := by
      rw [elect_activeCount inp h]
      cases hl : electedRecs inp with
      | nil => exact absurd hl hE
      | cons _ _ => simp
    exact elect_tm_ok addrOf inp s h hn hb hkt hmin hne hin hs htot

/-- MULTI BLOCK, one step: from a state satisfying the invariant a block that meets the side
    conditions is accepted by Tendermint and the invariant holds again -/
theorem step_ok (addrOf : Nat → Nat) (s : Chain) (b : BlockIn) (hI : Inv addrOf s) (hB : BlockOK addrOf s b) :
    ∃ s', step addrOf s b = .ok s' ∧ Inv addrOf s' ∧ s'.next = s.next + 1 ∧ s'.vP = s.vC ∧ s'.vC = s.vN ∧
      s'.recs = recsAfter b (elect (inputOf s b)).deleted ∧
      (∀ r ∈ purged (inputOf s b), alookup r.addr s'.vN = none) ∧
      (∀ r ∈ electedRecs (inputOf s b), alookup r.addr s'.vN = some r.power) ∧
      (∀ k, k ∉ (electedRecs (inputOf s b)).map (·.addr) → k ∉ (purged (inputOf s b)).map (·.addr) →
        alookup k s'.vN = alookup k s.vN) ∧
      s'.purge = applyWrites s.purge ((purged (inputOf s b)).map fun r => (r.addr, s.next)) := by
  have h : 1 < (inputOf s b).height := by show 1 < s.next; have := hI.next_ge; omega
  have hnx : 1 < s.next := h
  obtain ⟨v, ok, a, bb, c, d⟩ := elect_tm_ok' addrOf (inputOf s b) s.vN h hI.addrs hI.bound hI.ktype hB.minpos
    (purged_in_next_set addrOf s b hI) hI.i5 hB.total
  have hpw : (elect (inputOf s b)).purgeW = (purged (inputOf s b)).map fun r => (r.addr, s.next) :=
    elect_purgeW (inputOf s b) h
  refine ⟨{ next := s.next + 1, vP := s.vC, vC := s.vN, vN := v
            purge := applyWrites s.purge (elect (inputOf s b)).purgeW
            status := applyWrites s.status (elect (inputOf s b)).statusW
            recs := recsAfter b (elect (inputOf s b)).deleted },
    by unfold step; simp only [ok], ?_, rfl, rfl, rfl, rfl, a, bb, c,
    by show applyWrites s.purge (elect (inputOf s b)).purgeW = _; rw [hpw]⟩
  have hpl : ∀ k, alookup k (applyWrites s.purge (elect (inputOf s b)).purgeW) =
      if k ∈ (purged (inputOf s b)).map (·.addr) then some s.next else alookup k s.purge := by
    intro k; rw [hpw]; exact alookup_applyWrites_const _ _ _ _
  -- a new member of the pending set is an elected record
  have newMember : ∀ k, (alookup k v).isSome → (alookup k s.vN).isNone →
      ∃ r ∈ electedRecs (inputOf s b), r.addr = k := by
    intro k hk1 hk2
    by_cases he : k ∈ (electedRecs (inputOf s b)).map (·.addr)
    · obtain ⟨r, hr, e⟩ := List.mem_map.mp he; exact ⟨r, hr, e⟩
    · exfalso
      by_cases hp : k ∈ (purged (inputOf s b)).map (·.addr)
      · obtain ⟨r, hr, e⟩ := List.mem_map.mp hp
        have := a r hr
        rw [e] at this
        rw [this] at hk1; simp at hk1
      · rw [c k he hp] at hk1
        exact not_isSome_of_isNone hk2 hk1
  -- a deleted record belongs to no pending set
  have delOut : ∀ k, k ∈ (elect (inputOf s b)).deleted →
      (alookup k s.vC).isNone ∧ (alookup k s.vN).isNone ∧ (alookup k v).isNone := by
    intro k hk
    obtain ⟨hla, hne, _, x, hx, hact, hh⟩ := deleted_facts (inputOf s b) hI.addrs k hk
    have hPn : (alookup k s.vP).isNone := by
      apply isNone_of_not_isSome
      intro hP
      exact hla (TM.alookup_isSome_iff.mp hP)
    have hCn : (alookup k s.vC).isNone := by
      apply isNone_of_not_isSome
      intro hC
      obtain ⟨y, hy, hy2⟩ := hI.m2 k hC hPn
      have exy : y = x := by
        have : alookup k s.status = some x := hx
        rw [this] at hy; cases hy; rfl
      subst exy
      have hh' : y.height + 2 < s.next := hh
      rcases hy2 with h1 | h1
      · rw [hact] at h1; cases h1
      · omega
    have hNn : (alookup k s.vN).isNone := by
      apply isNone_of_not_isSome
      intro hN
      obtain ⟨y, hy, hy2⟩ := hI.m1 k hN hCn
      have : alookup k s.status = some x := hx
      rw [this] at hy; cases hy
      rw [hact] at hy2; cases hy2
    refine ⟨hCn, hNn, ?_⟩
    apply isNone_of_not_isSome
    intro hv
    obtain ⟨r, hr, e⟩ := newMember k hv hNn
    exact hne (List.mem_map.mpr ⟨r, hr, e⟩)
  -- a record that is not deleted is still there after the block
  have keeps : ∀ r ∈ s.recs, r.addr ∉ (elect (inputOf s b)).deleted →
      ∃ r' ∈ recsAfter b (elect (inputOf s b)).deleted, r'.addr = r.addr := by
    intro r hr hnd
    obtain ⟨r', hr', e⟩ := hB.persist r hr
    refine ⟨r', ?_, e⟩
    unfold recsAfter
    rw [List.mem_filter]
    refine ⟨hr', ?_⟩
    simp only [Bool.not_eq_true', List.contains_eq_mem, decide_eq_false_iff_not]
    rw [e]; exact hnd
  constructor
  · show 2 ≤ s.next + 1; omega
  · -- i1
    intro k hk1 hk2
    show alookup k (applyWrites s.purge (elect (inputOf s b)).purgeW) = some (s.next + 1 - 1)
    rw [hpl]
    by_cases hp : k ∈ (purged (inputOf s b)).map (·.addr)
    · simp [hp]
    · exfalso
      by_cases he : k ∈ (electedRecs (inputOf s b)).map (·.addr)
      · obtain ⟨r, hr, e⟩ := List.mem_map.mp he
        have := bb r hr
        rw [e] at this
        change (alookup k v).isNone = true at hk2
        rw [this] at hk2; simp at hk2
      · have := c k he hp
        change (alookup k v).isNone = true at hk2
        change (alookup k s.vN).isSome = true at hk1
        rw [this] at hk2
        exact not_isSome_of_isNone hk2 hk1
  · -- i2
    intro k hk1 hk2
    show ∃ p, alookup k (applyWrites s.purge (elect (inputOf s b)).purgeW) = some p ∧ s.next + 1 - 2 ≤ p
    have := hI.i1 k hk1 hk2
    rw [hpl]
    by_cases hp : k ∈ (purged (inputOf s b)).map (·.addr)
    · exact ⟨s.next, by simp [hp], by omega⟩
    · exact ⟨s.next - 1, by simp [hp, this], by omega⟩
  · -- i3
    intro k p hk
    change alookup k (applyWrites s.purge (elect (inputOf s b)).purgeW) = some p at hk
    rw [hpl] at hk
    show 0 < p ∧ p ≤ s.next + 1 - 1
    by_cases hp : k ∈ (purged (inputOf s b)).map (·.addr)
    · simp [hp] at hk; omega
    · simp only [hp, if_false] at hk
      have := hI.i3 k p hk; omega
  · exact d
  · -- addrs
    show ((recsAfter b (elect (inputOf s b)).deleted).map (·.addr)).Nodup
    unfold recsAfter
    exact (List.filter_sublist.map _).nodup hB.addrs
  · -- bound
    intro r' hr'
    have hr2 : r' ∈ b.after := (List.mem_filter.mp hr').1
    rcases hB.keys r' hr2 with ⟨r, hr, e1, e2, _⟩ | ⟨e, _⟩
    · rw [← e2, ← e1]; exact hI.bound r hr
    · exact e
  · -- ktype
    intro r' hr'
    have hr2 : r' ∈ b.after := (List.mem_filter.mp hr').1
    rcases hB.keys r' hr2 with ⟨r, hr, _, _, e3⟩ | ⟨_, e⟩
    · rw [← e3]; exact hI.ktype r hr
    · exact e
  · -- m1
    intro k hk1 hk2
    obtain ⟨r, hr, e⟩ := newMember k hk1 hk2
    obtain ⟨x, hx, ha⟩ := status_after_elected (inputOf s b) h hI.addrs r hr
    exact ⟨x, by rw [← e]; exact hx, ha⟩
  · -- m2
    intro k hk1 hk2
    obtain ⟨x, hx, ha⟩ := hI.m1 k hk1 hk2
    show ∃ y, alookup k (applyWrites s.status (elect (inputOf s b)).statusW) = some y ∧
      (y.active = true ∨ s.next + 1 - 1 ≤ y.height)
    rcases status_after_cases (inputOf s b) h k with e | ⟨y, hy, hh⟩
    · exact ⟨x, by rw [show (inputOf s b).status = s.status from rfl] at e; rw [e]; exact hx, Or.inl ha⟩
    · refine ⟨y, hy, Or.inr ?_⟩
      have : y.height = s.next := hh
      omega
  · -- recd
    intro k hk
    have inOld : ((alookup k s.vC).isSome ∨ (alookup k s.vN).isSome) → ∃ r' ∈ recsAfter b (elect (inputOf s b)).deleted, r'.addr = k := by
      intro hk'
      obtain ⟨r, hr, e⟩ := hI.recd k (Or.inr hk')
      have hnd : r.addr ∉ (elect (inputOf s b)).deleted := by
        rw [e]
        intro hd
        obtain ⟨d1, d2, _⟩ := delOut k hd
        rcases hk' with h' | h'
        · exact not_isSome_of_isNone d1 h'
        · exact not_isSome_of_isNone d2 h'
      obtain ⟨r', hr', e'⟩ := keeps r hr hnd
      exact ⟨r', hr', by rw [e', e]⟩
    rcases hk with hk | hk | hk
    · exact inOld (Or.inl hk)
    · exact inOld (Or.inr hk)
    · by_cases hN : (alookup k s.vN).isSome = true
      · exact inOld (Or.inr hN)
      · obtain ⟨r, hr, e⟩ := newMember k hk (isNone_of_not_isSome hN)
        have hnd : r.addr ∉ (elect (inputOf s b)).deleted := by
          rw [e]
          intro hd
          exact not_isSome_of_isNone (delOut k hd).2.2 hk
        obtain ⟨r', hr', e'⟩ := keeps r (mem_electedRecs hr).1 hnd
        exact ⟨r', hr', by rw [e', e]⟩

/-- side conditions along a whole history -/
def SideAll (addrOf : Nat → Nat) : Chain → List BlockIn → Prop
  | _, [] => True
  | s, b :: bs => BlockOK addrOf s b ∧ ∀ s', step addrOf s b = .ok s' → SideAll addrOf s' bs

theorem run_ok (addrOf : Nat → Nat) (bs : List BlockIn) (s : Chain) (hI : Inv addrOf s)
    (hS : SideAll addrOf s bs) : ∃ s', run addrOf s bs = .ok s' ∧ Inv addrOf s' := by
  induction bs generalizing s with
  | nil => exact ⟨s, rfl, hI⟩
  | cons b t ih =>
    obtain ⟨hB, hrest⟩ := hS
    obtain ⟨s1, ok, hI1, _⟩ := step_ok addrOf s b hI hB
    obtain ⟨s2, ok2, hI2⟩ := ih s1 hI1 (hrest s1 ok)
    exact ⟨s2, by unfold run; rw [ok]; exact ok2, hI2⟩

/-- the chain after block 1 (which returns no updates): the sets of blocks 1, 2, 3 are the genesis
    set, the committed records are the genesis stakes plus what block 1 did -/
def startChain (g : TM.VSet) (recs : List Rec) : Chain := ⟨2, g, g, g, [], [], recs⟩

/-- what the genesis document has to provide (InitChain checks none of it except `members`) -/
structure GenesisOK (addrOf : Nat → Nat) (g : TM.VSet) (recs : List Rec) : Prop where
  pow : ∀ x ∈ g, 0 ≤ x.2
  addrs : (recs.map (·.addr)).Nodup
  bound : Bound addrOf recs
  ktype : ∀ r ∈ recs, r.ktype = 0
  members : ∀ a, (alookup a g).isSome → ∃ r ∈ recs, r.addr = a

theorem inv_start (addrOf : Nat → Nat) (g : TM.VSet) (recs : List Rec) (hg : GenesisOK addrOf g recs) :
    Inv addrOf (startChain g recs) := by
  have contra : ∀ a, (alookup a g).isSome → (alookup a g).isNone → False := fun a h1 h2 =>
    not_isSome_of_isNone h2 h1
  constructor
  · show (2 : Int) ≤ 2; omega
  · intro a h1 h2; exact (contra a h1 h2).elim
  · intro a h1 h2; exact (contra a h1 h2).elim
  · intro a p h; simp [startChain] at h
  · exact hg.pow
  · exact hg.addrs
  · exact hg.bound
  · exact hg.ktype
  · intro a h1 h2; exact (contra a h1 h2).elim
  · intro a h1 h2; exact (contra a h1 h2).elim
  · intro a h
    rcases h with h | h | h <;> exact hg.members a h

/-! ### D.4 quiet blocks: the set converges to the election -/

/-- the election of committed records under a block's options and malicious set -/
def electionOf (recs : List Rec) (b : BlockIn) : List Rec :=
  electedRecs ⟨2, b.minSelf, b.top, recs, [], b.malicious, [], [], []⟩

theorem electedRecs_inputOf (s : Chain) (b : BlockIn) : electedRecs (inputOf s b) = electionOf s.recs b := rfl

/-- the voting power the election gives an address -/
def electionMap (recs : List Rec) (b : BlockIn) (a : Nat) : Option Int :=
  (findRec (electionOf recs b) a).map (·.power)

/-- a record that is not elected, was active in the last commit and is not guarded is purged —
    as long as somebody is elected -/
theorem purged_complete (inp : Input) (hn : (inp.recs.map (·.addr)).Nodup) (hE : electedRecs inp ≠ [])
    (r : Rec) (hr : r ∈ inp.recs)
    (hne : r ∉ electedRecs inp) (hla : r.addr ∈ inp.lastActive) (hg : guarded inp r.addr = false) :
    r ∈ purged inp := by
  have hsplit := runLoop_split inp hn
  rw [runLoop_elected] at hsplit
  have hall : ((electedRecs inp ++ (runLoop inp).nonTop).map (·.addr)).Nodup :=
    ((hsplit.map (·.addr)).nodup_iff).mpr hn
  rw [List.map_append, List.nodup_append] at hall
  have hnt : r ∈ (runLoop inp).nonTop := by
    rcases List.mem_append.mp (hsplit.mem_iff.mpr hr) with h | h
    · exact absurd h hne
    · exact h
  have hc : ¬ (runLoop inp).cnt = 0 := by
    rw [runLoop_cnt]
    cases hl : electedRecs inp with
    | nil => exact absurd hl hE
    | cons _ _ => simp only [List.length_cons]; omega
  rw [purged_eq]
  simp only [hc, if_false]
  unfold purgedRaw
  rw [foldl_purgeStep]
  simp only [List.nil_append, List.mem_filterMap]
  refine ⟨r.addr, (mem_sortKeys _ _).mpr hla, ?_⟩
  rw [findRec_self hall.2.1 hnt, Option.filter_some]
  simp [hg]

theorem findRec_none {recs : List Rec} {a : Nat} (h : a ∉ recs.map (·.addr)) : findRec recs a = none := by
  unfold findRec
  rw [List.find?_eq_none]
  intro r hr
  simp only [beq_iff_eq]
  intro e
  exact h (List.mem_map.mpr ⟨r, hr, e⟩)

/-- a quiet block: no transaction touched a record and the hook deleted none -/
def Quiet (s : Chain) (b : BlockIn) : Prop := b.after = s.recs ∧ (elect (inputOf s b)).deleted = []

/-- one quiet block, seen from one address -/
theorem conv_step (addrOf : Nat → Nat) (s : Chain) (b : BlockIn) (hI : Inv addrOf s) (hB : BlockOK addrOf s b)
    (hQ : Quiet s b) (hE : electionOf s.recs b ≠ []) :
    ∃ s', step addrOf s b = .ok s' ∧ Inv addrOf s' ∧ s'.next = s.next + 1 ∧ s'.vP = s.vC ∧ s'.vC = s.vN ∧
      s'.recs = s.recs ∧
      (∀ r ∈ electionOf s.recs b, alookup r.addr s'.vN = some r.power) ∧
      (∀ a, a ∉ (electionOf s.recs b).map (·.addr) → alookup a s.vN = none → alookup a s'.vN = none) ∧
      (∀ a, a ∉ (electionOf s.recs b).map (·.addr) → alookup a s'.vN ≠ none →
        alookup a s'.vN = alookup a s.vN ∧ alookup a s'.purge = alookup a s.purge ∧
        ((∃ r ∈ s.recs, r.addr = a) → (alookup a s.vP).isSome →
          0 < (alookup a s.purge).getD 0 ∧ s.next ≤ (alookup a s.purge).getD 0 + 2)) := by
  obtain ⟨s', ok, hI', e1, e2, e3, er, ca, cb, cc, cp⟩ := step_ok addrOf s b hI hB
  rw [electedRecs_inputOf] at cb cc
  have hrecs : s'.recs = s.recs := by
    rw [er, hQ.2]
    unfold recsAfter
    rw [hQ.1]
    simp
  refine ⟨s', ok, hI', e1, e2, e3, hrecs, cb, ?_, ?_⟩
  · intro a ha hnone
    by_cases hp : a ∈ (purged (inputOf s b)).map (·.addr)
    · obtain ⟨r, hr, e⟩ := List.mem_map.mp hp
      rw [← e]; exact ca r hr
    · rw [cc a ha hp]; exact hnone
  · intro a ha hsome
    have hp : a ∉ (purged (inputOf s b)).map (·.addr) := by
      intro hp
      obtain ⟨r, hr, e⟩ := List.mem_map.mp hp
      exact hsome (by rw [← e]; exact ca r hr)
    refine ⟨cc a ha hp, ?_, ?_⟩
    · rw [cp, alookup_applyWrites_const]; simp [hp]
    · rintro ⟨r, hr, era⟩ hP
      -- r is not elected, was active, and was not purged: it must be guarded
      have hne : r ∉ electedRecs (inputOf s b) := by
        rw [electedRecs_inputOf]
        intro hm
        exact ha (List.mem_map.mpr ⟨r, hm, era⟩)
      have hla : r.addr ∈ (inputOf s b).lastActive := by
        rw [era]; exact TM.alookup_isSome_iff.mp hP
      by_cases hg : guarded (inputOf s b) r.addr = false
      · exfalso
        have := purged_complete (inputOf s b) hI.addrs (by rw [electedRecs_inputOf]; exact hE) r hr hne hla hg
        exact hp (List.mem_map.mpr ⟨r, this, era⟩)
      · have hg' : guarded (inputOf s b) r.addr = true := by
          cases hx : guarded (inputOf s b) r.addr <;> simp [hx] at hg ⊢
        unfold guarded at hg'
        rw [era] at hg'
        have hg2 : 0 < (alookup a (inputOf s b).purge).getD 0 ∧
            (inputOf s b).height ≤ (alookup a (inputOf s b).purge).getD 0 + 2 := by simpa using hg'
        exact hg2

/-- quiet side conditions along a run of the same block -/
def QuietAll (addrOf : Nat → Nat) (b : BlockIn) : Chain → Nat → Prop
  | _, 0 => True
  | s, n + 1 => BlockOK addrOf s b ∧ Quiet s b ∧ ∀ s', step addrOf s b = .ok s' → QuietAll addrOf b s' n

/-- CONVERGENCE: five quiet blocks from any state that satisfies the invariant, with somebody to
    elect: afterwards the three pending sets are exactly the election -/
theorem converge5 (addrOf : Nat → Nat) (s0 : Chain) (b : BlockIn) (hI : Inv addrOf s0)
    (hS : QuietAll addrOf b s0 5) (hE : electionOf s0.recs b ≠ []) :
    ∃ s5, run addrOf s0 [b, b, b, b, b] = .ok s5 ∧ s5.recs = s0.recs ∧
      ∀ a, alookup a s5.vP = electionMap s0.recs b a ∧ alookup a s5.vC = electionMap s0.recs b a ∧
        alookup a s5.vN = electionMap s0.recs b a := by
  obtain ⟨hB0, hQ0, hS1⟩ := hS
  obtain ⟨s1, ok0, hI1, n1, p1, c1, r1, A1, B1, C1⟩ := conv_step addrOf s0 b hI hB0 hQ0 hE
  obtain ⟨hB1, hQ1, hS2⟩ := hS1 s1 ok0
  obtain ⟨s2, ok1, hI2, n2, p2, c2, r2, A2, B2, C2⟩ := conv_step addrOf s1 b hI1 hB1 hQ1 (by rw [r1]; exact hE)
  obtain ⟨hB2, hQ2, hS3⟩ := hS2 s2 ok1
  obtain ⟨s3, ok2, hI3, n3, p3, c3, r3, A3, B3, C3⟩ := conv_step addrOf s2 b hI2 hB2 hQ2 (by rw [r2, r1]; exact hE)
  obtain ⟨hB3, hQ3, hS4⟩ := hS3 s3 ok2
  obtain ⟨s4, ok3, hI4, n4, p4, c4, r4, A4, B4, C4⟩ := conv_step addrOf s3 b hI3 hB3 hQ3 (by rw [r3, r2, r1]; exact hE)
  obtain ⟨hB4, hQ4, _⟩ := hS4 s4 ok3
  obtain ⟨s5, ok4, hI5, n5, p5, c5, r5, A5, B5, C5⟩ := conv_step addrOf s4 b hI4 hB4 hQ4 (by rw [r4, r3, r2, r1]; exact hE)
  have R1 : s1.recs = s0.recs := r1
  have R2 : s2.recs = s0.recs := by rw [r2, r1]
  have R3 : s3.recs = s0.recs := by rw [r3, R2]
  have R4 : s4.recs = s0.recs := by rw [r4, R3]
  rw [R1] at A2 B2 C2
  rw [R2] at A3 B3 C3
  rw [R3] at A4 B4 C4
  rw [R4] at A5 B5 C5
  refine ⟨s5, by simp only [run, ok0, ok1, ok2, ok3, ok4], by rw [r5, R4], ?_⟩
  have hEn : ((electionOf s0.recs b).map (·.addr)).Nodup := by
    have := elected_purged_addr_nodup (inputOf s0 b) hI.addrs
    rw [List.map_append, List.nodup_append, electedRecs_inputOf] at this
    exact this.1
  intro a
  have eP : s5.vP = s3.vN := by rw [p5, c4]
  have eC : s5.vC = s4.vN := c5
  rw [eP, eC]
  by_cases ha : a ∈ (electionOf s0.recs b).map (·.addr)
  · obtain ⟨r, hr, e⟩ := List.mem_map.mp ha
    have hm : electionMap s0.recs b a = some r.power := by
      unfold electionMap
      rw [← e, findRec_self hEn hr]; rfl
    rw [hm, ← e]
    exact ⟨A3 r hr, A4 r hr, A5 r hr⟩
  · have hm : electionMap s0.recs b a = none := by
      unfold electionMap; rw [findRec_none ha]; rfl
    rw [hm]
    have key : alookup a s3.vN = none := by
      apply Classical.byContradiction
      intro hne3
      obtain ⟨e32, q32, g2⟩ := C3 a ha hne3
      have hne2 : alookup a s2.vN ≠ none := by rw [← e32]; exact hne3
      obtain ⟨e21, q21, _⟩ := C2 a ha hne2
      have hne1 : alookup a s1.vN ≠ none := by rw [← e21]; exact hne2
      obtain ⟨e10, q10, _⟩ := C1 a ha hne1
      have hne0 : alookup a s0.vN ≠ none := by rw [← e10]; exact hne1
      have hsome0 : (alookup a s0.vN).isSome := by
        cases hx : alookup a s0.vN <;> simp [hx] at hne0 ⊢
      have hvP : s2.vP = s0.vN := by rw [p2, c1]
      -- every member of the pending set has a record (invariant), and the records are constant
      have hrec : ∃ r ∈ s0.recs, r.addr = a := hI.recd a (Or.inr (Or.inr hsome0))
      have := g2 hrec (by rw [hvP]; exact hsome0)
      rw [q21, q10] at this
      cases hx : alookup a s0.purge with
      | none => rw [hx] at this; simp at this
      | some p =>
        rw [hx] at this
        have := hI.i3 a p hx
        simp at *
        omega
    exact ⟨key, B4 a ha key, B5 a ha (B4 a ha key)⟩

end OLP.Elect

/-
  Layer D — validator election (C10).

  Statement-by-statement port of
    * utils/priority_queue.go + identity/validator_queue.go on top of Go's container/heap
      (`Init`, `Push`, `Pop`, `up`, `down`; `Less(i,j) = priority[i] > priority[j]`, no tie-break),
    * identity/validator_set.go `InitValidatorQueue`, `cacheActiveValidators`,
      `GetEndBlockUpdate` (pop loop, minimum self delegation, TopValidatorCount, malicious skip,
      status writes, deletion of settled records without power, purge loop over the sorted
      `lastActive` keys with the `height <= purge+2` guard and the `activeCount == 0` stop, final
      sort by public key),
    * Tendermint v0.33 `types.ValidatorSet.UpdateWithChangeSet` preceded by
      `state.validateValidatorUpdates` (the acceptance rule the returned list has to pass).

  Decoded records, not bytes: an address / public key is the natural number that orders like
  its byte string (the driver's order-preserving code), powers are unbounded integers.
  What the model does NOT contain: fee distribution, `UpdateWithdrawReward`,
  `ExecuteAllegationTracker` (they run inside the same hook but do not influence the returned
  update list, the status/purge writes or the record deletions of the same block).
  `vs.byzantine` is always empty in the code as written (`makingslash` looks the evidence
  address up without the `v_` prefix), so `height > 1 || len(byzantine) > 0` is `height > 1`.
  Core-only.
-/
import OLP.Base.Assoc

namespace OLP.Elect

/-! ## 1. container/heap on utils.PriorityQueue -/

/-- `utils.Queued`: value (the validator address) and priority (its power) -/
structure Item where
  val : Nat
  prio : Int
  deriving DecidableEq, Repr, Inhabited

namespace Heap

abbrev H := Array Item

/-- priority at an index; container/heap only ever passes indices below `Len()` (see
    `Lemmas`: every access of `up`/`down` is in range), so the default is never consulted -/
def prioAt (h : H) (i : Nat) : Int := (h.getD i ⟨0, 0⟩).prio

/-- `PriorityQueue.Less(i, j)`: "we want Pop to give us the highest priority" -/
def less (h : H) (i j : Nat) : Bool := decide (prioAt h i > prioAt h j)

/-- `heap.up(h, j)`; `(j-1)/2` is Go's truncated division, 0 for j = 0 as in `Nat`.
    The loop runs at most `j+1` times (fuel). -/
def up (h : H) (j : Nat) : Nat → H
  | 0 => h
  | fuel + 1 =>
    let i := (j - 1) / 2
    if i == j || !(less h j i) then h
    else up (h.swapIfInBounds i j) i fuel

/-- the child `down` compares with: `j := j1; if j2 := j1 + 1; j2 < n && h.Less(j2, j1) { j = j2 }` -/
def bigChild (h : H) (i n : Nat) : Nat :=
  if 2 * i + 1 + 1 < n && less h (2 * i + 1 + 1) (2 * i + 1) then 2 * i + 1 + 1 else 2 * i + 1

/-- `heap.down(h, i0, n)` -/
def down (h : H) (i n : Nat) : Nat → H
  | 0 => h
  | fuel + 1 =>
    if 2 * i + 1 ≥ n then h
    else if !(less h (bigChild h i n) i) then h
    else down (h.swapIfInBounds i (bigChild h i n)) (bigChild h i n) n fuel

/-- `heap.Init`: `for i := n/2 - 1; i >= 0; i-- { down(h, i, n) }` -/
def init (h : H) : H :=
  (List.range (h.size / 2)).reverse.foldl (fun a i => down a i h.size h.size) h

/-- `heap.Push`: append, then `up(h, Len()-1)` -/
def push (h : H) (x : Item) : H :=
  let h' := h.push x
  up h' (h'.size - 1) h'.size

/-- `heap.Pop`: `Swap(0, n)`, `down(0, n)`, remove and return the last element
    (`ValidatorQueue.Pop` returns nil on an empty queue; the caller tests `Len() > 0`) -/
def pop (h : H) : Option (Item × H) :=
  if h.size = 0 then none
  else
    let n := h.size - 1
    let h1 := h.swapIfInBounds 0 n
    let h2 := down h1 0 n n
    some (h2.getD n ⟨0, 0⟩, h2.pop)

/-- `for vs.queue.Len() > 0 { queued := vs.queue.Pop(); … }` -/
def popAll (h : H) : Nat → List Item
  | 0 => []
  | fuel + 1 =>
    match pop h with
    | none => []
    | some (x, h') => x :: popAll h' fuel

/-- the queue `InitValidatorQueue` builds: `Push` every element in iteration order, then `Init` -/
def build (l : List Item) : H := init (l.foldl push #[])

/-- what the `GetEndBlockUpdate` loop sees: the elements in pop order -/
def drain (l : List Item) : List Item := let h := build l; popAll h h.size

end Heap

/-! ## 2. The election -/

/-- a `v_<addr>` record as read through `GetVersioned(height-1, key)` -/
structure Rec where
  addr : Nat      -- key suffix = Validator.Address (every writer goes through `set`)
  pub : Nat       -- Validator.PubKey.Data
  ktype : Nat     -- Validator.PubKey.KeyType (0 = ed25519, 1 = secp256k1, …)
  power : Int     -- Validator.Power
  deriving DecidableEq, Repr

/-- `evidence.ValidatorStatus` -/
structure Status where
  active : Bool
  height : Int
  deriving DecidableEq, Repr

/-- `types.ValidatorUpdate` -/
structure Upd where
  pub : Nat
  ktype : Nat
  power : Int
  deriving DecidableEq, Repr

structure Input where
  height : Int
  minSelf : Int                    -- stakingOptions.MinSelfDelegationAmount.Int64()
  top : Int                        -- stakingOptions.TopValidatorCount
  recs : List Rec                  -- the v_ records of version height-1, in key order
  lastActive : List Nat            -- validator addresses of LastCommitInfo.Votes
  malicious : List Nat             -- keys of vs.maliciousValidators (set in BeginBlock)
  purge : List (Nat × Int)         -- purged_<addr> (deliver state)
  status : List (Nat × Status)     -- es__vss_<addr> (deliver state)
  cur : List (Nat × Int) := []     -- power of the CURRENT v_<addr> record (deliver state, `vs.Get`)
  deriving Repr

structure Output where
  updates : List Upd               -- ResponseEndBlock.ValidatorUpdates
  statusW : List (Nat × Status)    -- SetValidatorStatus calls, in order
  deleted : List Nat               -- v_ records deleted (power <= 0), in order
  purgeW : List (Nat × Int)        -- SetLastPurgeHeight calls, in order
  activeCount : Int
  deriving Repr, DecidableEq

/-- the `types.ValidatorUpdate` the loop appends for an elected record -/
def Rec.upd (r : Rec) : Upd := ⟨r.pub, r.ktype, r.power⟩

/-- the power-0 update of the purge loop: `PubKey: pub, Power: 0` -/
def Rec.removal (r : Rec) : Upd := ⟨r.pub, r.ktype, 0⟩

/-- loop state of the pop loop.  `elected` / `nonTop` keep the whole record where the code keeps
    the update built from it (`validatorUpdates = append(…)`) resp. the public key
    (`nonTopValidators[addr] = pubkey`): same information, the address is a ghost. -/
structure Loop where
  cnt : Int := 0                              -- cnt == activeCount (incremented together)
  elected : List Rec := []                    -- appended in pop order
  nonTop : List Rec := []                     -- map keyed by address; newest first = last write wins
  statusW : List (Nat × Status) := []
  deleted : List Nat := []
  deriving Repr

/-- `GetVersioned(height-1, v_<addr>)` for a popped address -/
def findRec (recs : List Rec) (a : Nat) : Option Rec := recs.find? (fun r => r.addr == a)

/-- `validator.Power >= minSelfDelegationAmount` and not in `vs.maliciousValidators` -/
def eligible (inp : Input) (r : Rec) : Bool :=
  decide (r.power ≥ inp.minSelf) && !(inp.malicious.contains r.addr)

/-- `settled`: the status read before this block's update says inactive, needs no update now, and
    is more than two blocks old -/
def settled (inp : Input) (a : Nat) (need : Bool) : Bool :=
  match alookup a inp.status with
  | none => false
  | some s => !s.active && !need && decide (inp.height > s.height + 2)

/-- the deletion test: no power in the record of the previous block, the current record exists and
    has no power either (a stake of this block must not vanish), the validator did not vote in the
    last commit, and its status is settled (nothing on its way into Tendermint's set: the purge
    loop only finds validators that have a record) -/
def deletable (inp : Input) (r : Rec) (need : Bool) : Bool :=
  decide (r.power ≤ 0) &&
  (match alookup r.addr inp.cur with
    | none => false                                  -- `vs.Get` failed
    | some p => decide (p ≤ 0)) &&
  !(inp.lastActive.contains r.addr) && settled inp r.addr need

/-- one iteration of `for vs.queue.Len() > 0` for the popped address -/
def popStep (inp : Input) (st : Loop) (it : Item) : Loop :=
  match findRec inp.recs it.val with
  | none => st                                      -- "Previous state data not found": continue
  | some r =>
    -- `if Power >= min && cnt < top { _, isMalicious = …; if !isMalicious { update = true … } }`
    let upd := eligible inp r && decide (st.cnt < inp.top)
    let need := match alookup r.addr inp.status with
      | none => true
      | some s => s.active != upd
    { cnt := if upd then st.cnt + 1 else st.cnt
      elected := if upd then st.elected ++ [r] else st.elected
      nonTop := if upd then st.nonTop else r :: st.nonTop
      statusW := if need then st.statusW ++ [(r.addr, ⟨upd, inp.height⟩)] else st.statusW
      deleted := if deletable inp r need then st.deleted ++ [r.addr] else st.deleted }

/-- `sort.Strings(keysLA)` over the keys of the `lastActive` map: sorted, no duplicates -/
def insKey (a : Nat) : List Nat → List Nat
  | [] => [a]
  | b :: t => if a < b then a :: b :: t else if a = b then b :: t else b :: insKey a t

def sortKeys (l : List Nat) : List Nat := l.foldr insKey []

/-- the purge guard: "validator purged in block H persists in block H+1, H+2, so we can't purge
    it again" (`GetLastPurgeHeight` is 0 when there is no record) -/
def guarded (inp : Input) (a : Nat) : Bool :=
  let ph := (alookup a inp.purge).getD 0
  decide (ph > 0) && decide (inp.height ≤ ph + 2)

/-- one iteration of the purge loop: the records whose removal is emitted, in order -/
def purgeStep (inp : Input) (nonTop : List Rec) (acc : List Rec) (a : Nat) : List Rec :=
  match findRec nonTop a with
  | none => acc
  | some r => if guarded inp a then acc else acc ++ [r]

/-- `sort.Slice(validatorUpdates, bytes.Compare(pubkey) < 0)` (insertion sort; equal keys keep
    their relative order — with distinct keys every correct sort gives this list) -/
def insUpd (u : Upd) : List Upd → List Upd
  | [] => [u]
  | v :: t => if u.pub ≤ v.pub then u :: v :: t else v :: insUpd u t

def sortUpd (l : List Upd) : List Upd := l.foldr insUpd []

/-- the queue of `InitValidatorQueue` in pop order -/
def popOrder (inp : Input) : List Item :=
  Heap.drain (inp.recs.map fun r => ⟨r.addr, r.power⟩)

def runLoop (inp : Input) : Loop := (popOrder inp).foldl (popStep inp) {}

/-- the records purged in this block, in the order of the sorted `lastActive` keys.
    `if activeCount == 0 { break }`: without anybody elected the removals would empty the set, which
    Tendermint refuses — the last set is kept until somebody qualifies -/
def purged (inp : Input) : List Rec :=
  if (runLoop inp).cnt = 0 then []
  else (sortKeys inp.lastActive).foldl (purgeStep inp (runLoop inp).nonTop) []

/-- `GetEndBlockUpdate` -/
def elect (inp : Input) : Output :=
  if inp.height ≤ 1 then ⟨[], [], [], [], 0⟩
  else
    let st := runLoop inp
    let pr := purged inp
    { updates := sortUpd (st.elected.map Rec.upd ++ pr.map Rec.removal)
      statusW := st.statusW
      deleted := st.deleted
      purgeW := pr.map fun r => (r.addr, inp.height)
      activeCount := st.cnt }

/-- `CheckMaliciousValidators` as far as the election is concerned: the map holds the frozen
    suspicious-validator records (loaded before any early return) plus the validators flagged for
    missed votes in this BeginBlock (none while `lastHeight <= BlockVotesDiff`) -/
def maliciousSet (frozen flagged : List Nat) : List Nat := frozen ++ flagged

/-! ## 3. Tendermint's acceptance rule -/

namespace TM

/-- `types.MaxTotalVotingPower = MaxInt64 / 8` -/
def maxTotal : Int := 1152921504606846975

inductive Err where
  | negative        -- validateValidatorUpdates: "voting power can't be negative"
  | keyType         -- validateValidatorUpdates: key type not in ConsensusParams.Validator.PubKeyTypes
  | duplicate       -- processChanges: "duplicate entry"
  | tooHigh         -- processChanges: power > MaxTotalVotingPower
  | emptySet        -- "applying the validator changes would result in empty set"
  | removeAbsent    -- verifyRemovals: "failed to find validator … to remove"
  | totalPower      -- verifyUpdates: "total voting power would exceed the max allowed"
  deriving DecidableEq, Repr

/-- a change keyed by the Tendermint address of its public key -/
structure Chg where
  key : Nat
  ktype : Nat
  power : Int
  deriving DecidableEq, Repr

abbrev VSet := List (Nat × Int)      -- address ↦ voting power, sorted by address

def total : VSet → Int
  | [] => 0
  | (_, p) :: t => p + total t

def insChg (u : Chg) : List Chg → List Chg
  | [] => [u]
  | v :: t => if u.key ≤ v.key then u :: v :: t else v :: insChg u t

/-- `sort.Sort(ValidatorsByAddress(changes))` -/
def sortChg (l : List Chg) : List Chg := l.foldr insChg []

/-- `validateValidatorUpdates` (state/execution.go) with the default `PubKeyTypes = [ed25519]` -/
def validate : List Chg → Except Err Unit
  | [] => .ok ()
  | u :: t =>
    if u.power < 0 then .error .negative
    else if u.power = 0 then validate t          -- "deleting the validator … no pubkey to check"
    else if u.ktype ≠ 0 then .error .keyType
    else validate t

/-- the scan of `processChanges` over the address-sorted changes -/
def scan : Option Nat → List Chg → Except Err (List Chg × List Chg)
  | _, [] => .ok ([], [])
  | prev, u :: t =>
    if prev = some u.key then .error .duplicate
    else if u.power < 0 then .error .negative
    else if u.power > maxTotal then .error .tooHigh
    else match scan (some u.key) t with
      | .error e => .error e
      | .ok (ups, dels) => if u.power = 0 then .ok (ups, u :: dels) else .ok (u :: ups, dels)

def delta (s : VSet) (u : Chg) : Int :=
  match alookup u.key s with
  | some p => u.power - p
  | none => u.power

def insDelta (s : VSet) (u : Chg) : List Chg → List Chg
  | [] => [u]
  | v :: t => if delta s u ≤ delta s v then u :: v :: t else v :: insDelta s u t

/-- `verifyUpdates`: running total over the updates in ascending order of their delta -/
def verifyUpdates (s : VSet) (start : Int) : List Chg → Bool
  | [] => true
  | u :: t => let x := start + delta s u; if x > maxTotal then false else verifyUpdates s x t

def insVal (k : Nat) (p : Int) : VSet → VSet
  | [] => [(k, p)]
  | (k', p') :: t => if k < k' then (k, p) :: (k', p') :: t else if k = k' then (k, p) :: t else (k', p') :: insVal k p t

/-- `ValidatorSet.UpdateWithChangeSet` preceded by `validateValidatorUpdates` -/
def apply (s : VSet) (changes : List Chg) : Except Err VSet :=
  match validate changes with
  | .error e => .error e
  | .ok () =>
    if changes.isEmpty then .ok s
    else match scan none (sortChg changes) with
      | .error e => .error e
      | .ok (ups, dels) =>
        let numNew := (ups.filter fun u => (alookup u.key s).isNone).length
        if numNew = 0 && s.length = dels.length then .error .emptySet
        else if dels.any (fun d => (alookup d.key s).isNone) then .error .removeAbsent
        else
          let removed := (dels.map fun d => (alookup d.key s).getD 0).foldl (· + ·) 0
          if !(verifyUpdates s (total s - removed) (ups.foldr (insDelta s) [])) then .error .totalPower
          else
            let s1 := ups.foldl (fun a u => insVal u.key u.power a) s
            .ok (s1.filter fun kv => !(dels.any fun d => d.key == kv.1))

end TM

/-! ## 4. Several blocks: the application and Tendermint together (the +2 delay) -/

/-- what one block contributes: the `v_` records of the deliver state when EndBlock starts (what
    BeginBlock and the block's transactions made of the committed ones: stakes, unstakes, the
    postponed part of a slash, new validators), the malicious set of the block, the staking options
    in force -/
structure BlockIn where
  after : List Rec
  malicious : List Nat
  minSelf : Int
  top : Int
  deriving Repr, DecidableEq

/-- application + Tendermint between two blocks.  `next` is the height about to be executed;
    `vP`, `vC`, `vN` are the validator sets of blocks `next-1`, `next`, `next+1`: the members of
    `vP` are the `LastCommitInfo.Votes` of block `next`, and the updates returned at its end are
    applied to `vN` to give the set of block `next+2`.  `recs` are the committed records (version
    `next-1`), i.e. what the hook of block `next` reads through `GetVersioned`. -/
structure Chain where
  next : Int
  vP : TM.VSet
  vC : TM.VSet
  vN : TM.VSet
  purge : List (Nat × Int)
  status : List (Nat × Status)
  recs : List Rec
  deriving Repr, DecidableEq

/-- Tendermint keys a change by the address of its public key (`addrOf` = SHA-256 prefix) -/
def tmChanges (addrOf : Nat → Nat) (ups : List Upd) : List TM.Chg :=
  ups.map fun u => ⟨addrOf u.pub, u.ktype, u.power⟩

def inputOf (s : Chain) (b : BlockIn) : Input :=
  ⟨s.next, b.minSelf, b.top, s.recs, s.vP.map (·.1), b.malicious, s.purge, s.status,
   b.after.map fun r => (r.addr, r.power)⟩

def applyWrites {α : Type} (m : List (Nat × α)) (w : List (Nat × α)) : List (Nat × α) :=
  w.foldl (fun m p => upsert m p.1 p.2) m

/-- the records committed by the block: the deliver state's minus the ones the hook deleted -/
def recsAfter (b : BlockIn) (deleted : List Nat) : List Rec :=
  b.after.filter fun r => !(deleted.contains r.addr)

/-- one block: the hook runs, Tendermint applies the list (or halts) -/
def step (addrOf : Nat → Nat) (s : Chain) (b : BlockIn) : Except TM.Err Chain :=
  let o := elect (inputOf s b)
  match TM.apply s.vN (tmChanges addrOf o.updates) with
  | .error e => .error e
  | .ok v => .ok { next := s.next + 1, vP := s.vC, vC := s.vN, vN := v
                   purge := applyWrites s.purge o.purgeW, status := applyWrites s.status o.statusW
                   recs := recsAfter b o.deleted }

def run (addrOf : Nat → Nat) : Chain → List BlockIn → Except TM.Err Chain
  | s, [] => .ok s
  | s, b :: bs =>
    match step addrOf s b with
    | .error e => .error e
    | .ok s' => run addrOf s' bs

end OLP.Elect

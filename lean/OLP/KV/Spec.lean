/-
  Layer K — the abstract specification the store stack is compared with (C09):
  a reader's *view* `K → Option V` and the simple machine `TxMap` over such views.
  Everything here is deliberately tiny: it is the statement of what
  "a transactional, versioned map" means.
-/
import OLP.KV.Model

namespace OLP.KV

variable {K V : Type} [DecidableEq K] [DecidableEq V]

/-- point-wise update of a view -/
def upd (f : K → Option V) (k : K) (x : Option V) : K → Option V :=
  fun k' => if k' = k then x else f k'

/-- how a value stored in an overlay reads: the TOMBSTONE marker means "deleted" -/
def dec (c : Cfg K V) (v : V) : Option V := if v = c.tomb then none else some v

/-- what the block cache over the tree shows (no session) -/
def blockView (c : Cfg K V) (cache : List (K × V)) (t : Tree K V) (k : K) : Option V :=
  match alookup k cache with
  | some v => dec c v
  | none => t.get k

/-- what a reader of the state sees: session ▹ block cache ▹ tree -/
def view (c : Cfg K V) (s : St K V) (k : K) : Option V :=
  match s.sess.bind (alookup k) with
  | some v => dec c v
  | none => blockView c s.cache s.tree k

/-- the view that remains if the open session (if any) is dropped -/
def baseView (c : Cfg K V) (s : St K V) : K → Option V := blockView c s.cache s.tree

/-- the tree call a cached pair turns into at `Write()` -/
def toTreeOp (c : Cfg K V) (p : K × V) : TreeOp K V :=
  if p.2 = c.tomb then .remove p.1 else .set p.1 p.2

/-- view stored in a retained version -/
def versionView (t : Tree K V) (ver : Int) : Option (K → Option V) :=
  (t.versions.find? (fun p => (p.1 : Int) = ver)).map (fun p k => alookup k p.2)

/-- well-formedness of the version list: numbers are positive, at most `version`, strictly increasing -/
def Tree.WF (t : Tree K V) : Prop :=
  (t.versions.map (·.1)).Pairwise (· < ·) ∧ (∀ p ∈ t.versions, 0 < p.1 ∧ p.1 ≤ t.version) ∧
  (0 < t.version → ∃ p ∈ t.versions, p.1 = t.version)

/-- operations that only read -/
def Op.isRead : Op K V → Bool
  | .get _ | .has _ | .iter _ _ _ | .iterAll _ _ _ | .getv _ _ | .gas => true
  | _ => false

/-- operations that write into the open session or block cache -/
def Op.isKeyWrite : Op K V → Bool
  | .set _ _ | .del _ => true
  | _ => false

/-- operations that install a metered state -/
def Op.isMeteredNew : Op K V → Bool
  | .newState (some _) => true
  | _ => false

/-- overlays built by `upsert` never hold a key twice -/
def St.WF (s : St K V) : Prop :=
  (akeys s.cache).Nodup ∧ (∀ o, s.sess = some o → (akeys o).Nodup) ∧ s.tree.WF

/-! ### metered reads and writes (the repaired `State.Get` / `State.Exists`) -/

/-- the meter refuses a read of `k` through `State.Get`: the block cache is metered, the block's
    gas is used up, and the key is not answered by the open session (which is never metered) -/
def Refused (s : St K V) (k : K) : Prop :=
  s.metered = true ∧ s.gas.consumed ≥ s.gas.limit ∧ s.sess.bind (alookup k) = none

instance (s : St K V) (k : K) : Decidable (Refused s k) := by
  unfold Refused; exact inferInstance

/-- the meter refuses a write (`Set` / `Delete`): metered, gas used up, no open session -/
def WriteRefused (s : St K V) : Prop :=
  s.metered = true ∧ s.gas.consumed ≥ s.gas.limit ∧ s.sess = none

instance (s : St K V) : Decidable (WriteRefused s) := by
  unfold WriteRefused; exact inferInstance

/-- what a read of `k` through `State.Get` is charged when it is served: nothing from the session
    or an unmetered cache, otherwise the flat read cost plus the per-byte cost of a cached value -/
def readCost (c : Cfg K V) (s : St K V) (k : K) : Int :=
  match s.sess.bind (alookup k) with
  | some _ => 0
  | none =>
    if s.metered then
      match alookup k s.cache with
      | some v => 20 + (c.vlen v : Int) * 2
      | none => 20
    else 0

/-- `s` with `d` more gas consumed; nothing else differs -/
def St.addGas (s : St K V) (d : Int) : St K V :=
  { s with gas := { s.gas with consumed := s.gas.consumed + d } }

/-- what iterating over the keys `ks` is charged when every read is served: keys with a pending
    delete are skipped before anything is read -/
def iterCost (c : Cfg K V) (s : St K V) : List K → Int
  | [] => 0
  | k :: t => (if s.deleted c k then 0 else readCost c s k) + iterCost c s t

/-- the pairs iteration lists for the keys `ks` when every read is served -/
def listed (c : Cfg K V) (s : St K V) (ks : List K) : List (K × Option V) :=
  (ks.filter (fun k => !s.deleted c k)).map (fun k => (k, view c s k))

/-- the pairs iteration lists for the keys `ks` once the meter refuses: only what the open
    session answers -/
def listedSess (c : Cfg K V) (s : St K V) (ks : List K) : List (K × Option V) :=
  (ks.filter (fun k => !s.deleted c k && (s.sess.bind (alookup k)).isSome)).map
    (fun k => (k, view c s k))

/-! ### the keys an iteration visits (`State.IterateRangeAll`) -/

/-- `k` lies in `[lo, hi)` (`none` = unbounded) in the byte order -/
def inRange (c : Cfg K V) (lo hi : Option K) (k : K) : Bool :=
  (match lo with | none => true | some l => !c.lt k l) &&
  (match hi with | none => true | some h => c.lt k h)

/-- every key some layer of the state holds: working tree, block cache, open session -/
def St.allKeys (s : St K V) : List K :=
  akeys s.tree.working ++ akeys s.cache ++ (match s.sess with | some o => akeys o | none => [])

/-- ascending or descending -/
def dir (asc : Bool) (ks : List K) : List K := if asc then ks else ks.reverse

/-- "sorted in the direction `asc`" for the byte order `lt` (no later key is smaller / larger) -/
def SortedDir (lt : K → K → Bool) (asc : Bool) (ks : List K) : Prop :=
  ks.Pairwise (fun a b => if asc then lt b a = false else lt a b = false)

/-- `lt` is a strict total order (as the byte order of keys is) -/
structure StrictTotal (lt : K → K → Bool) : Prop where
  irrefl : ∀ a, lt a a = false
  trans : ∀ a b c, lt a b = true → lt b c = true → lt a c = true
  total : ∀ a b, a ≠ b → lt a b = true ∨ lt b a = true

/-- the visible keys of a range, in iteration order: what `IterateRangeAll` is to list -/
def visKeys (c : Cfg K V) (s : St K V) (lo hi : Option K) (asc : Bool) : List K :=
  (s.iterKeys c lo hi asc).filter (fun k => (view c s k).isSome)

/-- no layer of the tree holds a key twice (true of every tree built by `Set` / `Delete`) -/
def Tree.KeysNodup (t : Tree K V) : Prop :=
  (akeys t.working).Nodup ∧ ∀ p ∈ t.versions, (akeys p.2).Nodup

end OLP.KV

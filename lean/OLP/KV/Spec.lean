/-
  Layer K — the abstract specification the store stack is compared with (C09):
  a reader's *view* `K → Option V` and the simple machine `TxMap` over such views.
  Everything here is deliberately tiny: it is the statement of what
  "a transactional, versioned map" means.
-/
import OLP.KV.Model

namespace OLP.KV

variable {K V : Type} [DecidableEq K] [DecidableEq V]

/-- point-wise update of a view -/
def upd (f : K → Option V) (k : K) (x : Option V) : K → Option V :=
  fun k' => if k' = k then x else f k'

/-- how a value stored in an overlay reads: the TOMBSTONE marker means "deleted" -/
def dec (c : Cfg K V) (v : V) : Option V := if v = c.tomb then none else some v

/-- what the block cache over the tree shows (no session) -/
def blockView (c : Cfg K V) (cache : List (K × V)) (t : Tree K V) (k : K) : Option V :=
  match alookup k cache with
  | some v => dec c v
  | none => t.get k

/-- what a reader of the state sees: session ▹ block cache ▹ tree -/
def view (c : Cfg K V) (s : St K V) (k : K) : Option V :=
  match s.sess.bind (alookup k) with
  | some v => dec c v
  | none => blockView c s.cache s.tree k

/-- the view that remains if the open session (if any) is dropped -/
def baseView (c : Cfg K V) (s : St K V) : K → Option V := blockView c s.cache s.tree

/-- the tree call a cached pair turns into at `Write()` -/
def toTreeOp (c : Cfg K V) (p : K × V) : TreeOp K V :=
  if p.2 = c.tomb then .remove p.1 else .set p.1 p.2

/-- view stored in a retained version -/
def versionView (t : Tree K V) (ver : Int) : Option (K → Option V) :=
  (t.versions.find? (fun p => (p.1 : Int) = ver)).map (fun p k => alookup k p.2)

/-- well-formedness of the version list: numbers are positive, at most `version`, strictly increasing -/
def Tree.WF (t : Tree K V) : Prop :=
  (t.versions.map (·.1)).Pairwise (· < ·) ∧ (∀ p ∈ t.versions, 0 < p.1 ∧ p.1 ≤ t.version) ∧
  (0 < t.version → ∃ p ∈ t.versions, p.1 = t.version)

/-- operations that only read -/
def Op.isRead : Op K V → Bool
  | .get _ | .has _ | .iter _ _ _ | .getv _ _ | .gas => true
  | _ => false

/-- operations that write into the open session or block cache -/
def Op.isKeyWrite : Op K V → Bool
  | .set _ _ | .del _ => true
  | _ => false

/-- operations that install a metered state -/
def Op.isMeteredNew : Op K V → Bool
  | .newState (some _) => true
  | _ => false

/-- overlays built by `upsert` never hold a key twice -/
def St.WF (s : St K V) : Prop :=
  (akeys s.cache).Nodup ∧ (∀ o, s.sess = some o → (akeys o).Nodup) ∧ s.tree.WF

end OLP.KV

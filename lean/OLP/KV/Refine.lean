/-
  Layer K — helper lemmas for the C09 property theorems (OLP/Props/C09.lean).
-/
import OLP.KV.Spec

namespace OLP.KV

variable {K V : Type} [DecidableEq K] [DecidableEq V]

end OLP.KV

/-
  Layer K — helper lemmas for the C09 property theorems (OLP/Props/C09.lean).
-/
import OLP.KV.Spec

namespace OLP.KV

set_option linter.unusedSectionVars false

variable {K V : Type} [DecidableEq K] [DecidableEq V]

/-! ### generic list lemmas -/

theorem find?_filter_of_imp {α : Type} (p q : α → Bool) (l : List α)
    (h : ∀ x, p x = true → q x = true) : (l.filter q).find? p = l.find? p := by
  induction l with
  | nil => rfl
  | cons a t ih =>
    by_cases hq : q a = true
    · rw [List.filter_cons_of_pos hq, List.find?_cons, List.find?_cons, ih]
    · rw [List.filter_cons_of_neg hq, ih, List.find?_cons]
      have : p a = false := by
        cases hp : p a with
        | false => rfl
        | true => exact absurd (h a hp) hq
      simp [this]

theorem find?_filter_of_not {α : Type} (p q : α → Bool) (l : List α)
    (h : ∀ x, p x = true → q x = false) : (l.filter q).find? p = none := by
  rw [List.find?_eq_none]
  intro x hx
  rw [List.mem_filter] at hx
  intro hp
  have := h x hp
  simp [this] at hx

/-! ### `writeInto` -/

theorem writeInto_versions (c : Cfg K V) (cache : List (K × V)) (t : Tree K V) :
    (writeInto c t cache).versions = t.versions ∧ (writeInto c t cache).version = t.version ∧
    (writeInto c t cache).rot = t.rot := by
  induction cache generalizing t with
  | nil => exact ⟨rfl, rfl, rfl⟩
  | cons p tl ih =>
    simp only [writeInto, List.foldl_cons]
    have := ih (if p.2 = c.tomb then t.remove p.1 else t.set p.1 p.2)
    simp only [writeInto] at this
    rw [this.1, this.2.1, this.2.2]
    split <;> exact ⟨rfl, rfl, rfl⟩

theorem writeInto_log (c : Cfg K V) (cache : List (K × V)) (t : Tree K V) :
    (writeInto c t cache).log = t.log ++ cache.map (toTreeOp c) := by
  induction cache generalizing t with
  | nil => simp [writeInto]
  | cons p tl ih =>
    simp only [writeInto, List.foldl_cons]
    have := ih (if p.2 = c.tomb then t.remove p.1 else t.set p.1 p.2)
    simp only [writeInto] at this
    rw [this]
    by_cases h : p.2 = c.tomb <;> simp [h, toTreeOp, Tree.remove, Tree.set]

/-- with unique keys, the working tree after `Write()` reads as the block view -/
theorem writeInto_get (c : Cfg K V) (cache : List (K × V)) (t : Tree K V)
    (hn : (akeys cache).Nodup) (k : K) :
    (writeInto c t cache).get k = blockView c cache t k := by
  induction cache generalizing t with
  | nil => rfl
  | cons p tl ih =>
    obtain ⟨k1, v1⟩ := p
    have hn' : k1 ∉ akeys tl ∧ (akeys tl).Nodup := by
      simpa [akeys] using hn
    simp only [writeInto, List.foldl_cons]
    have := ih (if v1 = c.tomb then t.remove k1 else t.set k1 v1) hn'.2
    simp only [writeInto] at this
    rw [this]
    unfold blockView
    by_cases hk : k1 = k
    · subst hk
      rw [not_mem_akeys_alookup tl k1 hn'.1]
      by_cases hv : v1 = c.tomb <;>
        simp [alookup, hv, dec, Tree.get, Tree.remove, Tree.set]
    · have hk' : k ≠ k1 := fun e => hk e.symm
      simp only [alookup, hk, if_false]
      cases alookup k tl with
      | some v => rfl
      | none =>
        by_cases hv : v1 = c.tomb
        · simp [hv, Tree.get, Tree.remove, alookup_aerase_ne _ _ _ hk']
        · simp [hv, Tree.get, Tree.set, alookup_upsert_ne _ _ _ _ hk']

/-! ### `deleteVersion`, `commit` -/

/-- `SaveVersion`: the part of `Tree.commit` before the rotation arithmetic -/
def Tree.saved (t : Tree K V) : Tree K V :=
  { t with versions := t.versions ++ [(t.version + 1, t.working)], version := t.version + 1,
           log := t.log ++ [.save] }

theorem deleteVersion_fields (t : Tree K V) (rel : Int) :
    (t.deleteVersion rel).working = t.working ∧ (t.deleteVersion rel).version = t.version ∧
    (t.deleteVersion rel).log = t.log ∧ (t.deleteVersion rel).rot = t.rot := by
  unfold Tree.deleteVersion
  split
  · exact ⟨rfl, rfl, rfl, rfl⟩
  · split <;> exact ⟨rfl, rfl, rfl, rfl⟩

theorem deleteVersion_versions (t : Tree K V) (rel : Int) :
    (t.deleteVersion rel).versions = t.versions ∨
    (rel ≠ (t.version : Int) ∧
      (t.deleteVersion rel).versions = t.versions.filter (fun p => (p.1 : Int) ≠ rel)) := by
  unfold Tree.deleteVersion
  split
  · exact Or.inl rfl
  · split
    · exact Or.inl rfl
    · next h => exact Or.inr ⟨h, rfl⟩

theorem WF_of_versions_eq (t t' : Tree K V) (h1 : t'.versions = t.versions)
    (h2 : t'.version = t.version) (wf : t.WF) : t'.WF := by
  unfold Tree.WF at *
  rw [h1, h2]; exact wf

theorem deleteVersion_WF (t : Tree K V) (rel : Int) (wf : t.WF) : (t.deleteVersion rel).WF := by
  have hf := deleteVersion_fields t rel
  rcases deleteVersion_versions t rel with h | ⟨hne, h⟩
  · exact WF_of_versions_eq t _ h hf.2.1 wf
  · unfold Tree.WF at *
    rw [h, hf.2.1]
    obtain ⟨w1, w2, w3⟩ := wf
    refine ⟨?_, ?_, ?_⟩
    · exact List.Pairwise.sublist (List.Sublist.map _ List.filter_sublist) w1
    · intro p hp
      exact w2 p (List.mem_filter.mp hp).1
    · intro hpos
      obtain ⟨p, hp, hpe⟩ := w3 hpos
      refine ⟨p, List.mem_filter.mpr ⟨hp, ?_⟩, hpe⟩
      simp only [ne_eq, decide_not, Bool.not_eq_eq_eq_not, Bool.not_true, decide_eq_false_iff_not]
      rw [hpe]; exact fun e => hne e.symm

theorem deleteVersion_getVersioned (t : Tree K V) (rel ver : Int) (k : K) :
    (t.deleteVersion rel).getVersioned ver k = t.getVersioned ver k ∨
    (t.deleteVersion rel).getVersioned ver k = none := by
  unfold Tree.getVersioned
  rcases deleteVersion_versions t rel with h | ⟨_, h⟩
  · rw [h]; exact Or.inl rfl
  · rw [h]
    by_cases hv : ver = rel
    · right
      rw [find?_filter_of_not]
      intro x hx
      simp only [decide_eq_true_eq] at hx
      simp [hx, hv]
    · left
      rw [find?_filter_of_imp]
      intro x hx
      simp only [decide_eq_true_eq] at hx
      simp [hx, hv]

theorem deleteVersion_getVersioned_latest (t : Tree K V) (rel : Int) (k : K) :
    (t.deleteVersion rel).getVersioned (t.version : Int) k = t.getVersioned (t.version : Int) k := by
  unfold Tree.getVersioned
  rcases deleteVersion_versions t rel with h | ⟨hne, h⟩
  · rw [h]
  · rw [h, find?_filter_of_imp]
    intro x hx
    simp only [decide_eq_true_eq] at hx
    simp only [ne_eq, decide_not, Bool.not_eq_eq_eq_not, Bool.not_true, decide_eq_false_iff_not]
    rw [hx]; exact fun e => hne e.symm

theorem commit_cases (t : Tree K V) :
    t.commit = t.saved ∨ (∃ r, t.commit = t.saved.deleteVersion r) ∨
    (∃ r1 r2, t.commit = (t.saved.deleteVersion r1).deleteVersion r2) := by
  unfold Tree.commit
  simp only []
  split
  · split
    · split
      · exact Or.inr (Or.inr ⟨_, _, rfl⟩)
      · exact Or.inr (Or.inl ⟨_, rfl⟩)
    · split
      · exact Or.inr (Or.inl ⟨_, rfl⟩)
      · exact Or.inl rfl
  · exact Or.inl rfl

theorem saved_WF (t : Tree K V) (wf : t.WF) : t.saved.WF := by
  obtain ⟨w1, w2, _⟩ := wf
  unfold Tree.WF Tree.saved
  simp only
  refine ⟨?_, ?_, ?_⟩
  · rw [List.map_append, List.pairwise_append]
    refine ⟨w1, by simp, ?_⟩
    intro a ha b hb
    simp only [List.map_cons, List.map_nil, List.mem_singleton] at hb
    subst hb
    obtain ⟨p, hp, rfl⟩ := List.mem_map.mp ha
    have := (w2 p hp).2
    omega
  · intro p hp
    rcases List.mem_append.mp hp with h | h
    · have := w2 p h; omega
    · simp only [List.mem_singleton] at h
      subst h; simp
  · intro _
    exact ⟨(t.version + 1, t.working), by simp, rfl⟩

theorem commit_WF (t : Tree K V) (wf : t.WF) : t.commit.WF := by
  have hs := saved_WF t wf
  rcases commit_cases t with h | ⟨r, h⟩ | ⟨r1, r2, h⟩ <;> rw [h]
  · exact hs
  · exact deleteVersion_WF _ _ hs
  · exact deleteVersion_WF _ _ (deleteVersion_WF _ _ hs)

theorem commit_fields (t : Tree K V) :
    t.commit.working = t.working ∧ t.commit.version = t.version + 1 ∧
    t.commit.log = t.log ++ [.save] ∧ t.commit.rot = t.rot := by
  rcases commit_cases t with h | ⟨r, h⟩ | ⟨r1, r2, h⟩ <;> rw [h]
  · exact ⟨rfl, rfl, rfl, rfl⟩
  · have := deleteVersion_fields t.saved r
    rw [this.1, this.2.1, this.2.2.1, this.2.2.2]; exact ⟨rfl, rfl, rfl, rfl⟩
  · have h2 := deleteVersion_fields (t.saved.deleteVersion r1) r2
    have := deleteVersion_fields t.saved r1
    rw [h2.1, h2.2.1, h2.2.2.1, h2.2.2.2, this.1, this.2.1, this.2.2.1, this.2.2.2]
    exact ⟨rfl, rfl, rfl, rfl⟩

theorem saved_getVersioned_old (t : Tree K V) (ver : Int) (k : K) (hver : ver ≤ (t.version : Int)) :
    t.saved.getVersioned ver k = t.getVersioned ver k := by
  unfold Tree.getVersioned Tree.saved
  simp only [List.find?_append]
  cases h : t.versions.find? (fun p => decide ((p.1 : Int) = ver)) with
  | some p => rfl
  | none =>
    have : ¬ ((t.version : Int) + 1 = ver) := by omega
    simp [this]

theorem saved_getVersioned_new (t : Tree K V) (wf : t.WF) (k : K) :
    t.saved.getVersioned ((t.version + 1 : Nat) : Int) k = alookup k t.working := by
  unfold Tree.getVersioned Tree.saved
  simp only [List.find?_append]
  have : t.versions.find? (fun p => decide ((p.1 : Int) = ((t.version + 1 : Nat) : Int))) = none := by
    rw [List.find?_eq_none]
    intro p hp
    have := (wf.2.1 p hp).2
    simp only [decide_eq_true_eq]
    omega
  rw [this]
  simp

theorem commit_getVersioned_old (t : Tree K V) (ver : Int) (k : K)
    (hver : ver ≤ (t.version : Int)) :
    t.commit.getVersioned ver k = t.getVersioned ver k ∨ t.commit.getVersioned ver k = none := by
  have hs := saved_getVersioned_old t ver k hver
  rcases commit_cases t with h | ⟨r, h⟩ | ⟨r1, r2, h⟩ <;> rw [h]
  · exact Or.inl hs
  · rcases deleteVersion_getVersioned t.saved r ver k with h1 | h1
    · exact Or.inl (h1.trans hs)
    · exact Or.inr h1
  · rcases deleteVersion_getVersioned (t.saved.deleteVersion r1) r2 ver k with h2 | h2
    · rcases deleteVersion_getVersioned t.saved r1 ver k with h1 | h1
      · exact Or.inl (h2.trans (h1.trans hs))
      · exact Or.inr (h2.trans h1)
    · exact Or.inr h2

theorem commit_getVersioned_new (t : Tree K V) (wf : t.WF) (k : K) :
    t.commit.getVersioned ((t.version + 1 : Nat) : Int) k = alookup k t.working := by
  have hs := saved_getVersioned_new t wf k
  have hv : t.saved.version = t.version + 1 := rfl
  rcases commit_cases t with h | ⟨r, h⟩ | ⟨r1, r2, h⟩ <;> rw [h]
  · exact hs
  · have := deleteVersion_getVersioned_latest t.saved r k
    rw [hv] at this
    exact this.trans hs
  · have h1 := deleteVersion_getVersioned_latest t.saved r1 k
    have h2 := deleteVersion_getVersioned_latest (t.saved.deleteVersion r1) r2 k
    rw [(deleteVersion_fields t.saved r1).2.1, hv] at h2
    rw [hv] at h1
    exact h2.trans (h1.trans hs)

/-! ### `reopen` -/

theorem reopen_fields (t : Tree K V) :
    t.reopen.versions = t.versions ∧ t.reopen.version = t.version := by
  unfold Tree.reopen
  simp only []
  split <;> exact ⟨rfl, rfl⟩

theorem reopen_get (t : Tree K V) (k : K) :
    t.reopen.get k = t.getVersioned (t.version : Int) k := by
  unfold Tree.reopen Tree.getVersioned Tree.get
  have : (fun (p : Nat × List (K × V)) => decide ((p.1 : Int) = (t.version : Int))) =
      (fun p => decide (p.1 = t.version)) := by
    funext p
    simp [Int.natCast_inj]
  rw [this]
  simp only []
  split <;> rfl

/-! ### reads of an unmetered state -/

theorem get_unmetered (c : Cfg K V) (s : St K V) (hm : s.metered = false) (k : K) :
    s.get c k = (s, .val (view c s k)) := by
  unfold St.get view blockView St.cacheGet dec
  simp only [hm]
  cases s.sess.bind (alookup k) with
  | some v => rfl
  | none =>
    simp only [Bool.false_eq_true, if_false]
    cases alookup k s.cache with
    | some v => rfl
    | none => rfl

theorem has_unmetered (c : Cfg K V) (s : St K V) (hm : s.metered = false) (k : K) :
    s.has c k = (s, (view c s k).isSome) := by
  cases h : s.sess.bind (alookup k) with
  | some v => by_cases hv : v = c.tomb <;> simp [St.has, view, St.deleted, dec, h, hv]
  | none =>
    cases h2 : alookup k s.cache with
    | some v =>
      by_cases hv : v = c.tomb <;>
        simp [St.has, view, blockView, St.cacheHas, St.deleted, dec, h, h2, hm, hv]
    | none =>
      simp [St.has, view, blockView, St.cacheHas, Tree.has, Tree.get, h, h2, hm]

/-- one step of the fold inside `St.iter` -/
def iterStep (c : Cfg K V) (acc : St K V × List (K × Option V)) (k : K) :
    St K V × List (K × Option V) :=
  if acc.1.deleted c k then acc
  else
    match acc.1.get c k with
    | (s', .val v) => (s', acc.2 ++ [(k, v)])
    | (s', .errGas) => (s', acc.2)

/-- the state after one step of the fold: untouched, or the state after the `get` -/
theorem iterStep_fst (c : Cfg K V) (acc : St K V × List (K × Option V)) (k : K) :
    (iterStep c acc k).1 = acc.1 ∨ (iterStep c acc k).1 = (acc.1.get c k).1 := by
  unfold iterStep
  split
  · exact Or.inl rfl
  · split
    · next h => right; rw [h]
    · next h => right; rw [h]

theorem iter_eq_foldl (c : Cfg K V) (s : St K V) (lo hi : Option K) (asc : Bool) :
    s.iter c lo hi asc = (s.tree.rangeKeys c lo hi asc).foldl (iterStep c) (s, []) := rfl

theorem iterAll_eq_foldl (c : Cfg K V) (s : St K V) (lo hi : Option K) (asc : Bool) :
    s.iterAll c lo hi asc = (s.iterKeys c lo hi asc).foldl (iterStep c) (s, []) := rfl

theorem iter_foldl_unmetered (c : Cfg K V) (s : St K V) (hm : s.metered = false) (ks : List K)
    (acc : List (K × Option V)) :
    ks.foldl (iterStep c) (s, acc) =
      (s, acc ++ (ks.filter (fun k => !s.deleted c k)).map (fun k => (k, view c s k))) := by
  induction ks generalizing acc with
  | nil => simp
  | cons k t ih =>
    rw [List.foldl_cons]
    by_cases hd : s.deleted c k = true
    · have : iterStep c (s, acc) k = (s, acc) := by simp [iterStep, hd]
      rw [this, ih, List.filter_cons]
      simp [hd]
    · have : iterStep c (s, acc) k = (s, acc ++ [(k, view c s k)]) := by
        simp [iterStep, hd, get_unmetered c s hm]
      rw [this, ih, List.filter_cons]
      simp [hd]

theorem iter_unmetered (c : Cfg K V) (s : St K V) (hm : s.metered = false) (lo hi : Option K)
    (asc : Bool) :
    s.iter c lo hi asc =
      (s, ((s.tree.rangeKeys c lo hi asc).filter (fun k => !s.deleted c k)).map
            (fun k => (k, view c s k))) := by
  rw [iter_eq_foldl, iter_foldl_unmetered c s hm]
  simp

theorem iterAll_unmetered (c : Cfg K V) (s : St K V) (hm : s.metered = false) (lo hi : Option K)
    (asc : Bool) :
    s.iterAll c lo hi asc =
      (s, ((s.iterKeys c lo hi asc).filter (fun k => !s.deleted c k)).map
            (fun k => (k, view c s k))) := by
  rw [iterAll_eq_foldl, iter_foldl_unmetered c s hm]
  simp

/-! ### reads in general: only the gas counter moves, upwards -/

/-- `s'` differs from `s` at most in the gas counter, which did not decrease -/
def GasOnly (s s' : St K V) : Prop :=
  s'.tree = s.tree ∧ s'.cache = s.cache ∧ s'.sess = s.sess ∧ s'.metered = s.metered ∧
  s.gas.consumed ≤ s'.gas.consumed

theorem GasOnly.refl (s : St K V) : GasOnly s s := ⟨rfl, rfl, rfl, rfl, Int.le_refl _⟩

theorem GasOnly.trans {a b d : St K V} (h1 : GasOnly a b) (h2 : GasOnly b d) : GasOnly a d :=
  ⟨h2.1.trans h1.1, h2.2.1.trans h1.2.1, h2.2.2.1.trans h1.2.2.1, h2.2.2.2.1.trans h1.2.2.2.1,
   Int.le_trans h1.2.2.2.2 h2.2.2.2.2⟩

theorem consumeStrict_some (g g' : Gas) (cost : Int) (h : g.consumeStrict cost = some g') :
    g' = { g with consumed := g.consumed + cost } := by
  unfold Gas.consumeStrict at h
  split at h
  · cases h
  · exact (Option.some.inj h).symm

theorem consumeStrict_none (g : Gas) (cost : Int) (h : g.consumed ≥ g.limit) :
    g.consumeStrict cost = none := by
  unfold Gas.consumeStrict
  simp [h]

theorem cacheGet_gasOnly (c : Cfg K V) (s : St K V) (k : K) : GasOnly s (s.cacheGet c k).1 := by
  unfold St.cacheGet
  split
  · split
    · exact GasOnly.refl s
    · next g hg =>
      have := consumeStrict_some _ _ _ hg
      subst this
      split
      · refine ⟨rfl, rfl, rfl, rfl, ?_⟩
        simp only; omega
      · refine ⟨rfl, rfl, rfl, rfl, ?_⟩
        simp only [Gas.consumeAlways]; omega
  · exact GasOnly.refl s

theorem cacheHas_gasOnly (s : St K V) (k : K) : GasOnly s (s.cacheHas k).1 := by
  unfold St.cacheHas
  split
  · split
    · exact GasOnly.refl s
    · next g hg =>
      have := consumeStrict_some _ _ _ hg
      subst this
      refine ⟨rfl, rfl, rfl, rfl, ?_⟩
      simp only; omega
  · exact GasOnly.refl s

theorem get_fst (c : Cfg K V) (s : St K V) (k : K) :
    (s.get c k).1 = s ∨ (s.get c k).1 = (s.cacheGet c k).1 := by
  unfold St.get
  split
  · exact Or.inl rfl
  · split
    · next h => right; rw [h]
    · next h => right; rw [h]
    · next h => right; rw [h]

theorem has_fst (c : Cfg K V) (s : St K V) (k : K) :
    (s.has c k).1 = s ∨ (s.has c k).1 = (s.cacheHas k).1 := by
  unfold St.has
  split
  · exact Or.inl rfl
  · split
    · next h => right; rw [h]
    · next h => right; rw [h]; split <;> rfl

theorem get_gasOnly (c : Cfg K V) (s : St K V) (k : K) : GasOnly s (s.get c k).1 := by
  rcases get_fst c s k with h | h <;> rw [h]
  · exact GasOnly.refl s
  · exact cacheGet_gasOnly c s k

theorem has_gasOnly (c : Cfg K V) (s : St K V) (k : K) : GasOnly s (s.has c k).1 := by
  rcases has_fst c s k with h | h <;> rw [h]
  · exact GasOnly.refl s
  · exact cacheHas_gasOnly s k

theorem iter_foldl_gasOnly (c : Cfg K V) (ks : List K) (acc : St K V × List (K × Option V)) :
    GasOnly acc.1 (ks.foldl (iterStep c) acc).1 := by
  induction ks generalizing acc with
  | nil => exact GasOnly.refl _
  | cons k t ih =>
    rw [List.foldl_cons]
    refine GasOnly.trans ?_ (ih _)
    rcases iterStep_fst c acc k with h | h <;> rw [h]
    · exact GasOnly.refl _
    · exact get_gasOnly c acc.1 k

theorem iter_gasOnly (c : Cfg K V) (s : St K V) (lo hi : Option K) (asc : Bool) :
    GasOnly s (s.iter c lo hi asc).1 := by
  rw [iter_eq_foldl]
  exact iter_foldl_gasOnly c _ (s, [])

theorem iterAll_gasOnly (c : Cfg K V) (s : St K V) (lo hi : Option K) (asc : Bool) :
    GasOnly s (s.iterAll c lo hi asc).1 := by
  rw [iterAll_eq_foldl]
  exact iter_foldl_gasOnly c _ (s, [])

theorem step_read_gasOnly (c : Cfg K V) (s : St K V) (op : Op K V) (hr : op.isRead = true) :
    GasOnly s (step c s op).1 := by
  cases op <;> simp [Op.isRead] at hr
  · exact get_gasOnly c s _
  · exact has_gasOnly c s _
  · exact iter_gasOnly c s _ _ _
  · exact iterAll_gasOnly c s _ _ _
  · exact GasOnly.refl s
  · exact GasOnly.refl s

theorem step_read_unmetered (c : Cfg K V) (s : St K V) (hm : s.metered = false) (op : Op K V)
    (hr : op.isRead = true) : (step c s op).1 = s := by
  cases op <;> simp [Op.isRead] at hr
  · simp [step, get_unmetered c s hm]
  · simp [step, has_unmetered c s hm]
  · simp [step, iter_unmetered c s hm]
  · simp [step, iterAll_unmetered c s hm]
  · rfl
  · rfl

/-! ### writes -/

theorem set_gas (c : Cfg K V) (s : St K V) (k : K) (v : V) :
    s.gas.consumed ≤ (s.set c k v).1.gas.consumed := by
  unfold St.set
  split
  · exact Int.le_refl _
  · split
    · exact Int.le_refl _
    · split
      · split
        · exact Int.le_refl _
        · next g hg =>
          have := consumeStrict_some _ _ _ hg
          subst this
          simp only [Gas.consumeAlways]; omega
      · exact Int.le_refl _

theorem del_gas (c : Cfg K V) (s : St K V) (k : K) :
    s.gas.consumed ≤ (s.del c k).gas.consumed := by
  unfold St.del
  split
  · exact Int.le_refl _
  · split
    · split
      · exact Int.le_refl _
      · next g hg =>
        have := consumeStrict_some _ _ _ hg
        subst this
        simp only; omega
    · exact Int.le_refl _

theorem set_WF (c : Cfg K V) (s : St K V) (wf : s.WF) (k : K) (v : V) : (s.set c k v).1.WF := by
  obtain ⟨w1, w2, w3⟩ := wf
  unfold St.set
  split
  · exact ⟨w1, w2, w3⟩
  · split
    · next o ho =>
      refine ⟨w1, ?_, w3⟩
      intro o' ho'
      simp only [Option.some.injEq] at ho'
      subst ho'
      exact nodup_akeys_upsert _ _ _ (w2 o ho)
    · next ho =>
      split
      · split
        · exact ⟨w1, w2, w3⟩
        · exact ⟨nodup_akeys_upsert _ _ _ w1, w2, w3⟩
      · exact ⟨nodup_akeys_upsert _ _ _ w1, w2, w3⟩

theorem del_WF (c : Cfg K V) (s : St K V) (wf : s.WF) (k : K) : (s.del c k).WF := by
  obtain ⟨w1, w2, w3⟩ := wf
  unfold St.del
  split
  · next o ho =>
    refine ⟨w1, ?_, w3⟩
    intro o' ho'
    simp only [Option.some.injEq] at ho'
    subst ho'
    exact nodup_akeys_upsert _ _ _ (w2 o ho)
  · next ho =>
    split
    · split
      · exact ⟨w1, w2, w3⟩
      · exact ⟨nodup_akeys_upsert _ _ _ w1, w2, w3⟩
    · exact ⟨nodup_akeys_upsert _ _ _ w1, w2, w3⟩

theorem set_data (c : Cfg K V) (s : St K V) (k : K) (v : V) :
    (s.set c k v).1.tree = s.tree ∧ (s.set c k v).1.metered = s.metered := by
  unfold St.set
  split
  · exact ⟨rfl, rfl⟩
  · split
    · exact ⟨rfl, rfl⟩
    · split
      · split <;> exact ⟨rfl, rfl⟩
      · exact ⟨rfl, rfl⟩

theorem del_data (c : Cfg K V) (s : St K V) (k : K) :
    (s.del c k).tree = s.tree ∧ (s.del c k).metered = s.metered := by
  unfold St.del
  split
  · exact ⟨rfl, rfl⟩
  · split
    · split <;> exact ⟨rfl, rfl⟩
    · exact ⟨rfl, rfl⟩

theorem GasOnly.WF {s s' : St K V} (h : GasOnly s s') (wf : s.WF) : s'.WF := by
  obtain ⟨h1, h2, h3, _, _⟩ := h
  unfold St.WF at *
  rw [h1, h2, h3]; exact wf

/-! ### views after writes -/

/-- the TOMBSTONE marker is refused as a value, whatever the state -/
theorem set_tomb (c : Cfg K V) (s : St K V) (k : K) : s.set c k c.tomb = (s, .errReserved) := by
  simp [St.set]

theorem set_sess (c : Cfg K V) (s : St K V) (o : List (K × V)) (hs : s.sess = some o) (k : K)
    (v : V) (hv : v ≠ c.tomb) :
    s.set c k v = ({ s with sess := some (upsert o k v) }, .ok) := by
  simp [St.set, hs, hv]

theorem del_sess (c : Cfg K V) (s : St K V) (o : List (K × V)) (hs : s.sess = some o) (k : K) :
    s.del c k = { s with sess := some (upsert o k c.tomb) } := by
  simp [St.del, hs]

theorem set_nosess_unmetered (c : Cfg K V) (s : St K V) (hs : s.sess = none)
    (hm : s.metered = false) (k : K) (v : V) (hv : v ≠ c.tomb) :
    s.set c k v = ({ s with cache := upsert s.cache k v }, .ok) := by
  simp [St.set, hs, hm, hv]

/-- a `Set` that reports success did not carry the TOMBSTONE marker -/
theorem set_ok_ne_tomb (c : Cfg K V) (s : St K V) (k : K) (v : V) (h : (s.set c k v).2 = .ok) :
    v ≠ c.tomb := by
  intro e
  subst e
  rw [set_tomb] at h
  cases h

theorem del_nosess_unmetered (c : Cfg K V) (s : St K V) (hs : s.sess = none)
    (hm : s.metered = false) (k : K) :
    s.del c k = { s with cache := upsert s.cache k c.tomb } := by
  simp [St.del, hs, hm]

theorem view_set_gen (c : Cfg K V) (s : St K V) (hm : s.metered = false) (k : K) (v : V)
    (hv : v ≠ c.tomb) :
    (s.set c k v).2 = .ok ∧ view c (s.set c k v).1 = upd (view c s) k (some v) := by
  cases hs : s.sess with
  | some o =>
    rw [set_sess c s o hs k v hv]
    refine ⟨rfl, ?_⟩
    funext k'
    simp only [view, upd, hs, Option.bind_some, alookup_upsert]
    by_cases hk : k' = k <;> simp [hk, dec, hv]
  | none =>
    rw [set_nosess_unmetered c s hs hm k v hv]
    refine ⟨rfl, ?_⟩
    funext k'
    simp only [view, upd, hs, Option.bind_none, blockView, alookup_upsert]
    by_cases hk : k' = k <;> simp [hk, dec, hv]

theorem view_del_gen (c : Cfg K V) (s : St K V) (hm : s.metered = false) (k : K) :
    view c (s.del c k) = upd (view c s) k none := by
  cases hs : s.sess with
  | some o =>
    rw [del_sess c s o hs]
    funext k'
    simp only [view, upd, hs, Option.bind_some, alookup_upsert]
    by_cases hk : k' = k <;> simp [hk, dec]
  | none =>
    rw [del_nosess_unmetered c s hs hm]
    funext k'
    simp only [view, upd, hs, Option.bind_none, blockView, alookup_upsert]
    by_cases hk : k' = k <;> simp [hk, dec]

/-! ### corrected forms of the two C09 statements that need key-uniqueness of the overlay -/

/-- `csess_keeps_view` with the hypothesis it needs: the session holds no key twice
    (part of `St.WF`, preserved by every `step`). -/
theorem csess_keeps_view_of_nodup (c : Cfg K V) (s s' : St K V) (h : s.csess = some s')
    (hn : ∀ o, s.sess = some o → (akeys o).Nodup) :
    view c s' = view c s ∧ baseView c s' = view c s ∧ s'.sess = none := by
  unfold St.csess at h
  cases hs : s.sess with
  | none => simp [hs] at h
  | some o =>
    simp only [hs, Option.some.injEq] at h
    subst h
    have key : ∀ k, blockView c (commitInto s.cache o) s.tree k = view c s k := by
      intro k
      simp only [view, blockView, hs, Option.bind_some, commitInto,
        alookup_foldl_upsert o s.cache (hn o hs) k]
      cases alookup k o with
      | some v => rfl
      | none => rfl
    refine ⟨?_, ?_, rfl⟩
    · funext k
      simp only [view, Option.bind_none]
      exact key k
    · funext k
      exact key k

/-- `commit_persists_block` with the hypothesis it needs: the block cache holds no key twice
    (part of `St.WF`, preserved by every `step`). -/
theorem commit_persists_block_of_nodup (c : Cfg K V) (s : St K V) (wf : s.tree.WF)
    (hn : (akeys s.cache).Nodup) :
    (∀ k, (s.commit c).tree.get k = baseView c s k) ∧
    view c (s.commit c) = baseView c s ∧
    (s.commit c).tree.version = s.tree.version + 1 ∧
    (∀ k, (s.commit c).tree.getVersioned ((s.tree.version + 1 : Nat) : Int) k = baseView c s k) := by
  have hv := writeInto_versions c s.cache s.tree
  have hf := commit_fields (writeInto c s.tree s.cache)
  have wf' : (writeInto c s.tree s.cache).WF := WF_of_versions_eq _ _ hv.1 hv.2.1 wf
  have h1 : ∀ k, (s.commit c).tree.get k = baseView c s k := by
    intro k
    simp only [St.commit, Tree.get, hf.1]
    exact writeInto_get c s.cache s.tree hn k
  refine ⟨h1, ?_, ?_, ?_⟩
  · funext k
    rw [← h1 k]
    simp [view, blockView, St.commit]
  · simp only [St.commit, hf.2.1, hv.2.1]
  · intro k
    have := commit_getVersioned_new (writeInto c s.tree s.cache) wf' k
    rw [hv.2.1] at this
    simp only [St.commit]
    rw [this]
    exact writeInto_get c s.cache s.tree hn k

/-! ### `step` / `run` -/

theorem run_cons_fst (c : Cfg K V) (s : St K V) (op : Op K V) (ops : List (Op K V)) :
    (run c s (op :: ops)).1 = (run c (step c s op).1 ops).1 := rfl

theorem run_append_fst (c : Cfg K V) (s : St K V) (a b : List (Op K V)) :
    (run c s (a ++ b)).1 = (run c (run c s a).1 b).1 := by
  induction a generalizing s with
  | nil => rfl
  | cons op t ih =>
    rw [List.cons_append, run_cons_fst, run_cons_fst, ih]

theorem csess_of_none (s : St K V) (hs : s.sess = none) : s.csess = none := by
  simp [St.csess, hs]

theorem csess_of_some (s : St K V) (o : List (K × V)) (hs : s.sess = some o) :
    s.csess = some { s with cache := commitInto s.cache o, sess := none } := by
  simp [St.csess, hs]

theorem step_csess_none (c : Cfg K V) (s : St K V) (hs : s.sess = none) :
    (step c s .csess).1 = s := by
  simp [step, csess_of_none s hs]

theorem step_csess_some (c : Cfg K V) (s : St K V) (o : List (K × V)) (hs : s.sess = some o) :
    (step c s .csess).1 = { s with cache := commitInto s.cache o, sess := none } := by
  simp [step, csess_of_some s o hs]

theorem getVersioned_congr (t t' : Tree K V) (h : t'.versions = t.versions) (ver : Int) (k : K) :
    t'.getVersioned ver k = t.getVersioned ver k := by
  unfold Tree.getVersioned; rw [h]

theorem step_noncommit_versions (c : Cfg K V) (s : St K V) (op : Op K V) (h : op ≠ .commit) :
    (step c s op).1.tree.versions = s.tree.versions ∧
    (step c s op).1.tree.version = s.tree.version := by
  cases op with
  | newState l => cases l <;> exact ⟨rfl, rfl⟩
  | set k v =>
    show (s.set c k v).1.tree.versions = _ ∧ (s.set c k v).1.tree.version = _
    rw [(set_data c s k v).1]; exact ⟨rfl, rfl⟩
  | del k =>
    show (s.del c k).tree.versions = _ ∧ (s.del c k).tree.version = _
    rw [(del_data c s k).1]; exact ⟨rfl, rfl⟩
  | get k => rw [(step_read_gasOnly c s (.get k) rfl).1]; exact ⟨rfl, rfl⟩
  | has k => rw [(step_read_gasOnly c s (.has k) rfl).1]; exact ⟨rfl, rfl⟩
  | iter lo hi asc => rw [(step_read_gasOnly c s (.iter lo hi asc) rfl).1]; exact ⟨rfl, rfl⟩
  | iterAll lo hi asc => rw [(step_read_gasOnly c s (.iterAll lo hi asc) rfl).1]; exact ⟨rfl, rfl⟩
  | begin => exact ⟨rfl, rfl⟩
  | csess =>
    cases hs : s.sess with
    | none => rw [step_csess_none c s hs]; exact ⟨rfl, rfl⟩
    | some o => rw [step_csess_some c s o hs]; exact ⟨rfl, rfl⟩
  | dsess => exact ⟨rfl, rfl⟩
  | write =>
    have := writeInto_versions c s.cache s.tree
    exact ⟨this.1, this.2.1⟩
  | commit => exact absurd rfl h
  | reopen => exact reopen_fields s.tree
  | getv ver k => exact ⟨rfl, rfl⟩
  | gas => exact ⟨rfl, rfl⟩

theorem step_log (c : Cfg K V) (s : St K V) (op : Op K V)
    (h : match op with | .write | .commit | .reopen => False | _ => True) :
    (step c s op).1.tree.log = s.tree.log := by
  cases op with
  | newState l => cases l <;> rfl
  | set k v =>
    show (s.set c k v).1.tree.log = _
    rw [(set_data c s k v).1]
  | del k =>
    show (s.del c k).tree.log = _
    rw [(del_data c s k).1]
  | get k => rw [(step_read_gasOnly c s (.get k) rfl).1]
  | has k => rw [(step_read_gasOnly c s (.has k) rfl).1]
  | iter lo hi asc => rw [(step_read_gasOnly c s (.iter lo hi asc) rfl).1]
  | iterAll lo hi asc => rw [(step_read_gasOnly c s (.iterAll lo hi asc) rfl).1]
  | begin => rfl
  | csess =>
    cases hs : s.sess with
    | none => rw [step_csess_none c s hs]
    | some o => rw [step_csess_some c s o hs]
  | dsess => rfl
  | write => exact False.elim h
  | commit => exact False.elim h
  | reopen => exact False.elim h
  | getv ver k => rfl
  | gas => rfl

theorem step_gas (c : Cfg K V) (s : St K V) (op : Op K V)
    (h : match op with | .newState _ | .reopen => False | _ => True) :
    s.gas.consumed ≤ (step c s op).1.gas.consumed := by
  cases op with
  | newState l => exact False.elim h
  | set k v => exact set_gas c s k v
  | del k => exact del_gas c s k
  | get k => exact (step_read_gasOnly c s (.get k) rfl).2.2.2.2
  | has k => exact (step_read_gasOnly c s (.has k) rfl).2.2.2.2
  | iter lo hi asc => exact (step_read_gasOnly c s (.iter lo hi asc) rfl).2.2.2.2
  | iterAll lo hi asc => exact (step_read_gasOnly c s (.iterAll lo hi asc) rfl).2.2.2.2
  | begin => exact Int.le_refl _
  | csess =>
    cases hs : s.sess with
    | none => rw [step_csess_none c s hs]; exact Int.le_refl _
    | some o => rw [step_csess_some c s o hs]; exact Int.le_refl _
  | dsess => exact Int.le_refl _
  | write => exact Int.le_refl _
  | commit => exact Int.le_refl _
  | reopen => exact False.elim h
  | getv ver k => exact Int.le_refl _
  | gas => exact Int.le_refl _

theorem step_unmetered (c : Cfg K V) (s : St K V) (hm : s.metered = false) (op : Op K V)
    (h : op.isMeteredNew = false) : (step c s op).1.metered = false := by
  cases op with
  | newState l =>
    cases l with
    | none => rfl
    | some l => simp [Op.isMeteredNew] at h
  | set k v => exact (set_data c s k v).2.trans hm
  | del k => exact (del_data c s k).2.trans hm
  | get k => exact (step_read_gasOnly c s (.get k) rfl).2.2.2.1.trans hm
  | has k => exact (step_read_gasOnly c s (.has k) rfl).2.2.2.1.trans hm
  | iter lo hi asc => exact (step_read_gasOnly c s (.iter lo hi asc) rfl).2.2.2.1.trans hm
  | iterAll lo hi asc => exact (step_read_gasOnly c s (.iterAll lo hi asc) rfl).2.2.2.1.trans hm
  | begin => exact hm
  | csess =>
    cases hs : s.sess with
    | none => rw [step_csess_none c s hs]; exact hm
    | some o => rw [step_csess_some c s o hs]; exact hm
  | dsess => exact hm
  | write => exact hm
  | commit => rfl
  | reopen => rfl
  | getv ver k => exact hm
  | gas => exact hm

theorem step_WF (c : Cfg K V) (s : St K V) (wf : s.WF) (op : Op K V) : (step c s op).1.WF := by
  have nil_nodup : (akeys ([] : List (K × V))).Nodup := by simp [akeys]
  cases op with
  | newState l =>
    cases l <;> exact ⟨nil_nodup, (fun _ ho => by cases ho), wf.2.2⟩
  | set k v => exact set_WF c s wf k v
  | del k => exact del_WF c s wf k
  | get k => exact (step_read_gasOnly c s (.get k) rfl).WF wf
  | has k => exact (step_read_gasOnly c s (.has k) rfl).WF wf
  | iter lo hi asc => exact (step_read_gasOnly c s (.iter lo hi asc) rfl).WF wf
  | iterAll lo hi asc => exact (step_read_gasOnly c s (.iterAll lo hi asc) rfl).WF wf
  | begin =>
    refine ⟨wf.1, ?_, wf.2.2⟩
    intro o ho
    have : o = [] := (Option.some.inj ho).symm
    subst this; exact nil_nodup
  | csess =>
    cases hs : s.sess with
    | none => rw [step_csess_none c s hs]; exact wf
    | some o =>
      rw [step_csess_some c s o hs]
      exact ⟨nodup_akeys_foldl_upsert o s.cache wf.1, (fun _ ho => by cases ho), wf.2.2⟩
  | dsess => exact ⟨wf.1, (fun _ ho => by cases ho), wf.2.2⟩
  | write =>
    have hv := writeInto_versions c s.cache s.tree
    exact ⟨wf.1, wf.2.1, WF_of_versions_eq _ _ hv.1 hv.2.1 wf.2.2⟩
  | commit =>
    have hv := writeInto_versions c s.cache s.tree
    exact ⟨nil_nodup, (fun _ ho => by cases ho),
      commit_WF _ (WF_of_versions_eq _ _ hv.1 hv.2.1 wf.2.2)⟩
  | reopen =>
    have hv := reopen_fields s.tree
    exact ⟨nil_nodup, (fun _ ho => by cases ho), WF_of_versions_eq _ _ hv.1 hv.2 wf.2.2⟩
  | getv ver k => exact wf
  | gas => exact wf

/-- inside an open session of an unmetered state, key writes and reads touch only the session -/
theorem run_session_writes (c : Cfg K V) (s : St K V) (hm : s.metered = false)
    (o : List (K × V)) (hs : s.sess = some o) (ws : List (Op K V))
    (hw : ∀ op ∈ ws, op.isKeyWrite = true ∨ op.isRead = true) :
    ∃ o', (run c s ws).1 = { s with sess := some o' } := by
  induction ws generalizing s o with
  | nil =>
    refine ⟨o, ?_⟩
    show s = _
    cases s; simp only at hs; subst hs; rfl
  | cons op t ih =>
    have hw' : ∀ op ∈ t, op.isKeyWrite = true ∨ op.isRead = true :=
      fun x hx => hw x (List.mem_cons_of_mem _ hx)
    rw [run_cons_fst]
    rcases hw op List.mem_cons_self with h | h
    · cases op <;> simp [Op.isKeyWrite] at h
      · next k v =>
        by_cases hv : v = c.tomb
        · have : (step c s (.set k v)).1 = s := by
            show (s.set c k v).1 = _
            rw [hv, set_tomb]
          rw [this]
          exact ih s hm o hs hw'
        · have : (step c s (.set k v)).1 = { s with sess := some (upsert o k v) } := by
            show (s.set c k v).1 = _
            rw [set_sess c s o hs k v hv]
          rw [this]
          obtain ⟨o', h'⟩ := ih { s with sess := some (upsert o k v) } hm _ rfl hw'
          exact ⟨o', h'⟩
      · next k =>
        have : (step c s (.del k)).1 = { s with sess := some (upsert o k c.tomb) } := by
          show s.del c k = _
          rw [del_sess c s o hs]
        rw [this]
        obtain ⟨o', h'⟩ := ih { s with sess := some (upsert o k c.tomb) } hm _ rfl hw'
        exact ⟨o', h'⟩
    · rw [step_read_unmetered c s hm op h]
      exact ih s hm o hs hw'

/-! ### reads of an arbitrary state, metered or not (the repaired `State.Get` / `State.Exists`) -/

theorem addGas_zero (s : St K V) : s.addGas 0 = s := by
  obtain ⟨se, ca, me, ⟨l, g⟩, tr⟩ := s
  simp [St.addGas]

theorem addGas_addGas (s : St K V) (a b : Int) : (s.addGas a).addGas b = s.addGas (a + b) := by
  simp [St.addGas, Int.add_assoc]

theorem addGas_gasOnly (s : St K V) (d : Int) (hd : 0 ≤ d) : GasOnly s (s.addGas d) := by
  refine ⟨rfl, rfl, rfl, rfl, ?_⟩
  simp only [St.addGas]; omega

theorem view_addGas (c : Cfg K V) (s : St K V) (d : Int) : view c (s.addGas d) = view c s := rfl
theorem deleted_addGas (c : Cfg K V) (s : St K V) (d : Int) (k : K) :
    (s.addGas d).deleted c k = s.deleted c k := rfl
theorem readCost_addGas (c : Cfg K V) (s : St K V) (d : Int) (k : K) :
    readCost c (s.addGas d) k = readCost c s k := rfl

theorem iterCost_addGas (c : Cfg K V) (s : St K V) (d : Int) (ks : List K) :
    iterCost c (s.addGas d) ks = iterCost c s ks := by
  induction ks with
  | nil => rfl
  | cons k t ih => simp only [iterCost, ih]; rfl

theorem readCost_nonneg (c : Cfg K V) (s : St K V) (k : K) : 0 ≤ readCost c s k := by
  unfold readCost
  split
  · exact Int.le_refl _
  · split
    · split <;> omega
    · exact Int.le_refl _

/-- a served read through the metered cache costs at least the flat read cost -/
theorem readCost_ge (c : Cfg K V) (s : St K V) (k : K) (hm : s.metered = true)
    (hs : s.sess.bind (alookup k) = none) : 20 ≤ readCost c s k := by
  unfold readCost
  rw [hs]
  simp only [hm, if_true]
  split <;> omega

theorem readCost_sess (c : Cfg K V) (s : St K V) (k : K)
    (hs : (s.sess.bind (alookup k)).isSome = true) : readCost c s k = 0 := by
  unfold readCost
  cases h : s.sess.bind (alookup k) with
  | none => rw [h] at hs; cases hs
  | some v => rfl

theorem readCost_unmetered (c : Cfg K V) (s : St K V) (k : K) (hm : s.metered = false) :
    readCost c s k = 0 := by
  unfold readCost
  split
  · rfl
  · simp [hm]

theorem iterCost_nonneg (c : Cfg K V) (s : St K V) (ks : List K) : 0 ≤ iterCost c s ks := by
  induction ks with
  | nil => exact Int.le_refl _
  | cons k t ih =>
    simp only [iterCost]
    have := readCost_nonneg c s k
    split <;> omega

/-- `State.Get`, exactly: refused by the meter (nothing changes), or the view, charged `readCost` -/
theorem get_exact (c : Cfg K V) (s : St K V) (k : K) :
    s.get c k = if Refused s k then (s, .errGas)
                else (s.addGas (readCost c s k), .val (view c s k)) := by
  cases hs : s.sess.bind (alookup k) with
  | some v => simp [St.get, view, readCost, Refused, hs, addGas_zero, dec]
  | none =>
    cases hm : s.metered with
    | false =>
      simp only [St.get, view, blockView, readCost, Refused, hs, hm, St.cacheGet]
      simp only [Bool.false_eq_true, false_and, if_false, addGas_zero]
      cases alookup k s.cache <;> rfl
    | true =>
      by_cases hx : s.gas.consumed ≥ s.gas.limit
      · simp [St.get, St.cacheGet, Refused, hs, hm, consumeStrict_none _ _ hx, hx]
      · have hg : s.gas.consumeStrict 20 = some { s.gas with consumed := s.gas.consumed + 20 } := by
          simp [Gas.consumeStrict, hx]
        simp only [St.get, view, blockView, readCost, Refused, hs, hm, St.cacheGet, hg, hx]
        cases alookup k s.cache with
        | none => simp [St.addGas, hm]
        | some v => simp [St.addGas, Gas.consumeAlways, dec, Int.add_assoc, hm]

theorem get_val_or_refused (c : Cfg K V) (s : St K V) (k : K) :
    (s.get c k = (s.addGas (readCost c s k), .val (view c s k)) ∧ ¬ Refused s k) ∨
    (s.get c k = (s, .errGas) ∧ Refused s k) := by
  rw [get_exact]
  by_cases h : Refused s k
  · right; simp [h]
  · left; simp [h]

/-- `State.Exists`, exactly: always the view; charged the flat read cost iff the metered cache was
    asked while gas was left -/
theorem has_exact (c : Cfg K V) (s : St K V) (k : K) :
    s.has c k =
      (s.addGas (if (s.sess.bind (alookup k)).isSome = false ∧ s.metered = true ∧
                    s.gas.consumed < s.gas.limit then 20 else 0),
       (view c s k).isSome) := by
  cases hs : s.sess.bind (alookup k) with
  | some v =>
    by_cases hv : v = c.tomb <;> simp [St.has, view, St.deleted, dec, hs, hv, addGas_zero]
  | none =>
    cases hm : s.metered with
    | false =>
      cases h2 : alookup k s.cache with
      | some v =>
        by_cases hv : v = c.tomb <;>
          simp [St.has, view, blockView, St.cacheHas, St.deleted, dec, hs, h2, hm, hv, addGas_zero]
      | none =>
        simp [St.has, view, blockView, St.cacheHas, Tree.has, Tree.get, hs, h2, hm, addGas_zero]
    | true =>
      by_cases hx : s.gas.consumed ≥ s.gas.limit
      · have hx' : ¬ s.gas.consumed < s.gas.limit := by omega
        cases h2 : alookup k s.cache with
        | some v =>
          by_cases hv : v = c.tomb <;>
            simp [St.has, view, blockView, St.cacheHas, St.deleted, dec, hs, h2, hm, hv, addGas_zero,
              consumeStrict_none _ _ hx, hx']
        | none =>
          simp [St.has, view, blockView, St.cacheHas, Tree.has, Tree.get, hs, h2, hm, addGas_zero,
            consumeStrict_none _ _ hx, hx']
      · have hx' : s.gas.consumed < s.gas.limit := by omega
        have hg : s.gas.consumeStrict 20 = some { s.gas with consumed := s.gas.consumed + 20 } := by
          simp [Gas.consumeStrict, hx]
        cases h2 : alookup k s.cache with
        | some v =>
          by_cases hv : v = c.tomb <;>
            simp [St.has, view, blockView, St.cacheHas, St.deleted, dec, hs, h2, hm, hv, St.addGas,
              hg, hx']
        | none =>
          simp [St.has, view, blockView, St.cacheHas, Tree.has, Tree.get, hs, h2, hm, St.addGas,
            hg, hx']

/-! ### iteration over an arbitrary state -/

theorem iterStep_deleted (c : Cfg K V) (s : St K V) (acc : List (K × Option V)) (k : K)
    (hd : s.deleted c k = true) : iterStep c (s, acc) k = (s, acc) := by
  simp [iterStep, hd]

theorem iterStep_served (c : Cfg K V) (s : St K V) (acc : List (K × Option V)) (k : K)
    (hd : ¬ s.deleted c k = true) (hr : ¬ Refused s k) :
    iterStep c (s, acc) k = (s.addGas (readCost c s k), acc ++ [(k, view c s k)]) := by
  simp [iterStep, hd, get_exact, hr]

theorem iterStep_refused (c : Cfg K V) (s : St K V) (acc : List (K × Option V)) (k : K)
    (hd : ¬ s.deleted c k = true) (hr : Refused s k) : iterStep c (s, acc) k = (s, acc) := by
  simp [iterStep, hd, get_exact, hr]

/-- enough gas for all the reads: nothing is missing, the charge is `iterCost` -/
theorem iter_foldl_enough_gas (c : Cfg K V) (ks : List K) (s : St K V) (acc : List (K × Option V))
    (h : s.metered = true → s.gas.consumed + iterCost c s ks ≤ s.gas.limit) :
    ks.foldl (iterStep c) (s, acc) = (s.addGas (iterCost c s ks), acc ++ listed c s ks) := by
  induction ks generalizing s acc with
  | nil => simp [iterCost, addGas_zero, listed]
  | cons k t ih =>
    rw [List.foldl_cons]
    have hn := iterCost_nonneg c s t
    by_cases hd : s.deleted c k = true
    · rw [iterStep_deleted c s acc k hd, ih s acc]
      · simp [iterCost, hd, listed]
      · intro hm
        have := h hm
        simp only [iterCost, hd, if_true] at this
        omega
    · have hr : ¬ Refused s k := by
        rintro ⟨hm, hx, hs⟩
        have h1 := h hm
        have h2 := readCost_ge c s k hm hs
        simp only [iterCost, hd] at h1
        simp only [Bool.false_eq_true, if_false] at h1
        omega
      rw [iterStep_served c s acc k hd hr, ih]
      · rw [addGas_addGas, iterCost_addGas]
        simp [iterCost, hd, listed]
        rfl
      · intro hm
        have h1 := h hm
        simp only [iterCost, hd] at h1
        simp only [Bool.false_eq_true, if_false] at h1
        rw [iterCost_addGas]
        simp only [St.addGas]
        omega

/-- gas used up: the state does not move and only the session's keys are listed -/
theorem iter_foldl_exhausted (c : Cfg K V) (s : St K V) (hm : s.metered = true)
    (hx : s.gas.consumed ≥ s.gas.limit) (ks : List K) (acc : List (K × Option V)) :
    ks.foldl (iterStep c) (s, acc) = (s, acc ++ listedSess c s ks) := by
  induction ks generalizing acc with
  | nil => simp [listedSess]
  | cons k t ih =>
    rw [List.foldl_cons]
    by_cases hd : s.deleted c k = true
    · rw [iterStep_deleted c s acc k hd, ih]
      simp [listedSess, hd]
    · cases hs : s.sess.bind (alookup k) with
      | none =>
        rw [iterStep_refused c s acc k hd ⟨hm, hx, hs⟩, ih]
        simp [listedSess, hd, hs]
      | some v =>
        have hr : ¬ Refused s k := by
          rintro ⟨_, _, h⟩; rw [hs] at h; cases h
        rw [iterStep_served c s acc k hd hr, readCost_sess c s k (by simp [hs]), addGas_zero, ih]
        simp [listedSess, hd, hs]

/-- the general form: the reads are served up to a cut-off point `n` (where the meter ran out),
    after which only the keys answered by the session are listed -/
theorem iter_foldl_cutoff (c : Cfg K V) (ks : List K) (s : St K V) (acc : List (K × Option V)) :
    ∃ n, n ≤ ks.length ∧
      ks.foldl (iterStep c) (s, acc) =
        (s.addGas (iterCost c s (ks.take n)),
         acc ++ (listed c s (ks.take n) ++ listedSess c s (ks.drop n))) ∧
      (n < ks.length → s.metered = true ∧ s.gas.limit ≤ s.gas.consumed + iterCost c s (ks.take n)) := by
  induction ks generalizing s acc with
  | nil => exact ⟨0, Nat.le_refl _, by simp [iterCost, addGas_zero, listed, listedSess], by simp⟩
  | cons k t ih =>
    by_cases hd : s.deleted c k = true
    · obtain ⟨n, hn, he, hl⟩ := ih s acc
      refine ⟨n + 1, by simp [hn], ?_, ?_⟩
      · rw [List.foldl_cons, iterStep_deleted c s acc k hd, he]
        simp [iterCost, hd, listed]
      · intro h
        have := hl (by simpa using h)
        simpa [iterCost, hd] using this
    · by_cases hr : Refused s k
      · refine ⟨0, Nat.zero_le _, ?_, ?_⟩
        · rw [iter_foldl_exhausted c s hr.1 hr.2.1]
          simp [iterCost, addGas_zero, listed]
        · intro _
          exact ⟨hr.1, by simpa [iterCost] using hr.2.1⟩
      · obtain ⟨n, hn, he, hl⟩ := ih (s.addGas (readCost c s k)) (acc ++ [(k, view c s k)])
        refine ⟨n + 1, by simp [hn], ?_, ?_⟩
        · rw [List.foldl_cons, iterStep_served c s acc k hd hr, he, addGas_addGas, iterCost_addGas]
          simp [iterCost, hd, listed, listedSess]
          rfl
        · intro h
          have := hl (by simpa using h)
          rw [iterCost_addGas] at this
          refine ⟨this.1, ?_⟩
          have h2 := this.2
          simp only [St.addGas] at h2
          simp only [List.take_succ_cons, iterCost, hd]
          simp only [Bool.false_eq_true, if_false]
          omega

theorem filter_sublist_of_imp {α : Type} (p q : α → Bool) (l : List α)
    (h : ∀ a, p a = true → q a = true) : (l.filter p).Sublist (l.filter q) := by
  induction l with
  | nil => exact List.Sublist.refl _
  | cons a t ih =>
    by_cases hp : p a = true
    · rw [List.filter_cons_of_pos hp, List.filter_cons_of_pos (h a hp)]
      exact ih.cons_cons a
    · rw [List.filter_cons_of_neg hp]
      by_cases hq : q a = true
      · rw [List.filter_cons_of_pos hq]; exact ih.cons a
      · rw [List.filter_cons_of_neg hq]; exact ih

theorem listedSess_sublist (c : Cfg K V) (s : St K V) (ks : List K) :
    (listedSess c s ks).Sublist (listed c s ks) := by
  unfold listedSess listed
  refine List.Sublist.map _ (filter_sublist_of_imp _ _ _ ?_)
  intro k hk
  simp only [Bool.and_eq_true] at hk
  exact hk.1

theorem listed_append (c : Cfg K V) (s : St K V) (a b : List K) :
    listed c s (a ++ b) = listed c s a ++ listed c s b := by
  simp [listed]

theorem iter_cutoff (c : Cfg K V) (s : St K V) (lo hi : Option K) (asc : Bool) :
    ∃ n, n ≤ (s.tree.rangeKeys c lo hi asc).length ∧
      s.iter c lo hi asc =
        (s.addGas (iterCost c s ((s.tree.rangeKeys c lo hi asc).take n)),
         listed c s ((s.tree.rangeKeys c lo hi asc).take n) ++
           listedSess c s ((s.tree.rangeKeys c lo hi asc).drop n)) ∧
      (n < (s.tree.rangeKeys c lo hi asc).length →
        s.metered = true ∧
        s.gas.limit ≤ s.gas.consumed + iterCost c s ((s.tree.rangeKeys c lo hi asc).take n)) := by
  obtain ⟨n, hn, he, hl⟩ := iter_foldl_cutoff c (s.tree.rangeKeys c lo hi asc) s []
  refine ⟨n, hn, ?_, hl⟩
  rw [iter_eq_foldl, he]
  simp

theorem iter_sublist (c : Cfg K V) (s : St K V) (lo hi : Option K) (asc : Bool) :
    (s.iter c lo hi asc).2.Sublist (listed c s (s.tree.rangeKeys c lo hi asc)) := by
  obtain ⟨n, _, he, _⟩ := iter_cutoff c s lo hi asc
  rw [he]
  have : listed c s (s.tree.rangeKeys c lo hi asc) =
      listed c s ((s.tree.rangeKeys c lo hi asc).take n) ++
        listed c s ((s.tree.rangeKeys c lo hi asc).drop n) := by
    rw [← listed_append, List.take_append_drop]
  rw [this]
  exact List.Sublist.append (List.Sublist.refl _) (listedSess_sublist c s _)

theorem mem_listed (c : Cfg K V) (s : St K V) (ks : List K) (k : K) (hk : k ∈ ks)
    (hd : s.deleted c k = false) : (k, view c s k) ∈ listed c s ks := by
  unfold listed
  exact List.mem_map.mpr ⟨k, List.mem_filter.mpr ⟨hk, by simp [hd]⟩, rfl⟩

theorem mem_listedSess (c : Cfg K V) (s : St K V) (ks : List K) (k : K) (hk : k ∈ ks)
    (hd : s.deleted c k = false) (hs : (s.sess.bind (alookup k)).isSome = true) :
    (k, view c s k) ∈ listedSess c s ks := by
  unfold listedSess
  exact List.mem_map.mpr ⟨k, List.mem_filter.mpr ⟨hk, by simp [hd, hs]⟩, rfl⟩

/-- a key of the range is missing from the listing only if it is deleted in an overlay or its
    read was refused: the meter is on, ran out by the end, and the session does not hold the key -/
theorem iter_missing (c : Cfg K V) (s : St K V) (lo hi : Option K) (asc : Bool) (k : K)
    (hk : k ∈ s.tree.rangeKeys c lo hi asc) (hd : s.deleted c k = false)
    (hmiss : (k, view c s k) ∉ (s.iter c lo hi asc).2) :
    s.metered = true ∧ s.gas.limit ≤ (s.iter c lo hi asc).1.gas.consumed ∧
    s.sess.bind (alookup k) = none := by
  obtain ⟨n, _, he, hl⟩ := iter_cutoff c s lo hi asc
  rw [he] at hmiss ⊢
  simp only [List.mem_append, not_or] at hmiss
  rw [← List.take_append_drop n (s.tree.rangeKeys c lo hi asc), List.mem_append] at hk
  rcases hk with hk | hk
  · exact absurd (mem_listed c s _ k hk hd) hmiss.1
  · have hlt : n < (s.tree.rangeKeys c lo hi asc).length := by
      by_cases h : n < (s.tree.rangeKeys c lo hi asc).length
      · exact h
      · rw [List.drop_eq_nil_of_le (by omega)] at hk
        cases hk
    refine ⟨(hl hlt).1, (hl hlt).2, ?_⟩
    cases hs : s.sess.bind (alookup k) with
    | none => rfl
    | some v => exact absurd (mem_listedSess c s _ k hk hd (by simp [hs])) hmiss.2

theorem iterAll_cutoff (c : Cfg K V) (s : St K V) (lo hi : Option K) (asc : Bool) :
    ∃ n, n ≤ (s.iterKeys c lo hi asc).length ∧
      s.iterAll c lo hi asc =
        (s.addGas (iterCost c s ((s.iterKeys c lo hi asc).take n)),
         listed c s ((s.iterKeys c lo hi asc).take n) ++
           listedSess c s ((s.iterKeys c lo hi asc).drop n)) ∧
      (n < (s.iterKeys c lo hi asc).length →
        s.metered = true ∧
        s.gas.limit ≤ s.gas.consumed + iterCost c s ((s.iterKeys c lo hi asc).take n)) := by
  obtain ⟨n, hn, he, hl⟩ := iter_foldl_cutoff c (s.iterKeys c lo hi asc) s []
  refine ⟨n, hn, ?_, hl⟩
  rw [iterAll_eq_foldl, he]
  simp

theorem iterAll_sublist (c : Cfg K V) (s : St K V) (lo hi : Option K) (asc : Bool) :
    (s.iterAll c lo hi asc).2.Sublist (listed c s (s.iterKeys c lo hi asc)) := by
  obtain ⟨n, _, he, _⟩ := iterAll_cutoff c s lo hi asc
  rw [he]
  have : listed c s (s.iterKeys c lo hi asc) =
      listed c s ((s.iterKeys c lo hi asc).take n) ++
        listed c s ((s.iterKeys c lo hi asc).drop n) := by
    rw [← listed_append, List.take_append_drop]
  rw [this]
  exact List.Sublist.append (List.Sublist.refl _) (listedSess_sublist c s _)

/-- a key of the range is missing from the listing only if it is deleted in an overlay or its
    read was refused: the meter is on, ran out by the end, and the session does not hold the key -/
theorem iterAll_missing (c : Cfg K V) (s : St K V) (lo hi : Option K) (asc : Bool) (k : K)
    (hk : k ∈ s.iterKeys c lo hi asc) (hd : s.deleted c k = false)
    (hmiss : (k, view c s k) ∉ (s.iterAll c lo hi asc).2) :
    s.metered = true ∧ s.gas.limit ≤ (s.iterAll c lo hi asc).1.gas.consumed ∧
    s.sess.bind (alookup k) = none := by
  obtain ⟨n, _, he, hl⟩ := iterAll_cutoff c s lo hi asc
  rw [he] at hmiss ⊢
  simp only [List.mem_append, not_or] at hmiss
  rw [← List.take_append_drop n (s.iterKeys c lo hi asc), List.mem_append] at hk
  rcases hk with hk | hk
  · exact absurd (mem_listed c s _ k hk hd) hmiss.1
  · have hlt : n < (s.iterKeys c lo hi asc).length := by
      by_cases h : n < (s.iterKeys c lo hi asc).length
      · exact h
      · rw [List.drop_eq_nil_of_le (by omega)] at hk
        cases hk
    refine ⟨(hl hlt).1, (hl hlt).2, ?_⟩
    cases hs : s.sess.bind (alookup k) with
    | none => rfl
    | some v => exact absurd (mem_listedSess c s _ k hk hd (by simp [hs])) hmiss.2

/-! ### every read only advances the gas counter -/

theorem step_read_addGas (c : Cfg K V) (s : St K V) (op : Op K V) (hr : op.isRead = true) :
    ∃ d, 0 ≤ d ∧ (step c s op).1 = s.addGas d := by
  cases op <;> simp [Op.isRead] at hr
  · next k =>
    show ∃ d, 0 ≤ d ∧ (s.get c k).1 = s.addGas d
    rw [get_exact]
    by_cases h : Refused s k
    · exact ⟨0, Int.le_refl _, by simp [h, addGas_zero]⟩
    · exact ⟨_, readCost_nonneg c s k, by simp [h]⟩
  · next k =>
    show ∃ d, 0 ≤ d ∧ (s.has c k).1 = s.addGas d
    rw [has_exact]
    refine ⟨_, ?_, rfl⟩
    split <;> omega
  · next lo hi asc =>
    show ∃ d, 0 ≤ d ∧ (s.iter c lo hi asc).1 = s.addGas d
    obtain ⟨n, _, he, _⟩ := iter_cutoff c s lo hi asc
    exact ⟨_, iterCost_nonneg c s _, by rw [he]⟩
  · next lo hi asc =>
    show ∃ d, 0 ≤ d ∧ (s.iterAll c lo hi asc).1 = s.addGas d
    obtain ⟨n, _, he, _⟩ := iterAll_cutoff c s lo hi asc
    exact ⟨_, iterCost_nonneg c s _, by rw [he]⟩
  · exact ⟨0, Int.le_refl _, (addGas_zero s).symm⟩
  · exact ⟨0, Int.le_refl _, (addGas_zero s).symm⟩

/-! ### writes into an arbitrary state -/

theorem set_exact (c : Cfg K V) (s : St K V) (k : K) (v : V) (hv : v ≠ c.tomb) :
    (¬ WriteRefused s ∧ (s.set c k v).2 = .ok ∧
      view c (s.set c k v).1 = upd (view c s) k (some v)) ∨
    (WriteRefused s ∧ s.set c k v = (s, .errGas)) := by
  cases hs : s.sess with
  | some o =>
    left
    refine ⟨fun h => (by rw [h.2.2] at hs; cases hs), ?_⟩
    rw [set_sess c s o hs k v hv]
    refine ⟨rfl, ?_⟩
    funext k'
    simp only [view, upd, hs, Option.bind_some, alookup_upsert]
    by_cases hk : k' = k <;> simp [hk, dec, hv]
  | none =>
    cases hm : s.metered with
    | false =>
      left
      exact ⟨fun h => (by rw [h.1] at hm; cases hm), view_set_gen c s hm k v hv⟩
    | true =>
      by_cases hx : s.gas.consumed ≥ s.gas.limit
      · right
        exact ⟨⟨hm, hx, hs⟩, by simp [St.set, hs, hm, hv, consumeStrict_none _ _ hx]⟩
      · left
        refine ⟨fun h => hx h.2.1, ?_⟩
        have hg : s.gas.consumeStrict 200 = some { s.gas with consumed := s.gas.consumed + 200 } := by
          simp [Gas.consumeStrict, hx]
        simp only [St.set, hs, hm, hv, hg, if_false, if_true, true_and]
        funext k'
        simp only [view, upd, hs, Option.bind_none, blockView, alookup_upsert]
        by_cases hk : k' = k <;> simp [hk, dec, hv]

theorem del_exact (c : Cfg K V) (s : St K V) (k : K) :
    (¬ WriteRefused s ∧ view c (s.del c k) = upd (view c s) k none) ∨
    (WriteRefused s ∧ s.del c k = s) := by
  cases hs : s.sess with
  | some o =>
    left
    refine ⟨fun h => (by rw [h.2.2] at hs; cases hs), ?_⟩
    rw [del_sess c s o hs]
    funext k'
    simp only [view, upd, hs, Option.bind_some, alookup_upsert]
    by_cases hk : k' = k <;> simp [hk, dec]
  | none =>
    cases hm : s.metered with
    | false =>
      left
      exact ⟨fun h => (by rw [h.1] at hm; cases hm), view_del_gen c s hm k⟩
    | true =>
      by_cases hx : s.gas.consumed ≥ s.gas.limit
      · right
        exact ⟨⟨hm, hx, hs⟩, by simp [St.del, hs, hm, consumeStrict_none _ _ hx]⟩
      · left
        refine ⟨fun h => hx h.2.1, ?_⟩
        have hg : s.gas.consumeStrict 50 = some { s.gas with consumed := s.gas.consumed + 50 } := by
          simp [Gas.consumeStrict, hx]
        simp only [St.del, hs, hm, hg, if_true]
        funext k'
        simp only [view, upd, hs, Option.bind_none, blockView, alookup_upsert]
        by_cases hk : k' = k <;> simp [hk, dec]

/-- inside an open session of any state, key writes and reads touch only the session and the
    gas counter -/
theorem run_session_writes_gen (c : Cfg K V) (s : St K V)
    (o : List (K × V)) (hs : s.sess = some o) (ws : List (Op K V))
    (hw : ∀ op ∈ ws, op.isKeyWrite = true ∨ op.isRead = true) :
    ∃ o' d, 0 ≤ d ∧ (run c s ws).1 = ({ s with sess := some o' } : St K V).addGas d := by
  induction ws generalizing s o with
  | nil =>
    refine ⟨o, 0, Int.le_refl _, ?_⟩
    rw [addGas_zero]
    show s = _
    cases s; simp only at hs; subst hs; rfl
  | cons op t ih =>
    have hw' : ∀ op ∈ t, op.isKeyWrite = true ∨ op.isRead = true :=
      fun x hx => hw x (List.mem_cons_of_mem _ hx)
    rw [run_cons_fst]
    rcases hw op List.mem_cons_self with h | h
    · cases op <;> simp [Op.isKeyWrite] at h
      · next k v =>
        by_cases hv : v = c.tomb
        · have : (step c s (.set k v)).1 = s := by
            show (s.set c k v).1 = _
            rw [hv, set_tomb]
          rw [this]
          exact ih s o hs hw'
        · have : (step c s (.set k v)).1 = { s with sess := some (upsert o k v) } := by
            show (s.set c k v).1 = _
            rw [set_sess c s o hs k v hv]
          rw [this]
          obtain ⟨o', d, hd, h'⟩ := ih { s with sess := some (upsert o k v) } _ rfl hw'
          exact ⟨o', d, hd, h'⟩
      · next k =>
        have : (step c s (.del k)).1 = { s with sess := some (upsert o k c.tomb) } := by
          show s.del c k = _
          rw [del_sess c s o hs]
        rw [this]
        obtain ⟨o', d, hd, h'⟩ := ih { s with sess := some (upsert o k c.tomb) } _ rfl hw'
        exact ⟨o', d, hd, h'⟩
    · obtain ⟨d1, hd1, h1⟩ := step_read_addGas c s op h
      rw [h1]
      obtain ⟨o', d, hd, h'⟩ := ih (s.addGas d1) o hs hw'
      refine ⟨o', d1 + d, by omega, ?_⟩
      rw [h']
      simp [St.addGas, Int.add_assoc]

/-! ### insertion sort (moved here from OLP/Shell/LemmasB.lean: C01 and C09 both use it) -/

theorem insertKey_perm (lt : K → K → Bool) (k : K) (l : List K) :
    (insertKey lt k l).Perm (k :: l) := by
  induction l with
  | nil => exact List.Perm.refl _
  | cons h t ih =>
    unfold insertKey
    split
    · exact List.Perm.refl _
    · exact (List.Perm.cons h ih).trans (List.Perm.swap k h t)

theorem sortKeys_perm (lt : K → K → Bool) (l : List K) : (sortKeys lt l).Perm l := by
  induction l with
  | nil => exact List.Perm.refl _
  | cons h t ih =>
    show (insertKey lt h (sortKeys lt t)).Perm (h :: t)
    exact (insertKey_perm lt h _).trans (List.Perm.cons h ih)

theorem insertKey_sorted (lt : K → K → Bool)
    (irrefl : ∀ a, lt a a = false)
    (trans : ∀ a b c, lt a b = true → lt b c = true → lt a c = true)
    (k : K) (l : List K) (hl : l.Pairwise (fun a b => lt b a = false)) :
    (insertKey lt k l).Pairwise (fun a b => lt b a = false) := by
  induction l with
  | nil => simp [insertKey]
  | cons h t ih =>
    have hl' := List.pairwise_cons.mp hl
    unfold insertKey
    split
    · next hkh =>
      refine List.pairwise_cons.mpr ⟨?_, hl⟩
      intro b hb
      rcases List.mem_cons.mp hb with rfl | hb
      · cases hbk : lt b k with
        | false => rfl
        | true => have := trans _ _ _ hkh hbk; rw [irrefl] at this; cases this
      · cases hbk : lt b k with
        | false => rfl
        | true =>
          have := trans _ _ _ hbk hkh
          rw [hl'.1 b hb] at this; cases this
    · next hkh =>
      refine List.pairwise_cons.mpr ⟨?_, ih hl'.2⟩
      intro b hb
      rcases List.mem_cons.mp ((insertKey_perm lt k t).subset hb) with rfl | hb
      · simpa using hkh
      · exact hl'.1 b hb

theorem sortKeys_sorted (lt : K → K → Bool)
    (irrefl : ∀ a, lt a a = false)
    (trans : ∀ a b c, lt a b = true → lt b c = true → lt a c = true)
    (l : List K) : (sortKeys lt l).Pairwise (fun a b => lt b a = false) := by
  induction l with
  | nil => exact List.Pairwise.nil
  | cons h t ih => exact insertKey_sorted lt irrefl trans h _ ih

/-! ### the keys of a range -/

theorem mem_insertKey (lt : K → K → Bool) (k x : K) (l : List K) :
    x ∈ insertKey lt k l ↔ x = k ∨ x ∈ l := by
  induction l with
  | nil => simp [insertKey]
  | cons h t ih =>
    unfold insertKey
    split
    · simp
    · simp only [List.mem_cons, ih]
      constructor
      · rintro (h | h | h)
        · exact Or.inr (Or.inl h)
        · exact Or.inl h
        · exact Or.inr (Or.inr h)
      · rintro (h | h | h)
        · exact Or.inr (Or.inl h)
        · exact Or.inl h
        · exact Or.inr (Or.inr h)

theorem mem_sortKeys (lt : K → K → Bool) (x : K) (l : List K) : x ∈ sortKeys lt l ↔ x ∈ l := by
  induction l with
  | nil => simp [sortKeys]
  | cons h t ih =>
    have : sortKeys lt (h :: t) = insertKey lt h (sortKeys lt t) := rfl
    rw [this, mem_insertKey, ih, List.mem_cons]

/-- the keys iteration visits: exactly the keys of the working tree inside `[lo, hi)` -/
theorem mem_rangeKeys (c : Cfg K V) (t : Tree K V) (lo hi : Option K) (asc : Bool) (k : K) :
    k ∈ t.rangeKeys c lo hi asc ↔
      k ∈ akeys t.working ∧ (∀ l, lo = some l → c.lt k l = false) ∧
      (∀ h, hi = some h → c.lt k h = true) := by
  unfold Tree.rangeKeys
  simp only
  have hm : ∀ ks : List K, (k ∈ (if asc then ks else ks.reverse)) ↔ k ∈ ks := by
    intro ks; cases asc <;> simp
  rw [hm, mem_sortKeys, List.mem_filter]
  cases lo <;> cases hi <;> simp

theorem mem_listed_iff (c : Cfg K V) (s : St K V) (ks : List K) (p : K × Option V) :
    p ∈ listed c s ks ↔ p.1 ∈ ks ∧ s.deleted c p.1 = false ∧ p.2 = view c s p.1 := by
  unfold listed
  simp only [List.mem_map, List.mem_filter, Bool.not_eq_true']
  constructor
  · rintro ⟨k, ⟨hk, hd⟩, rfl⟩
    exact ⟨hk, hd, rfl⟩
  · rintro ⟨hk, hd, hv⟩
    exact ⟨p.1, ⟨hk, hd⟩, by rw [← hv]⟩

/-! ### the keys `iterAll` visits (`State.IterateRangeAll`) -/

theorem nodup_eraseDups : ∀ (l : List K), l.eraseDups.Nodup
  | [] => by simp
  | a :: as => by
    rw [List.eraseDups_cons, List.nodup_cons]
    refine ⟨?_, nodup_eraseDups _⟩
    intro h
    rw [List.mem_eraseDups, List.mem_filter] at h
    simp at h
termination_by l => l.length
decreasing_by
  simp only [List.length_cons]
  exact Nat.lt_succ_of_le (List.length_filter_le _ _)

theorem iterKeys_eq (c : Cfg K V) (s : St K V) (lo hi : Option K) (asc : Bool) :
    s.iterKeys c lo hi asc = dir asc (sortKeys c.lt (s.allKeys.eraseDups.filter (inRange c lo hi))) :=
  rfl

theorem mem_dir (asc : Bool) (ks : List K) (k : K) : k ∈ dir asc ks ↔ k ∈ ks := by
  cases asc <;> simp [dir]

theorem nodup_dir (asc : Bool) (ks : List K) : (dir asc ks).Nodup ↔ ks.Nodup := by
  cases asc
  · exact (List.reverse_perm ks).nodup_iff
  · exact Iff.rfl

theorem filter_dir (asc : Bool) (p : K → Bool) (ks : List K) :
    (dir asc ks).filter p = dir asc (ks.filter p) := by
  cases asc <;> simp [dir, List.filter_reverse]

/-- the keys iteration visits: exactly the keys some layer holds that lie in `[lo, hi)` -/
theorem mem_iterKeys (c : Cfg K V) (s : St K V) (lo hi : Option K) (asc : Bool) (k : K) :
    k ∈ s.iterKeys c lo hi asc ↔ k ∈ s.allKeys ∧ inRange c lo hi k = true := by
  rw [iterKeys_eq, mem_dir, mem_sortKeys, List.mem_filter, List.mem_eraseDups]

theorem nodup_iterKeys (c : Cfg K V) (s : St K V) (lo hi : Option K) (asc : Bool) :
    (s.iterKeys c lo hi asc).Nodup := by
  rw [iterKeys_eq, nodup_dir, (sortKeys_perm c.lt _).nodup_iff]
  exact List.Nodup.sublist List.filter_sublist (nodup_eraseDups _)

theorem sortedDir_dir (lt : K → K → Bool) (asc : Bool) (ks : List K)
    (h : ks.Pairwise (fun a b => lt b a = false)) : SortedDir lt asc (dir asc ks) := by
  cases asc
  · simp only [SortedDir, dir, Bool.false_eq_true, if_false]
    rw [List.pairwise_reverse]
    exact h
  · simpa [SortedDir, dir] using h

theorem sorted_iterKeys (c : Cfg K V) (ho : StrictTotal c.lt) (s : St K V) (lo hi : Option K)
    (asc : Bool) : SortedDir c.lt asc (s.iterKeys c lo hi asc) := by
  rw [iterKeys_eq]
  exact sortedDir_dir c.lt asc _ (sortKeys_sorted c.lt ho.irrefl ho.trans _)

theorem mem_allKeys (s : St K V) (k : K) :
    k ∈ s.allKeys ↔ k ∈ akeys s.tree.working ∨ k ∈ akeys s.cache ∨
      ∃ o, s.sess = some o ∧ k ∈ akeys o := by
  unfold St.allKeys
  cases s.sess with
  | none => simp
  | some o => simp

/-- a key is visible to a reader iff some layer holds it and no overlay deletes it -/
theorem visible_iff (c : Cfg K V) (s : St K V) (k : K) :
    (view c s k).isSome = true ↔ k ∈ s.allKeys ∧ s.deleted c k = false := by
  rw [mem_allKeys]
  cases hs : s.sess.bind (alookup k) with
  | some v =>
    have hmem : ∃ o, s.sess = some o ∧ k ∈ akeys o := by
      cases ho : s.sess with
      | none => rw [ho] at hs; cases hs
      | some o =>
        rw [ho] at hs
        exact ⟨o, rfl, (mem_akeys_iff_alookup o k).mpr (by simpa using congrArg Option.isSome hs)⟩
    by_cases hv : v = c.tomb <;> simp [view, St.deleted, dec, hs, hv, hmem]
  | none =>
    have hns : ¬ ∃ o, s.sess = some o ∧ k ∈ akeys o := by
      rintro ⟨o, ho, hk⟩
      rw [ho] at hs
      have := (mem_akeys_iff_alookup o k).mp hk
      simp only [Option.bind_some] at hs
      rw [hs] at this; cases this
    cases hc : alookup k s.cache with
    | some v =>
      have hmem : k ∈ akeys s.cache := (mem_akeys_iff_alookup _ k).mpr (by rw [hc]; rfl)
      by_cases hv : v = c.tomb <;> simp [view, blockView, St.deleted, dec, hs, hc, hv, hmem]
    | none =>
      have hnc : k ∉ akeys s.cache := fun h => by
        have := (mem_akeys_iff_alookup _ k).mp h
        rw [hc] at this; cases this
      simp only [view, blockView, St.deleted, hs, hc, Tree.get, hns, hnc, or_false, and_true]
      exact (mem_akeys_iff_alookup _ k).symm

theorem not_deleted_eq_visible (c : Cfg K V) (s : St K V) (lo hi : Option K) (asc : Bool) (k : K)
    (hk : k ∈ s.iterKeys c lo hi asc) : (!s.deleted c k) = (view c s k).isSome := by
  have hall := ((mem_iterKeys c s lo hi asc k).mp hk).1
  have h := visible_iff c s k
  cases hd : s.deleted c k with
  | true =>
    cases hv : (view c s k).isSome with
    | false => rfl
    | true => rw [hd] at h; exact absurd (h.mp hv).2 (by simp)
  | false =>
    rw [hd] at h
    rw [h.mpr ⟨hall, rfl⟩]; rfl

theorem listed_iterKeys (c : Cfg K V) (s : St K V) (lo hi : Option K) (asc : Bool) :
    listed c s (s.iterKeys c lo hi asc) =
      (visKeys c s lo hi asc).map (fun k => (k, view c s k)) := by
  unfold listed visKeys
  rw [List.filter_congr (fun k hk => not_deleted_eq_visible c s lo hi asc k hk)]

theorem map_fst_pairs (f : K → Option V) (ks : List K) :
    (ks.map (fun k => (k, f k))).map Prod.fst = ks := by
  induction ks with
  | nil => rfl
  | cons a t ih => simp [ih]

theorem mem_visKeys (c : Cfg K V) (s : St K V) (lo hi : Option K) (asc : Bool) (k : K) :
    k ∈ visKeys c s lo hi asc ↔ inRange c lo hi k = true ∧ (view c s k).isSome = true := by
  unfold visKeys
  rw [List.mem_filter, mem_iterKeys]
  constructor
  · rintro ⟨⟨_, hr⟩, hv⟩; exact ⟨hr, hv⟩
  · rintro ⟨hr, hv⟩; exact ⟨⟨((visible_iff c s k).mp hv).1, hr⟩, hv⟩

theorem nodup_visKeys (c : Cfg K V) (s : St K V) (lo hi : Option K) (asc : Bool) :
    (visKeys c s lo hi asc).Nodup :=
  List.Nodup.sublist List.filter_sublist (nodup_iterKeys c s lo hi asc)

theorem sorted_visKeys (c : Cfg K V) (ho : StrictTotal c.lt) (s : St K V) (lo hi : Option K)
    (asc : Bool) : SortedDir c.lt asc (visKeys c s lo hi asc) :=
  List.Pairwise.filter _ (sorted_iterKeys c ho s lo hi asc)

/-- two sorted lists with the same elements are equal -/
theorem sorted_perm_eq (lt : K → K → Bool) (ho : StrictTotal lt) (l₁ l₂ : List K)
    (h1 : l₁.Pairwise (fun a b => lt b a = false)) (h2 : l₂.Pairwise (fun a b => lt b a = false))
    (hp : l₁.Perm l₂) : l₁ = l₂ := by
  refine List.Perm.eq_of_pairwise (le := fun a b => lt b a = false) ?_ h1 h2 hp
  intro a b _ _ hab hba
  apply Classical.byContradiction
  intro hne
  rcases ho.total a b hne with h | h
  · rw [h] at hba; cases hba
  · rw [h] at hab; cases hab

/-- the visible keys are THE sorted duplicate-free list of the keys in range a reader can see -/
theorem visKeys_unique (c : Cfg K V) (ho : StrictTotal c.lt) (s : St K V) (lo hi : Option K)
    (asc : Bool) (L : List K) (hn : L.Nodup)
    (hL : ∀ k, k ∈ L ↔ inRange c lo hi k = true ∧ (view c s k).isSome = true) :
    visKeys c s lo hi asc = dir asc (sortKeys c.lt L) := by
  unfold visKeys
  rw [iterKeys_eq, filter_dir]
  congr 1
  refine sorted_perm_eq c.lt ho _ _
    (List.Pairwise.filter _ (sortKeys_sorted c.lt ho.irrefl ho.trans _))
    (sortKeys_sorted c.lt ho.irrefl ho.trans _) ?_
  refine ((sortKeys_perm c.lt _).filter _).trans (List.Perm.trans ?_ (sortKeys_perm c.lt L).symm)
  rw [List.perm_ext_iff_of_nodup
    (List.Nodup.sublist List.filter_sublist
      (List.Nodup.sublist List.filter_sublist (nodup_eraseDups _))) hn]
  intro k
  rw [hL, List.mem_filter, List.mem_filter, List.mem_eraseDups]
  constructor
  · rintro ⟨⟨_, hr⟩, hv⟩; exact ⟨hr, hv⟩
  · rintro ⟨hr, hv⟩; exact ⟨⟨((visible_iff c s k).mp hv).1, hr⟩, hv⟩

/-- with gas for all the reads (an unmetered state needs none) an iteration lists exactly the
    visible keys of the range, each with the value of the view -/
theorem iterAll_enough_gas_visible (c : Cfg K V) (s : St K V) (lo hi : Option K) (asc : Bool)
    (h : s.metered = true → s.gas.consumed + iterCost c s (s.iterKeys c lo hi asc) ≤ s.gas.limit) :
    s.iterAll c lo hi asc =
      (s.addGas (iterCost c s (s.iterKeys c lo hi asc)),
       (visKeys c s lo hi asc).map (fun k => (k, view c s k))) := by
  rw [iterAll_eq_foldl, iter_foldl_enough_gas c _ s [] h, listed_iterKeys]
  simp

/-- a listed pair belongs to a visible key -/
theorem iterAll_listed_visible (c : Cfg K V) (s : St K V) (lo hi : Option K) (asc : Bool)
    (p : K × Option V) (hp : p ∈ (s.iterAll c lo hi asc).2) :
    p.2 = view c s p.1 ∧ p.1 ∈ visKeys c s lo hi asc := by
  have h := (iterAll_sublist c s lo hi asc).subset hp
  rw [listed_iterKeys] at h
  obtain ⟨k, hk, rfl⟩ := List.mem_map.mp h
  exact ⟨rfl, hk⟩

/-- a visible key of the range is listed, unless its read is refused -/
theorem iterAll_visible_listed (c : Cfg K V) (s : St K V) (lo hi : Option K) (asc : Bool) (k : K)
    (hr : inRange c lo hi k = true) (hv : (view c s k).isSome = true) :
    (k, view c s k) ∈ (s.iterAll c lo hi asc).2 ∨
    (s.metered = true ∧ s.gas.limit ≤ (s.iterAll c lo hi asc).1.gas.consumed ∧
      s.sess.bind (alookup k) = none) := by
  by_cases hm : (k, view c s k) ∈ (s.iterAll c lo hi asc).2
  · exact Or.inl hm
  · have hvis := (visible_iff c s k).mp hv
    exact Or.inr (iterAll_missing c s lo hi asc k
      ((mem_iterKeys c s lo hi asc k).mpr ⟨hvis.1, hr⟩) hvis.2 hm)

theorem inRange_iff (c : Cfg K V) (lo hi : Option K) (k : K) :
    inRange c lo hi k = true ↔
      (∀ l, lo = some l → c.lt k l = false) ∧ (∀ h, hi = some h → c.lt k h = true) := by
  unfold inRange
  cases lo <;> cases hi <;> simp

/-! ### `iterAll` and `iter` -/

theorem eraseDups_of_nodup : ∀ (l : List K), l.Nodup → l.eraseDups = l
  | [], _ => by simp
  | a :: as, h => by
    have h' := List.nodup_cons.mp h
    have hf : as.filter (fun b => !b == a) = as := by
      rw [List.filter_eq_self]
      intro b hb
      have : b ≠ a := fun e => h'.1 (e ▸ hb)
      simp [this]
    rw [List.eraseDups_cons, hf, eraseDups_of_nodup as h'.2]

theorem iterKeys_nothing_pending (c : Cfg K V) (s : St K V) (hc : s.cache = []) (hs : s.sess = none)
    (hn : (akeys s.tree.working).Nodup) (lo hi : Option K) (asc : Bool) :
    s.iterKeys c lo hi asc = s.tree.rangeKeys c lo hi asc := by
  have ha : s.allKeys = akeys s.tree.working := by
    simp [St.allKeys, hc, hs, akeys]
  rw [iterKeys_eq, ha, eraseDups_of_nodup _ hn]
  rfl

theorem iterAll_eq_iter_nothing_pending (c : Cfg K V) (s : St K V) (hc : s.cache = [])
    (hs : s.sess = none) (hn : (akeys s.tree.working).Nodup) (lo hi : Option K) (asc : Bool) :
    s.iterAll c lo hi asc = s.iter c lo hi asc := by
  rw [iterAll_eq_foldl, iter_eq_foldl, iterKeys_nothing_pending c s hc hs hn]

theorem rangeKeys_subset_iterKeys (c : Cfg K V) (s : St K V) (lo hi : Option K) (asc : Bool) (k : K)
    (hk : k ∈ s.tree.rangeKeys c lo hi asc) : k ∈ s.iterKeys c lo hi asc := by
  have h := (mem_rangeKeys c s.tree lo hi asc k).mp hk
  rw [mem_iterKeys, inRange_iff, mem_allKeys]
  exact ⟨Or.inl h.1, h.2⟩

/-- what `iter` lists `iterAll` lists too, unless the meter refuses it there -/
theorem iter_listed_iterAll (c : Cfg K V) (s : St K V) (lo hi : Option K) (asc : Bool)
    (p : K × Option V) (hp : p ∈ (s.iter c lo hi asc).2) :
    p ∈ (s.iterAll c lo hi asc).2 ∨
    (s.metered = true ∧ s.gas.limit ≤ (s.iterAll c lo hi asc).1.gas.consumed ∧
      s.sess.bind (alookup p.1) = none) := by
  have h := (mem_listed_iff c s _ p).mp ((iter_sublist c s lo hi asc).subset hp)
  have hk := rangeKeys_subset_iterKeys c s lo hi asc p.1 h.1
  by_cases hm : (p.1, view c s p.1) ∈ (s.iterAll c lo hi asc).2
  · left
    have : p = (p.1, view c s p.1) := by rw [← h.2.2]
    rw [this]; exact hm
  · exact Or.inr (iterAll_missing c s lo hi asc p.1 hk h.2.1 hm)

/-! ### trees hold no key twice -/

theorem akeys_aerase (l : List (K × V)) (k : K) : (akeys (aerase l k)).Sublist (akeys l) := by
  induction l with
  | nil => exact List.Sublist.refl _
  | cons hd t ih =>
    obtain ⟨k', v'⟩ := hd
    unfold aerase
    split
    · exact ih.cons _
    · exact ih.cons_cons _

theorem set_keysNodup (t : Tree K V) (k : K) (v : V) (h : t.KeysNodup) : (t.set k v).KeysNodup :=
  ⟨nodup_akeys_upsert _ _ _ h.1, h.2⟩

theorem remove_keysNodup (t : Tree K V) (k : K) (h : t.KeysNodup) : (t.remove k).KeysNodup :=
  ⟨List.Nodup.sublist (akeys_aerase _ _) h.1, h.2⟩

theorem writeInto_keysNodup (c : Cfg K V) (cache : List (K × V)) (t : Tree K V)
    (h : t.KeysNodup) : (writeInto c t cache).KeysNodup := by
  induction cache generalizing t with
  | nil => exact h
  | cons p tl ih =>
    simp only [writeInto, List.foldl_cons]
    have := ih (if p.2 = c.tomb then t.remove p.1 else t.set p.1 p.2)
      (by split
          · exact remove_keysNodup t _ h
          · exact set_keysNodup t _ _ h)
    simpa only [writeInto] using this

theorem deleteVersion_keysNodup (t : Tree K V) (rel : Int) (h : t.KeysNodup) :
    (t.deleteVersion rel).KeysNodup := by
  have hf := deleteVersion_fields t rel
  unfold Tree.KeysNodup
  rw [hf.1]
  refine ⟨h.1, ?_⟩
  rcases deleteVersion_versions t rel with hv | ⟨_, hv⟩ <;> rw [hv]
  · exact h.2
  · intro p hp; exact h.2 p (List.mem_filter.mp hp).1

theorem saved_keysNodup (t : Tree K V) (h : t.KeysNodup) : t.saved.KeysNodup := by
  refine ⟨h.1, ?_⟩
  intro p hp
  simp only [Tree.saved, List.mem_append, List.mem_singleton] at hp
  rcases hp with hp | rfl
  · exact h.2 p hp
  · exact h.1

theorem commit_keysNodup (t : Tree K V) (h : t.KeysNodup) : t.commit.KeysNodup := by
  have hs := saved_keysNodup t h
  rcases commit_cases t with e | ⟨r, e⟩ | ⟨r1, r2, e⟩ <;> rw [e]
  · exact hs
  · exact deleteVersion_keysNodup _ _ hs
  · exact deleteVersion_keysNodup _ _ (deleteVersion_keysNodup _ _ hs)

theorem reopen_keysNodup (t : Tree K V) (h : t.KeysNodup) : t.reopen.KeysNodup := by
  unfold Tree.reopen
  simp only []
  split
  · next p hp => exact ⟨h.2 p (List.mem_of_find?_eq_some hp), h.2⟩
  · exact ⟨by simp [akeys], h.2⟩

theorem step_keysNodup (c : Cfg K V) (s : St K V) (h : s.tree.KeysNodup) (op : Op K V) :
    (step c s op).1.tree.KeysNodup := by
  cases op with
  | newState l => cases l <;> exact h
  | set k v =>
    show (s.set c k v).1.tree.KeysNodup
    rw [(set_data c s k v).1]; exact h
  | del k =>
    show (s.del c k).tree.KeysNodup
    rw [(del_data c s k).1]; exact h
  | get k => rw [(step_read_gasOnly c s (.get k) rfl).1]; exact h
  | has k => rw [(step_read_gasOnly c s (.has k) rfl).1]; exact h
  | iter lo hi asc => rw [(step_read_gasOnly c s (.iter lo hi asc) rfl).1]; exact h
  | iterAll lo hi asc => rw [(step_read_gasOnly c s (.iterAll lo hi asc) rfl).1]; exact h
  | begin => exact h
  | csess =>
    cases hs : s.sess with
    | none => rw [step_csess_none c s hs]; exact h
    | some o => rw [step_csess_some c s o hs]; exact h
  | dsess => exact h
  | write => exact writeInto_keysNodup c s.cache s.tree h
  | commit => exact commit_keysNodup _ (writeInto_keysNodup c s.cache s.tree h)
  | reopen => exact reopen_keysNodup s.tree h
  | getv ver k => exact h
  | gas => exact h

end OLP.KV

/-
  Layer K — model of the store stack of `storage/`:
    * `sessionCache` / `cacheSession`  (storage/session_cache.go)  = `List (K × V)` in first-write order
    * `GasStore` + `gasCalculator`     (storage/gas.go)
    * `State`                          (storage/state.go)
    * `ChainState` over IAVL           (storage/chainstate.go): working map, retained versions,
      rotation, and the *write log* (every Set/Remove/SaveVersion call on the tree, in order).
  The IAVL root hash is not modelled; it is taken to be a function of the write log
  (validated on every run by replaying the model's log into a fresh IAVL tree).

  Statement-by-statement port; comments name the Go function mirrored.
  Core-only: linked into the driver executable.
-/
import OLP.Base.Assoc

namespace OLP.KV

/-- static parameters of the store: the TOMBSTONE value, byte length of a value,
    byte order on keys (IAVL iteration order) -/
structure Cfg (K V : Type) where
  tomb : V
  vlen : V → Nat
  lt   : K → K → Bool

inductive TreeOp (K V : Type) where
  | set (k : K) (v : V)
  | remove (k : K)
  | save
  deriving Repr, DecidableEq

/-- `ChainStateRotationSetting` -/
structure Rot where
  recent : Nat
  every  : Nat
  cycles : Nat
  deriving Repr, DecidableEq

/-- `ChainState` + the IAVL `MutableTree` it owns -/
structure Tree (K V : Type) where
  working  : List (K × V)                 -- the mutable working tree (`Delivered`)
  versions : List (Nat × List (K × V))    -- saved versions still retained, oldest first
  version  : Nat                          -- latest saved version (`Delivered.Version()`)
  log      : List (TreeOp K V)            -- every mutating call so far, oldest first
  rot      : Rot
  deriving Repr

/-- `gasCalculator` (per block; shared by pointer between `State` and its `GasStore`) -/
structure Gas where
  limit    : Int
  consumed : Int
  deriving Repr, DecidableEq

/-- `storage.State` -/
structure St (K V : Type) where
  sess    : Option (List (K × V))   -- `txSession` (a `cacheSession`), `none` = nil
  cache   : List (K × V)            -- the block cache (`sessionCache`)
  metered : Bool                    -- `cache` is wrapped in a `GasStore`
  gas     : Gas
  tree    : Tree K V
  deriving Repr

variable {K V : Type} [DecidableEq K] [DecidableEq V]

/-! ### gasCalculator -/

/-- `Consume(amount, category, allowOverflow = false)`: refuses once `consumed ≥ limit` -/
def Gas.consumeStrict (g : Gas) (cost : Int) : Option Gas :=
  if g.consumed ≥ g.limit then none else some { g with consumed := g.consumed + cost }

/-- `Consume(amount, category, allowOverflow = true)` -/
def Gas.consumeAlways (g : Gas) (cost : Int) : Gas := { g with consumed := g.consumed + cost }

/-! ### the tree -/

def Tree.empty (rot : Rot) : Tree K V :=
  { working := [], versions := [], version := 0, log := [], rot := rot }

/-- `ChainState.Set` -/
def Tree.set (t : Tree K V) (k : K) (v : V) : Tree K V :=
  { t with working := upsert t.working k v, log := t.log ++ [.set k v] }

/-- `ChainState.Delete` (error for an absent key is ignored by `State.Write`) -/
def Tree.remove (t : Tree K V) (k : K) : Tree K V :=
  { t with working := aerase t.working k, log := t.log ++ [.remove k] }

def Tree.get (t : Tree K V) (k : K) : Option V := alookup k t.working
def Tree.has (t : Tree K V) (k : K) : Bool := (alookup k t.working).isSome

/-- IAVL `DeleteVersion`: refuses version ≤ 0, the latest version and versions it does not have -/
def Tree.deleteVersion (t : Tree K V) (rel : Int) : Tree K V :=
  if rel ≤ 0 then t
  else if rel = (t.version : Int) then t
  else { t with versions := t.versions.filter (fun p => (p.1 : Int) ≠ rel) }

/-- `ChainState.Commit`: `SaveVersion` then the rotation arithmetic -/
def Tree.commit (t : Tree K V) : Tree K V :=
  let last : Int := t.version
  let v := t.version + 1
  let t1 : Tree K V :=
    { t with versions := t.versions ++ [(v, t.working)], version := v, log := t.log ++ [.save] }
  let release : Int := last - (t.rot.recent : Int)
  if release > 0 then
    let every : Int := t.rot.every
    let cycles : Int := t.rot.cycles
    let t2 := if every = 0 || release % every ≠ 0 then t1.deleteVersion release else t1
    if cycles ≠ 0 && every ≠ 0 && release % every = 0 then
      t2.deleteVersion (release - cycles * every)
    else t2
  else t1

/-- IAVL `GetVersioned`: nil when the version is not retained -/
def Tree.getVersioned (t : Tree K V) (ver : Int) (k : K) : Option V :=
  match t.versions.find? (fun p => (p.1 : Int) = ver) with
  | some p => alookup k p.2
  | none => none

/-- length of the prefix of a log that ends with its last `save` (0 if none) -/
def savedPrefixLen : List (TreeOp K V) → Nat
  | [] => 0
  | op :: t =>
    let n := savedPrefixLen t
    if n > 0 then n + 1 else (match op with | .save => 1 | _ => 0)

/-- `NewChainState(name, db)` on an existing database: `tree.Load()` = latest saved version -/
def Tree.reopen (t : Tree K V) : Tree K V :=
  let lg := t.log.take (savedPrefixLen t.log)   -- unsaved working-tree changes are lost
  match t.versions.find? (fun p => p.1 = t.version) with
  | some p => { t with working := p.2, log := lg }
  | none => { t with working := [], log := lg }

/-- insertion sort by the byte order (iteration order of IAVL) -/
def insertKey (lt : K → K → Bool) (k : K) : List K → List K
  | [] => [k]
  | h :: t => if lt k h then k :: h :: t else h :: insertKey lt k t

def sortKeys (lt : K → K → Bool) (l : List K) : List K := l.foldr (insertKey lt) []

/-- keys of the working tree in `[lo, hi)` (`none` = unbounded), ascending or descending -/
def Tree.rangeKeys (c : Cfg K V) (t : Tree K V) (lo hi : Option K) (asc : Bool) : List K :=
  let inR (k : K) : Bool :=
    (match lo with | none => true | some l => !c.lt k l) &&
    (match hi with | none => true | some h => c.lt k h)
  let ks := sortKeys c.lt ((akeys t.working).filter inR)
  if asc then ks else ks.reverse

/-! ### State -/

/-- `NewState(cs)` -/
def St.new (t : Tree K V) : St K V :=
  { sess := none, cache := [], metered := false, gas := ⟨0, 0⟩, tree := t }

/-- `NewState(cs).WithGas(NewGasCalculator(limit))` -/
def St.newGas (t : Tree K V) (limit : Int) : St K V :=
  { sess := none, cache := [], metered := true, gas := ⟨limit, 0⟩, tree := t }

/-- result of a read: a value (or absence), or `ErrExceedGasLimit` -/
inductive GetRes (V : Type) where
  | val (v : Option V)
  | errGas
  deriving Repr, DecidableEq

/-- `s.cache.Get`: `GasStore.Get` when metered, else `sessionCache.Get`.
    `.val none` = not found, `.errGas` = the meter refused the read -/
def St.cacheGet (c : Cfg K V) (s : St K V) (k : K) : St K V × GetRes V :=
  if s.metered then
    match s.gas.consumeStrict 20 with
    | none => (s, .errGas)
    | some g =>
      match alookup k s.cache with
      | none => ({ s with gas := g }, .val none)
      | some v => ({ s with gas := g.consumeAlways ((c.vlen v : Int) * 2) }, .val (some v))
  else (s, .val (alookup k s.cache))

/-- `State.deleted`: a pending delete in the session or (unmetered) in the block cache -/
def St.deleted (c : Cfg K V) (s : St K V) (k : K) : Bool :=
  match s.sess.bind (alookup k) with
  | some v => v = c.tomb
  | none =>
    match alookup k s.cache with
    | some v => v = c.tomb
    | none => false

/-- `State.Get`: session, then block cache, then the tree; a key deleted in an overlay
    reads as absent (`nil, nil`); a read the meter refused is an error: only a real miss of the
    cache goes on to the tree (/repo: "reads after the block gas is used up fail") -/
def St.get (c : Cfg K V) (s : St K V) (k : K) : St K V × GetRes V :=
  match s.sess.bind (alookup k) with
  | some v => (s, .val (if v = c.tomb then none else some v))
  | none =>
    match s.cacheGet c k with
    | (s', .val (some v)) => (s', .val (if v = c.tomb then none else some v))
    | (s', .val none) => (s', .val (s'.tree.get k))
    | (s', .errGas) => (s', .errGas)

/-- `s.cache.Exists` -/
def St.cacheHas (s : St K V) (k : K) : St K V × Bool :=
  if s.metered then
    match s.gas.consumeStrict 20 with
    | none => (s, false)
    | some g => ({ s with gas := g }, (alookup k s.cache).isSome)
  else (s, (alookup k s.cache).isSome)

/-- `State.Exists` -/
def St.has (c : Cfg K V) (s : St K V) (k : K) : St K V × Bool :=
  if (s.sess.bind (alookup k)).isSome then (s, !s.deleted c k)
  else
    match s.cacheHas k with
    | (s', true) => (s', !s'.deleted c k)
    | (s', false) =>
      -- the metered cache also answers `false` when the meter refuses: the cache is looked at
      -- once more without the meter before the tree is asked
      if (alookup k s'.cache).isSome then (s', !s'.deleted c k) else (s', s'.tree.has k)

/-- result of `State.Set` -/
inductive SetRes where
  | ok
  | errGas        -- `ErrExceedGasLimit`
  | errReserved   -- `ErrReservedValue`: the TOMBSTONE marker cannot be stored as a value
  deriving DecidableEq, Repr

/-- `State.Set` -/
def St.set (c : Cfg K V) (s : St K V) (k : K) (v : V) : St K V × SetRes :=
  if v = c.tomb then (s, .errReserved)
  else
  match s.sess with
  | some o => ({ s with sess := some (upsert o k v) }, .ok)
  | none =>
    if s.metered then
      match s.gas.consumeStrict 200 with
      | none => (s, .errGas)
      | some g =>
        ({ s with cache := upsert s.cache k v,
                  gas := g.consumeAlways ((c.vlen v : Int) * 20) }, .ok)
    else ({ s with cache := upsert s.cache k v }, .ok)

/-- `State.Delete` (always reports success) -/
def St.del (c : Cfg K V) (s : St K V) (k : K) : St K V :=
  match s.sess with
  | some o => { s with sess := some (upsert o k c.tomb) }
  | none =>
    if s.metered then
      match s.gas.consumeStrict 50 with
      | none => s
      | some g => { s with cache := upsert s.cache k c.tomb, gas := g }
    else { s with cache := upsert s.cache k c.tomb }

/-- `State.BeginTxSession` (an open session is silently replaced) -/
def St.begin (s : St K V) : St K V := { s with sess := some [] }

/-- `cacheSession.Commit`: replay in first-write order into the parent `sessionCache`
    (the parent is the bare cache, never the `GasStore`) -/
def commitInto (cache o : List (K × V)) : List (K × V) :=
  o.foldl (fun acc p => upsert acc p.1 p.2) cache

/-- `State.CommitTxSession`; `none` = panic "no tx session in state" -/
def St.csess (s : St K V) : Option (St K V) :=
  match s.sess with
  | none => none
  | some o => some { s with cache := commitInto s.cache o, sess := none }

/-- `State.DiscardTxSession` -/
def St.dsess (s : St K V) : St K V := { s with sess := none }

/-- `State.Write`: replay the block cache into the tree, tombstones become removals;
    the cache itself is kept -/
def writeInto (c : Cfg K V) (t : Tree K V) (cache : List (K × V)) : Tree K V :=
  cache.foldl (fun t p => if p.2 = c.tomb then t.remove p.1 else t.set p.1 p.2) t

def St.write (c : Cfg K V) (s : St K V) : St K V := { s with tree := writeInto c s.tree s.cache }

/-- `State.Commit`: `Write`, fresh *unmetered* cache, no session, `ChainState.Commit` -/
def St.commit (c : Cfg K V) (s : St K V) : St K V :=
  { s with tree := (writeInto c s.tree s.cache).commit, cache := [], metered := false, sess := none }

/-- `State.IterateRange` (and `Iterate` with no bounds): keys come from the tree only,
    values are read through `State.Get`, keys with a pending delete are skipped -/
def St.iter (c : Cfg K V) (s : St K V) (lo hi : Option K) (asc : Bool) : St K V × List (K × Option V) :=
  (s.tree.rangeKeys c lo hi asc).foldl
    (fun (acc : St K V × List (K × Option V)) k =>
      if acc.1.deleted c k then acc
      else
        match acc.1.get c k with
        | (s', .val v) => (s', acc.2 ++ [(k, v)])
        | (s', .errGas) => (s', acc.2))      -- `if err != nil { continue }`
    (s, [])

/-- the keys `State.IterateRangeAll` visits: the keys of the working tree, of the block cache and
    of the open session that lie in `[lo, hi)`, each once, in iteration order (`withPendingKeys`:
    the tree's keys plus the pending ones, re-sorted) -/
def St.iterKeys (c : Cfg K V) (s : St K V) (lo hi : Option K) (asc : Bool) : List K :=
  let inR (k : K) : Bool :=
    (match lo with | none => true | some l => !c.lt k l) &&
    (match hi with | none => true | some h => c.lt k h)
  let all := (akeys s.tree.working ++ akeys s.cache ++
    (match s.sess with | some o => akeys o | none => [])).eraseDups
  let ks := sortKeys c.lt (all.filter inR)
  if asc then ks else ks.reverse

/-- `State.IterateRangeAll`: like `IterateRange`, but the keys are those of the tree AND those
    pending in the block cache or the session (an iteration that visits what `Get` would find);
    values are read through `State.Get`, keys with a pending delete are skipped, a refused read
    skips the key -/
def St.iterAll (c : Cfg K V) (s : St K V) (lo hi : Option K) (asc : Bool) : St K V × List (K × Option V) :=
  (s.iterKeys c lo hi asc).foldl
    (fun (acc : St K V × List (K × Option V)) k =>
      if acc.1.deleted c k then acc
      else
        match acc.1.get c k with
        | (s', .val v) => (s', acc.2 ++ [(k, v)])
        | (s', .errGas) => (s', acc.2))      -- `if err != nil { continue }`
    (s, [])

/-! ### operations and outputs (the line protocol of the `kv` engine) -/

inductive Op (K V : Type) where
  | newState (limit : Option Int)   -- fresh `State` over the same ChainState (BeginBlock / Commit)
  | set (k : K) (v : V)
  | del (k : K)
  | get (k : K)
  | has (k : K)
  | iter (lo hi : Option K) (asc : Bool)
  | iterAll (lo hi : Option K) (asc : Bool)   -- `IterateRangeAll`
  | begin
  | csess
  | dsess
  | write
  | commit
  | reopen
  | getv (ver : Int) (k : K)
  | gas
  deriving Repr

inductive Out (K V : Type) where
  | ok
  | errGas
  | errReserved
  | panic
  | val (v : Option V)
  | bool (b : Bool)
  | list (l : List (K × Option V))
  | committed (ver : Nat) (logDelta : List (TreeOp K V))
  | gas (consumed : Int)
  deriving Repr

def step (c : Cfg K V) (s : St K V) : Op K V → St K V × Out K V
  | .newState none => (St.new s.tree, .ok)
  | .newState (some l) => (St.newGas s.tree l, .ok)
  | .set k v =>
    let (s', r) := s.set c k v
    (s', match r with | .ok => .ok | .errGas => .errGas | .errReserved => .errReserved)
  | .del k => (s.del c k, .ok)
  | .get k => let (s', r) := s.get c k; (s', match r with | .val v => .val v | .errGas => .errGas)
  | .has k => let (s', b) := s.has c k; (s', .bool b)
  | .iter lo hi asc => let (s', l) := s.iter c lo hi asc; (s', .list l)
  | .iterAll lo hi asc => let (s', l) := s.iterAll c lo hi asc; (s', .list l)
  | .begin => (s.begin, .ok)
  | .csess => match s.csess with | some s' => (s', .ok) | none => (s, .panic)
  | .dsess => (s.dsess, .ok)
  | .write => (s.write c, .ok)
  | .commit =>
    let s' := s.commit c
    (s', .committed s'.tree.version (s'.tree.log.drop (savedPrefixLen s.tree.log)))
  | .reopen => (St.new s.tree.reopen, .ok)
  | .getv ver k => (s, .val (s.tree.getVersioned ver k))
  | .gas => (s, .gas s.gas.consumed)

def run (c : Cfg K V) (s : St K V) : List (Op K V) → St K V × List (Out K V)
  | [] => (s, [])
  | op :: ops =>
    let (s1, o) := step c s op
    let (s2, os) := run c s1 ops
    (s2, o :: os)

end OLP.KV

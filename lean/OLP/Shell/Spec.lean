/-
  Layer S — definitions used by the shell property theorems (C01, C05, C06, C07, C08):
  side conditions on handler programs, call sequences, the consensus-visible part of a node.
-/
import OLP.Shell.Model

namespace OLP.Shell
open OLP OLP.KV

variable {K V C E α T H D : Type} [DecidableEq K] [DecidableEq V] [DecidableEq C] [DecidableEq H]

/-! ### gas-shift invariance (the carve-out of C06: "the block's running gas total is the only
    thing a failed transaction may advance") -/

/-- `s'` is `s` with `d` more gas consumed -/
def ShiftSt (d : Int) (s s' : St K V) : Prop :=
  s' = { s with gas := { s.gas with consumed := s.gas.consumed + d } }

def ShiftOv (d : Int) (o o' : Ov K V) : Prop :=
  o' = { o with gas := { o.gas with consumed := o.gas.consumed + d } }

/-- a program whose result, writes and volatile effects do not depend on the level of the gas
    counter (it may advance it, by the same amount either way) -/
def GasShiftInv (cfg : Cfg K V) (p : Prog K V C E α) : Prop :=
  ∀ (d : Int) (s s' : St K V) (m : Vol C V) (e : E), ShiftSt d s s' →
    (p.run cfg s' m e).1 = (p.run cfg s m e).1 ∧
    ShiftSt d (p.run cfg s m e).2.1 (p.run cfg s' m e).2.1 ∧
    (p.run cfg s' m e).2.2 = (p.run cfg s m e).2.2

/-- the handlers of every transaction are gas-shift invariant; the fee step is handed the start
    level and must be invariant when both are shifted together -/
structure GasBlind (cfg : Cfg K V) (hs : Handlers K V C E T H D) : Prop where
  validate : ∀ tx, GasShiftInv cfg (hs.validate tx)
  deliver : ∀ tx, GasShiftInv cfg (hs.deliver tx)
  fee : ∀ tx (g d : Int) (s s' : St K V) (m : Vol C V) (e : E), ShiftSt d s s' →
    ((hs.fee tx (g + d)).run cfg s' m e).1 = ((hs.fee tx g).run cfg s m e).1 ∧
    ShiftSt d ((hs.fee tx g).run cfg s m e).2.1 ((hs.fee tx (g + d)).run cfg s' m e).2.1 ∧
    ((hs.fee tx (g + d)).run cfg s' m e).2.2 = ((hs.fee tx g).run cfg s m e).2.2
  /-- … and whether the meter is exhausted when the fee step ends (the test `txDeliverer` makes
      before it commits the session) does not depend on the level either -/
  out : ∀ tx (g d : Int) (s s' : St K V) (m : Vol C V) (e : E), ShiftSt d s s' →
    gasOut ((hs.fee tx (g + d)).run cfg s' m e).2.1.gas = gasOut ((hs.fee tx g).run cfg s m e).2.1.gas

/-- no deliver-path program writes a volatile cell (T3 table `volatileWrites`) -/
def DeliverNoVset (hs : Handlers K V C E T H D) : Prop :=
  ∀ tx, (hs.validate tx).NoVset ∧ (hs.deliver tx).NoVset ∧ ∀ g, (hs.fee tx g).NoVset

/-- no mempool-path program writes a volatile cell -/
def CheckNoVset (hs : Handlers K V C E T H D) : Prop :=
  ∀ tx, (hs.validate tx).NoVset ∧ (hs.check tx).NoVset ∧ ∀ g, (hs.fee tx g).NoVset

/-- every block hook re-aims the stores it uses at the deliver state (T3 table `hookReads`) -/
def AllAimed (hs : Handlers K V C E T H D) : Prop :=
  ∀ h, (∀ hk ∈ hs.begin h, hk.1 = true) ∧ (∀ hk ∈ hs.endb h, hk.1 = true)

/-- no program of the application consults the node-local environment (T3 table `envUses`) -/
def AllEnvFree (hs : Handlers K V C E T H D) : Prop :=
  (∀ tx, (hs.validate tx).EnvFree ∧ (hs.check tx).EnvFree ∧ (hs.deliver tx).EnvFree ∧
         ∀ g, (hs.fee tx g).EnvFree) ∧
  (∀ h, (∀ hk ∈ hs.begin h, hk.2.EnvFree) ∧ (∀ hk ∈ hs.endb h, hk.2.EnvFree))

/-! ### call sequences (for interleavings of CheckTx with the consensus calls) -/

inductive Call (T : Type) where
  | begin
  | deliver (tx : T)
  | endb
  | commit (txs : List T)        -- Commit, after which Tendermint indexes the block's txs
  | check (tx : T)

def Call.isCheck : Call T → Bool
  | .check _ => true
  | _ => false

/-- what a call returns to Tendermint, as far as consensus is concerned -/
inductive CallOut (K V D : Type) where
  | none
  | tx (r : TxRes D)
  | committed (log : List (TreeOp K V))
  | checked (ok : Bool)

def CallOut.isChecked : CallOut K V D → Bool
  | .checked _ => true
  | _ => false

/-- the running list of the block's results is kept by the caller (Tendermint); here the index
    is fed at commit from the results observed since the last `begin` -/
structure Run (K V C T H D : Type) where
  node    : Node K V C T H D
  pending : List (H × TxRes D)

def stepCall (cfg : Cfg K V) (hs : Handlers K V C E T H D) (e : E) (r : Run K V C T H D) :
    Call T → Run K V C T H D × CallOut K V D
  | .begin => ({ node := beginBlock cfg hs e r.node, pending := [] }, .none)
  | .deliver tx =>
    let x := deliverTx cfg hs e r.node tx
    ({ node := x.1, pending := r.pending ++ [(hs.hash tx, x.2)] }, .tx x.2)
  | .endb => ({ r with node := endBlock cfg hs e r.node }, .none)
  | .commit _ =>
    let n := commit cfg hs r.node
    ({ node := { n with idx := n.idx ++ r.pending }, pending := [] },
     .committed (n.tree.log.drop r.node.tree.log.length))
  | .check tx =>
    let x := checkTx cfg hs e r.node tx
    ({ r with node := x.1 }, .checked x.2)

def runCalls (cfg : Cfg K V) (hs : Handlers K V C E T H D) (e : E) :
    Run K V C T H D → List (Call T) → Run K V C T H D × List (CallOut K V D)
  | r, [] => (r, [])
  | r, c :: cs =>
    let x := stepCall cfg hs e r c
    let xs := runCalls cfg hs e x.1 cs
    (xs.1, x.2 :: xs.2)

/-- the part of a node that consensus results depend on: everything except the check state and
    the aim of the singletons -/
structure Consensus (K V C H D : Type) where
  tree    : Tree K V
  dlv     : Ov K V
  vol     : Vol C V
  idx     : List (H × TxRes D)
  height  : Nat

def Node.consensus (n : Node K V C T H D) : Consensus K V C H D :=
  { tree := n.tree, dlv := n.dlv, vol := n.vol, idx := n.idx, height := n.height }

/-- a node between two blocks: nothing pending -/
def Node.AtBoundary (n : Node K V C T H D) : Prop :=
  n.dlv.sess = none ∧ n.dlv.cache = [] ∧ n.tree.working = (n.tree.reopen).working ∧
  n.tree.log = n.tree.log.take (savedPrefixLen n.tree.log) ∧ n.height = n.tree.version

end OLP.Shell

namespace OLP.Shell
open OLP OLP.KV
variable {K V C E α T H D : Type} [DecidableEq K] [DecidableEq V] [DecidableEq C] [DecidableEq H]

/-- end-of-block hooks are gas-shift invariant as well -/
def HooksGasBlind (cfg : Cfg K V) (hs : Handlers K V C E T H D) : Prop :=
  ∀ h, ∀ hk ∈ hs.endb h, GasShiftInv cfg hk.2

/-- two nodes that differ only in the level of the deliver state's gas counter (and possibly in
    where the singletons are aimed) -/
def ShiftNode (d : Int) (n n' : Node K V C T H D) : Prop :=
  n'.tree = n.tree ∧ ShiftOv d n.dlv n'.dlv ∧ n'.chk = n.chk ∧ n'.vol = n.vol ∧ n'.idx = n.idx ∧
  n'.height = n.height ∧ n'.closed = n.closed

/-- the transactions of a block that did not fail -/
def survivors (txs : List T) (rs : List (TxRes D)) : List T :=
  ((txs.zip rs).filter (fun p => p.2.ok)).map (·.1)

/-- state of a block in progress: after BeginBlock and the first `k` transactions, optionally
    after EndBlock -/
def midBlock (cfg : Cfg K V) (hs : Handlers K V C E T H D) (e : E) (n : Node K V C T H D)
    (txs : List T) (k : Nat) (ended : Bool) : Node K V C T H D :=
  let n1 := (deliverAll cfg hs e (beginBlock cfg hs e n) (txs.take k)).1
  if ended then endBlock cfg hs e n1 else n1

/-- start-up code recomputes volatile memory from the persisted tree, and the application keeps
    it that way at every block boundary ("derived" cells of DESIGN §6 C08) -/
def VolDerived (cfg : Cfg K V) (boot : Tree K V → Vol C V) (hs : Handlers K V C E T H D) : Prop :=
  ∀ (e : E) (n : Node K V C T H D) (txs : List T), n.AtBoundary → n.vol = boot n.tree →
    (execBlock cfg hs e n txs).1.vol = boot (execBlock cfg hs e n txs).1.tree

end OLP.Shell

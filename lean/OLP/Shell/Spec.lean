/-
  Layer S — definitions used by the shell property theorems (C01, C05, C06, C07, C08):
  side conditions on handler programs, call sequences, the consensus-visible part of a node.
-/
import OLP.Shell.Model

namespace OLP.Shell
open OLP OLP.KV

variable {K V C E α T H D : Type} [DecidableEq K] [DecidableEq V] [DecidableEq C] [DecidableEq H]

/-! ### gas-shift invariance (the carve-out of C06: "the block's running gas total is the only
    thing a failed transaction may advance") -/

/-- `s'` is `s` with `d` more gas consumed -/
def ShiftSt (d : Int) (s s' : St K V) : Prop :=
  s' = { s with gas := { s.gas with consumed := s.gas.consumed + d } }

def ShiftOv (d : Int) (o o' : Ov K V) : Prop :=
  o' = { o with gas := { o.gas with consumed := o.gas.consumed + d } }

/-- a program whose result, writes and volatile effects do not depend on the level of the gas
    counter (it may advance it, by the same amount either way), AT ANY LEVEL, the limit included.
    Only programs that never touch a metered store meet this when the limit is finite; the notion
    real handlers meet, and the one the theorems of C06 use, is `RoomShiftInv` below. -/
def GasShiftInv (cfg : Cfg K V) (p : Prog K V C E α) : Prop :=
  ∀ (d : Int) (s s' : St K V) (m : Vol C V) (e : E), ShiftSt d s s' →
    (p.run cfg s' m e).1 = (p.run cfg s m e).1 ∧
    ShiftSt d (p.run cfg s m e).2.1 (p.run cfg s' m e).2.1 ∧
    (p.run cfg s' m e).2.2 = (p.run cfg s m e).2.2

/-- the handlers of every transaction are gas-shift invariant (at any level: see the remark on
    `GasShiftInv`; superseded by `RoomBlind`); the fee step is handed the start level and must be
    invariant when both are shifted together -/
structure GasBlind (cfg : Cfg K V) (hs : Handlers K V C E T H D) : Prop where
  validate : ∀ tx, GasShiftInv cfg (hs.validate tx)
  deliver : ∀ tx, GasShiftInv cfg (hs.deliver tx)
  fee : ∀ tx (g d : Int) (s s' : St K V) (m : Vol C V) (e : E), ShiftSt d s s' →
    ((hs.fee tx (g + d)).run cfg s' m e).1 = ((hs.fee tx g).run cfg s m e).1 ∧
    ShiftSt d ((hs.fee tx g).run cfg s m e).2.1 ((hs.fee tx (g + d)).run cfg s' m e).2.1 ∧
    ((hs.fee tx (g + d)).run cfg s' m e).2.2 = ((hs.fee tx g).run cfg s m e).2.2
  /-- … and whether the meter is exhausted when the fee step ends (the test `txDeliverer` makes
      before it commits the session) does not depend on the level either -/
  out : ∀ tx (g d : Int) (s s' : St K V) (m : Vol C V) (e : E), ShiftSt d s s' →
    gasOut ((hs.fee tx (g + d)).run cfg s' m e).2.1.gas = gasOut ((hs.fee tx g).run cfg s m e).2.1.gas

/-- no deliver-path program writes a volatile cell (T3 table `volatileWrites`) -/
def DeliverNoVset (hs : Handlers K V C E T H D) : Prop :=
  ∀ tx, (hs.validate tx).NoVset ∧ (hs.deliver tx).NoVset ∧ ∀ g, (hs.fee tx g).NoVset

/-- no mempool-path program writes a volatile cell -/
def CheckNoVset (hs : Handlers K V C E T H D) : Prop :=
  ∀ tx, (hs.validate tx).NoVset ∧ (hs.check tx).NoVset ∧ ∀ g, (hs.fee tx g).NoVset

/-- every block hook re-aims the stores it uses at the deliver state (T3 table `hookReads`) -/
def AllAimed (hs : Handlers K V C E T H D) : Prop :=
  ∀ h, (∀ hk ∈ hs.begin h, hk.1 = true) ∧ (∀ hk ∈ hs.endb h, hk.1 = true)

/-- no program of the application consults the node-local environment (T3 table `envUses`) -/
def AllEnvFree (hs : Handlers K V C E T H D) : Prop :=
  (∀ tx, (hs.validate tx).EnvFree ∧ (hs.check tx).EnvFree ∧ (hs.deliver tx).EnvFree ∧
         ∀ g, (hs.fee tx g).EnvFree) ∧
  (∀ h, (∀ hk ∈ hs.begin h, hk.2.EnvFree) ∧ (∀ hk ∈ hs.endb h, hk.2.EnvFree))

/-! ### call sequences (for interleavings of CheckTx with the consensus calls) -/

inductive Call (T : Type) where
  | begin
  | deliver (tx : T)
  | endb
  | commit (txs : List T)        -- Commit, after which Tendermint indexes the block's txs
  | check (tx : T)

def Call.isCheck : Call T → Bool
  | .check _ => true
  | _ => false

/-- what a call returns to Tendermint, as far as consensus is concerned -/
inductive CallOut (K V D : Type) where
  | none
  | tx (r : TxRes D)
  | committed (log : List (TreeOp K V))
  | checked (ok : Bool)

def CallOut.isChecked : CallOut K V D → Bool
  | .checked _ => true
  | _ => false

/-- the running list of the block's results is kept by the caller (Tendermint); here the index
    is fed at commit from the results observed since the last `begin` -/
structure Run (K V C T H D : Type) where
  node    : Node K V C T H D
  pending : List (H × TxRes D)

def stepCall (cfg : Cfg K V) (hs : Handlers K V C E T H D) (e : E) (r : Run K V C T H D) :
    Call T → Run K V C T H D × CallOut K V D
  | .begin => ({ node := beginBlock cfg hs e r.node, pending := [] }, .none)
  | .deliver tx =>
    let x := deliverTx cfg hs e r.node tx
    ({ node := x.1, pending := r.pending ++ [(hs.hash tx, x.2)] }, .tx x.2)
  | .endb => ({ r with node := endBlock cfg hs e r.node }, .none)
  | .commit _ =>
    let n := commit cfg hs r.node
    ({ node := { n with idx := n.idx ++ r.pending }, pending := [] },
     .committed (n.tree.log.drop r.node.tree.log.length))
  | .check tx =>
    let x := checkTx cfg hs e r.node tx
    ({ r with node := x.1 }, .checked x.2)

def runCalls (cfg : Cfg K V) (hs : Handlers K V C E T H D) (e : E) :
    Run K V C T H D → List (Call T) → Run K V C T H D × List (CallOut K V D)
  | r, [] => (r, [])
  | r, c :: cs =>
    let x := stepCall cfg hs e r c
    let xs := runCalls cfg hs e x.1 cs
    (xs.1, x.2 :: xs.2)

/-- the part of a node that consensus results depend on: everything except the check state and
    the aim of the singletons -/
structure Consensus (K V C H D : Type) where
  tree    : Tree K V
  dlv     : Ov K V
  vol     : Vol C V
  idx     : List (H × TxRes D)
  height  : Nat

def Node.consensus (n : Node K V C T H D) : Consensus K V C H D :=
  { tree := n.tree, dlv := n.dlv, vol := n.vol, idx := n.idx, height := n.height }

/-- a node between two blocks: nothing pending -/
def Node.AtBoundary (n : Node K V C T H D) : Prop :=
  n.dlv.sess = none ∧ n.dlv.cache = [] ∧ n.tree.working = (n.tree.reopen).working ∧
  n.tree.log = n.tree.log.take (savedPrefixLen n.tree.log) ∧ n.height = n.tree.version

end OLP.Shell

namespace OLP.Shell
open OLP OLP.KV
variable {K V C E α T H D : Type} [DecidableEq K] [DecidableEq V] [DecidableEq C] [DecidableEq H]

/-- two nodes that differ only in the level of the deliver state's gas counter (and possibly in
    where the singletons are aimed) -/
def ShiftNode (d : Int) (n n' : Node K V C T H D) : Prop :=
  n'.tree = n.tree ∧ ShiftOv d n.dlv n'.dlv ∧ n'.chk = n.chk ∧ n'.vol = n.vol ∧ n'.idx = n.idx ∧
  n'.height = n.height ∧ n'.closed = n.closed

/-! ### gas-shift invariance *while the meter has room*

  `GasShiftInv` / `GasBlind` above quantify over ALL pairs of states that differ in the level of
  the gas counter, including levels at or beyond the limit. Whether a metered store access is
  served depends on the level there, so no program that touches a metered store satisfies them
  when the limit is finite: they describe unmetered states (and programs without store access)
  only. The notions below are the ones real handlers satisfy: a program is compared on two states
  of which the one with the HIGHER level still ends below the limit. All costs being non-negative,
  no access is refused in either run then. -/

/-- the meter has not reached its limit: the next strict consume is served
    (`gasOut g = false`) -/
def hasRoom (g : Gas) : Prop := g.consumed < g.limit

instance (g : Gas) : Decidable (hasRoom g) := by unfold hasRoom; exact inferInstance

/-- the program never reads the level of the gas counter (no `.gas` node) -/
def Prog.NoGasRead : Prog K V C E α → Prop
  | .ret _ | .fail => True
  | .get _ κ => ∀ x, (κ x).NoGasRead
  | .has _ κ => ∀ x, (κ x).NoGasRead
  | .set _ _ κ => ∀ x, (κ x).NoGasRead
  | .del _ κ => κ.NoGasRead
  | .iter _ _ _ κ => ∀ x, (κ x).NoGasRead
  | .iterAll _ _ _ κ => ∀ x, (κ x).NoGasRead
  | .getv _ _ κ => ∀ x, (κ x).NoGasRead
  | .gas _ => False
  | .burn _ κ => κ.NoGasRead
  | .vget _ κ => ∀ x, (κ x).NoGasRead
  | .vset _ _ κ => κ.NoGasRead
  | .env κ => ∀ x, (κ x).NoGasRead

/-- every `.burn` of the program charges a non-negative amount (all other charges are
    non-negative by construction: flat costs and `cfg.vlen`-proportional costs of layer K) -/
def Prog.BurnNonneg : Prog K V C E α → Prop
  | .ret _ | .fail => True
  | .get _ κ => ∀ x, (κ x).BurnNonneg
  | .has _ κ => ∀ x, (κ x).BurnNonneg
  | .set _ _ κ => ∀ x, (κ x).BurnNonneg
  | .del _ κ => κ.BurnNonneg
  | .iter _ _ _ κ => ∀ x, (κ x).BurnNonneg
  | .iterAll _ _ _ κ => ∀ x, (κ x).BurnNonneg
  | .getv _ _ κ => ∀ x, (κ x).BurnNonneg
  | .gas κ => ∀ x, (κ x).BurnNonneg
  | .burn a κ => 0 ≤ a ∧ κ.BurnNonneg
  | .vget _ κ => ∀ x, (κ x).BurnNonneg
  | .vset _ _ κ => κ.BurnNonneg
  | .env κ => ∀ x, (κ x).BurnNonneg

/-- the program never lowers the gas counter -/
def GasMono (cfg : Cfg K V) (p : Prog K V C E α) : Prop :=
  ∀ (s : St K V) (m : Vol C V) (e : E), s.gas.consumed ≤ (p.run cfg s m e).2.1.gas.consumed

/-- gas-shift invariance with room: run from two states that differ only in the level of the gas
    counter, the higher of which (`s'`, by `d ≥ 0`) still ends below the limit, the program gives
    the same result, the same writes (the end states differ by the same `d`) and the same
    volatile effects -/
def RoomShiftInv (cfg : Cfg K V) (p : Prog K V C E α) : Prop :=
  ∀ (d : Int) (s s' : St K V) (m : Vol C V) (e : E), 0 ≤ d → ShiftSt d s s' →
    hasRoom (p.run cfg s' m e).2.1.gas →
    (p.run cfg s' m e).1 = (p.run cfg s m e).1 ∧
    ShiftSt d (p.run cfg s m e).2.1 (p.run cfg s' m e).2.1 ∧
    (p.run cfg s' m e).2.2 = (p.run cfg s m e).2.2

/-- what the removal theorems of C06 ask of the deliver-path programs: Validate and
    ProcessDeliver are gas-shift invariant with room; the fee step, which is handed the start
    level, is so when both are shifted together; none of them lowers the counter.
    `RoomBlind.of_syntactic` (Shell/LemmasGas) derives all of this from the syntax of the
    programs: no `.gas` node outside the fee step, no negative `.burn`. -/
structure RoomBlind (cfg : Cfg K V) (hs : Handlers K V C E T H D) : Prop where
  validate : ∀ tx, RoomShiftInv cfg (hs.validate tx)
  deliver : ∀ tx, RoomShiftInv cfg (hs.deliver tx)
  fee : ∀ tx (g d : Int) (s s' : St K V) (m : Vol C V) (e : E), 0 ≤ d → ShiftSt d s s' →
    hasRoom ((hs.fee tx (g + d)).run cfg s' m e).2.1.gas →
    ((hs.fee tx (g + d)).run cfg s' m e).1 = ((hs.fee tx g).run cfg s m e).1 ∧
    ShiftSt d ((hs.fee tx g).run cfg s m e).2.1 ((hs.fee tx (g + d)).run cfg s' m e).2.1 ∧
    ((hs.fee tx (g + d)).run cfg s' m e).2.2 = ((hs.fee tx g).run cfg s m e).2.2
  monoV : ∀ tx, GasMono cfg (hs.validate tx)
  monoD : ∀ tx, GasMono cfg (hs.deliver tx)
  monoF : ∀ tx g, GasMono cfg (hs.fee tx g)

/-- the transactions of a block that did not fail -/
def survivors (txs : List T) (rs : List (TxRes D)) : List T :=
  ((txs.zip rs).filter (fun p => p.2.ok)).map (·.1)

/-- state of a block in progress: after BeginBlock and the first `k` transactions, optionally
    after EndBlock -/
def midBlock (cfg : Cfg K V) (hs : Handlers K V C E T H D) (e : E) (n : Node K V C T H D)
    (txs : List T) (k : Nat) (ended : Bool) : Node K V C T H D :=
  let n1 := (deliverAll cfg hs e (beginBlock cfg hs e n) (txs.take k)).1
  if ended then endBlock cfg hs e n1 else n1

/-- the gas meter of the deliver state when the block `txs` has been delivered and EndBlock has
    run (just before Commit). The block hooks run unmetered (`runHook`), so this is the meter
    after the last transaction (`endBlock_gas`): the total of the block's transactions. -/
def blockEndGas (cfg : Cfg K V) (hs : Handlers K V C E T H D) (e : E) (n : Node K V C T H D)
    (txs : List T) : Gas :=
  (endBlock cfg hs e (deliverAll cfg hs e (beginBlock cfg hs e n) txs).1).dlv.gas

/-- start-up code recomputes volatile memory from the persisted tree, and the application keeps
    it that way at every block boundary ("derived" cells of DESIGN §6 C08) -/
def VolDerived (cfg : Cfg K V) (boot : Tree K V → Vol C V) (hs : Handlers K V C E T H D) : Prop :=
  ∀ (e : E) (n : Node K V C T H D) (txs : List T), n.AtBoundary → n.vol = boot n.tree →
    (execBlock cfg hs e n txs).1.vol = boot (execBlock cfg hs e n txs).1.tree

end OLP.Shell

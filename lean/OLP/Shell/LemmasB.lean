/-
  Layer S — helper lemmas for C01, C07 and C08.
-/
import OLP.Shell.Spec
import OLP.KV.Refine

namespace OLP.Shell
open OLP OLP.KV

variable {K V C E α T H D : Type} [DecidableEq K] [DecidableEq V] [DecidableEq C] [DecidableEq H]

end OLP.Shell

/-
  Layer S — helper lemmas for C01, C07 and C08.
-/
import OLP.Shell.Spec
import OLP.KV.Refine

namespace OLP.Shell
open OLP OLP.KV

set_option linter.unusedSectionVars false

variable {K V C E α T H D : Type} [DecidableEq K] [DecidableEq V] [DecidableEq C] [DecidableEq H]

deriving instance DecidableEq for CallOut

/-! ### programs -/

/-- no program operation ever touches the tree -/
theorem run_tree (cfg : Cfg K V) (p : Prog K V C E α) (s : St K V) (m : Vol C V) (e : E) :
    (p.run cfg s m e).2.1.tree = s.tree := by
  induction p generalizing s m with
  | ret a => rfl
  | fail => rfl
  | get k κ ih => exact (ih _ _ _).trans (get_gasOnly cfg s k).1
  | has k κ ih => exact (ih _ _ _).trans (has_gasOnly cfg s k).1
  | set k v κ ih => exact (ih _ _ _).trans (set_data cfg s k v).1
  | del k κ ih => exact (ih _ _).trans (del_data cfg s k).1
  | iter lo hi asc κ ih => exact (ih _ _ _).trans (iter_gasOnly cfg s lo hi asc).1
  | iterAll lo hi asc κ ih => exact (ih _ _ _).trans (iterAll_gasOnly cfg s lo hi asc).1
  | getv ver k κ ih => exact ih _ _ _
  | gas κ ih => exact ih _ _ _
  | burn a κ ih => exact ih _ _
  | vget c κ ih => exact ih _ _ _
  | vset c v κ ih => exact ih _ _
  | env κ ih => exact ih _ _ _

/-- a program that never consults the environment behaves the same in every environment -/
theorem run_env (cfg : Cfg K V) (p : Prog K V C E α) (h : p.EnvFree) (s : St K V) (m : Vol C V)
    (e₁ e₂ : E) : p.run cfg s m e₁ = p.run cfg s m e₂ := by
  induction p generalizing s m with
  | ret a => rfl
  | fail => rfl
  | get k κ ih => exact ih _ (h _) _ _
  | has k κ ih => exact ih _ (h _) _ _
  | set k v κ ih => exact ih _ (h _) _ _
  | del k κ ih => exact ih h _ _
  | iter lo hi asc κ ih => exact ih _ (h _) _ _
  | iterAll lo hi asc κ ih => exact ih _ (h _) _ _
  | getv ver k κ ih => exact ih _ (h _) _ _
  | gas κ ih => exact ih _ (h _) _ _
  | burn a κ ih => exact ih h _ _
  | vget c κ ih => exact ih _ (h _) _ _
  | vset c v κ ih => exact ih h _ _
  | env κ ih => exact False.elim h

/-- a program that writes no volatile cell hands back the volatile memory it was given -/
theorem run_novset (cfg : Cfg K V) (p : Prog K V C E α) (h : p.NoVset) (s : St K V) (m : Vol C V)
    (e : E) : (p.run cfg s m e).2.2 = m := by
  induction p generalizing s m with
  | ret a => rfl
  | fail => rfl
  | get k κ ih => exact ih _ (h _) _ _
  | has k κ ih => exact ih _ (h _) _ _
  | set k v κ ih => exact ih _ (h _) _ _
  | del k κ ih => exact ih h _ _
  | iter lo hi asc κ ih => exact ih _ (h _) _ _
  | iterAll lo hi asc κ ih => exact ih _ (h _) _ _
  | getv ver k κ ih => exact ih _ (h _) _ _
  | gas κ ih => exact ih _ (h _) _ _
  | burn a κ ih => exact ih h _ _
  | vget c κ ih => exact ih _ (h _) _ _
  | vset c v κ ih => exact False.elim h
  | env κ ih => exact ih _ (h _) _ _

/-! ### frame lemmas: what the ABCI calls leave alone -/

variable (cfg : Cfg K V) (hs : Handlers K V C E T H D) (e : E)

/-- closing the transaction session keeps the tree -/
theorem finish_tree (ok : Bool) (s2 : St K V) :
    (if ok then (match s2.csess with | some s => s | none => s2) else s2.dsess).tree = s2.tree := by
  cases ok
  · rfl
  · simp only [if_true]
    unfold St.csess
    cases s2.sess <;> rfl

theorem deliverTx_frame (n : Node K V C T H D) (tx : T) :
    (deliverTx cfg hs e n tx).1.tree = n.tree ∧ (deliverTx cfg hs e n tx).1.idx = n.idx ∧
    (deliverTx cfg hs e n tx).1.height = n.height ∧ (deliverTx cfg hs e n tx).1.closed = n.closed ∧
    (deliverTx cfg hs e n tx).1.chk = n.chk := by
  unfold deliverTx
  split
  · exact ⟨rfl, rfl, rfl, rfl, rfl⟩
  · simp only []
    split
    · refine ⟨?_, rfl, rfl, rfl, rfl⟩
      show (Prog.run cfg (hs.validate tx) _ n.vol e).2.1.tree = n.tree
      rw [run_tree]; rfl
    · refine ⟨?_, rfl, rfl, rfl, rfl⟩
      refine (finish_tree _ _).trans ?_
      rw [run_tree, run_tree, run_tree]; rfl

theorem checkTx_frame (n : Node K V C T H D) (tx : T) :
    (checkTx cfg hs e n tx).1.tree = n.tree ∧ (checkTx cfg hs e n tx).1.dlv = n.dlv ∧
    (checkTx cfg hs e n tx).1.idx = n.idx ∧ (checkTx cfg hs e n tx).1.height = n.height ∧
    (checkTx cfg hs e n tx).1.closed = n.closed := by
  unfold checkTx
  split
  · exact ⟨rfl, rfl, rfl, rfl, rfl⟩
  · simp only []
    split <;> exact ⟨rfl, rfl, rfl, rfl, rfl⟩

theorem checkTx_vol (hnv : CheckNoVset hs) (n : Node K V C T H D) (tx : T) :
    (checkTx cfg hs e n tx).1.vol = n.vol := by
  obtain ⟨h1, h2, h3⟩ := hnv tx
  unfold checkTx
  split
  · rfl
  · simp only []
    split
    · exact run_novset cfg _ h1 _ _ _
    · simp only []
      rw [run_novset cfg _ (h3 _), run_novset cfg _ h2, run_novset cfg _ h1]

theorem runHook_frameB (n : Node K V C T H D) (hk : Bool × Prog K V C E Unit) :
    (runHook cfg e n hk).tree = n.tree ∧ (runHook cfg e n hk).idx = n.idx ∧
    (runHook cfg e n hk).height = n.height ∧ (runHook cfg e n hk).closed = n.closed := by
  unfold runHook
  split <;> exact ⟨rfl, rfl, rfl, rfl⟩

theorem hooks_frame (hks : List (Bool × Prog K V C E Unit)) (n : Node K V C T H D) :
    (hks.foldl (runHook cfg e) n).tree = n.tree ∧ (hks.foldl (runHook cfg e) n).idx = n.idx ∧
    (hks.foldl (runHook cfg e) n).height = n.height ∧
    (hks.foldl (runHook cfg e) n).closed = n.closed := by
  induction hks generalizing n with
  | nil => exact ⟨rfl, rfl, rfl, rfl⟩
  | cons hk t ih =>
    rw [List.foldl_cons]
    have h1 := ih (runHook cfg e n hk)
    have h2 := runHook_frameB cfg e n hk
    exact ⟨h1.1.trans h2.1, h1.2.1.trans h2.2.1, h1.2.2.1.trans h2.2.2.1, h1.2.2.2.trans h2.2.2.2⟩

theorem beginBlock_frameB (n : Node K V C T H D) :
    (beginBlock cfg hs e n).tree = n.tree ∧ (beginBlock cfg hs e n).idx = n.idx ∧
    (beginBlock cfg hs e n).height = n.height ∧ (beginBlock cfg hs e n).closed = n.closed :=
  hooks_frame cfg e _ _

theorem endBlock_frameB (n : Node K V C T H D) :
    (endBlock cfg hs e n).tree = n.tree ∧ (endBlock cfg hs e n).idx = n.idx ∧
    (endBlock cfg hs e n).height = n.height ∧ (endBlock cfg hs e n).closed = n.closed :=
  hooks_frame cfg e _ _

theorem deliverAll_frame (txs : List T) (n : Node K V C T H D) :
    (deliverAll cfg hs e n txs).1.tree = n.tree ∧ (deliverAll cfg hs e n txs).1.idx = n.idx ∧
    (deliverAll cfg hs e n txs).1.height = n.height ∧
    (deliverAll cfg hs e n txs).1.closed = n.closed := by
  induction txs generalizing n with
  | nil => exact ⟨rfl, rfl, rfl, rfl⟩
  | cons tx t ih =>
    have h1 := ih (deliverTx cfg hs e n tx).1
    have h2 := deliverTx_frame cfg hs e n tx
    simp only [deliverAll]
    exact ⟨h1.1.trans h2.1, h1.2.1.trans h2.2.1, h1.2.2.1.trans h2.2.2.1,
      h1.2.2.2.trans h2.2.2.2.1⟩

theorem midBlock_frame (n : Node K V C T H D) (txs : List T) (k : Nat) (ended : Bool) :
    (midBlock cfg hs e n txs k ended).tree = n.tree ∧ (midBlock cfg hs e n txs k ended).idx = n.idx ∧
    (midBlock cfg hs e n txs k ended).height = n.height ∧
    (midBlock cfg hs e n txs k ended).closed = n.closed := by
  have h1 := beginBlock_frameB cfg hs e n
  have h2 := deliverAll_frame cfg hs e (txs.take k) (beginBlock cfg hs e n)
  have h12 := And.intro (h2.1.trans h1.1) (And.intro (h2.2.1.trans h1.2.1)
    (And.intro (h2.2.2.1.trans h1.2.2.1) (h2.2.2.2.trans h1.2.2.2)))
  unfold midBlock
  simp only []
  cases ended
  · exact h12
  · have h3 := endBlock_frameB cfg hs e (deliverAll cfg hs e (beginBlock cfg hs e n) (txs.take k)).1
    exact ⟨h3.1.trans h12.1, h3.2.1.trans h12.2.1, h3.2.2.1.trans h12.2.2.1,
      h3.2.2.2.trans h12.2.2.2⟩

/-! ### independence of the environment -/

theorem deliverTx_env (hf : AllEnvFree hs) (n : Node K V C T H D) (tx : T) (e₁ e₂ : E) :
    deliverTx cfg hs e₁ n tx = deliverTx cfg hs e₂ n tx := by
  obtain ⟨h1, _, h3, h4⟩ := hf.1 tx
  have hv : ∀ s m, (hs.validate tx).run cfg s m e₁ = (hs.validate tx).run cfg s m e₂ :=
    fun s m => run_env cfg _ h1 s m e₁ e₂
  have hd : ∀ s m, (hs.deliver tx).run cfg s m e₁ = (hs.deliver tx).run cfg s m e₂ :=
    fun s m => run_env cfg _ h3 s m e₁ e₂
  have hfe : ∀ g s m, (hs.fee tx g).run cfg s m e₁ = (hs.fee tx g).run cfg s m e₂ :=
    fun g s m => run_env cfg _ (h4 g) s m e₁ e₂
  simp only [deliverTx, hv, hd, hfe]

theorem checkTx_env (hf : AllEnvFree hs) (n : Node K V C T H D) (tx : T) (e₁ e₂ : E) :
    checkTx cfg hs e₁ n tx = checkTx cfg hs e₂ n tx := by
  obtain ⟨h1, h2, _, h4⟩ := hf.1 tx
  have hv : ∀ s m, (hs.validate tx).run cfg s m e₁ = (hs.validate tx).run cfg s m e₂ :=
    fun s m => run_env cfg _ h1 s m e₁ e₂
  have hc : ∀ s m, (hs.check tx).run cfg s m e₁ = (hs.check tx).run cfg s m e₂ :=
    fun s m => run_env cfg _ h2 s m e₁ e₂
  have hfe : ∀ g s m, (hs.fee tx g).run cfg s m e₁ = (hs.fee tx g).run cfg s m e₂ :=
    fun g s m => run_env cfg _ (h4 g) s m e₁ e₂
  simp only [checkTx, hv, hc, hfe]

theorem runHook_env (n : Node K V C T H D) (hk : Bool × Prog K V C E Unit) (h : hk.2.EnvFree)
    (e₁ e₂ : E) : runHook cfg e₁ n hk = runHook cfg e₂ n hk := by
  have hh : ∀ s m, hk.2.run cfg s m e₁ = hk.2.run cfg s m e₂ :=
    fun s m => run_env cfg _ h s m e₁ e₂
  simp only [runHook, hh]

theorem hooks_env (hks : List (Bool × Prog K V C E Unit)) (h : ∀ hk ∈ hks, hk.2.EnvFree)
    (n : Node K V C T H D) (e₁ e₂ : E) :
    hks.foldl (runHook cfg e₁) n = hks.foldl (runHook cfg e₂) n := by
  induction hks generalizing n with
  | nil => rfl
  | cons hk t ih =>
    rw [List.foldl_cons, List.foldl_cons, runHook_env cfg n hk (h hk List.mem_cons_self) e₁ e₂]
    exact ih (fun x hx => h x (List.mem_cons_of_mem _ hx)) _

theorem beginBlock_env (hf : AllEnvFree hs) (n : Node K V C T H D) (e₁ e₂ : E) :
    beginBlock cfg hs e₁ n = beginBlock cfg hs e₂ n :=
  hooks_env cfg _ (hf.2 _).1 _ e₁ e₂

theorem endBlock_env (hf : AllEnvFree hs) (n : Node K V C T H D) (e₁ e₂ : E) :
    endBlock cfg hs e₁ n = endBlock cfg hs e₂ n :=
  hooks_env cfg _ (hf.2 _).2 _ e₁ e₂

theorem deliverAll_env (hf : AllEnvFree hs) (txs : List T) (n : Node K V C T H D) (e₁ e₂ : E) :
    deliverAll cfg hs e₁ n txs = deliverAll cfg hs e₂ n txs := by
  induction txs generalizing n with
  | nil => rfl
  | cons tx t ih =>
    simp only [deliverAll, deliverTx_env cfg hs hf n tx e₁ e₂, ih]

theorem execBlock_env (hf : AllEnvFree hs) (n : Node K V C T H D) (txs : List T) (e₁ e₂ : E) :
    execBlock cfg hs e₁ n txs = execBlock cfg hs e₂ n txs := by
  simp only [execBlock, beginBlock_env cfg hs hf n e₁ e₂, deliverAll_env cfg hs hf txs _ e₁ e₂,
    endBlock_env cfg hs hf _ e₁ e₂]

theorem stepCall_env (hf : AllEnvFree hs) (r : Run K V C T H D) (c : Call T) (e₁ e₂ : E) :
    stepCall cfg hs e₁ r c = stepCall cfg hs e₂ r c := by
  cases c with
  | begin => simp only [stepCall, beginBlock_env cfg hs hf _ e₁ e₂]
  | deliver tx => simp only [stepCall, deliverTx_env cfg hs hf _ tx e₁ e₂]
  | endb => simp only [stepCall, endBlock_env cfg hs hf _ e₁ e₂]
  | commit txs => rfl
  | check tx => simp only [stepCall, checkTx_env cfg hs hf _ tx e₁ e₂]

/-! ### the consensus calls only look at the consensus part of a node -/

theorem deliverTx_congr (n n' : Node K V C T H D) (h : n.consensus = n'.consensus) (tx : T) :
    (deliverTx cfg hs e n tx).1.consensus = (deliverTx cfg hs e n' tx).1.consensus ∧
    (deliverTx cfg hs e n tx).2 = (deliverTx cfg hs e n' tx).2 := by
  obtain ⟨t, d, c, v, i, a, ht, cl⟩ := n
  obtain ⟨t', d', c', v', i', a', ht', cl'⟩ := n'
  simp only [Node.consensus, Consensus.mk.injEq] at h
  obtain ⟨rfl, rfl, rfl, rfl, rfl⟩ := h
  unfold deliverTx
  simp only []
  cases lookupIdx i (hs.hash tx) with
  | some r => exact ⟨rfl, rfl⟩
  | none =>
    simp only []
    cases (Prog.run cfg (hs.validate tx) (d.toSt t).begin v e).1 <;> exact ⟨rfl, rfl⟩

theorem runHook_congr (n n' : Node K V C T H D) (h : n.consensus = n'.consensus)
    (hk : Bool × Prog K V C E Unit) (hk1 : hk.1 = true) :
    (runHook cfg e n hk).consensus = (runHook cfg e n' hk).consensus := by
  obtain ⟨t, d, c, v, i, a, ht, cl⟩ := n
  obtain ⟨t', d', c', v', i', a', ht', cl'⟩ := n'
  simp only [Node.consensus, Consensus.mk.injEq] at h
  obtain ⟨rfl, rfl, rfl, rfl, rfl⟩ := h
  simp [runHook, hk1, Node.consensus]

theorem hooks_congr (hks : List (Bool × Prog K V C E Unit)) (hall : ∀ hk ∈ hks, hk.1 = true)
    (n n' : Node K V C T H D) (h : n.consensus = n'.consensus) :
    (hks.foldl (runHook cfg e) n).consensus = (hks.foldl (runHook cfg e) n').consensus := by
  induction hks generalizing n n' with
  | nil => exact h
  | cons hk t ih =>
    rw [List.foldl_cons, List.foldl_cons]
    exact ih (fun x hx => hall x (List.mem_cons_of_mem _ hx)) _ _
      (runHook_congr cfg e n n' h hk (hall hk List.mem_cons_self))

/-- "same tree, volatile memory, index and height": all that a whole block depends on -/
def CEq (n n' : Node K V C T H D) : Prop :=
  n.tree = n'.tree ∧ n.vol = n'.vol ∧ n.idx = n'.idx ∧ n.height = n'.height

theorem CEq.of_consensus {n n' : Node K V C T H D} (h : n.consensus = n'.consensus) : CEq n n' := by
  simp only [Node.consensus, Consensus.mk.injEq] at h
  exact ⟨h.1, h.2.2.1, h.2.2.2.1, h.2.2.2.2⟩

theorem beginBlock_congr (ha : AllAimed hs) (n n' : Node K V C T H D) (h : CEq n n') :
    (beginBlock cfg hs e n).consensus = (beginBlock cfg hs e n').consensus := by
  obtain ⟨h1, h2, h3, h4⟩ := h
  unfold beginBlock
  rw [h4]
  apply hooks_congr cfg e _ (ha _).1
  simp only [Node.consensus, h1, h2, h3]

theorem endBlock_congr (ha : AllAimed hs) (n n' : Node K V C T H D)
    (h : n.consensus = n'.consensus) :
    (endBlock cfg hs e n).consensus = (endBlock cfg hs e n').consensus := by
  have h4 : n.height = n'.height := (CEq.of_consensus h).2.2.2
  unfold endBlock
  rw [h4]
  exact hooks_congr cfg e _ (ha _).2 _ _ h

theorem commit_congr (n n' : Node K V C T H D) (h : n.consensus = n'.consensus) :
    (commit cfg hs n).consensus = (commit cfg hs n').consensus := by
  obtain ⟨t, d, c, v, i, a, ht, cl⟩ := n
  obtain ⟨t', d', c', v', i', a', ht', cl'⟩ := n'
  simp only [Node.consensus, Consensus.mk.injEq] at h
  obtain ⟨rfl, rfl, rfl, rfl, rfl⟩ := h
  rfl

theorem deliverAll_congr (txs : List T) (n n' : Node K V C T H D)
    (h : n.consensus = n'.consensus) :
    (deliverAll cfg hs e n txs).1.consensus = (deliverAll cfg hs e n' txs).1.consensus ∧
    (deliverAll cfg hs e n txs).2 = (deliverAll cfg hs e n' txs).2 := by
  induction txs generalizing n n' with
  | nil => exact ⟨h, rfl⟩
  | cons tx t ih =>
    have h1 := deliverTx_congr cfg hs e n n' h tx
    have h2 := ih _ _ h1.1
    simp only [deliverAll]
    exact ⟨h2.1, by rw [h1.2, h2.2]⟩

theorem checkTx_consensus (hnv : CheckNoVset hs) (n : Node K V C T H D) (tx : T) :
    (checkTx cfg hs e n tx).1.consensus = n.consensus := by
  have h := checkTx_frame cfg hs e n tx
  have hv := checkTx_vol cfg hs e hnv n tx
  simp only [Node.consensus, h.1, h.2.1, h.2.2.1, h.2.2.2.1, hv]

theorem stepCall_congr (ha : AllAimed hs) (r r' : Run K V C T H D)
    (h : r.node.consensus = r'.node.consensus) (hp : r.pending = r'.pending) (c : Call T)
    (hc : c.isCheck = false) :
    (stepCall cfg hs e r c).1.node.consensus = (stepCall cfg hs e r' c).1.node.consensus ∧
    (stepCall cfg hs e r c).1.pending = (stepCall cfg hs e r' c).1.pending ∧
    (stepCall cfg hs e r c).2 = (stepCall cfg hs e r' c).2 := by
  cases c with
  | begin => exact ⟨beginBlock_congr cfg hs e ha _ _ (CEq.of_consensus h), rfl, rfl⟩
  | deliver tx =>
    have h1 := deliverTx_congr cfg hs e _ _ h tx
    simp only [stepCall]
    exact ⟨h1.1, by rw [hp, h1.2], by rw [h1.2]⟩
  | endb => exact ⟨endBlock_congr cfg hs e ha _ _ h, hp, rfl⟩
  | commit txs =>
    have h1 := commit_congr cfg hs _ _ h
    have ht : r.node.tree = r'.node.tree := (CEq.of_consensus h).1
    have h2 := CEq.of_consensus h1
    simp only [stepCall]
    refine ⟨?_, trivial, by rw [h2.1, ht]⟩
    simp only [Node.consensus, Consensus.mk.injEq] at h1 ⊢
    exact ⟨h1.1, h1.2.1, h1.2.2.1, by rw [h1.2.2.2.1, hp], h1.2.2.2.2⟩
  | check tx => simp [Call.isCheck] at hc

theorem runCalls_isolation (ha : AllAimed hs) (hnv : CheckNoVset hs) (calls : List (Call T))
    (r r' : Run K V C T H D) (h : r.node.consensus = r'.node.consensus)
    (hp : r.pending = r'.pending) :
    (runCalls cfg hs e r calls).1.node.consensus =
      (runCalls cfg hs e r' (calls.filter (fun c => !c.isCheck))).1.node.consensus ∧
    (runCalls cfg hs e r calls).1.pending =
      (runCalls cfg hs e r' (calls.filter (fun c => !c.isCheck))).1.pending ∧
    (runCalls cfg hs e r calls).2.filter (fun o => !o.isChecked) =
      (runCalls cfg hs e r' (calls.filter (fun c => !c.isCheck))).2 := by
  induction calls generalizing r r' with
  | nil => exact ⟨h, hp, rfl⟩
  | cons c cs ih =>
    by_cases hc : c.isCheck = true
    · rw [List.filter_cons_of_neg (by simp [hc])]
      cases c with
      | check tx =>
        have h1 : (stepCall cfg hs e r (.check tx)).1.node.consensus = r'.node.consensus :=
          (checkTx_consensus cfg hs e hnv r.node tx).trans h
        have h2 : (stepCall cfg hs e r (.check tx)).1.pending = r'.pending := hp
        have := ih _ _ h1 h2
        simp only [runCalls]
        refine ⟨this.1, this.2.1, ?_⟩
        rw [List.filter_cons_of_neg (by simp [stepCall, CallOut.isChecked])]
        exact this.2.2
      | _ => simp [Call.isCheck] at hc
    · have hc' : c.isCheck = false := by simpa using hc
      rw [List.filter_cons_of_pos (by simp [hc'])]
      have h1 := stepCall_congr cfg hs e ha r r' h hp c hc'
      have := ih _ _ h1.1 h1.2.1
      simp only [runCalls]
      refine ⟨this.1, this.2.1, ?_⟩
      have hno : (stepCall cfg hs e r c).2.isChecked = false := by
        cases c <;> first | rfl | (simp [Call.isCheck] at hc')
      rw [List.filter_cons_of_pos (by simp [hno]), this.2.2, h1.2.2]

/-- a whole block depends only on tree, volatile memory, index and height when every hook is
    re-aimed -/
theorem execBlock_congr (ha : AllAimed hs) (n n' : Node K V C T H D) (h : CEq n n') (txs : List T) :
    (execBlock cfg hs e n txs).2 = (execBlock cfg hs e n' txs).2 ∧
    (execBlock cfg hs e n txs).1.consensus = (execBlock cfg hs e n' txs).1.consensus := by
  have h1 := beginBlock_congr cfg hs e ha n n' h
  have h2 := deliverAll_congr cfg hs e txs _ _ h1
  have h3 := endBlock_congr cfg hs e ha _ _ h2.1
  have h4 := commit_congr cfg hs _ _ h3
  have h5 := CEq.of_consensus h4
  simp only [execBlock]
  refine ⟨by rw [h2.2, h5.1, h.1], ?_⟩
  simp only [Node.consensus, Consensus.mk.injEq] at h4 ⊢
  exact ⟨h4.1, h4.2.1, h4.2.2.1, by rw [h4.2.2.2.1, h2.2], h4.2.2.2.2⟩

/-! ### the write log and `reopen` -/

theorem savedPrefixLen_append_save (l : List (TreeOp K V)) :
    savedPrefixLen (l ++ [.save]) = l.length + 1 := by
  induction l with
  | nil => rfl
  | cons op t ih =>
    simp only [List.cons_append, savedPrefixLen, ih, List.length_cons]
    simp

theorem savedPrefixLen_take (l : List (TreeOp K V)) :
    savedPrefixLen (l.take (savedPrefixLen l)) = savedPrefixLen l := by
  induction l with
  | nil => rfl
  | cons op t ih =>
    by_cases hn : savedPrefixLen t > 0
    · have h1 : savedPrefixLen (op :: t) = savedPrefixLen t + 1 := by
        simp [savedPrefixLen, hn]
      rw [h1, List.take_succ_cons]
      simp [savedPrefixLen, ih, hn]
    · cases op with
      | save =>
        have h1 : savedPrefixLen (TreeOp.save :: t) = 1 := by simp [savedPrefixLen, hn]
        rw [h1]
        simp [savedPrefixLen]
      | set k v =>
        have h1 : savedPrefixLen (TreeOp.set k v :: t) = 0 := by simp [savedPrefixLen, hn]
        rw [h1]; rfl
      | remove k =>
        have h1 : savedPrefixLen (TreeOp.remove k :: t) = 0 := by simp [savedPrefixLen, hn]
        rw [h1]; rfl

theorem st_commit_log (c : Cfg K V) (s : St K V) :
    (s.commit c).tree.log = s.tree.log ++ (s.cache.map (toTreeOp c) ++ [.save]) := by
  simp only [St.commit]
  rw [(commit_fields _).2.2.1, writeInto_log, List.append_assoc]

theorem reopen_log (t : Tree K V) : t.reopen.log = t.log.take (savedPrefixLen t.log) := by
  unfold Tree.reopen
  simp only []
  split <;> rfl

theorem reopen_rot (t : Tree K V) : t.reopen.rot = t.rot := by
  unfold Tree.reopen
  simp only []
  split <;> rfl

theorem reopen_eq_self (t : Tree K V) (h1 : t.working = t.reopen.working)
    (h2 : t.log = t.log.take (savedPrefixLen t.log)) : t.reopen = t := by
  have hf := reopen_fields t
  have hl := reopen_log t
  have hr := reopen_rot t
  generalize t.reopen = t' at *
  obtain ⟨w, vs, v, lg, rot⟩ := t
  obtain ⟨w', vs', v', lg', rot'⟩ := t'
  simp only at h1 h2 hf hl hr
  rw [← h2] at hl
  rw [h1, hf.1, hf.2, hl, hr]

theorem saved_find (t : Tree K V) (wf : t.WF) :
    t.saved.versions.find? (fun p => p.1 = t.version + 1) = some (t.version + 1, t.working) := by
  unfold Tree.saved
  simp only [List.find?_append]
  have : t.versions.find? (fun p => decide (p.1 = t.version + 1)) = none := by
    rw [List.find?_eq_none]
    intro p hp
    have := (wf.2.1 p hp).2
    simp only [decide_eq_true_eq]
    omega
  rw [this]
  simp

theorem deleteVersion_find_latest (t : Tree K V) (rel : Int) :
    (t.deleteVersion rel).versions.find? (fun p => p.1 = t.version) =
      t.versions.find? (fun p => p.1 = t.version) := by
  rcases deleteVersion_versions t rel with h | ⟨hne, h⟩
  · rw [h]
  · rw [h, find?_filter_of_imp]
    intro x hx
    simp only [decide_eq_true_eq] at hx
    simp only [ne_eq, decide_not, Bool.not_eq_eq_eq_not, Bool.not_true, decide_eq_false_iff_not]
    rw [hx]; exact fun e => hne e.symm

theorem commit_find (t : Tree K V) (wf : t.WF) :
    t.commit.versions.find? (fun p => p.1 = t.version + 1) = some (t.version + 1, t.working) := by
  have hs := saved_find t wf
  have hv : t.saved.version = t.version + 1 := rfl
  rcases commit_cases t with h | ⟨r, h⟩ | ⟨r1, r2, h⟩ <;> rw [h]
  · exact hs
  · have := deleteVersion_find_latest t.saved r
    rw [hv] at this
    exact this.trans hs
  · have h1 := deleteVersion_find_latest t.saved r1
    have h2 := deleteVersion_find_latest (t.saved.deleteVersion r1) r2
    rw [(deleteVersion_fields t.saved r1).2.1, hv] at h2
    rw [hv] at h1
    exact h2.trans (h1.trans hs)

/-- right after a commit the tree is what a restart would load -/
theorem commit_at_boundary (t : Tree K V) (wf : t.WF) :
    t.commit.working = t.commit.reopen.working ∧
    t.commit.log = t.commit.log.take (savedPrefixLen t.commit.log) := by
  have hf := commit_fields t
  constructor
  · have hfind := commit_find t wf
    unfold Tree.reopen
    simp only []
    rw [hf.2.1, hfind]
    exact hf.1
  · rw [hf.2.2.1, savedPrefixLen_append_save]
    exact (List.take_of_length_le (by simp)).symm

/-! ### crash -/

theorem crash_eq_of (boot : Tree K V → Vol C V) (n n' : Node K V C T H D)
    (ht : n.tree = n'.tree) (hi : n.idx = n'.idx) (hc : n.closed = n'.closed) :
    crash boot hs n = crash boot hs n' := by
  obtain ⟨t, d, c, v, i, a, h, cl⟩ := n
  obtain ⟨t', d', c', v', i', a', h', cl'⟩ := n'
  simp only at ht hi hc
  subst ht hi hc
  rfl

theorem atBoundary_reopen {n : Node K V C T H D} (hb : n.AtBoundary) : n.tree.reopen = n.tree :=
  reopen_eq_self _ hb.2.2.1 hb.2.2.2.1

theorem crash_boundary (boot : Tree K V → Vol C V) (n : Node K V C T H D) (hb : n.AtBoundary)
    (hv : n.vol = boot n.tree) :
    (crash boot hs n).AtBoundary ∧ CEq (crash boot hs n) n ∧
    (crash boot hs n).vol = boot (crash boot hs n).tree := by
  have hr := atBoundary_reopen hb
  have ht : (crash boot hs n).tree = n.tree := hr
  refine ⟨?_, ⟨ht, ?_, rfl, ?_⟩, rfl⟩
  · refine ⟨rfl, rfl, ?_, ?_, rfl⟩
    · rw [ht]; exact hb.2.2.1
    · rw [ht]; exact hb.2.2.2.1
  · show boot n.tree.reopen = n.vol
    rw [hr, hv]
  · show n.tree.reopen.version = n.height
    rw [hr]; exact hb.2.2.2.2.symm

theorem execBlock_tree (n : Node K V C T H D) (txs : List T) :
    (execBlock cfg hs e n txs).1.tree =
      (writeInto cfg n.tree
        (endBlock cfg hs e (deliverAll cfg hs e (beginBlock cfg hs e n) txs).1).dlv.cache).commit ∧
    (execBlock cfg hs e n txs).1.height = n.height + 1 ∧
    (execBlock cfg hs e n txs).1.dlv.sess = none ∧ (execBlock cfg hs e n txs).1.dlv.cache = [] := by
  have h1 := beginBlock_frameB cfg hs e n
  have h2 := deliverAll_frame cfg hs e txs (beginBlock cfg hs e n)
  have h3 := endBlock_frameB cfg hs e (deliverAll cfg hs e (beginBlock cfg hs e n) txs).1
  have ht := h3.1.trans (h2.1.trans h1.1)
  have hh := h3.2.2.1.trans (h2.2.2.1.trans h1.2.2.1)
  refine ⟨?_, ?_, rfl, rfl⟩
  · simp only [execBlock, commit, St.commit, Ov.toSt]
    rw [ht]
  · simp only [execBlock, commit]
    rw [hh]

theorem execBlock_boundary (n : Node K V C T H D) (hb : n.AtBoundary) (wf : n.tree.WF)
    (txs : List T) : (execBlock cfg hs e n txs).1.AtBoundary ∧ (execBlock cfg hs e n txs).1.tree.WF := by
  obtain ⟨h1, h2, h3, h4⟩ := execBlock_tree cfg hs e n txs
  generalize (endBlock cfg hs e (deliverAll cfg hs e (beginBlock cfg hs e n) txs).1).dlv.cache = cache at h1
  have hv := writeInto_versions cfg cache n.tree
  have wf' : (writeInto cfg n.tree cache).WF := WF_of_versions_eq _ _ hv.1 hv.2.1 wf
  have hc := commit_at_boundary _ wf'
  refine ⟨⟨h3, h4, ?_, ?_, ?_⟩, ?_⟩
  · rw [h1]; exact hc.1
  · rw [h1]; exact hc.2
  · rw [h1, h2, (commit_fields _).2.1, hv.2.1, hb.2.2.2.2]
  · rw [h1]; exact commit_WF _ wf'

end OLP.Shell

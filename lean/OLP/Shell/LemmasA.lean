/-
  Layer S — helper lemmas for C05 and C06.
-/
import OLP.Shell.Spec
import OLP.KV.Refine

set_option linter.unusedSectionVars false

namespace OLP.Shell
open OLP OLP.KV

variable {K V C E α T H D : Type} [DecidableEq K] [DecidableEq V] [DecidableEq C] [DecidableEq H]

/-! ### association lists and append -/

theorem alookup_append {β : Type} (k : H) (a b : List (H × β)) :
    alookup k (a ++ b) = match alookup k a with
      | some v => some v
      | none => alookup k b := by
  induction a with
  | nil => rfl
  | cons hd t ih =>
    obtain ⟨k', v'⟩ := hd
    by_cases hk : k' = k
    · simp [alookup, hk]
    · simp [alookup, hk, ih]

theorem alookup_append_of_some {β : Type} (k : H) (a b : List (H × β)) (v : β)
    (h : alookup k a = some v) : alookup k (a ++ b) = some v := by
  rw [alookup_append, h]

theorem alookup_append_isSome_right {β : Type} (k : H) (a b : List (H × β))
    (h : (alookup k b).isSome = true) : (alookup k (a ++ b)).isSome = true := by
  rw [alookup_append]
  cases alookup k a with
  | none => exact h
  | some v => rfl

/-! ### what store operations preserve -/

/-- `s'` is `s` with another level of the gas counter -/
def GasMoved (s s' : St K V) : Prop := ∃ g, s' = { s with gas := ⟨s.gas.limit, g⟩ }

theorem GasMoved.refl (s : St K V) : GasMoved s s := ⟨s.gas.consumed, rfl⟩

theorem GasMoved.trans {a b c : St K V} (h1 : GasMoved a b) (h2 : GasMoved b c) : GasMoved a c := by
  obtain ⟨g1, rfl⟩ := h1
  obtain ⟨g2, rfl⟩ := h2
  exact ⟨g2, rfl⟩

theorem cacheGet_moved (c : Cfg K V) (s : St K V) (k : K) : GasMoved s (s.cacheGet c k).1 := by
  unfold St.cacheGet
  split
  · split
    · exact GasMoved.refl s
    · next g hg =>
      have := consumeStrict_some _ _ _ hg
      subst this
      split
      · exact ⟨_, rfl⟩
      · exact ⟨_, rfl⟩
  · exact GasMoved.refl s

theorem cacheHas_moved (s : St K V) (k : K) : GasMoved s (s.cacheHas k).1 := by
  unfold St.cacheHas
  split
  · split
    · exact GasMoved.refl s
    · next g hg =>
      have := consumeStrict_some _ _ _ hg
      subst this
      exact ⟨_, rfl⟩
  · exact GasMoved.refl s

theorem get_moved (c : Cfg K V) (s : St K V) (k : K) : GasMoved s (s.get c k).1 := by
  rcases get_fst c s k with h | h <;> rw [h]
  · exact GasMoved.refl s
  · exact cacheGet_moved c s k

theorem has_moved (c : Cfg K V) (s : St K V) (k : K) : GasMoved s (s.has c k).1 := by
  rcases has_fst c s k with h | h <;> rw [h]
  · exact GasMoved.refl s
  · exact cacheHas_moved s k

theorem iter_foldl_moved (c : Cfg K V) (ks : List K) (acc : St K V × List (K × Option V)) :
    GasMoved acc.1 (ks.foldl (iterStep c) acc).1 := by
  induction ks generalizing acc with
  | nil => exact GasMoved.refl _
  | cons k t ih =>
    rw [List.foldl_cons]
    refine GasMoved.trans ?_ (ih _)
    rcases iterStep_fst c acc k with h | h <;> rw [h]
    · exact GasMoved.refl _
    · exact get_moved c acc.1 k

theorem iter_moved (c : Cfg K V) (s : St K V) (lo hi : Option K) (asc : Bool) :
    GasMoved s (s.iter c lo hi asc).1 := by
  rw [iter_eq_foldl]
  exact iter_foldl_moved c _ (s, [])

theorem iterAll_moved (c : Cfg K V) (s : St K V) (lo hi : Option K) (asc : Bool) :
    GasMoved s (s.iterAll c lo hi asc).1 := by
  rw [iterAll_eq_foldl]
  exact iter_foldl_moved c _ (s, [])

/-- what every operation available to a `Prog` preserves: tree, meteredness, gas limit, whether a
    session is open and, while one is open, the block cache -/
structure Pres (s s' : St K V) : Prop where
  tree : s'.tree = s.tree
  metered : s'.metered = s.metered
  limit : s'.gas.limit = s.gas.limit
  sess : s'.sess.isSome = s.sess.isSome
  cache : s.sess.isSome = true → s'.cache = s.cache

theorem Pres.refl (s : St K V) : Pres s s := ⟨rfl, rfl, rfl, rfl, fun _ => rfl⟩

theorem Pres.trans {a b c : St K V} (h1 : Pres a b) (h2 : Pres b c) : Pres a c :=
  ⟨h2.tree.trans h1.tree, h2.metered.trans h1.metered, h2.limit.trans h1.limit,
   h2.sess.trans h1.sess, fun h => (h2.cache (h1.sess.trans h)).trans (h1.cache h)⟩

theorem GasMoved.pres {s s' : St K V} (h : GasMoved s s') : Pres s s' := by
  obtain ⟨g, rfl⟩ := h
  exact ⟨rfl, rfl, rfl, rfl, fun _ => rfl⟩

theorem Pres.sess_none {s s' : St K V} (h : Pres s s') (hs : s.sess = none) : s'.sess = none := by
  have := h.sess
  rw [hs] at this
  cases h' : s'.sess with
  | none => rfl
  | some o => rw [h'] at this; cases this

theorem set_pres (c : Cfg K V) (s : St K V) (k : K) (v : V) : Pres s (s.set c k v).1 := by
  unfold St.set
  by_cases hv : v = c.tomb
  · simp only [hv, ↓reduceIte]; exact Pres.refl s
  simp only [hv, ↓reduceIte]
  split
  · next o ho => exact ⟨rfl, rfl, rfl, by simp [ho], fun _ => rfl⟩
  · next ho =>
    split
    · split
      · exact Pres.refl s
      · next g hg =>
        have := consumeStrict_some _ _ _ hg
        subst this
        exact ⟨rfl, rfl, rfl, rfl, fun h => by simp [ho] at h⟩
    · exact ⟨rfl, rfl, rfl, rfl, fun h => by simp [ho] at h⟩

theorem del_pres (c : Cfg K V) (s : St K V) (k : K) : Pres s (s.del c k) := by
  unfold St.del
  split
  · next o ho => exact ⟨rfl, rfl, rfl, by simp [ho], fun _ => rfl⟩
  · next ho =>
    split
    · split
      · exact Pres.refl s
      · next g hg =>
        have := consumeStrict_some _ _ _ hg
        subst this
        exact ⟨rfl, rfl, rfl, rfl, fun h => by simp [ho] at h⟩
    · exact ⟨rfl, rfl, rfl, rfl, fun h => by simp [ho] at h⟩

/-- fact (1): no program changes tree, meteredness, limit or (with a session open) the cache -/
theorem run_pres (cfg : Cfg K V) (p : Prog K V C E α) :
    ∀ (s : St K V) (m : Vol C V) (e : E), Pres s (p.run cfg s m e).2.1 := by
  induction p with
  | ret a => intro s m e; exact Pres.refl s
  | fail => intro s m e; exact Pres.refl s
  | get k κ ih =>
    intro s m e; simp only [Prog.run]
    exact (get_moved cfg s k).pres.trans (ih _ _ _ _)
  | has k κ ih =>
    intro s m e; simp only [Prog.run]
    exact (has_moved cfg s k).pres.trans (ih _ _ _ _)
  | set k v κ ih =>
    intro s m e; simp only [Prog.run]
    exact (set_pres cfg s k v).trans (ih _ _ _ _)
  | del k κ ih =>
    intro s m e; simp only [Prog.run]
    exact (del_pres cfg s k).trans (ih _ _ _)
  | iter lo hi asc κ ih =>
    intro s m e; simp only [Prog.run]
    exact (iter_moved cfg s lo hi asc).pres.trans (ih _ _ _ _)
  | iterAll lo hi asc κ ih =>
    intro s m e; simp only [Prog.run]
    exact (iterAll_moved cfg s lo hi asc).pres.trans (ih _ _ _ _)
  | getv ver k κ ih => intro s m e; simp only [Prog.run]; exact ih _ _ _ _
  | gas κ ih => intro s m e; simp only [Prog.run]; exact ih _ _ _ _
  | burn a κ ih =>
    intro s m e; simp only [Prog.run]
    exact Pres.trans (GasMoved.pres ⟨_, rfl⟩) (ih _ _ _)
  | vget c κ ih => intro s m e; simp only [Prog.run]; exact ih _ _ _ _
  | vset c v κ ih => intro s m e; simp only [Prog.run]; exact ih _ _ _
  | env κ ih => intro s m e; simp only [Prog.run]; exact ih _ _ _ _

/-- fact (2): a program without `vset` returns the volatile memory it was given -/
theorem run_noVset (cfg : Cfg K V) (p : Prog K V C E α) :
    ∀ (s : St K V) (m : Vol C V) (e : E), p.NoVset → (p.run cfg s m e).2.2 = m := by
  induction p with
  | ret a => intro s m e _; rfl
  | fail => intro s m e _; rfl
  | get k κ ih => intro s m e h; simp only [Prog.NoVset] at h; simp only [Prog.run]; exact ih _ _ _ _ (h _)
  | has k κ ih => intro s m e h; simp only [Prog.NoVset] at h; simp only [Prog.run]; exact ih _ _ _ _ (h _)
  | set k v κ ih => intro s m e h; simp only [Prog.NoVset] at h; simp only [Prog.run]; exact ih _ _ _ _ (h _)
  | del k κ ih => intro s m e h; simp only [Prog.NoVset] at h; simp only [Prog.run]; exact ih _ _ _ h
  | iter lo hi asc κ ih =>
    intro s m e h; simp only [Prog.NoVset] at h; simp only [Prog.run]; exact ih _ _ _ _ (h _)
  | iterAll lo hi asc κ ih =>
    intro s m e h; simp only [Prog.NoVset] at h; simp only [Prog.run]; exact ih _ _ _ _ (h _)
  | getv ver k κ ih => intro s m e h; simp only [Prog.NoVset] at h; simp only [Prog.run]; exact ih _ _ _ _ (h _)
  | gas κ ih => intro s m e h; simp only [Prog.NoVset] at h; simp only [Prog.run]; exact ih _ _ _ _ (h _)
  | burn a κ ih => intro s m e h; simp only [Prog.NoVset] at h; simp only [Prog.run]; exact ih _ _ _ h
  | vget c κ ih => intro s m e h; simp only [Prog.NoVset] at h; simp only [Prog.run]; exact ih _ _ _ _ (h _)
  | vset c v κ ih => intro s m e h; simp only [Prog.NoVset] at h
  | env κ ih => intro s m e h; simp only [Prog.NoVset] at h; simp only [Prog.run]; exact ih _ _ _ _ (h _)

/-! ### gas shifts -/

theorem ShiftSt.rfl0 (s : St K V) : ShiftSt 0 s s := by
  unfold ShiftSt; rw [Int.add_zero]

theorem ShiftOv.rfl0 (o : Ov K V) : ShiftOv 0 o o := by
  unfold ShiftOv; rw [Int.add_zero]

theorem ShiftOv.trans {d d' : Int} {a b c : Ov K V} (h1 : ShiftOv d a b) (h2 : ShiftOv d' b c) :
    ShiftOv (d + d') a c := by
  unfold ShiftOv at *
  subst h1; subst h2
  simp only [Int.add_assoc]

theorem ShiftOv.sess {d : Int} {a b : Ov K V} (h : ShiftOv d a b) : b.sess = a.sess := by
  unfold ShiftOv at h; subst h; rfl

theorem ShiftOv.cache {d : Int} {a b : Ov K V} (h : ShiftOv d a b) : b.cache = a.cache := by
  unfold ShiftOv at h; subst h; rfl

theorem ShiftOv.toSt {d : Int} {a b : Ov K V} (h : ShiftOv d a b) (t : Tree K V) :
    ShiftSt d (a.toSt t) (b.toSt t) := by
  unfold ShiftOv at h; subst h; rfl

theorem ShiftSt.ovOf {d : Int} {s s' : St K V} (h : ShiftSt d s s') : ShiftOv d (ovOf s) (ovOf s') := by
  unfold ShiftSt at h; subst h; rfl

theorem ShiftSt.tree {d : Int} {s s' : St K V} (h : ShiftSt d s s') : s'.tree = s.tree := by
  unfold ShiftSt at h; subst h; rfl

theorem ShiftSt.consumed {d : Int} {s s' : St K V} (h : ShiftSt d s s') :
    s'.gas.consumed = s.gas.consumed + d := by
  unfold ShiftSt at h; subst h; rfl

/-- fact (3) for `BeginTxSession` -/
theorem ShiftSt.begin {d : Int} {s s' : St K V} (h : ShiftSt d s s') : ShiftSt d s.begin s'.begin := by
  unfold ShiftSt at h; subst h; rfl

/-- a state differing from an overlay only in the gas level is a shift of it -/
theorem shiftOv_of (o o' : Ov K V) (h1 : o'.sess = o.sess) (h2 : o'.cache = o.cache)
    (h3 : o'.metered = o.metered) (h4 : o'.gas.limit = o.gas.limit) :
    ShiftOv (o'.gas.consumed - o.gas.consumed) o o' := by
  obtain ⟨a, b, c, ⟨l, g⟩⟩ := o
  obtain ⟨a', b', c', ⟨l', g'⟩⟩ := o'
  simp only at h1 h2 h3 h4
  subst h1; subst h2; subst h3; subst h4
  unfold ShiftOv
  simp only
  congr 2
  omega

/-! ### the end of a transaction: CommitTxSession or DiscardTxSession -/

/-- the state the shell leaves behind after the handler and fee programs -/
def finSt (ok : Bool) (s2 : St K V) : St K V :=
  if ok then (match s2.csess with | some s => s | none => s2) else s2.dsess

theorem finSt_tree (ok : Bool) (s : St K V) : (finSt ok s).tree = s.tree := by
  obtain ⟨se, ca, me, ga, tr⟩ := s
  cases se <;> cases ok <;> rfl

theorem finSt_gas (ok : Bool) (s : St K V) : (finSt ok s).gas = s.gas := by
  obtain ⟨se, ca, me, ga, tr⟩ := s
  cases se <;> cases ok <;> rfl

theorem finSt_metered (ok : Bool) (s : St K V) : (finSt ok s).metered = s.metered := by
  obtain ⟨se, ca, me, ga, tr⟩ := s
  cases se <;> cases ok <;> rfl

theorem finSt_sess (ok : Bool) (s : St K V) : (finSt ok s).sess = none := by
  obtain ⟨se, ca, me, ga, tr⟩ := s
  cases se <;> cases ok <;> rfl

theorem finSt_false_cache (s : St K V) : (finSt false s).cache = s.cache := rfl

/-- fact (3) for `CommitTxSession` / `DiscardTxSession` -/
theorem ShiftSt.finSt {d : Int} {s s' : St K V} (ok : Bool) (h : ShiftSt d s s') :
    ShiftSt d (finSt ok s) (finSt ok s') := by
  unfold ShiftSt at h; subst h
  obtain ⟨se, ca, me, ga, tr⟩ := s
  cases se <;> cases ok <;> rfl

/-! ### the body of `txDeliverer` -/

variable (cfg : Cfg K V) (hs : Handlers K V C E T H D) (e : E)

/-- Validate, then (if it succeeded) ProcessDeliver and ProcessFee (always called), from a given
    state and volatile memory; the response, the state before the session is closed, the memory -/
def txRun (tx : T) (s0 : St K V) (m : Vol C V) : TxRes D × St K V × Vol C V :=
  let rv := (hs.validate tx).run cfg s0 m e
  match rv.1 with
  | none => ({ ok := false, data := none, gasUsed := 0 }, rv.2.1, rv.2.2)
  | some _ =>
    let r1 := (hs.deliver tx).run cfg rv.2.1 rv.2.2 e
    let r2 := (hs.fee tx s0.gas.consumed).run cfg r1.2.1 r1.2.2 e
    ({ ok := r1.1.isSome && r2.1.isSome && !gasOut r2.2.1.gas, data := r1.1, gasUsed := r2.1.getD 0 },
     r2.2.1, r2.2.2)

theorem txRun_pres (tx : T) (s0 : St K V) (m : Vol C V) : Pres s0 (txRun cfg hs e tx s0 m).2.1 := by
  unfold txRun
  simp only
  split
  · exact run_pres cfg _ _ _ e
  · exact ((run_pres cfg (hs.validate tx) s0 m e).trans (run_pres cfg _ _ _ e)).trans
      (run_pres cfg _ _ _ e)

theorem txRun_vol (hnv : DeliverNoVset hs) (tx : T) (s0 : St K V) (m : Vol C V) :
    (txRun cfg hs e tx s0 m).2.2 = m := by
  unfold txRun
  simp only
  split
  · exact run_noVset cfg _ _ _ e (hnv tx).1
  · simp only
    rw [run_noVset cfg _ _ _ e ((hnv tx).2.2 _), run_noVset cfg _ _ _ e (hnv tx).2.1,
      run_noVset cfg _ _ _ e (hnv tx).1]

theorem txRun_shift (hb : GasBlind cfg hs) (tx : T) (d : Int) (s s' : St K V) (m : Vol C V)
    (h : ShiftSt d s s') :
    (txRun cfg hs e tx s' m).1 = (txRun cfg hs e tx s m).1 ∧
    ShiftSt d (txRun cfg hs e tx s m).2.1 (txRun cfg hs e tx s' m).2.1 ∧
    (txRun cfg hs e tx s' m).2.2 = (txRun cfg hs e tx s m).2.2 := by
  obtain ⟨ev, shv, vv⟩ := hb.validate tx d s s' m e h
  unfold txRun
  simp only
  rw [ev, vv, h.consumed]
  cases ((hs.validate tx).run cfg s m e).1 with
  | none => exact ⟨rfl, shv, rfl⟩
  | some u =>
    simp only
    obtain ⟨e1, sh1, v1⟩ := hb.deliver tx d _ _ ((hs.validate tx).run cfg s m e).2.2 e shv
    have hf := hb.fee tx s.gas.consumed d _ _
      ((hs.deliver tx).run cfg ((hs.validate tx).run cfg s m e).2.1
        ((hs.validate tx).run cfg s m e).2.2 e).2.2 e sh1
    have ho := hb.out tx s.gas.consumed d _ _
      ((hs.deliver tx).run cfg ((hs.validate tx).run cfg s m e).2.1
        ((hs.validate tx).run cfg s m e).2.2 e).2.2 e sh1
    rw [v1, e1, hf.1, hf.2.2, ho]
    exact ⟨rfl, hf.2.1, rfl⟩

/-- the index-miss branch of `deliverTx` -/
def deliverCore (n : Node K V C T H D) (tx : T) : Node K V C T H D × TxRes D :=
  let x := txRun cfg hs e tx (n.dlv.toSt n.tree).begin n.vol
  let s3 := finSt x.1.ok x.2.1
  ({ n with dlv := ovOf s3, tree := s3.tree, vol := x.2.2, aim := .deliver }, x.1)

theorem deliverTx_hit (n : Node K V C T H D) (tx : T) (r : TxRes D)
    (h : lookupIdx n.idx (hs.hash tx) = some r) : deliverTx cfg hs e n tx = (n, r) := by
  unfold deliverTx; rw [h]

theorem deliverTx_miss (n : Node K V C T H D) (tx : T)
    (h : lookupIdx n.idx (hs.hash tx) = none) :
    deliverTx cfg hs e n tx = deliverCore cfg hs e n tx := by
  unfold deliverTx deliverCore txRun
  rw [h]
  simp only
  cases ((hs.validate tx).run cfg (n.dlv.toSt n.tree).begin n.vol e).1 <;> rfl

theorem checkTx_hit (n : Node K V C T H D) (tx : T) (r : TxRes D)
    (h : lookupIdx n.idx (hs.hash tx) = some r) : checkTx cfg hs e n tx = (n, false) := by
  unfold checkTx; rw [h]

theorem deliverCore_frame (n : Node K V C T H D) (tx : T) :
    (deliverCore cfg hs e n tx).1.tree = n.tree ∧ (deliverCore cfg hs e n tx).1.chk = n.chk ∧
    (deliverCore cfg hs e n tx).1.idx = n.idx ∧ (deliverCore cfg hs e n tx).1.height = n.height ∧
    (deliverCore cfg hs e n tx).1.closed = n.closed ∧
    (deliverCore cfg hs e n tx).1.dlv.sess = none ∧
    (deliverCore cfg hs e n tx).1.dlv.metered = n.dlv.metered ∧
    (deliverCore cfg hs e n tx).1.dlv.gas.limit = n.dlv.gas.limit ∧
    ((deliverCore cfg hs e n tx).2.ok = false →
      (deliverCore cfg hs e n tx).1.dlv.cache = n.dlv.cache) := by
  have hp := txRun_pres cfg hs e tx (n.dlv.toSt n.tree).begin n.vol
  refine ⟨?_, rfl, rfl, rfl, rfl, ?_, ?_, ?_, ?_⟩
  · show (finSt _ _).tree = n.tree
    rw [finSt_tree, hp.tree]; rfl
  · show (finSt _ _).sess = none
    exact finSt_sess _ _
  · show (finSt _ _).metered = n.dlv.metered
    rw [finSt_metered, hp.metered]; rfl
  · show (finSt _ _).gas.limit = n.dlv.gas.limit
    rw [finSt_gas, hp.limit]; rfl
  · intro hf
    have hf' : (txRun cfg hs e tx (n.dlv.toSt n.tree).begin n.vol).1.ok = false := hf
    show (finSt _ _).cache = n.dlv.cache
    rw [hf', finSt_false_cache, hp.cache rfl]; rfl

theorem deliverCore_vol (hnv : DeliverNoVset hs) (n : Node K V C T H D) (tx : T) :
    (deliverCore cfg hs e n tx).1.vol = n.vol :=
  txRun_vol cfg hs e hnv tx _ _

/-! ### `ShiftNode` -/

theorem ShiftNode.rfl0 (n : Node K V C T H D) : ShiftNode 0 n n :=
  ⟨rfl, ShiftOv.rfl0 _, rfl, rfl, rfl, rfl, rfl⟩

theorem ShiftNode.trans {d d' : Int} {a b c : Node K V C T H D} (h1 : ShiftNode d a b)
    (h2 : ShiftNode d' b c) : ShiftNode (d + d') a c := by
  obtain ⟨a1, a2, a3, a4, a5, a6, a7⟩ := h1
  obtain ⟨b1, b2, b3, b4, b5, b6, b7⟩ := h2
  exact ⟨b1.trans a1, a2.trans b2, b3.trans a3, b4.trans a4, b5.trans a5, b6.trans a6, b7.trans a7⟩

/-- (C) no session is open after `deliverTx` if none was before -/
theorem deliverTx_sess_none (n : Node K V C T H D) (tx : T) (h0 : n.dlv.sess = none) :
    (deliverTx cfg hs e n tx).1.dlv.sess = none := by
  cases h : lookupIdx n.idx (hs.hash tx) with
  | some r => rw [deliverTx_hit cfg hs e n tx r h]; exact h0
  | none => rw [deliverTx_miss cfg hs e n tx h]; exact (deliverCore_frame cfg hs e n tx).2.2.2.2.2.1

/-- (B) a failed transaction only advances the gas level -/
theorem deliverTx_failed_shift (hnv : DeliverNoVset hs) (n : Node K V C T H D) (tx : T)
    (h0 : n.dlv.sess = none) (hf : (deliverTx cfg hs e n tx).2.ok = false) :
    ∃ d, ShiftNode d n (deliverTx cfg hs e n tx).1 := by
  cases h : lookupIdx n.idx (hs.hash tx) with
  | some r => rw [deliverTx_hit cfg hs e n tx r h]; exact ⟨0, ShiftNode.rfl0 n⟩
  | none =>
    rw [deliverTx_miss cfg hs e n tx h] at hf ⊢
    obtain ⟨f1, f2, f3, f4, f5, f6, f7, f8, f9⟩ := deliverCore_frame cfg hs e n tx
    exact ⟨_, f1, shiftOv_of _ _ (f6.trans h0.symm) (f9 hf) f7 f8, f2,
      deliverCore_vol cfg hs e hnv n tx, f3, f4, f5⟩

/-- (A) `deliverTx` commutes with gas shifts of the deliver state -/
theorem deliverTx_shift (hb : GasBlind cfg hs) (d : Int) (n n' : Node K V C T H D) (tx : T)
    (h : ShiftNode d n n') :
    (deliverTx cfg hs e n' tx).2 = (deliverTx cfg hs e n tx).2 ∧
    ShiftNode d (deliverTx cfg hs e n tx).1 (deliverTx cfg hs e n' tx).1 := by
  obtain ⟨h1, h2, h3, h4, h5, h6, h7⟩ := h
  cases hl : lookupIdx n.idx (hs.hash tx) with
  | some r =>
    have hl' : lookupIdx n'.idx (hs.hash tx) = some r := by rw [h5]; exact hl
    rw [deliverTx_hit cfg hs e n tx r hl, deliverTx_hit cfg hs e n' tx r hl']
    exact ⟨rfl, h1, h2, h3, h4, h5, h6, h7⟩
  | none =>
    have hl' : lookupIdx n'.idx (hs.hash tx) = none := by rw [h5]; exact hl
    rw [deliverTx_miss cfg hs e n tx hl, deliverTx_miss cfg hs e n' tx hl']
    have hs0 : ShiftSt d (n.dlv.toSt n.tree).begin (n'.dlv.toSt n'.tree).begin := by
      rw [h1]; exact (h2.toSt n.tree).begin
    obtain ⟨x1, x2, x3⟩ := txRun_shift cfg hs e hb tx d _ _ n.vol hs0
    unfold deliverCore
    simp only
    rw [h4, x1, x3]
    have hfin := x2.finSt (txRun cfg hs e tx (n.dlv.toSt n.tree).begin n.vol).1.ok
    exact ⟨rfl, hfin.tree, hfin.ovOf, h3, rfl, h5, h6, h7⟩

/-! ### lists of transactions -/

theorem survivors_cons (tx : T) (txs : List T) (r : TxRes D) (rs : List (TxRes D)) :
    survivors (tx :: txs) (r :: rs) =
      if r.ok then tx :: survivors txs rs else survivors txs rs := by
  unfold survivors
  cases h : r.ok <;> simp [h]

theorem deliverAll_cons (n : Node K V C T H D) (tx : T) (txs : List T) :
    deliverAll cfg hs e n (tx :: txs) =
      ((deliverAll cfg hs e (deliverTx cfg hs e n tx).1 txs).1,
       (deliverTx cfg hs e n tx).2 :: (deliverAll cfg hs e (deliverTx cfg hs e n tx).1 txs).2) := rfl

theorem deliverAll_length (n : Node K V C T H D) (txs : List T) :
    (deliverAll cfg hs e n txs).2.length = txs.length := by
  induction txs generalizing n with
  | nil => rfl
  | cons tx txs ih => rw [deliverAll_cons]; simp [ih]

/-- fact (4): the general form of `remove_failed_deliverAll` -/
theorem deliverAll_shift (hb : GasBlind cfg hs) (hnv : DeliverNoVset hs) (txs : List T) :
    ∀ (d : Int) (n n' : Node K V C T H D), ShiftNode d n n' → n.dlv.sess = none →
      (deliverAll cfg hs e n (survivors txs (deliverAll cfg hs e n' txs).2)).2 =
        (deliverAll cfg hs e n' txs).2.filter (·.ok) ∧
      ∃ d', ShiftNode d' (deliverAll cfg hs e n (survivors txs (deliverAll cfg hs e n' txs).2)).1
        (deliverAll cfg hs e n' txs).1 := by
  induction txs with
  | nil => intro d n n' h _; exact ⟨rfl, d, h⟩
  | cons tx txs ih =>
    intro d n n' h h0
    have h0' : n'.dlv.sess = none := h.2.1.sess.trans h0
    rw [deliverAll_cons, survivors_cons]
    simp only
    cases hok : (deliverTx cfg hs e n' tx).2.ok with
    | true =>
      obtain ⟨a1, a2⟩ := deliverTx_shift cfg hs e hb d n n' tx h
      obtain ⟨i1, i2⟩ := ih d _ _ a2 (deliverTx_sess_none cfg hs e n tx h0)
      simp only [if_true, deliverAll_cons, List.filter_cons, hok]
      rw [← a1] at *
      exact ⟨by rw [i1], i2⟩
    | false =>
      obtain ⟨d2, b⟩ := deliverTx_failed_shift cfg hs e hnv n' tx h0' hok
      obtain ⟨i1, i2⟩ := ih (d + d2) n _ (h.trans b) h0
      simp only [List.filter_cons, hok]
      exact ⟨i1, i2⟩

/-! ### block hooks -/

theorem runHook_frame (n : Node K V C T H D) (hk : Bool × Prog K V C E Unit) :
    (runHook cfg e n hk).tree = n.tree ∧ (runHook cfg e n hk).idx = n.idx ∧
    (runHook cfg e n hk).height = n.height ∧
    (n.dlv.sess = none → (runHook cfg e n hk).dlv.sess = none) := by
  unfold runHook
  split
  · refine ⟨rfl, rfl, rfl, fun h0 => ?_⟩
    exact (run_pres cfg hk.2 (n.dlv.unmetered n.tree) n.vol e).sess_none h0
  · exact ⟨rfl, rfl, rfl, fun h0 => h0⟩

/-- block hooks run unmetered: meter and meteredness of the deliver state are what they were -/
theorem runHook_gas (n : Node K V C T H D) (hk : Bool × Prog K V C E Unit) :
    (runHook cfg e n hk).dlv.gas = n.dlv.gas ∧ (runHook cfg e n hk).dlv.metered = n.dlv.metered := by
  unfold runHook
  split <;> exact ⟨rfl, rfl⟩

theorem foldl_runHook_gas (hooks : List (Bool × Prog K V C E Unit)) (n : Node K V C T H D) :
    (hooks.foldl (runHook cfg e) n).dlv.gas = n.dlv.gas ∧
    (hooks.foldl (runHook cfg e) n).dlv.metered = n.dlv.metered := by
  induction hooks generalizing n with
  | nil => exact ⟨rfl, rfl⟩
  | cons hk t ih =>
    rw [List.foldl_cons]
    obtain ⟨a1, a2⟩ := ih (runHook cfg e n hk)
    obtain ⟨b1, b2⟩ := runHook_gas cfg e n hk
    exact ⟨a1.trans b1, a2.trans b2⟩

theorem foldl_runHook_frame (hooks : List (Bool × Prog K V C E Unit)) (n : Node K V C T H D) :
    (hooks.foldl (runHook cfg e) n).tree = n.tree ∧ (hooks.foldl (runHook cfg e) n).idx = n.idx ∧
    (hooks.foldl (runHook cfg e) n).height = n.height ∧
    (n.dlv.sess = none → (hooks.foldl (runHook cfg e) n).dlv.sess = none) := by
  induction hooks generalizing n with
  | nil => exact ⟨rfl, rfl, rfl, fun h => h⟩
  | cons hk t ih =>
    rw [List.foldl_cons]
    obtain ⟨a1, a2, a3, a4⟩ := ih (runHook cfg e n hk)
    obtain ⟨b1, b2, b3, b4⟩ := runHook_frame cfg e n hk
    exact ⟨a1.trans b1, a2.trans b2, a3.trans b3, fun h => a4 (b4 h)⟩

theorem beginBlock_frame (n : Node K V C T H D) :
    (beginBlock cfg hs e n).tree = n.tree ∧ (beginBlock cfg hs e n).idx = n.idx ∧
    (beginBlock cfg hs e n).height = n.height ∧ (beginBlock cfg hs e n).dlv.sess = none := by
  obtain ⟨a1, a2, a3, a4⟩ :=
    foldl_runHook_frame cfg e (hs.begin (n.height + 1)) { n with dlv := Ov.fresh hs.gasLimit }
  exact ⟨a1, a2, a3, a4 rfl⟩

theorem endBlock_frame (n : Node K V C T H D) :
    (endBlock cfg hs e n).tree = n.tree ∧ (endBlock cfg hs e n).idx = n.idx ∧
    (endBlock cfg hs e n).height = n.height :=
  let ⟨a1, a2, a3, _⟩ := foldl_runHook_frame cfg e (hs.endb (n.height + 1)) n
  ⟨a1, a2, a3⟩

/-- an aimed hook sees neither the level nor the limit of the block's meter: run from two nodes
    that differ in the level only, it does the same and leaves the same difference -/
theorem runHook_shift (d : Int) (a b : Node K V C T H D) (hk : Bool × Prog K V C E Unit)
    (haim : hk.1 = true) (h : ShiftNode d a b) :
    ShiftNode d (runHook cfg e a hk) (runHook cfg e b hk) := by
  obtain ⟨h1, h2, h3, h4, h5, h6, h7⟩ := h
  have hu : b.dlv.unmetered b.tree = a.dlv.unmetered a.tree := by
    unfold Ov.unmetered
    rw [h1, h2.sess, h2.cache]
  unfold runHook
  simp only [haim, Bool.true_or, if_true]
  rw [hu, h4]
  refine ⟨h1, ?_, h3, rfl, h5, h6, h7⟩
  unfold ShiftOv at h2 ⊢
  rw [h2]

theorem foldl_runHook_shift (d : Int) (hooks : List (Bool × Prog K V C E Unit))
    (hh : ∀ hk ∈ hooks, hk.1 = true) (a b : Node K V C T H D)
    (h : ShiftNode d a b) :
    ShiftNode d (hooks.foldl (runHook cfg e) a) (hooks.foldl (runHook cfg e) b) := by
  induction hooks generalizing a b with
  | nil => exact h
  | cons hk t ih =>
    rw [List.foldl_cons, List.foldl_cons]
    have hk' := hh hk (List.mem_cons_self ..)
    exact ih (fun x hx => hh x (List.mem_cons_of_mem _ hx)) _ _
      (runHook_shift cfg e d a b hk hk' h)

/-- EndBlock commutes with gas shifts of the deliver state, whatever the hooks do and whatever the
    level: they run unmetered -/
theorem endBlock_shift (ha : AllAimed hs) (d : Int)
    (a b : Node K V C T H D) (h : ShiftNode d a b) :
    ShiftNode d (endBlock cfg hs e a) (endBlock cfg hs e b) := by
  unfold endBlock
  rw [h.2.2.2.2.2.1]
  exact foldl_runHook_shift cfg e d _ (fun hk hm => (ha _).2 hk hm) a b h

/-- EndBlock leaves the block's meter where the last transaction left it -/
theorem endBlock_gas (n : Node K V C T H D) :
    (endBlock cfg hs e n).dlv.gas = n.dlv.gas ∧ (endBlock cfg hs e n).dlv.metered = n.dlv.metered :=
  foldl_runHook_gas cfg e _ n

/-- the transactions of a block find the meter at 0, whatever the BeginBlock hooks did -/
theorem beginBlock_gas (n : Node K V C T H D) :
    (beginBlock cfg hs e n).dlv.gas = ⟨hs.gasLimit, 0⟩ ∧ (beginBlock cfg hs e n).dlv.metered = true :=
  foldl_runHook_gas cfg e _ { n with dlv := Ov.fresh hs.gasLimit }

theorem commit_frame (n : Node K V C T H D) :
    (commit cfg hs n).idx = n.idx ∧ (commit cfg hs n).vol = n.vol ∧
    (commit cfg hs n).height = n.height + 1 ∧
    (commit cfg hs n).tree = (writeInto cfg n.tree n.dlv.cache).commit := ⟨rfl, rfl, rfl, rfl⟩

theorem commit_shift (d : Int) (a b : Node K V C T H D) (h : ShiftNode d a b) :
    (commit cfg hs b).tree = (commit cfg hs a).tree ∧ (commit cfg hs b).vol = (commit cfg hs a).vol ∧
    (commit cfg hs b).height = (commit cfg hs a).height := by
  obtain ⟨h1, h2, h3, h4, h5, h6, h7⟩ := h
  refine ⟨?_, h4, ?_⟩
  · rw [(commit_frame cfg hs b).2.2.2, (commit_frame cfg hs a).2.2.2, h1, h2.cache]
  · rw [(commit_frame cfg hs b).2.2.1, (commit_frame cfg hs a).2.2.1, h6]

/-! ### the index -/

theorem deliverTx_idx (n : Node K V C T H D) (tx : T) : (deliverTx cfg hs e n tx).1.idx = n.idx := by
  cases h : lookupIdx n.idx (hs.hash tx) with
  | some r => rw [deliverTx_hit cfg hs e n tx r h]
  | none => rw [deliverTx_miss cfg hs e n tx h]; rfl

theorem deliverAll_idx (n : Node K V C T H D) (txs : List T) :
    (deliverAll cfg hs e n txs).1.idx = n.idx := by
  induction txs generalizing n with
  | nil => rfl
  | cons tx txs ih => rw [deliverAll_cons]; exact (ih _).trans (deliverTx_idx cfg hs e n tx)

theorem execBlock_idx (n : Node K V C T H D) (txs : List T) :
    (execBlock cfg hs e n txs).1.idx =
      n.idx ++ (txs.zip (deliverAll cfg hs e (beginBlock cfg hs e n) txs).2).map
        (fun p => (hs.hash p.1, p.2)) := by
  show (commit cfg hs (endBlock cfg hs e (deliverAll cfg hs e (beginBlock cfg hs e n) txs).1)).idx ++ _ = _
  rw [(commit_frame cfg hs _).1, (endBlock_frame cfg hs e _).2.1, deliverAll_idx,
    (beginBlock_frame cfg hs e n).2.1]

theorem execBlock_lookup_stable (n : Node K V C T H D) (txs : List T) (h : H) (r : TxRes D)
    (hl : lookupIdx n.idx h = some r) : lookupIdx (execBlock cfg hs e n txs).1.idx h = some r := by
  rw [execBlock_idx]
  exact alookup_append_of_some h _ _ r hl

theorem execBlocks_lookup_stable (blocks : List (List T)) (n : Node K V C T H D) (h : H)
    (r : TxRes D) (hl : lookupIdx n.idx h = some r) :
    lookupIdx (execBlocks cfg hs e n blocks).1.idx h = some r := by
  induction blocks generalizing n with
  | nil => exact hl
  | cons b bs ih =>
    show lookupIdx (execBlocks cfg hs e (execBlock cfg hs e n b).1 bs).1.idx h = some r
    exact ih _ (execBlock_lookup_stable cfg hs e n b h r hl)

theorem execBlock_indexed (n : Node K V C T H D) (txs : List T) (tx : T) (hm : tx ∈ txs) :
    (lookupIdx (execBlock cfg hs e n txs).1.idx (hs.hash tx)).isSome = true := by
  rw [execBlock_idx]
  apply alookup_append_isSome_right
  rw [← mem_akeys_iff_alookup]
  have hlen := deliverAll_length cfg hs e (beginBlock cfg hs e n) txs
  have : akeys ((txs.zip (deliverAll cfg hs e (beginBlock cfg hs e n) txs).2).map
      (fun p => (hs.hash p.1, p.2))) = txs.map hs.hash := by
    unfold akeys
    rw [List.map_map]
    have : ((fun x : H × TxRes D => x.1) ∘ fun p : T × TxRes D => (hs.hash p.1, p.2)) =
        hs.hash ∘ Prod.fst := rfl
    rw [this, ← List.map_map, List.map_fst_zip (by omega)]
  rw [this]
  exact List.mem_map_of_mem hm

end OLP.Shell

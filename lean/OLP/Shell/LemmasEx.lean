/-
  Layer S — helper lemmas for the guarded form of C05 (`replay_any_encoding_noop_guarded`) and for
  the non-vacuity instances of C01, C05, C07, C08.
-/
import OLP.Shell.LemmasA
import OLP.Shell.LemmasB

set_option linter.unusedSectionVars false

namespace OLP.Shell
open OLP OLP.KV

variable {K V C E α T H D : Type} [DecidableEq K] [DecidableEq V] [DecidableEq C] [DecidableEq H]
variable (cfg : Cfg K V) (hs : Handlers K V C E T H D) (e : E)

/-! ### a transaction whose Validate program is `.fail` -/

/-- DeliverTx of bytes that are not in the index and whose Validate program is `.fail`: the session
    that was opened is discarded, the response is `ok = false` with no data and no gas, and nothing
    else of the node changes (the singletons are now aimed at the deliver state) -/
theorem deliverTx_validate_fail (n : Node K V C T H D) (tx : T) (hv : hs.validate tx = .fail)
    (hmiss : lookupIdx n.idx (hs.hash tx) = none) :
    deliverTx cfg hs e n tx =
      ({ n with dlv := { n.dlv with sess := none }, aim := .deliver },
       { ok := false, data := none, gasUsed := 0 }) := by
  unfold deliverTx
  rw [hmiss, hv]
  rfl

/-- CheckTx of such bytes is rejected -/
theorem checkTx_validate_fail (n : Node K V C T H D) (tx : T) (hv : hs.validate tx = .fail) :
    (checkTx cfg hs e n tx).2 = false := by
  unfold checkTx
  cases lookupIdx n.idx (hs.hash tx) with
  | some r => rfl
  | none => simp only [hv]; rfl

/-! ### the index -/

theorem alookup_mem {β : Type} (k : H) (l : List (H × β)) (v : β) (h : alookup k l = some v) :
    (k, v) ∈ l := by
  induction l with
  | nil => cases h
  | cons hd t ih =>
    obtain ⟨k', v'⟩ := hd
    by_cases hk : k' = k
    · simp only [alookup, hk, if_true, Option.some.injEq] at h
      subst hk; subst h
      exact List.mem_cons_self ..
    · simp only [alookup, hk, if_false] at h
      exact List.mem_cons_of_mem _ (ih h)

/-- every recorded pair of a list of transactions is the response `deliverTx` gave from a node
    with the index of the start node -/
theorem deliverAll_zip_mem (txs : List T) (n : Node K V C T H D) (t : T) (r : TxRes D)
    (hm : (t, r) ∈ txs.zip (deliverAll cfg hs e n txs).2) :
    ∃ m : Node K V C T H D, m.idx = n.idx ∧ r = (deliverTx cfg hs e m t).2 := by
  induction txs generalizing n with
  | nil => cases hm
  | cons tx txs ih =>
    rw [deliverAll_cons] at hm
    simp only [List.zip_cons_cons, List.mem_cons, Prod.mk.injEq] at hm
    rcases hm with ⟨rfl, rfl⟩ | hm
    · exact ⟨n, rfl, rfl⟩
    · obtain ⟨m, h1, h2⟩ := ih _ hm
      exact ⟨m, h1.trans (deliverTx_idx cfg hs e n tx), h2⟩

theorem midBlock_idx (n : Node K V C T H D) (txs : List T) (k : Nat) (ended : Bool) :
    (midBlock cfg hs e n txs k ended).idx = n.idx := (midBlock_frame cfg hs e n txs k ended).2.1

/-! ### volatile memory along the deliver path and the hooks -/

theorem deliverTx_vol (hnv : DeliverNoVset hs) (n : Node K V C T H D) (tx : T) :
    (deliverTx cfg hs e n tx).1.vol = n.vol := by
  cases h : lookupIdx n.idx (hs.hash tx) with
  | some r => rw [deliverTx_hit cfg hs e n tx r h]
  | none => rw [deliverTx_miss cfg hs e n tx h]; exact deliverCore_vol cfg hs e hnv n tx

theorem deliverAll_vol (hnv : DeliverNoVset hs) (txs : List T) (n : Node K V C T H D) :
    (deliverAll cfg hs e n txs).1.vol = n.vol := by
  induction txs generalizing n with
  | nil => rfl
  | cons tx txs ih => rw [deliverAll_cons]; exact (ih _).trans (deliverTx_vol cfg hs e hnv n tx)

/-- hooks without `vset` leave the volatile memory alone -/
theorem hooks_vol (hks : List (Bool × Prog K V C E Unit)) (h : ∀ hk ∈ hks, hk.2.NoVset)
    (n : Node K V C T H D) : (hks.foldl (runHook cfg e) n).vol = n.vol := by
  induction hks generalizing n with
  | nil => rfl
  | cons hk t ih =>
    rw [List.foldl_cons, ih (fun x hx => h x (List.mem_cons_of_mem _ hx))]
    have hn := h hk (List.mem_cons_self ..)
    unfold runHook
    split
    · exact run_noVset cfg _ _ _ e hn
    · exact run_noVset cfg _ _ _ e hn

/-! ### a key no deliver-path program writes

  Used by the non-vacuity instance of C08: the value an EndBlock hook stores under a key of its own
  is what the next tree holds there, because no transaction touches that key. -/

/-- the program never writes or deletes key `k` -/
def Prog.Avoids (k : K) : Prog K V C E α → Prop
  | .ret _ | .fail => True
  | .get _ κ => ∀ x, (κ x).Avoids k
  | .has _ κ => ∀ x, (κ x).Avoids k
  | .set k' _ κ => k' ≠ k ∧ ∀ x, (κ x).Avoids k
  | .del k' κ => k' ≠ k ∧ κ.Avoids k
  | .iter _ _ _ κ => ∀ x, (κ x).Avoids k
  | .iterAll _ _ _ κ => ∀ x, (κ x).Avoids k
  | .getv _ _ κ => ∀ x, (κ x).Avoids k
  | .gas κ => ∀ x, (κ x).Avoids k
  | .burn _ κ => κ.Avoids k
  | .vget _ κ => ∀ x, (κ x).Avoids k
  | .vset _ _ κ => κ.Avoids k
  | .env κ => ∀ x, (κ x).Avoids k

/-- neither overlay of the state holds key `k` -/
def KeyFree (k : K) (s : St K V) : Prop :=
  k ∉ akeys s.cache ∧ ∀ o, s.sess = some o → k ∉ akeys o

theorem GasMoved.keyFree {k : K} {s s' : St K V} (h : GasMoved s s') (hf : KeyFree k s) :
    KeyFree k s' := by
  obtain ⟨g, rfl⟩ := h
  exact hf

theorem not_mem_akeys_upsert (l : List (K × V)) (k k' : K) (v : V) (hne : k' ≠ k)
    (h : k ∉ akeys l) : k ∉ akeys (upsert l k' v) := by
  rw [mem_akeys_upsert]
  intro hm
  rcases hm with hm | hm
  · exact hne hm.symm
  · exact h hm

theorem set_keyFree (c : Cfg K V) (s : St K V) (k k' : K) (v : V) (hne : k' ≠ k)
    (h : KeyFree k s) : KeyFree k (s.set c k' v).1 := by
  unfold St.set
  split
  · exact h
  · split
    · next o ho =>
      refine ⟨h.1, ?_⟩
      intro o' ho'
      simp only [Option.some.injEq] at ho'
      subst ho'
      exact not_mem_akeys_upsert o k k' v hne (h.2 o ho)
    · next ho =>
      split
      · split
        · exact h
        · exact ⟨not_mem_akeys_upsert _ k k' v hne h.1, fun o hs => h.2 o hs⟩
      · exact ⟨not_mem_akeys_upsert _ k k' v hne h.1, fun o hs => h.2 o hs⟩

theorem del_keyFree (c : Cfg K V) (s : St K V) (k k' : K) (hne : k' ≠ k)
    (h : KeyFree k s) : KeyFree k (s.del c k') := by
  unfold St.del
  split
  · next o ho =>
    refine ⟨h.1, ?_⟩
    intro o' ho'
    simp only [Option.some.injEq] at ho'
    subst ho'
    exact not_mem_akeys_upsert o k k' c.tomb hne (h.2 o ho)
  · next ho =>
    split
    · split
      · exact h
      · exact ⟨not_mem_akeys_upsert _ k k' c.tomb hne h.1, fun o hs => h.2 o hs⟩
    · exact ⟨not_mem_akeys_upsert _ k k' c.tomb hne h.1, fun o hs => h.2 o hs⟩

theorem run_keyFree (k : K) (p : Prog K V C E α) :
    ∀ (s : St K V) (m : Vol C V) (e : E), p.Avoids k → KeyFree k s → KeyFree k (p.run cfg s m e).2.1 := by
  induction p with
  | ret a => intro s m e _ h; exact h
  | fail => intro s m e _ h; exact h
  | get k' κ ih =>
    intro s m e ha h; simp only [Prog.Avoids] at ha; simp only [Prog.run]
    exact ih _ _ _ _ (ha _) ((get_moved cfg s k').keyFree h)
  | has k' κ ih =>
    intro s m e ha h; simp only [Prog.Avoids] at ha; simp only [Prog.run]
    exact ih _ _ _ _ (ha _) ((has_moved cfg s k').keyFree h)
  | set k' v κ ih =>
    intro s m e ha h; simp only [Prog.Avoids] at ha; simp only [Prog.run]
    exact ih _ _ _ _ (ha.2 _) (set_keyFree cfg s k k' v ha.1 h)
  | del k' κ ih =>
    intro s m e ha h; simp only [Prog.Avoids] at ha; simp only [Prog.run]
    exact ih _ _ _ ha.2 (del_keyFree cfg s k k' ha.1 h)
  | iter lo hi asc κ ih =>
    intro s m e ha h; simp only [Prog.Avoids] at ha; simp only [Prog.run]
    exact ih _ _ _ _ (ha _) ((iter_moved cfg s lo hi asc).keyFree h)
  | iterAll lo hi asc κ ih =>
    intro s m e ha h; simp only [Prog.Avoids] at ha; simp only [Prog.run]
    exact ih _ _ _ _ (ha _) ((iterAll_moved cfg s lo hi asc).keyFree h)
  | getv ver k' κ ih =>
    intro s m e ha h; simp only [Prog.Avoids] at ha; simp only [Prog.run]; exact ih _ _ _ _ (ha _) h
  | gas κ ih =>
    intro s m e ha h; simp only [Prog.Avoids] at ha; simp only [Prog.run]; exact ih _ _ _ _ (ha _) h
  | burn a κ ih =>
    intro s m e ha h; simp only [Prog.Avoids] at ha; simp only [Prog.run]; exact ih _ _ _ ha h
  | vget c κ ih =>
    intro s m e ha h; simp only [Prog.Avoids] at ha; simp only [Prog.run]; exact ih _ _ _ _ (ha _) h
  | vset c v κ ih =>
    intro s m e ha h; simp only [Prog.Avoids] at ha; simp only [Prog.run]; exact ih _ _ _ ha h
  | env κ ih =>
    intro s m e ha h; simp only [Prog.Avoids] at ha; simp only [Prog.run]; exact ih _ _ _ _ (ha _) h

theorem not_mem_akeys_commitInto (k : K) (o cache : List (K × V)) (hc : k ∉ akeys cache)
    (ho : k ∉ akeys o) : k ∉ akeys (commitInto cache o) := by
  induction o generalizing cache with
  | nil => exact hc
  | cons p t ih =>
    obtain ⟨k1, v1⟩ := p
    have hk : k1 ≠ k := by
      intro e; apply ho; simp [akeys, e]
    have ht : k ∉ akeys t := by
      intro m; apply ho; simp only [akeys, List.map_cons, List.mem_cons] at m ⊢; exact Or.inr m
    exact ih (upsert cache k1 v1) (not_mem_akeys_upsert cache k k1 v1 hk hc) ht

theorem finSt_keyFree (k : K) (ok : Bool) (s : St K V) (h : KeyFree k s) :
    k ∉ akeys (finSt ok s).cache := by
  obtain ⟨se, ca, me, ga, tr⟩ := s
  cases ok
  · exact h.1
  · cases se with
    | none => exact h.1
    | some o => exact not_mem_akeys_commitInto k o ca h.1 (h.2 o rfl)

/-- no deliver-path program writes key `k` -/
def DeliverAvoids (k : K) (hs : Handlers K V C E T H D) : Prop :=
  ∀ tx, (hs.validate tx).Avoids k ∧ (hs.deliver tx).Avoids k ∧ ∀ g, (hs.fee tx g).Avoids k

theorem txRun_keyFree (k : K) (hav : DeliverAvoids k hs) (tx : T) (s0 : St K V) (m : Vol C V)
    (h : KeyFree k s0) : KeyFree k (txRun cfg hs e tx s0 m).2.1 := by
  obtain ⟨a1, a2, a3⟩ := hav tx
  unfold txRun
  simp only
  split
  · exact run_keyFree cfg k _ _ _ e a1 h
  · exact run_keyFree cfg k _ _ _ e (a3 _)
      (run_keyFree cfg k _ _ _ e a2 (run_keyFree cfg k _ _ _ e a1 h))

theorem deliverTx_keyFree (k : K) (hav : DeliverAvoids k hs) (n : Node K V C T H D) (tx : T)
    (h : k ∉ akeys n.dlv.cache) : k ∉ akeys (deliverTx cfg hs e n tx).1.dlv.cache := by
  cases hl : lookupIdx n.idx (hs.hash tx) with
  | some r => rw [deliverTx_hit cfg hs e n tx r hl]; exact h
  | none =>
    rw [deliverTx_miss cfg hs e n tx hl]
    show k ∉ akeys (finSt _ _).cache
    apply finSt_keyFree
    apply txRun_keyFree cfg hs e k hav
    refine ⟨h, ?_⟩
    intro o ho
    have : o = [] := by
      have h' : some ([] : List (K × V)) = some o := ho
      exact (Option.some.inj h').symm
    subst this
    simp [akeys]

theorem deliverAll_keyFree (k : K) (hav : DeliverAvoids k hs) (txs : List T) (n : Node K V C T H D)
    (h : k ∉ akeys n.dlv.cache) : k ∉ akeys (deliverAll cfg hs e n txs).1.dlv.cache := by
  induction txs generalizing n with
  | nil => exact h
  | cons tx txs ih => rw [deliverAll_cons]; exact ih _ (deliverTx_keyFree cfg hs e k hav n tx h)

theorem deliverAll_sess_none (txs : List T) (n : Node K V C T H D) (h : n.dlv.sess = none) :
    (deliverAll cfg hs e n txs).1.dlv.sess = none := by
  induction txs generalizing n with
  | nil => exact h
  | cons tx txs ih => rw [deliverAll_cons]; exact ih _ (deliverTx_sess_none cfg hs e n tx h)

/-- aimed hooks that avoid `k`, run from a node without open session -/
theorem hooks_keyFree (k : K) (hks : List (Bool × Prog K V C E Unit))
    (hall : ∀ hk ∈ hks, hk.1 = true ∧ hk.2.Avoids k) (n : Node K V C T H D)
    (hs0 : n.dlv.sess = none) (h : k ∉ akeys n.dlv.cache) :
    k ∉ akeys (hks.foldl (runHook cfg e) n).dlv.cache := by
  induction hks generalizing n with
  | nil => exact h
  | cons hk t ih =>
    rw [List.foldl_cons]
    obtain ⟨h1, h2⟩ := hall hk (List.mem_cons_self ..)
    have hkf : KeyFree k (n.dlv.unmetered n.tree) := ⟨h, fun o ho => by
      have : n.dlv.sess = some o := ho
      rw [hs0] at this; cases this⟩
    refine ih (fun x hx => hall x (List.mem_cons_of_mem _ hx)) _
      ((runHook_frame cfg e n hk).2.2.2 hs0) ?_
    unfold runHook
    simp only [h1, Bool.true_or, if_true]
    exact (run_keyFree cfg k hk.2 _ _ e h2 hkf).1

/-! ### `Write()` and a key the block cache does not hold, or holds as its newest entry -/

theorem writeInto_get_of_not_mem (c : Cfg K V) (cache : List (K × V)) (t : Tree K V) (k : K)
    (h : k ∉ akeys cache) : (writeInto c t cache).get k = t.get k := by
  induction cache generalizing t with
  | nil => rfl
  | cons p tl ih =>
    obtain ⟨k1, v1⟩ := p
    have hk : k ≠ k1 := by
      intro e; apply h; simp [akeys, e]
    have htl : k ∉ akeys tl := by
      intro m; apply h; simp only [akeys, List.map_cons, List.mem_cons] at m ⊢; exact Or.inr m
    simp only [writeInto, List.foldl_cons]
    have := ih (if v1 = c.tomb then t.remove k1 else t.set k1 v1) htl
    simp only [writeInto] at this
    rw [this]
    by_cases hv : v1 = c.tomb
    · simp [hv, Tree.get, Tree.remove, alookup_aerase_ne _ _ _ hk]
    · simp [hv, Tree.get, Tree.set, alookup_upsert_ne _ _ _ _ hk]

theorem upsert_of_not_mem (l : List (K × V)) (k : K) (v : V) (h : k ∉ akeys l) :
    upsert l k v = l ++ [(k, v)] := by
  induction l with
  | nil => rfl
  | cons hd t ih =>
    obtain ⟨k', v'⟩ := hd
    have hk : ¬ k' = k := by
      intro e; apply h; simp [akeys, e]
    have ht : k ∉ akeys t := by
      intro m; apply h; simp only [akeys, List.map_cons, List.mem_cons] at m ⊢; exact Or.inr m
    simp [upsert, hk, ih ht]

theorem writeInto_get_upsert_new (c : Cfg K V) (cache : List (K × V)) (t : Tree K V) (k : K) (v : V)
    (h : k ∉ akeys cache) (hv : v ≠ c.tomb) :
    (writeInto c t (upsert cache k v)).get k = some v := by
  rw [upsert_of_not_mem cache k v h]
  simp only [writeInto, List.foldl_append, List.foldl_cons, List.foldl_nil, hv, if_false]
  simp [Tree.get, Tree.set]

/-- `State.Set` without an open session: refused by the meter, or the pair lands in the block cache -/
theorem set_nosess_cases (c : Cfg K V) (s : St K V) (k : K) (v : V) (hs : s.sess = none)
    (hv : v ≠ c.tomb) :
    s.set c k v = (s, .errGas) ∨
    ((s.set c k v).2 = .ok ∧ (s.set c k v).1.cache = upsert s.cache k v) := by
  unfold St.set
  simp only [hv, if_false, hs]
  split
  · split
    · left; rfl
    · right; exact ⟨rfl, rfl⟩
  · right; exact ⟨rfl, rfl⟩

end OLP.Shell

/-
  Layer S — gas-shift invariance while the meter has room (C06).

  * every store primitive of layer K commutes with a shift of the gas level as long as the higher
    of the two levels is below the limit (nothing is refused then);
  * no program with non-negative `.burn` amounts lowers the counter (`run_mono`);
  * hence every program without a `.gas` node and with non-negative `.burn` amounts is
    `RoomShiftInv` (`roomShiftInv_of_syntax`, all constructors of `Prog`);
  * the shell (`txRun`, `deliverTx`, `deliverAll`) threaded through it; the block hooks run
    unmetered and need nothing of this.
-/
import OLP.Shell.LemmasA

set_option linter.unusedSectionVars false

namespace OLP.Shell
open OLP OLP.KV

variable {K V C E α T H D : Type} [DecidableEq K] [DecidableEq V] [DecidableEq C] [DecidableEq H]

/-! ### `ShiftSt` is `addGas` -/

theorem shiftSt_iff (d : Int) (s s' : St K V) : ShiftSt d s s' ↔ s' = s.addGas d := Iff.rfl

theorem addGas_comm (s : St K V) (a b : Int) : (s.addGas a).addGas b = (s.addGas b).addGas a := by
  rw [addGas_addGas, addGas_addGas, Int.add_comm]

theorem hasRoom_of_addGas (s : St K V) (d : Int) (hd : 0 ≤ d) (h : hasRoom (s.addGas d).gas) :
    hasRoom s.gas := by
  unfold hasRoom at *
  simp only [St.addGas] at h
  omega

/-! ### the store primitives under a shift, with room -/

theorem get_room_shift (c : Cfg K V) (s : St K V) (d : Int) (k : K) (hd : 0 ≤ d)
    (hr : hasRoom (s.addGas d).gas) :
    (s.addGas d).get c k = ((s.get c k).1.addGas d, (s.get c k).2) := by
  have hr0 := hasRoom_of_addGas s d hd hr
  have h1 : ¬ Refused (s.addGas d) k := by
    rintro ⟨_, hx, _⟩; unfold hasRoom at hr; omega
  have h2 : ¬ Refused s k := by
    rintro ⟨_, hx, _⟩; unfold hasRoom at hr0; omega
  rw [get_exact, get_exact, if_neg h1, if_neg h2, readCost_addGas, view_addGas]
  simp only
  rw [addGas_comm]

theorem has_room_shift (c : Cfg K V) (s : St K V) (d : Int) (k : K) (hd : 0 ≤ d)
    (hr : hasRoom (s.addGas d).gas) :
    (s.addGas d).has c k = ((s.has c k).1.addGas d, (s.has c k).2) := by
  have hr0 := hasRoom_of_addGas s d hd hr
  unfold hasRoom at hr hr0
  rw [has_exact, has_exact, view_addGas]
  have e1 : ((s.addGas d).gas.consumed < (s.addGas d).gas.limit) = True := eq_true hr
  have e2 : (s.gas.consumed < s.gas.limit) = True := eq_true hr0
  have e3 : (s.addGas d).sess = s.sess := rfl
  have e4 : (s.addGas d).metered = s.metered := rfl
  simp only [e1, e2, e3, e4]
  rw [addGas_comm]

theorem set_room_shift (c : Cfg K V) (s : St K V) (d : Int) (k : K) (v : V) (hd : 0 ≤ d)
    (hr : hasRoom (s.addGas d).gas) :
    (s.addGas d).set c k v = ((s.set c k v).1.addGas d, (s.set c k v).2) := by
  have hr0 := hasRoom_of_addGas s d hd hr
  unfold hasRoom at hr hr0
  have g1 : ¬ (s.addGas d).gas.consumed ≥ (s.addGas d).gas.limit := by omega
  have g0 : ¬ s.gas.consumed ≥ s.gas.limit := by omega
  unfold St.set
  by_cases hv : v = c.tomb
  · simp only [hv, if_true]
  · simp only [hv, if_false]
    cases hs : s.sess with
    | some o =>
      have : (s.addGas d).sess = some o := hs
      simp only [this]
      rfl
    | none =>
      have : (s.addGas d).sess = none := hs
      simp only [this]
      cases hm : s.metered with
      | false =>
        have : (s.addGas d).metered = false := hm
        simp only [this, Bool.false_eq_true, if_false]
        rfl
      | true =>
        have : (s.addGas d).metered = true := hm
        simp only [this, if_true, Gas.consumeStrict, if_neg g1, if_neg g0]
        simp only [St.addGas, Gas.consumeAlways]
        congr 3
        omega

theorem del_room_shift (c : Cfg K V) (s : St K V) (d : Int) (k : K) (hd : 0 ≤ d)
    (hr : hasRoom (s.addGas d).gas) :
    (s.addGas d).del c k = (s.del c k).addGas d := by
  have hr0 := hasRoom_of_addGas s d hd hr
  unfold hasRoom at hr hr0
  have g1 : ¬ (s.addGas d).gas.consumed ≥ (s.addGas d).gas.limit := by omega
  have g0 : ¬ s.gas.consumed ≥ s.gas.limit := by omega
  unfold St.del
  cases hs : s.sess with
  | some o =>
    have : (s.addGas d).sess = some o := hs
    simp only [this]
    rfl
  | none =>
    have : (s.addGas d).sess = none := hs
    simp only [this]
    cases hm : s.metered with
    | false =>
      have : (s.addGas d).metered = false := hm
      simp only [this, Bool.false_eq_true, if_false]
      rfl
    | true =>
      have : (s.addGas d).metered = true := hm
      simp only [this, if_true, Gas.consumeStrict, if_neg g1, if_neg g0]
      simp only [St.addGas]
      rw [Int.add_right_comm]

/-- the fold inside `State.IterateRange` / `IterateRangeAll`: if the run from the higher level
    ends below the limit, every read of both runs is served, and the two runs differ by the
    shift only -/
theorem iter_foldl_room_shift (c : Cfg K V) (ks : List K) (s : St K V)
    (acc : List (K × Option V)) (d : Int) (hd : 0 ≤ d)
    (hr : hasRoom (ks.foldl (iterStep c) (s.addGas d, acc)).1.gas) :
    ks.foldl (iterStep c) (s.addGas d, acc) =
      ((ks.foldl (iterStep c) (s, acc)).1.addGas d, (ks.foldl (iterStep c) (s, acc)).2) := by
  obtain ⟨n, hn, he, hl⟩ := iter_foldl_cutoff c ks (s.addGas d) acc
  have hnn := iterCost_nonneg c (s.addGas d) (ks.take n)
  have hfull : ¬ n < ks.length := by
    intro hlt
    obtain ⟨_, h2⟩ := hl hlt
    rw [he] at hr
    unfold hasRoom at hr
    simp only [St.addGas] at hr h2
    omega
  have hnl : n = ks.length := by omega
  subst hnl
  rw [List.take_length, List.drop_length] at he
  rw [he] at hr
  have hs : ks.foldl (iterStep c) (s, acc) = (s.addGas (iterCost c s ks), acc ++ listed c s ks) := by
    apply iter_foldl_enough_gas
    intro _
    rw [iterCost_addGas] at hr
    unfold hasRoom at hr
    simp only [St.addGas] at hr
    omega
  rw [he, hs, iterCost_addGas]
  simp only [listedSess, List.filter_nil, List.map_nil, List.append_nil]
  rw [addGas_comm]
  rfl

theorem iter_room_shift (c : Cfg K V) (s : St K V) (d : Int) (lo hi : Option K) (asc : Bool)
    (hd : 0 ≤ d) (hr : hasRoom ((s.addGas d).iter c lo hi asc).1.gas) :
    (s.addGas d).iter c lo hi asc = ((s.iter c lo hi asc).1.addGas d, (s.iter c lo hi asc).2) := by
  rw [iter_eq_foldl] at hr ⊢
  exact iter_foldl_room_shift c _ s [] d hd hr

theorem iterAll_room_shift (c : Cfg K V) (s : St K V) (d : Int) (lo hi : Option K) (asc : Bool)
    (hd : 0 ≤ d) (hr : hasRoom ((s.addGas d).iterAll c lo hi asc).1.gas) :
    (s.addGas d).iterAll c lo hi asc =
      ((s.iterAll c lo hi asc).1.addGas d, (s.iterAll c lo hi asc).2) := by
  rw [iterAll_eq_foldl] at hr ⊢
  exact iter_foldl_room_shift c _ s [] d hd hr

/-! ### no program lowers the counter -/

/-- structural: non-negative `.burn` amounts suffice (every other charge is a flat cost or
    proportional to `cfg.vlen`) -/
theorem run_mono (cfg : Cfg K V) (p : Prog K V C E α) : p.BurnNonneg → GasMono cfg p := by
  induction p with
  | ret a => intro _ s m e; exact Int.le_refl _
  | fail => intro _ s m e; exact Int.le_refl _
  | get k κ ih =>
    intro h s m e; simp only [Prog.BurnNonneg] at h; simp only [Prog.run]
    exact Int.le_trans (get_gasOnly cfg s k).2.2.2.2 (ih _ (h _) _ _ _)
  | has k κ ih =>
    intro h s m e; simp only [Prog.BurnNonneg] at h; simp only [Prog.run]
    exact Int.le_trans (has_gasOnly cfg s k).2.2.2.2 (ih _ (h _) _ _ _)
  | set k v κ ih =>
    intro h s m e; simp only [Prog.BurnNonneg] at h; simp only [Prog.run]
    exact Int.le_trans (set_gas cfg s k v) (ih _ (h _) _ _ _)
  | del k κ ih =>
    intro h s m e; simp only [Prog.BurnNonneg] at h; simp only [Prog.run]
    exact Int.le_trans (del_gas cfg s k) (ih h _ _ _)
  | iter lo hi asc κ ih =>
    intro h s m e; simp only [Prog.BurnNonneg] at h; simp only [Prog.run]
    exact Int.le_trans (iter_gasOnly cfg s lo hi asc).2.2.2.2 (ih _ (h _) _ _ _)
  | iterAll lo hi asc κ ih =>
    intro h s m e; simp only [Prog.BurnNonneg] at h; simp only [Prog.run]
    exact Int.le_trans (iterAll_gasOnly cfg s lo hi asc).2.2.2.2 (ih _ (h _) _ _ _)
  | getv ver k κ ih =>
    intro h s m e; simp only [Prog.BurnNonneg] at h; simp only [Prog.run]; exact ih _ (h _) _ _ _
  | gas κ ih =>
    intro h s m e; simp only [Prog.BurnNonneg] at h; simp only [Prog.run]; exact ih _ (h _) _ _ _
  | burn a κ ih =>
    intro h s m e; simp only [Prog.BurnNonneg] at h; simp only [Prog.run]
    refine Int.le_trans ?_ (ih h.2 _ _ _)
    simp only [Gas.consumeAlways]
    omega
  | vget c κ ih =>
    intro h s m e; simp only [Prog.BurnNonneg] at h; simp only [Prog.run]; exact ih _ (h _) _ _ _
  | vset c v κ ih =>
    intro h s m e; simp only [Prog.BurnNonneg] at h; simp only [Prog.run]; exact ih h _ _ _
  | env κ ih =>
    intro h s m e; simp only [Prog.BurnNonneg] at h; simp only [Prog.run]; exact ih _ (h _) _ _ _

/-- a run that ends below the limit started below it -/
theorem hasRoom_start (cfg : Cfg K V) (p : Prog K V C E α) (hm : GasMono cfg p) (s : St K V)
    (m : Vol C V) (e : E) (h : hasRoom (p.run cfg s m e).2.1.gas) : hasRoom s.gas := by
  have h1 := hm s m e
  have h2 := (run_pres cfg p s m e).limit
  unfold hasRoom at *
  omega

/-! ### the generic theorem -/

/-- EVERY program that does not read the gas level (no `.gas` node) and burns only non-negative
    amounts is gas-shift invariant with room. All fourteen constructors of `Prog` are covered
    (`.gas` by exclusion). -/
theorem roomShiftInv_of_syntax (cfg : Cfg K V) (p : Prog K V C E α) :
    p.NoGasRead → p.BurnNonneg → RoomShiftInv cfg p := by
  induction p with
  | ret a => intro _ _ d s s' m e _ h _; exact ⟨rfl, h, rfl⟩
  | fail => intro _ _ d s s' m e _ h _; exact ⟨rfl, h, rfl⟩
  | get k κ ih =>
    intro hg hb d s s' m e hd h hr
    have h0 := hasRoom_start cfg _ (run_mono cfg _ hb) s' m e hr
    have h : s' = s.addGas d := h
    subst h
    simp only [Prog.NoGasRead] at hg
    simp only [Prog.BurnNonneg] at hb
    simp only [Prog.run] at hr ⊢
    rw [get_room_shift cfg s d k hd h0] at hr ⊢
    exact ih _ (hg _) (hb _) d _ _ m e hd rfl hr
  | has k κ ih =>
    intro hg hb d s s' m e hd h hr
    have h0 := hasRoom_start cfg _ (run_mono cfg _ hb) s' m e hr
    have h : s' = s.addGas d := h
    subst h
    simp only [Prog.NoGasRead] at hg
    simp only [Prog.BurnNonneg] at hb
    simp only [Prog.run] at hr ⊢
    rw [has_room_shift cfg s d k hd h0] at hr ⊢
    exact ih _ (hg _) (hb _) d _ _ m e hd rfl hr
  | set k v κ ih =>
    intro hg hb d s s' m e hd h hr
    have h0 := hasRoom_start cfg _ (run_mono cfg _ hb) s' m e hr
    have h : s' = s.addGas d := h
    subst h
    simp only [Prog.NoGasRead] at hg
    simp only [Prog.BurnNonneg] at hb
    simp only [Prog.run] at hr ⊢
    rw [set_room_shift cfg s d k v hd h0] at hr ⊢
    exact ih _ (hg _) (hb _) d _ _ m e hd rfl hr
  | del k κ ih =>
    intro hg hb d s s' m e hd h hr
    have h0 := hasRoom_start cfg _ (run_mono cfg _ hb) s' m e hr
    have h : s' = s.addGas d := h
    subst h
    simp only [Prog.NoGasRead] at hg
    simp only [Prog.BurnNonneg] at hb
    simp only [Prog.run] at hr ⊢
    rw [del_room_shift cfg s d k hd h0] at hr ⊢
    exact ih hg hb d _ _ m e hd rfl hr
  | iter lo hi asc κ ih =>
    intro hg hb d s s' m e hd h hr
    have h : s' = s.addGas d := h
    subst h
    simp only [Prog.NoGasRead] at hg
    simp only [Prog.BurnNonneg] at hb
    simp only [Prog.run] at hr ⊢
    have h1 := hasRoom_start cfg _ (run_mono cfg _ (hb _)) _ m e hr
    rw [iter_room_shift cfg s d lo hi asc hd h1] at hr ⊢
    exact ih _ (hg _) (hb _) d _ _ m e hd rfl hr
  | iterAll lo hi asc κ ih =>
    intro hg hb d s s' m e hd h hr
    have h : s' = s.addGas d := h
    subst h
    simp only [Prog.NoGasRead] at hg
    simp only [Prog.BurnNonneg] at hb
    simp only [Prog.run] at hr ⊢
    have h1 := hasRoom_start cfg _ (run_mono cfg _ (hb _)) _ m e hr
    rw [iterAll_room_shift cfg s d lo hi asc hd h1] at hr ⊢
    exact ih _ (hg _) (hb _) d _ _ m e hd rfl hr
  | getv ver k κ ih =>
    intro hg hb d s s' m e hd h hr
    have h : s' = s.addGas d := h
    subst h
    simp only [Prog.NoGasRead] at hg
    simp only [Prog.BurnNonneg] at hb
    simp only [Prog.run] at hr ⊢
    exact ih _ (hg _) (hb _) d _ _ m e hd rfl hr
  | gas κ ih => intro hg; simp only [Prog.NoGasRead] at hg
  | burn a κ ih =>
    intro hg hb d s s' m e hd h hr
    have h : s' = s.addGas d := h
    subst h
    simp only [Prog.NoGasRead] at hg
    simp only [Prog.BurnNonneg] at hb
    simp only [Prog.run] at hr ⊢
    refine ih hg hb.2 d _ _ m e hd ?_ hr
    show _ = St.addGas _ d
    simp only [St.addGas, Gas.consumeAlways]
    congr 2
    omega
  | vget c κ ih =>
    intro hg hb d s s' m e hd h hr
    simp only [Prog.NoGasRead] at hg
    simp only [Prog.BurnNonneg] at hb
    simp only [Prog.run] at hr ⊢
    exact ih _ (hg _) (hb _) d _ _ m e hd h hr
  | vset c v κ ih =>
    intro hg hb d s s' m e hd h hr
    simp only [Prog.NoGasRead] at hg
    simp only [Prog.BurnNonneg] at hb
    simp only [Prog.run] at hr ⊢
    exact ih hg hb d _ _ _ e hd h hr
  | env κ ih =>
    intro hg hb d s s' m e hd h hr
    simp only [Prog.NoGasRead] at hg
    simp only [Prog.BurnNonneg] at hb
    simp only [Prog.run] at hr ⊢
    exact ih _ (hg _) (hb _) d _ _ m e hd h hr

/-! ### sufficient syntactic conditions for the hypotheses of the removal theorems -/

/-- the concrete fee step of the examples (`ConsumedGas() − start`), and every fee step of that
    shape: read the level once, continue with a program that sees only the gas USED since the
    start of the transaction and itself neither reads the level nor burns negative amounts
    (e.g. deducts the fee from the payer) -/
theorem fee_relative_room (cfg : Cfg K V) (q : Int → Prog K V C E α)
    (hq : ∀ x, (q x).NoGasRead ∧ (q x).BurnNonneg)
    (g d : Int) (s s' : St K V) (m : Vol C V) (e : E) (hd : 0 ≤ d) (h : ShiftSt d s s')
    (hr : hasRoom ((Prog.gas (fun c => q (c - (g + d)))).run cfg s' m e).2.1.gas) :
    ((Prog.gas (fun c => q (c - (g + d)))).run cfg s' m e).1 =
      ((Prog.gas (fun c => q (c - g))).run cfg s m e).1 ∧
    ShiftSt d ((Prog.gas (fun c => q (c - g))).run cfg s m e).2.1
      ((Prog.gas (fun c => q (c - (g + d)))).run cfg s' m e).2.1 ∧
    ((Prog.gas (fun c => q (c - (g + d)))).run cfg s' m e).2.2 =
      ((Prog.gas (fun c => q (c - g))).run cfg s m e).2.2 := by
  have hc : s'.gas.consumed - (g + d) = s.gas.consumed - g := by rw [h.consumed]; omega
  simp only [Prog.run] at hr ⊢
  rw [hc] at hr ⊢
  exact roomShiftInv_of_syntax cfg _ (hq _).1 (hq _).2 d s s' m e hd h hr

theorem fee_relative_mono (cfg : Cfg K V) (q : Int → Prog K V C E α)
    (hq : ∀ x, (q x).BurnNonneg) (g : Int) : GasMono cfg (Prog.gas (fun c => q (c - g))) :=
  run_mono cfg _ (fun _ => hq _)

/-- the fee step of the examples, `fun g0 => .gas (fun g => .ret (g - g0))` (report the gas used
    since the start of the transaction): the fee clause of `RoomBlind` holds for it -/
theorem fee_gasUsed_room (cfg : Cfg K V) (g d : Int) (s s' : St K V) (m : Vol C V) (e : E)
    (hd : 0 ≤ d) (h : ShiftSt d s s')
    (hr : hasRoom ((Prog.gas (fun c => (Prog.ret (c - (g + d)) : Prog K V C E Int))).run cfg s' m e).2.1.gas) :
    ((Prog.gas (fun c => (Prog.ret (c - (g + d)) : Prog K V C E Int))).run cfg s' m e).1 =
      ((Prog.gas (fun c => (Prog.ret (c - g) : Prog K V C E Int))).run cfg s m e).1 ∧
    ShiftSt d ((Prog.gas (fun c => (Prog.ret (c - g) : Prog K V C E Int))).run cfg s m e).2.1
      ((Prog.gas (fun c => (Prog.ret (c - (g + d)) : Prog K V C E Int))).run cfg s' m e).2.1 ∧
    ((Prog.gas (fun c => (Prog.ret (c - (g + d)) : Prog K V C E Int))).run cfg s' m e).2.2 =
      ((Prog.gas (fun c => (Prog.ret (c - g) : Prog K V C E Int))).run cfg s m e).2.2 :=
  fee_relative_room cfg (fun x => .ret x) (fun _ => ⟨trivial, trivial⟩) g d s s' m e hd h hr

/-- `RoomBlind` from the syntax of the handlers: Validate and ProcessDeliver contain no `.gas`
    node and no negative `.burn`; the fee step has the shape "read the level, continue with a
    program of the gas used" -/
theorem RoomBlind.of_syntax (cfg : Cfg K V) (hs : Handlers K V C E T H D)
    (hv : ∀ tx, (hs.validate tx).NoGasRead ∧ (hs.validate tx).BurnNonneg)
    (hdl : ∀ tx, (hs.deliver tx).NoGasRead ∧ (hs.deliver tx).BurnNonneg)
    (q : T → Int → Prog K V C E Int) (hfee : ∀ tx g0, hs.fee tx g0 = .gas (fun c => q tx (c - g0)))
    (hq : ∀ tx x, (q tx x).NoGasRead ∧ (q tx x).BurnNonneg) : RoomBlind cfg hs where
  validate tx := roomShiftInv_of_syntax cfg _ (hv tx).1 (hv tx).2
  deliver tx := roomShiftInv_of_syntax cfg _ (hdl tx).1 (hdl tx).2
  fee tx g d s s' m e hd h hr := by
    rw [hfee] at hr ⊢
    rw [hfee]
    exact fee_relative_room cfg (q tx) (hq tx) g d s s' m e hd h hr
  monoV tx := run_mono cfg _ (hv tx).2
  monoD tx := run_mono cfg _ (hdl tx).2
  monoF tx g := by rw [hfee]; exact fee_relative_mono cfg (q tx) (fun x => (hq tx x).2) g

/-! ### the body of `txDeliverer` -/

theorem gasOut_eq_false_iff (g : Gas) : gasOut g = false ↔ hasRoom g := by
  unfold gasOut hasRoom
  simp only [decide_eq_false_iff_not]
  omega

theorem ShiftSt.room {d : Int} {a b : St K V} (hd : 0 ≤ d) (h : ShiftSt d a b)
    (hr : hasRoom b.gas) : hasRoom a.gas := by
  have h : b = a.addGas d := h
  subst h
  exact hasRoom_of_addGas a d hd hr

variable (cfg : Cfg K V) (hs : Handlers K V C E T H D) (e : E)

/-- `txRun` when Validate fails -/
theorem txRun_none (tx : T) (s0 : St K V) (m : Vol C V)
    (h : ((hs.validate tx).run cfg s0 m e).1 = none) :
    txRun cfg hs e tx s0 m =
      ({ ok := false, data := none, gasUsed := 0 }, ((hs.validate tx).run cfg s0 m e).2.1,
       ((hs.validate tx).run cfg s0 m e).2.2) := by
  unfold txRun
  simp only
  rw [h]

/-- the state after ProcessDeliver and the result of the fee step, when Validate succeeded -/
def dlvRun (tx : T) (s0 : St K V) (m : Vol C V) : Option D × St K V × Vol C V :=
  (hs.deliver tx).run cfg ((hs.validate tx).run cfg s0 m e).2.1 ((hs.validate tx).run cfg s0 m e).2.2 e

def feeRun (tx : T) (s0 : St K V) (m : Vol C V) : Option Int × St K V × Vol C V :=
  (hs.fee tx s0.gas.consumed).run cfg (dlvRun cfg hs e tx s0 m).2.1 (dlvRun cfg hs e tx s0 m).2.2 e

/-- `txRun` when Validate succeeds -/
theorem txRun_some (tx : T) (s0 : St K V) (m : Vol C V) (u : Unit)
    (h : ((hs.validate tx).run cfg s0 m e).1 = some u) :
    txRun cfg hs e tx s0 m =
      ({ ok := (dlvRun cfg hs e tx s0 m).1.isSome && (feeRun cfg hs e tx s0 m).1.isSome &&
               !gasOut (feeRun cfg hs e tx s0 m).2.1.gas,
         data := (dlvRun cfg hs e tx s0 m).1, gasUsed := (feeRun cfg hs e tx s0 m).1.getD 0 },
       (feeRun cfg hs e tx s0 m).2.1, (feeRun cfg hs e tx s0 m).2.2) := by
  unfold txRun feeRun dlvRun
  simp only
  rw [h]

theorem txRun_mono (hb : RoomBlind cfg hs) (tx : T) (s0 : St K V) (m : Vol C V) :
    s0.gas.consumed ≤ (txRun cfg hs e tx s0 m).2.1.gas.consumed := by
  cases h : ((hs.validate tx).run cfg s0 m e).1 with
  | none => rw [txRun_none cfg hs e tx s0 m h]; exact hb.monoV tx s0 m e
  | some u =>
    rw [txRun_some cfg hs e tx s0 m u h]
    exact Int.le_trans (hb.monoV tx s0 m e)
      (Int.le_trans (hb.monoD tx _ _ e) (hb.monoF tx _ _ _ e))

/-- a transaction that did not fail ended below the limit (the test `txDeliverer` makes before
    it commits the session) -/
theorem txRun_ok_room (tx : T) (s0 : St K V) (m : Vol C V)
    (hok : (txRun cfg hs e tx s0 m).1.ok = true) : hasRoom (txRun cfg hs e tx s0 m).2.1.gas := by
  cases h : ((hs.validate tx).run cfg s0 m e).1 with
  | none => rw [txRun_none cfg hs e tx s0 m h] at hok; cases hok
  | some u =>
    rw [txRun_some cfg hs e tx s0 m u h] at hok ⊢
    simp only [Bool.and_eq_true, Bool.not_eq_true'] at hok
    exact (gasOut_eq_false_iff _).1 hok.2

theorem txRun_room_shift (hb : RoomBlind cfg hs) (tx : T) (d : Int) (s s' : St K V) (m : Vol C V)
    (hd : 0 ≤ d) (h : ShiftSt d s s') (hr : hasRoom (txRun cfg hs e tx s' m).2.1.gas) :
    (txRun cfg hs e tx s' m).1 = (txRun cfg hs e tx s m).1 ∧
    ShiftSt d (txRun cfg hs e tx s m).2.1 (txRun cfg hs e tx s' m).2.1 ∧
    (txRun cfg hs e tx s' m).2.2 = (txRun cfg hs e tx s m).2.2 := by
  cases hv' : ((hs.validate tx).run cfg s' m e).1 with
  | none =>
    rw [txRun_none cfg hs e tx s' m hv'] at hr ⊢
    obtain ⟨ev, shv, vv⟩ := hb.validate tx d s s' m e hd h hr
    rw [txRun_none cfg hs e tx s m (ev.symm.trans hv')]
    exact ⟨rfl, shv, vv⟩
  | some u =>
    rw [txRun_some cfg hs e tx s' m u hv'] at hr ⊢
    -- room at the end of the fee step ⇒ room after ProcessDeliver ⇒ room after Validate
    have hrd : hasRoom (dlvRun cfg hs e tx s' m).2.1.gas :=
      hasRoom_start cfg _ (hb.monoF tx _) _ _ e hr
    have hrv : hasRoom ((hs.validate tx).run cfg s' m e).2.1.gas :=
      hasRoom_start cfg _ (hb.monoD tx) _ _ e hrd
    obtain ⟨ev, shv, vv⟩ := hb.validate tx d s s' m e hd h hrv
    rw [txRun_some cfg hs e tx s m u (ev.symm.trans hv')]
    have hrd' : hasRoom ((hs.deliver tx).run cfg ((hs.validate tx).run cfg s' m e).2.1
        ((hs.validate tx).run cfg s m e).2.2 e).2.1.gas := by
      rw [← vv]; exact hrd
    obtain ⟨e1, sh1, v1⟩ := hb.deliver tx d _ _ ((hs.validate tx).run cfg s m e).2.2 e hd shv hrd'
    have ed : dlvRun cfg hs e tx s' m = (hs.deliver tx).run cfg ((hs.validate tx).run cfg s' m e).2.1
        ((hs.validate tx).run cfg s m e).2.2 e := by
      unfold dlvRun; rw [vv]
    have e1' : (dlvRun cfg hs e tx s' m).1 = (dlvRun cfg hs e tx s m).1 := by rw [ed]; exact e1
    have sh1' : ShiftSt d (dlvRun cfg hs e tx s m).2.1 (dlvRun cfg hs e tx s' m).2.1 := by
      rw [ed]; exact sh1
    have v1' : (dlvRun cfg hs e tx s' m).2.2 = (dlvRun cfg hs e tx s m).2.2 := by rw [ed]; exact v1
    have ef : feeRun cfg hs e tx s' m = (hs.fee tx (s.gas.consumed + d)).run cfg
        (dlvRun cfg hs e tx s' m).2.1 (dlvRun cfg hs e tx s m).2.2 e := by
      unfold feeRun; rw [h.consumed, v1']
    have hr' := hr
    rw [ef] at hr'
    obtain ⟨f1, f2, f3⟩ := hb.fee tx s.gas.consumed d _ _ (dlvRun cfg hs e tx s m).2.2 e hd sh1' hr'
    have f1' : (feeRun cfg hs e tx s' m).1 = (feeRun cfg hs e tx s m).1 := by rw [ef]; exact f1
    have f2' : ShiftSt d (feeRun cfg hs e tx s m).2.1 (feeRun cfg hs e tx s' m).2.1 := by
      rw [ef]; exact f2
    have f3' : (feeRun cfg hs e tx s' m).2.2 = (feeRun cfg hs e tx s m).2.2 := by rw [ef]; exact f3
    have ho : gasOut (feeRun cfg hs e tx s' m).2.1.gas = gasOut (feeRun cfg hs e tx s m).2.1.gas := by
      rw [(gasOut_eq_false_iff _).2 hr, (gasOut_eq_false_iff _).2 (f2'.room hd hr)]
    simp only
    rw [e1', f1', ho]
    exact ⟨rfl, f2', f3'⟩

/-! ### `deliverTx` -/

theorem deliverTx_mono (hb : RoomBlind cfg hs) (n : Node K V C T H D) (tx : T) :
    n.dlv.gas.consumed ≤ (deliverTx cfg hs e n tx).1.dlv.gas.consumed := by
  cases h : lookupIdx n.idx (hs.hash tx) with
  | some r => rw [deliverTx_hit cfg hs e n tx r h]; exact Int.le_refl _
  | none =>
    rw [deliverTx_miss cfg hs e n tx h]
    show _ ≤ (finSt _ _).gas.consumed
    rw [finSt_gas]
    exact txRun_mono cfg hs e hb tx (n.dlv.toSt n.tree).begin n.vol

theorem deliverTx_limit (n : Node K V C T H D) (tx : T) :
    (deliverTx cfg hs e n tx).1.dlv.gas.limit = n.dlv.gas.limit := by
  cases h : lookupIdx n.idx (hs.hash tx) with
  | some r => rw [deliverTx_hit cfg hs e n tx r h]
  | none =>
    rw [deliverTx_miss cfg hs e n tx h]
    exact (deliverCore_frame cfg hs e n tx).2.2.2.2.2.2.2.1

/-- a transaction that ran (index miss) and did not fail left the meter below its limit -/
theorem deliverTx_ok_room (n : Node K V C T H D) (tx : T)
    (hl : lookupIdx n.idx (hs.hash tx) = none) (hok : (deliverTx cfg hs e n tx).2.ok = true) :
    hasRoom (deliverTx cfg hs e n tx).1.dlv.gas := by
  rw [deliverTx_miss cfg hs e n tx hl] at hok ⊢
  show hasRoom (finSt _ _).gas
  rw [finSt_gas]
  exact txRun_ok_room cfg hs e tx _ _ hok

/-- (A) with room: `deliverTx` commutes with a shift of the deliver state's gas level when the
    run from the higher level ends below the limit (nothing to ask when the index answers) -/
theorem deliverTx_room_shift (hb : RoomBlind cfg hs) (d : Int) (n n' : Node K V C T H D) (tx : T)
    (hd : 0 ≤ d) (h : ShiftNode d n n')
    (hr : lookupIdx n'.idx (hs.hash tx) = none → hasRoom (deliverTx cfg hs e n' tx).1.dlv.gas) :
    (deliverTx cfg hs e n' tx).2 = (deliverTx cfg hs e n tx).2 ∧
    ShiftNode d (deliverTx cfg hs e n tx).1 (deliverTx cfg hs e n' tx).1 := by
  obtain ⟨h1, h2, h3, h4, h5, h6, h7⟩ := h
  cases hl : lookupIdx n.idx (hs.hash tx) with
  | some r =>
    have hl' : lookupIdx n'.idx (hs.hash tx) = some r := by rw [h5]; exact hl
    rw [deliverTx_hit cfg hs e n tx r hl, deliverTx_hit cfg hs e n' tx r hl']
    exact ⟨rfl, h1, h2, h3, h4, h5, h6, h7⟩
  | none =>
    have hl' : lookupIdx n'.idx (hs.hash tx) = none := by rw [h5]; exact hl
    have hr' := hr hl'
    rw [deliverTx_miss cfg hs e n' tx hl'] at hr'
    rw [deliverTx_miss cfg hs e n tx hl, deliverTx_miss cfg hs e n' tx hl']
    have hs0 : ShiftSt d (n.dlv.toSt n.tree).begin (n'.dlv.toSt n'.tree).begin := by
      rw [h1]; exact (h2.toSt n.tree).begin
    have hr2 : hasRoom (txRun cfg hs e tx (n'.dlv.toSt n'.tree).begin n.vol).2.1.gas := by
      have : hasRoom (finSt (txRun cfg hs e tx (n'.dlv.toSt n'.tree).begin n'.vol).1.ok
          (txRun cfg hs e tx (n'.dlv.toSt n'.tree).begin n'.vol).2.1).gas := hr'
      rw [finSt_gas, h4] at this
      exact this
    obtain ⟨x1, x2, x3⟩ := txRun_room_shift cfg hs e hb tx d _ _ n.vol hd hs0 hr2
    unfold deliverCore
    simp only
    rw [h4, x1, x3]
    have hfin := x2.finSt (txRun cfg hs e tx (n.dlv.toSt n.tree).begin n.vol).1.ok
    exact ⟨rfl, hfin.tree, hfin.ovOf, h3, rfl, h5, h6, h7⟩

theorem ShiftNode.consumed {d : Int} {a b : Node K V C T H D} (h : ShiftNode d a b) :
    b.dlv.gas.consumed = a.dlv.gas.consumed + d := by
  have := h.2.1
  unfold ShiftOv at this
  rw [this]

theorem ShiftNode.limit {d : Int} {a b : Node K V C T H D} (h : ShiftNode d a b) :
    b.dlv.gas.limit = a.dlv.gas.limit := by
  have := h.2.1
  unfold ShiftOv at this
  rw [this]

theorem ShiftNode.room {d : Int} {a b : Node K V C T H D} (hd : 0 ≤ d) (h : ShiftNode d a b)
    (hr : hasRoom b.dlv.gas) : hasRoom a.dlv.gas := by
  have h1 := h.consumed
  have h2 := h.limit
  unfold hasRoom at *
  omega

/-! ### lists of transactions -/

theorem deliverAll_mono (hb : RoomBlind cfg hs) (txs : List T) (n : Node K V C T H D) :
    n.dlv.gas.consumed ≤ (deliverAll cfg hs e n txs).1.dlv.gas.consumed ∧
    (deliverAll cfg hs e n txs).1.dlv.gas.limit = n.dlv.gas.limit := by
  induction txs generalizing n with
  | nil => exact ⟨Int.le_refl _, rfl⟩
  | cons tx txs ih =>
    rw [deliverAll_cons]
    obtain ⟨i1, i2⟩ := ih (deliverTx cfg hs e n tx).1
    exact ⟨Int.le_trans (deliverTx_mono cfg hs e hb n tx) i1,
      i2.trans (deliverTx_limit cfg hs e n tx)⟩

/-- the general form of `remove_failed_deliverAll`. No premise on the meter is needed at this
    level: a transaction that ran and did not fail ended below the limit (`deliverTx_ok_room`), so
    it ran with room throughout, in the full run and a fortiori in the run without the failed
    transactions, whose level is lower; the transactions delivered after the meter ran out all
    failed, and are removed. -/
theorem deliverAll_room_shift (hb : RoomBlind cfg hs) (hnv : DeliverNoVset hs) (txs : List T) :
    ∀ (d : Int) (n n' : Node K V C T H D), 0 ≤ d → ShiftNode d n n' → n.dlv.sess = none →
      (deliverAll cfg hs e n (survivors txs (deliverAll cfg hs e n' txs).2)).2 =
        (deliverAll cfg hs e n' txs).2.filter (·.ok) ∧
      ∃ d', 0 ≤ d' ∧
        ShiftNode d' (deliverAll cfg hs e n (survivors txs (deliverAll cfg hs e n' txs).2)).1
          (deliverAll cfg hs e n' txs).1 := by
  induction txs with
  | nil => intro d n n' hd h _; exact ⟨rfl, d, hd, h⟩
  | cons tx txs ih =>
    intro d n n' hd h h0
    have h0' : n'.dlv.sess = none := h.2.1.sess.trans h0
    rw [deliverAll_cons, survivors_cons]
    simp only
    cases hok : (deliverTx cfg hs e n' tx).2.ok with
    | true =>
      obtain ⟨a1, a2⟩ := deliverTx_room_shift cfg hs e hb d n n' tx hd h
        (fun hl => deliverTx_ok_room cfg hs e n' tx hl hok)
      obtain ⟨i1, i2⟩ := ih d _ _ hd a2 (deliverTx_sess_none cfg hs e n tx h0)
      simp only [if_true, deliverAll_cons, List.filter_cons, hok]
      rw [← a1] at *
      exact ⟨by rw [i1], i2⟩
    | false =>
      obtain ⟨d2, b⟩ := deliverTx_failed_shift cfg hs e hnv n' tx h0' hok
      have hd2 : 0 ≤ d2 := by
        have := deliverTx_mono cfg hs e hb n' tx
        rw [b.consumed] at this
        omega
      obtain ⟨i1, i2⟩ := ih (d + d2) n _ (by omega) (h.trans b) h0
      simp only [List.filter_cons, hok]
      exact ⟨i1, i2⟩

/-! ### block hooks

  The hooks run on the unmetered view of the deliver state (`runHook`): they neither see nor move
  the block's meter, so nothing about them is needed here. `endBlock_shift`, `endBlock_gas` and
  `beginBlock_gas` (Shell/LemmasA) say so. -/

end OLP.Shell
